// C16 — code with static errors never runs; the static check agrees.
//
// Specification: spec/ElvCore/Static.tla (Eval refined into Parse -> Compile -> (Exec | StaticError)).
// M: MCStatic explores the Eval state machine over every chunk of <= MaxLen statements with at
//
//	most one injected defect at every position (action properties NoRunOnStaticError,
//	CheckAgrees, StaticIffDefect).
//
// G: every transition of that model (pre-state, chunk, prescribed class / values / bytes /
//
//	post-state / Check classes) is replayed: fresh Evaler brought to the pre-state, Evaler.Check,
//	Evaler.Eval with capture ports, Evaler.Check again, then the observer (global names through
//	Evaler.Global(), values through an observer chunk); everything is compared.
//
// V: programs of the Core generator (C15) with a defect injected after side-effecting statements,
//
//	judged by TraceStatic (state before = state after, observed through the reference semantics).
package main

import (
	"encoding/json"
	"fmt"
	"os"
	"reflect"
	"sort"
	"strings"
	"sync"
	"time"

	"src.elv.sh/pkg/eval"
	"src.elv.sh/pkg/parse"
	"verif.local/harness/checks/c15/elvcore"
	"verif.local/harness/elv"
	"verif.local/harness/lib"
)

func main() { lib.Main("C16", run) }

const fnName = "vf16"
const extName = "vf16-no-such-command"

type stmt struct {
	S string `json:"s"`
	X string `json:"x,omitempty"`
	V string `json:"v,omitempty"`
	D string `json:"d,omitempty"`
}

type state struct {
	Val map[string]string `json:"val"`
	Fn  string            `json:"fn"`
}

type kase struct {
	Chunk      []stmt   `json:"chunk"`
	Pre        state    `json:"pre"`
	Cls        string   `json:"cls"`
	Out        []string `json:"out"`
	Bytes      int      `json:"bytes"`
	Post       state    `json:"post"`
	Check      string   `json:"check"`
	CheckAfter string   `json:"checkAfter"`
}

var defectText = elvcore.DefectText

// concretise one abstract statement
func (s stmt) text() string {
	switch s.S {
	case "decl":
		return "var " + s.X + " = " + s.V
	case "set":
		return "set " + s.X + " = " + s.V
	case "putlit":
		return "put " + s.V
	case "putvar":
		return "put $" + s.X
	case "echo":
		return "echo e"
	case "deffn":
		return "fn " + fnName + " { put called }"
	case "call":
		return fnName
	case "del":
		return "del " + s.X
	case "fail":
		return "fail boom"
	case "pragma":
		return "pragma unknown-command = disallow"
	case "ext":
		return extName
	case "extreg":
		return "math:floor 1" // math is registered on the Evaler (elv.New) but not imported
	case "extunreg":
		return "nomod:fn foo"
	case "bad":
		if t, ok := defectText[s.D]; ok {
			return t
		}
	}
	panic(fmt.Sprintf("unknown statement %+v", s))
}

func render(c []stmt) string {
	ls := make([]string, len(c))
	for i, s := range c {
		ls[i] = s.text()
	}
	return strings.Join(ls, "\n")
}

// concretise a model state as a setup script
func setup(s state) string {
	var ls []string
	for _, x := range []string{"a", "b"} {
		switch s.Val[x] {
		case "undef":
		case "nil":
			ls = append(ls, "var "+x)
		default:
			ls = append(ls, "var "+x+" = "+s.Val[x])
		}
	}
	switch s.Fn {
	case "def":
		ls = append(ls, "fn "+fnName+" { put called }")
	case "nop":
		ls = append(ls, "var "+fnName+"~")
	}
	return strings.Join(ls, "\n")
}

// observe projects the real Evaler to the model state: names through Evaler.Global(), values
// through an observer chunk.
func observe(ev *eval.Evaler) (state, []string, error) {
	st := state{Val: map[string]string{}, Fn: "undef"}
	g := ev.Global()
	var names []string
	g.IterateKeysString(func(n string) { names = append(names, n) })
	sort.Strings(names)
	for _, x := range []string{"a", "b"} {
		if !g.HasKeyString(x) {
			st.Val[x] = "undef"
			continue
		}
		o := elv.Run(ev, "put $"+x)
		if o.Err != nil || len(o.Values) != 1 {
			return st, names, fmt.Errorf("observer chunk for $%s failed: %v", x, o.Err)
		}
		switch v := o.Values[0].(type) {
		case nil:
			st.Val[x] = "nil"
		case string:
			st.Val[x] = v
		default:
			st.Val[x] = fmt.Sprintf("?%v", v)
		}
	}
	if g.HasKeyString(fnName + "~") {
		o := elv.Run(ev, fnName)
		if o.Err != nil {
			return st, names, fmt.Errorf("observer call of %s failed: %v", fnName, o.Err)
		}
		if len(o.Values) == 1 && o.Values[0] == "called" {
			st.Fn = "def"
		} else if len(o.Values) == 0 {
			st.Fn = "nop"
		} else {
			st.Fn = "?"
		}
	}
	return st, names, nil
}

func checkClass(ev *eval.Evaler, src string) string {
	perr, _, cerr := ev.Check(parse.Source{Name: "[verif]", Code: src}, nil)
	switch {
	case perr != nil:
		return "parse"
	case cerr != nil:
		return "compile"
	}
	return "none"
}

type observed struct {
	Cls        string   `json:"cls"`
	Out        []string `json:"out"`
	Bytes      int      `json:"bytes"`
	Post       state    `json:"post"`
	Check      string   `json:"check"`
	CheckAfter string   `json:"checkAfter"`
	NamesPre   []string `json:"names_pre"`
	NamesPost  []string `json:"names_post"`
}

// replayCase runs one model transition on the real code.
func replayCase(k kase) (observed, string, error) {
	var ob observed
	ev := elv.New()
	if s := setup(k.Pre); s != "" {
		if o := elv.Run(ev, s); o.Err != nil {
			return ob, "", fmt.Errorf("setup %q failed: %v", s, o.Err)
		}
	}
	pre, namesPre, err := observe(ev)
	if err != nil {
		return ob, "", err
	}
	if !reflect.DeepEqual(pre, k.Pre) {
		return ob, "", fmt.Errorf("could not establish pre-state %+v (got %+v)", k.Pre, pre)
	}
	ob.NamesPre = namesPre
	src := render(k.Chunk)
	ob.Check = checkClass(ev, src)
	// Check must not change anything either
	if mid, names, err := observe(ev); err != nil || !reflect.DeepEqual(mid, pre) || !reflect.DeepEqual(names, namesPre) {
		ob.Check += "+changed-state"
	}
	o := elv.RunCtx(ev, src, nil, 20*time.Second)
	if o.Timeout || o.Panic != "" {
		return ob, src, fmt.Errorf("evaluation hung or panicked: %q %s", src, o.Panic)
	}
	switch kind := elvcore.ErrKind(o.Err); kind {
	case "":
		ob.Cls = "none"
	default:
		ob.Cls = kind
	}
	ob.Out = []string{}
	for _, v := range o.Values {
		switch v := v.(type) {
		case nil:
			ob.Out = append(ob.Out, "nil")
		case string:
			ob.Out = append(ob.Out, v)
		default:
			ob.Out = append(ob.Out, fmt.Sprintf("?%v", v))
		}
	}
	if string(o.Bytes) == strings.Repeat("e\n", len(o.Bytes)/2) {
		ob.Bytes = len(o.Bytes) / 2
	} else {
		ob.Bytes = -1
	}
	ob.CheckAfter = checkClass(ev, src)
	ob.Post, ob.NamesPost, err = observe(ev)
	if err != nil {
		return ob, src, err
	}
	return ob, src, nil
}

func openFDs() int {
	ents, _ := os.ReadDir("/proc/self/fd")
	return len(ents)
}

func kinds(c []stmt) string {
	var ks []string
	for _, s := range c {
		if s.S == "bad" {
			ks = append(ks, "bad:"+s.D)
		} else {
			ks = append(ks, s.S)
		}
	}
	return strings.Join(ks, ",")
}

// compare the observation with the prescribed outcome; returns "" or the name of the first
// differing component
func differs(k kase, ob observed) string {
	if k.Out == nil {
		k.Out = []string{}
	}
	switch {
	case ob.Cls != k.Cls:
		return "class"
	case !reflect.DeepEqual(ob.Out, k.Out):
		return "values"
	case ob.Bytes != k.Bytes:
		return "bytes"
	case !reflect.DeepEqual(ob.Post, k.Post):
		return "state"
	case ob.Check != k.Check:
		return "check-before"
	case ob.CheckAfter != k.CheckAfter:
		return "check-after"
	}
	if k.Cls == "parse" || k.Cls == "compile" {
		if !reflect.DeepEqual(ob.NamesPre, ob.NamesPost) {
			return "global-names"
		}
	}
	return ""
}

func cfgText(maxLen int, wide bool) []byte {
	w := "FALSE"
	if wide {
		w = "TRUE"
	}
	return []byte(fmt.Sprintf("CONSTANTS MaxLen = %d Wide = %s\nCONSTANT Stmts <- StmtsDef\nSPECIFICATION Spec\nVIEW View\nINVARIANT TypeOK\nPROPERTY NoRunOnStaticError\nPROPERTY CheckAgrees\nPROPERTY StaticIffDefect\nACTION_CONSTRAINT EmitT\n", maxLen, w))
}

func run(c *lib.Ctx) error {
	if c.Replay != "" {
		return replay(c)
	}
	dir := c.SpecDir("ElvCore")
	c.Set("rule", "G: one case per transition (pre-state, chunk) of the exhaustive model, distinct by (pre-state, rendered chunk); chunks without any output, state change or error are not counted as non-trivial")
	type conf struct {
		maxLen int
		wide   bool
	}
	confs := []conf{{2, false}, {2, true}}
	if c.Thorough() {
		confs = []conf{{3, false}, {2, true}}
	}
	var bounds []any
	total := 0
	perClass := map[string]int{}
	for _, cf := range confs {
		bounds = append(bounds, map[string]any{"MaxLen": cf.maxLen, "Wide": cf.wide})
		n, err := runConf(c, dir, cf.maxLen, cf.wide, perClass)
		if err != nil {
			return err
		}
		total += n
	}
	c.Set("bounds", bounds)
	if err := validated(c); err != nil {
		return err
	}
	c.AddTraces(total)
	c.Set("exhaustive", true)
	c.Set("cases_per_class", perClass)
	c.Assume("TLC trusted; the executor's concretisation table (statement -> source text, model state -> setup script) and the observer (Evaler.Global() names, `put $x`, calling the function)")
	return nil
}

// runConf: M + G for one vocabulary / chunk length.
func runConf(c *lib.Ctx, dir string, maxLen int, wide bool, perClass map[string]int) (int, error) {
	name := fmt.Sprintf("MCStatic(MaxLen=%d,Wide=%v)", maxLen, wide)
	r, err := c.TLC(name, lib.TLCRun{Dir: dir, Module: "MCStatic", Workers: 4, Timeout: 12 * time.Minute, HeapGB: 6,
		Files: map[string][]byte{"MCStatic.cfg": cfgText(maxLen, wide)}})
	if err != nil {
		return 0, err
	}
	if r.ErrKind != "" {
		return 0, lib.Infra("the Static model violates its own property %s %s:\n%s", r.ErrKind, r.ErrName, r.ErrTrace)
	}
	lines := r.PrintedStrings()
	c.Logf("%s: %d distinct states, %d transitions, %d cases emitted", name, r.Distinct, r.Generated, len(lines))
	if int64(len(lines)) < r.Generated-1 {
		return 0, lib.Infra("TLC generated %d transitions but emitted %d cases", r.Generated, len(lines))
	}
	cases := make([]kase, len(lines))
	for i, l := range lines {
		if err := json.Unmarshal([]byte(l), &cases[i]); err != nil {
			return 0, lib.Infra("bad case from TLC: %v: %s", err, l)
		}
	}
	var mu sync.Mutex
	var firstErr error
	lib.Parallel(len(cases), 8, func(i int) {
		k := cases[i]
		ob, src, err := replayCase(k)
		mu.Lock()
		defer mu.Unlock()
		if err != nil {
			if firstErr == nil {
				firstErr = lib.Infra("case %d: %v", i, err)
			}
			return
		}
		c.AddEvals(1)
		perClass[k.Cls]++
		if i < 3 {
			c.Sample(map[string]any{"case": k, "src": src})
		}
		if k.Cls != "none" || len(k.Out) > 0 || k.Bytes > 0 || !reflect.DeepEqual(k.Pre, k.Post) {
			c.Distinct([]any{k.Pre, src})
		}
		if d := differs(k, ob); d != "" {
			c.Reject("static:"+d+":"+kinds(k.Chunk), fmt.Sprintf("pre %+v chunk %q: specification prescribes %+v, real code gave %+v (differs in %s)",
				k.Pre, src, map[string]any{"cls": k.Cls, "out": k.Out, "bytes": k.Bytes, "post": k.Post, "check": k.Check, "checkAfter": k.CheckAfter}, ob, d), k)
		}
	})
	if firstErr != nil {
		return 0, firstErr
	}
	c.Logf("open fds after G replay: %d", openFDs())
	if err := compileOnlyCases(c, cases); err != nil {
		return 0, err
	}
	c.Logf("open fds after compileonly: %d", openFDs())
	return len(cases), nil
}

func replay(c *lib.Ctx) error {
	b, err := os.ReadFile(c.Replay)
	if err != nil {
		return lib.Infra("%v", err)
	}
	var f struct {
		Case kase `json:"case"`
	}
	if err := json.Unmarshal(b, &f); err != nil {
		return lib.Infra("%v", err)
	}
	k := f.Case
	ob, src, err := replayCase(k)
	if err != nil {
		return lib.Infra("%v", err)
	}
	if d := differs(k, ob); d != "" {
		c.Reject("static:"+d+":"+kinds(k.Chunk), fmt.Sprintf("chunk %q: prescribed %+v, got %+v", src, k, ob), k)
	}
	return nil
}
