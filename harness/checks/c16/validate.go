package main

import (
	"encoding/json"
	"fmt"
	"sort"
	"strings"
	"time"

	"src.elv.sh/pkg/eval"
	"verif.local/harness/checks/c15/elvcore"
	"verif.local/harness/elv"
	"verif.local/harness/lib"
)

func globalNames(ev *eval.Evaler) []string {
	var names []string
	ev.Global().IterateKeysString(func(n string) { names = append(names, n) })
	sort.Strings(names)
	return names
}

func cloneNode(n *elvcore.Node) *elvcore.Node {
	b, err := json.Marshal(n)
	if err != nil {
		panic(err)
	}
	m, err := elvcore.FromJSON(b)
	if err != nil {
		panic(err)
	}
	return m
}

// staticProgram runs one Core program with a defective copy of chunk k inserted before chunk k,
// followed by an observer chunk reading every global variable.
func staticProgram(g *elvcore.Gen, chunks []*elvcore.Node) ([]elvcore.Event, error) {
	ev, err := elvcore.NewEvaler(g.Mods)
	if err != nil {
		return nil, err
	}
	evs := []elvcore.Event{elvcore.ResetEvent(g.Mods...)}
	k := g.R.Intn(len(chunks))
	for i, ch := range chunks {
		if i == k {
			bad := cloneNode(ch)
			kind := elvcore.NestableDefects[g.R.Intn(len(elvcore.NestableDefects))]
			nested := g.R.Intn(3) == 0
			if !nested || !elvcore.InjectDefect(bad, kind, g.R.Intn(8), true) {
				// after at least one (side-effecting) statement when there is one
				pos := len(bad.Ps)
				if pos > 1 {
					pos = 1 + g.R.Intn(pos)
				}
				elvcore.InjectDefect(bad, kind, pos, false)
			}
			src := elvcore.Render(bad)
			namesBefore := globalNames(ev)
			e := elvcore.Event{Ev: "static", Ast: elvcore.Chunk(), Out: []any{}, Byt: []int{}, Exc: elvcore.J{"c": "ok"}, Src: src, Kinds: []string{kind}, Mods: [][2]any{}}
			e.Check = checkClass(ev, src)
			o := elv.RunCtx(ev, src, nil, 30*time.Second)
			if o.Timeout || o.Panic != "" {
				return nil, fmt.Errorf("evaluation hung or panicked: %q %s", src, o.Panic)
			}
			e.Cls = elvcore.ErrKind(o.Err)
			if e.Cls == "" {
				e.Cls = "none"
			}
			e.NOut, e.NBytes = len(o.Values), len(o.Bytes)
			e.CheckAfter = checkClass(ev, src)
			namesAfter := globalNames(ev)
			e.Names = strings.Join(namesBefore, "\x00") == strings.Join(namesAfter, "\x00")
			evs = append(evs, e)
			// observer: read every global variable
			var args []*elvcore.Node
			for _, n := range namesAfter {
				if !strings.HasSuffix(n, ":") {
					args = append(args, elvcore.Var(n))
				}
			}
			if len(args) > 0 {
				oe, err := runChecked(ev, elvcore.Chunk(elvcore.Stmt(elvcore.Cmd("put", args...))))
				if err != nil {
					return nil, err
				}
				evs = append(evs, oe)
			}
		}
		e, err := runChecked(ev, ch)
		if err != nil {
			return nil, err
		}
		evs = append(evs, e)
	}
	return evs, nil
}

// runChecked: Evaler.Check on the chunk in the current context, then the evaluation.
func runChecked(ev *eval.Evaler, ch *elvcore.Node) (elvcore.Event, error) {
	chk := checkClass(ev, elvcore.Render(ch))
	e, err := elvcore.RunChunk(ev, ch)
	e.Check = chk
	return e, err
}

// validated: V.  Core programs with an injected defect, judged by TraceStatic.
func validated(c *lib.Ctx) error {
	nprog := c.Pick(600, 6000)
	progs := make([][]elvcore.Event, nprog)
	errs := make([]error, nprog)
	lib.Parallel(nprog, 8, func(i int) {
		g := elvcore.NewGen(c.Seed*7_000_003+int64(i), elvcore.CoreFeatures)
		chunks := g.Program(2+g.R.Intn(3), 4, 3, 400)
		progs[i], errs[i] = staticProgram(g, chunks)
	})
	for _, e := range errs {
		if e != nil {
			return lib.Infra("%v", e)
		}
	}
	var flat []elvcore.Event
	var start []int
	kinds := map[string]int{}
	for _, p := range progs {
		start = append(start, len(flat))
		flat = append(flat, p...)
		for _, e := range p {
			if e.Ev == "static" {
				kinds[e.Kinds[0]]++
				c.AddEvals(1)
				c.Distinct(e.Src)
			}
		}
	}
	c.Sample(progs[0])
	c.Logf("open fds after V recording: %d", openFDs())
	bad, err := lib.JudgeGroups(c, "TraceStatic(V)", c.SpecDir("ElvCore"), "TraceStatic", progs, 8, 10*time.Minute)
	if err != nil {
		return err
	}
	oom := 0
	for _, b := range bad {
		kind, _ := b.Info[0].(string)
		if kind == "oom" {
			oom++
			continue
		}
		gi := sort.SearchInts(start, b.Index+1) - 1
		e := flat[b.Index]
		if kind == "check-valid" {
			c.Reject("static-v:check-valid", fmt.Sprintf("Evaler.Check reports a %v error for chunk %q, which Evaler.Eval then compiled and ran in the same context", b.Info[1:], e.Src), flat[start[gi]:b.Index+1])
			continue
		}
		if kind == "static" {
			c.Reject("static-v:"+e.Kinds[0]+":"+e.Cls, fmt.Sprintf("defective chunk %q (injected %v): real code gave class=%s values=%d bytes=%d check=%s/%s names-unchanged=%v; specification prescribes class %v, no output, Check agreeing, names unchanged",
				e.Src, e.Kinds, e.Cls, e.NOut, e.NBytes, e.Check, e.CheckAfter, e.Names, b.Info[1:]), flat[start[gi]:b.Index+1])
			continue
		}
		got, _ := json.Marshal(map[string]any{"out": e.Out, "exc": e.Exc})
		c.Reject("static-v:state", fmt.Sprintf("chunk `%s` after a statically defective chunk: real Evaler gave %s; reference semantics on the unchanged state prescribes %v", e.Src, got, b.Info[1:]), flat[start[gi]:b.Index+1])
	}
	c.AddTraces(nprog)
	c.Set("v_programs", nprog)
	c.Set("v_out_of_model_programs", oom)
	c.Set("v_defect_kinds", kinds)
	c.Logf("V: %d programs with an injected defect, %d left the model, %d rejected", nprog, oom, len(bad)-oom)
	return nil
}
