package main

import (
	"fmt"
	"io"
	"os"

	"src.elv.sh/pkg/prog"
	"src.elv.sh/pkg/shell"
	"verif.local/harness/lib"
)

// compileOnly runs `elvish -compileonly -c <code>` in process through the real program entry
// point (pkg/prog.Run with pkg/shell.Program, as cmd/elvish does) and returns the exit status and
// what was written to stdout.
func compileOnly(code string) (int, string, error) {
	in, err := os.Open(os.DevNull)
	if err != nil {
		return 0, "", err
	}
	defer in.Close()
	out, err := os.CreateTemp("", "c16-out-")
	if err != nil {
		return 0, "", err
	}
	defer os.Remove(out.Name())
	defer out.Close()
	errf, err := os.OpenFile(os.DevNull, os.O_WRONLY, 0)
	if err != nil {
		return 0, "", err
	}
	defer errf.Close()
	status := prog.Run([3]*os.File{in, out, errf}, []string{"elvish", "-compileonly", "-c", code}, &shell.Program{})
	out.Seek(0, 0)
	b, _ := io.ReadAll(out)
	return status, string(b), nil
}

// compileOnlyCases: for the cases whose pre-state is the initial state (the context of a fresh
// `elvish -compileonly`), the exit status must be 2 exactly when the specification's Check reports
// a static error, and nothing may be written to stdout.
func compileOnlyCases(c *lib.Ctx, cases []kase) error {
	n := 0
	for _, k := range cases {
		if k.Pre.Fn != "undef" || k.Pre.Val["a"] != "undef" || k.Pre.Val["b"] != "undef" {
			continue
		}
		src := render(k.Chunk)
		status, stdout, err := compileOnly(src)
		if err != nil {
			return lib.Infra("running elvish -compileonly in process: %v", err)
		}
		n++
		c.AddEvals(1)
		wantErr := k.Check != "none"
		if (status == 2) != wantErr || (status != 2 && status != 0) || stdout != "" {
			c.Reject("static:compileonly:"+kinds(k.Chunk), fmt.Sprintf("`elvish -compileonly -c %q`: exit status %d, stdout %q; specification prescribes Check = %s (status %d, no output)",
				src, status, stdout, k.Check, map[bool]int{true: 2, false: 0}[wantErr]), k)
		}
	}
	c.Inc("compileonly_runs", int64(n))
	return nil
}
