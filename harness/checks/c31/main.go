// C31 — terminal input decoding is total and lossless for plain text.
// M: MCTermReader (Record = FALSE): the decoder's state graph over the per-phase alphabet:
//
//	Total (all 256 bytes), NeverBlocksMidSequence, BlockOnlyAtBoundary; MCTermText: PlainTextLossless.
//
// G: MCTermReader (Record = TRUE): every byte string of length L over the per-phase alphabet with
//
//	the Timeout action taken or not wherever enabled, and MCTermText's texts / directed scripts:
//	each behaviour (bytes, timeouts, prescribed request class and emission per read) is fed to the
//	real readEvent through a fake ReadByteWithTimeout that records the requested timeout.
//
// V: random biased byte streams with random late delivery, and random plain UTF-8 text, recorded
//
//	read by read and judged by the stateful TLC walker TraceTermReader.
package main

import (
	"encoding/json"
	"errors"
	"fmt"
	"os"
	"strings"
	"sync"
	"time"

	"src.elv.sh/pkg/cli/term"
	"verif.local/harness/lib"
)

func main() { lib.Main("C31", run) }

// ---- the fake byte source

type rec struct {
	A   int    `json:"a"`   // byte served, -1 timeout, -2 reset
	Req string `json:"req"` // "block" | "finite" | "" (reset)
	K   string `json:"k"`   // kind of the event returned right after this read, or ""
	N   int    `json:"n"`
	R   int    `json:"r"`
	M   int    `json:"m"`
}

var errEOF = errors.New("verif: end of script")

type source struct {
	script []int // bytes and -1 (scripted timeout)
	pos    int
	late   func() bool // V mode: decides whether a finite read times out (nil: scripted only)
	delays []int       // per script position: 1 = the byte arrives late (just under the granted timeout)
	recs   []rec
	eof    bool
	nbytes int // bytes served during the current readEvent call
}

func (s *source) ReadByteWithTimeout(t time.Duration) (byte, error) {
	req := "finite"
	if t < 0 {
		req = "block"
	} else if t == 0 {
		req = "zero" // a poll: neither "wait for ever" nor a positive timeout
	}
	if s.pos >= len(s.script) {
		if req == "block" {
			s.eof = true
			return 0, errEOF
		}
		s.recs = append(s.recs, rec{A: -1, Req: req, R: -1})
		return 0, term.VerifErrTimeout
	}
	if s.script[s.pos] == -1 {
		s.pos++
		s.recs = append(s.recs, rec{A: -1, Req: req, R: -1})
		return 0, term.VerifErrTimeout
	}
	if s.late != nil && req == "finite" && s.late() {
		s.recs = append(s.recs, rec{A: -1, Req: req, R: -1})
		return 0, term.VerifErrTimeout
	}
	if s.delays != nil && s.pos < len(s.delays) && s.delays[s.pos] == 1 {
		// a "late" byte: it arrives just before the timeout the decoder granted expires (real
		// waiting, because the decoder may consult the clock); a longer wait on a slow machine only
		// makes more time pass -- the verdict is on the REQUESTED timeouts, never on measured time
		d := t * 95 / 100
		if t < 0 || t > time.Second {
			d = term.VerifKeySeqTimeout() * 95 / 100
		} else if t < term.VerifKeySeqTimeout()/2 {
			d = t
		}
		time.Sleep(d)
	}
	b := s.script[s.pos]
	s.pos++
	s.nbytes++
	s.recs = append(s.recs, rec{A: b, Req: req, R: -1})
	return byte(b), nil
}

// decode runs the real decoder over the script until the source is exhausted at an event
// boundary. It returns the per-read records; panic != "" if the decoder panicked.
func decode(script []int, late func() bool) (recs []rec, panicMsg string, evals int) {
	return decodeTimed(script, nil, late)
}

func decodeTimed(script, delays []int, late func() bool) (recs []rec, panicMsg string, evals int) {
	src := &source{script: script, late: late, delays: delays}
	defer func() {
		if r := recover(); r != nil {
			recs, panicMsg = src.recs, fmt.Sprint(r)
		}
	}()
	for iter := 0; iter <= 2*len(script)+4; iter++ {
		src.nbytes = 0
		before := len(src.recs)
		ev, err := term.VerifReadEvent(src)
		evals++
		if src.eof {
			if len(src.recs) != before {
				// bytes were consumed and then a blocking read hit the end: leave them unattributed;
				// the judge reports the missing event / the blocking request.
			}
			return src.recs, "", evals
		}
		if len(src.recs) == before {
			return src.recs, "readEvent returned without reading", evals
		}
		last := &src.recs[len(src.recs)-1]
		last.N = src.nbytes
		switch e := ev.(type) {
		case term.KeyEvent:
			last.K, last.R, last.M = "Key", int(e.Rune), int(e.Mod)
		case term.MouseEvent:
			last.K = "Mouse"
		case term.CursorPosition:
			last.K = "CursorPosition"
		case term.PasteSetting:
			last.K = "PasteSetting"
		default:
			last.K = "None"
		}
		if err != nil {
			last.K, last.R, last.M = "Error", -1, 0
		}
	}
	return src.recs, "decoder does not make progress", evals
}

// ---- G

type outT struct {
	Kinds []string `json:"kinds"`
	N     int      `json:"n"`
	Rune  int      `json:"rune"`
}
type step struct {
	A   int    `json:"a"`
	Dl  int    `json:"dl"` // 1 = this byte arrives late (timing scripts)
	Req string `json:"req"`
	Out outT   `json:"out"`
}

func scriptOf(beh []step) []int {
	s := make([]int, len(beh))
	for i, st := range beh {
		s[i] = st.A
	}
	return s
}

func has(set []string, k string) bool {
	for _, x := range set {
		if x == k {
			return true
		}
	}
	return false
}

// compare the real records with the prescribed behaviour; "" = conforms.
func compare(beh []step, recs []rec) (string, int) {
	for i, st := range beh {
		if i >= len(recs) {
			return "missing-read", i
		}
		r := recs[i]
		if r.Req != st.Req {
			return "requested-timeout", i
		}
		if r.A != st.A {
			return "served-differs", i // cannot happen unless the request class differed
		}
		if len(st.Out.Kinds) == 0 {
			if r.K != "" {
				return "early-event", i
			}
			continue
		}
		switch {
		case r.K == "":
			return "missing-event", i
		case !has(st.Out.Kinds, r.K):
			return "event-kind", i
		case r.N != st.Out.N:
			return "bytes-consumed", i
		case st.Out.Rune >= 0 && (r.K != "Key" || r.R != st.Out.Rune || r.M != 0):
			return "plain-character", i
		}
	}
	if len(recs) > len(beh) {
		return "extra-read", len(beh)
	}
	return "", 0
}

func phaseTag(script []int, upto int) string {
	// structural tag of the failing position: the bytes of the current sequence as classes
	var sb strings.Builder
	start := 0
	for i := 0; i <= upto && i < len(script); i++ {
		if script[i] == 27 && (i == 0 || script[i-1] != 27) {
			start = i
		}
	}
	for i := start; i <= upto && i < len(script); i++ {
		sb.WriteString(class(script[i]))
	}
	return sb.String()
}

func class(b int) string {
	switch {
	case b == -1:
		return "T"
	case b == 27:
		return "E"
	case b >= '0' && b <= '9':
		return "d"
	case b == '[' || b == 'O' || b == '<' || b == 'M' || b == 'm' || b == 'R' || b == '~' || b == ';':
		return string(rune(b))
	case b < 32 || b == 127:
		return "c"
	case b < 128:
		return "a"
	case b < 192:
		return "C"
	case b < 224:
		return "2"
	case b < 240:
		return "3"
	case b < 248:
		return "4"
	}
	return "X"
}

func delaysOf(beh []step) []int {
	var d []int
	for i, st := range beh {
		if st.Dl == 1 {
			if d == nil {
				d = make([]int, len(beh))
			}
			d[i] = 1
		}
	}
	return d
}

func replayBehaviour(c *lib.Ctx, beh []step) {
	script := scriptOf(beh)
	delays := delaysOf(beh)
	recs, pm, ev := decodeTimed(script, delays, nil)
	c.AddEvals(ev)
	if pm != "" {
		c.Reject("decoder:"+pm+":"+phaseTag(script, len(recs)), fmt.Sprintf("script %v: %s", script, pm), map[string]any{"script": script, "delays": delays})
		return
	}
	if why, at := compare(beh, recs); why != "" {
		var got any
		if at < len(recs) {
			got = recs[at]
		}
		var want any
		if at < len(beh) {
			want = beh[at]
		}
		c.Reject("g:"+why+":"+phaseTag(script, at), fmt.Sprintf("script %v (late bytes %v), read %d: real decoder %+v, specification prescribes %+v", script, delays, at+1, got, want), map[string]any{"script": script, "delays": delays})
	}
}

func nontrivial(script []int) bool {
	for _, b := range script {
		if b == 27 || b >= 128 || b == -1 {
			return true
		}
	}
	return false
}

type reps struct{ Ascii, Digit, Ctrl, U2, U3, U4, Cont, Cont2, Bad, FinK, FinU int }

func pick(c *lib.Ctx, xs ...int) int { return xs[c.Rand.Intn(len(xs))] }

func chooseReps(c *lib.Ctx) reps {
	return reps{
		Ascii: pick(c, 'a', 'z', 'q', ' ', '!', '_', '{', 'E'),
		Digit: pick(c, '0', '1', '2', '5', '9'),
		Ctrl:  pick(c, 0, 1, 8, 9, 10, 13, 28, 31, 127),
		U2:    pick(c, 0xC2, 0xC3, 0xD0, 0xDF),
		U3:    pick(c, 0xE1, 0xE4, 0xEA, 0xEF),
		U4:    pick(c, 0xF1, 0xF3, 0xF4, 0xF7),
		Cont:  pick(c, 0x80, 0x9B, 0xA9, 0xB0),
		Cont2: 0xBF,
		Bad:   pick(c, 0xF8, 0xFC, 0xFE, 0xFF),
		FinK:  pick(c, 'A', 'B', 'C', 'D', 'H', 'F', 'Z', 'a', 'd', 'P', 'Q', 'S'),
		FinU:  pick(c, 'x', 'y', 'E', 'G', 'q', '$', '^', '@', '!', ' '),
	}
}

func (r reps) cfg(L, maxN int, record bool) []byte {
	rec := "FALSE"
	tail := "CONSTRAINT Bound\nINVARIANT InvType\nINVARIANT InvNoBlock\nINVARIANT InvBoundary\nINVARIANT InvTotal\nPROPERTY TimeoutEnds\n"
	if record {
		rec = "TRUE"
		tail = "INVARIANT InvType\nINVARIANT InvNoBlock\nINVARIANT InvBoundary\nINVARIANT EmitB\n"
	}
	return []byte(fmt.Sprintf("CONSTANTS L = %d MaxN = %d Record = %s\n RAscii = %d RDigit = %d RCtrl = %d RU2 = %d RU3 = %d RU4 = %d RCont = %d RCont2 = %d RBad = %d RFinK = %d RFinU = %d\nSPECIFICATION Spec\n%s",
		L, maxN, rec, r.Ascii, r.Digit, r.Ctrl, r.U2, r.U3, r.U4, r.Cont, r.Cont2, r.Bad, r.FinK, r.FinU, tail))
}

func run(c *lib.Ctx) error {
	dir := c.SpecDir("TermReader")
	if c.Replay != "" {
		return replay(c, dir)
	}
	c.Set("rule", "G: a behaviour is (byte string, timeout placement), distinct by script; non-trivial = contains ESC, a non-ASCII byte or a timeout. V: one case per read call of the real decoder; distinct by (stream prefix class) is not attempted: streams are counted by their byte/timeout script")
	rp := chooseReps(c)
	L := c.Pick(4, 5)
	K := c.Pick(2, 3)
	c.Set("bounds", map[string]any{"L": L, "K_text": K, "representatives": rp})

	var wg sync.WaitGroup
	var core, strs, text *lib.TLCResult
	var e1, e2, e3 error
	var ntm int
	var e4 error
	wg.Add(4)
	go func() { // G: timing scripts (slow, long sequences; the byte source really waits)
		defer wg.Done()
		ntm, e4 = timing(c, dir)
	}()
	go func() {
		defer wg.Done()
		core, e1 = c.TLC("MCTermReader(core)", lib.TLCRun{Dir: dir, Module: "MCTermReader", Workers: 1, Timeout: 5 * time.Minute,
			Files: map[string][]byte{"MCTermReader.cfg": rp.cfg(L, 8, false)}})
	}()
	go func() {
		defer wg.Done()
		strs, e2 = c.TLC("MCTermReader(strings)", lib.TLCRun{Dir: dir, Module: "MCTermReader", Workers: 3, Timeout: 12 * time.Minute, HeapGB: 8,
			Files: map[string][]byte{"MCTermReader.cfg": rp.cfg(L, 99, true)}})
	}()
	go func() {
		defer wg.Done()
		text, e3 = c.TLC("MCTermText", lib.TLCRun{Dir: dir, Module: "MCTermText", Workers: 1, Timeout: 10 * time.Minute,
			Files: map[string][]byte{"MCTermText.cfg": []byte(fmt.Sprintf("CONSTANT K = %d\nSPECIFICATION Spec\nINVARIANT TimeoutsLegal\nINVARIANT PlainTextLossless\nINVARIANT PoolIsPlain\nINVARIANT EmitB\n", K))}})
	}()
	wg.Wait()
	for _, e := range []error{e1, e2, e3, e4} {
		if e != nil {
			return e
		}
	}
	for _, r := range []*lib.TLCResult{core, strs, text} {
		if r.ErrKind != "" {
			return lib.Infra("the decoder model violates its own property %s %s:\n%s", r.ErrKind, r.ErrName, r.ErrTrace)
		}
	}
	c.Logf("core: %d decoder states; strings: %d behaviours states; text: %d states", core.Distinct, strs.Distinct, text.Distinct)

	// ---- G: strings
	seen := map[string]bool{}
	nb := 0
	for _, line := range strs.PrintedStrings() {
		if seen[line] {
			continue
		}
		seen[line] = true
		var beh []step
		if err := json.Unmarshal([]byte(line), &beh); err != nil {
			return lib.Infra("bad behaviour from TLC: %v: %s", err, line)
		}
		replayBehaviour(c, beh)
		nb++
		sc := scriptOf(beh)
		if nontrivial(sc) {
			c.Distinct(sc)
		}
		if nb == 1 || nb == 5000 {
			c.Sample(beh)
		}
	}
	if nb == 0 {
		return lib.Infra("TLC emitted no behaviours")
	}
	c.Set("g_string_behaviours", nb)
	c.Logf("G strings: %d behaviours replayed", nb)
	// ---- G: texts and directed scripts
	seen = map[string]bool{}
	nt := 0
	for _, line := range text.PrintedStrings() {
		if seen[line] {
			continue
		}
		seen[line] = true
		var tc struct {
			Txt   []int  `json:"txt"`
			Steps []step `json:"steps"`
		}
		if err := json.Unmarshal([]byte(line), &tc); err != nil {
			return lib.Infra("bad text case from TLC: %v: %s", err, line)
		}
		replayBehaviour(c, tc.Steps)
		nt++
		c.Distinct(scriptOf(tc.Steps))
		if nt == 30 {
			c.Sample(tc)
		}
	}
	c.Set("g_text_and_script_behaviours", nt)
	c.AddTraces(nb + nt + ntm)
	c.Set("exhaustive", true)

	// ---- V
	if err := validate(c, dir); err != nil {
		return err
	}
	c.Assume("TLC trusted; the byte source is a fake ReadByteWithTimeout (the file reader's select/poll is not exercised); which (final byte, arguments) are known keys / well-formed reports is data of the real tables, abstracted to 'the kind for that final byte, or Error'; a stray continuation/invalid byte may be an event or an error; a character split by more than the UTF-8 timeout is an Error (limit, see notes)")
	return nil
}

func replay(c *lib.Ctx, dir string) error {
	b, err := os.ReadFile(c.Replay)
	if err != nil {
		return lib.Infra("%v", err)
	}
	var f struct {
		Case struct {
			Script []int `json:"script"`
			Late   []int `json:"late"`
			Delays []int `json:"delays"`
		} `json:"case"`
	}
	if err := json.Unmarshal(b, &f); err != nil {
		return lib.Infra("%v", err)
	}
	recs, pm, ev := decodeTimed(f.Case.Script, f.Case.Delays, lateFrom(f.Case.Late))
	c.AddEvals(ev)
	if pm != "" {
		c.Reject("decoder:"+pm+":"+phaseTag(f.Case.Script, len(recs)), pm, f.Case)
		return nil
	}
	return judge(c, dir, "TraceTermReader(replay)", []stream{{script: f.Case.Script, late: f.Case.Late, recs: recs}})
}
