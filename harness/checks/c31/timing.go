package main

import (
	"encoding/json"
	"fmt"
	"sync"
	"time"

	"verif.local/harness/lib"
)

// timing replays MCTermTiming's scripts: ESC-prefixed sequences with up to KMax parameter bytes,
// each byte arriving at once or just under the timeout the decoder granted, ending in a pause or a
// final byte. The scripts wait in real time (a decoder that keeps a time budget per sequence must
// be given the chance to exhaust it), so they run concurrently; what is compared is, as everywhere,
// the requested timeout class of every read and the emissions.
func timing(c *lib.Ctx, dir string) (int, error) {
	kmax := c.Pick(14, 24)
	r, err := c.TLC("MCTermTiming", lib.TLCRun{Dir: dir, Module: "MCTermTiming", Workers: 2, Timeout: 10 * time.Minute,
		Files: map[string][]byte{"MCTermTiming.cfg": []byte(fmt.Sprintf("CONSTANT KMax = %d\nSPECIFICATION Spec\nINVARIANT InvTime\nINVARIANT InvBounded\nPROPERTY PauseEnds\nINVARIANT EmitB\n", kmax))}})
	if err != nil {
		return 0, err
	}
	if r.ErrKind != "" {
		return 0, lib.Infra("the timing model violates its own property %s %s:\n%s", r.ErrKind, r.ErrName, r.ErrTrace)
	}
	seen := map[string]bool{}
	var behs [][]step
	for _, line := range r.PrintedStrings() {
		if seen[line] {
			continue
		}
		seen[line] = true
		var beh []step
		if err := json.Unmarshal([]byte(line), &beh); err != nil {
			return 0, lib.Infra("bad timing script from TLC: %v: %.200s", err, line)
		}
		behs = append(behs, beh)
	}
	if len(behs) == 0 {
		return 0, lib.Infra("MCTermTiming emitted no scripts")
	}
	t0 := time.Now()
	var wg sync.WaitGroup
	sem := make(chan struct{}, 64)
	nlate := 0
	for _, beh := range behs {
		if delaysOf(beh) != nil {
			nlate++
		}
		wg.Add(1)
		sem <- struct{}{}
		go func(beh []step) {
			defer wg.Done()
			defer func() { <-sem }()
			replayBehaviour(c, beh)
		}(beh)
	}
	wg.Wait()
	for _, beh := range behs {
		c.Distinct([]any{scriptOf(beh), delaysOf(beh)})
	}
	c.Sample(behs[len(behs)/2])
	c.Set("g_timing_scripts", map[string]any{"scripts": len(behs), "with_late_bytes": nlate, "KMax": kmax, "replay_wall_s": time.Since(t0).Seconds()})
	c.Logf("G timing: %d scripts (%d with late bytes) replayed in %.1fs", len(behs), nlate, time.Since(t0).Seconds())
	return len(behs), nil
}
