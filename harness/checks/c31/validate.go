package main

import (
	"fmt"
	"math/rand"
	"time"
	"unicode/utf8"

	"verif.local/harness/lib"
)

type stream struct {
	script []int
	late   []int // decision per finite read that has a byte available: 1 = time out first
	recs   []rec
	text   bool
}

func lateFrom(dec []int) func() bool {
	if len(dec) == 0 {
		return nil
	}
	i := 0
	return func() bool {
		if i >= len(dec) {
			return false
		}
		i++
		return dec[i-1] == 1
	}
}

var templates = []string{
	"\x1b[A", "\x1b[1;5A", "\x1b[1;2D", "\x1b[Z", "\x1b[H", "\x1b[3~", "\x1b[3;5~", "\x1b[27;5;9~", "\x1b[200~", "\x1b[201~",
	"\x1b[15~", "\x1b[24;2~", "\x1b[3^", "\x1b[3$", "\x1b[7@", "\x1bOP", "\x1bOA", "\x1bOd", "\x1b\x1b[A", "\x1b\x1bOP",
	"\x1b[3;4R", "\x1b[30;120R", "\x1b[<0;1;2M", "\x1b[<35;10;20m", "\x1b[<0;1M", "\x1b[M !!", "\x1b[M#\xe4\xbd\xa0!", "\x1ba", "\x1b\x7f", "\x1b\x1b",
	"\x1b[", "\x1bO", "\x1b[1", "\x1b[1;", "\x1b[<", "\x1b[<0;", "\x1b[M", "\x1b[M ", "\x1b[M !", "\x1b[1;5", "\x1b[;;;;A", "\x1b[;5A",
}

func appendBytes(dst []int, s string) []int {
	for i := 0; i < len(s); i++ {
		dst = append(dst, int(s[i]))
	}
	return dst
}

func randRune(rng *rand.Rand) rune {
	for {
		var r rune
		switch rng.Intn(10) {
		case 0, 1, 2:
			r = rune(32 + rng.Intn(95))
		case 3:
			r = rune(0xA0 + rng.Intn(0x760))
		case 4:
			r = rune(0x300 + rng.Intn(0x70)) // combining
		case 5:
			r = rune(0x4E00 + rng.Intn(0x5000))
		case 6:
			r = rune(0x1F300 + rng.Intn(0x400))
		case 7:
			r = []rune{0x7FF, 0x800, 0xFFFD, 0xFFFF, 0x10000, 0x10FFFF, 0xD7FF, 0xE000, 0x200D, 0xFE0F, 0x80 + 0x20}[rng.Intn(11)]
		case 8:
			r = rune(0x800 + rng.Intn(0xF800))
		default:
			r = rune(0x10000 + rng.Intn(0x100000))
		}
		if utf8.ValidRune(r) && r >= 32 && r != 127 && !(r >= 128 && r <= 159) {
			return r
		}
	}
}

func randStream(rng *rand.Rand) stream {
	max := 20 + rng.Intn(181)
	var sc []int
	for len(sc) < max {
		switch rng.Intn(16) {
		case 0, 1, 2:
			sc = appendBytes(sc, templates[rng.Intn(len(templates))])
		case 3:
			sc = append(sc, 27)
		case 4:
			sc = appendBytes(sc, []string{"[", "O", "<", "M", "m", "R", "~", ";"}[rng.Intn(8)])
		case 5:
			for k := rng.Intn(4) + 1; k > 0; k-- {
				sc = append(sc, '0'+rng.Intn(10))
			}
		case 6:
			sc = append(sc, 32+rng.Intn(95))
		case 7:
			sc = appendBytes(sc, string(randRune(rng)))
		case 8: // truncated character
			s := string(randRune(rng))
			sc = appendBytes(sc, s[:1+rng.Intn(len(s))])
		case 9:
			sc = append(sc, rng.Intn(256))
		case 10:
			sc = append(sc, 0x80+rng.Intn(0x40))
		case 11:
			sc = append(sc, []int{0xC0, 0xC1, 0xE0, 0xF0, 0xF5, 0xF8, 0xFF, 0xED}[rng.Intn(8)])
		case 12:
			sc = append(sc, rng.Intn(32))
		case 13:
			sc = appendBytes(sc, "\x1b[")
		case 14:
			sc = appendBytes(sc, "\x1b[<")
		default:
			sc = appendBytes(sc, "\x1b[M")
		}
	}
	if len(sc) > 200 {
		sc = sc[:200]
	}
	p := []float64{0, 0.03, 0.15, 0.5}[rng.Intn(4)]
	late := make([]int, 2*len(sc))
	for i := range late {
		if rng.Float64() < p {
			late[i] = 1
		}
	}
	if p == 0 {
		late = nil
	}
	return stream{script: sc, late: late}
}

func randText(rng *rand.Rand) stream {
	n := 5 + rng.Intn(120)
	var sc []int
	for i := 0; i < n && len(sc) < 196; i++ {
		sc = appendBytes(sc, string(randRune(rng)))
	}
	return stream{script: sc, text: true}
}

func validate(c *lib.Ctx, dir string) error {
	ns, nt := c.Pick(250, 3000), c.Pick(150, 1500)
	streams := make([]stream, 0, ns+nt)
	for i := 0; i < ns; i++ {
		streams = append(streams, randStream(c.Rand))
	}
	for i := 0; i < nt; i++ {
		streams = append(streams, randText(c.Rand))
	}
	nread := 0
	for i := range streams {
		s := &streams[i]
		recs, pm, ev := decode(s.script, lateFrom(s.late))
		c.AddEvals(ev)
		if pm != "" {
			c.Reject("decoder:"+pm+":"+phaseTag(s.script, len(recs)), fmt.Sprintf("stream %v: %s", s.script, pm), map[string]any{"script": s.script, "late": s.late})
			recs = nil
		}
		s.recs = recs
		nread += len(recs)
		c.Distinct(s.script)
	}
	c.Set("v_streams", map[string]any{"random": ns, "text": nt, "reads": nread})
	c.Sample(map[string]any{"script": streams[0].script, "first_reads": streams[0].recs[:min(8, len(streams[0].recs))]})
	if err := judge(c, dir, "TraceTermReader(V)", streams); err != nil {
		return err
	}
	c.AddTraces(len(streams))
	// vacuity guard: one corrupted record must be rejected
	return vacuity(c, dir, streams)
}

func judge(c *lib.Ctx, dir, name string, streams []stream) error {
	// keep every TLC process at <= ~40 000 records: batches of 160 000 reads
	total := 0
	for i, s := range streams {
		total += len(s.recs) + 1
		if total > 160000 && i+1 < len(streams) {
			if err := judge(c, dir, name, streams[:i+1]); err != nil {
				return err
			}
			return judge(c, dir, name, streams[i+1:])
		}
	}
	groups := make([][]rec, len(streams))
	for i, s := range streams {
		groups[i] = append([]rec{{A: -2, R: -1}}, s.recs...)
	}
	bad, err := lib.JudgeGroups(c, name, dir, "TraceTermReader", groups, 4, 12*time.Minute)
	if err != nil {
		return err
	}
	starts := make([]int, len(groups))
	off := 0
	for i, g := range groups {
		starts[i] = off
		off += len(g)
	}
	for _, b := range bad {
		gi := 0
		for i, s := range starts {
			if s <= b.Index {
				gi = i
			}
		}
		s := streams[gi]
		at := b.Index - starts[gi] - 1
		why := "?"
		if len(b.Info) > 0 {
			why = fmt.Sprint(b.Info[0])
		}
		var got any
		if at >= 0 && at < len(s.recs) {
			got = s.recs[at]
		}
		// position in the script of the failing read
		pos := 0
		for i := 0; i < at && i < len(s.recs); i++ {
			if s.recs[i].A >= 0 {
				pos++
			}
		}
		c.Reject("v:"+why+":"+phaseTag(s.script, pos), fmt.Sprintf("stream %v late %v, read %d: real decoder %+v; specification: %v", s.script, s.late, at+1, got, b.Info), map[string]any{"script": s.script, "late": s.late})
	}
	return nil
}

func vacuity(c *lib.Ctx, dir string, streams []stream) error {
	var pickS *stream
	for i := range streams {
		if streams[i].text && len(streams[i].recs) > 3 {
			pickS = &streams[i]
			break
		}
	}
	if pickS == nil {
		return nil
	}
	recs := append([]rec{}, pickS.recs...)
	for i := range recs {
		if recs[i].K == "Key" {
			recs[i].R++ // a wrong character
			break
		}
	}
	g := [][]rec{append([]rec{{A: -2, R: -1}}, recs...)}
	bad, err := lib.JudgeGroups(c, "TraceTermReader(vacuity)", dir, "TraceTermReader", g, 1, 5*time.Minute)
	if err != nil {
		return err
	}
	if len(bad) == 0 {
		return lib.Infra("vacuity guard: a corrupted record was accepted by TraceTermReader")
	}
	c.Set("vacuity_guard", "corrupted Key rune rejected")
	return nil
}
