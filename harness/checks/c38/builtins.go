package main

import (
	"encoding/json"
	"fmt"
	"os"
	"strconv"
	"strings"

	"src.elv.sh/pkg/cli/clitest"
	"src.elv.sh/pkg/edit"
	"src.elv.sh/pkg/eval"
	"src.elv.sh/pkg/eval/vals"
	"verif.local/harness/elv"
)

func readFile(p string) ([]byte, error) { return os.ReadFile(p) }

// builtins holds a small pool of interpreters with the flag: module imported and an edit:
// namespace (an Editor on a fake terminal; it is never started).
type builtins struct {
	pool chan *eval.Evaler
}

func newBuiltins() *builtins {
	b := &builtins{pool: make(chan *eval.Evaler, 4)}
	for i := 0; i < 4; i++ {
		ev := elv.New()
		tty, _ := clitest.NewFakeTTY()
		ed := edit.NewEditor(tty, ev, nil)
		ev.ExtendBuiltin(eval.BuildNs().AddNs("edit", ed))
		elv.Run(ev, "use flag")
		b.pool <- ev
	}
	return b
}

func specsCode(cm *charMap, sa []specA, completers bool) string {
	var sb strings.Builder
	sb.WriteString("[")
	for i, s := range sa {
		fmt.Fprintf(&sb, "[&id=%d", i+1)
		if s.Short >= 0 {
			fmt.Fprintf(&sb, " &short=%s", elv.Quote(cm.str([]int{s.Short})))
		}
		if len(s.Long) > 0 {
			fmt.Fprintf(&sb, " &long=%s", elv.Quote(cm.str(s.Long)))
		}
		switch s.Arity {
		case "req":
			sb.WriteString(" &arg-required=$true")
		case "opt":
			sb.WriteString(" &arg-optional=$true")
		}
		if completers {
			fmt.Fprintf(&sb, " &completer={|x| put [optarg %d $x]}", i+1)
		}
		sb.WriteString("] ")
	}
	sb.WriteString("]")
	return sb.String()
}

func argsCode(cm *charMap, a [][]int) string {
	var ws []string
	for _, t := range a {
		ws = append(ws, elv.Quote(cm.str(t)))
	}
	return "[" + strings.Join(ws, " ") + "]"
}

func boolCode(b bool) string {
	if b {
		return "$true"
	}
	return "$false"
}

// flag:parse-getopt: on success two values (flags with spec/arg/long, non-flag arguments), an
// exception when Parse reports an error.
func (b *builtins) flagParseGetopt(g *gen, gc *gcase, cm *charMap, ps [][]json.RawMessage, unspec bool) {
	if unspec {
		return
	}
	c := g.c
	code := fmt.Sprintf("flag:parse-getopt %s %s &stop-after-double-dash=%s &stop-before-non-flag=%s &long-only=%s",
		argsCode(cm, gc.A), specsCode(cm, gc.Specs, false), boolCode(gc.G&1 != 0), boolCode(gc.G&2 != 0), boolCode(gc.G&4 != 0))
	ev := <-b.pool
	o := elv.Run(ev, code)
	b.pool <- ev
	c.AddEvals(1)
	g.mu.Lock()
	g.nFlag++
	g.mu.Unlock()
	key := keyOf(gc.G, gc.Specs, gc.A, "flag:parse-getopt")
	if o.Panic != "" {
		c.Reject(key, fmt.Sprintf("flag:parse-getopt panics: %s: %s", firstLine(o.Panic), code), replayFile{Kind: "g", G: gc, Map: 0})
		return
	}
	var got []any // [opts as [spec,long,arg], rest, err]
	if o.Err != nil {
		got = []any{[]any{}, []any{}, true}
		if len(o.Values) != 0 {
			got[2] = "error-and-output"
		}
	} else if len(o.Values) == 2 {
		opts := []any{}
		ok := true
		if l, isList := o.Values[0].(vals.List); isList {
			for it := l.Iterator(); it.HasElem(); it.Next() {
				m := it.Elem()
				spec, _ := vals.Index(m, "spec")
				id, _ := vals.Index(spec, "id")
				arg, _ := vals.Index(m, "arg")
				long, _ := vals.Index(m, "long")
				ids, _ := id.(string)
				n, err := strconv.Atoi(ids)
				args, isStr := arg.(string)
				longb, isBool := long.(bool)
				if err != nil || !isStr || !isBool {
					ok = false
					break
				}
				opts = append(opts, []any{n, longb, cm.chars(args)})
			}
		} else {
			ok = false
		}
		rest, isL := elv.ListStrings(o.Values[1])
		if !ok || (!isL && !isEmptyList(o.Values[1])) {
			got = []any{"malformed output"}
		} else {
			got = []any{opts, cm.textsT(rest), false}
		}
	} else {
		got = []any{"wrong number of outputs", len(o.Values)}
	}
	gs := canon(got)
	for _, w := range ps {
		if gs == canon(dropNames(w)) {
			return
		}
	}
	c.Reject(key, fmt.Sprintf("flag:parse-getopt: %s -> %s (err %v); prescribed %s", code, gs, o.Err, canon(dropNames(ps[0]))), replayFile{Kind: "g", G: gc, Map: 0})
}

func isEmptyList(v any) bool {
	l, ok := v.(vals.List)
	return ok && l.Len() == 0
}

// dropNames projects a prescribed parse [opts, rest, err, unspec] to what the builtin shows:
// options as [spec, long, arg]; nothing but the error when there is one.
func dropNames(w []json.RawMessage) []any {
	if string(w[2]) == "true" {
		return []any{[]any{}, []any{}, true}
	}
	var opts [][]any
	json.Unmarshal(w[0], &opts)
	out := []any{}
	for _, o := range opts {
		out = append(out, []any{o[0], o[1], o[3]})
	}
	return []any{out, w[1], false}
}

// edit:complete-getopt (always GNU): which handler/completer is called with what, or which
// option candidates are offered.
func (b *builtins) editCompleteGetopt(g *gen, gc *gcase, cm *charMap, want json.RawMessage) {
	c := g.c
	var hs []string
	for i := 0; i <= len(gc.A); i++ {
		hs = append(hs, fmt.Sprintf("{|x| put [arg %d $x]}", i))
	}
	code := fmt.Sprintf("edit:complete-getopt %s %s [%s]", argsCode(cm, gc.A), specsCode(cm, gc.Specs, true), strings.Join(hs, " "))
	ev := <-b.pool
	o := elv.Run(ev, code)
	b.pool <- ev
	c.AddEvals(1)
	g.mu.Lock()
	g.nEdit++
	g.mu.Unlock()
	key := keyOf(gc.G, gc.Specs, gc.A, "edit:complete-getopt")
	if o.Panic != "" {
		c.Reject(key, fmt.Sprintf("edit:complete-getopt panics: %s: %s", firstLine(o.Panic), code), replayFile{Kind: "g", G: gc, Map: 0})
		return
	}
	var got []any
	switch {
	case o.Err != nil:
		got = []any{"error", o.Err.Error()}
	case len(o.Values) == 1 && isList(o.Values[0]):
		ss, _ := elv.ListStrings(o.Values[0])
		if len(ss) == 3 {
			n, _ := strconv.Atoi(ss[1])
			got = []any{ss[0], n, cm.chars(ss[2])}
		} else {
			got = []any{"malformed", ss}
		}
	default:
		stems := []any{}
		for _, v := range o.Values {
			st, ok := vals.Index(v, "stem")
			s, isStr := st.(string)
			if ok != nil || !isStr {
				stems = append(stems, "not-a-candidate")
				continue
			}
			stems = append(stems, cm.chars(s))
		}
		got = []any{"stems", stems}
	}
	if canon(got) != canon(want) {
		c.Reject(key, fmt.Sprintf("edit:complete-getopt: %s -> %s; prescribed %s", code, canon(got), want), replayFile{Kind: "g", G: gc, Map: 0})
	}
}

func isList(v any) bool { _, ok := v.(vals.List); return ok }

func firstLine(s string) string {
	if i := strings.IndexByte(s, '\n'); i >= 0 {
		return s[:i]
	}
	return s
}
