package main

import (
	"fmt"
	"math/rand"

	"verif.local/harness/lib"
)

var identity = charMaps[0]

// record runs the real Parse and Complete on an abstract case (characters are code points here).
func record(g int, specs []specA, a [][]int) vcase {
	rs := identity.specs(specs)
	args := identity.args(a)
	cfg := cfgOf(g)
	v := vcase{G: g, Specs: specs, A: a}
	rp := identity.doParse(args, rs, cfg)
	v.Hp, v.P = true, rp.t
	v.C = []any{[]any{}, []any{}, "none", []any{}, []int{}}
	if rp.pan != "" {
		v.Pan = true
	}
	if len(args) > 0 {
		rc := identity.doComplete(args, rs, cfg)
		v.Hc, v.C = true, rc.t
		if rc.pan != "" {
			v.Pan = true
		}
	}
	return v
}

func rerecord(v vcase) vcase { return record(v.G, v.Specs, v.A) }

// randomCases builds longer lists over richer alphabets: options of the specs in every written
// form, unknown options, abbreviations, "-", "--", "", words, values with "=" and "-" inside.
// Left to the directed probes (pool "extra"): the empty long name, bytes that are not UTF-8, NUL.
func randomCases(c *lib.Ctx, n int) []vcase {
	rnd := rand.New(rand.NewSource(c.Seed*7919 + 38))
	letters := []int{'a', 'b', 'c', 'v', 'é', 'ß', '你', '😀', '0', '_', 'Z'}
	pick := func(xs []int) int { return xs[rnd.Intn(len(xs))] }
	word := func(min, max int, extra []int) []int {
		l := min + rnd.Intn(max-min+1)
		out := []int{}
		for i := 0; i < l; i++ {
			if len(extra) > 0 && rnd.Intn(4) == 0 {
				out = append(out, pick(extra))
			} else {
				out = append(out, pick(letters))
			}
		}
		return out
	}
	var out []vcase
	for len(out) < n {
		// specs: distinct shorts, distinct longs
		ns := rnd.Intn(5)
		specs := []specA{}
		usedS := map[int]bool{}
		usedL := map[string]bool{}
		for len(specs) < ns {
			s := specA{Short: -1, Long: []int{}, Arity: []string{"no", "req", "opt"}[rnd.Intn(3)]}
			form := rnd.Intn(3)
			if form != 1 {
				ch := pick(letters)
				if usedS[ch] {
					continue
				}
				s.Short = ch
			}
			if form != 0 {
				var name []int
				if rnd.Intn(3) == 0 {
					name = append(word(1, 2, nil), '-')
					name = append(name, word(1, 2, nil)...)
				} else {
					name = word(1, 3, nil)
				}
				if usedL[fmt.Sprint(name)] {
					continue
				}
				usedL[fmt.Sprint(name)] = true
				s.Long = name
			}
			if s.Short >= 0 {
				usedS[s.Short] = true
			}
			specs = append(specs, s)
		}
		var shorts []int
		var longs [][]int
		for _, s := range specs {
			if s.Short >= 0 {
				shorts = append(shorts, s.Short)
			}
			if len(s.Long) > 0 {
				longs = append(longs, s.Long)
			}
		}
		value := func() []int {
			switch rnd.Intn(5) {
			case 0:
				return []int{}
			case 1:
				return append([]int{'-'}, word(0, 2, nil)...)
			default:
				return word(1, 3, []int{'=', '-'})
			}
		}
		la := 1 + rnd.Intn(c.Pick(8, 12))
		var a [][]int
		for len(a) < la {
			var t []int
			switch rnd.Intn(12) {
			case 0:
				t = []int{}
			case 1:
				t = []int{'-'}
			case 2:
				t = []int{'-', '-'}
			case 3, 4:
				t = word(1, 3, []int{'=', '-'})
				if t[0] == '-' {
					t[0] = 'w'
				}
			case 5, 6, 7: // short chain
				t = []int{'-'}
				l := 1 + rnd.Intn(4)
				for i := 0; i < l; i++ {
					switch {
					case len(shorts) > 0 && rnd.Intn(3) != 0:
						t = append(t, pick(shorts))
					case rnd.Intn(5) == 0:
						t = append(t, '=')
					case rnd.Intn(6) == 0 && i > 0:
						t = append(t, '-')
					default:
						t = append(t, pick(letters))
					}
				}
				if t[1] == '-' || t[1] == '=' {
					t[1] = 'q'
				}
			case 8, 9, 10: // long
				dashes := []int{'-', '-'}
				if rnd.Intn(3) == 0 {
					dashes = []int{'-'}
				}
				var name []int
				switch {
				case len(longs) > 0 && rnd.Intn(4) != 0:
					name = longs[rnd.Intn(len(longs))]
					if rnd.Intn(6) == 0 && len(name) > 1 { // abbreviation
						name = name[:1+rnd.Intn(len(name)-1)]
					}
				default:
					name = word(1, 3, nil)
				}
				t = append(append([]int{}, dashes...), name...)
				if rnd.Intn(2) == 0 {
					t = append(append(t, '='), value()...)
				}
			case 11:
				t = []int{'-', '-', '-'}
			}
			a = append(a, t)
		}
		g := rnd.Intn(8)
		out = append(out, record(g, specs, a))
		c.Distinct(fmt.Sprintf("v|%d|%v|%v", g, specs, a))
		c.AddEvals(2)
	}
	return out
}
