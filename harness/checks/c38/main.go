// C38 — option parsing matches GNU/BSD getopt_long semantics (spec/Getopt).
//
//	M: MCGetopt.cfg — design invariants of the scanner state machine (one action per element,
//	   accounting, stop is final, GNU permutation, BSD suffix, Complete = Parse on all but the last).
//	G: GenGetopt.cfg — TLC enumerates spec sets x configurations x argument lists with the
//	   prescribed Parse and Complete results; every case is replayed through getopt.Parse and
//	   getopt.Complete (two concretisations of the letters), and through the builtins
//	   flag:parse-getopt and edit:complete-getopt.
//	V: random longer lists (and the generated cases that are Unspecified): results recorded from
//	   the real code, judged by JudgeGetopt.tla.
package main

import (
	"encoding/json"
	"fmt"
	"os"
	"strings"
	"sync"
	"time"

	"verif.local/harness/lib"
)

func main() {
	// TLC runs many small models here; on a loaded machine the parallel collector's thread
	// pool only adds contention.
	os.Setenv("JDK_JAVA_OPTIONS", "-XX:ParallelGCThreads=2 -XX:CICompilerCount=2")
	lib.Main("C38", run)
}

type genRun struct {
	name       string
	pool       string
	maxLen     int
	sets       []int // spec-set numbers
	exactLen   bool  // only lists of exactly maxLen are emitted
	builtinMod int   // every builtinMod-th case also goes through the Elvish builtins (0 = none)
	perJob     int   // spec sets per TLC process (0 = 6)
}

// l9 is an orthogonal array of strength 2 over the three arities of the three options of
// SpecSet(n), n = 9*i + 3*j + k + 1: every pair of arities of two options occurs.
var l9 = []int{1, 5, 9, 11, 15, 16, 21, 22, 26}

func seq(lo, hi int) []int {
	var out []int
	for i := lo; i <= hi; i++ {
		out = append(out, i)
	}
	return out
}

func run(c *lib.Ctx) error {
	if c.Replay != "" {
		return replay(c)
	}
	dir := c.SpecDir("Getopt")
	c.Set("rule", "a case is (configuration, option specs, argument list); distinct by that triple after concretisation is undone; non-trivial = the list is non-empty")

	// ---- M
	mMax, mPool, mSets := 4, "tiny", "{15}"
	if c.Thorough() {
		var nums []string
		for i := 1; i <= 30; i++ {
			nums = append(nums, fmt.Sprint(i))
		}
		mMax, mPool, mSets = 4, "tiny", "{"+strings.Join(nums, ", ")+"}" // cfg files have no `..`
	}
	c.Set("model_bounds", map[string]any{"max_len": mMax, "pool": mPool, "spec_sets": mSets})
	mcfg := fmt.Sprintf("CONSTANT MaxLen = %d\nCONSTANT PoolSel = \"%s\"\nCONSTANT SpecNums = %s\nINIT Init\nNEXT Next\n"+
		"INVARIANT SpecsOK\nINVARIANT OneAction\nINVARIANT ScanAgrees\nINVARIANT RestIsNonOptions\nINVARIANT StopIsFinal\nINVARIANT PendingOK\n"+
		"INVARIANT Accounting\nINVARIANT GNUPermutation\nINVARIANT BSDSuffix\nINVARIANT CompleteIsParse\n", mMax, mPool, mSets)
	var wg sync.WaitGroup
	var mErr error
	wg.Add(1)
	go func() {
		defer wg.Done()
		r, err := c.TLC("MCGetopt", lib.TLCRun{Dir: dir, Module: "MCGetopt", Workers: c.Pick(2, 4), Timeout: 25 * time.Minute,
			Files: map[string][]byte{"MCGetopt.cfg": []byte(mcfg)}})
		if err != nil {
			mErr = err
			return
		}
		if r.ErrKind != "" {
			mErr = lib.Infra("design invariant of the Getopt scanner fails in the model itself: %s\n%s", r.Err, r.ErrTrace)
			return
		}
		c.Set("model_states", r.Distinct)
	}()

	// ---- G
	var runs []genRun
	if c.Quick() {
		runs = []genRun{
			{name: "full2", pool: "full", maxLen: 2, sets: seq(1, 30), builtinMod: 3},
			{name: "small3", pool: "small", maxLen: 3, sets: []int{1, 9, 15, 22, 26, 30}, exactLen: true, builtinMod: 5, perJob: 3},
			{name: "extra2", pool: "extra", maxLen: 2, sets: []int{5, 28, 29, 30}, builtinMod: 1},
		}
	} else {
		runs = []genRun{
			{name: "full2", pool: "full", maxLen: 2, sets: seq(1, 30), builtinMod: 2},
			{name: "small3", pool: "small", maxLen: 3, sets: seq(1, 30), exactLen: true, builtinMod: 7, perJob: 5},
			{name: "full3", pool: "full", maxLen: 3, sets: []int{1, 15, 26}, builtinMod: 11, perJob: 1},
			{name: "tiny4", pool: "tiny", maxLen: 4, sets: append(append([]int{}, l9...), 30), exactLen: true, builtinMod: 7, perJob: 5},
			{name: "extra2", pool: "extra", maxLen: 2, sets: []int{5, 11, 28, 29, 30}, builtinMod: 1},
		}
	}
	c.Set("bounds", map[string]any{"runs": describe(runs)})
	g := newGen(c, dir)
	if err := g.runAll(runs); err != nil {
		wg.Wait()
		return err
	}
	c.Set("exhaustive", true)
	c.Set("generated_cases", g.nCases)
	c.Set("unspecified_cases", g.nUnspec)
	c.Set("builtin_cases", map[string]any{"flag:parse-getopt": g.nFlag, "edit:complete-getopt": g.nEdit})

	// ---- V
	vc := randomCases(c, c.Pick(6000, 40000))
	// the Unspecified generated cases are only held to SaneResult: a seeded sample in the quick tier
	us := g.unspec
	if c.Quick() && len(us) > 3000 {
		c.Rand.Shuffle(len(us), func(i, j int) { us[i], us[j] = us[j], us[i] })
		us = us[:3000]
	}
	c.Set("unspecified_cases_judged", len(us))
	all := append(us, vc...)
	c.Logf("judging %d recorded cases (%d unspecified generated, %d random)", len(all), len(us), len(vc))
	bad, err := lib.Judge(c, "JudgeGetopt", dir, "JudgeGetopt", all, c.Pick(2, 6), 25*time.Minute)
	if err != nil {
		wg.Wait()
		return err
	}
	c.AddTraces(len(all))
	if len(vc) > 0 {
		c.Sample(vc[0])
	}
	for _, b := range bad {
		k := all[b.Index]
		why := fmt.Sprint(b.Info...)
		if why == "out-of-model" {
			return lib.Infra("generator produced an out-of-model case: %s", mustJSON(k))
		}
		c.Reject(keyOf(k.G, k.Specs, k.A, why), fmt.Sprintf("recorded result rejected by JudgeGetopt (%s): %s", why, mustJSON(k)), replayFile{Kind: "v", V: &k})
	}
	wg.Wait()
	if mErr != nil {
		return mErr
	}
	c.Assume("TLC is trusted; the prescribed results are the reading of pkg/getopt's package documentation and website/ref/flag.md (Getopt convention) stated in spec/Getopt/Getopt.tla; error messages are not compared, only error/no error and the Unknown flags")
	c.Assume("letters are concretised as ASCII and as multi-byte runes; a byte that is not UTF-8 in a short-option position is reported as U+FFFD (ShortName)")
	return nil
}

func describe(runs []genRun) []map[string]any {
	var out []map[string]any
	for _, r := range runs {
		out = append(out, map[string]any{"name": r.name, "pool": r.pool, "max_len": r.maxLen, "spec_sets": len(r.sets), "exact_len": r.exactLen})
	}
	return out
}

func mustJSON(v any) string {
	b, _ := json.Marshal(v)
	return string(b)
}
