package main

import (
	"encoding/json"
	"fmt"
	"sort"
	"strings"
	"sync"
	"time"
	"unicode/utf8"

	"src.elv.sh/pkg/getopt"
	"verif.local/harness/lib"
)

// ---- abstract forms (what TLC prints / the judge reads)

type specA struct {
	Short int    `json:"short"` // -1 = none
	Long  []int  `json:"long"`
	Arity string `json:"arity"`
}

// a generated case line of MCGetopt!Emit
type gcase struct {
	G int               `json:"g"`
	N int               `json:"n"`
	A [][]int           `json:"a"`
	P json.RawMessage   `json:"p"`
	Q []json.RawMessage `json:"q"`
	C []json.RawMessage `json:"c"`
	D []json.RawMessage `json:"d"`
	E []json.RawMessage `json:"e"`
	// filled in by the executor
	Specs []specA `json:"specs,omitempty"`
}

type specLine struct {
	N     int     `json:"n"`
	Specs []specA `json:"specs"`
	Pool  int     `json:"pool"`
}

// a recorded case for JudgeGetopt
type vcase struct {
	G     int     `json:"g"`
	Specs []specA `json:"specs"`
	A     [][]int `json:"a"`
	Pan   bool    `json:"pan"`
	Hp    bool    `json:"hp"`
	P     []any   `json:"p"`
	Hc    bool    `json:"hc"`
	C     []any   `json:"c"`
}

type replayFile struct {
	Kind string `json:"kind"` // "g" | "v"
	G    *gcase `json:"g,omitempty"`
	V    *vcase `json:"v,omitempty"`
	Map  int    `json:"map"`
}

// ---- concretisation: characters -> strings, and back (kept together)

const maxRune = 0x10FFFF

type charMap struct {
	name string
	fwd  map[int]rune
	inv  map[rune]int
}

func newCharMap(name string, m map[int]rune) *charMap {
	cm := &charMap{name: name, fwd: m, inv: map[rune]int{}}
	for k, v := range m {
		cm.inv[v] = k
	}
	return cm
}

// the letters of the generated cases are a=97 b=98 x=120
var charMaps = []*charMap{
	newCharMap("ascii", map[int]rune{}),
	newCharMap("multibyte", map[int]rune{97: 'é', 98: '你', 120: '😀'}),
	newCharMap("mixed", map[int]rune{97: 'Z', 98: 'ß', 120: '0'}),
	newCharMap("wide", map[int]rune{97: '😀', 98: 'b', 120: 'é'}),
}

func (cm *charMap) str(cs []int) string {
	var sb strings.Builder
	for _, ch := range cs {
		if r, ok := cm.fwd[ch]; ok {
			sb.WriteRune(r)
		} else if ch > maxRune {
			sb.WriteByte(byte(ch - maxRune - 1))
		} else {
			sb.WriteRune(rune(ch))
		}
	}
	return sb.String()
}

func (cm *charMap) chars(s string) []int {
	out := []int{}
	for i := 0; i < len(s); {
		r, w := utf8.DecodeRuneInString(s[i:])
		if r == utf8.RuneError && w == 1 {
			out = append(out, maxRune+1+int(s[i]))
		} else if k, ok := cm.inv[r]; ok {
			out = append(out, k)
		} else {
			out = append(out, int(r))
		}
		i += w
	}
	return out
}

func (cm *charMap) char(r rune) int {
	if k, ok := cm.inv[r]; ok {
		return k
	}
	return int(r)
}

func (cm *charMap) specs(sa []specA) []*getopt.OptionSpec {
	out := make([]*getopt.OptionSpec, len(sa))
	for i, s := range sa {
		o := &getopt.OptionSpec{Long: cm.str(s.Long)}
		if s.Short >= 0 {
			r, _ := utf8.DecodeRuneInString(cm.str([]int{s.Short}))
			o.Short = r
		}
		switch s.Arity {
		case "req":
			o.Arity = getopt.RequiredArgument
		case "opt":
			o.Arity = getopt.OptionalArgument
		}
		out[i] = o
	}
	return out
}

func (cm *charMap) args(a [][]int) []string {
	out := make([]string, len(a))
	for i, t := range a {
		out[i] = cm.str(t)
	}
	return out
}

func cfgOf(g int) getopt.Config {
	var c getopt.Config
	if g&1 != 0 {
		c |= getopt.StopAfterDoubleDash
	}
	if g&2 != 0 {
		c |= getopt.StopBeforeFirstNonOption
	}
	if g&4 != 0 {
		c |= getopt.LongOnly
	}
	return c
}

// ---- projection of real results to the abstract tuples

func (cm *charMap) optT(o *getopt.Option, specs []*getopt.OptionSpec) []any {
	if o == nil || o.Spec == nil {
		return []any{-2, false, []int{}, []int{}}
	}
	idx := 0
	for i, s := range specs {
		if s == o.Spec {
			idx = i + 1
		}
	}
	if o.Unknown != (idx == 0) {
		idx = -1 // Unknown flag and spec identity disagree: matches nothing
	}
	var name []int
	if o.Long {
		name = cm.chars(o.Spec.Long)
	} else {
		name = []int{cm.char(o.Spec.Short)}
	}
	return []any{idx, o.Long, name, cm.chars(o.Argument)}
}

func (cm *charMap) optsT(os []*getopt.Option, specs []*getopt.OptionSpec) []any {
	out := []any{}
	for _, o := range os {
		out = append(out, cm.optT(o, specs))
	}
	return out
}

func (cm *charMap) textsT(ss []string) []any {
	out := []any{}
	for _, s := range ss {
		out = append(out, cm.chars(s))
	}
	return out
}

type realParse struct {
	pan string
	t   []any // [opts, rest, err]
}

func (cm *charMap) doParse(args []string, specs []*getopt.OptionSpec, cfg getopt.Config) (rp realParse) {
	defer func() {
		if r := recover(); r != nil {
			rp = realParse{pan: fmt.Sprint(r), t: []any{[]any{}, []any{}, false}}
		}
	}()
	opts, rest, err := getopt.Parse(args, specs, cfg)
	return realParse{t: []any{cm.optsT(opts, specs), cm.textsT(rest), err != nil}}
}

type realComp struct {
	pan string
	t   []any // [opts, rest, ctxType, ctxOpt, ctxText]
}

// Context.Option is documented for OptionArgument only, Context.Text for LongOption and Argument
// only: the projection keeps exactly the documented fields.
func (cm *charMap) doComplete(args []string, specs []*getopt.OptionSpec, cfg getopt.Config) (rc realComp) {
	defer func() {
		if r := recover(); r != nil {
			rc = realComp{pan: fmt.Sprint(r), t: []any{[]any{}, []any{}, "panic", []any{}, []int{}}}
		}
	}()
	opts, rest, ctx := getopt.Complete(args, specs, cfg)
	co := []any{}
	if ctx.Type == getopt.OptionArgument {
		co = append(co, cm.optT(ctx.Option, specs))
	}
	text := []int{}
	if ctx.Type == getopt.LongOption || ctx.Type == getopt.Argument {
		text = cm.chars(ctx.Text)
	}
	return realComp{t: []any{cm.optsT(opts, specs), cm.textsT(rest), ctx.Type.String(), co, text}}
}

func canon(v any) string {
	b, err := json.Marshal(v)
	if err != nil {
		panic(err)
	}
	var x any
	if err := json.Unmarshal(b, &x); err != nil {
		panic(err)
	}
	b, _ = json.Marshal(x)
	return string(b)
}

func tuple(raw json.RawMessage, n int) ([]json.RawMessage, error) {
	var t []json.RawMessage
	if err := json.Unmarshal(raw, &t); err != nil {
		return nil, err
	}
	if len(t) != n {
		return nil, fmt.Errorf("tuple of %d, want %d: %s", len(t), n, raw)
	}
	return t, nil
}

// ---- rendering and keys

func render(cm *charMap, g int, specs []specA, a [][]int) string {
	var sb strings.Builder
	fmt.Fprintf(&sb, "cfg=%v specs=[", cfgOf(g))
	for i, s := range specs {
		if i > 0 {
			sb.WriteString(" ")
		}
		sh := ""
		if s.Short >= 0 {
			sh = cm.str([]int{s.Short})
		}
		fmt.Fprintf(&sb, "{%q %q %s}", sh, cm.str(s.Long), s.Arity)
	}
	fmt.Fprintf(&sb, "] args=%q", cm.args(a))
	return sb.String()
}

// keyOf gives the structural key of a rejected case. The three classes of known defects get
// a class key (they are probed by the "extra" pool); everything else is keyed by the case itself.
func keyOf(g int, specs []specA, a [][]int, what string) string {
	lo := g&4 != 0
	hasShortOnly, hasLongOnly := false, false
	for _, s := range specs {
		if len(s.Long) == 0 {
			hasShortOnly = true
		}
		if s.Short < 0 {
			hasLongOnly = true
		}
	}
	var feats []string
	for _, t := range a {
		for _, ch := range t {
			if ch > maxRune {
				feats = append(feats, "invalid-utf8")
			}
			if ch == 0 && hasLongOnly && !lo {
				feats = append(feats, "nul-short")
			}
		}
		if hasShortOnly && ((len(t) >= 3 && t[0] == 45 && t[1] == 45 && t[2] == 61) || (lo && len(t) >= 2 && t[0] == 45 && t[1] == 61)) {
			feats = append(feats, "empty-long-name")
		}
	}
	if len(feats) > 0 {
		sort.Strings(feats)
		return "class:" + feats[0]
	}
	return fmt.Sprintf("case:%s:%s", what, render(charMaps[0], g, specs, a))
}

// ---- the generator side

type gen struct {
	c       *lib.Ctx
	dir     string
	mu      sync.Mutex
	nCases  int
	nUnspec int
	nFlag   int
	nEdit   int
	unspec  []vcase
	blt     *builtins
}

func newGen(c *lib.Ctx, dir string) *gen {
	return &gen{c: c, dir: dir, blt: newBuiltins()}
}

func (g *gen) runAll(runs []genRun) error {
	type job struct {
		r    genRun
		sets []int
	}
	var jobs []job
	for _, r := range runs {
		per := r.perJob
		if per == 0 {
			per = 6
		}
		for i := 0; i < len(r.sets); i += per {
			j := i + per
			if j > len(r.sets) {
				j = len(r.sets)
			}
			jobs = append(jobs, job{r, r.sets[i:j]})
		}
	}
	var firstErr error
	var emu sync.Mutex
	lib.Parallel(len(jobs), 3, func(i int) {
		emu.Lock()
		failed := firstErr != nil
		emu.Unlock()
		if failed {
			return
		}
		if err := g.runOne(jobs[i].r, jobs[i].sets); err != nil {
			emu.Lock()
			if firstErr == nil {
				firstErr = err
			}
			emu.Unlock()
		}
	})
	return firstErr
}

func (g *gen) runOne(r genRun, sets []int) error {
	c := g.c
	var nums []string
	for _, n := range sets {
		nums = append(nums, fmt.Sprint(n))
	}
	cfg := fmt.Sprintf("CONSTANT MaxLen = %d\nCONSTANT PoolSel = \"%s\"\nCONSTANT SpecNums = {%s}\nINIT Init\nNEXT Next\nINVARIANT Emit\n",
		r.maxLen, r.pool, strings.Join(nums, ", "))
	res, err := c.TLC("GenGetopt:"+r.name, lib.TLCRun{Dir: g.dir, Module: "MCGetopt", Cfg: "GenGetopt.cfg", Workers: 2, Timeout: 25 * time.Minute, HeapGB: 3,
		Files: map[string][]byte{"GenGetopt.cfg": []byte(cfg)}})
	if err != nil {
		return err
	}
	if res.ErrKind != "" {
		return lib.Infra("generator %s failed: %s\n%s", r.name, res.Err, res.ErrTrace)
	}
	specs := map[int][]specA{}
	pool := 0
	var cases []*gcase
	seen := map[string]bool{}
	for _, s := range res.PrintedStrings() {
		if strings.HasPrefix(s, `{"n"`) {
			var sl specLine
			if err := json.Unmarshal([]byte(s), &sl); err != nil {
				return lib.Infra("bad spec line from TLC: %v: %s", err, s)
			}
			specs[sl.N] = sl.Specs
			pool = sl.Pool
			continue
		}
		if seen[s] {
			continue
		}
		seen[s] = true
		gc := &gcase{}
		if err := json.Unmarshal([]byte(s), gc); err != nil {
			return lib.Infra("bad case from TLC: %v: %s", err, s)
		}
		cases = append(cases, gc)
	}
	// the enumeration is complete: pool^len lists per (configuration, spec set)
	want := 0
	p := 1
	for l := 0; l <= r.maxLen; l++ {
		if !r.exactLen || l == r.maxLen {
			want += p
		}
		p *= pool
	}
	want *= 8 * len(sets)
	if len(cases) != want {
		return lib.Infra("generator %s: received %d cases, the scope has %d", r.name, len(cases), want)
	}
	for i, gc := range cases {
		sa, ok := specs[gc.N]
		if !ok {
			return lib.Infra("generator %s: no spec line for set %d", r.name, gc.N)
		}
		gc.Specs = sa
		withBuiltins := r.builtinMod > 0 && i%r.builtinMod == 0
		if err := g.replayCase(gc, -1, withBuiltins); err != nil {
			return err
		}
		if i < 2 && r.pool == "full" {
			c.Sample(map[string]any{"case": render(charMaps[0], gc.G, gc.Specs, gc.A), "parse": gc.P, "complete": gc.C})
		}
	}
	g.mu.Lock()
	g.nCases += len(cases)
	g.mu.Unlock()
	c.AddTraces(len(cases))
	c.Logf("generator %s sets %v: %d cases replayed", r.name, sets, len(cases))
	return nil
}

// replayCase runs one generated case on the real code. which = -1: the ASCII concretisation and
// one chosen by the seed; otherwise that concretisation only.
func (g *gen) replayCase(gc *gcase, which int, withBuiltins bool) error {
	c := g.c
	if len(gc.A) > 0 {
		c.Distinct(fmt.Sprintf("%d|%d|%v", gc.G, gc.N, gc.A))
	}
	// accepted parses: the package's reading first, then the other variants
	var ps [][]json.RawMessage
	pUnspec := false
	for _, raw := range append([]json.RawMessage{gc.P}, gc.Q...) {
		t, err := tuple(raw, 4)
		if err != nil {
			return lib.Infra("%v", err)
		}
		ps = append(ps, t)
		if string(t[3]) == "true" {
			pUnspec = true
		}
	}
	var wantP []string
	for _, t := range ps {
		wantP = append(wantP, canon([]any{t[0], t[1], t[2]}))
	}
	// accepted completions
	var cs [][]json.RawMessage
	cUnspec := false
	if len(gc.C) == 1 {
		for _, raw := range append([]json.RawMessage{gc.C[0]}, gc.D...) {
			t, err := tuple(raw, 7)
			if err != nil {
				return lib.Infra("%v", err)
			}
			cs = append(cs, t)
			if string(t[6]) == "true" {
				cUnspec = true
			}
		}
	}

	maps := []int{0, 1 + int((uint64(c.Seed)+uint64(gc.N)+uint64(len(gc.A)))%uint64(len(charMaps)-1))}
	if which >= 0 {
		maps = []int{which}
	}
	cfg := cfgOf(gc.G)
	for _, mi := range maps {
		cm := charMaps[mi]
		specs := cm.specs(gc.Specs)
		args := cm.args(gc.A)

		// getopt.Parse
		c.AddEvals(1)
		rp := cm.doParse(args, specs, cfg)
		if rp.pan != "" {
			c.Reject(keyOf(gc.G, gc.Specs, gc.A, "parse"), fmt.Sprintf("getopt.Parse panics: %s: %s", rp.pan, render(cm, gc.G, gc.Specs, gc.A)), replayFile{Kind: "g", G: gc, Map: mi})
		} else if !pUnspec {
			got := canon(rp.t)
			if !contains(wantP, got) {
				c.Reject(keyOf(gc.G, gc.Specs, gc.A, "parse"), fmt.Sprintf("getopt.Parse: %s -> %s; prescribed %s", render(cm, gc.G, gc.Specs, gc.A), got, wantP[0]), replayFile{Kind: "g", G: gc, Map: mi})
			}
		}

		// getopt.Complete
		var rc realComp
		if cs != nil {
			c.AddEvals(1)
			rc = cm.doComplete(args, specs, cfg)
			if rc.pan != "" {
				c.Reject(keyOf(gc.G, gc.Specs, gc.A, "complete"), fmt.Sprintf("getopt.Complete panics: %s: %s", rc.pan, render(cm, gc.G, gc.Specs, gc.A)), replayFile{Kind: "g", G: gc, Map: mi})
			} else if !cUnspec {
				ok := false
				for _, w := range cs {
					if completeMatches(rc, w) {
						ok = true
					}
				}
				if !ok {
					c.Reject(keyOf(gc.G, gc.Specs, gc.A, "complete"), fmt.Sprintf("getopt.Complete: %s -> %s; prescribed [opts extra rest type opt text] %s", render(cm, gc.G, gc.Specs, gc.A), canon(rc.t), gc.C[0]), replayFile{Kind: "g", G: gc, Map: mi})
				}
			}
		}

		// Unspecified cases: the recorded result goes to the judge (SaneResult)
		if mi == 0 && (pUnspec || cUnspec) {
			v := vcase{G: gc.G, Specs: gc.Specs, A: gc.A, Pan: false, Hp: pUnspec && rp.pan == "", P: rp.t, Hc: cs != nil && cUnspec && rc.pan == "", C: rc.t}
			if cs == nil {
				v.C = []any{[]any{}, []any{}, "none", []any{}, []int{}}
			}
			g.mu.Lock()
			g.unspec = append(g.unspec, v)
			g.nUnspec++
			g.mu.Unlock()
		}

		// the Elvish builtins
		if withBuiltins && mi == 0 {
			g.blt.flagParseGetopt(g, gc, cm, ps, pUnspec)
			if len(gc.E) == 1 {
				g.blt.editCompleteGetopt(g, gc, cm, gc.E[0])
			}
		}
	}
	return nil
}

// completeMatches: the returned options are those of all but the last element, optionally
// followed by the chained short options of the last element itself; everything else is equal.
func completeMatches(rc realComp, w []json.RawMessage) bool {
	if canon([]any{rc.t[1], rc.t[2], rc.t[3], rc.t[4]}) != canon([]any{w[2], w[3], w[4], w[5]}) {
		return false
	}
	got := canon(rc.t[0])
	if got == canon(w[0]) {
		return true
	}
	var a, b []any
	json.Unmarshal(w[0], &a)
	json.Unmarshal(w[1], &b)
	return got == canon(append(a, b...))
}

func contains(xs []string, x string) bool {
	for _, y := range xs {
		if x == y {
			return true
		}
	}
	return false
}

func replay(c *lib.Ctx) error {
	b, err := readFile(c.Replay)
	if err != nil {
		return lib.Infra("%v", err)
	}
	var f struct {
		Case replayFile `json:"case"`
	}
	if err := json.Unmarshal(b, &f); err != nil {
		return lib.Infra("%v", err)
	}
	switch f.Case.Kind {
	case "g":
		g := newGen(c, c.SpecDir("Getopt"))
		return g.replayCase(f.Case.G, f.Case.Map, true)
	case "v":
		v := rerecord(*f.Case.V)
		bad, err := lib.Judge(c, "JudgeGetopt", c.SpecDir("Getopt"), "JudgeGetopt", []vcase{v}, 1, 5*time.Minute)
		if err != nil {
			return err
		}
		for _, bc := range bad {
			why := fmt.Sprint(bc.Info...)
			c.Reject(keyOf(v.G, v.Specs, v.A, why), fmt.Sprintf("recorded result rejected by JudgeGetopt (%s): %s", why, mustJSON(v)), f.Case)
		}
		return nil
	}
	return lib.Infra("unknown replay kind %q", f.Case.Kind)
}
