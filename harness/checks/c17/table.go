package main

import (
	"fmt"
	"reflect"
	"sort"
	"strings"

	"src.elv.sh/pkg/eval"
	"src.elv.sh/pkg/strutil"
	"verif.local/harness/elv"
)

// moduleNames mirrors mods.AddTo (pkg/mods/mods.go); table() fails loudly if one of them cannot be used.
var moduleNames = []string{"runtime", "math", "path", "platform", "re", "str", "file", "flag", "doc", "os", "md", "unix", "epm"}

// cmd is one entry of the real command table.
type cmd struct {
	Name   string   `json:"name"`   // as called: "each", "str:repeat"
	Mod    string   `json:"mod"`    // "" for builtins
	GoFn   bool     `json:"gofn"`   // implemented by eval.NewGoFn (else: Elvish closure of a bundled module)
	Params []string `json:"params"` // reflected Go parameter types of the implementation (goFn only)
	Args   []string `json:"args"`   // the parameters that take arguments (frame / options removed, as NewGoFn does)
	Opts   []string `json:"opts"`   // option names declared by an options struct
	Var    bool     `json:"var"`    // variadic
}

// table walks ev.Builtin() and every standard module of elv.New() and returns all function values.
func table(ev *eval.Evaler) ([]cmd, error) {
	var out []cmd
	add := func(mod string, ns *eval.Ns) {
		ns.IterateKeysString(func(k string) {
			if !strings.HasSuffix(k, eval.FnSuffix) {
				return
			}
			v := ns.IndexString(k).Get()
			c := cmd{Name: strings.TrimSuffix(k, eval.FnSuffix), Mod: mod}
			if mod != "" {
				c.Name = mod + ":" + c.Name
			}
			rv := reflect.ValueOf(v)
			if rv.Kind() == reflect.Pointer && rv.Elem().Kind() == reflect.Struct && rv.Elem().Type().Name() == "goFn" {
				c.GoFn = true
				it := rv.Elem().FieldByName("impl").Elem().Type()
				for i := 0; i < it.NumIn(); i++ {
					c.Params = append(c.Params, it.In(i).String())
				}
				c.Var = it.IsVariadic()
				// the same peeling as eval.NewGoFn
				i := 0
				if i < it.NumIn() && it.In(i).String() == "*eval.Frame" {
					i++
				}
				if i < it.NumIn() && it.In(i).String() == "eval.RawOptions" {
					i++
				}
				if i < it.NumIn() && it.In(i).Kind() == reflect.Struct {
					if _, ok := reflect.PointerTo(it.In(i)).MethodByName("SetDefaultOptions"); ok {
						st := it.In(i)
						for f := 0; f < st.NumField(); f++ {
							name := st.Field(f).Tag.Get("name")
							if name == "" {
								name = strutil.CamelToDashed(st.Field(f).Name)
							}
							c.Opts = append(c.Opts, name)
						}
						i++
					}
				}
				for ; i < it.NumIn(); i++ {
					c.Args = append(c.Args, it.In(i).String())
				}
			}
			out = append(out, c)
		})
	}
	add("", ev.Builtin())
	for _, m := range moduleNames {
		o := elv.Run(ev, fmt.Sprintf("use %s; put $%s:", m, m))
		if o.Err != nil || len(o.Values) != 1 {
			return nil, fmt.Errorf("module %s: %v", m, o.Err)
		}
		ns, ok := o.Values[0].(*eval.Ns)
		if !ok {
			return nil, fmt.Errorf("module %s is not a namespace", m)
		}
		add(m, ns)
	}
	sort.Slice(out, func(i, j int) bool { return out[i].Name < out[j].Name })
	return out, nil
}
