package main

// G(1): every (signature, call) case that TLC enumerates from GoFnCall.tla, with the outcome the
// specification prescribes, is replayed on a REAL eval.NewGoFn whose implementation is built with
// reflect.MakeFunc for that signature.  The Go side only concretises kinds to values, calls the real
// goFn through Evaler.Call, projects what happened to the abstract outcome and compares.

import (
	"encoding/json"
	"errors"
	"fmt"
	"math/big"
	"os"
	"reflect"
	"regexp"
	"sort"
	"strconv"
	"strings"
	"sync"
	"time"

	"src.elv.sh/pkg/eval"
	"src.elv.sh/pkg/eval/errs"
	"src.elv.sh/pkg/eval/vals"
	"verif.local/harness/elv"
	"verif.local/harness/lib"
)

type gSig struct {
	Frame    bool     `json:"frame"`
	Opts     string   `json:"opts"`
	Normal   []string `json:"normal"`
	Variadic string   `json:"variadic"`
	Inputs   bool     `json:"inputs"`
}

type gExp struct {
	O    string   `json:"o"`
	Lo   int      `json:"lo"`
	Hi   int      `json:"hi"`
	I    int      `json:"i"`
	Conv []string `json:"conv"`
}

type gCase struct {
	Args   []string `json:"args"`
	Opts   []string `json:"opts"`
	Exp    gExp     `json:"exp"`
	Alt    gExp     `json:"alt"`
	Unspec bool     `json:"unspec"`
}

type gLine struct {
	Sig   gSig    `json:"sig"`
	Cases []gCase `json:"cases"`
}

// optS is the options struct of the generated functions: K accepts anything, I needs an integer.
type optS struct {
	K any
	I int
}

func (o *optS) SetDefaultOptions() { o.I = 1 }

var paramTypes = map[string]reflect.Type{
	"int":       reflect.TypeOf(int(0)),
	"float":     reflect.TypeOf(float64(0)),
	"num":       reflect.TypeOf((*vals.Num)(nil)).Elem(),
	"rune":      reflect.TypeOf(rune(0)),
	"string":    reflect.TypeOf(""),
	"bool":      reflect.TypeOf(false),
	"any":       reflect.TypeOf((*any)(nil)).Elem(),
	"callable":  reflect.TypeOf((*eval.Callable)(nil)).Elem(),
	"list":      reflect.TypeOf((*vals.List)(nil)).Elem(),
	"map":       reflect.TypeOf((*vals.Map)(nil)).Elem(),
	"exception": reflect.TypeOf((*eval.Exception)(nil)).Elem(),
	"closure":   reflect.TypeOf((*eval.Closure)(nil)),
	"file":      reflect.TypeOf((*os.File)(nil)),
}

// world holds the concrete representatives of the argument kinds.
type world struct {
	ev   *eval.Evaler
	reps map[string][]any
}

func newWorld() (*world, error) {
	ev := elv.New()
	w := &world{ev: ev, reps: map[string][]any{}}
	o := elv.Run(ev, `put {|x| } {|@a| put $@a } ?(fail x) ?(echo a >&77)`)
	if o.Err != nil || len(o.Values) != 4 {
		return nil, fmt.Errorf("cannot build representatives: %v", o.Err)
	}
	big64, _ := new(big.Int).SetString("18446744073709551616", 10)
	f, err := os.Open(os.DevNull)
	if err != nil {
		return nil, err
	}
	w.reps = map[string][]any{
		"s-digit":   {"7", "0"},
		"s-int":     {"-12", "123456", "+5"},
		"s-hex":     {"0x1F", "0b101", "1_000"},
		"s-bigint":  {"18446744073709551616", "-9223372036854775809"},
		"s-rat":     {"1/3", "-22/7"},
		"s-float":   {"1.5", "1e3", "NaN", "+Inf"},
		"s-rune":    {"x", "é", "你", "😀"},
		"s-other":   {"foo", "1x", "--", "a b"},
		"s-empty":   {""},
		"s-badutf8": {"\xff", "\xc3\x28\xfe"},
		"int":       {5, -1, 0},
		"bigint":    {big64},
		"rat":       {big.NewRat(1, 3)},
		"float":     {2.5, 0.0},
		"nil":       {nil},
		"bool":      {true, false},
		"list":      {vals.EmptyList, vals.MakeList("a", "b")},
		"map":       {vals.EmptyMap, vals.MakeMap("a", "b")},
		"closure":   {o.Values[0], o.Values[1]},
		"builtin":   {ev.Builtin().IndexString("nop" + eval.FnSuffix).Get(), ev.Builtin().IndexString("put" + eval.FnSuffix).Get()},
		"file":      {f},
		"exception": {o.Values[2], o.Values[3]},
	}
	return w, nil
}

// kindOf projects a Go value received by an implementation (or passed as argument) to its kind.
func kindOf(v any) string {
	switch v := v.(type) {
	case nil:
		return "nil"
	case string:
		return "string"
	case int:
		return "int"
	case *big.Int:
		return "bigint"
	case *big.Rat:
		return "rat"
	case float64:
		return "float"
	case bool:
		return "bool"
	case vals.List:
		return "list"
	case vals.Map:
		return "map"
	case *eval.Closure:
		if v == nil {
			return "nil"
		}
		return "closure"
	case eval.Exception:
		return "exception"
	case *os.File:
		if v == nil {
			return "nil"
		}
		return "file"
	case eval.Callable:
		return "builtin"
	}
	return "other:" + reflect.TypeOf(v).String()
}

// received projects one reflected parameter value to the kind the specification speaks about.
func received(pk string, v reflect.Value) string {
	switch pk {
	case "int", "float", "string", "bool":
		return pk
	case "rune":
		return "rune"
	}
	switch v.Kind() {
	case reflect.Interface, reflect.Pointer:
		if v.IsNil() {
			return "nil"
		}
	}
	return kindOf(v.Interface())
}

type observed struct {
	O     string // arity noopt badopt wrongarg noiter invoke other
	Lo    int
	Hi    int
	N     int
	I     int
	Conv  []string
	Calls int
	Err   string
}

var reArgNum = regexp.MustCompile(`^wrong type for arg #(\d+):`)

// build wraps a recording implementation of the signature in a real goFn.
func build(sig gSig, rec *observed) (eval.Callable, error) {
	var in []reflect.Type
	if sig.Frame {
		in = append(in, reflect.TypeOf((*eval.Frame)(nil)))
	}
	switch sig.Opts {
	case "raw":
		in = append(in, reflect.TypeOf(eval.RawOptions(nil)))
	case "struct":
		in = append(in, reflect.TypeOf(optS{}))
	}
	first := len(in)
	for _, p := range sig.Normal {
		t, ok := paramTypes[p]
		if !ok {
			return nil, fmt.Errorf("unknown param kind %q", p)
		}
		in = append(in, t)
	}
	variadic := false
	if sig.Variadic != "none" {
		t, ok := paramTypes[sig.Variadic]
		if !ok {
			return nil, fmt.Errorf("unknown param kind %q", sig.Variadic)
		}
		in = append(in, reflect.SliceOf(t))
		variadic = true
	}
	if sig.Inputs {
		in = append(in, reflect.TypeOf(eval.Inputs(nil)))
	}
	ft := reflect.FuncOf(in, nil, variadic)
	fn := reflect.MakeFunc(ft, func(args []reflect.Value) []reflect.Value {
		rec.Calls++
		rec.Conv = nil
		a := args[first:]
		for i, p := range sig.Normal {
			rec.Conv = append(rec.Conv, received(p, a[i]))
		}
		rest := a[len(sig.Normal):]
		if variadic {
			s := rest[0]
			for i := 0; i < s.Len(); i++ {
				rec.Conv = append(rec.Conv, received(sig.Variadic, s.Index(i)))
			}
		}
		return nil
	})
	return eval.NewGoFn("verif-g", fn.Interface()), nil
}

func (w *world) callOnce(sig gSig, gc gCase, pick func(kind string) any) (observed, error) {
	var rec observed
	fn, err := build(sig, &rec)
	if err != nil {
		return rec, err
	}
	args := make([]any, len(gc.Args))
	for i, k := range gc.Args {
		args[i] = pick(k)
	}
	opts := map[string]any{}
	for _, o := range gc.Opts {
		switch o {
		case "k":
			opts["k"] = "v"
		case "ig":
			opts["i"] = "42"
		case "ib":
			opts["i"] = "not-a-number"
		case "u":
			opts["undeclared"] = "v"
		}
	}
	var callErr error
	pan := ""
	func() {
		defer func() {
			if r := recover(); r != nil {
				pan = fmt.Sprint(r)
			}
		}()
		callErr = w.ev.Call(fn, eval.CallCfg{Args: args, Opts: opts, From: "[verif]"}, eval.EvalCfg{})
	}()
	if pan != "" {
		rec.O = "panic"
		rec.Err = pan
		return rec, nil
	}
	if callErr == nil {
		if rec.Calls == 1 {
			rec.O = "invoke"
			// the inputs argument is not a converted value: mark its position
			if sig.Inputs && len(gc.Args) == len(sig.Normal)+1 {
				rec.Conv = append(rec.Conv, "inputs")
			}
		} else {
			rec.O = "other"
			rec.Err = fmt.Sprintf("no error but implementation called %d times", rec.Calls)
		}
		return rec, nil
	}
	rec.Err = callErr.Error()
	// Evaler.Call hands back goFn.Call's error as it is (an exception only if a callee raised one)
	reason := elv.Reason(callErr)
	if reason == nil {
		reason = callErr
	}
	if rec.Calls != 0 {
		rec.O = "other"
		rec.Err = "error after the implementation ran: " + rec.Err
		return rec, nil
	}
	var am errs.ArityMismatch
	var wa eval.WrongArgType
	switch {
	case errors.As(reason, &am):
		rec.O, rec.Lo, rec.Hi, rec.N = "arity", am.ValidLow, am.ValidHigh, am.Actual
	case reason == eval.ErrNoOptAccepted:
		rec.O = "noopt"
	case errors.As(reason, &wa):
		rec.O = "wrongarg"
		rec.I = -1
		if m := reArgNum.FindStringSubmatch(wa.Error()); m != nil {
			rec.I, _ = strconv.Atoi(m[1])
		}
	default:
		// unknown option / option value conversion / "cannot be iterated": told apart by whether
		// options or an inputs argument were present (the spec prescribes which one applies)
		rec.O = "error"
	}
	return rec, nil
}

func agrees(exp gExp, got observed, nargs int) bool {
	switch exp.O {
	case "arity":
		return got.O == "arity" && got.Lo == exp.Lo && got.Hi == exp.Hi && got.N == nargs
	case "noopt":
		return got.O == "noopt"
	case "badopt", "noiter":
		return got.O == "error"
	case "wrongarg":
		return got.O == "wrongarg" && got.I == exp.I
	case "invoke":
		if got.O != "invoke" || len(got.Conv) != len(exp.Conv) {
			return false
		}
		for i := range exp.Conv {
			if exp.Conv[i] != got.Conv[i] {
				return false
			}
		}
		return true
	}
	return false
}

type gScope struct {
	Name     string
	PK, AK   []string
	MaxP     int
	MaxA     int
	Frames   []bool
	OptKinds []string
	CallOpts [][]string
}

func tlaSet(ss []string) string {
	q := make([]string, len(ss))
	for i, s := range ss {
		q[i] = strconv.Quote(s)
	}
	return "{" + strings.Join(q, ", ") + "}"
}

func (s gScope) cfg() []byte {
	var fr []string
	for _, f := range s.Frames {
		fr = append(fr, strings.ToUpper(fmt.Sprint(f)))
	}
	var co []string
	for _, o := range s.CallOpts {
		co = append(co, tlaSet(o))
	}
	return []byte(fmt.Sprintf("CONSTANT PK = %s\nCONSTANT AK = %s\nCONSTANT MaxP = %d\nCONSTANT MaxA = %d\nCONSTANT Frames = {%s}\nCONSTANT OptKinds = %s\nCONSTANT CallOpts = {%s}\nINIT Init\nNEXT Next\nINVARIANT Totality\nINVARIANT Safe\nINVARIANT Emit\n",
		tlaSet(s.PK), tlaSet(s.AK), s.MaxP, s.MaxA, strings.Join(fr, ", "), tlaSet(s.OptKinds), strings.Join(co, ", ")))
}

var allPK = []string{"int", "float", "num", "rune", "string", "bool", "any", "callable", "list", "map", "exception", "closure", "file"}
var allAK = []string{"s-digit", "s-int", "s-hex", "s-bigint", "s-rat", "s-float", "s-rune", "s-other", "s-empty", "s-badutf8",
	"int", "bigint", "rat", "float", "nil", "bool", "list", "map", "closure", "builtin", "file", "exception"}

func gScopes(c *lib.Ctx) []gScope {
	noOpt := [][]string{{}}
	optSets := [][]string{{}, {"k"}, {"u"}, {"ib"}, {"ig"}, {"k", "u"}}
	var out []gScope
	// the conversion table: every parameter kind x every argument kind (1 parameter, <= 2 arguments)
	out = append(out, gScope{Name: "table", PK: allPK, AK: allAK, MaxP: 1, MaxA: 2, Frames: []bool{false}, OptKinds: []string{"none"}, CallOpts: noOpt})
	if c.Quick() {
		// the shape of the protocol: order of the checks, arity ranges, first failing position
		out = append(out, gScope{Name: "shape", PK: []string{"int", "callable"}, AK: []string{"s-int", "s-other", "nil"}, MaxP: 2, MaxA: 3,
			Frames: []bool{true, false}, OptKinds: []string{"none", "raw", "struct"}, CallOpts: optSets})
		return out
	}
	for _, fr := range []bool{true, false} {
		for _, ok := range []string{"none", "raw", "struct"} {
			out = append(out, gScope{Name: fmt.Sprintf("shape-%v-%s", fr, ok), PK: []string{"int", "string", "callable"}, AK: []string{"s-int", "s-other", "nil", "closure"},
				MaxP: 3, MaxA: 4, Frames: []bool{fr}, OptKinds: []string{ok}, CallOpts: optSets})
		}
	}
	return out
}

// runGoFn performs M (totality / invoke-safety in every scope) and G(1).
func runGoFn(c *lib.Ctx) error {
	dir := c.SpecDir("GoFnCall")
	w, err := newWorld()
	if err != nil {
		return lib.Infra("%v", err)
	}
	scopes := gScopes(c)
	type res struct {
		r   *lib.TLCResult
		err error
	}
	results := make([]res, len(scopes))
	lib.Parallel(len(scopes), 4, func(i int) {
		r, err := c.TLC("MCGoFnCall/"+scopes[i].Name, lib.TLCRun{Dir: dir, Module: "MCGoFnCall", Workers: 1, Timeout: 12 * time.Minute, HeapGB: 4,
			Files: map[string][]byte{"MCGoFnCall.cfg": scopes[i].cfg()}})
		results[i] = res{r, err}
	})
	total, unspec, nilAccepted, nilRejected := 0, 0, 0, 0
	perOutcome := map[string]int{}
	var mu sync.Mutex
	for si, rr := range results {
		if rr.err != nil {
			return rr.err
		}
		if rr.r.ErrKind != "" {
			return lib.Infra("GoFnCall model (%s) fails its own design theorem %s: %s\n%s", scopes[si].Name, rr.r.ErrName, rr.r.Err, rr.r.ErrTrace)
		}
		seen := map[string]bool{}
		var lines []gLine
		for _, s := range rr.r.PrintedStrings() {
			var gl gLine
			if err := json.Unmarshal([]byte(s), &gl); err != nil {
				return lib.Infra("bad line from TLC: %v", err)
			}
			k := fmt.Sprint(gl.Sig)
			if seen[k] {
				continue
			}
			seen[k] = true
			lines = append(lines, gl)
		}
		if int64(len(lines)) != rr.r.Distinct {
			return lib.Infra("scope %s: TLC reported %d signatures, received %d", scopes[si].Name, rr.r.Distinct, len(lines))
		}
		sort.Slice(lines, func(i, j int) bool { return fmt.Sprint(lines[i].Sig) < fmt.Sprint(lines[j].Sig) })
		n := 0
		for li, gl := range lines {
			for ci, gc := range gl.Cases {
				n++
				// representative 0 of every kind, then a seeded choice
				for round := 0; round < 2; round++ {
					pick := func(kind string) any {
						rs := w.reps[kind]
						if round == 0 {
							return rs[0]
						}
						return rs[c.Rand.Intn(len(rs))]
					}
					got, err := w.callOnce(gl.Sig, gc, pick)
					if err != nil {
						return lib.Infra("%v", err)
					}
					c.AddEvals(1)
					ok := agrees(gc.Exp, got, len(gc.Args))
					if gc.Unspec {
						alt := agrees(gc.Alt, got, len(gc.Args))
						switch {
						case ok && alt: // the two readings prescribe the same (an earlier check decides)
						case ok:
							nilAccepted++
						case alt:
							nilRejected++
						}
						ok = ok || alt
					}
					if !ok {
						key := fmt.Sprintf("gofn:%s:%s", sigString(gl.Sig), strings.Join(gc.Args, ","))
						if len(gc.Opts) > 0 {
							key += "&" + strings.Join(gc.Opts, "&")
						}
						c.Reject(key, fmt.Sprintf("goFn.Call on signature %s with arguments %v options %v: specification prescribes %+v, real code did %+v",
							sigString(gl.Sig), gc.Args, gc.Opts, gc.Exp, got), map[string]any{"kind": "gofn", "sig": gl.Sig, "case": gc})
						break
					}
				}
				mu.Lock()
				perOutcome[gc.Exp.O]++
				mu.Unlock()
				if gc.Unspec {
					unspec++
				}
				if gc.Exp.O != "arity" {
					c.Distinct(fmt.Sprintf("gofn|%v|%v|%v", gl.Sig, gc.Args, gc.Opts))
				}
				if li == 1 && ci < 2 && si < 2 {
					c.Sample(map[string]any{"sig": gl.Sig, "case": gc})
				}
			}
		}
		total += n
		c.AddTraces(n)
		c.Logf("G(1) scope %s: %d signatures, %d cases replayed", scopes[si].Name, len(lines), n)
	}
	c.Set("gofn_cases", total)
	c.Set("gofn_outcomes", perOutcome)
	c.Set("gofn_unspecified_nil_cases", unspec)
	c.Set("gofn_nil_reading", map[string]int{"accepted_as_typed_nil": nilAccepted, "rejected_wrong_type": nilRejected})
	for _, o := range []string{"arity", "noopt", "badopt", "wrongarg", "noiter", "invoke"} {
		if perOutcome[o] == 0 {
			return lib.Infra("vacuity: no GoFnCall case with outcome %s was generated", o)
		}
	}
	return nil
}

func sigString(s gSig) string {
	var parts []string
	if s.Frame {
		parts = append(parts, "frame")
	}
	if s.Opts != "none" {
		parts = append(parts, "opts="+s.Opts)
	}
	parts = append(parts, s.Normal...)
	if s.Variadic != "none" {
		parts = append(parts, "..."+s.Variadic)
	}
	if s.Inputs {
		parts = append(parts, "inputs")
	}
	return "(" + strings.Join(parts, " ") + ")"
}
