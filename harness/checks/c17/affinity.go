package main

// Affinity pools: typed string arguments that the generic pool cannot hit by chance.  A position
// that takes a regular expression gets PATTERN values (and subjects that match them), a format
// position gets format strings, numeric positions get number-like spellings, byte-stream readers get
// JSON / line text on their input, wildcard expansion gets glob patterns.  Each affinity entry is
// crossed exhaustively (both tiers); the classes have stable names like every pool class, so keys,
// the "*" generalisation and directed probes work the same way.

import (
	"fmt"
	"strings"
)

// ---- regular expressions
var rePatterns = []class{
	{"re-empty", `''`},
	{"re-lit", `a`},
	{"re-dot-star", `'.*'`},
	{"re-opt-group", `'a(x)?'`},    // a capture group that can stay out of the match
	{"re-alt-groups", `'(a)|(b)'`}, // only one arm takes part
	{"re-star-group", `'(x)*y'`},   // group matching zero times
	{"re-nested", `'((a)|(b(c)?))+'`},
	{"re-named-opt", `'(?P<n>x)?a'`},
	{"re-empty-alt", `'a|'`},
	{"re-anchors", `'^a?$'`},
	{"re-boundary", `'\b'`},
	{"re-class", `'[^a]'`},
	{"re-lazy", `'a*?'`},
	{"re-flags", `'(?i)A(?s:.)?'`},
	{"re-counted", `'(a){0,2}'`},
	{"re-bad-paren", `'('`},
	{"re-bad-bracket", `'['`},
	{"re-bad-brace", `'a{'`},
	{"re-bad-repeat", `'*'`},
	{"re-bad-count", `'a{1001}'`},
	{"re-bad-escape", `'\'`},
	{"re-bad-utf8", `"\xff"`},
}

var reSubjects = []class{
	{"s-empty", `''`}, {"s-a", `a`}, {"s-ab", `ab`}, {"s-y", `y`}, {"s-abc", `abc`}, {"s-aaa", `aaa`},
	{"s-lines", `"a\nb"`}, {"s-badutf8", `"a\xffb"`}, {"s-wide", `aé你b`},
}

var reRepls = []class{
	{"r-lit", `x`}, {"r-empty", `''`}, {"r-group1", `'[$1]'`}, {"r-group9", `'$9'`}, {"r-named", `'${n}'`}, {"r-dollar", `'$'`},
	{"r-fn", `{|m| put x }`}, {"r-fn-list", `{|m| put [a] }`}, {"r-fn-none", `{|m| }`}, {"r-fn-two", `{|m| put a b }`},
	{"r-fn-throw", `{|m| fail x }`}, {"r-fn-arity", `{|a b c| }`}, {"r-nil", `$nil`}, {"r-num", `(num 1)`},
}

func opts(names ...string) []class {
	out := []class{{"*", ""}}
	for _, n := range names {
		out = append(out, class{n, n})
	}
	return out
}

// ---- format strings
var formats = []class{
	{"f-s", `%s`}, {"f-d", `%d`}, {"f-v", `%v`}, {"f-q", `%q`}, {"f-f", `'%5.2f'`}, {"f-star", `'%*d'`}, {"f-star-prec", `'%.*f'`},
	{"f-index", `'%[2]d'`}, {"f-index0", `'%[0]d'`}, {"f-index-big", `'%[99999999999]d'`}, {"f-index-star", `'%[3]*.[2]*[1]f'`},
	{"f-bang", `'%!'`}, {"f-lone", `'%'`}, {"f-pct", `'%%'`}, {"f-x", `%x`}, {"f-c", `%c`}, {"f-U", `%U`}, {"f-t", `%t`}, {"f-b", `%b`},
	{"f-e", `%e`}, {"f-width-huge", `'%999999999d'`}, {"f-sharp-v", `'%#v'`}, {"f-T", `%T`}, {"f-p", `%p`}, {"f-badutf8", `"%\xff"`},
}

var fmtArgs = []class{
	{"a-1", `1`}, {"a-num", `(num 1)`}, {"a-str", `foo`}, {"a-float", `(num 1.5)`}, {"a-nil", `$nil`}, {"a-list", `[a]`},
	{"a-big", `(num 18446744073709551616)`}, {"a-neg", `(num -1)`}, {"a-rat", `(num 1/3)`},
}

// ---- number-like spellings (single-deviation rows for every numeric parameter)
var numStrings = []class{
	{"n-0x", `0x`}, {"n-1e", `1e`}, {"n-1e309", `1e309`}, {"n-neg0", `-0`}, {"n-0b102", `0b102`}, {"n-under", `1_000`},
	{"n-1/0", `1/0`}, {"n-0/0", `0/0`}, {"n-1/-3", `1/-3`}, {"n-inf", `+Inf`}, {"n-inf-lc", `inf`}, {"n-nan-lc", `nan`}, {"n-NaN", `NaN`},
	{"n-negNaN", `-NaN`}, {"n-.5", `.5`}, {"n-1.", `1.`}, {"n-tiny", `1e-400`}, {"n-0o8", `0o8`}, {"n-arabic", `٣`}, {"n-lead-sp", `' 1'`},
	{"n-trail-sp", `'1 '`}, {"n--1", `--1`}, {"n-+-1", `+-1`}, {"n-1/3/5", `1/3/5`}, {"n-bigexp", `1e1000000000`},
	{"n-bigrat", `1000000000000000000000000000000/3`}, {"n-0x-big", `0xffffffffffffffffffffffff`}, {"n-int-dot0", `9223372036854775807.0`},
}

// number spellings with a huge value: kept away from the commands on the clamp list
var hugeNumStrings = []string{"n-1e309", "n-inf", "n-inf-lc", "n-bigexp", "n-bigrat", "n-0x-big", "n-int-dot0"}

// ---- text on the byte input of readers
var stdinTexts = []class{
	{"t-empty", `''`}, {"t-obj", `'{"a":null,"b":[1,2.5,"x"],"a":2}'`}, {"t-trunc-obj", `'{'`}, {"t-trunc-arr", `'[1,'`}, {"t-1e999", `1e999`},
	{"t-bigint", `123456789012345678901234567890`}, {"t-neg0", `-0`}, {"t-surrogate", `'"\ud800"'`}, {"t-deep", `(str:repeat '[' 2000)`},
	{"t-many", `'1 2 {} [] null true'`}, {"t-null", `null`}, {"t-badutf8", `"\"\xff\""`}, {"t-lines", `"a\nb\r\n\nc"`}, {"t-no-nl", `abc`},
	{"t-nul", `"a\x00b\x00"`}, {"t-long-line", `(str:repeat x 100000)`}, {"t-exp-big", `1e1000000000`},
}

var stdinReaders = []class{
	{"from-json", `from-json`}, {"from-lines", `from-lines`}, {"from-terminated", `from-terminated "\x00"`}, {"read-line", `read-line`},
	{"read-upto", `read-upto b`}, {"read-bytes", `read-bytes 3`}, {"slurp", `slurp`}, {"each", `each {|x| }`}, {"only-bytes", `only-bytes`},
	{"to-json", `from-json | to-json`}, {"lines-json", `from-lines | to-json`}, {"re-awk", `re:awk {|@f| }`}, {"str-join", `from-lines | str:join , [(all)]`},
}

// ---- wildcard patterns (evaluated in a scratch directory holding a, ab, .h and a directory d)
var globs = []class{
	{"g-star", `*`}, {"g-starstar", `**`}, {"g-quest", `?`}, {"g-qq", `??`}, {"g-nomatch", `x*`}, {"g-nomatch-ok", `x*[nomatch-ok]`},
	{"g-type-dir", `*[type:dir]`}, {"g-type-regular", `*[type:regular]`}, {"g-type-bad", `*[type:bad]`}, {"g-set", `*[set:ab]`},
	{"g-set-empty", `*[set:]`}, {"g-range", `*[range:a-z]`}, {"g-range-rev", `*[range:z-a]`}, {"g-range-short", `*[range:a]`},
	{"g-range-inc", `*[range:a~b]`}, {"g-but", `*[but:a]`}, {"g-hidden", `*[match-hidden]`}, {"g-class", `*[alpha]`}, {"g-unknown", `*[nosuch]`},
	{"g-two", `*[set:a][nomatch-ok]`}, {"g-slash", `*/*`}, {"g-dstar-slash", `**/`}, {"g-tilde", `~/*[nomatch-ok]`}, {"g-tilde-user", `~nosuchuser-c17/*`},
	{"g-quest-mod", `?[set:ab]?[nomatch-ok]`}, {"g-star-lit", `a*b*`}, {"g-only-mod", `[nomatch-ok]`}, {"g-badutf8", `"\xff"*[nomatch-ok]`},
}

// ---- flag module: argument lists x flag specifications (structured lists the generic pool cannot build)
var flagArgs = []class{
	{"fa-empty", `[]`}, {"fa-a", `[-a]`}, {"fa-a-eq", `[-a=x]`}, {"fa-long", `[--a 1 rest]`}, {"fa-dashdash", `[-- -a]`}, {"fa-dash", `[-]`},
	{"fa-unknown", `[-zz]`}, {"fa-help", `[-h]`}, {"fa-eq-only", `[-=]`}, {"fa-missing", `[-n]`}, {"fa-badnum", `[-n x]`}, {"fa-nonstr", `[[a]]`},
	{"fa-dup", `[-a -a]`}, {"fa-empty-str", `['']`}, {"fa-badutf8", `["-\xff"]`}, {"fa-cluster", `[-ab]`}, {"fa-opt-arg", `[-n1]`},
}

var flagSpecs = []class{
	{"fs-empty", `[]`}, {"fs-bool", `[[a $false '']]`}, {"fs-dup", `[[a $true ''] [a $true '']]`}, {"fs-dup-types", `[[a $true ''] [a x '']]`},
	{"fs-dash", `[[-a $true '']]`}, {"fs-eq", `[[a=b $true '']]`}, {"fs-empty-name", `[['' $true '']]`}, {"fs-num", `[[n (num 1) '']]`},
	{"fs-list", `[[a [x] '']]`}, {"fs-str", `[[a x desc]]`}, {"fs-short", `[[a $true]]`}, {"fs-long", `[[a $true '' x]]`}, {"fs-nonstr-name", `[[[a] $true '']]`},
	{"fs-nil-default", `[[a $nil '']]`}, {"fs-map-default", `[[a [&] '']]`}, {"fs-not-list", `[a]`}, {"fs-empty-spec", `[[]]`}, {"fs-help", `[[h $true ''] [help x '']]`},
	{"fs-rat", `[[n (num 1/3) ''] [f (num 1.5) ''] [b (num 100000000000000000000) '']]`}, {"fs-space", `[['a b' $true '']]`},
}

var getoptSpecs = []class{
	{"gs-empty", `[]`}, {"gs-short", `[[&short=a]]`}, {"gs-long", `[[&long=a]]`}, {"gs-both", `[[&short=a &long=a]]`}, {"gs-dup", `[[&short=a] [&short=a]]`},
	{"gs-dup-long", `[[&long=a] [&long=a]]`}, {"gs-none", `[[&]]`}, {"gs-short-long", `[[&short=ab]]`}, {"gs-short-empty", `[[&short='']]`},
	{"gs-long-empty", `[[&long='']]`}, {"gs-arg-req", `[[&short=n &arg-required=$true]]`}, {"gs-arg-opt", `[[&short=n &arg-optional=$true]]`},
	{"gs-arg-both", `[[&short=n &arg-required=$true &arg-optional=$true]]`}, {"gs-bad-key", `[[&nosuch=a]]`}, {"gs-nonstr", `[[&short=[a]]]`},
	{"gs-not-map", `[a]`}, {"gs-dash", `[[&short=-]]`}, {"gs-eq", `[[&long='a=b']]`}, {"gs-wide", `[[&short=é]]`}, {"gs-extra", `[[&short=a &extra=[x]]]`},
}

var flagFns = []class{
	{"ff-none", `{ }`}, {"ff-bool", `{|&a=$false| }`}, {"ff-dash", `{|&-a=1| }`}, {"ff-num", `{|&n=(num 1)| }`}, {"ff-list", `{|&a=[x]| }`},
	{"ff-nil", `{|&a=$nil| }`}, {"ff-map", `{|&a=[&]| }`}, {"ff-args", `{|x &a=$false| }`}, {"ff-rest", `{|@r &a=x| }`}, {"ff-throw", `{|&a=$false| fail x }`},
	{"ff-help", `{|&h=$false &help=x| }`}, {"ff-under", `{|&a_b=$false &a-b=$true| }`},
}

// every affinity class by name (for directed probes)
func affinityClass(n string) (class, bool) {
	for _, l := range [][]class{rePatterns, reSubjects, reRepls, formats, fmtArgs, numStrings, stdinTexts, stdinReaders, globs, flagArgs, flagSpecs, getoptSpecs, flagFns,
		opts("&posix", "&longest", "&max=0", "&max=-1", "&max=1", "&literal", "&sep-posix", "&sep-longest", "&on-parse-error={|e| }", "&on-parse-error={|e| fail y }", "&stop-after-double-dash", "&stop-before-non-flag", "&long-only")} {
		for _, c := range l {
			if c.Name == n {
				return c, true
			}
		}
	}
	for _, p := range rePatterns {
		if "&sep="+p.Name == n {
			return class{n, "&sep=" + p.Src}, true
		}
	}
	return class{}, false
}

// cross builds every call of one command over the given per-position candidate lists.  Positions
// beyond the command's parameters (options, written last) have the empty benign value.
func cross(cm cmd, lists ...[]class) []call {
	var out []call
	var rec func(prefix []class)
	rec = func(prefix []class) {
		if len(prefix) == len(lists) {
			c := mkCall(cm, prefix)
			for i := range c.Slots {
				if strings.HasPrefix(c.Slots[i].Src, "&") || c.Slots[i].Src == "" {
					c.Slots[i].Benign = ""
				}
			}
			out = append(out, c)
			return
		}
		for _, p := range lists[len(prefix)] {
			rec(append(append([]class{}, prefix...), p))
		}
	}
	rec(nil)
	return out
}

// affinityCalls enumerates the affinity sweep.
func affinityCalls(tab []cmd) ([]call, map[string]int) {
	byName := map[string]cmd{}
	for _, cm := range tab {
		byName[cm.Name] = cm
	}
	counts := map[string]int{}
	var out []call
	add := func(group string, cs []call) {
		counts[group] += len(cs)
		out = append(out, cs...)
	}
	withCmd := func(name string, f func(cm cmd)) {
		if cm, ok := byName[name]; ok {
			f(cm)
		}
	}
	// regular expressions: every re: command, patterns x subjects (x replacements) x options
	findOpts := opts("&posix", "&longest", "&max=0", "&max=-1", "&max=1")
	withCmd("re:find", func(cm cmd) { add("re", cross(cm, rePatterns, reSubjects, findOpts)) })
	withCmd("re:split", func(cm cmd) { add("re", cross(cm, rePatterns, reSubjects, findOpts)) })
	withCmd("re:match", func(cm cmd) { add("re", cross(cm, rePatterns, reSubjects, opts("&posix"))) })
	withCmd("re:replace", func(cm cmd) {
		add("re", cross(cm, rePatterns, reRepls, reSubjects[:6], opts("&posix", "&longest", "&literal")))
	})
	withCmd("re:quote", func(cm cmd) { add("re", cross(cm, append(append([]class{}, rePatterns...), reSubjects...))) })
	withCmd("re:awk", func(cm cmd) {
		seps := []class{{"*", ""}}
		for _, p := range rePatterns {
			seps = append(seps, class{"&sep=" + p.Name, "&sep=" + p.Src})
		}
		fns := []class{{"fn-ok", `{|@f| }`}, {"fn-put", `{|@f| put $@f }`}, {"fn-arity", `{|a b c| }`}}
		ins := []class{{"in-lines", `['a b' ab '' " a\tb "]`}, {"in-elist", `[]`}, {"in-nonstr", `[[a] (num 1)]`}}
		add("re", cross(cm, fns, ins, seps, opts("&sep-posix", "&sep-longest")))
	})
	// flag module: structured specifications
	withCmd("flag:parse", func(cm cmd) { add("flag", cross(cm, flagArgs, flagSpecs)) })
	withCmd("flag:parse-getopt", func(cm cmd) {
		add("flag", cross(cm, flagArgs, getoptSpecs, opts("&stop-after-double-dash", "&stop-before-non-flag", "&long-only")))
	})
	withCmd("flag:call", func(cm cmd) {
		add("flag", cross(cm, flagFns, flagArgs, opts("&on-parse-error={|e| }", "&on-parse-error={|e| fail y }")))
	})
	// format strings
	withCmd("printf", func(cm cmd) {
		add("format", cross(cm, formats))
		add("format", cross(cm, formats, fmtArgs))
		add("format", cross(cm, formats, fmtArgs, fmtArgs))
	})
	// number-like spellings: one deviation from the benign call, in every numeric position
	for _, cm := range tab {
		if _, skip := skipCmd[cm.Name]; skip || !cm.GoFn {
			continue
		}
		for pos, t := range cm.Args {
			t = strings.TrimPrefix(t, "[]")
			if t != "vals.Num" && t != "int" && t != "float64" {
				continue
			}
			ar := len(cm.Args)
			if len(cm.Args) > 0 && cm.Args[len(cm.Args)-1] == "eval.Inputs" {
				ar--
				if pos >= ar {
					continue
				}
			}
			for _, ns := range numStrings {
				cls := make([]class, ar)
				for j := range cls {
					cls[j] = class{"*", benign(cm, j)}
				}
				cls[pos] = ns
				c := mkCall(cm, cls)
				if clamped(cm.Name, c.classes()) {
					continue
				}
				add("numstr", []call{c})
			}
		}
	}
	// text on the byte input of readers
	for _, t := range stdinTexts {
		for _, r := range stdinReaders {
			c := call{Kind: "stdin", Cmd: "stdin", Slots: []slot{{t.Name, t.Src, `''`}, {r.Name, r.Src, "nop"}}, Form: noForm}
			c.Code = code(c.Kind, c.Cmd, "", c.srcs())
			add("stdin", []call{c})
		}
	}
	// wildcard expansion
	for _, g := range globs {
		for _, cmdName := range []string{"put", "count ["} {
			c := call{Kind: "glob", Cmd: "glob", Slots: []slot{{strings.TrimSuffix(cmdName, " ["), cmdName, "put"}, {g.Name, g.Src, "a"}}, Form: noForm}
			c.Code = code(c.Kind, c.Cmd, "", c.srcs())
			add("glob", []call{c})
		}
	}
	return out, counts
}

const globPrelude = "use os; os:mkdir d; print > a; print > ab; print > .h; print > d/e; "

func affinityCode(kind string, srcs []string) (string, bool) {
	switch kind {
	case "stdin":
		return "use str; use re; print " + srcs[0] + " | " + srcs[1], true
	case "glob":
		if strings.HasSuffix(srcs[0], "[") {
			return globPrelude + srcs[0] + srcs[1] + "]", true
		}
		return globPrelude + srcs[0] + " " + srcs[1], true
	}
	return "", false
}

var _ = fmt.Sprint
