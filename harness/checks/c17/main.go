// C17 — no program can crash the interpreter.
//
// M : GoFnCall.tla (call protocol of goFn.Call: totality, invoke-safety) and EvalOutcome.tla (life
//
//	cycle: the forbidden states are unreachable) are model checked.
//
// G1: every GoFnCall case with its prescribed outcome is replayed on a real eval.NewGoFn (gofn.go).
// G2/V: the sweep — every builtin / module function of elv.New() x the adversarial value pool
//
//	(arity 0..1 exhaustive + seeded arity 2 in quick, arity <= 2 exhaustive in thorough),
//	redirection forms with arbitrary fds, pipeline forms — runs in child processes with a two-stage
//	watchdog; the recorded outcomes are judged by JudgeEvalOutcome.tla (only Returned is accepted).
//
// Known findings are purely data (findings.d/C17.json -> known-findings.json): a rejected call
// whose key is not listed is a VIOLATION.
package main

import (
	"encoding/json"
	"fmt"
	"os"
	"sort"
	"strings"
	"sync"
	"time"

	"src.elv.sh/pkg/strutil"
	"verif.local/harness/elv"
	"verif.local/harness/lib"
)

func main() {
	if os.Getenv("C17_CHILD") == "1" {
		childMain()
		return
	}
	if len(os.Args) > 1 && os.Args[1] == "list" {
		t, err := table(elv.New())
		if err != nil {
			panic(err)
		}
		for _, c := range t {
			fmt.Println(c.Name, c.GoFn, c.Var, c.Args, c.Opts)
		}
		return
	}
	if len(os.Args) > 2 && os.Args[1] == "probe" {
		// hand reproduction: evaluate each argument as code in a child, print the outcome
		sw, err := newSweeper(nil)
		if err != nil {
			panic(err)
		}
		defer sw.close()
		var cs []call
		for _, code := range os.Args[2:] {
			cs = append(cs, call{Kind: "call", Cmd: "probe", Code: code, Form: noForm})
		}
		outs, err := sw.run(cs)
		if err != nil {
			fmt.Println("INFRA:", err)
			return
		}
		for i, o := range outs {
			d := o.Detail
			if len(d) > 400 {
				d = d[:400]
			}
			fmt.Printf("%-50q %s %dms %s\n", cs[i].Code, o.Outcome, o.Ms, strings.ReplaceAll(d, "\n", " | "))
		}
		return
	}
	lib.Main("C17", run)
}

// judged is what the TLA+ judge sees of a call.
type judged struct {
	ID      int    `json:"id"`
	Kind    string `json:"kind"`
	Outcome string `json:"outcome"`
	Form    form   `json:"form"`
}

func run(c *lib.Ctx) error {
	if c.Replay != "" {
		return replay(c)
	}
	dir := c.SpecDir("GoFnCall")
	c.Set("rule", "G(1): a case is (signature, argument kinds, options); arity-error cases are trivial and not counted. Sweep: a case is (command, argument classes) / redirection form / pipeline form; calls rejected for their argument count alone (arity) are still evaluated but every call is counted once by its stem")

	// ---- M: life cycle
	r, err := c.TLC("MCEvalOutcome", lib.TLCRun{Dir: dir, Module: "MCEvalOutcome", Workers: 1, Timeout: 5 * time.Minute})
	if err != nil {
		return err
	}
	if r.ErrKind != "" {
		return lib.Infra("EvalOutcome fails its own properties: %s\n%s", r.Err, r.ErrTrace)
	}

	// ---- M + G(1): call protocol
	var gErr error
	var wg sync.WaitGroup
	wg.Add(1)
	only := os.Getenv("C17_ONLY") // development aid: "gofn" or "sweep" runs one half only
	go func() {
		defer wg.Done()
		if only == "" || only == "gofn" {
			gErr = runGoFn(c)
		}
	}()

	// ---- G(2)/V: the sweep
	var sErr error
	if only == "" || only == "sweep" {
		sErr = runSweep(c, dir)
	}
	wg.Wait()
	if gErr != nil {
		return gErr
	}
	if sErr != nil {
		return sErr
	}
	c.Assume("TLC is trusted; the child-process harness (watchdog, goroutine-dump classification, crash attribution by re-running the call alone) is trusted")
	c.Assume("a timed-out evaluation counts as blocked only if every goroutine created since the call started is in a blocked state in two dumps; a call still running (not blocked) after deadline + interrupt + grace is re-run alone with a 120 s deadline and that outcome is judged; CPU/memory explosions and long-running-but-live calls are outside C17 and kept out by the documented clamp list")
	c.Assume("GoFnCall: the kind of a converted value is compared, not the value; the index of WrongArgType is read from its message (the field is unexported)")
	return nil
}

func runSweep(c *lib.Ctx, dir string) error {
	tab, err := table(elv.New())
	if err != nil {
		return lib.Infra("command table: %v", err)
	}
	maxExh := c.Pick(1, 2)
	devArities := []int{2, 3}
	sampleArity := c.Pick(2, 3)
	nSample := c.Pick(5000, 20000)
	calls, skipped, nClamped := enumerate(tab, maxExh, devArities, sampleArity, nSample, c.Rand)
	nSweep := len(calls)
	redirs := redirForms(c.Rand)
	pipes := pipeForms()
	calls = append(calls, redirs...)
	calls = append(calls, pipes...)
	aff, affCounts := affinityCalls(tab)
	calls = append(calls, aff...)
	// directed probes: every known finding is re-probed in every run
	have := map[string]bool{}
	for _, cl := range calls {
		have[cl.Code] = true
	}
	nProbe := 0
	for _, k := range c.KnownKeys() {
		if p, ok := probeFromKey(k, tab); ok && !have[p.Code] && !clamped(p.Cmd, p.classes()) {
			calls = append(calls, p)
			have[p.Code] = true
			nProbe++
		}
	}
	calls = dedupe(calls)
	var clampDoc []string
	for _, cl := range clamps {
		clampDoc = append(clampDoc, fmt.Sprintf("%s arg %d %v: %s", cl.Cmd, cl.Pos, cl.Classes, cl.Why))
	}
	c.Set("sweep", map[string]any{"commands": len(tab), "pool_classes": len(pool), "exhaustive_arity": maxExh, "single_deviation_arities": devArities, "sampled_arity": sampleArity, "sampled_calls": nSample,
		"command_calls": nSweep, "redirection_forms": len(redirs), "pipeline_forms": len(pipes), "affinity_calls": affCounts, "directed_probes": nProbe,
		"skipped_commands": skipped, "skipped_modules": skipModules, "clamped_calls": nClamped, "clamp_list": clampDoc})
	c.Logf("sweep: %d commands, %d calls (%d command calls, %d redirection forms, %d pipeline forms, %d affinity calls %v, %d probes)", len(tab), len(calls), nSweep, len(redirs), len(pipes), len(aff), affCounts, nProbe)

	sw, err := newSweeper(c)
	if err != nil {
		return err
	}
	defer sw.close()
	outs, err := sw.run(calls)
	if err != nil {
		return err
	}
	c.AddEvals(len(calls))
	c.Logf("sweep executed: %d children, %d died, %d call(s) re-run alone with a long deadline (%d returned then)", sw.nChild.Load(), sw.nDied.Load(), sw.nRetried.Load(), sw.nRescued.Load())
	c.Set("sweep_rerun_with_long_deadline", map[string]int64{"calls": sw.nRetried.Load(), "returned_then": sw.nRescued.Load()})

	// ---- judge: EvalOutcome accepts only Returned
	js := make([]judged, len(calls))
	hist := map[string]int{}
	var live []string
	slow := 0
	for i, cl := range calls {
		js[i] = judged{ID: i, Kind: cl.Kind, Outcome: outs[i].Outcome, Form: cl.Form}
		hist[outs[i].Outcome]++
		if outs[i].Slow {
			slow++
		}
		if outs[i].Outcome == "live" {
			live = append(live, fmt.Sprintf("%q (%s)", cl.Code, outs[i].Detail))
		}
		c.Distinct(cl.Kind + "|" + cl.stem())
	}
	c.Set("sweep_outcomes", hist)
	{
		idx := make([]int, len(outs))
		for i := range idx {
			idx[i] = i
		}
		sort.Slice(idx, func(a, b int) bool { return outs[idx[a]].Ms > outs[idx[b]].Ms })
		var slowest []string
		var totalMs int64
		for _, o := range outs {
			totalMs += o.Ms
		}
		for _, i := range idx[:min(12, len(idx))] {
			slowest = append(slowest, fmt.Sprintf("%d ms: %s", outs[i].Ms, calls[i].Code))
		}
		c.Set("sweep_slowest_calls", slowest)
		c.Set("sweep_sum_of_call_ms", totalMs)
	}
	c.Set("sweep_returned_only_after_interrupt", slow)
	for i := 0; i < 3 && i < len(calls); i++ {
		c.Sample(map[string]any{"call": calls[len(calls)/3*i+1], "outcome": outs[len(calls)/3*i+1].Outcome})
	}
	// the editor's pure helper named in the quantifier: subsequence matching, in-process
	helperStrings := []class{{"empty", ""}, {"badutf8-2", "\xff\xfe"}, {"badutf8-1", "\xc3"}, {"dash", "-"}, {"foo", "foo"}, {"oof", "oof"},
		{"multi", "é你😀"}, {"cjk", "你"}, {"long", strings.Repeat("ab", 4000)}}
	var helpers []call
	for _, a := range helperStrings {
		for _, b := range helperStrings {
			o := "returned-nil"
			det := ""
			func() {
				defer func() {
					if r := recover(); r != nil {
						o, det = "panic", fmt.Sprint(r)
					}
				}()
				strutil.HasSubseq(a.Src, b.Src)
			}()
			id := len(js)
			cl := call{ID: id, Kind: "helper", Cmd: "strutil.HasSubseq", Slots: []slot{{a.Name, a.Src, ""}, {b.Name, b.Src, ""}}, Code: fmt.Sprintf("strutil.HasSubseq(%.20q, %.20q)", a.Src, b.Src), Form: noForm}
			helpers = append(helpers, cl)
			calls = append(calls, cl)
			outs = append(outs, outcome{ID: id, Outcome: o, Detail: det})
			js = append(js, judged{ID: id, Kind: "helper", Outcome: o, Form: noForm})
			hist[o]++
		}
	}
	c.AddEvals(len(helpers))
	bad, err := lib.Judge(c, "JudgeEvalOutcome", dir, "JudgeEvalOutcome", js, 4, 20*time.Minute)
	if err != nil {
		return err
	}
	c.AddTraces(len(js))

	// ---- rejected outcomes -> keys
	type rej struct {
		key, what string
		cl        call
		o         outcome
	}
	var rejs []rej
	var crashed []int // indices into calls
	for _, b := range bad {
		cl, o := calls[b.Index], outs[b.Index]
		why := ""
		if len(b.Info) > 0 {
			why, _ = b.Info[0].(string)
		}
		d := o.Detail
		if i := strings.Index(d, "\n"); i > 0 {
			d = d[:i]
		}
		what := fmt.Sprintf("`%s` -> %s (%s); the specification accepts only a returned evaluation", cl.Code, o.Outcome, d)
		switch {
		case o.Outcome == "live":
			// not a verdict: reported as a machinery problem below
		case why == "hang:cross-band":
			rejs = append(rejs, rej{why, what, cl, o})
		case o.Outcome == "blocked":
			rejs = append(rejs, rej{"hang:" + cl.stem(), what, cl, o})
		case cl.Kind == "helper":
			rejs = append(rejs, rej{"crash:" + cl.stem(), what, cl, o})
		default:
			crashed = append(crashed, b.Index)
			rejs = append(rejs, rej{"", what, cl, o})
		}
	}
	var cc []call
	for _, i := range crashed {
		cc = append(cc, calls[i])
	}
	ckeys, err := crashKeys(sw, cc)
	if err != nil {
		return err
	}
	k := 0
	for i := range rejs {
		if rejs[i].key == "" {
			rejs[i].key = ckeys[k]
			k++
		}
	}
	sort.Slice(rejs, func(i, j int) bool {
		if rejs[i].key != rejs[j].key {
			return rejs[i].key < rejs[j].key
		}
		return rejs[i].cl.Code < rejs[j].cl.Code
	})
	keys := map[string]int{}
	for _, rj := range rejs {
		keys[rj.key]++
		c.Reject(rj.key, rj.what, map[string]any{"kind": "sweep", "call": rj.cl, "outcome": rj.o})
	}
	c.Set("rejected_by_key", keys)
	// a listed finding that no call reproduced is worth a log line (the list shrinks as fixes land)
	for _, k := range c.KnownKeys() {
		if keys[k] == 0 && (strings.HasPrefix(k, "crash:") || strings.HasPrefix(k, "hang:")) {
			c.Logf("known finding %s not reproduced in this run", k)
		}
	}
	if len(live) > 0 {
		if len(live) > 5 {
			live = live[:5]
		}
		return lib.Infra("%d call(s) were still running (not blocked) after deadline + interrupt + grace, also when re-run alone with a 120 s deadline; they belong on the clamp list: %s", hist["live"], strings.Join(live, "; "))
	}
	return nil
}

// crashKeys computes the stable key of every crashing call: "crash:<command>:<class>,…" where a
// position is written "*" when the crash does not need it, i.e. the call still crashes with the
// benign value at that position (greedy, left to right; every candidate is executed, in one batch
// per position).  A key therefore names exactly the deviations from the benign call that crash.
func crashKeys(sw *sweeper, cs []call) ([]string, error) {
	type item struct {
		srcs []string
		star []bool
	}
	items := make([]item, len(cs))
	maxLen := 0
	for i, c := range cs {
		items[i] = item{c.srcs(), make([]bool, len(c.Slots))}
		if len(c.Slots) > maxLen {
			maxLen = len(c.Slots)
		}
	}
	isCrash := func(o outcome) bool { return o.Outcome == "panic" || o.Outcome == "process-died" }
	for pos := 0; pos < maxLen; pos++ {
		var batch []call
		idx := map[string]int{}
		var owners [][]int
		for i, c := range cs {
			if pos >= len(c.Slots) || len(c.Slots) < 2 {
				continue
			}
			if items[i].srcs[pos] == c.Slots[pos].Benign {
				items[i].star[pos] = true
				continue
			}
			srcs := append([]string{}, items[i].srcs...)
			srcs[pos] = c.Slots[pos].Benign
			code := code(c.Kind, c.Cmd, c.Mod, srcs)
			j, ok := idx[code]
			if !ok {
				j = len(batch)
				idx[code] = j
				batch = append(batch, call{Kind: c.Kind, Cmd: c.Cmd, Code: code, Form: noForm})
				owners = append(owners, nil)
			}
			owners[j] = append(owners[j], i)
		}
		if len(batch) == 0 {
			continue
		}
		outs, err := sw.run(batch)
		if err != nil {
			return nil, err
		}
		for j, o := range outs {
			if o.Outcome == "live" || o.Outcome == "blocked" {
				continue // cannot tell: keep the position
			}
			if isCrash(o) {
				for _, i := range owners[j] {
					items[i].srcs[pos] = cs[i].Slots[pos].Benign
					items[i].star[pos] = true
				}
			}
		}
	}
	keys := make([]string, len(cs))
	for i, c := range cs {
		cls := c.classes()
		all := len(cls) > 0
		for p := range cls {
			if items[i].star[p] {
				cls[p] = "*"
			} else {
				all = false
			}
		}
		if all {
			// every position is benign: the benign call itself crashes; keep the classes
			cls = c.classes()
		}
		keys[i] = "crash:" + c.Cmd + ":" + keyClasses(c, cls)
	}
	return keys, nil
}

func replay(c *lib.Ctx) error {
	b, err := os.ReadFile(c.Replay)
	if err != nil {
		return lib.Infra("%v", err)
	}
	var f struct {
		Case struct {
			Kind string `json:"kind"`
			Sig  gSig   `json:"sig"`
			Case gCase  `json:"case"`
			Call call   `json:"call"`
		} `json:"case"`
	}
	if err := json.Unmarshal(b, &f); err != nil {
		return lib.Infra("%v", err)
	}
	if f.Case.Kind == "gofn" {
		w, err := newWorld()
		if err != nil {
			return lib.Infra("%v", err)
		}
		got, err := w.callOnce(f.Case.Sig, f.Case.Case, func(k string) any { return w.reps[k][0] })
		if err != nil {
			return lib.Infra("%v", err)
		}
		gc := f.Case.Case
		ok := agrees(gc.Exp, got, len(gc.Args)) || (gc.Unspec && agrees(gc.Alt, got, len(gc.Args)))
		c.Logf("replay gofn %s %v: prescribed %+v, real %+v", sigString(f.Case.Sig), gc.Args, gc.Exp, got)
		if !ok {
			c.Reject(fmt.Sprintf("gofn:%s:%s", sigString(f.Case.Sig), strings.Join(gc.Args, ",")), fmt.Sprintf("prescribed %+v, real %+v", gc.Exp, got), f.Case)
		}
		return nil
	}
	sw, err := newSweeper(c)
	if err != nil {
		return err
	}
	defer sw.close()
	cl := f.Case.Call
	o, err := sw.runOne(cl)
	if err != nil {
		return err
	}
	c.Logf("replay `%s` -> %s %s", cl.Code, o.Outcome, o.Detail)
	bad, err := lib.Judge(c, "JudgeEvalOutcome", c.SpecDir("GoFnCall"), "JudgeEvalOutcome", []judged{{0, cl.Kind, o.Outcome, cl.Form}}, 1, 5*time.Minute)
	if err != nil {
		return err
	}
	if len(bad) > 0 {
		key := "hang:" + cl.stem()
		if why, _ := bad[0].Info[0].(string); why == "hang:cross-band" {
			key = why
		} else if o.Outcome != "blocked" {
			ks, err := crashKeys(sw, []call{cl})
			if err != nil {
				return err
			}
			key = ks[0]
		}
		c.Reject(key, fmt.Sprintf("`%s` -> %s (%s)", cl.Code, o.Outcome, o.Detail), f.Case)
	}
	return nil
}
