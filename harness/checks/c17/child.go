package main

// Child side of the sweep: this binary re-executed with C17_CHILD=1.  It evaluates calls
// [C17_FROM, C17_TO) of the job file one after the other, each on a fresh Evaler in a fresh scratch
// directory, and appends "S <id>" before and "E <id> <outcome json>" after every call to the
// progress file.  If the process dies in between (panic on a goroutine spawned by the evaluation,
// runtime fatal error) the parent sees an "S" without "E".
//
// Watchdog (two stages, never a verdict from timing alone):
//   at the deadline a goroutine dump is taken.  If every goroutine that was created by the evaluation
//   is blocked on a channel / pipe / semaphore operation (twice, 1 s apart, same goroutines in the same states) the
//   outcome is "blocked".  Otherwise the evaluation's Interrupts context is cancelled; if it returns
//   within the grace period the outcome is what it returned; if not, a second dump decides between
//   "blocked" and "live" (some goroutine running: long-running-but-live is not a C17 matter; the
//   parent reports it as a defect of the pool = exit 2).
// After a blocked / live call the child exits (abandoned goroutines) and the parent restarts it.

import (
	"context"
	"encoding/json"
	"fmt"
	"os"
	"path/filepath"
	"regexp"
	"runtime"
	"runtime/debug"
	"strconv"
	"strings"
	"time"

	"src.elv.sh/pkg/eval"
	"src.elv.sh/pkg/eval/vals"
	"src.elv.sh/pkg/eval/vars"
	"src.elv.sh/pkg/parse"
	"verif.local/harness/elv"
)

type outcome struct {
	ID      int    `json:"id"`
	Outcome string `json:"outcome"` // returned-nil returned-exception panic blocked live process-died
	Detail  string `json:"detail,omitempty"`
	ErrKind string `json:"errkind,omitempty"` // parse compile exception (for returned-exception)
	Ms      int64  `json:"ms"`
	Slow    bool   `json:"slow,omitempty"` // returned only after the interrupt
}

const exitRestart = 3

var outPort = eval.DummyOutputPort
var childEv *eval.Evaler
var baseline map[int]bool

func childMain() {
	job := os.Getenv("C17_JOB")
	from, _ := strconv.Atoi(os.Getenv("C17_FROM"))
	to, _ := strconv.Atoi(os.Getenv("C17_TO"))
	deadline, _ := strconv.Atoi(os.Getenv("C17_DEADLINE_MS"))
	grace, _ := strconv.Atoi(os.Getenv("C17_GRACE_MS"))
	base := os.Getenv("C17_BASE")
	b, err := os.ReadFile(job)
	if err != nil {
		fmt.Fprintln(os.Stderr, "C17-CHILD-INFRA: job:", err)
		os.Exit(4)
	}
	var calls []call
	if err := json.Unmarshal(b, &calls); err != nil {
		fmt.Fprintln(os.Stderr, "C17-CHILD-INFRA: job:", err)
		os.Exit(4)
	}
	prog, err := os.OpenFile(os.Getenv("C17_PROGRESS"), os.O_WRONLY|os.O_APPEND|os.O_CREATE, 0o644)
	if err != nil {
		fmt.Fprintln(os.Stderr, "C17-CHILD-INFRA: progress:", err)
		os.Exit(4)
	}
	debug.SetTraceback("all")
	huge := elv.MakeList(10000)
	// output port shared by all calls: /dev/null opened for WRITING (eval.DummyOutputPort's file is
	// read-only, so every byte write would fail early) and a value channel that is always drained
	if w, err := os.OpenFile(os.DevNull, os.O_WRONLY, 0); err == nil {
		ch := make(chan any, 32)
		go func() {
			for range ch {
			}
		}()
		outPort = &eval.Port{File: w, Chan: ch}
	}
	for i := from; i < to && i < len(calls); i++ {
		fmt.Fprintf(prog, "S %d\n", calls[i].ID)
		o := runCall(calls[i], base, huge, time.Duration(deadline)*time.Millisecond, time.Duration(grace)*time.Millisecond)
		jb, _ := json.Marshal(o)
		fmt.Fprintf(prog, "E %d %s\n", calls[i].ID, jb)
		if o.Outcome == "blocked" || o.Outcome == "live" {
			os.Exit(exitRestart)
		}
	}
	fmt.Fprintf(prog, "DONE\n")
	os.Exit(0)
}

func runCall(c call, base string, huge vals.List, deadline, grace time.Duration) outcome {
	out := outcome{ID: c.ID}
	// one scratch directory per child, emptied after every call that left something in it
	dir := filepath.Join(base, fmt.Sprintf("cwd-%d", os.Getpid()))
	if err := os.MkdirAll(dir, 0o755); err != nil {
		fmt.Fprintln(os.Stderr, "C17-CHILD-INFRA:", err)
		os.Exit(4)
	}
	os.Chdir(dir)
	defer func() {
		os.Chdir(dir)
		if ents, err := os.ReadDir(dir); err == nil {
			for _, e := range ents {
				os.RemoveAll(filepath.Join(dir, e.Name()))
			}
		}
	}()
	// one Evaler per child; every call gets a fresh global namespace holding the pool variables
	if childEv == nil {
		childEv = elv.New()
	}
	ev := childEv
	nb := eval.BuildNs().AddVar("c17-hugelist", vars.NewReadOnly(huge))
	var toClose []*os.File
	if strings.Contains(c.Code, "$c17-file") {
		f, err := os.OpenFile(filepath.Join(dir, "c17file.dat"), os.O_RDWR|os.O_CREATE, 0o644)
		if err == nil {
			f.WriteString("line one\nline two\n")
			f.Seek(0, 0)
			toClose = append(toClose, f)
			nb = nb.AddVar("c17-file", vars.NewReadOnly(f))
		}
	}
	if strings.Contains(c.Code, "$c17-pipe") {
		r, w, err := os.Pipe()
		if err == nil {
			toClose = append(toClose, r, w)
			nb = nb.AddVar("c17-pipe", vars.NewReadOnly(vals.MakeMap("r", r, "w", w)))
		}
	}
	if strings.Contains(c.Code, "$c17-exc") {
		o := elv.Run(ev, "put ?(fail c17)")
		if len(o.Values) == 1 {
			nb = nb.AddVar("c17-exc", vars.NewReadOnly(o.Values[0]))
		}
	}
	global := nb.Ns()
	defer func() {
		for _, f := range toClose {
			f.Close()
		}
	}()

	// goroutines that exist before the call do not belong to the evaluation.  A full dump stops
	// the world, so the set is only re-taken when there are more goroutines than it holds (a leak).
	if baseline == nil || runtime.NumGoroutine() > len(baseline) {
		baseline = map[int]bool{}
		for _, g := range goroutines() {
			baseline[g.id] = true
		}
	}
	before := baseline
	ctx, cancel := context.WithCancel(context.Background())
	defer cancel()
	type res struct {
		err error
		pan string
	}
	done := make(chan res, 1)
	t0 := time.Now()
	go func() {
		var r res
		defer func() {
			if p := recover(); p != nil {
				r.pan = fmt.Sprintf("%v\n%s", p, trimStack(debug.Stack()))
			}
			done <- r
		}()
		r.err = ev.Eval(parse.Source{Name: "[c17]", Code: c.Code}, eval.EvalCfg{Ports: []*eval.Port{nil, outPort, outPort}, Interrupts: ctx, Global: global})
	}()
	finish := func(r res) outcome {
		out.Ms = time.Since(t0).Milliseconds()
		switch {
		case r.pan != "":
			out.Outcome, out.Detail = "panic", r.pan
		case r.err == nil:
			out.Outcome = "returned-nil"
		default:
			out.Outcome, out.ErrKind = "returned-exception", elv.ErrClass(r.err)
		}
		return out
	}
	select {
	case r := <-done:
		return finish(r)
	case <-time.After(deadline):
	}
	// stage 1: is everything that belongs to the evaluation blocked?
	if st, dump := evalBlocked(before); st {
		time.Sleep(time.Second)
		select {
		case r := <-done:
			return finish(r)
		default:
		}
		if st2, dump2 := evalBlocked(before); st2 && sameGoroutines(dump, dump2) {
			out.Ms = time.Since(t0).Milliseconds()
			out.Outcome, out.Detail = "blocked", summarize(dump2)
			return out
		}
	}
	// stage 2: interrupt, grace period
	cancel()
	select {
	case r := <-done:
		o := finish(r)
		o.Slow = true
		return o
	case <-time.After(grace):
	}
	out.Ms = time.Since(t0).Milliseconds()
	if st, dump := evalBlocked(before); st {
		out.Outcome, out.Detail = "blocked", "after interrupt: "+summarize(dump)
	} else {
		out.Outcome, out.Detail = "live", summarize(dump)
	}
	return out
}

type gor struct {
	id    int
	state string
	stack string
}

var reGor = regexp.MustCompile(`^goroutine (\d+) \[([^\]]*)\]:`)

var dumpBuf = make([]byte, 256<<10)

func goroutines() []gor {
	var buf []byte
	for {
		n := runtime.Stack(dumpBuf, true)
		if n < len(dumpBuf) {
			buf = dumpBuf[:n]
			break
		}
		dumpBuf = make([]byte, 2*len(dumpBuf))
	}
	var out []gor
	for _, blk := range strings.Split(string(buf), "\n\n") {
		m := reGor.FindStringSubmatch(blk)
		if m == nil {
			continue
		}
		id, _ := strconv.Atoi(m[1])
		st := m[2]
		if i := strings.Index(st, ","); i >= 0 {
			st = st[:i]
		}
		out = append(out, gor{id, st, blk})
	}
	return out
}

var blockedStates = []string{"chan receive", "chan send", "select", "IO wait", "semacquire", "sync.Mutex.Lock",
	"sync.RWMutex.RLock", "sync.RWMutex.Lock", "sync.WaitGroup.Wait", "sync.Cond.Wait"}

func isBlocked(g gor) bool {
	ok := false
	for _, b := range blockedStates {
		if strings.HasPrefix(g.state, b) {
			ok = true
		}
	}
	if !ok {
		return false
	}
	// waiting for a timer is not being blocked
	if strings.Contains(g.stack, "time.Sleep") || strings.Contains(g.stack, "eval.sleep(") || strings.Contains(g.stack, "eval.timeAfter") {
		return false
	}
	return true
}

// evalBlocked: the goroutines created since the call started (the evaluating goroutine and
// everything the evaluation spawned), and whether all of them are blocked.
func evalBlocked(before map[int]bool) (bool, []gor) {
	var mine []gor
	for _, g := range goroutines() {
		if before[g.id] || g.state == "running" && strings.Contains(g.stack, "main.goroutines") {
			continue
		}
		mine = append(mine, g)
	}
	if len(mine) == 0 {
		return false, mine
	}
	for _, g := range mine {
		if !isBlocked(g) {
			return false, mine
		}
	}
	return true, mine
}

func sameGoroutines(a, b []gor) bool {
	if len(a) != len(b) {
		return false
	}
	m := map[int]string{}
	for _, g := range a {
		m[g.id] = g.state
	}
	for _, g := range b {
		if m[g.id] != g.state {
			return false
		}
	}
	return true
}

var reFrame = regexp.MustCompile(`(?m)^(src\.elv\.sh/[^\s(]+)`)

func summarize(gs []gor) string {
	var parts []string
	for _, g := range gs {
		top := ""
		if m := reFrame.FindStringSubmatch(g.stack); m != nil {
			top = m[1]
		}
		parts = append(parts, fmt.Sprintf("g%d[%s]@%s", g.id, g.state, top))
	}
	return strings.Join(parts, " ")
}

func trimStack(b []byte) string {
	s := string(b)
	if len(s) > 3000 {
		s = s[:3000]
	}
	return s
}
