package main

// Parent side of the sweep: runs batches of calls in child processes (this binary, C17_CHILD=1,
// under `timeout -s KILL`), restarts a child after a call that killed it and re-runs that call
// alone to attribute the crash.

import (
	"bufio"
	"encoding/json"
	"fmt"
	"os"
	"os/exec"
	"path/filepath"
	"strconv"
	"strings"
	"sync"
	"sync/atomic"
	"time"

	"verif.local/harness/lib"
)

type sweeper struct {
	c        *lib.Ctx
	base     string // scratch root (removed at the end)
	deadline time.Duration
	grace    time.Duration
	workers  int
	batch    int
	nChild   atomic.Int64
	nDied    atomic.Int64
	seq      atomic.Int64
	tag      string // prefix of the scratch file names (the patient re-runner shares base)
	patient  bool   // this sweeper is the patient re-runner: its "live" outcomes are final
	nRetried atomic.Int64
	nRescued atomic.Int64
}

// patientSweeper re-runs single calls with a much longer deadline: a call that was still RUNNING (not
// blocked) after deadline + interrupt + grace may simply have been starved of CPU on a loaded box.
func (s *sweeper) patientSweeper() *sweeper {
	d := 10 * s.deadline
	if d < 120*time.Second {
		d = 120 * time.Second
	}
	return &sweeper{c: s.c, base: s.base, deadline: d, grace: 60 * time.Second, workers: 2, batch: 1, tag: "patient-", patient: true}
}

func newSweeper(c *lib.Ctx) (*sweeper, error) {
	base, err := os.MkdirTemp("", "c17-sweep-")
	if err != nil {
		return nil, lib.Infra("%v", err)
	}
	for _, d := range []string{"home", "tmp", "xdg", "nopath", "work"} {
		os.MkdirAll(filepath.Join(base, d), 0o755)
	}
	return &sweeper{c: c, base: base, deadline: 3 * time.Second, grace: 5 * time.Second, workers: 7, batch: 300}, nil
}

func (s *sweeper) close() { os.RemoveAll(s.base) }

// childRun executes calls[from:to) of the job file in one child; returns the outcomes it
// reported, the id of a call that was started but not finished (-1 if none), whether the child
// said DONE, and the tail of its stderr.
func (s *sweeper) childRun(calls []call, from, to int) (outs []outcome, pending int, done bool, stderrTail string, err error) {
	n := s.seq.Add(1)
	// the child gets a job file holding only its own slice of the calls
	job := filepath.Join(s.base, fmt.Sprintf("%sjob-%d.json", s.tag, n))
	jb, _ := json.Marshal(calls[from:to])
	if e := os.WriteFile(job, jb, 0o644); e != nil {
		return nil, -1, false, "", lib.Infra("%v", e)
	}
	defer os.Remove(job)
	prog := filepath.Join(s.base, fmt.Sprintf("%sprogress-%d", s.tag, n))
	errPath := filepath.Join(s.base, fmt.Sprintf("%sstderr-%d", s.tag, n))
	defer os.Remove(prog)
	defer os.Remove(errPath)
	errF, e := os.Create(errPath)
	if e != nil {
		return nil, -1, false, "", lib.Infra("%v", e)
	}
	per := s.deadline + s.grace + time.Second
	limit := 120 + int((time.Duration(to-from) * per / 4).Seconds())
	if min := 120 + int(per.Seconds()); limit < min {
		limit = min // one call may use its whole deadline + grace
	}
	self, e := os.Executable()
	if e != nil {
		return nil, -1, false, "", lib.Infra("%v", e)
	}
	cmd := exec.Command("timeout", "-s", "KILL", strconv.Itoa(limit), self)
	work := filepath.Join(s.base, "work")
	cmd.Dir = work
	cmd.Env = []string{"C17_CHILD=1", "C17_JOB=" + job, "C17_FROM=0", "C17_TO=" + strconv.Itoa(to-from),
		"C17_PROGRESS=" + prog, "C17_BASE=" + work,
		"C17_DEADLINE_MS=" + strconv.Itoa(int(s.deadline.Milliseconds())), "C17_GRACE_MS=" + strconv.Itoa(int(s.grace.Milliseconds())),
		"PATH=" + filepath.Join(s.base, "nopath"), "HOME=" + filepath.Join(s.base, "home"), "TMPDIR=" + filepath.Join(s.base, "tmp"),
		"XDG_CONFIG_HOME=" + filepath.Join(s.base, "xdg"), "XDG_DATA_HOME=" + filepath.Join(s.base, "xdg"), "XDG_STATE_HOME=" + filepath.Join(s.base, "xdg"),
		"XDG_RUNTIME_DIR=" + filepath.Join(s.base, "xdg"), "GOTRACEBACK=all", "GOMAXPROCS=2", "LANG=C.UTF-8"}
	cmd.Stdin = nil
	cmd.Stdout = nil
	cmd.Stderr = errF
	s.nChild.Add(1)
	runErr := cmd.Run()
	errF.Close()
	pending = -1
	if f, e := os.Open(prog); e == nil {
		sc := bufio.NewScanner(f)
		sc.Buffer(make([]byte, 1<<20), 1<<26)
		for sc.Scan() {
			l := sc.Text()
			switch {
			case strings.HasPrefix(l, "S "):
				pending, _ = strconv.Atoi(l[2:])
			case strings.HasPrefix(l, "E "):
				rest := l[2:]
				if i := strings.Index(rest, " "); i > 0 {
					var o outcome
					if json.Unmarshal([]byte(rest[i+1:]), &o) == nil {
						outs = append(outs, o)
						pending = -1
					}
				}
			case l == "DONE":
				done = true
			}
		}
		f.Close()
	}
	if b, e := os.ReadFile(errPath); e == nil {
		t := string(b)
		if len(t) > 6000 {
			t = t[:3000] + "\n…\n" + t[len(t)-3000:]
		}
		stderrTail = t
	}
	code := 0
	if ee, ok := runErr.(*exec.ExitError); ok {
		code = ee.ExitCode()
	} else if runErr != nil {
		return outs, pending, done, stderrTail, lib.Infra("cannot run child: %v", runErr)
	}
	if strings.Contains(stderrTail, "C17-CHILD-INFRA") || code == 4 {
		return outs, pending, done, stderrTail, lib.Infra("child reported a machinery problem: %s", stderrTail)
	}
	if code == 137 || code == 124 {
		if pending < 0 {
			return outs, pending, done, stderrTail, lib.Infra("child killed by its %d s time limit between calls", limit)
		}
		return outs, pending, done, stderrTail, lib.Infra("child killed by its %d s time limit during call id %d", limit, pending)
	}
	return outs, pending, done, stderrTail, nil
}

// deathDetail extracts what killed the child from its stderr.
func deathDetail(stderr string) string {
	for _, l := range strings.Split(stderr, "\n") {
		if strings.HasPrefix(l, "panic: ") || strings.HasPrefix(l, "fatal error: ") {
			d := l
			if i := strings.Index(stderr, l); i >= 0 {
				rest := stderr[i:]
				if len(rest) > 1500 {
					rest = rest[:1500]
				}
				d = rest
			}
			return d
		}
	}
	if len(stderr) > 800 {
		return stderr[:800]
	}
	return stderr
}

// run executes all calls and returns one outcome per call (index = position in calls).
// The calls are dealt round-robin to the batches so that slow calls (blocked pipelines, process
// deaths, benchmark) spread over the workers instead of forming a tail in one batch.
func (s *sweeper) run(orig []call) ([]outcome, error) {
	n := len(orig)
	nb := (n + s.batch - 1) / s.batch
	if nb == 0 {
		return nil, nil
	}
	calls := make([]call, 0, n) // permuted; ID = index in orig
	pos := make([]int, n)       // position in calls of the call with a given ID
	type span struct{ from, to int }
	var spans []span
	for b := 0; b < nb; b++ {
		from := len(calls)
		for i := b; i < n; i += nb {
			c := orig[i]
			c.ID = i
			pos[i] = len(calls)
			calls = append(calls, c)
		}
		spans = append(spans, span{from, len(calls)})
	}
	outs := make([]outcome, n)
	have := make([]bool, n)
	var mu sync.Mutex
	var firstErr error
	setErr := func(e error) {
		mu.Lock()
		if firstErr == nil {
			firstErr = e
		}
		mu.Unlock()
	}
	lib.Parallel(len(spans), s.workers, func(k int) {
		from, to := spans[k].from, spans[k].to
		for from < to {
			mu.Lock()
			stop := firstErr != nil
			mu.Unlock()
			if stop {
				return
			}
			os2, pending, done, stderr, err := s.childRun(calls, from, to)
			if err != nil {
				setErr(err)
				return
			}
			mu.Lock()
			for _, o := range os2 {
				outs[o.ID], have[o.ID] = o, true
			}
			mu.Unlock()
			if done {
				return
			}
			if pending >= 0 {
				// the child died during the call with ID `pending`: re-run it alone to attribute the crash
				s.nDied.Add(1)
				o, err := s.attribute(calls, pos[pending], stderr)
				if err != nil {
					setErr(err)
					return
				}
				mu.Lock()
				outs[pending], have[pending] = o, true
				mu.Unlock()
				from = pos[pending] + 1
				continue
			}
			// the child asked for a restart after a blocked / live call (it reported the outcome)
			last := from - 1
			for _, o := range os2 {
				if pos[o.ID] > last {
					last = pos[o.ID]
				}
			}
			if last < from {
				setErr(lib.Infra("child made no progress on calls [%d,%d): %s", from, to, stderr))
				return
			}
			from = last + 1
		}
	})
	if firstErr != nil {
		return nil, firstErr
	}
	for i := range have {
		if !have[i] {
			return nil, lib.Infra("no outcome recorded for call %d (%s)", i, orig[i].Code)
		}
	}
	// "live" (still running, not blocked) is not believed at once: each such call is re-run alone in a
	// fresh child with a much longer deadline and THAT outcome is the recorded one.  Blocked verdicts
	// (every goroutine of the evaluation blocked) are not touched.
	if !s.patient {
		var again []call
		var ids []int
		for i, o := range outs {
			if o.Outcome == "live" {
				again = append(again, orig[i])
				ids = append(ids, i)
			}
		}
		if len(again) > 0 {
			s.nRetried.Add(int64(len(again)))
			o2, err := s.patientSweeper().run(again)
			if err != nil {
				return nil, err
			}
			for k, i := range ids {
				o := o2[k]
				o.ID = i
				if o.Outcome != "live" {
					s.nRescued.Add(1)
					o.Slow = true
				}
				outs[i] = o
			}
		}
	}
	return outs, nil
}

// attribute re-runs one call alone in a fresh child (up to 3 times).
func (s *sweeper) attribute(calls []call, p int, firstStderr string) (outcome, error) {
	id := calls[p].ID
	for try := 0; try < 3; try++ {
		os2, pending, _, stderr, err := s.childRun(calls, p, p+1)
		if err != nil {
			return outcome{}, err
		}
		if pending == id {
			return outcome{ID: id, Outcome: "process-died", Detail: deathDetail(stderr)}, nil
		}
		if len(os2) == 1 && try == 2 {
			return outcome{}, lib.Infra("a child died during call id %d but the call alone does not kill the process (3 tries): first death: %s", id, deathDetail(firstStderr))
		}
	}
	return outcome{}, lib.Infra("could not attribute the death of a child to call id %d", id)
}

// runOne evaluates a single ad-hoc call (used for the culprit analysis of a crash).
func (s *sweeper) runOne(c call) (outcome, error) {
	outs, err := s.run([]call{c})
	if err != nil {
		return outcome{}, err
	}
	return outs[0], nil
}
