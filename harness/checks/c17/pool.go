package main

// The adversarial value pool, the documented skip / clamp lists and the enumeration of the sweep.

import (
	"fmt"
	"math/rand"
	"sort"
	"strings"
)

// class is one member of the adversarial pool: a stable name (used in keys) and Elvish source text.
// $c17-* variables are bound freshly for every call by the child (see child.go: poolVars).
type class struct {
	Name string
	Src  string
}

var pool = []class{
	{"empty", `''`},
	{"badutf8", `"\xff\xfe"`},
	{"dash", `-`},
	{"str", `foo`},
	{"-1", `-1`},                       // string; parses as int where a number is wanted
	{"0", `0`},                         //
	{"1", `1`},                         // a small valid count / duration (sleep 1 is the clamp)
	{"num-1", `(num -1)`},              // typed int
	{"num0", `(num 0)`},                //
	{"maxint", `9223372036854775807`},  // 2^63-1
	{"minint", `-9223372036854775808`}, // -2^63
	{"2^63", `9223372036854775808`},    // smallest big int
	{"2^64", `18446744073709551616`},   //
	{"nan", `(num NaN)`},
	{"+inf", `(num +Inf)`},
	{"-inf", `(num -Inf)`},
	{"1/3", `(num 1/3)`},
	{"-0.0", `(num -0.0)`},
	{"elist", `[]`},
	{"list", `[a b]`},
	{"hugelist", `$c17-hugelist`}, // 10 000 elements
	{"emap", `[&]`},
	{"map", `[&a=b]`},
	{"nil", `$nil`},
	{"bool", `$true`},
	{"fn-arity", `{|a b c| }`},     // closure with the wrong arity for every callback position
	{"fn-throw", `{|@a| fail x }`}, // closure that throws
	{"fn-ok", `{|@a| }`},           // closure that accepts anything
	{"builtin", `$nop~`},
	{"file", `$c17-file`},     // an open regular file (fresh per call)
	{"exc", `$c17-exc`},       // an exception value
	{"styled", `(styled x red)`},
}

func classByName(n string) (class, bool) {
	for _, c := range pool {
		if c.Name == n {
			return c, true
		}
	}
	return affinityClass(n)
}

func init() {
	// number spellings with a huge value stay away from the clamped commands as well
	for i := range clamps {
		clamps[i].Classes = append(append([]string{}, clamps[i].Classes...), hugeNumStrings...)
	}
}

// ---- documented skip list (commands never called by the sweep)
var skipCmd = map[string]string{
	"exit": "terminates the process by design",
	"exec": "replaces the process by design",
	"fg":   "process-level: waits for / hands the terminal to other process groups",
}

// skipModules: modules of mods.AddTo that cannot be loaded without a terminal/editor.
var skipModules = map[string]string{
	"readline-binding": "needs the edit: module (interactive editor)",
	"edit":             "interactive editor, needs a terminal",
}

// ---- documented clamp list: (command, argument position (0 = any), classes) kept out of the pool
// because the call is long-running-but-live or a CPU/memory explosion, which C17 does not speak about.
type clamp struct {
	Cmd     string
	Pos     int
	Classes []string
	Why     string
}

var hugeNums = []string{"maxint", "minint", "2^63", "2^64", "+inf", "-inf"}

var clamps = []clamp{
	{"range", 0, hugeNums, "counts to/from a huge bound: live, not blocked"},
	{"repeat", 1, []string{"maxint"}, "emits 2^63-1 values: live, not blocked"},
	{"sleep", 1, []string{"maxint", "2^63", "2^64", "+inf"}, "sleeps (interruptibly) for centuries: time argument clamped"},
	{"math:pow", 2, []string{"maxint", "minint", "2^63", "2^64"}, "exact power with a huge exponent: CPU/memory explosion"},
	{"math:pow", 1, []string{"2^63", "2^64", "maxint", "minint"}, "kept small together with the exponent clamp (big base ^ big exponent)"},
}

func clamped(cmd string, classes []string) bool {
	for _, cl := range clamps {
		if cl.Cmd != cmd {
			continue
		}
		for i, c := range classes {
			if cl.Pos != 0 && cl.Pos != i+1 {
				continue
			}
			for _, x := range cl.Classes {
				if x == c {
					return true
				}
			}
		}
	}
	return false
}

// form is the abstract shape the judge needs to recognise the design-level deadlock pattern.
type form struct {
	ProdBand  string `json:"prodBand"`
	ProdCount int    `json:"prodCount"`
	ConsBand  string `json:"consBand"`
}

var noForm = form{"none", 0, "none"}

// slot is one varying position of a call: its class name (used in keys), its Elvish source and the
// BENIGN source for that position (a valid value; "*" in a key = "the crash does not need this
// position to deviate from the benign call").
type slot struct {
	Class  string `json:"class"`
	Src    string `json:"src"`
	Benign string `json:"benign"`
}

// call is one evaluation of the sweep.
type call struct {
	ID    int    `json:"id"`
	Kind  string `json:"kind"` // call | redir | pipe
	Cmd   string `json:"cmd"`  // command name; "redir" / "redir&" ; "pipe"
	Mod   string `json:"mod,omitempty"`
	Slots []slot `json:"slots"`
	Code  string `json:"code"`
	Form  form   `json:"form"`
	Probe string `json:"probe,omitempty"` // known-finding key this call is a directed probe for
	Tail  int    `json:"tail,omitempty"`  // commands with a variadic last parameter: index of the first slot in the variadic tail + 1 (0 = none)
}

func (c call) classes() []string {
	out := make([]string, len(c.Slots))
	for i, s := range c.Slots {
		out[i] = s.Class
	}
	return out
}

// stem is the stable structural key of a call: "<command>:<class>,<class>…".
func (c call) stem() string { return c.Cmd + ":" + keyClasses(c, c.classes()) }

// keyClasses renders argument classes for a key: positional for the normal parameters; the
// arguments of a variadic tail are interchangeable, so only their non-"*" classes are listed
// (in call order, joined by "+") in one slot; trailing "*" are dropped.
func keyClasses(c call, cls []string) string {
	out := cls
	if c.Tail > 0 && len(cls) >= c.Tail {
		out = append([]string{}, cls[:c.Tail-1]...)
		var tail []string
		for _, x := range cls[c.Tail-1:] {
			if x != "*" {
				tail = append(tail, x)
			}
		}
		if len(tail) > 0 {
			out = append(out, strings.Join(tail, "+"))
		}
	}
	for len(out) > 0 && out[len(out)-1] == "*" {
		out = out[:len(out)-1]
	}
	return strings.Join(out, ",")
}

// code renders a call from the sources of its slots.
func code(kind, cmd, mod string, srcs []string) string {
	switch kind {
	case "redir":
		amp := ""
		if cmd == "redir&" {
			amp = "&"
		}
		return srcs[0] + " " + srcs[1] + srcs[2] + amp + srcs[3]
	case "pipe":
		return srcs[0] + " | " + srcs[1]
	}
	if c, ok := affinityCode(kind, srcs); ok {
		return c
	}
	s := cmd
	if len(srcs) > 0 {
		s += " " + strings.Join(srcs, " ")
	}
	if mod != "" {
		return "use " + mod + "; " + s
	}
	return s
}

func (c call) srcs() []string {
	out := make([]string, len(c.Slots))
	for i, s := range c.Slots {
		out[i] = s.Src
	}
	return out
}

func mkCall(cm cmd, cls []class) call {
	sl := make([]slot, len(cls))
	for i, c := range cls {
		sl[i] = slot{c.Name, c.Src, benign(cm, i)}
	}
	c := call{Kind: "call", Cmd: cm.Name, Mod: cm.Mod, Slots: sl, Form: noForm}
	if cm.GoFn && cm.Var {
		c.Tail = len(cm.Args) // normal parameters = len(Args)-1, so the tail starts at slot len(Args)-1
	}
	c.Code = code(c.Kind, c.Cmd, c.Mod, c.srcs())
	return c
}

// enumerate builds the sweep: arity 0..maxExh exhaustively, the single-deviation rows of the
// arities in devArities, plus nSample seeded calls of arity sampleArity.
func enumerate(tab []cmd, maxExh int, devArities []int, sampleArity, nSample int, rnd *rand.Rand) (calls []call, skipped []string, nClamped int) {
	var live []cmd
	for _, cm := range tab {
		if why, ok := skipCmd[cm.Name]; ok {
			skipped = append(skipped, cm.Name+": "+why)
			continue
		}
		live = append(live, cm)
	}
	var rec func(cm cmd, prefix []class, depth int)
	rec = func(cm cmd, prefix []class, depth int) {
		c := mkCall(cm, prefix)
		if clamped(cm.Name, c.classes()) {
			nClamped++
		} else {
			calls = append(calls, c)
		}
		if depth == maxExh {
			return
		}
		for _, p := range pool {
			rec(cm, append(append([]class{}, prefix...), p), depth+1)
		}
	}
	for _, cm := range live {
		rec(cm, nil, 0)
	}
	// single-deviation rows of the next arities: every call that differs from the benign call
	// (a valid value in every position) in exactly one position, for every class in that position
	for _, ar := range devArities {
		if ar <= maxExh {
			continue
		}
		for _, cm := range live {
			for pos := 0; pos < ar; pos++ {
				for _, p := range pool {
					cls := make([]class, ar)
					for j := range cls {
						cls[j] = class{"*", benign(cm, j)}
					}
					cls[pos] = p
					c := mkCall(cm, cls)
					if clamped(cm.Name, c.classes()) {
						nClamped++
						continue
					}
					calls = append(calls, c)
				}
			}
		}
	}
	for i := 0; i < nSample; i++ {
		cm := live[rnd.Intn(len(live))]
		var cls []class
		for j := 0; j < sampleArity; j++ {
			cls = append(cls, pool[rnd.Intn(len(pool))])
		}
		c := mkCall(cm, cls)
		if clamped(cm.Name, c.classes()) {
			nClamped++
			continue
		}
		calls = append(calls, c)
	}
	return
}

// ---- redirection forms: <command> <dst><op><src>, finite space, run exhaustively in both tiers.
type fdClass struct {
	Name string
	Txt  []string // concrete spellings (first is canonical, the others are drawn by seed)
}

var fdDst = []fdClass{
	{"none", []string{""}},
	{"neg", []string{"-1", "-2", "-1000", "-9223372036854775808"}},
	{"stdin", []string{"0", "stdin"}},
	{"stdout", []string{"1", "stdout"}},
	{"stderr", []string{"2", "stderr"}},
	{"unopened", []string{"3", "7", "100", "1024"}},
	{"maxint", []string{"9223372036854775807"}},
	{"big", []string{"9223372036854775808", "18446744073709551616"}},
	{"word", []string{"x", "1.5", "0x"}},
}

var fdSrc = []fdClass{ // after "&"
	{"neg", []string{"-2", "-1000", "-9223372036854775808"}}, // (-1 means "close", like "-")
	{"close", []string{"-", "-1"}},
	{"stdin", []string{"0", "stdin"}},
	{"stdout", []string{"1", "stdout"}},
	{"stderr", []string{"2", "stderr"}},
	{"unopened", []string{"3", "77", "1024"}},
	{"maxint", []string{"9223372036854775807"}},
	{"big", []string{"9223372036854775808", "18446744073709551616"}},
	{"word", []string{"x", "''", "1.5"}},
	{"nil", []string{"$nil"}},
	{"list", []string{"[a]"}},
}

var valSrc = []fdClass{ // plain (non-&) sources
	{"fname", []string{"out.txt", "sub/missing.txt", "''"}},
	{"file", []string{"$c17-file"}},
	{"pipe", []string{"$c17-pipe"}},
	{"map", []string{"[&a=b]", "[&r=x &w=y]"}},
	{"nil", []string{"$nil"}},
	{"list", []string{"[a]"}},
	{"num", []string{"(num 1)", "(num -1)"}},
}

var redirOps = []string{">", ">>", "<", "<>"}
var redirCmds = []fdClass{{"echo", []string{"echo a"}}, {"put", []string{"put a"}}, {"nop", []string{"nop"}}}

// redirForms: <command> <dst><op>[&]<src>; slots: command, destination, operator, source.  The
// benign call is `nop >out.txt` / `nop >&1`.
func redirForms(rnd *rand.Rand) []call {
	var out []call
	pickTxt := func(fc fdClass, round int) string {
		if round == 0 {
			return fc.Txt[0]
		}
		return fc.Txt[rnd.Intn(len(fc.Txt))]
	}
	add := func(kind string, cm, d fdClass, op string, s fdClass, benignSrc string, round int) {
		sl := []slot{{cm.Name, cm.Txt[0], "nop"}, {"dst=" + d.Name, pickTxt(d, round), ""}, {op, op, ">"}, {"src=" + s.Name, pickTxt(s, round), benignSrc}}
		c := call{Kind: "redir", Cmd: kind, Slots: sl, Form: noForm}
		c.Code = code(c.Kind, c.Cmd, "", c.srcs())
		out = append(out, c)
	}
	for _, cm := range redirCmds {
		for _, d := range fdDst {
			for _, op := range redirOps {
				for round := 0; round < 2; round++ {
					for _, s := range fdSrc {
						add("redir&", cm, d, op, s, "1", round)
					}
					for _, s := range valSrc {
						add("redir", cm, d, op, s, "out.txt", round)
					}
				}
			}
		}
	}
	// two redirections in one form: an earlier redirection changes the port table (grows it, leaves
	// holes, closes a standard port) before the swept one is evaluated
	for _, cm := range redirCmds {
		for _, first := range redirFirst {
			cm2 := fdClass{cm.Name + "+" + first, []string{cm.Txt[0] + " " + first}}
			for _, d := range fdDst {
				for _, s := range fdSrc {
					add("redir&", cm2, d, ">", s, "1", 0)
				}
			}
			for _, s := range append(append([]fdClass{}, fdSrc...), fdClass{"hole", []string{"4", "6"}}) {
				add("redir&", cm2, fdClass{"none", []string{""}}, "<", s, "0", 0)
				add("redir&", cm2, fdClass{"stderr", []string{"2"}}, ">", s, "1", 0)
				add("redir&", cm2, fdClass{"none", []string{""}}, ">", fdClass{s.Name, []string{s.Txt[len(s.Txt)-1]}}, "1", 0)
			}
		}
	}
	return dedupe(out)
}

// earlier redirections of the two-redirection forms
var redirFirst = []string{"5>&1", "9>&-", "7>out2.txt", "3<&0", "2>&1", "1>&-", "0<&-", "5>&1 3>&-", "1024>&2"}

// ---- pipeline forms: producer | consumer; the abstract form (which band the producer fills, how
// much, which band the consumer waits on) travels to the judge.
type stage struct {
	Code  string
	Band  string
	Count int
}

func pipeForms() []call {
	prods := []stage{}
	for _, n := range []int{0, 1, 32, 33, 100, 2000} {
		prods = append(prods, stage{fmt.Sprintf("range %d", n), "values", n})
		prods = append(prods, stage{fmt.Sprintf("repeat %d x", n), "values", n})
		prods = append(prods, stage{fmt.Sprintf("range %d | each {|x| echo $x }", n), "bytes", n})
	}
	prods = append(prods, stage{"nop", "none", 0}, stage{"print (repeat 20000 xxxx)", "bytes", 1}, stage{"fail x", "none", 0})
	cons := []stage{
		{"read-line", "bytes", 0}, {"read-upto x", "bytes", 0}, {"read-bytes 1", "bytes", 0}, {"slurp", "bytes", 0},
		{"from-lines", "bytes", 0}, {"from-json", "bytes", 0}, {"from-terminated x", "bytes", 0},
		{"each {|x| }", "both", 0}, {"count", "both", 0}, {"take 1", "both", 0}, {"one", "both", 0}, {"all", "both", 0},
		{"only-bytes", "both", 0}, {"only-values", "both", 0}, {"nop", "none", 0}, {"fail y", "none", 0},
		{"peach {|x| }", "both", 0}, {"order", "both", 0}, {"to-lines", "both", 0},
	}
	var out []call
	for _, p := range prods {
		for _, q := range cons {
			c := call{Kind: "pipe", Cmd: "pipe", Slots: []slot{{strings.ReplaceAll(p.Code, ",", ";"), p.Code, "nop"}, {strings.ReplaceAll(q.Code, ",", ";"), q.Code, "nop"}},
				Form: form{p.Band, p.Count, q.Band}}
			c.Code = code(c.Kind, c.Cmd, "", c.srcs())
			out = append(out, c)
		}
	}
	return out
}

func dedupe(cs []call) []call {
	seen := map[string]bool{}
	var out []call
	for _, c := range cs {
		if seen[c.Code] {
			continue
		}
		seen[c.Code] = true
		out = append(out, c)
	}
	return out
}

// probeFromKey turns a known-finding key "crash:<command>:<class>,…" back into the call it names
// ("*" stands for the benign value of that position), so that every listed finding is probed in every run.
func probeFromKey(key string, tab []cmd) (call, bool) {
	rest, ok := strings.CutPrefix(key, "crash:")
	if !ok {
		return call{}, false
	}
	i := strings.LastIndex(rest, ":")
	if i < 0 {
		return call{}, false
	}
	name, cls := rest[:i], rest[i+1:]
	var cm *cmd
	for j := range tab {
		if tab[j].Name == name {
			cm = &tab[j]
		}
	}
	if cm == nil {
		return call{}, false
	}
	var cs []class
	if cls != "" {
		for pos, n := range strings.Split(strings.ReplaceAll(cls, "+", ","), ",") {
			if n == "*" {
				cs = append(cs, class{"*", benign(*cm, pos)})
				continue
			}
			_ = pos
			c, ok := classByName(n)
			if !ok {
				return call{}, false
			}
			cs = append(cs, c)
		}
	}
	c := mkCall(*cm, cs)
	c.Probe = key
	return c, true
}

// benign gives Elvish source of a VALID value for the parameter at 0-based position pos of the
// command, from its reflected Go signature (used to find out which arguments a crash depends on).
func benign(cm cmd, pos int) string {
	ps := userParams(cm)
	var t string
	switch {
	case pos < len(ps):
		t = ps[pos]
	case len(ps) > 0 && cm.Var:
		t = ps[len(ps)-1]
	default:
		return "foo"
	}
	t = strings.TrimPrefix(t, "[]")
	switch t {
	case "int", "vals.Num", "float64", "int32":
		return "1"
	case "string", "interface {}":
		return "foo"
	case "eval.Callable", "*eval.Closure":
		return "{|@a| }"
	case "vector.Vector", "eval.Inputs":
		return "[a]"
	case "hashmap.Map":
		return "[&a=b]"
	case "*os.File":
		return "$c17-file"
	case "eval.Exception", "diag.Shower":
		return "$c17-exc"
	case "ui.Text":
		return "(styled x red)"
	}
	return "foo"
}

// userParams: the reflected parameter types that take arguments (frame and options removed).
func userParams(cm cmd) []string { return cm.Args }

func sortedKeys(m map[string]string) []string {
	var ks []string
	for k := range m {
		ks = append(ks, k)
	}
	sort.Strings(ks)
	return ks
}
