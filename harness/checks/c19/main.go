// C19 — interrupting evaluation at any moment is handled cleanly.
//
//	M: MCInterrupt (Interrupt.tla = the goroutines of one evaluation with the interrupt check in front of
//	   every pipeline, the check after the top-level chunk, and the peach machine of Peach.tla):
//	   exhaustive for small abstract programs, Cancel anywhere. The repaired configuration must be
//	   error-free; the AS-IS configuration is expected to violate SemNonNegative / BoundRespected:
//	   those counterexamples are CANDIDATES.
//	G: (a) TLC enumerates programs with a synchronous cancel (harness command vi-cancel) together with
//	   the marks that run and what Eval returns; every case is concretised in several nestings
//	   (closures, loops, each, try/finally/catch, if, pipelines) and replayed; (b) every candidate is
//	   replayed on the real code with gated callbacks and hooks (schedule forced, cancel at the scheduled
//	   point). All real runs happen in CHILD PROCESSES (the over-release panics on a worker goroutine
//	   and kills the process); a death is a verdict of its own.
//	V: a corpus of long-running programs interrupted asynchronously at swept and random delays;
//	   TraceInterrupt (TLC) validates every recorded trace, including the prefix left by a dead child.
package main

import (
	"bufio"
	"bytes"
	"encoding/json"
	"fmt"
	"math/rand"
	"os"
	"os/exec"
	"path/filepath"
	"regexp"
	"sort"
	"strings"
	"sync"
	"time"

	"verif.local/harness/checks/c20/drv"
	"verif.local/harness/lib"
)

func main() {
	if os.Getenv("VERIF_C19_CHILD") != "" {
		child()
		return
	}
	lib.Main("C19", run)
}

// ------------------------------------------------------------------ child process

type line struct {
	Job int        `json:"job"`
	Ctl string     `json:"ctl,omitempty"` // JobBegin | JobEnd | JobInfra
	Msg string     `json:"msg,omitempty"`
	E   *drv.Event `json:"e,omitempty"`
}

func child() {
	b, err := os.ReadFile(os.Getenv("VERIF_C19_CHILD"))
	if err != nil {
		fmt.Fprintln(os.Stderr, err)
		os.Exit(3)
	}
	var jobs []drv.IntrJob
	if err := json.Unmarshal(b, &jobs); err != nil {
		fmt.Fprintln(os.Stderr, err)
		os.Exit(3)
	}
	out, err := os.OpenFile(os.Getenv("VERIF_C19_OUT"), os.O_CREATE|os.O_WRONLY|os.O_APPEND, 0o644)
	if err != nil {
		fmt.Fprintln(os.Stderr, err)
		os.Exit(3)
	}
	write := func(l line) { // one write per event, unbuffered: the process may die at any moment
		b, _ := json.Marshal(l)
		out.Write(append(b, '\n'))
	}
	for _, j := range jobs {
		write(line{Job: j.ID, Ctl: "JobBegin"})
		_, err := drv.RunIntr(j, func(e drv.Event) { write(line{Job: j.ID, E: &e}) }, 90*time.Second)
		if err != nil {
			write(line{Job: j.ID, Ctl: "JobInfra", Msg: err.Error()})
		}
		write(line{Job: j.ID, Ctl: "JobEnd"})
	}
	out.Close()
}

type result struct {
	job    drv.IntrJob
	evs    []drv.Event
	ended  bool
	died   bool   // the child process died while this job was running
	stderr string // tail of the dead child's stderr
}

var rePanic = regexp.MustCompile(`(?m)^(panic|fatal error): (.*)$`)

// runJobs runs the jobs in child processes (re-exec of this binary), par at a time. A child that dies is
// restarted behind the job that killed it.
func runJobs(c *lib.Ctx, jobs []drv.IntrJob, par int) (map[int]*result, error) {
	res := map[int]*result{}
	for _, j := range jobs {
		res[j.ID] = &result{job: j}
	}
	self, err := os.Executable()
	if err != nil {
		return nil, lib.Infra("%v", err)
	}
	tmp, err := os.MkdirTemp("", "vc19-")
	if err != nil {
		return nil, lib.Infra("%v", err)
	}
	defer os.RemoveAll(tmp)
	chunks := make([][]drv.IntrJob, par)
	for k, j := range jobs {
		chunks[k%par] = append(chunks[k%par], j)
	}
	var mu sync.Mutex
	var firstErr error
	fail := func(err error) {
		mu.Lock()
		if firstErr == nil {
			firstErr = err
		}
		mu.Unlock()
	}
	lib.Parallel(par, par, func(w int) {
		rest := chunks[w]
		for round := 0; len(rest) > 0; round++ {
			jf := filepath.Join(tmp, fmt.Sprintf("jobs-%d-%d.json", w, round))
			of := filepath.Join(tmp, fmt.Sprintf("out-%d-%d.ndjson", w, round))
			b, _ := json.Marshal(rest)
			os.WriteFile(jf, b, 0o644)
			secs := 120 + 30*len(rest)
			cmd := exec.Command("timeout", "-s", "KILL", fmt.Sprint(secs), self)
			cmd.Env = append(os.Environ(), "VERIF_C19_CHILD="+jf, "VERIF_C19_OUT="+of)
			var stderr bytes.Buffer
			cmd.Stderr = &stderr
			runErr := cmd.Run()
			f, err := os.Open(of)
			if err != nil {
				fail(lib.Infra("child produced no output: %v / %v\n%s", err, runErr, tail(stderr.String(), 2000)))
				return
			}
			sc := bufio.NewScanner(f)
			sc.Buffer(make([]byte, 1<<20), 1<<28)
			began := map[int]bool{}
			for sc.Scan() {
				var l line
				if err := json.Unmarshal(sc.Bytes(), &l); err != nil {
					continue // a torn last line of a dead child
				}
				mu.Lock()
				r := res[l.Job]
				switch l.Ctl {
				case "JobBegin":
					began[l.Job] = true
				case "JobEnd":
					r.ended = true
				case "JobInfra":
					if firstErr == nil {
						firstErr = lib.Infra("job %d (%s): %s", l.Job, r.job.Program, l.Msg)
					}
				default:
					if l.E != nil {
						r.evs = append(r.evs, *l.E)
					}
				}
				mu.Unlock()
			}
			f.Close()
			// which job was running when the child went away?
			next := len(rest)
			for k, j := range rest {
				mu.Lock()
				ended := res[j.ID].ended
				mu.Unlock()
				if !ended {
					next = k
					break
				}
			}
			if next == len(rest) {
				return
			}
			if runErr == nil {
				fail(lib.Infra("child exited normally without finishing job %d", rest[next].ID))
				return
			}
			if ee, ok := runErr.(*exec.ExitError); ok && ee.ExitCode() == 137 && !rePanic.MatchString(stderr.String()) {
				fail(lib.Infra("child killed by its watchdog during job %d (%s)", rest[next].ID, rest[next].Program))
				return
			}
			if !began[rest[next].ID] {
				fail(lib.Infra("child died between jobs: %v\n%s", runErr, tail(stderr.String(), 3000)))
				return
			}
			mu.Lock()
			res[rest[next].ID].died = true
			res[rest[next].ID].stderr = tail(stderr.String(), 20000)
			if m := rePanic.FindString(stderr.String()); m != "" {
				res[rest[next].ID].stderr = m + "\n" + tail(stderr.String(), 3000)
			}
			mu.Unlock()
			rest = rest[next+1:]
		}
	})
	return res, firstErr
}

func tail(s string, n int) string {
	if len(s) > n {
		return s[len(s)-n:]
	}
	return s
}

// ------------------------------------------------------------------ the check

type replayCase struct {
	Job    drv.IntrJob `json:"job"`
	Events []drv.Event `json:"events"`
	Died   string      `json:"died,omitempty"`
	Expect *syncCase   `json:"expect,omitempty"`
}

type syncCase struct {
	Prog  []string `json:"prog"`
	Marks []int    `json:"marks"`
	Eret  string   `json:"eret"`
}

const knownKey = "peach:interrupt-during-acquire-over-release"

func extraFiles(c *lib.Ctx) (map[string][]byte, error) {
	out := map[string][]byte{}
	for _, n := range []string{"Peach.tla", "Each.tla", "EachRef.tla"} {
		b, err := os.ReadFile(filepath.Join(c.SpecDir("Peach"), n))
		if err != nil {
			return nil, lib.Infra("%v", err)
		}
		out[n] = b
	}
	return out, nil
}

func mcCfg(progs string, maxN int, bounds, wrap, sw string, cancel bool, invs string, live bool) []byte {
	s := fmt.Sprintf("CONSTANTS Recheck = %s Honour = %s MayCancel = %v AllowBadStart = FALSE\n Progs <- %s MaxN = %d Bounds = %s Wrappings = %s\nSPECIFICATION MCSpec\nINVARIANT %s\n",
		sw, sw, strings.ToUpper(fmt.Sprint(cancel)), progs, maxN, bounds, wrap, invs)
	if live {
		s += "PROPERTY Terminates\n"
	}
	return []byte(s)
}

const allInvs = "NoStartAfterCancel ReturnInterrupted AllGoroutinesDone BoundRespected SemNonNegative MarksInOrder NoCancelNoInterrupt"

func withFiles(extra map[string][]byte, name string, b []byte) map[string][]byte {
	out := map[string][]byte{name: b}
	for k, v := range extra {
		out[k] = v
	}
	return out
}

func run(c *lib.Ctx) error {
	dir := c.SpecDir("Interrupt")
	extra, err := extraFiles(c)
	if err != nil {
		return err
	}
	if c.Replay != "" {
		return replay(c, dir, extra)
	}
	c.Set("rule", "a case is one evaluation of a program in a child process with its interruption (delay, synchronous position or forced schedule); distinct by program, interruption and recorded event sequence; evaluations that were not interrupted before they finished are not counted")

	// ---------------------------------------------------------------- M (background) and the TLC side of G
	var bg sync.WaitGroup
	var bgMu sync.Mutex
	var bgErr error
	background := func(f func() error) {
		bg.Add(1)
		go func() {
			defer bg.Done()
			if err := f(); err != nil {
				bgMu.Lock()
				if bgErr == nil {
					bgErr = err
				}
				bgMu.Unlock()
			}
		}()
	}
	maxN := c.Pick(2, 3)
	background(func() error {
		r, err := c.TLC(fmt.Sprintf("MCInterrupt repaired n<=%d", maxN), lib.TLCRun{Dir: dir, Module: "MCInterrupt", Workers: c.Pick(2, 6), Timeout: 14 * time.Minute, HeapGB: 12,
			Files: withFiles(extra, "MCInterrupt.cfg", mcCfg("AsyncProgs", maxN, "{1, 2}", "{TRUE, FALSE}", "{TRUE}", true, allInvs, true))})
		if err != nil {
			return err
		}
		if r.ErrKind != "" {
			return lib.Infra("the REPAIRED interrupt model violates %s %s — the model must be re-examined:\n%s", r.ErrKind, r.ErrName, r.ErrTrace)
		}
		c.Logf("repaired model: %d distinct states, no error", r.Distinct)
		c.Set("model_repaired_states", r.Distinct)
		return nil
	})
	type candidate struct {
		inv   string
		job   drv.IntrJob
		sched []drv.Step
	}
	cands := make([]*candidate, 2)
	for k, inv := range []string{"SemNonNegative", "BoundRespected"} {
		k, inv := k, inv
		wrap := "{TRUE, FALSE}"
		if inv == "BoundRespected" {
			wrap = "{FALSE}"
		}
		background(func() error {
			r, err := c.TLC("MCInterrupt as-is "+inv, lib.TLCRun{Dir: dir, Module: "MCInterrupt", Workers: 1, Timeout: 10 * time.Minute,
				Files: withFiles(extra, "MCInterrupt.cfg", mcCfg("AsyncProgs", 2, "{1, 2}", wrap, "{FALSE}", true, inv, false))})
			if err != nil {
				return err
			}
			if r.ErrKind == "" {
				c.Logf("as-is model: no counterexample for %s", inv)
				return nil
			}
			job, err := candidateJob(r)
			if err != nil {
				return lib.Infra("cannot turn the counterexample into a schedule: %v\n%s", err, r.ErrTrace)
			}
			job.What = "candidate " + r.ErrName
			c.Logf("as-is model violates %s: candidate `%s`, %d gate events", r.ErrName, job.Program, len(job.Sched))
			cands[k] = &candidate{r.ErrName, job, job.Sched}
			return nil
		})
	}
	var syncs []syncCase
	background(func() error {
		r, err := c.TLC("MCInterrupt synchronous cancel", lib.TLCRun{Dir: dir, Module: "MCInterrupt", Workers: 1, Timeout: 10 * time.Minute,
			Files: withFiles(extra, "MCInterrupt.cfg", mcCfg(fmt.Sprintf("SyncProgs%d", c.Pick(4, 6)), 1, "{1}", "{FALSE}", "{FALSE}", false,
				"NoStartAfterCancel ReturnInterrupted AllGoroutinesDone MarksInOrder NothingAfterSyncCancel SyncCancelReturnsInterrupted NoCancelNoInterrupt Emit", false))})
		if err != nil {
			return err
		}
		if r.ErrKind != "" {
			return lib.Infra("the synchronous-cancel model violates %s %s:\n%s", r.ErrKind, r.ErrName, r.ErrTrace)
		}
		seen := map[string]bool{}
		for _, s := range r.PrintedStrings() {
			if seen[s] {
				continue
			}
			seen[s] = true
			var sc syncCase
			if err := json.Unmarshal([]byte(s), &sc); err != nil {
				return lib.Infra("MCInterrupt printed %q: %v", s, err)
			}
			if sc.Marks == nil {
				sc.Marks = []int{}
			}
			syncs = append(syncs, sc)
		}
		sort.Slice(syncs, func(a, b int) bool { return fmt.Sprint(syncs[a].Prog) < fmt.Sprint(syncs[b].Prog) })
		c.Set("sync_cancel_cases_from_tlc", len(syncs))
		return nil
	})

	// ---------------------------------------------------------------- V: the corpus, interrupted asynchronously
	rng := rand.New(rand.NewSource(c.Seed))
	var jobs []drv.IntrJob
	id := 0
	newJob := func(j drv.IntrJob) int {
		id++
		j.ID = id
		jobs = append(jobs, j)
		return id
	}
	sweep := []int{0, 150, 600, 2000, 5000, 12000, 30000, 70000}
	nrand := c.Pick(1, 24)
	nsweep := c.Pick(4, len(sweep))
	for _, p := range corpus {
		ds := map[int]bool{}
		perm := rng.Perm(len(sweep))
		for _, k := range perm[:nsweep] {
			ds[sweep[k]] = true
		}
		for k := 0; k < nrand; k++ {
			ds[rng.Intn(100000)] = true
		}
		var dl []int
		for d := range ds {
			dl = append(dl, d)
		}
		sort.Ints(dl)
		for _, d := range dl {
			newJob(drv.IntrJob{Program: p, CancelUS: d, Procs: []int{1, 2, 4, 8, 16}[rng.Intn(5)], What: "asynchronous interrupt"})
		}
	}
	c.Set("corpus_programs", len(corpus))
	nAsync := len(jobs)
	c.Logf("V: %d programs, %d interrupted evaluations queued", len(corpus), nAsync)

	// wait for TLC: G(a) and G(b) jobs
	bg.Wait()
	if bgErr != nil {
		return bgErr
	}
	expect := map[int]*syncCase{}
	shapes := c.Pick(2, 6)
	for k := range syncs {
		sc := &syncs[k]
		for s := 0; s < shapes; s++ {
			prog := concretise(sc.Prog, rand.New(rand.NewSource(c.Seed*1000+int64(k*10+s))), s == 0)
			jid := newJob(drv.IntrJob{Program: prog, CancelUS: -1, Procs: 4, What: "synchronous cancel"})
			expect[jid] = sc
		}
	}
	ncand := 0
	for _, cd := range cands {
		if cd != nil {
			ncand++
			newJob(cd.job)
		}
	}
	c.Set("model_asis_candidates", ncand)

	res, err := runJobs(c, jobs, c.Pick(4, 8))
	if err != nil {
		return err
	}
	c.AddEvals(len(jobs))

	// ---------------------------------------------------------------- verdicts
	var items []drv.Item
	deaths, interrupted := 0, 0
	for _, j := range jobs {
		r := res[j.ID]
		rc := replayCase{Job: j, Events: r.evs, Expect: expect[j.ID]}
		if r.died {
			deaths++
			rc.Died = r.stderr
			key := "interrupt:process-died"
			first := strings.SplitN(r.stderr, "\n", 2)[0]
			if strings.Contains(first, "semaphore: released more than held") {
				key = knownKey
			} else if m := rePanic.FindStringSubmatch(first); m != nil {
				key += ":" + m[2]
			}
			c.Reject(key, fmt.Sprintf("%s: the process DIED while evaluating `%s` (cancel after %d us): %s", j.What, j.Program, j.CancelUS, first), rc)
		} else if !r.ended {
			return lib.Infra("job %d has no end", j.ID)
		}
		wasInterrupted := false
		for _, e := range r.evs {
			if e.Ev == "CancelStart" {
				wasInterrupted = true
			}
		}
		if wasInterrupted {
			interrupted++
			c.Distinct(map[string]any{"p": j.Program, "d": j.CancelUS, "e": r.evs})
		}
		if sc := expect[j.ID]; sc != nil && !r.died {
			compareSync(c, rc, sc)
		}
		if len(r.evs) > 0 {
			items = append(items, drv.Item{What: j.What, Module: "TraceInterrupt", Events: r.evs, Case: rc, Known: knownPattern(r.evs)})
		}
		if j.ID%23 == 1 && len(r.evs) < 60 {
			c.Sample(map[string]any{"program": j.Program, "cancel_us": j.CancelUS, "events": r.evs})
		}
	}
	c.Set("evaluations_interrupted_before_they_finished", interrupted)
	c.Set("child_process_deaths", deaths)
	c.Logf("%d evaluations (%d interrupted before finishing), %d child deaths", len(jobs), interrupted, deaths)

	// vacuity guard: a clean trace with a cancellation inserted in front of a started pipeline must be rejected
	if err := vacuity(c, dir, extra, res, jobs[:nAsync]); err != nil {
		return err
	}
	// candidates first in the sequence of runs showing the known pattern
	sort.SliceStable(items, func(a, b int) bool {
		return strings.HasPrefix(items[a].What, "candidate") && !strings.HasPrefix(items[b].What, "candidate")
	})
	npat := 0
	for _, it := range items {
		if it.Known {
			npat++
		}
	}
	c.Set("runs_showing_the_known_pattern", npat)
	skipped, err := drv.JudgeAll(c, dir, extra, items, c.Pick(3, 12), 5000, 4, "TraceInterruptName.cfg", func(it drv.Item, v *lib.TraceVerdict) {
		reject(c, it, v)
	})
	if err != nil {
		return err
	}
	c.Set("runs_not_judged_after_the_known_pattern_was_rejected_cap_times", skipped)
	c.Assume("TLC trusted; events are ordered by one mutex-protected tracer and written to the file one by one; the cancellation is placed by TLC between CancelStart and CancelEnd; goroutines are told apart by their runtime id; a forced run that leaves its schedule continues free and is still judged; timing never enters a verdict: delays only choose the schedule, watchdogs give exit 2; builtin loops that do not poll the context are outside the statement (arguments are kept small)")
	return nil
}

// knownPattern classifies (never judges): within one peach call, a worker is spawned after an Acquire that
// returned after the cancellation began.
func knownPattern(evs []drv.Event) bool {
	cancelled, acqAfter := false, false
	for _, e := range evs {
		switch e.Ev {
		case "Begin":
			cancelled, acqAfter = false, false
		case "PeachDecl":
			acqAfter = false
		case "CancelStart":
			cancelled = true
		case "AcqRet":
			acqAfter = cancelled
		case "Spawn":
			if acqAfter {
				return true
			}
		}
	}
	return false
}

func reject(c *lib.Ctx, it drv.Item, v *lib.TraceVerdict) {
	rc := it.Case.(replayCase)
	key := "interrupt:trace-rejected"
	if v.InvName != "" {
		key = "interrupt:" + v.InvName
	}
	if (v.InvName == "SemNonNegative" || v.InvName == "BoundRespected") && knownPattern(rc.Events) {
		key = knownKey
	}
	at := "(end)"
	k := v.HighWater
	if v.InvName != "" && k > 0 {
		k--
	}
	if k < len(rc.Events) {
		b, _ := json.Marshal(rc.Events[k])
		at = string(b)
	}
	c.Reject(key, fmt.Sprintf("%s: `%s` (cancel after %d us): the recorded events are not a behaviour of TraceInterrupt: matched %d of %d events, violated %q, at event %s",
		it.What, rc.Job.Program, rc.Job.CancelUS, v.HighWater, len(rc.Events), v.InvName, at), rc)
}

// compareSync: the marks that ran and what Eval returned must be what the specification prescribes.
func compareSync(c *lib.Ctx, rc replayCase, sc *syncCase) {
	var marks []int
	exc := ""
	offMain := false
	for _, e := range rc.Events {
		switch e.Ev {
		case "Mark":
			marks = append(marks, e.K)
			if e.G != 0 {
				offMain = true
			}
		case "EvalReturn":
			exc = e.Exc
		}
	}
	if offMain {
		return // a mark on another goroutine: not a sequential program (concretiser defect would show as a mismatch)
	}
	if fmt.Sprint(marks) != fmt.Sprint(sc.Marks) && !(len(marks) == 0 && len(sc.Marks) == 0) {
		key := "interrupt:sync-cancel-marks-differ"
		if len(marks) > len(sc.Marks) {
			key = "interrupt:mark-ran-after-sync-cancel"
		}
		c.Reject(key, fmt.Sprintf("`%s`: marks that ran %v, the specification prescribes %v", rc.Job.Program, marks, sc.Marks), rc)
		return
	}
	if exc != sc.Eret {
		c.Reject("interrupt:sync-cancel-return-differs", fmt.Sprintf("`%s`: Eval returned %q, the specification prescribes %q", rc.Job.Program, exc, sc.Eret), rc)
	}
}

// candidateJob turns a counterexample of MCInterrupt into a forced replay.
func candidateJob(r *lib.TLCResult) (drv.IntrJob, error) {
	cfg, sched, ends, err := drv.ScheduleOf(r)
	if err != nil {
		return drv.IntrJob{}, err
	}
	st := r.TraceStates()[0]
	wrapped, _ := st["wrapped"].(bool)
	var stmts []string
	prog, _ := st["prog"].([]any)
	for k, x := range prog {
		switch x {
		case "mark":
			stmts = append(stmts, fmt.Sprintf("vi-mark %d", k+1))
		case "sleep":
			stmts = append(stmts, "sleep 0.002")
		case "cancel":
			stmts = append(stmts, "vi-cancel")
		case "peach":
			var items []string
			for i := 1; i <= cfg.N; i++ {
				items = append(items, fmt.Sprint(i))
			}
			cb := "$vi-cb~"
			if wrapped {
				cb = "{|x| vi-cb $x }"
			}
			stmts = append(stmts, fmt.Sprintf("peach &num-workers=%d %s [%s]", cfg.Bound, cb, strings.Join(items, " ")))
		default:
			return drv.IntrJob{}, fmt.Errorf("statement %v", x)
		}
	}
	if len(stmts) == 0 {
		return drv.IntrJob{}, fmt.Errorf("no program in the counterexample")
	}
	return drv.IntrJob{Program: strings.Join(stmts, "\n"), CancelUS: -1, Sched: sched, Res: ends, Procs: 4, DeclN: cfg.N, DeclB: cfg.Bound}, nil
}

// vacuity: TraceInterrupt must reject a corrupted real trace.
func vacuity(c *lib.Ctx, dir string, extra map[string][]byte, res map[int]*result, jobs []drv.IntrJob) error {
	for _, j := range jobs {
		r := res[j.ID]
		if r.died || len(r.evs) < 8 || len(r.evs) > 400 {
			continue
		}
		clean := true
		for _, e := range r.evs {
			if e.Ev == "CancelStart" || e.Ev == "PeachDecl" {
				clean = false
			}
		}
		if !clean {
			continue
		}
		// cancellation inserted right after Begin: every later PStart contradicts NoStartAfterCancel
		evs := append([]drv.Event{}, r.evs[0])
		cs, ce := drv.Event{Ev: "CancelStart"}, drv.Event{Ev: "CancelEnd"}
		for _, e := range []*drv.Event{&cs, &ce} {
			e.Ress, e.Nouts, e.Out, e.Errs, e.Other = []string{}, []int{}, []int{}, []int{}, []string{}
		}
		evs = append(evs, cs, ce)
		evs = append(evs, r.evs[1:]...)
		v, err := drv.ValidateTrace(c, "TraceInterrupt(selftest-corrupt)", dir, "TraceInterrupt", evs, extra, 5*time.Minute)
		if err != nil {
			return err
		}
		if v.Accepted {
			return lib.Infra("vacuity guard: TraceInterrupt accepted a trace with a cancellation inserted in front of started pipelines")
		}
		c.Set("vacuity_corruption_rejected_with", v.InvName)
		return nil
	}
	return lib.Infra("vacuity guard: no uninterrupted trace to corrupt")
}

func replay(c *lib.Ctx, dir string, extra map[string][]byte) error {
	b, err := os.ReadFile(c.Replay)
	if err != nil {
		return lib.Infra("%v", err)
	}
	var f struct {
		Case replayCase `json:"case"`
	}
	if err := json.Unmarshal(b, &f); err != nil {
		return lib.Infra("%v", err)
	}
	rc := f.Case
	tries := 1
	if rc.Job.Sched == nil && rc.Job.CancelUS >= 0 {
		tries = 25
	}
	var jobs []drv.IntrJob
	for k := 0; k < tries; k++ {
		j := rc.Job
		j.ID = k + 1
		jobs = append(jobs, j)
	}
	res, err := runJobs(c, jobs, 1)
	if err != nil {
		return err
	}
	c.AddEvals(len(jobs))
	var items []drv.Item
	for _, j := range jobs {
		r := res[j.ID]
		one := replayCase{Job: j, Events: r.evs, Expect: rc.Expect}
		if r.died {
			one.Died = r.stderr
			first := strings.SplitN(r.stderr, "\n", 2)[0]
			key := "interrupt:process-died"
			if strings.Contains(first, "semaphore: released more than held") {
				key = knownKey
			}
			c.Reject(key, fmt.Sprintf("replay: the process DIED while evaluating `%s`: %s", j.Program, first), one)
		} else if rc.Expect != nil {
			compareSync(c, one, rc.Expect)
		}
		items = append(items, drv.Item{What: "replay", Module: "TraceInterrupt", Events: r.evs, Case: one, Known: knownPattern(r.evs)})
	}
	_, err = drv.JudgeAll(c, dir, extra, items, 1, 5000, 4, "TraceInterruptName.cfg", func(it drv.Item, v *lib.TraceVerdict) { reject(c, it, v) })
	return err
}
