package main

import (
	"fmt"
	"math/rand"
	"strings"
)

// corpus: long-running programs (loops, pipelines, peach with and without bounds, sleep, each, nested
// function calls, try/finally/catch, run-parallel, a background job). Harness commands:
//
//	vi-mark k            records that it ran (and on which goroutine)
//	vi-peach n b         declares the configuration of the peach that follows (n inputs 1..n, bound b, 0 = +inf)
//	vi-cb x [ms]         callback body in Go: CbStart, interruptible wait, CbEnd
//	vi-wrap x { body }   callback body in Elvish, bracketed by CbStart / CbEnd
//
// Every peach callback goes through vi-cb or vi-wrap (the bound is observed through them), a peach is
// never nested in another peach or run concurrently with another one (one peach machine in the
// specification), and builtin loops get small arguments (they do not poll the context).
var corpus = []string{
	`for i [(range 40)] { vi-mark $i; sleep 0.002 }`,
	`var i = 0; while (< $i 100) { set i = (+ $i 1); vi-mark $i; nop }`,
	`range 200 | each {|x| vi-mark $x; nop }`,
	`range 30 | each {|x| sleep 0.003 }`,
	`sleep 0.2`,
	`sleep 0.04; sleep 0.04; sleep 0.04; vi-mark 1`,
	`vi-peach 6 0; peach {|x| vi-wrap $x { sleep 0.03; nop } } [1 2 3 4 5 6]`,
	`vi-peach 6 2; peach &num-workers=2 {|x| vi-wrap $x { sleep 0.02 } } [1 2 3 4 5 6]`,
	`vi-peach 3 1; peach &num-workers=1 {|x| vi-wrap $x { sleep 0.05 } } [1 2 3]`,
	`vi-peach 2 1; peach &num-workers=1 {|x| vi-wrap $x { sleep 0.08 } } [1 2]`,
	`vi-peach 5 2; peach &num-workers=2 $vi-cb~ [1 2 3 4 5]`,
	`vi-peach 8 3; range 1 9 | peach &num-workers=3 {|x| vi-cb $x 15 }`,
	`vi-peach 12 0; range 1 13 | peach {|x| vi-wrap $x { for j [1 2 3] { sleep 0.004 } } }`,
	`vi-peach 10 4; peach &num-workers=4 {|x| vi-wrap $x { vi-mark $x; sleep 0.01; vi-mark (+ 100 $x) } } [(range 1 11)]`,
	`for r [1 2 3] { vi-peach 4 2; peach &num-workers=2 {|x| vi-cb $x 10 } [1 2 3 4] }`,
	`vi-peach 6 2; peach &num-workers=2 {|x| vi-wrap $x { sleep 0.01; put $x } } [1 2 3 4 5 6] | each {|y| vi-mark $y }`,
	`fn f {|n| if (> $n 0) { vi-mark $n; sleep 0.004; f (- $n 1) } }; f 25`,
	`for i [(range 20)] { try { sleep 0.004; vi-mark $i } finally { vi-mark (+ 100 $i) } }`,
	`for i [(range 20)] { try { sleep 0.004 } catch e { vi-mark $i } }`,
	`try { for i [(range 30)] { sleep 0.003 } } catch e { vi-mark 1 } finally { vi-mark 2 }; vi-mark 3`,
	`range 300 | each {|x| put $x } | each {|x| nop $x }`,
	`put (range 50) | each {|x| vi-mark $x; sleep 0.001; put $x } | count`,
	`run-parallel { sleep 0.05; vi-mark 1 } { for i [(range 20)] { sleep 0.002 } } { vi-mark 3 }`,
	`{ vi-mark 7; nop } &; for i [(range 30)] { sleep 0.002 }`,
	`use str; for i [(range 100)] { var s = (str:join , [a b c]); vi-mark $i }`,
	`var f = {|x| sleep 0.003; put $x }; for i [(range 20)] { $f $i | each {|y| vi-mark $y } }`,
	`each {|a| each {|b| sleep 0.001; vi-mark (+ (* $a 10) $b) } [1 2 3 4 5] } [1 2 3 4 5]`,
	`var l = [(range 60)]; for x $l { if (== (% $x 7) 0) { sleep 0.005 } else { nop }; vi-mark $x }`,
	`fn g {|x| try { sleep 0.002; put $x } finally { nop } }; range 25 | each {|x| g $x } | each {|y| vi-mark $y }`,
	`var v = ?(sleep 0.1); vi-mark 1; sleep 0.05; vi-mark 2`,
}

// concretise renders an abstract statement sequence (mark / sleep / cancel) as an Elvish program; unless
// flat, contiguous segments are wrapped in nestings that run their body exactly once on the same goroutine.
func concretise(prog []string, rng *rand.Rand, flat bool) string {
	var stmts []string
	for k, s := range prog {
		switch s {
		case "mark":
			stmts = append(stmts, fmt.Sprintf("vi-mark %d", k+1))
		case "sleep":
			stmts = append(stmts, "sleep 0.002")
		case "cancel":
			stmts = append(stmts, "vi-cancel")
		}
	}
	if flat {
		return strings.Join(stmts, "\n")
	}
	n := 0
	return nest(stmts, rng, 0, &n)
}

func nest(stmts []string, rng *rand.Rand, depth int, counter *int) string {
	if len(stmts) == 0 {
		return "nop"
	}
	if depth > 2 || (depth > 0 && rng.Intn(3) == 0) {
		return strings.Join(stmts, "\n")
	}
	a := rng.Intn(len(stmts))
	b := a + 1 + rng.Intn(len(stmts)-a)
	body := nest(stmts[a:b], rng, depth+1, counter)
	*counter++
	id := *counter
	var w string
	switch rng.Intn(11) {
	case 0:
		w = fmt.Sprintf("{\n%s\n}", body)
	case 1:
		w = fmt.Sprintf("var f%d~ = {\n%s\n}\nf%d", id, body, id)
	case 2:
		w = fmt.Sprintf("for _ [x] {\n%s\n}", body)
	case 3:
		w = fmt.Sprintf("each {|_|\n%s\n} [x]", body)
	case 4:
		w = fmt.Sprintf("try {\n%s\n} finally { nop }", body)
	case 5:
		w = fmt.Sprintf("try { nop } finally {\n%s\n}", body)
	case 6:
		w = fmt.Sprintf("try {\n%s\n} catch e { nop }", body)
	case 7:
		w = fmt.Sprintf("if (eq a a) {\n%s\n}", body)
	case 8:
		w = fmt.Sprintf("var i%d = 0\nwhile (< $i%d 1) {\nset i%d = 1\n%s\n}", id, id, id, body)
	case 9:
		w = fmt.Sprintf("put x | each {|_|\n%s\n}", body)
	default:
		w = fmt.Sprintf("fn g%d {\n%s\n}\ng%d", id, body, id)
	}
	var parts []string
	if a > 0 {
		parts = append(parts, nest(stmts[:a], rng, depth+1, counter))
	}
	parts = append(parts, w)
	if b < len(stmts) {
		parts = append(parts, nest(stmts[b:], rng, depth+1, counter))
	}
	return strings.Join(parts, "\n")
}
