// C13 — indexing and slicing follow the language reference.
// M: design theorem Impl = Ref on all (n, idx) up to N (TLC) [+ TLAPS in proofs/].
// G: every enumerated case with Ref's prescribed outcome is replayed through
//
//	vals.ConvertListIndex, vals.Index (lists and strings), vals.Assoc and Elvish code.
//
// V: index classes outside the integer forms, recorded from the real code, judged by TLC.
package main

import (
	"encoding/json"
	"fmt"
	"math/big"
	"os"
	"os/exec"
	"path/filepath"
	"strings"
	"time"

	"src.elv.sh/pkg/eval"
	"src.elv.sh/pkg/eval/vals"
	"verif.local/harness/elv"
	"verif.local/harness/lib"
)

type idx struct {
	F    string `json:"f"`
	I    int    `json:"i"`
	Ha   bool   `json:"ha"`
	A    int    `json:"a"`
	Hb   bool   `json:"hb"`
	B    int    `json:"b"`
	Incl bool   `json:"incl"`
}

type exp struct {
	Ok    bool `json:"ok"`
	Slice bool `json:"slice"`
	Lo    int  `json:"lo"`
	Hi    int  `json:"hi"`
}

type listCase struct {
	N      int  `json:"n"`
	X      idx  `json:"x"`
	Exp    exp  `json:"exp"`
	Unspec bool `json:"unspec"`
}

type strCase struct {
	T      []int `json:"t"`
	X      idx   `json:"x"`
	Exp    exp   `json:"exp"`
	Unspec bool  `json:"unspec"`
}

func (x idx) render() string {
	if x.F == "int" {
		return fmt.Sprint(x.I)
	}
	s := ""
	if x.Ha {
		s += fmt.Sprint(x.A)
	}
	if x.Incl {
		s += "..="
	} else {
		s += ".."
	}
	if x.Hb {
		s += fmt.Sprint(x.B)
	}
	return s
}

// raws gives the concrete index values an abstract index stands for.
func (x idx) raws() []any {
	if x.F == "int" {
		return []any{x.I, fmt.Sprint(x.I)}
	}
	return []any{x.render()}
}

var runes = map[int]string{1: "a", 2: "é", 3: "你", 4: "😀"}

func main() { lib.Main("C13", run) }

func run(c *lib.Ctx) error {
	dir := c.SpecDir("IndexConv")
	if c.Replay != "" {
		return replay(c)
	}
	N := c.Pick(6, 12)
	L := c.Pick(2, 3)
	c.Set("rule", "a case is (length or text, index form); distinct by (n|text, rendered index); non-trivial = every case (each has a prescribed outcome: element, range or rejection)")
	c.Set("bounds", map[string]any{"N": N, "L_runes": L})

	// ---- M + G, lists
	r, err := c.TLC("MCIndexConv", lib.TLCRun{Dir: dir, Module: "MCIndexConv", Workers: 4, Timeout: 10 * time.Minute,
		Files: map[string][]byte{"MCIndexConv.cfg": []byte(fmt.Sprintf("CONSTANT N = %d\nINIT Init\nNEXT Next\nINVARIANT Theorem\nINVARIANT RangeOK\nINVARIANT Emit\n", N))}})
	if err != nil {
		return err
	}
	if r.ErrKind != "" {
		return lib.Infra("design theorem of IndexConv fails in the model itself: %s\n%s", r.Err, r.ErrTrace)
	}
	seen := map[string]bool{}
	var cases []listCase
	for _, s := range r.PrintedStrings() {
		var lc listCase
		if err := json.Unmarshal([]byte(s), &lc); err != nil {
			return lib.Infra("bad case from TLC: %v: %s", err, s)
		}
		k := fmt.Sprintf("%d|%s", lc.N, lc.X.render())
		if !seen[k] {
			seen[k] = true
			cases = append(cases, lc)
		}
	}
	if int64(len(cases)) != r.Distinct {
		return lib.Infra("TLC reported %d cases, received %d", r.Distinct, len(cases))
	}
	c.Logf("list cases: %d", len(cases))
	ev := elv.New()
	unspec := 0
	for i, lc := range cases {
		if lc.Unspec {
			unspec++
			continue
		}
		replayList(c, ev, lc)
		if i < 3 {
			c.Sample(lc)
		}
	}
	c.Set("unspecified_skipped", unspec)
	c.Set("exhaustive", true)

	// ---- M + G, strings
	r2, err := c.TLC("MCIndexStr", lib.TLCRun{Dir: dir, Module: "MCIndexStr", Workers: 4, Timeout: 15 * time.Minute,
		Files: map[string][]byte{"MCIndexStr.cfg": []byte(fmt.Sprintf("CONSTANT L = %d\nINIT Init\nNEXT Next\nINVARIANT StrRangeOK\nINVARIANT StrRefinesList\nINVARIANT Emit\n", L))}})
	if err != nil {
		return err
	}
	if r2.ErrKind != "" {
		return lib.Infra("string model inconsistent: %s\n%s", r2.Err, r2.ErrTrace)
	}
	seen = map[string]bool{}
	ns := 0
	for _, s := range r2.PrintedStrings() {
		var sc strCase
		if err := json.Unmarshal([]byte(s), &sc); err != nil {
			return lib.Infra("bad case from TLC: %v: %s", err, s)
		}
		k := fmt.Sprintf("%v|%s", sc.T, sc.X.render())
		if seen[k] {
			continue
		}
		seen[k] = true
		ns++
		if sc.Unspec {
			continue
		}
		replayStr(c, ev, sc)
		if ns <= 2 {
			c.Sample(sc)
		}
	}
	if int64(ns) != r2.Distinct {
		return lib.Infra("TLC reported %d string cases, received %d", r2.Distinct, ns)
	}
	c.Logf("string cases: %d", ns)

	// ---- V: classes outside the integer forms
	if err := classes(c, ev, dir); err != nil {
		return err
	}

	// ---- unbounded proof of the design theorem
	if err := proof(c, dir); err != nil {
		return err
	}
	c.Assume("TLC and tlapm are trusted; Ref is the reading of website/ref/language.md (List, String, Indexing); `..=b` with b = -n-1 is Unspecified")
	return nil
}

func same(got *vals.ListIndex, e exp) bool {
	if got == nil {
		return !e.Ok
	}
	if !e.Ok {
		return false
	}
	if got.Slice != e.Slice || got.Lower != e.Lo {
		return false
	}
	return !e.Slice || got.Upper == e.Hi
}

// A panic of the real conversion code is an answer no reference accepts: the call is reported as a
// result with the error "panic: ..." (never equal to a reference result, and flagged by itself).
type panicError struct{ msg string }

func (p panicError) Error() string { return "panic: " + p.msg }

func safeIndex(a, k any) (v any, err error) {
	defer func() {
		if r := recover(); r != nil {
			v, err = nil, panicError{fmt.Sprint(r)}
		}
	}()
	return vals.Index(a, k)
}

func safeAssoc(a, k, x any) (v any, err error) {
	defer func() {
		if r := recover(); r != nil {
			v, err = nil, panicError{fmt.Sprint(r)}
		}
	}()
	return vals.Assoc(a, k, x)
}

func safeConvert(raw any, n int) (v *vals.ListIndex, err error) {
	defer func() {
		if r := recover(); r != nil {
			v, err = nil, panicError{fmt.Sprint(r)}
		}
	}()
	return vals.ConvertListIndex(raw, n)
}

func isPanic(err error) bool { _, ok := err.(panicError); return ok }

func replayList(c *lib.Ctx, ev *eval.Evaler, lc listCase) {
	key := fmt.Sprintf("list:n=%d:%s", lc.N, lc.X.render())
	c.Distinct(key)
	l := elv.MakeList(lc.N)
	for _, raw := range lc.X.raws() {
		c.AddEvals(1)
		got, err := safeConvert(raw, lc.N)
		if err != nil {
			got = nil
		}
		if isPanic(err) || !same(got, lc.Exp) {
			c.Reject(key, fmt.Sprintf("ConvertListIndex(%#v, %d) = %+v, %v; reference %+v", raw, lc.N, got, err, lc.Exp), lc)
			return
		}
		// vals.Index
		v, err := safeIndex(l, raw)
		if isPanic(err) || !checkListResult(v, err, lc) {
			c.Reject(key, fmt.Sprintf("vals.Index(list %d, %#v) = %s, %v; reference %+v", lc.N, raw, vals.ReprPlain(v), err, lc.Exp), lc)
			return
		}
		// vals.Assoc
		a, err := safeAssoc(l, raw, "X")
		if isPanic(err) || !checkAssoc(a, err, lc) {
			c.Reject(key, fmt.Sprintf("vals.Assoc(list %d, %#v) = %s, %v; reference %+v", lc.N, raw, vals.ReprPlain(a), err, lc.Exp), lc)
			return
		}
	}
	// Elvish: string form, and typed number for ints
	forms := []string{lc.X.render()}
	if lc.X.F == "int" {
		forms = append(forms, fmt.Sprintf("(num %d)", lc.X.I))
	}
	for _, f := range forms {
		c.AddEvals(1)
		code := fmt.Sprintf("var l = %s; put $l[%s]", vals.ReprPlain(l), f)
		o := elv.Run(ev, code)
		var v any
		if len(o.Values) == 1 {
			v = o.Values[0]
		}
		if o.Panic != "" || (o.Err == nil && len(o.Values) != 1) || !checkListResult(v, o.Err, lc) {
			c.Reject(key, fmt.Sprintf("elvish %q -> %v, err %v, panic %q; reference %+v", code, o.Values, o.Err, o.Panic, lc.Exp), lc)
			return
		}
		code = fmt.Sprintf("var l = %s; var m = $l; set l[%s] = X; put $l $m", vals.ReprPlain(l), f)
		o = elv.Run(ev, code)
		okAssoc := false
		if o.Err != nil {
			okAssoc = !(lc.Exp.Ok && !lc.Exp.Slice) && len(o.Values) == 0
		} else if len(o.Values) == 2 {
			okAssoc = checkAssoc(o.Values[0], nil, lc) && vals.Equal(o.Values[1], l)
		}
		if o.Panic != "" || !okAssoc {
			c.Reject(key, fmt.Sprintf("elvish %q -> %v, err %v, panic %q; reference %+v", code, o.Values, o.Err, o.Panic, lc.Exp), lc)
			return
		}
	}
}

func checkListResult(v any, err error, lc listCase) bool {
	e := lc.Exp
	if !e.Ok {
		return err != nil
	}
	if err != nil {
		return false
	}
	if !e.Slice {
		return v == fmt.Sprintf("e%d", e.Lo)
	}
	ss, ok := elv.ListStrings(v)
	if !ok || len(ss) != e.Hi-e.Lo {
		return false
	}
	for i, s := range ss {
		if s != fmt.Sprintf("e%d", e.Lo+i) {
			return false
		}
	}
	return true
}

func checkAssoc(a any, err error, lc listCase) bool {
	e := lc.Exp
	if !e.Ok || e.Slice {
		return err != nil
	}
	if err != nil {
		return false
	}
	ss, ok := elv.ListStrings(a)
	if !ok || len(ss) != lc.N {
		return false
	}
	for i, s := range ss {
		want := fmt.Sprintf("e%d", i)
		if i == e.Lo {
			want = "X"
		}
		if s != want {
			return false
		}
	}
	return true
}

func replayStr(c *lib.Ctx, ev *eval.Evaler, sc strCase) {
	var sb strings.Builder
	for _, n := range sc.T {
		sb.WriteString(runes[n])
	}
	s := sb.String()
	key := fmt.Sprintf("str:%v:%s", sc.T, sc.X.render())
	c.Distinct(key)
	check := func(v any, err error) bool {
		if !sc.Exp.Ok {
			return err != nil
		}
		return err == nil && v == s[sc.Exp.Lo:sc.Exp.Hi]
	}
	for _, raw := range sc.X.raws() {
		c.AddEvals(1)
		v, err := safeIndex(s, raw)
		if isPanic(err) || !check(v, err) {
			c.Reject(key, fmt.Sprintf("vals.Index(%q, %#v) = %#v, %v; reference %+v", s, raw, v, err, sc.Exp), sc)
			return
		}
	}
	c.AddEvals(1)
	code := fmt.Sprintf("put %s[%s]", elv.Quote(s), sc.X.render())
	if s == "" {
		code = fmt.Sprintf("var s = ''; put $s[%s]", sc.X.render())
	}
	o := elv.Run(ev, code)
	var v any
	if len(o.Values) == 1 {
		v = o.Values[0]
	}
	if o.Panic != "" || (o.Err == nil && len(o.Values) != 1) || !check(v, o.Err) {
		c.Reject(key, fmt.Sprintf("elvish %q -> %v, err %v, panic %q; reference %+v", code, o.Values, o.Err, o.Panic, sc.Exp), sc)
	}
}

type classCase struct {
	Cls string `json:"cls"`
	N   int    `json:"n"`
	Raw string `json:"raw"`
	Via string `json:"via"`
	Ok  bool   `json:"ok"`
}

func classes(c *lib.Ctx, ev *eval.Evaler, dir string) error {
	var cs []classCase
	huge := []string{"2147483648", "4294967296", "9223372036854775807", "9223372036854775808", "18446744073709551616", "100000000000000000000000000000"}
	for i := 0; i < c.Pick(20, 200); i++ {
		b := new(big.Int).Lsh(big.NewInt(1), uint(31+c.Rand.Intn(80)))
		b.Add(b, big.NewInt(int64(c.Rand.Intn(1000))))
		huge = append(huge, b.String())
	}
	type rawc struct {
		cls string
		raw any
		txt string // elvish rendering
	}
	var raws []rawc
	for _, h := range huge {
		raws = append(raws, rawc{"hugepos", h, h}, rawc{"hugeneg", "-" + h, "-" + h},
			rawc{"hugeslice", h + "..", h + ".."}, rawc{"hugeslice", ".." + h, ".." + h},
			rawc{"hugeslice", "..-" + h, "..-" + h}, rawc{"hugeslice", "..=" + h, "..=" + h}, rawc{"hugeslice", "-" + h + "..=", "-" + h + "..="})
	}
	bi, _ := new(big.Int).SetString("18446744073709551616", 10)
	raws = append(raws,
		rawc{"float", 1.0, "(num 1.0)"}, rawc{"float", "1.0", "1.0"}, rawc{"float", "1e0", "1e0"}, rawc{"float", 0.0, "(num 0.0)"},
		rawc{"rat", big.NewRat(1, 2), "(num 1/2)"}, rawc{"rat", "1/2", "1/2"}, rawc{"rat", "2/1", "2/1"},
		rawc{"bigint", bi, "(num 18446744073709551616)"},
		rawc{"alpha", "a", "a"}, rawc{"alpha", "1a", "1a"}, rawc{"alpha", "a..b", "a..b"}, rawc{"alpha", "0..b", "0..b"},
		rawc{"empty", "", "''"},
		rawc{"threepart", "0..1..2", "0..1..2"}, rawc{"threepart", "0..=1..=2", "0..=1..=2"},
		rawc{"spaces", " 1", "' 1'"}, rawc{"spaces", "1 ", "'1 '"}, rawc{"spaces", "0.. 1", "'0.. 1'"},
		rawc{"plus", "+1", "+1"}, rawc{"hex", "0x1", "0x1"}, rawc{"underscore", "1_0", "1_0"},
		rawc{"floatslice", "0.0..1", "0.0..1"}, rawc{"floatslice", "0..1.5", "0..1.5"},
		rawc{"nil", nil, "$nil"}, rawc{"list", vals.EmptyList, "[]"},
	)
	for _, n := range []int{0, 1, 3, 40} {
		l := elv.MakeList(n)
		s := strings.Repeat("x", n)
		for _, rc := range raws {
			c.AddEvals(3)
			_, e1 := safeIndex(l, rc.raw)
			cs = append(cs, classCase{rc.cls, n, rc.txt, "vals.Index(list)", e1 == nil})
			_, e2 := safeIndex(s, rc.raw)
			for _, e := range []error{e1, e2} {
				if isPanic(e) {
					c.Reject("class:"+rc.cls+":panic", fmt.Sprintf("index %s on length %d: %v", rc.txt, n, e), rc.txt)
				}
			}
			cs = append(cs, classCase{rc.cls, n, rc.txt, "vals.Index(string)", e2 == nil})
			o := elv.Run(ev, fmt.Sprintf("var l = %s; put $l[%s]", vals.ReprPlain(l), rc.txt))
			if o.Panic != "" {
				c.Reject("class:"+rc.cls+":panic", "panic: "+o.Panic, rc.txt)
			}
			cs = append(cs, classCase{rc.cls, n, rc.txt, "elvish", o.Err == nil})
			c.Distinct(fmt.Sprintf("class:%s:%d:%s", rc.cls, n, rc.txt))
		}
	}
	bad, err := lib.Judge(c, "JudgeIndexClass", dir, "JudgeIndexClass", cs, 4, 5*time.Minute)
	if err != nil {
		return err
	}
	c.AddTraces(len(cs))
	c.Sample(cs[0])
	for _, b := range bad {
		k := cs[b.Index]
		c.Reject(fmt.Sprintf("class:%s:%s", k.Cls, k.Raw), fmt.Sprintf("index %s (class %s) on length %d via %s accepted, reference rules it out", k.Raw, k.Cls, k.N, k.Via), k)
	}
	return nil
}

func proof(c *lib.Ctx, dir string) error {
	pf := filepath.Join(dir, "proofs", "IndexConvProof.tla")
	if _, err := os.Stat(pf); err != nil {
		return nil
	}
	scratch, err := os.MkdirTemp("", "vtlapm-")
	if err != nil {
		return lib.Infra("%v", err)
	}
	defer os.RemoveAll(scratch)
	for _, f := range []string{pf, filepath.Join(dir, "IndexConv.tla")} {
		b, err := os.ReadFile(f)
		if err != nil {
			return lib.Infra("%v", err)
		}
		os.WriteFile(filepath.Join(scratch, filepath.Base(f)), b, 0o644)
	}
	cmd := exec.Command("timeout", "-s", "KILL", "300", "tlapm", "--threads", "8", "--cleanfp", "IndexConvProof.tla")
	cmd.Dir = scratch
	out, err := cmd.CombinedOutput()
	s := string(out)
	var total, proved int
	for _, l := range strings.Split(s, "\n") {
		if strings.Contains(l, "obligations proved") || strings.Contains(l, "obligation proved") {
			fmt.Sscanf(strings.TrimSpace(strings.TrimPrefix(strings.TrimSpace(l), "[INFO]:")), "All %d", &total)
			proved = total
		}
		if strings.Contains(l, "obligations failed") || strings.Contains(l, "obligation failed") {
			var f, t int
			fmt.Sscanf(strings.TrimSpace(strings.TrimPrefix(strings.TrimSpace(l), "[ERROR]:")), "%d/%d", &f, &t)
			total, proved = t, t-f
		}
	}
	c.Set("proof", map[string]any{"obligations": total, "discharged": proved, "checker_cmd": "tlapm --threads 8 IndexConvProof.tla",
		"theorem": "\\A n \\in Nat, x \\in IdxForms : ~Unspecified(n,x) => Impl(n,x) = Ref(n,x)", "status": map[bool]string{true: "proved", false: "not fully discharged: the claim stays at TLC's bound"}[total > 0 && proved == total]})
	if err != nil && total == 0 {
		tail := s
		if len(tail) > 1500 {
			tail = tail[len(tail)-1500:]
		}
		c.Logf("tlapm did not complete (%v); claim stays at TLC's bound\n%s", err, tail)
	}
	return nil
}

func replay(c *lib.Ctx) error {
	b, err := os.ReadFile(c.Replay)
	if err != nil {
		return lib.Infra("%v", err)
	}
	var f struct {
		Case json.RawMessage `json:"case"`
	}
	if err := json.Unmarshal(b, &f); err != nil {
		return lib.Infra("%v", err)
	}
	ev := elv.New()
	var sc strCase
	if json.Unmarshal(f.Case, &sc) == nil && sc.T != nil {
		replayStr(c, ev, sc)
		return nil
	}
	var lc listCase
	if err := json.Unmarshal(f.Case, &lc); err != nil {
		return lib.Infra("%v", err)
	}
	replayList(c, ev, lc)
	return nil
}
