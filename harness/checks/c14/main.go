// C14 — element assignment never mutates values seen elsewhere.
// M: MCAlias: exhaustive model of set/del/tmp/with on elements over a small alphabet (AliasesFrozen,
//    OnlyTargetRebound, GetAfterSet/ElementFrame on every step).
// G: one behaviour per transition of that model, rendered as Elvish (one chunk per step, one Evaler
//    per behaviour); after every step every variable and EVERY alias reader is evaluated and compared
//    with the prescribed values.
// V: seeded random histories (nested containers, lists of 33 and 1057 elements) on the real
//    evaluator, recorded and judged step by step by the stateful TLC walker TraceAlias.
package main

import (
	"encoding/json"
	"fmt"
	"os"
	"sync"
	"time"

	"verif.local/harness/lib"
)

func main() { lib.Main("C14", run) }

func mcCfg(steps, newAl, ninit int) []byte {
	return []byte(fmt.Sprintf("CONSTANTS MaxSteps = %d MaxNew = %d NInit = %d\nSPECIFICATION Spec\nVIEW View\nINVARIANT AliasesFrozen\nINVARIANT LastOK\nPROPERTY OnlyTargetRebound\nACTION_CONSTRAINT EmitT\n", steps, newAl, ninit))
}

func run(c *lib.Ctx) error {
	dir := c.SpecDir("Alias")
	if c.Replay != "" {
		return replay(c, dir)
	}
	c.Set("rule", "G: a behaviour is a sequence of steps from one initial store; distinct by its rendered Elvish text. V: one case per executed step; distinct by (step, observed store); steps that raise or assign nothing are not counted as non-trivial")

	// ---- M + G
	type bound struct{ steps, newAl, ninit int }
	bounds := []bound{{1, 1, 6}}
	if c.Thorough() {
		bounds = []bound{{2, 1, 2}, {1, 1, 6}}
	}
	c.Set("bounds", map[string]any{"exhaustive": bounds, "random_histories": c.Pick(24, 300), "map_growth_histories": c.Pick(12, 120), "map_grow_shrink_histories": c.Pick(9, 90), "history_length": 40, "big_lists": []int{33, 1057}})
	seen := map[string]bool{}
	for _, b := range bounds {
		r, err := c.TLC(fmt.Sprintf("MCAlias(steps=%d,init=%d)", b.steps, b.ninit), lib.TLCRun{Dir: dir, Module: "MCAlias", Workers: 4, Timeout: 12 * time.Minute, HeapGB: 8,
			Files: map[string][]byte{"MCAlias.cfg": mcCfg(b.steps, b.newAl, b.ninit)}})
		if err != nil {
			return err
		}
		if r.ErrKind != "" {
			return lib.Infra("the Alias model violates its own property %s %s:\n%s", r.ErrKind, r.ErrName, r.ErrTrace)
		}
		lines := r.PrintedStrings()
		if int64(len(lines)) < r.Generated-r.Distinct && int64(len(lines)) < r.Generated/2 {
			return lib.Infra("TLC generated %d transitions but emitted %d behaviours", r.Generated, len(lines))
		}
		var behs [][]Entry
		for _, l := range lines {
			var beh []Entry
			if err := json.Unmarshal([]byte(l), &beh); err != nil {
				return lib.Infra("bad behaviour from TLC: %v: %.300s", err, l)
			}
			k := renderBehaviour(beh)
			if seen[k] {
				continue
			}
			seen[k] = true
			behs = append(behs, beh)
		}
		if os.Getenv("VERIF_CORRUPT") == "g" { // development-time vacuity guard
			last := behs[len(behs)/2]
			last[len(last)-1].Al[0].Val = atom(424242)
		}
		c.Logf("model steps<=%d: %d distinct states, %d transitions, %d distinct behaviours", b.steps, r.Distinct, r.Generated, len(behs))
		var mu sync.Mutex
		n := 0
		lib.Parallel(len(behs), 4, func(i int) {
			if os.Getenv("VERIF_ONLY") == "v" { // development switch: show what V catches on its own
				return
			}
			replayBehaviour(c, behs[i])
			mu.Lock()
			n++
			if n <= 2 {
				c.Sample(map[string]any{"elvish": renderBehaviour(behs[i])})
			}
			mu.Unlock()
		})
		c.AddTraces(len(behs))
	}
	c.Set("exhaustive", true)

	// ---- V
	nh := c.Pick(24, 300)
	hist := make([][]Event, nh)
	lib.Parallel(nh, 4, func(h int) {
		kind := "nested"
		length := 40
		switch {
		case h == 0:
			kind, length = "big1057", 12
		case h == 1:
			kind, length = "big33", 30
		case c.Thorough() && h%25 == 2:
			kind, length = "big1057", 16
		case h%6 == 3:
			kind, length = "big33", 30
		}
		hist[h] = randomHistory(c, newRand(c.Seed*100003+int64(h)), kind, length)
	})
	// maps grown key by key, every earlier version aliased and re-read (12 variants x seeds)
	ng := c.Pick(12, 120)
	grow := make([][]Event, ng)
	lib.Parallel(ng, 4, func(g int) { grow[g] = growHistory(c, newRand(c.Seed*7919+int64(g)), g) })
	hist = append(hist, grow...)
	nh += ng
	// maps grown past the array-node threshold and emptied again (9 variants x seeds; variant 0 directed)
	ns := c.Pick(9, 90)
	shrink := make([][]Event, ns)
	lib.Parallel(ns, 4, func(g int) { shrink[g] = growShrinkHistory(c, newRand(c.Seed*104729+int64(g)), g) })
	hist = append(hist, shrink...)
	nh += ns
	c.Sample(hist[2][:min(4, len(hist[2]))])
	if os.Getenv("VERIF_CORRUPT") == "v" {
		e := &hist[2][len(hist[2])-1]
		e.Store[1] = atom(424242)
	}
	if err := judge(c, dir, hist); err != nil {
		return err
	}
	c.AddTraces(nh)
	c.Assume("TLC trusted; the executor's rendering of steps to Elvish text and the projection of Elvish values to the [t, n, e, ks] form (typed numbers = atoms; map entries ordered by Rank) are trusted; atoms are typed numbers, so assignment through a string (string element replacement) is out of the model; slices as indices are out of the model")
	return nil
}

func judge(c *lib.Ctx, dir string, hist [][]Event) error {
	bad, err := lib.JudgeGroups(c, "TraceAlias", dir, "TraceAlias", hist, 4, 12*time.Minute)
	if err != nil {
		return err
	}
	var flat []Event
	starts := []int{}
	for _, h := range hist {
		starts = append(starts, len(flat))
		flat = append(flat, h...)
	}
	for _, b := range bad {
		hi := 0
		for i, s := range starts {
			if s <= b.Index {
				hi = i
			}
		}
		ev := flat[b.Index]
		var ops []Op
		for _, e := range flat[starts[hi] : b.Index+1] {
			ops = append(ops, e.O)
		}
		why := "?"
		if len(b.Info) >= 2 {
			why = fmt.Sprint(b.Info[1])
		}
		c.Reject(fmt.Sprintf("alias:%s:%s", ev.O.Op, why), fmt.Sprintf("history %d step %d: %s: the recorded outcome is rejected by the specification (%v); script:\n%s", hi, b.Index-starts[hi], renderStep(ev.O), b.Info, renderOps(flat[starts[hi]], ops[1:])),
			flat[starts[hi]:b.Index+1])
	}
	return nil
}

func replay(c *lib.Ctx, dir string) error {
	b, err := os.ReadFile(c.Replay)
	if err != nil {
		return lib.Infra("%v", err)
	}
	var f struct {
		Case json.RawMessage `json:"case"`
	}
	if err := json.Unmarshal(b, &f); err != nil {
		return lib.Infra("%v", err)
	}
	var beh []Entry
	if json.Unmarshal(f.Case, &beh) == nil && len(beh) > 0 && beh[0].O.Op == "Init" {
		replayBehaviour(c, beh)
		return nil
	}
	var evs []Event
	if err := json.Unmarshal(f.Case, &evs); err != nil || len(evs) == 0 {
		return lib.Infra("unrecognised replay case: %v", err)
	}
	var ops []Op
	for _, e := range evs[1:] {
		ops = append(ops, e.O)
	}
	return judge(c, dir, [][]Event{reexecute(c, evs[0], ops)})
}
