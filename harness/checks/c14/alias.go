package main

import (
	"fmt"
	"math/rand"
	"sort"
	"strconv"
	"strings"

	"src.elv.sh/pkg/eval"
	"src.elv.sh/pkg/eval/vals"
	"verif.local/harness/elv"
	"verif.local/harness/lib"
)

// ---- the abstract forms of spec/Alias/Alias.tla

type Key struct {
	S   string `json:"s"`
	I   int    `json:"i"`
	Num bool   `json:"num"`
}

type Val struct {
	T  string `json:"t"`
	N  int    `json:"n"`
	E  []Val  `json:"e"`
	Ks []Key  `json:"ks"`
}

type VDesc struct {
	Src  string `json:"src"`
	N    int    `json:"n"`
	Name string `json:"name"`
}

type Op struct {
	Op   string `json:"op"`
	X    string `json:"x"`
	P    []Key  `json:"p"`
	V    VDesc  `json:"v"`
	P2   []Key  `json:"p2"`
	V2   VDesc  `json:"v2"`
	Kind string `json:"kind"`
	Name string `json:"name"`
}

type AliasRec struct {
	Name string `json:"name"`
	Kind string `json:"kind"`
	X    string `json:"x"`
	P    []Key  `json:"p"`
	Val  Val    `json:"val"`
}

// Entry is one element of a behaviour printed by MCAlias.
type Entry struct {
	O      Op         `json:"o"`
	Raises bool       `json:"raises"`
	Mid    Val        `json:"mid"`
	Store  []Val      `json:"store"`
	Al     []AliasRec `json:"al"`
}

// Event is one recorded step for TraceAlias.
type Event struct {
	O      Op    `json:"o"`
	Raised bool  `json:"raised"`
	Mid    Val   `json:"mid"`
	Store  []Val `json:"store"`
	Al     []Val `json:"al"`
}

var errVal = Val{T: "err", E: []Val{}, Ks: []Key{}}

func atom(n int) Val { return Val{T: "a", N: n, E: []Val{}, Ks: []Key{}} }

func eqVal(a, b Val) bool {
	if a.T != b.T || a.N != b.N || len(a.E) != len(b.E) || len(a.Ks) != len(b.Ks) {
		return false
	}
	for i := range a.Ks {
		if a.Ks[i] != b.Ks[i] {
			return false
		}
	}
	for i := range a.E {
		if !eqVal(a.E[i], b.E[i]) {
			return false
		}
	}
	return true
}

func size(v Val) int {
	n := 1
	for _, e := range v.E {
		n += size(e)
	}
	return n
}

func newRand(seed int64) *rand.Rand { return rand.New(rand.NewSource(seed)) }

// ---- projection: real Elvish value -> abstract value

// keyPool fixes the canonical order of non-numeric map keys in the abstract form (Key.I = position).
// Several alphabets, so that added keys land before, between and after the existing entries of a
// hash-trie node.
var keyPool = func() []string {
	p := []string{"k", "m", "n", "o", "a", "b", "c", "d", "e", "f", "g", "h", "i", "j", "l", "p", "q", "r", "s", "t", "u", "v", "w", "z",
		"foo", "bar", "lorem", "ipsum", "dolor", "sit", "amet", "baz", "qux"}
	for i := 1; i <= 24; i++ {
		p = append(p, fmt.Sprintf("x%d", i))
	}
	for i := 1; i <= 24; i++ {
		p = append(p, fmt.Sprintf("key%d", i))
	}
	return p
}()

var keyRank = func() map[string]int {
	m := map[string]int{}
	for i, s := range keyPool {
		m[s] = i + 1
	}
	return m
}()

func keyOf(s string) Key {
	if i, err := strconv.Atoi(s); err == nil && strconv.Itoa(i) == s {
		return Key{S: s, I: i, Num: true}
	}
	if s == "$nil" {
		return nilKey
	}
	if r, ok := keyRank[s]; ok {
		return Key{S: s, I: r}
	}
	return Key{S: s, I: 900}
}

func rank(k Key) int {
	if k.Num {
		return 1000 + k.I
	}
	return k.I
}

// tkey is a typed-integer map key, written `(num n)` in the program.  It is a key of maps only (exact
// integers hash to themselves: 17 of them force an array node at the root of the hash trie); as a
// map key it is distinct from the text "n", so it gets its own place in the canonical order.
// nilKey is the map key $nil (stored by the real maps outside the hash trie).
var nilKey = Key{S: "$nil", I: 3000}

func tkey(n int) Key { return Key{S: fmt.Sprintf("(num %d)", n), I: 2000 + n} }

func project(v any) Val {
	budget := 20000
	return projectD(v, 0, &budget)
}

// projectD bounds depth and size: a value that contains itself (possible only if a container was mutated
// in place) must become a rejected observation, not a crash of the executor.
func projectD(v any, depth int, budget *int) Val {
	*budget--
	if depth > 40 || *budget < 0 {
		return Val{T: "other:too-deep", E: []Val{}, Ks: []Key{}}
	}
	switch v := v.(type) {
	case int:
		return atom(v)
	case vals.List:
		out := Val{T: "l", E: make([]Val, 0, v.Len()), Ks: []Key{}}
		for it := v.Iterator(); it.HasElem(); it.Next() {
			out.E = append(out.E, projectD(it.Elem(), depth+1, budget))
		}
		return out
	case vals.Map:
		type kv struct {
			k Key
			v Val
		}
		var ps []kv
		for it := v.Iterator(); it.HasElem(); it.Next() {
			k, val := it.Elem()
			switch k := k.(type) {
			case string:
				ps = append(ps, kv{keyOf(k), projectD(val, depth+1, budget)})
			case int:
				ps = append(ps, kv{tkey(k), projectD(val, depth+1, budget)})
			case nil:
				ps = append(ps, kv{nilKey, projectD(val, depth+1, budget)})
			default:
				return Val{T: "other:mapkey", E: []Val{}, Ks: []Key{}}
			}
		}
		sort.SliceStable(ps, func(i, j int) bool { return rank(ps[i].k) < rank(ps[j].k) })
		out := Val{T: "m", E: []Val{}, Ks: []Key{}}
		for _, p := range ps {
			out.Ks = append(out.Ks, p.k)
			out.E = append(out.E, p.v)
		}
		return out
	default:
		return Val{T: "other:" + vals.Kind(v), E: []Val{}, Ks: []Key{}}
	}
}

// ---- concretisation: abstract step -> Elvish text

func lit(v Val) string {
	switch v.T {
	case "a":
		return fmt.Sprintf("(num %d)", v.N)
	case "l":
		parts := make([]string, len(v.E))
		for i, e := range v.E {
			parts[i] = lit(e)
		}
		return "[" + strings.Join(parts, " ") + "]"
	case "m":
		if len(v.E) == 0 {
			return "[&]"
		}
		parts := make([]string, len(v.E))
		for i, e := range v.E {
			parts[i] = "&" + v.Ks[i].S + "=" + lit(e)
		}
		return "[" + strings.Join(parts, " ") + "]"
	}
	return "<" + v.T + ">" // only in messages: never produced by the model or the generators
}

func pathText(p []Key) string {
	var sb strings.Builder
	for _, k := range p {
		sb.WriteString("[" + k.S + "]")
	}
	return sb.String()
}

func rhs(d VDesc) string {
	switch d.Src {
	case "atom":
		return fmt.Sprintf("(num %d)", d.N)
	case "lit":
		return fmt.Sprintf("[(num %d) (num %d)]", d.N, d.N+1)
	case "var":
		return "$" + d.Name
	}
	panic("bad value descriptor " + d.Src)
}

func renderStep(o Op) string {
	switch o.Op {
	case "SetElem":
		return fmt.Sprintf("set %s%s = %s", o.X, pathText(o.P), rhs(o.V))
	case "DelElem":
		return fmt.Sprintf("del %s%s", o.X, pathText(o.P))
	case "TmpElem":
		return fmt.Sprintf("{ tmp %s%s = %s; put $%s }", o.X, pathText(o.P), rhs(o.V), o.X)
	case "WithElem":
		return fmt.Sprintf("with [%s%s = %s] { put $%s }", o.X, pathText(o.P), rhs(o.V), o.X)
	case "SetElemsStale":
		return fmt.Sprintf("set %s%s %s%s = %s %s", o.X, pathText(o.P), o.X, pathText(o.P2), rhs(o.V), rhs(o.V2))
	case "TakeAlias":
		src := "$" + o.X + pathText(o.P)
		switch o.Kind {
		case "var", "sub":
			return fmt.Sprintf("var %s = %s", o.Name, src)
		case "closure":
			return fmt.Sprintf("var %s = (mk %s)", o.Name, src)
		case "output":
			return fmt.Sprintf("var %s = (put %s)", o.Name, src)
		case "share":
			return fmt.Sprintf("var %s = [%s %s]", o.Name, src, src)
		}
	}
	panic("cannot render step " + o.Op + "/" + o.Kind)
}

func reader(name, kind string) string {
	if kind == "closure" {
		return "$" + name
	}
	return "put $" + name
}

const prelude = "fn mk {|v| put { put $v } }\n"

func renderBehaviour(beh []Entry) string {
	var sb strings.Builder
	sb.WriteString(fmt.Sprintf("var x = %s\nvar y = %s\n", lit(beh[0].Store[0]), lit(beh[0].Store[1])))
	for _, a := range beh[0].Al {
		sb.WriteString(renderStep(Op{Op: "TakeAlias", X: a.X, P: a.P, Kind: a.Kind, Name: a.Name}) + "\n")
	}
	for _, e := range beh[1:] {
		sb.WriteString(renderStep(e.O) + "\n")
	}
	return sb.String()
}

func renderOps(reset Event, ops []Op) string {
	var sb strings.Builder
	sb.WriteString(fmt.Sprintf("var x = %.200s\nvar y = %.200s\n", lit(reset.Store[0]), lit(reset.Store[1])))
	for _, o := range ops {
		sb.WriteString(renderStep(o) + "\n")
	}
	return sb.String()
}

// ---- driving the real evaluator

type aliasRef struct{ name, kind string }

type runner struct {
	ev      *eval.Evaler
	aliases []aliasRef
	evals   int
}

func newRunner(initCode string) *runner {
	r := &runner{ev: eval.NewEvaler()}
	o := elv.Run(r.ev, prelude+initCode)
	if o.Err != nil || o.Panic != "" {
		panic(fmt.Sprintf("initial chunk failed: %v %s\n%s", o.Err, o.Panic, initCode))
	}
	return r
}

// exec runs one step as its own chunk. mid is what the chunk put (tmp/with scopes).
func (r *runner) exec(o Op) (raised bool, mid Val, panicked string) {
	out := elv.Run(r.ev, renderStep(o))
	r.evals++
	if out.Panic != "" {
		return true, errVal, out.Panic
	}
	if out.Err != nil {
		if cls := elv.ErrClass(out.Err); cls != "exception" {
			panic(fmt.Sprintf("generated step does not compile (%s): %v\n%s", cls, out.Err, renderStep(o)))
		}
		return true, errVal, ""
	}
	if o.Op == "TakeAlias" {
		r.aliases = append(r.aliases, aliasRef{o.Name, o.Kind})
	}
	mid = errVal
	if (o.Op == "TmpElem" || o.Op == "WithElem") && len(out.Values) == 1 {
		mid = project(out.Values[0])
	}
	return false, mid, ""
}

func (r *runner) read(code string) Val {
	out := elv.Run(r.ev, code)
	r.evals++
	if out.Err != nil || out.Panic != "" || len(out.Values) != 1 {
		return Val{T: "unreadable", E: []Val{}, Ks: []Key{}}
	}
	return project(out.Values[0])
}

func (r *runner) store() []Val { return []Val{r.read("put $x"), r.read("put $y")} }

func (r *runner) readAliases() []Val {
	out := make([]Val, len(r.aliases))
	for i, a := range r.aliases {
		out[i] = r.read(reader(a.name, a.kind))
	}
	return out
}

// ---- G: replay one model behaviour, comparing after every step

func replayBehaviour(c *lib.Ctx, beh []Entry) {
	text := renderBehaviour(beh)
	c.Distinct(text)
	r := newRunner(fmt.Sprintf("var x = %s\nvar y = %s\n", lit(beh[0].Store[0]), lit(beh[0].Store[1])))
	defer func() { c.AddEvals(r.evals) }()
	reject := func(k int, op, why, detail string) {
		c.Reject("alias:"+op+":"+why, fmt.Sprintf("step %d of\n%s%s", k, text, detail), beh[:k+1])
	}
	check := func(k int, e Entry) bool {
		st := r.store()
		for i, name := range []string{"x", "y"} {
			if !eqVal(st[i], e.Store[i]) {
				reject(k, e.O.Op, name, fmt.Sprintf("$%s reads %s, prescribed %s", name, litSafe(st[i]), litSafe(e.Store[i])))
				return false
			}
		}
		got := r.readAliases()
		if len(got) != len(e.Al) {
			reject(k, e.O.Op, "alias", fmt.Sprintf("%d aliases exist, prescribed %d", len(got), len(e.Al)))
			return false
		}
		for i := range got {
			if !eqVal(got[i], e.Al[i].Val) {
				reject(k, e.O.Op, "alias", fmt.Sprintf("alias %s (%s of $%s%s) reads %s, its snapshot is %s", e.Al[i].Name, e.Al[i].Kind, e.Al[i].X, pathText(e.Al[i].P), litSafe(got[i]), litSafe(e.Al[i].Val)))
				return false
			}
		}
		return true
	}
	for _, a := range beh[0].Al {
		if raised, _, _ := r.exec(Op{Op: "TakeAlias", X: a.X, P: a.P, Kind: a.Kind, Name: a.Name}); raised {
			panic("initial alias could not be taken: " + a.Name)
		}
	}
	if !check(0, beh[0]) {
		return
	}
	for k := 1; k < len(beh); k++ {
		e := beh[k]
		raised, mid, pan := r.exec(e.O)
		if pan != "" {
			reject(k, e.O.Op, "panic", pan)
			return
		}
		if raised != e.Raises {
			reject(k, e.O.Op, "raises", fmt.Sprintf("%s: raised=%v, prescribed %v", renderStep(e.O), raised, e.Raises))
			return
		}
		if (e.O.Op == "TmpElem" || e.O.Op == "WithElem") && !raised && !eqVal(mid, e.Mid) {
			reject(k, e.O.Op, "mid", fmt.Sprintf("inside the scope $%s reads %s, prescribed %s", e.O.X, litSafe(mid), litSafe(e.Mid)))
			return
		}
		if !check(k, e) {
			return
		}
	}
}

func litSafe(v Val) string {
	if v.T != "a" && v.T != "l" && v.T != "m" {
		return "<" + v.T + ">"
	}
	s := lit(v)
	if len(s) > 300 {
		s = s[:300] + "..."
	}
	return s
}

// ---- V: random histories on the real evaluator

var mapKeys = []string{"k", "m", "n", "0", "1", "2", "$nil"}

func randVal(r *rand.Rand, depth int) Val {
	if depth == 0 || r.Intn(4) == 0 {
		return atom(r.Intn(90))
	}
	n := r.Intn(4)
	if r.Intn(2) == 0 {
		v := Val{T: "l", E: []Val{}, Ks: []Key{}}
		for i := 0; i < n; i++ {
			v.E = append(v.E, randVal(r, depth-1))
		}
		return v
	}
	v := Val{T: "m", E: []Val{}, Ks: []Key{}}
	perm := r.Perm(len(mapKeys))[:n]
	ks := make([]Key, 0, n)
	for _, i := range perm {
		ks = append(ks, keyOf(mapKeys[i]))
	}
	sort.Slice(ks, func(i, j int) bool { return rank(ks[i]) < rank(ks[j]) })
	for _, k := range ks {
		v.Ks = append(v.Ks, k)
		v.E = append(v.E, randVal(r, depth-1))
	}
	return v
}

// randPath walks into v: mostly along existing elements, sometimes off them.
func randPath(r *rand.Rand, v Val, maxLen int, validOnly bool) []Key {
	n := 1 + r.Intn(maxLen)
	p := []Key{}
	cur := v
	for i := 0; i < n; i++ {
		var k Key
		switch {
		case cur.T == "l" && len(cur.E) > 0 && (validOnly || r.Intn(8) != 0):
			j := r.Intn(len(cur.E))
			next := cur.E[j]
			if r.Intn(4) == 0 {
				j -= len(cur.E)
			}
			k = keyOf(strconv.Itoa(j))
			cur = next
		case cur.T == "m" && len(cur.E) > 0 && (validOnly || r.Intn(3) != 0):
			j := r.Intn(len(cur.E))
			k = cur.Ks[j]
			cur = cur.E[j]
		case validOnly:
			return p
		default:
			alts := []string{"k", "n", "0", strconv.Itoa(len(cur.E)), strconv.Itoa(-len(cur.E) - 1), "2", "$nil"}
			k = keyOf(alts[r.Intn(len(alts))])
			cur = errVal
		}
		p = append(p, k)
		if cur.T == "a" && r.Intn(6) != 0 {
			break
		}
	}
	return p
}

func randomOps(r *rand.Rand, run *runner, kind string, length int, record func(Op)) {
	names := 0
	maxAl := 6
	if kind != "nested" {
		maxAl = 3
	}
	for step := 0; step < length; step++ {
		x := []string{"x", "y"}[r.Intn(2)]
		cur := run.read("put $" + x)
		other := run.read("put $" + map[string]string{"x": "y", "y": "x"}[x])
		val := func() VDesc {
			switch q := r.Intn(10); {
			case q < 5:
				return VDesc{Src: "atom", N: 100 + r.Intn(800)}
			case q < 7:
				return VDesc{Src: "lit", N: 100 + r.Intn(800)}
			case q < 9 && size(other) < 120:
				return VDesc{Src: "var", Name: map[string]string{"x": "y", "y": "x"}[x]}
			case size(cur) < 120:
				return VDesc{Src: "var", Name: x}
			}
			return VDesc{Src: "atom", N: 100 + r.Intn(800)}
		}
		o := Op{X: x, P: []Key{}, P2: []Key{}, V: VDesc{Src: "atom"}, V2: VDesc{Src: "atom"}}
		switch q := r.Intn(100); {
		case q < 22 && len(run.aliases) < maxAl:
			o.Op = "TakeAlias"
			names++
			o.Name = fmt.Sprintf("al%d", names)
			o.Kind = []string{"var", "closure", "output", "share", "sub"}[r.Intn(5)]
			if o.Kind == "sub" {
				o.P = randPath(r, cur, 2, r.Intn(5) != 0)
				if len(o.P) == 0 {
					o.Kind = "var"
				}
			}
		case q < 60:
			o.Op, o.P, o.V = "SetElem", randPath(r, cur, 4, false), val()
		case q < 72:
			o.Op, o.P = "DelElem", randPath(r, cur, 4, false)
		case q < 80:
			o.Op, o.P, o.V = "TmpElem", randPath(r, cur, 3, false), val()
		case q < 88:
			o.Op, o.P, o.V = "WithElem", randPath(r, cur, 3, false), val()
		case q < 94 && (cur.T == "l" || cur.T == "m") && len(cur.E) >= 2:
			i, j := r.Intn(len(cur.E)), r.Intn(len(cur.E)-1)
			if j >= i {
				j++
			}
			key := func(i int) Key {
				if cur.T == "l" {
					return keyOf(strconv.Itoa(i))
				}
				return cur.Ks[i]
			}
			o.Op, o.P, o.P2 = "SetElemsStale", []Key{key(i)}, []Key{key(j)}
			o.V, o.V2 = VDesc{Src: "atom", N: 900 + r.Intn(50)}, VDesc{Src: "atom", N: 950 + r.Intn(50)}
		default:
			o.Op, o.P, o.V = "SetElem", randPath(r, cur, 2, true), val()
		}
		if len(o.P) == 0 && o.Op != "TakeAlias" {
			o.P = []Key{keyOf("0")}
		}
		record(o)
	}
}

// growOps: maps grown key by key (`set m[newkey] = v` ADDING keys, the map at the top, inside a list,
// inside a map), an alias of (almost) every version taken on the way, every alias re-read after
// every step.  Keys come from one of several alphabets in random order; growth goes past 16 keys
// (bitmap node -> array node).  Now and then an existing key is replaced or deleted.
func growOps(r *rand.Rand, run *runner, where []Key, x string, alphabet []string, record func(Op)) {
	names := 0
	order := r.Perm(len(alphabet))
	blank := func() Op {
		return Op{X: x, P: []Key{}, P2: []Key{}, V: VDesc{Src: "atom"}, V2: VDesc{Src: "atom"}}
	}
	take := func() {
		if len(run.aliases) >= 22 {
			return
		}
		o := blank()
		names++
		o.Op, o.Name = "TakeAlias", fmt.Sprintf("g%d", names)
		o.Kind = []string{"var", "var", "closure", "output", "share", "sub"}[r.Intn(6)]
		if o.Kind == "sub" {
			if len(where) == 0 {
				o.Kind = "var"
			} else {
				o.P = append([]Key{}, where...)
			}
		}
		record(o)
	}
	take()
	hasNil := false
	for n, oi := range order {
		o := blank()
		o.Op, o.P = "SetElem", append(append([]Key{}, where...), keyOf(alphabet[oi]))
		o.V = VDesc{Src: "atom", N: 100 + n}
		record(o)
		hasNil = hasNil || alphabet[oi] == "$nil"
		if r.Intn(5) != 0 {
			take()
		}
		if hasNil && r.Intn(3) == 0 { // re-assoc of the existing $nil key, aliases of earlier versions alive
			o := blank()
			o.Op, o.P, o.V = "SetElem", append(append([]Key{}, where...), nilKey), VDesc{Src: "atom", N: 700 + n}
			record(o)
		}
		if n > 0 && r.Intn(6) == 0 { // replace or delete a key added earlier
			o := blank()
			o.P = append(append([]Key{}, where...), keyOf(alphabet[order[r.Intn(n)]]))
			if r.Intn(2) == 0 {
				o.Op, o.V = "SetElem", VDesc{Src: "atom", N: 500 + n}
			} else {
				o.Op = "DelElem"
			}
			record(o)
		}
	}
}

var alphabets = [][]string{
	{"a", "b", "c", "d", "e", "f", "g", "h", "i", "j", "l", "p", "q", "r", "s", "t", "u", "v", "w", "z"},
	{"foo", "bar", "lorem", "ipsum", "dolor", "sit", "amet", "baz", "qux", "a", "b", "x1", "x2", "k", "z", "key1", "key2", "w", "e", "0", "1"},
	{"x1", "x2", "x3", "x4", "x5", "x6", "x7", "x8", "x9", "x10", "x11", "x12", "x13", "x14", "x15", "x16", "x17", "x18", "x19", "x20"},
	{"key1", "key2", "key3", "key4", "key5", "key6", "key7", "key8", "key9", "key10", "key11", "key12", "key13", "key14", "key15", "key16", "key17", "key18"},
	{"a", "b", "foo", "lorem", "x1", "k", "c", "bar", "x2", "d", "ipsum", "x3", "e", "key1", "f", "g", "h", "key2", "i"},
}

// growHistory: variant selects where the growing map lives and how many keys it starts with.
func growHistory(c *lib.Ctx, r *rand.Rand, variant int) []Event {
	m0 := []string{"[&m=(num 1) &n=(num 2) &o=(num 3)]", "[&]", "[&m=(num 1) &n=(num 2) &o=(num 3) &p=(num 4) &q=(num 5)]", "[&a=(num 1) &b=(num 2) &c=(num 3)]"}[variant%4]
	var init, x string
	var where []Key
	switch (variant / 4) % 3 {
	case 0:
		init, x, where = "var x = "+m0+"\nvar y = [(num 7) "+m0+"]\n", "x", []Key{}
	case 1:
		init, x, where = "var x = [(num 7) "+m0+" "+m0+"]\nvar y = "+m0+"\n", "x", []Key{keyOf("1")}
	default:
		init, x, where = "var x = (num 5)\nvar y = [&k="+m0+" &m=[(num 1) "+m0+"]]\n", "y", []Key{keyOf("k")}
	}
	alphabet := append([]string{"$nil"}, alphabets[r.Intn(len(alphabets))]...)
	var keep []string
	for _, a := range alphabet { // keys already in the literal are replaced, not added: leave a few in
		if !strings.Contains(m0, "&"+a+"=") || r.Intn(3) == 0 {
			keep = append(keep, a)
		}
	}
	run := newRunner(init)
	evs := []Event{{O: Op{Op: "Reset", P: []Key{}, P2: []Key{}, V: VDesc{Src: "atom"}, V2: VDesc{Src: "atom"}}, Mid: errVal, Store: run.store(), Al: []Val{}}}
	growOps(r, run, where, x, keep, func(o Op) { evs = append(evs, step(c, run, o)) })
	c.AddEvals(run.evals)
	return evs
}

// growShrinkHistory: a map (at the top, inside a list, inside a map) grows to 17..40 keys - exact
// integers 0..N, whose hashes differ in the low bits so that the root of the trie becomes an array
// node, or 30+ texts - and is then emptied key by key.  Aliases are taken now and then while it
// grows and at EVERY size from 12 keys down (the array node is packed back into a bitmap node when
// one of its last 8 occupied slots empties); every alias is re-read in full after every step.
// Variant 0 is the directed probe: keys 0..16 added and deleted in order.
func growShrinkHistory(c *lib.Ctx, r *rand.Rand, variant int) []Event {
	var init, x string
	var where []Key
	switch variant % 3 {
	case 0:
		init, x, where = "var x = [&]\nvar y = [(num 7) [&]]\n", "x", []Key{}
	case 1:
		init, x, where = "var x = [(num 7) [&] [&]]\nvar y = [&]\n", "x", []Key{keyOf("2")}
	default:
		init, x, where = "var x = (num 5)\nvar y = [&k=[&] &m=[(num 1) [&]]]\n", "y", []Key{keyOf("k")}
	}
	var keys []Key
	switch (variant / 3) % 3 {
	case 0, 1:
		n := 17
		if variant >= 3 {
			n = 17 + r.Intn(24)
		}
		for i := 0; i < n; i++ {
			keys = append(keys, tkey(i))
		}
	default:
		for _, i := range r.Perm(len(keyPool))[:30+r.Intn(11)] {
			keys = append(keys, keyOf(keyPool[i]))
		}
	}
	if variant != 0 {
		keys = append(keys, nilKey)
	}
	delOrder := make([]int, len(keys))
	for i := range delOrder {
		delOrder[i] = i
	}
	if variant != 0 {
		r.Shuffle(len(keys), func(i, j int) { keys[i], keys[j] = keys[j], keys[i] })
		delOrder = r.Perm(len(keys))
	}
	run := newRunner(init)
	evs := []Event{{O: Op{Op: "Reset", P: []Key{}, P2: []Key{}, V: VDesc{Src: "atom"}, V2: VDesc{Src: "atom"}}, Mid: errVal, Store: run.store(), Al: []Val{}}}
	record := func(o Op) { evs = append(evs, step(c, run, o)) }
	blank := func() Op {
		return Op{X: x, P: []Key{}, P2: []Key{}, V: VDesc{Src: "atom"}, V2: VDesc{Src: "atom"}}
	}
	names := 0
	take := func() {
		o := blank()
		names++
		o.Op, o.Name = "TakeAlias", fmt.Sprintf("s%d", names)
		o.Kind = []string{"var", "closure", "output", "share", "sub"}[names%5]
		if o.Kind == "sub" {
			if len(where) == 0 {
				o.Kind = "var"
			} else {
				o.P = append([]Key{}, where...)
			}
		}
		record(o)
	}
	for n, k := range keys {
		o := blank()
		o.Op, o.P, o.V = "SetElem", append(append([]Key{}, where...), k), VDesc{Src: "atom", N: 100 + n}
		record(o)
		if n%7 == 6 {
			take()
		}
	}
	for n, di := range delOrder {
		if left := len(keys) - n; left <= 12 || n%9 == 0 {
			take()
		}
		if variant != 0 && n%4 == 1 { // re-assoc of $nil (present or not) between the deletions
			o := blank()
			o.Op, o.P, o.V = "SetElem", append(append([]Key{}, where...), nilKey), VDesc{Src: "atom", N: 800 + n}
			record(o)
		}
		o := blank()
		o.Op, o.P = "DelElem", append(append([]Key{}, where...), keys[di])
		record(o)
	}
	if variant != 0 { // the re-assocs may have put $nil back after its deletion
		o := blank()
		o.Op, o.P = "DelElem", append(append([]Key{}, where...), nilKey)
		record(o)
	}
	c.AddEvals(run.evals)
	return evs
}

func randomHistory(c *lib.Ctx, r *rand.Rand, kind string, length int) []Event {
	var init string
	switch kind {
	case "big1057":
		init = "var x = [(range 1057)]\nvar y = [(num 1) [&k=(num 2)]]\n"
	case "big33":
		init = "var x = [(range 33)]\nvar y = [&k=[(range 33)] &m=(num 7)]\n"
	default:
		init = fmt.Sprintf("var x = %s\nvar y = %s\n", lit(randVal(r, 4)), lit(randVal(r, 3)))
	}
	run := newRunner(init)
	evs := []Event{{O: Op{Op: "Reset", P: []Key{}, P2: []Key{}, V: VDesc{Src: "atom"}, V2: VDesc{Src: "atom"}}, Mid: errVal, Store: run.store(), Al: []Val{}}}
	broken := false
	randomOps(r, run, kind, length, func(o Op) {
		if broken {
			return // a value became unprojectable (cyclic / exploded): the history ends at its first rejected step
		}
		ev := step(c, run, o)
		evs = append(evs, ev)
		for _, v := range append(append([]Val{}, ev.Store...), ev.Al...) {
			if strings.HasPrefix(v.T, "other:") || v.T == "unreadable" {
				broken = true
			}
		}
	})
	c.AddEvals(run.evals)
	return evs
}

func step(c *lib.Ctx, run *runner, o Op) Event {
	raised, mid, pan := run.exec(o)
	if pan != "" {
		c.Reject("alias:"+o.Op+":panic", renderStep(o)+": "+pan, o)
	}
	ev := Event{O: o, Raised: raised, Mid: mid, Store: run.store(), Al: run.readAliases()}
	if !raised && o.Op != "TakeAlias" {
		c.Distinct([]any{o, ev.Store})
	}
	return ev
}

// reexecute runs recorded operations again on a fresh evaler (replay of a stored V case).
func reexecute(c *lib.Ctx, reset Event, ops []Op) []Event {
	run := newRunner(fmt.Sprintf("var x = %s\nvar y = %s\n", lit(reset.Store[0]), lit(reset.Store[1])))
	evs := []Event{{O: reset.O, Mid: errVal, Store: run.store(), Al: []Val{}}}
	for _, o := range ops {
		evs = append(evs, step(c, run, o))
	}
	c.AddEvals(run.evals)
	return evs
}
