// C07 — maps are immutable dictionaries, including under hash collisions.
// M: MCPHashMap (small-scope model: dictionary laws, Len = cardinality, persistence).
// G: every transition of MCPHashMap replayed on real hashmap.Map values once per HASH ASSIGNMENT
//
//	(keys sharing exactly the low p bits for p = 0,5,..,30,32; mixed families; and LIFTED
//	configurations whose version 0 holds filler keys that fill the trie node at level 0/1/2/5 up
//	to the bitmap->array and array->bitmap thresholds); the result and, after every step, ALL
//	live versions (Len, Index of every key, full iteration) compared with what TLC prescribes.
//
// V: seeded random histories at real scale (20-120 keys, node fills and drains at levels 0,1,2,5,6,
//
//	full and partial collisions, nil key), every live version re-read in full after every step,
//	judged by the stateful TLC walker TracePHashMap.
package main

import (
	"bytes"
	"encoding/json"
	"fmt"
	"os"
	"strings"
	"sync"
	"time"

	"src.elv.sh/pkg/persistent/hashmap"
	"verif.local/harness/lib"
)

func main() { lib.Main("C07", run) }

type mcBounds struct {
	Fill0, Fill1 string
	MaxVers      int
}

func (b mcBounds) cfg() []byte {
	return []byte(fmt.Sprintf("CONSTANTS OpKeys = {0, 1, 2, 3, 4} Vals = {1, 2} FillCounts0 = %s FillCounts1 = %s MaxVers = %d\nSPECIFICATION Spec\nVIEW View\nINVARIANT LenIsCardinality\nINVARIANT FillersUntouched\nINVARIANT DictLaws\nPROPERTY Persistence\nACTION_CONSTRAINT EmitT\n",
		b.Fill0, b.Fill1, b.MaxVers))
}

type gline struct {
	P    []json.RawMessage `json:"p"`
	R    res               `json:"r"`
	Vers [][]entry         `json:"vers"`
}

type gcase struct {
	Mode   string            `json:"mode"`
	Assign *assignment       `json:"assign"`
	Temps  int               `json:"temps"`
	P      []json.RawMessage `json:"p"`
	R      res               `json:"r"`
	Vers   [][]entry         `json:"vers"`
}

func parseStep(raw json.RawMessage) (op, error) {
	var t []any
	if err := json.Unmarshal(raw, &t); err != nil || len(t) != 4 {
		return op{}, fmt.Errorf("bad step %s", raw)
	}
	name, _ := t[0].(string)
	f := func(i int) int { x, _ := t[i].(float64); return int(x) }
	return op{Op: name, V: f(1), K: f(2), X: f(3)}, nil
}

func pathKey(p []json.RawMessage) string {
	var b bytes.Buffer
	for _, x := range p {
		b.Write(x)
		b.WriteByte(',')
	}
	return b.String()
}

func run(c *lib.Ctx) error {
	dir := c.SpecDir("PHashMap")
	os.Setenv("_JAVA_OPTIONS", "-XX:ParallelGCThreads=2 -XX:CICompilerCount=2")
	if c.Replay != "" {
		return replay(c, dir)
	}
	c.Set("rule", "G: one case per (hash assignment, transition of the exhaustive model), distinct by (assignment name, version-0 content, operation path); V: one case per recorded call, distinct by (history parameters, operation, result, re-read contents); Len/Iterate/Index on an empty map are not counted as non-trivial")
	want := func(p string) bool { // development aid: VERIF_C07_PHASES=gen,hist
		sel := os.Getenv("VERIF_C07_PHASES")
		return sel == "" || strings.Contains(","+sel+",", ","+p+",")
	}
	type phase struct {
		name string
		f    func(*lib.Ctx, string) error
	}
	lanes := [][]phase{{{"gen", genReplay}, {"hist", histories}}} // one after the other: at most 4 TLC processes at a time
	errs := make([]error, len(lanes))
	lib.Parallel(len(lanes), len(lanes), func(i int) {
		for _, ph := range lanes[i] {
			if !want(ph.name) {
				continue
			}
			t0 := time.Now()
			if errs[i] = ph.f(c, dir); errs[i] != nil {
				return
			}
			c.Logf("phase %s done in %.1fs", ph.name, time.Since(t0).Seconds())
		}
	})
	for _, err := range errs {
		if err != nil {
			return err
		}
	}
	c.Assume("TLC trusted; keys are harness objects (*hkey: equality by id, hash prescribed by the case) handed to hashmap.New together with their Equal/Hash functions, the nil key is Go nil; values are Go ints; hashes do not occur in the specification (the dictionary must not depend on them): the hash assignments are enumerated by the executor; iteration order is Unspecified (any permutation accepted); node kinds are counted by read-only reflection as coverage evidence only")
	return nil
}

func commonBits(c *lib.Ctx) uint32 { return uint32(0x2B5AD6B5) ^ uint32(c.Seed*0x01000193) }

// ---- M + G
func genReplay(c *lib.Ctx, dir string) error {
	cfgs := []mcBounds{
		{"{0}", "{}", c.Pick(4, 5)},
		{"{15, 16}", "{7, 8}", c.Pick(3, 4)},
	}
	c.Set("G_configs", cfgs)
	var mu sync.Mutex
	var firstErr error
	total := 0
	kinds := map[string]int{}
	lib.Parallel(len(cfgs), 2, func(ci int) {
		b := cfgs[ci]
		r, err := c.TLC(fmt.Sprintf("MCPHashMap(fill0=%s fill1=%s)", b.Fill0, b.Fill1), lib.TLCRun{Dir: dir, Module: "MCPHashMap", Workers: 2, Timeout: 14 * time.Minute, HeapGB: 6,
			Files: map[string][]byte{"MCPHashMap.cfg": b.cfg()}})
		if err == nil && r.ErrKind != "" {
			err = lib.Infra("the map model violates its own property %s %s:\n%s", r.ErrKind, r.ErrName, r.ErrTrace)
		}
		var n int
		if err == nil {
			n, err = replayLines(c, r.PrintedStrings(), r.Generated, kinds, &mu)
		}
		mu.Lock()
		defer mu.Unlock()
		if err != nil && firstErr == nil {
			firstErr = err
		}
		total += n
	})
	if firstErr != nil {
		return firstErr
	}
	c.AddTraces(total)
	c.Set("G_transitions_replayed", total)
	c.Set("G_node_kinds_at_depth", kinds)
	c.Set("exhaustive", true)
	return nil
}

// world is one concretisation of a model configuration: an assignment + the real version 0.
type world struct {
	a        *assignment
	temps    int
	universe []int
	v0       hashmap.Map
}

// buildV0 makes a real map whose content is `content`, passing through `temps` temporary keys
// (inserted, then removed) so that the node holding them has been an array node.
func buildV0(a *assignment, content []entry, temps int) (m hashmap.Map, err error) {
	defer func() {
		if r := recover(); r != nil {
			err = fmt.Errorf("building version 0 panicked: %v", r)
		}
	}()
	m = hashmap.New(equalKeys, hashKey)
	for _, e := range content {
		m = m.Assoc(a.key(e.K), e.X)
	}
	for i := 0; i < temps; i++ {
		m = m.Assoc(a.key(201+i), 5)
	}
	for i := 0; i < temps; i++ {
		m = m.Dissoc(a.key(201 + i))
	}
	return m, nil
}

func worldsFor(c *lib.Ctx, v0 []entry) []world {
	nFill, has1 := 0, false
	uni := []int{0, 1, 2, 3, 4}
	for _, e := range v0 {
		if e.K > 100 {
			nFill++
			uni = append(uni, e.K)
		}
		if e.K == 1 {
			has1 = true
		}
	}
	var ws []world
	if nFill == 0 && !has1 {
		for _, a := range families(commonBits(c)) {
			ws = append(ws, world{a: a, universe: uni})
		}
		return ws
	}
	temps := 0
	if has1 { // 7 or 8 fillers + key 1: pass through 17 entries so that the node is an array node of 8 / 9 children
		temps = 17 - nFill - 1
	}
	for _, level := range []int{0, 1, 2, 5} {
		a := lifted(level, commonBits(c), nFill, temps)
		u := append([]int{}, uni...)
		for i := 0; i < temps; i++ {
			u = append(u, 201+i)
		}
		ws = append(ws, world{a: a, temps: temps, universe: u})
	}
	return ws
}

func replayLines(c *lib.Ctx, lines []string, generated int64, kinds map[string]int, kmu *sync.Mutex) (int, error) {
	// group by configuration (= content of version 0), then by level
	type group struct {
		v0      []entry
		byLevel map[int][]gline
		max     int
	}
	groups := map[string]*group{}
	seen := map[string]bool{}
	nl := 0
	for _, s := range lines {
		if seen[s] {
			continue
		}
		seen[s] = true
		var l gline
		if err := json.Unmarshal([]byte(s), &l); err != nil || len(l.Vers) == 0 {
			return 0, lib.Infra("bad transition from TLC: %v: %.200s", err, s)
		}
		k0, _ := json.Marshal(l.Vers[0])
		g := groups[string(k0)]
		if g == nil {
			g = &group{v0: l.Vers[0], byLevel: map[int][]gline{}}
			groups[string(k0)] = g
		}
		if os.Getenv("VERIF_C07_CORRUPT") == "gen" && nl == 300 { // self-test: the replay must reject this
			l.Vers[len(l.Vers)-1] = append(l.Vers[len(l.Vers)-1], entry{4, 7})
		}
		g.byLevel[len(l.P)] = append(g.byLevel[len(l.P)], l)
		g.max = max(g.max, len(l.P))
		nl++
	}
	if int64(nl) < generated-int64(len(groups)) {
		return 0, lib.Infra("TLC generated %d transitions but emitted %d", generated, nl)
	}
	type job struct {
		g *group
		w world
	}
	var jobs []job
	for _, g := range groups {
		for _, w := range worldsFor(c, g.v0) {
			m, err := buildV0(w.a, g.v0, w.temps)
			if err != nil {
				c.Reject("map:panic:build", fmt.Sprintf("%s: %v", w.a.Name, err), gcase{Mode: "G", Assign: w.a, Temps: w.temps, Vers: [][]entry{g.v0}})
				continue
			}
			w.v0 = m
			jobs = append(jobs, job{g, w})
		}
	}
	var mu sync.Mutex
	n := 0
	var infra error
	lib.Parallel(len(jobs), 4, func(ji int) {
		g, w := jobs[ji].g, jobs[ji].w
		local := map[string]int{}
		nodeKinds(w.v0, local)
		memo := map[string][]hashmap.Map{"": {w.v0}}
		cnt := 0
		for lv := 1; lv <= g.max; lv++ {
			for _, l := range g.byLevel[lv] {
				vs, ok := memo[pathKey(l.P[:lv-1])]
				if !ok {
					mu.Lock()
					infra = lib.Infra("no emitted transition leads to the source state of path %s", pathKey(l.P))
					mu.Unlock()
					return
				}
				if vs == nil {
					memo[pathKey(l.P)] = nil
					continue
				}
				nvs := replayStep(c, w, vs, l)
				memo[pathKey(l.P)] = nvs
				if len(nvs) > len(vs) {
					nodeKinds(nvs[len(nvs)-1], local)
					if o, err := parseStep(l.P[lv-1]); err == nil {
						transitions(vs[o.V], nvs[len(nvs)-1], local)
					}
				}
				cnt++
			}
		}
		mu.Lock()
		n += cnt
		mu.Unlock()
		kmu.Lock()
		for k, v := range local {
			kinds[k] += v
		}
		kmu.Unlock()
	})
	return n, infra
}

// replayStep performs the last step of l on the real versions vs and compares everything with
// the prescription. It returns the live versions afterwards (nil if they cannot be continued).
func replayStep(c *lib.Ctx, w world, vs []hashmap.Map, l gline) []hashmap.Map {
	o, err := parseStep(l.P[len(l.P)-1])
	if err != nil || o.V >= len(vs) {
		panic(fmt.Sprintf("bad step from TLC: %v", err))
	}
	gc := gcase{"G", w.a, w.temps, l.P, l.R, l.Vers}
	out := exec(vs[o.V], w.a, o)
	c.AddEvals(1)
	c.Inc("G_op_"+o.Op, 1)
	if !(len(l.Vers[o.V]) == 0 && (o.Op == "Len" || o.Op == "Iterate" || o.Op == "Index")) {
		c.Distinct([]any{w.a.Name, len(l.Vers[0]), pathKey(l.P)})
	}
	if out.Panic != "" {
		c.Reject("map:panic:"+o.Op, fmt.Sprintf("%s: %v panicked: %s", w.a.Name, o, out.Panic), gc)
		return nil
	}
	if out.R != l.R {
		c.Reject("map:"+o.Op, fmt.Sprintf("%s: %v on %v returns %+v; the specification prescribes %+v", w.a.Name, o, l.Vers[o.V], out.R, l.R), gc)
	}
	after := vs
	if o.Op == "Assoc" || o.Op == "Dissoc" {
		if out.Map == nil {
			c.Reject("map:"+o.Op+":nil", fmt.Sprintf("%s: %v returned nil", w.a.Name, o), gc)
			return nil
		}
		after = append(append([]hashmap.Map(nil), vs...), out.Map)
	}
	if o.Op == "Iterate" {
		// the iterated entries must be exactly the prescribed content of the receiver
		if d := sameEntries(out.It, l.Vers[o.V]); d != "" {
			c.Reject("map:Iterate", fmt.Sprintf("%s: %v: %s", w.a.Name, o, d), gc)
		}
	}
	if len(after) != len(l.Vers) {
		panic(fmt.Sprintf("TLC prescribes %d versions, replay has %d", len(l.Vers), len(after)))
	}
	for k, m := range after {
		if d := sameContent(m, w.a, w.universe, l.Vers[k]); d != "" {
			c.Reject("map:persistence:"+o.Op, fmt.Sprintf("%s: after %v version %d reads differently: %s", w.a.Name, o, k, d), gc)
			return nil
		}
	}
	return after
}

func sameEntries(got, want []entry) string {
	wm := map[int]int{}
	for _, e := range want {
		wm[e.K] = e.X
	}
	if len(got) != len(want) {
		return fmt.Sprintf("iteration yields %v, prescribed content %v", got, want)
	}
	seen := map[int]bool{}
	for _, e := range got {
		if x, in := wm[e.K]; !in || x != e.X || seen[e.K] {
			return fmt.Sprintf("iteration yields %v, prescribed content %v", got, want)
		}
		seen[e.K] = true
	}
	return ""
}

func replay(c *lib.Ctx, dir string) error {
	b, err := os.ReadFile(c.Replay)
	if err != nil {
		return lib.Infra("%v", err)
	}
	var f struct {
		Case json.RawMessage `json:"case"`
	}
	if err := json.Unmarshal(b, &f); err != nil {
		return lib.Infra("%v", err)
	}
	var probe struct {
		Mode string `json:"mode"`
	}
	json.Unmarshal(f.Case, &probe)
	switch probe.Mode {
	case "G":
		var g gcase
		if err := json.Unmarshal(f.Case, &g); err != nil || g.Assign == nil || len(g.Vers) == 0 {
			return lib.Infra("bad G case: %v", err)
		}
		// version 0 is the first prescribed version of every line
		v0 := g.Vers[0]
		m, err := buildV0(g.Assign, v0, g.Temps)
		if err != nil {
			c.Reject("map:panic:build", err.Error(), g)
			return nil
		}
		uni := []int{0, 1, 2, 3, 4}
		for _, e := range v0 {
			if e.K > 100 {
				uni = append(uni, e.K)
			}
		}
		for i := 0; i < g.Temps; i++ {
			uni = append(uni, 201+i)
		}
		w := world{a: g.Assign, temps: g.Temps, universe: uni, v0: m}
		vs := []hashmap.Map{m}
		for k := 0; k < len(g.P)-1; k++ {
			o, err := parseStep(g.P[k])
			if err != nil {
				return lib.Infra("%v", err)
			}
			out := exec(vs[o.V], w.a, o)
			if o.Op == "Assoc" || o.Op == "Dissoc" {
				if out.Map == nil {
					return lib.Infra("replay: prefix step %v returned no map", o)
				}
				vs = append(vs, out.Map)
			}
		}
		if len(g.P) > 0 {
			replayStep(c, w, vs, gline{g.P, g.R, g.Vers})
		}
		return nil
	case "H":
		var w struct {
			P hparams `json:"params"`
		}
		if err := json.Unmarshal(f.Case, &w); err != nil {
			return lib.Infra("%v", err)
		}
		h := runHistory(c, w.P, nil)
		return judgeHistories(c, dir, "TracePHashMap(replay)", [][]hevent{h}, []hparams{w.P})
	}
	return lib.Infra("unknown replay case mode %q", probe.Mode)
}
