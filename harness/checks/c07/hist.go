package main

// V: seeded random histories at real scale; after every call ALL live versions are re-read in
// full (Len, Index of every key of the universe, full iteration) and logged; TracePHashMap judges.

import (
	"fmt"
	"math/rand"
	"os"
	"time"

	"src.elv.sh/pkg/persistent/hashmap"
	"verif.local/harness/lib"
)

type hparams struct {
	Seed   int64  `json:"seed"`
	Level  int    `json:"level"`  // trie level at which the keys meet (0,1,2,5: 32 slots; 6: 4 slots)
	NKeys  int    `json:"nkeys"`  // key ids 1..NKeys, plus the nil key
	Spread int    `json:"spread"` // number of distinct chunk values used at that level
	Steps  int    `json:"steps"`
	Common uint32 `json:"common"`
}

type reading struct {
	N   int   `json:"n"`
	Idx []int `json:"idx"`
	It  []int `json:"it"`
}

type hevent struct {
	O    op        `json:"o"`
	R    res       `json:"r"`
	It   []int     `json:"it"`
	All  []reading `json:"all"`
	Keys []int     `json:"keys"`
	what string
}

const maxLive = 3

// assignmentFor: all keys agree below the level; at the level key i sits in chunk (i-1) mod Spread;
// keys of one chunk differ in the bits above, except that every third such key repeats the hash of
// the previous one in its chunk (full collision).
func assignmentFor(p hparams) *assignment {
	a := &assignment{Name: fmt.Sprintf("history level %d, %d keys over %d chunks", p.Level, p.NKeys, p.Spread), Hashes: map[int]uint32{}}
	sh := uint(p.Level * chunkBits)
	low := p.Common & lowMask(int(sh))
	for i := 1; i <= p.NKeys; i++ {
		chunk := uint32((i - 1) % p.Spread)
		round := uint32((i - 1) / p.Spread)
		if round%3 == 2 {
			round-- // collides fully with the previous key of this chunk
		}
		h := low | chunk<<sh
		if sh+5 < 32 {
			h |= (round * 0x9E3779B1) << (sh + 5)
		}
		a.Hashes[i] = h
	}
	return a
}

func flat(es []entry) []int {
	out := make([]int, 0, 2*len(es))
	for _, e := range es {
		out = append(out, e.K, e.X)
	}
	return out
}

func read(m hashmap.Map, a *assignment, keys []int) reading {
	r := reading{N: m.Len(), Idx: make([]int, len(keys))}
	for j, id := range keys {
		v, ok := m.Index(a.key(id))
		switch {
		case ok:
			r.Idx[j] = valInt(v)
		case v != nil:
			r.Idx[j] = -2
		default:
			r.Idx[j] = -1
		}
	}
	r.It = flat(iterate(m))
	return r
}

// runHistory is deterministic in p. kinds (may be nil) collects node kinds reached.
func runHistory(c *lib.Ctx, p hparams, kinds map[string]int) (evs []hevent) {
	rng := rand.New(rand.NewSource(p.Seed))
	a := assignmentFor(p)
	keys := make([]int, 0, p.NKeys+1)
	for i := 0; i <= p.NKeys; i++ {
		keys = append(keys, i)
	}
	live := []hashmap.Map{hashmap.New(equalKeys, hashKey)}
	present := []map[int]bool{{}} // the driver's own bookkeeping, used only to choose operations
	readAll := func() []reading {
		out := make([]reading, len(live))
		for i, m := range live {
			out[i] = read(m, a, keys)
		}
		return out
	}
	defer func() {
		if r := recover(); r != nil {
			evs = append(evs, hevent{O: op{Op: "Panic"}, It: []int{}, All: []reading{}, Keys: []int{}, what: fmt.Sprint(r)})
		}
	}()
	evs = append(evs, hevent{O: op{Op: "Reset"}, It: []int{}, All: readAll(), Keys: keys})
	filling := true
	val := 0
	for s := 0; s < p.Steps; s++ { // Drop events are not counted as steps
		if len(live) > maxLive {
			s--
			k := rng.Intn(len(live) - 1) // never the newest
			live = append(live[:k:k], live[k+1:]...)
			present = append(present[:k:k], present[k+1:]...)
			evs = append(evs, hevent{O: op{Op: "Drop", V: k}, It: []int{}, All: readAll(), Keys: []int{}})
			continue
		}
		v := len(live) - 1
		if rng.Intn(6) == 0 {
			v = rng.Intn(len(live))
		}
		have := present[v]
		if len(have) >= p.NKeys*9/10 {
			filling = false
		} else if len(have) <= 3 {
			filling = true
		}
		pick := func(wantPresent bool) int {
			for try := 0; try < 8; try++ {
				k := rng.Intn(p.NKeys + 1)
				if have[k] == wantPresent {
					return k
				}
			}
			return rng.Intn(p.NKeys + 1)
		}
		o := op{V: v}
		d := rng.Intn(100)
		switch {
		case d < 12:
			o.Op, o.K = "Index", rng.Intn(p.NKeys+1)
		case d < 15:
			o.Op = "Len"
		case d < 19:
			o.Op = "Iterate"
		case d < 27: // replace or no-op delete
			if rng.Intn(2) == 0 {
				o.Op, o.K = "Assoc", pick(true)
			} else {
				o.Op, o.K = "Dissoc", pick(false)
			}
		case filling == (d < 85):
			o.Op, o.K = "Assoc", pick(false)
		default:
			o.Op, o.K = "Dissoc", pick(true)
		}
		if o.Op == "Assoc" {
			val = val%7 + 1
			o.X = val
		}
		out := exec(live[v], a, o)
		c.AddEvals(1)
		if out.Panic != "" {
			evs = append(evs, hevent{O: op{Op: "Panic"}, It: []int{}, All: []reading{}, Keys: []int{}, what: fmt.Sprintf("%v panicked: %s", o, out.Panic)})
			return evs
		}
		if out.Map != nil {
			live = append(live, out.Map)
			np := map[int]bool{}
			for k := range have {
				np[k] = true
			}
			if o.Op == "Assoc" {
				np[o.K] = true
			} else {
				delete(np, o.K)
			}
			present = append(present, np)
			if kinds != nil {
				nodeKinds(out.Map, kinds)
				transitions(live[v], out.Map, kinds)
			}
		}
		ev := hevent{O: o, R: out.R, It: flat(out.It), All: readAll(), Keys: []int{},
			what: fmt.Sprintf("%v -> %+v it=%v", o, out.R, out.It)}
		evs = append(evs, ev)
		c.Inc("H_op_"+o.Op, 1)
	}
	return evs
}

func histories(c *lib.Ctx, dir string) error {
	nh, steps := c.Pick(40, 400), c.Pick(200, 300)
	ps := make([]hparams, nh)
	levels := []int{0, 1, 2, 5, 6}
	for h := range ps {
		rng := rand.New(rand.NewSource(c.Seed*7919 + int64(h)))
		p := hparams{Seed: c.Seed*1000003 + int64(h), Level: levels[h%len(levels)], Steps: steps, Common: commonBits(c) ^ uint32(rng.Int63())}
		p.NKeys = 20 + rng.Intn(41)
		if h%8 == 7 {
			p.NKeys = 80 + rng.Intn(41)
			p.Steps = 2 * steps
		}
		p.Spread = 17 + rng.Intn(12)
		if p.Level == 6 {
			p.Spread = 4
		}
		ps[h] = p
	}
	c.Set("V_histories", map[string]any{"histories": nh, "steps": steps, "levels": levels, "max_live_versions": maxLive + 1})
	hs := make([][]hevent, nh)
	kinds := make([]map[string]int, nh)
	lib.Parallel(nh, 4, func(h int) {
		kinds[h] = map[string]int{}
		hs[h] = runHistory(c, ps[h], kinds[h])
	})
	total := map[string]int{}
	for _, k := range kinds {
		for n, v := range k {
			total[n] += v
		}
	}
	c.Set("V_node_kinds_at_depth", total)
	for hi, h := range hs {
		for _, e := range h {
			if e.O.Op == "Panic" {
				c.Reject("map:panic:history", fmt.Sprintf("history %+v: %s", ps[hi], e.what), map[string]any{"mode": "H", "params": ps[hi]})
				hs[hi] = h[:len(h)-1]
				break
			}
			if e.O.Op != "Reset" && e.O.Op != "Drop" {
				c.Distinct([]any{ps[hi].Level, ps[hi].NKeys, ps[hi].Spread, e.O, e.R, e.All})
			}
		}
	}
	c.Sample(map[string]any{"params": ps[0], "events": hs[0][:min(3, len(hs[0]))]})
	c.AddTraces(nh)
	return judgeHistories(c, dir, "TracePHashMap", hs, ps)
}

func judgeHistories(c *lib.Ctx, dir, name string, hs [][]hevent, ps []hparams) error {
	if os.Getenv("VERIF_C07_CORRUPT") == "hist" && len(hs[0]) > 30 { // self-test: the walker must reject these
		e := &hs[0][30]
		e.All[len(e.All)-1].N++
		if len(hs) > 1 && len(hs[1]) > 30 {
			f := &hs[1][30]
			if it := f.All[len(f.All)-1].It; len(it) >= 2 {
				f.All[len(f.All)-1].It = append(it[:len(it):len(it)], it[0], it[1]) // an entry twice
			}
		}
	}
	bad, err := lib.JudgeGroups(c, name, dir, "TracePHashMap", hs, 4, 12*time.Minute)
	if err != nil {
		return err
	}
	var starts []int
	n := 0
	for _, h := range hs {
		starts = append(starts, n)
		n += len(h)
	}
	for _, b := range bad {
		hi := 0
		for i, s := range starts {
			if s <= b.Index {
				hi = i
			}
		}
		e := hs[hi][b.Index-starts[hi]]
		c.Reject("map:history:"+e.O.Op, fmt.Sprintf("history %+v, event %d: %s; re-read %+v; the specification prescribes %v", ps[hi], b.Index-starts[hi], e.what, e.All, b.Info[len(b.Info)-1]),
			map[string]any{"mode": "H", "params": ps[hi], "event": b.Index - starts[hi]})
	}
	return nil
}
