package main

// Concretisation and projection for C07: abstract key ids + a hash assignment -> key objects for a
// real hashmap.Map (hashmap.New(equal, hash)); real maps -> entry lists. No expected outcome is
// computed here: prescribed results come from TLC (G) or are judged by TLC (V).

import (
	"fmt"
	"reflect"
	"sort"

	"src.elv.sh/pkg/persistent/hashmap"
)

// hkey is a harness key: equality by id, hash prescribed by the case.
type hkey struct {
	id   int
	hash uint32
}

func equalKeys(a, b any) bool {
	x, ok1 := a.(*hkey)
	y, ok2 := b.(*hkey)
	return ok1 && ok2 && x.id == y.id
}
func hashKey(k any) uint32 { return k.(*hkey).hash }

// assignment maps key ids to hashes; id 0 is the nil key (no hash: the real map never hashes it).
type assignment struct {
	Name   string         `json:"name"`
	Hashes map[int]uint32 `json:"hashes"`
	keys   map[int]*hkey
}

func (a *assignment) key(id int) any {
	if id == 0 {
		return nil
	}
	if a.keys == nil {
		a.keys = map[int]*hkey{}
	}
	k, ok := a.keys[id]
	if !ok {
		h, ok := a.Hashes[id]
		if !ok {
			panic(fmt.Sprintf("harness: no hash for key %d in %s", id, a.Name))
		}
		k = &hkey{id, h}
		a.keys[id] = k
	}
	return k
}

func keyID(k any) int {
	if k == nil {
		return 0
	}
	if h, ok := k.(*hkey); ok {
		return h.id
	}
	return -999
}

func valInt(v any) int {
	if n, ok := v.(int); ok {
		return n
	}
	return -999
}

type op struct {
	Op string `json:"op"`
	V  int    `json:"v"`
	K  int    `json:"k"`
	X  int    `json:"x"`
}

func (o op) String() string {
	switch o.Op {
	case "Assoc":
		return fmt.Sprintf("Assoc(v%d,k%d,%d)", o.V, o.K, o.X)
	case "Dissoc", "Index":
		return fmt.Sprintf("%s(v%d,k%d)", o.Op, o.V, o.K)
	}
	return fmt.Sprintf("%s(v%d)", o.Op, o.V)
}

// res mirrors PHashMap!R0.
type res struct {
	Found bool `json:"found"`
	Val   int  `json:"val"`
	N     int  `json:"n"`
}

type entry struct {
	K int `json:"k"`
	X int `json:"x"`
}

type outcome struct {
	R     res
	It    []entry     // Iterate
	Map   hashmap.Map // Assoc / Dissoc
	Panic string
}

// iterate reads a map with its Iterator (bounded, so a runaway iterator cannot hang the check).
func iterate(m hashmap.Map) []entry {
	out := []entry{}
	limit := m.Len() + 64
	for it := m.Iterator(); it.HasElem() && len(out) <= limit; it.Next() {
		k, v := it.Elem()
		out = append(out, entry{keyID(k), valInt(v)})
	}
	return out
}

func exec(m hashmap.Map, a *assignment, o op) (out outcome) {
	defer func() {
		if r := recover(); r != nil {
			out = outcome{Panic: fmt.Sprint(r)}
		}
	}()
	switch o.Op {
	case "Assoc":
		out.Map = m.Assoc(a.key(o.K), o.X)
	case "Dissoc":
		out.Map = m.Dissoc(a.key(o.K))
	case "Index":
		v, ok := m.Index(a.key(o.K))
		out.R.Found = ok
		if ok {
			out.R.Val = valInt(v)
		} else if v != nil {
			out.R.Val = -2 // "absent" must come with no value
		}
	case "Len":
		out.R.N = m.Len()
	case "Iterate":
		out.It = iterate(m)
	default:
		panic("harness: unknown op " + o.Op)
	}
	return out
}

// sameContent reads a real map in full (Len, Index of every key of the universe, full iteration)
// and compares with a prescribed entry list.
func sameContent(m hashmap.Map, a *assignment, universe []int, want []entry) (diff string) {
	defer func() {
		if r := recover(); r != nil {
			diff = fmt.Sprintf("reading the map panicked: %v", r)
		}
	}()
	wm := map[int]int{}
	for _, e := range want {
		wm[e.K] = e.X
	}
	if m.Len() != len(want) {
		return fmt.Sprintf("Len() = %d, prescribed %d", m.Len(), len(want))
	}
	for _, id := range universe {
		v, ok := m.Index(a.key(id))
		x, in := wm[id]
		if ok != in || (ok && valInt(v) != x) || (!ok && v != nil) {
			return fmt.Sprintf("Index(k%d) = %v,%v, prescribed %v,%v", id, v, ok, x, in)
		}
	}
	got := iterate(m)
	if len(got) != len(want) {
		return fmt.Sprintf("iteration yields %d entries, prescribed %d", len(got), len(want))
	}
	seen := map[int]bool{}
	for _, e := range got {
		x, in := wm[e.K]
		if !in || x != e.X || seen[e.K] {
			return fmt.Sprintf("iteration yields k%d=%d (again=%v), prescribed %v,%v", e.K, e.X, seen[e.K], x, in)
		}
		seen[e.K] = true
	}
	return ""
}

// ---- hash assignments

const (
	chunkBits = 5
)

func lowMask(p int) uint32 {
	if p >= 32 {
		return 0xFFFFFFFF
	}
	return (uint32(1) << uint(p)) - 1
}

// share gives keys 1..n hashes that agree on exactly the low p bits region [0,p) (p multiple of 5,
// or 32 = full collision) and differ in the chunk that starts at bit p.
func share(p int, common uint32, n int) *assignment {
	a := &assignment{Name: fmt.Sprintf("share-low-%d-bits", p), Hashes: map[int]uint32{}}
	for k := 1; k <= n; k++ {
		h := common
		if p < 32 {
			h = common&lowMask(p) | uint32(k-1)<<uint(p)
			if p+5 < 32 { // unrelated high bits
				h |= (uint32(k) * 0x9E3779B1) << uint(p+5)
			}
		}
		a.Hashes[k] = h
	}
	return a
}

func families(common uint32) []*assignment {
	var out []*assignment
	for _, p := range []int{0, 5, 10, 15, 20, 25, 30, 32} {
		out = append(out, share(p, common, 4))
	}
	c := common
	out = append(out,
		&assignment{Name: "mixed: 1,2 collide; 3 shares 10 bits; 4 free", Hashes: map[int]uint32{
			1: c, 2: c, 3: c&lowMask(10) | ((c>>10&31)^1)<<10 | ^c&^lowMask(15), 4: ^c}},
		&assignment{Name: "mixed: 1,2 collide; 3,4 collide, sharing 25 bits with 1,2", Hashes: map[int]uint32{
			1: c, 2: c, 3: c ^ 1<<27, 4: c ^ 1<<27}},
		&assignment{Name: "mixed: 1,2,3 collide; 4 shares 30 bits", Hashes: map[int]uint32{
			1: c, 2: c, 3: c, 4: c ^ 1<<31}},
		&assignment{Name: "mixed: 1,2 share 5 bits; 3,4 share 20 bits; pairs share 0", Hashes: map[int]uint32{
			1: c, 2: c ^ 1<<7, 3: ^c, 4: ^c ^ 1<<22}},
	)
	return out
}

// lifted gives the model keys 1..4, the fillers 101.. and the temporary keys 201.. hashes that
// all agree below chunk `level` and meet in the node at that level:
// fillers and temporaries occupy distinct chunk values there; key 1 and 2 get chunk values of
// their own, key 3 shares key 1's chunk (differs one level deeper), key 4 shares the first
// filler's chunk (differs one level deeper). level <= 5 (the node at level 6 has only 4 slots).
func lifted(level int, common uint32, nFill, nTemp int) *assignment {
	a := &assignment{Name: fmt.Sprintf("lifted: node at level %d with %d fillers", level, nFill), Hashes: map[int]uint32{}}
	sh := uint(level * chunkBits)
	low := common & lowMask(int(sh))
	at := func(chunk, deeper uint32) uint32 {
		h := low | chunk<<sh
		if sh+5 < 32 {
			h |= deeper << (sh + 5)
		}
		return h
	}
	for i := 0; i < nFill; i++ {
		a.Hashes[101+i] = at(uint32(i), uint32(i)*7)
	}
	for i := 0; i < nTemp; i++ {
		a.Hashes[201+i] = at(uint32(nFill+i), 3)
	}
	a.Hashes[1] = at(30, 1)
	a.Hashes[2] = at(31, 1)
	a.Hashes[3] = at(30, 2)
	a.Hashes[4] = at(0, 1)
	return a
}

// ---- node kinds reached (coverage evidence only; read-only reflection, never a verdict)

func nodeKinds(m hashmap.Map, count map[string]int) {
	defer func() { recover() }()
	v := reflect.ValueOf(m)
	if v.Kind() == reflect.Ptr {
		v = v.Elem()
	}
	root := v.FieldByName("root")
	walkNode(root, 0, count)
}

func walkNode(n reflect.Value, depth int, count map[string]int) {
	for n.Kind() == reflect.Interface || n.Kind() == reflect.Ptr {
		if n.IsNil() {
			return
		}
		n = n.Elem()
	}
	name := n.Type().Name()
	count[fmt.Sprintf("%s@%d", name, depth)]++
	switch name {
	case "bitmapNode":
		es := n.FieldByName("entries")
		for i := 0; i < es.Len(); i++ {
			e := es.Index(i)
			if e.FieldByName("key").IsNil() {
				walkNode(e.FieldByName("value"), depth+1, count)
			}
		}
	case "arrayNode":
		cs := n.FieldByName("children")
		for i := 0; i < cs.Len(); i++ {
			walkNode(cs.Index(i), depth+1, count)
		}
	}
}

// transitions notes a node at some depth turning from a bitmap node into an array node (unpack)
// or back (pack) between a version and its successor; coverage evidence only.
func transitions(parent, child hashmap.Map, count map[string]int) {
	a, b := map[string]int{}, map[string]int{}
	nodeKinds(parent, a)
	nodeKinds(child, b)
	for d := 0; d <= 6; d++ {
		k := fmt.Sprintf("arrayNode@%d", d)
		switch {
		case a[k] < b[k]:
			count[fmt.Sprintf("unpack@%d", d)]++
		case a[k] > b[k]:
			count[fmt.Sprintf("pack@%d", d)]++
		}
	}
}

func sortedInts(m map[int]bool) []int {
	var out []int
	for k := range m {
		out = append(out, k)
	}
	sort.Ints(out)
	return out
}
