// C23 — wildcard expansion yields exactly the matching paths.
//
// M: MCGlobTree / MCGlobElem: design theorems of spec/Glob/Glob.tla on the whole small scope.
// G: TLC enumerates every pattern of the scope and prints, per tree, the prescribed outcome
//
//	(Must = has to be produced, May = Unspecified extras); each tree is created once under a temp
//	dir and every pattern is run through Elvish wildcard expressions (relative to the tree as
//	cwd, and with an absolute prefix) and, for matcher-free patterns, through glob.Pattern.Glob.
//
// V: directed probes + random trees/patterns run on the real code, recorded, judged by TLC
//
//	(JudgeGlob.tla, one state per case); rejected cases print the missing / extra / duplicate sets
//	that key the finding.
package main

import (
	"encoding/json"
	"fmt"
	"os"
	"path/filepath"
	"strings"
	"sync"
	"time"

	"src.elv.sh/pkg/eval"
	"verif.local/harness/elv"
	"verif.local/harness/lib"
)

func main() { lib.Main("C23", run) }

const par = 6

// ---- cwd: the process has one; every evaluation that depends on it runs inside inDir

var cwdMu sync.Mutex

func inDir(dir string, f func() error) error {
	cwdMu.Lock()
	defer cwdMu.Unlock()
	old, err := os.Getwd()
	if err != nil {
		return lib.Infra("getwd: %v", err)
	}
	if err := os.Chdir(dir); err != nil {
		return lib.Infra("chdir: %v", err)
	}
	defer os.Chdir(old)
	return f()
}

type evPool chan *eval.Evaler

func newPool(n int) evPool {
	p := make(evPool, n)
	for i := 0; i < n; i++ {
		p <- elv.New()
	}
	return p
}

// ---- discrepancy between a prescribed / judged outcome and what the real code did

type diff struct {
	Missing []string
	Extra   []string
	Dups    []string
	ExcBad  bool
	Panic   string
}

func (d diff) empty() bool {
	return len(d.Missing) == 0 && len(d.Extra) == 0 && len(d.Dups) == 0 && !d.ExcBad && d.Panic == ""
}

// compare is the G comparison: must ⊆ res ⊆ must ∪ may, each once, exception iff empty and no nomatch-ok.
func compare(p Pat, must, may [][]int, r runResult) diff {
	if r.Panic != "" {
		return diff{Panic: r.Panic}
	}
	var d diff
	mu, ma := setOf(must), setOf(may)
	seen := map[string]bool{}
	dup := map[string]bool{}
	for _, x := range r.Res {
		s := str(x)
		if seen[s] {
			dup[s] = true
		}
		seen[s] = true
		if !mu[s] && !ma[s] {
			d.Extra = append(d.Extra, s)
		}
	}
	d.Dups = sortedKeys(dup)
	for _, s := range sortedKeys(mu) {
		if !seen[s] {
			d.Missing = append(d.Missing, s)
		}
	}
	d.ExcBad = (r.Exc && (p.Nomatchok || len(r.Res) > 0)) || (!r.Exc && len(r.Res) == 0 && !p.Nomatchok)
	return d
}

// report turns a discrepancy into rejections with structural keys. root is the materialised
// tree (to look at the real kind of a missing path).
func report(c *lib.Ctx, vc VCase, d diff, root string) {
	code := vc.Code
	desc := fmt.Sprintf("tree %s, `put %s` (%s)", treeText(vc.Tree), code, vc.Via)
	if d.Panic != "" {
		c.Reject("glob:panic:"+code, desc+" panicked: "+firstLine(d.Panic), vc)
		return
	}
	keys := map[string]string{}
	for _, m := range d.Missing {
		k := "glob:missing:" + code + "@" + treeText(vc.Tree)
		if vc.Pat.Type == "regular" && isSymlink(root, m) && producedWithoutType(vc, root, m) {
			k = "glob:type-regular-excludes-symlink"
		} else if needsBacktracking(vc.Pat) {
			k = "glob:restricted-star-needs-backtracking"
		}
		keys[k] += " missing " + m
	}
	if len(d.Dups) > 0 {
		k := "glob:duplicate:" + code + "@" + treeText(vc.Tree)
		if countSS(vc.Pat) >= 2 {
			k = "glob:duplicate-paths-multiple-starstar"
		}
		keys[k] += " produced more than once: " + strings.Join(d.Dups, " ")
	}
	if len(d.Extra) > 0 {
		keys["glob:extra:"+code+"@"+treeText(vc.Tree)] += " not matching but produced: " + strings.Join(d.Extra, " ")
	}
	if d.ExcBad {
		keys["glob:exception:"+code+"@"+treeText(vc.Tree)] += fmt.Sprintf(" exception=%v with %d results, nomatch-ok=%v", vc.Exc, len(vc.Res), vc.Pat.Nomatchok)
	}
	for _, k := range sortedKeys(boolMap(keys)) {
		c.Reject(k, desc+":"+keys[k], vc)
	}
}

// producedWithoutType tells which step of the real code lost the link m: the same pattern is run
// again without its type: modifier (absolute prefix, so the cwd does not matter); if m is produced
// then, the type filter dropped it, otherwise the matching did.
var classifyMu sync.Mutex
var classifyEv *eval.Evaler

func producedWithoutType(vc VCase, root, m string) bool {
	classifyMu.Lock()
	defer classifyMu.Unlock()
	if classifyEv == nil {
		classifyEv = elv.New()
	}
	v2 := vc
	v2.Pat.Type = ""
	v2.Pat.Nomatchok = true
	rr, err := execCase(classifyEv, &v2, root, "abs", 0, false)
	if err != nil || rr.Panic != "" {
		return false
	}
	return setOf(rr.Res)[m]
}

func boolMap(m map[string]string) map[string]bool {
	out := map[string]bool{}
	for k := range m {
		out[k] = true
	}
	return out
}

func firstLine(s string) string {
	if i := strings.IndexByte(s, '\n'); i >= 0 {
		return s[:i]
	}
	return s
}

func isSymlink(root, rel string) bool {
	if root == "" {
		return false
	}
	fi, err := os.Lstat(filepath.Join(root, filepath.FromSlash(strings.TrimSuffix(rel, "/"))))
	return err == nil && fi.Mode()&os.ModeSymlink != 0 && !strings.HasSuffix(rel, "/")
}

func treeText(t []Ent) string {
	var parts []string
	for _, e := range t {
		s := str(e.P)
		switch e.K {
		case "dir":
			s += "/"
		case "symfile":
			s += "@"
		case "symdir":
			s += "@->" + str(e.T) + "/"
		}
		parts = append(parts, s)
	}
	return "{" + strings.Join(parts, " ") + "}"
}

// ---- one real execution of a case: fills Res/Exc; returns the panic text if any

// execCase runs vc.Pat on the tree materialised at root. mode: "rel" (cwd = root),
// "abs" (absolute prefix, cwd irrelevant), "glob" (pkg/glob directly, cwd = root).
func execCase(ev *eval.Evaler, vc *VCase, root, mode string, gpos int, alt bool) (runResult, error) {
	switch mode {
	case "glob":
		gp, ok := toGlobPattern(vc.Pat)
		if !ok {
			return runResult{}, lib.Infra("glob mode on a pattern with matchers")
		}
		vc.Via, vc.Code = "glob.Pattern.Glob", render(vc.Pat, "", gpos, alt)
		r := runGlob(gp)
		vc.Res, vc.Exc = r.Res, false
		return r, nil
	case "abs":
		prefix := root + "/"
		code := render(vc.Pat, prefix, gpos, alt)
		vc.Via, vc.Code = "elvish, absolute prefix", render(vc.Pat, "", gpos, alt)
		r, err := runElvish(ev, code, prefix)
		vc.Res, vc.Exc = r.Res, r.Exc
		return r, err
	default:
		code := render(vc.Pat, "", gpos, alt)
		vc.Via, vc.Code = "elvish, relative", code
		r, err := runElvish(ev, code, "")
		vc.Res, vc.Exc = r.Res, r.Exc
		return r, err
	}
}

func run(c *lib.Ctx) error {
	if c.Replay != "" {
		return replay(c)
	}
	c.Set("rule", "a case is (tree, pattern with its modifiers, way of driving the real code); distinct by (tree, rendered Elvish pattern); non-trivial = every case (each pattern holds at least one wildcard and has a prescribed Must/May set or a prescribed exception)")
	tmp, err := os.MkdirTemp("", "c23-")
	if err != nil {
		return lib.Infra("%v", err)
	}
	defer os.RemoveAll(tmp)
	tmp, _ = filepath.EvalSymlinks(tmp)
	pool := newPool(par)

	// The TLC enumerations run as separate processes while the real code is exercised for V.
	elemCh := make(chan elemBatch, 4)
	treeCh := make(chan treeBatch, 4)
	go tlcElem(c, elemCh)
	go tlcTree(c, treeCh)
	jobs, err := record(c, pool, tmp)
	if err != nil {
		return err
	}
	judged := make(chan error, 1)
	go func() { judged <- judge(c, jobs) }()
	var first error
	for b := range elemCh {
		if first == nil {
			first = b.err
		}
		if first == nil {
			first = replayElem(c, pool, tmp, b)
		}
	}
	for b := range treeCh {
		if first == nil {
			first = b.err
		}
		if first == nil {
			first = replayTree(c, pool, tmp, b)
		}
	}
	if err := <-judged; first == nil {
		first = err
	}
	if first != nil {
		return first
	}
	c.Set("exhaustive", true)
	c.Set("g_scope", "trees: the 9 trees of MCGlobTree.Trees (names over {a,b,.} of length <= 2, depth <= 3, files/dirs/links); patterns: every sequence of <= PS segments with <= MW wildcards over the tier's symbol set, plain and with one rotating global-modifier variant; one component: all names over {a,b,c} of length <= 4")
	c.Assume("TLC is trusted; Glob.tla is the reading of website/ref/language.md (Wildcard expansion); Unspecified cases U1-U4 of the module header are accepted either way")
	c.Assume("Unicode class membership of non-ASCII characters is evaluated by Go's unicode package and given to the specification as data")
	c.Assume("file systems: the temp dir's (case-sensitive, UTF-8 names); unreadable directories, Windows volumes, invalid UTF-8 names are out of the model")
	return nil
}

// ---- G, one component

type elemLine struct {
	Segs []Seg   `json:"segs"`
	Must [][]int `json:"must"`
	May  [][]int `json:"may"`
}

type elemBatch struct {
	name  string
	nl    int
	idx   int
	lines []elemLine
	err   error
}

func tlcElem(c *lib.Ctx, out chan<- elemBatch) {
	defer close(out)
	type cfg struct{ NL, PS, Rich int }
	cfgs := []cfg{{4, 3, 0}}
	if c.Thorough() {
		cfgs = []cfg{{4, 4, 0}, {4, 3, 1}}
	}
	seen := map[string]bool{}
	for ci, g := range cfgs {
		name := fmt.Sprintf("MCGlobElem(NL=%d,PS=%d,RICH=%d)", g.NL, g.PS, g.Rich)
		r, err := c.TLC(name, lib.TLCRun{Dir: c.SpecDir("Glob"), Module: "MCGlobElem", Workers: c.Pick(2, 3), Timeout: 13 * time.Minute,
			Files: map[string][]byte{"MCGlobElem.cfg": []byte(fmt.Sprintf("CONSTANT NL = %d\nCONSTANT PS = %d\nCONSTANT RICH = %d\nINIT Init\nNEXT Next\nINVARIANT TheoremAndEmit\n", g.NL, g.PS, g.Rich))}})
		if err != nil {
			out <- elemBatch{err: err}
			return
		}
		if r.ErrKind != "" {
			out <- elemBatch{err: lib.Infra("design theorem fails in the model itself (%s): %s\n%s", name, r.Err, r.ErrTrace)}
			return
		}
		var lines []elemLine
		n := 0
		for _, s := range r.PrintedStrings() {
			var l elemLine
			if err := json.Unmarshal([]byte(s), &l); err != nil {
				out <- elemBatch{err: lib.Infra("bad line from TLC: %v", err)}
				return
			}
			n++
			k, _ := json.Marshal(l.Segs)
			if !seen[string(k)] {
				seen[string(k)] = true
				lines = append(lines, l)
			}
		}
		if n == 0 || int64(n) > 2*r.Distinct {
			out <- elemBatch{err: lib.Infra("%s: %d lines for %d states", name, n, r.Distinct)}
			return
		}
		out <- elemBatch{name: name, nl: g.NL, idx: ci, lines: lines}
	}
}

func replayElem(c *lib.Ctx, pool evPool, tmp string, b elemBatch) error {
	lines, name := b.lines, b.name
	g := struct{ NL int }{b.nl}
	ci := b.idx
	{
		// the tree: one file per name over {a,b,c} of length 1..NL
		var tree []Ent
		var names func(prefix []int)
		names = func(prefix []int) {
			if len(prefix) > 0 {
				tree = append(tree, Ent{P: append([]int{}, prefix...), K: "file", T: []int{}})
			}
			if len(prefix) == g.NL {
				return
			}
			for _, ch := range []int{'a', 'b', 'c'} {
				names(append(prefix, ch))
			}
		}
		names(nil)
		root := filepath.Join(tmp, fmt.Sprintf("elem%d", ci))
		if err := materialise(root, tree, nil); err != nil {
			return lib.Infra("materialise: %v", err)
		}
		c.Logf("%s: %d new patterns over %d names", name, len(lines), len(tree))
		shown := []Ent{{P: runes("<every name over a,b,c of length 1.." + fmt.Sprint(g.NL) + ">"), K: "file", T: []int{}}}
		var first error
		var mu sync.Mutex
		err := inDir(root, func() error {
			lib.Parallel(len(lines), par, func(i int) {
				l := lines[i]
				ev := <-pool
				defer func() { pool <- ev }()
				p := Pat{Segs: l.Segs}
				p.norm()
				modes := []string{"rel"}
				if _, ok := toGlobPattern(p); ok {
					modes = append(modes, "glob")
				}
				for mi, mode := range modes {
					vc := VCase{Tree: shown, Pat: p, UC: []UCls{}}
					rr, err := execCase(ev, &vc, root, mode, i, (i+mi)%2 == 1)
					if err != nil {
						mu.Lock()
						if first == nil {
							first = err
						}
						mu.Unlock()
						return
					}
					c.AddEvals(1)
					c.AddTraces(1)
					pp := p
					if mode == "glob" {
						pp.Nomatchok = true // pkg/glob has no exception
					}
					if d := compare(pp, l.Must, l.May, rr); !d.empty() {
						vc.Tree = tree
						report(c, vc, d, root)
					}
				}
				c.Distinct("elem:" + render(p, "", 0, false))
				if i%997 == 0 {
					c.Sample(map[string]any{"scope": "one component", "pattern": render(p, "", 0, false), "must": strs(l.Must)})
				}
			})
			return nil
		})
		if err != nil {
			return err
		}
		if first != nil {
			return first
		}
		c.Inc("g_elem_patterns", int64(len(lines)))
	}
	return nil
}

func strs(ps [][]int) []string {
	out := []string{}
	for _, p := range ps {
		out = append(out, str(p))
	}
	return out
}

// ---- G, trees

type outcome struct {
	Ti        int     `json:"ti"`
	Nomatchok bool    `json:"nomatchok"`
	Buts      [][]int `json:"buts"`
	Type      string  `json:"type"`
	Must      [][]int `json:"must"`
	May       [][]int `json:"may"`
}

type treeLine struct {
	Trees [][]Ent   `json:"trees"`
	Segs  []Seg     `json:"segs"`
	Out   []outcome `json:"out"`
}

type treeBatch struct {
	name  string
	idx   int
	trees [][]Ent
	lines []treeLine
	err   error
}

func tlcTree(c *lib.Ctx, out chan<- treeBatch) {
	defer close(out)
	type cfg struct{ PS, MW, Rich, TPS int }
	// design theorems (M) are checked on the patterns of up to TPS segments of the same run
	cfgs := []cfg{{3, 2, 0, 2}}
	if c.Thorough() {
		cfgs = []cfg{{4, 2, 0, 3}, {3, 2, 2, 2}}
	}
	seenPat := map[string]bool{}
	for gi, g := range cfgs {
		name := fmt.Sprintf("MCGlobTree(PS=%d,MW=%d,RICH=%d,TPS=%d)", g.PS, g.MW, g.Rich, g.TPS)
		r, err := c.TLC(name, lib.TLCRun{Dir: c.SpecDir("Glob"), Module: "MCGlobTree", Workers: c.Pick(4, 5), Timeout: 14 * time.Minute, HeapGB: 6,
			Files: map[string][]byte{"MCGlobTree.cfg": []byte(fmt.Sprintf("CONSTANT PS = %d\nCONSTANT MW = %d\nCONSTANT RICH = %d\nCONSTANT TPS = %d\nINIT Init\nNEXT Next\nINVARIANT Theorems\nINVARIANT Emit\n", g.PS, g.MW, g.Rich, g.TPS))}})
		if err != nil {
			out <- treeBatch{err: err}
			return
		}
		if r.ErrKind != "" {
			out <- treeBatch{err: lib.Infra("design theorem %s fails in the model itself (%s): %s\n%s", r.ErrName, name, r.Err, r.ErrTrace)}
			return
		}
		var trees [][]Ent
		var lines []treeLine
		for _, s := range r.PrintedStrings() {
			var l treeLine
			if err := json.Unmarshal([]byte(s), &l); err != nil {
				out <- treeBatch{err: lib.Infra("bad line from TLC: %v", err)}
				return
			}
			if l.Trees != nil {
				trees = l.Trees
				continue
			}
			k, _ := json.Marshal(l.Segs)
			if !seenPat[string(k)] {
				seenPat[string(k)] = true
				lines = append(lines, l)
			}
		}
		if trees == nil || len(lines) == 0 {
			out <- treeBatch{err: lib.Infra("%s: no trees / no patterns received", name)}
			return
		}
		out <- treeBatch{name: name, idx: gi, trees: trees, lines: lines}
	}
}

func replayTree(c *lib.Ctx, pool evPool, tmp string, b treeBatch) error {
	trees, lines, gi := b.trees, b.lines, b.idx
	c.Logf("%s: %d new patterns x %d trees", b.name, len(lines), len(trees))
	{
		roots := make([]string, len(trees))
		for ti, t := range trees {
			normTree(t)
			roots[ti] = filepath.Join(tmp, fmt.Sprintf("g%d-t%d", gi, ti+1))
			if err := materialise(roots[ti], t, nil); err != nil {
				return lib.Infra("materialise: %v", err)
			}
		}
		// tree-major: one chdir per tree, all its (pattern, variant) jobs in parallel
		type job struct {
			li, oi int
		}
		byTree := make([][]job, len(trees))
		for li, l := range lines {
			for oi, o := range l.Out {
				if o.Ti < 1 || o.Ti > len(trees) {
					return lib.Infra("bad tree index %d", o.Ti)
				}
				byTree[o.Ti-1] = append(byTree[o.Ti-1], job{li, oi})
			}
		}
		var first error
		var mu sync.Mutex
		for ti := range trees {
			jobs := byTree[ti]
			root := roots[ti]
			err := inDir(root, func() error {
				lib.Parallel(len(jobs), par, func(j int) {
					l := lines[jobs[j].li]
					o := l.Out[jobs[j].oi]
					ev := <-pool
					defer func() { pool <- ev }()
					p := Pat{Segs: l.Segs, Nomatchok: o.Nomatchok, Buts: o.Buts, Type: o.Type}
					p.norm()
					modes := []string{"rel"}
					if j%3 == 0 {
						modes = append(modes, "abs")
					}
					if _, ok := toGlobPattern(p); ok && len(p.Buts) == 0 && p.Type == "" {
						modes = append(modes, "glob")
					}
					for mi, mode := range modes {
						vc := VCase{Tree: trees[ti], Pat: p, UC: []UCls{}}
						rr, err := execCase(ev, &vc, root, mode, j+mi, (j+mi)%2 == 1)
						if err != nil {
							mu.Lock()
							if first == nil {
								first = err
							}
							mu.Unlock()
							return
						}
						c.AddEvals(1)
						c.AddTraces(1)
						pp := p
						if mode == "glob" {
							pp.Nomatchok = true
						}
						if d := compare(pp, o.Must, o.May, rr); !d.empty() {
							report(c, vc, d, root)
						}
						if mode == "rel" && len(o.May) > 0 {
							got := setOf(rr.Res)
							for _, m := range o.May {
								if got[str(m)] {
									c.Inc("unspecified_paths_produced", 1)
								} else {
									c.Inc("unspecified_paths_not_produced", 1)
								}
							}
						}
					}
					c.Distinct(fmt.Sprintf("t%d:%s", ti+1, render(p, "", 0, false)))
					if j%4001 == 7 {
						c.Sample(map[string]any{"tree": treeText(trees[ti]), "pattern": render(p, "", 0, false), "must": strs(o.Must), "may_extra": strs(o.May)})
					}
				})
				return nil
			})
			if err != nil {
				return err
			}
			if first != nil {
				return first
			}
		}
		c.Inc("g_tree_patterns", int64(len(lines)))
	}
	return nil
}
