package main

// V: directed probes and random trees/patterns, executed on the real code, judged by TLC.

import (
	"encoding/json"
	"fmt"
	"math/rand"
	"os"
	"path/filepath"
	"sync"
	"time"

	"verif.local/harness/lib"
)

func lit(s string) Seg { return Seg{T: "lit", Cs: runes(s)} }
func slash() Seg       { return Seg{T: "slash"} }
func wild(t string, h bool, ms ...Matcher) Seg {
	return Seg{T: t, H: h, Ms: ms}
}
func setM(s string) Matcher     { return Matcher{M: "set", Cs: runes(s)} }
func rangeM(lo, hi int) Matcher { return Matcher{M: "range", Lo: lo, Hi: hi} }
func classM(c string) Matcher   { return Matcher{M: "class", C: c} }
func file(p string) Ent         { return Ent{P: runes(p), K: "file"} }
func dir(p string) Ent          { return Ent{P: runes(p), K: "dir"} }
func symfile(p string) Ent      { return Ent{P: runes(p), K: "symfile"} }
func symdir(p, t string) Ent    { return Ent{P: runes(p), K: "symdir", T: runes(t)} }

type probe struct {
	tree []Ent
	pat  Pat
	mode string
	alt  bool // spell ranges as lo~hi+1 and put match-hidden first
}

// Directed probes: the shapes of the known findings (reproduced in every run) and the examples of
// the "Wildcard expansion" section of the reference.
func probes() []probe {
	doc := []Ent{file(".x.conf"), file("a.cc"), file("ax.conf"), file("foo.cc"), dir("d"), file("d/.x.conf"),
		file("d/ax.conf"), file("d/y.cc"), dir(".d2"), file(".d2/.x.conf"), file(".d2/ax.conf")}
	P := func(segs ...Seg) Pat { return Pat{Segs: segs} }
	ps := []probe{
		// restricted star after a star: ab·a·c
		{[]Ent{file("abac")}, P(wild("star", false, setM("ab")), lit("a"), wild("star", false, setM("c"))), "rel", false},
		{[]Ent{file("abac"), file("ac")}, P(wild("star", false), lit("a"), wild("star", false, setM("c"))), "abs", false},
		// two `**`: a/a reachable with the first slash in either
		{[]Ent{dir("a"), file("a/a")}, P(wild("ss", false), lit("a"), wild("ss", false)), "rel", false},
		{[]Ent{dir("a"), file("a/a")}, P(wild("ss", false), lit("a"), wild("ss", false)), "glob", false},
		// symbolic links are regular files
		{[]Ent{file("f"), symfile("s"), dir("d"), symdir("sd", "d")}, Pat{Segs: []Seg{wild("star", false)}, Type: "regular"}, "rel", false},
		{[]Ent{file("f"), symfile("s"), dir("d"), symdir("sd", "d")}, Pat{Segs: []Seg{wild("star", false)}, Type: "dir"}, "rel", false},
		// examples of the reference
		{doc, P(wild("q", false), lit(".cc")), "rel", false},
		{doc, P(wild("star", false), lit(".cc")), "rel", false},
		{doc, P(wild("ss", false), lit(".cc")), "rel", false},
		{doc, P(wild("q", false), lit("x.conf")), "rel", false},
		{doc, P(lit("d"), slash(), wild("star", false), lit(".conf")), "rel", false},
		{doc, P(wild("ss", false), lit(".conf")), "rel", false},
		{doc, Pat{Segs: []Seg{lit("bad"), wild("star", false)}}, "rel", false},
		{doc, Pat{Segs: []Seg{lit("bad"), wild("star", false)}, Nomatchok: true}, "rel", false},
		{doc, Pat{Segs: []Seg{wild("ss", false)}, Type: "dir"}, "rel", false},
		{doc, P(wild("star", true), lit(".conf")), "rel", false},
		{doc, P(wild("star", true), slash(), wild("star", false), lit(".conf")), "rel", false},
		{doc, P(wild("q", false, setM(".a")), lit("x.conf")), "rel", false},
		{doc, P(wild("q", true, setM(".a")), lit("x.conf")), "rel", false},
		{doc, P(wild("star", false, setM("abc/"))), "rel", false},
		{doc, P(wild("q", false, setM("aeoiu"), classM("digit")), wild("star", false)), "rel", false},
		{doc, Pat{Segs: []Seg{wild("star", false)}, Buts: [][]int{runes("a.cc"), runes("nonexistent")}}, "rel", false},
		{doc, P(wild("star", false, rangeM('a', 'f')), lit(".cc")), "rel", false},
		// both spellings of a range at its boundaries: b-c and b~d
		{[]Ent{file("a"), file("b"), file("c"), file("d"), file("bd")}, P(wild("q", false, rangeM('b', 'c'))), "rel", false},
		{[]Ent{file("a"), file("b"), file("c"), file("d"), file("bd")}, P(wild("q", false, rangeM('b', 'c'))), "rel", true},
		{[]Ent{file("a"), file("b"), file("c"), file("d"), file("bd")}, P(wild("star", false, rangeM('b', 'c')), wild("q", true, rangeM('d', 'd'))), "rel", true},
	}
	return ps
}

// ---- random trees and patterns

var namePool = []rune{'a', 'a', 'b', 'b', 'c', 'A', 'B', '1', '2', '.', '.', ' ', 'é', '你', 'Ω', '*', '?', '[', ']', '-', '~', '#', '\'', '_'}

func randName(r *rand.Rand) string {
	for {
		n := 1 + r.Intn(4)
		rs := make([]rune, n)
		for i := range rs {
			rs[i] = namePool[r.Intn(len(namePool))]
		}
		if r.Intn(4) == 0 {
			rs[0] = '.'
		}
		s := string(rs)
		if s == "." || s == ".." {
			continue
		}
		return s
	}
}

func randTree(r *rand.Rand) []Ent {
	var tree []Ent
	var dirs []string
	budget := 4 + r.Intn(11)
	var fill func(parent string, depth int)
	fill = func(parent string, depth int) {
		n := 1 + r.Intn(4)
		if parent == "" {
			n = 2 + r.Intn(4)
		}
		used := map[string]bool{}
		for i := 0; i < n && budget > 0; i++ {
			name := randName(r)
			if used[name] {
				continue
			}
			used[name] = true
			p := name
			if parent != "" {
				p = parent + "/" + name
			}
			budget--
			x := r.Intn(100)
			switch {
			case x < 42:
				tree = append(tree, file(p))
			case x < 75:
				tree = append(tree, dir(p))
				dirs = append(dirs, p)
				if depth < 4 {
					fill(p, depth+1)
				}
			case x < 85 || len(dirs) == 0:
				tree = append(tree, symfile(p))
			default:
				tree = append(tree, symdir(p, dirs[r.Intn(len(dirs))]))
			}
		}
	}
	fill("", 1)
	normTree(tree)
	return tree
}

func randMatchers(r *rand.Rand, covered []rune) []Matcher {
	x := r.Intn(100)
	if x < 50 || len(covered) == 0 && x < 80 {
		return nil
	}
	one := func() Matcher {
		switch y := r.Intn(10); {
		case y < 5:
			set := append([]rune{}, covered...)
			for i := r.Intn(3); i > 0; i-- {
				set = append(set, namePool[r.Intn(len(namePool))])
			}
			if len(set) > 1 && r.Intn(5) == 0 {
				set = set[1:]
			}
			if len(set) == 0 {
				set = []rune{'a'}
			}
			return setM(string(set))
		case y < 8:
			lo, hi := 'a', 'c'
			if len(covered) > 0 {
				lo, hi = covered[0], covered[0]
				for _, ch := range covered {
					if ch < lo {
						lo = ch
					}
					if ch > hi {
						hi = ch
					}
				}
			}
			if r.Intn(4) == 0 && hi > lo {
				hi--
			}
			return rangeM(int(lo), int(hi))
		default:
			cls := []string{"digit", "letter", "lower", "upper", "punct", "space"}
			if len(covered) > 0 {
				for _, n := range cls {
					if classFns[n](covered[0]) && r.Intn(3) > 0 {
						return classM(n)
					}
				}
			}
			return classM(cls[r.Intn(len(cls))])
		}
	}
	ms := []Matcher{one()}
	if r.Intn(6) == 0 {
		ms = append(ms, one())
	}
	return ms
}

// randPattern generalises an existing (or nearly existing) path of the tree.
func randPattern(r *rand.Rand, tree []Ent) Pat {
	base := str(tree[r.Intn(len(tree))].P)
	// sometimes go through a link to a directory
	if r.Intn(4) == 0 {
		for _, e := range tree {
			if e.K == "symdir" {
				for _, f := range tree {
					fp, tp := str(f.P), str(e.T)
					if len(fp) > len(tp)+1 && fp[:len(tp)+1] == tp+"/" {
						base = str(e.P) + fp[len(tp):]
					}
				}
			}
		}
	}
	var comps [][]rune
	cur := []rune{}
	for _, ch := range base {
		if ch == '/' {
			comps = append(comps, cur)
			cur = []rune{}
		} else {
			cur = append(cur, ch)
		}
	}
	comps = append(comps, cur)
	var segs []Seg
	nw := 0
	hid := func() bool { return r.Intn(5) < 2 }
	addLit := func(rs []rune) {
		if len(rs) == 0 {
			return
		}
		if n := len(segs); n > 0 && segs[n-1].T == "lit" {
			segs[n-1].Cs = append(segs[n-1].Cs, runes(string(rs))...)
			return
		}
		segs = append(segs, lit(string(rs)))
	}
	addWild := func(t string, covered []rune) {
		w := wild(t, hid(), randMatchers(r, covered)...)
		if n := len(segs); n > 0 && (t == "star" || t == "ss") && (segs[n-1].T == "star" || segs[n-1].T == "ss") && len(segs[n-1].Ms) == 0 && !segs[n-1].H {
			segs[n-1].H = true // `***` is not a wildcard: separate the two by a modifier
		}
		segs = append(segs, w)
		nw++
	}
	for ci := 0; ci < len(comps); ci++ {
		name := comps[ci]
		if ci > 0 {
			segs = append(segs, slash())
		}
		x := r.Intn(100)
		switch {
		case nw >= 4 || x < 28:
			addLit(name)
		case x < 45:
			addWild("star", name)
		case x < 75:
			i := r.Intn(len(name))
			j := i + 1 + r.Intn(len(name)-i)
			addLit(name[:i])
			if j-i == 1 && r.Intn(2) == 0 {
				addWild("q", name[i:j])
			} else {
				addWild("star", name[i:j])
			}
			addLit(name[j:])
		case x < 85:
			// two wildcards in one component
			i := r.Intn(len(name) + 1)
			addWild("star", name[:i])
			if i < len(name) {
				addLit(name[i : i+1])
				addWild("star", name[i+1:])
			} else {
				addWild("q", nil)
			}
		default:
			// `**` swallowing this and a number of following components
			k := ci + r.Intn(len(comps)-ci)
			i := r.Intn(len(name) + 1)
			addLit(name[:i])
			var cov []rune
			cov = append(cov, name[i:]...)
			for m := ci + 1; m <= k; m++ {
				cov = append(cov, comps[m]...)
			}
			last := comps[k]
			j := r.Intn(len(last) + 1)
			if k == ci && j < i {
				j = i
			}
			addWild("ss", cov)
			addLit(last[j:])
			ci = k
		}
	}
	if nw == 0 {
		// make sure it is a wildcard pattern
		if segs[len(segs)-1].T == "lit" && r.Intn(2) == 0 {
			addWild("star", nil)
		} else {
			segs = append(segs, slash())
			addWild([]string{"star", "ss", "q"}[r.Intn(3)], nil)
		}
	}
	if r.Intn(15) == 0 && segs[len(segs)-1].T != "slash" {
		segs = append(segs, slash())
	}
	if r.Intn(12) == 0 && nw < 4 {
		segs = append([]Seg{wild("ss", hid()), slash()}, segs...)
	}
	p := Pat{Segs: segs}
	if r.Intn(10) < 3 {
		p.Nomatchok = true
	}
	switch r.Intn(8) {
	case 0:
		p.Type = "dir"
	case 1:
		p.Type = "regular"
	}
	if r.Intn(5) == 0 {
		p.Buts = append(p.Buts, tree[r.Intn(len(tree))].P)
		if r.Intn(2) == 0 {
			p.Buts = append(p.Buts, runes(base))
		}
	}
	p.norm()
	return p
}

// inModel: the shapes Glob.tla does not model are never sent to the judge.
func inModel(p Pat) bool {
	nw := 0
	for i, s := range p.Segs {
		if isWild(s) {
			nw++
		}
		if s.T == "lit" && (str(s.Cs) == "." || str(s.Cs) == ".." || len(s.Cs) == 0) {
			l := i == 0 || p.Segs[i-1].T == "slash"
			rr := i == len(p.Segs)-1 || p.Segs[i+1].T == "slash"
			if (l && rr) || len(s.Cs) == 0 {
				return false
			}
		}
		if s.T == "slash" && (i == 0 || p.Segs[i-1].T == "slash") {
			return false
		}
		if i > 0 && (s.T == "star" || s.T == "ss") {
			q := p.Segs[i-1]
			if (q.T == "star" || q.T == "ss") && len(q.Ms) == 0 && !q.H {
				return false
			}
		}
	}
	return nw >= 1
}

type vjob struct {
	vc   VCase
	root string
}

func record(c *lib.Ctx, pool evPool, tmp string) ([]vjob, error) {
	nTrees := c.Pick(70, 2200)
	perTree := c.Pick(8, 9)
	var jobs []vjob
	var first error
	var mu sync.Mutex
	fail := func(err error) {
		mu.Lock()
		if first == nil {
			first = err
		}
		mu.Unlock()
	}
	outOfModel := 0
	runTree := func(root string, tree []Ent, dangling map[int]bool, pats []Pat, modes []string, altBase int) error {
		if err := materialise(root, tree, dangling); err != nil {
			return lib.Infra("materialise %s: %v", treeText(tree), err)
		}
		uc := ucTable(tree)
		out := make([]*vjob, len(pats))
		err := inDir(root, func() error {
			lib.Parallel(len(pats), par, func(i int) {
				ev := <-pool
				defer func() { pool <- ev }()
				vc := VCase{Tree: tree, Pat: pats[i], UC: uc}
				mode := modes[i]
				if mode == "glob" {
					vc.Pat.Nomatchok = true
				}
				rr, err := execCase(ev, &vc, root, mode, i, (i+altBase)%2 == 1)
				if err != nil {
					fail(err)
					return
				}
				c.AddEvals(1)
				if rr.Panic != "" {
					report(c, vc, diff{Panic: rr.Panic}, root)
					return
				}
				out[i] = &vjob{vc, root}
			})
			return nil
		})
		for _, j := range out {
			if j != nil {
				jobs = append(jobs, *j)
			}
		}
		return err
	}
	// directed probes, each on its own tree
	for i, pr := range probes() {
		normTree(pr.tree)
		pr.pat.norm()
		if !inModel(pr.pat) {
			return nil, lib.Infra("probe %d is outside the model", i)
		}
		if err := runTree(filepath.Join(tmp, fmt.Sprintf("p%d", i)), pr.tree, nil, []Pat{pr.pat}, []string{pr.mode}, map[bool]int{false: 0, true: 1}[pr.alt]); err != nil {
			return nil, err
		}
	}
	nProbes := len(jobs)
	for t := 0; t < nTrees && first == nil; t++ {
		tree := randTree(c.Rand)
		dangling := map[int]bool{}
		for i, e := range tree {
			if e.K == "symfile" && c.Rand.Intn(3) == 0 {
				dangling[i] = true
			}
		}
		var pats []Pat
		var modes []string
		for len(pats) < perTree {
			p := randPattern(c.Rand, tree)
			if !inModel(p) {
				outOfModel++
				continue
			}
			mode := "rel"
			switch x := c.Rand.Intn(8); {
			case x == 0:
				mode = "abs"
			case x == 1:
				if _, ok := toGlobPattern(p); ok && len(p.Buts) == 0 && p.Type == "" {
					mode = "glob"
				}
			}
			pats = append(pats, p)
			modes = append(modes, mode)
		}
		if err := runTree(filepath.Join(tmp, fmt.Sprintf("v%d", t)), tree, dangling, pats, modes, t); err != nil {
			return nil, err
		}
	}
	if first != nil {
		return nil, first
	}
	c.Set("v_cases", map[string]any{"probes": nProbes, "random": len(jobs) - nProbes, "random_trees": nTrees, "generated_outside_model_skipped": outOfModel})
	c.Logf("V: %d recorded cases", len(jobs))
	return jobs, nil
}

type detail struct {
	K       int     `json:"k"`
	Missing [][]int `json:"missing"`
	Extra   [][]int `json:"extra"`
	Dups    [][]int `json:"dups"`
	ExcBad  bool    `json:"excbad"`
}

func judge(c *lib.Ctx, jobs []vjob) error {
	cases := make([]VCase, len(jobs))
	nonEmpty := 0
	for i, j := range jobs {
		cases[i] = j.vc
		if len(j.vc.Res) > 0 {
			nonEmpty++
		}
		c.Distinct("v:" + treeText(j.vc.Tree) + ":" + j.vc.Code)
		if i%211 == 30 {
			c.Sample(map[string]any{"tree": treeText(j.vc.Tree), "pattern": j.vc.Code, "via": j.vc.Via, "result": strs(j.vc.Res), "exception": j.vc.Exc})
		}
	}
	// case walker, DETAIL = TRUE: rejected cases print the sets that key the finding
	chunk := (len(cases) + judgePar - 1) / judgePar
	if chunk < 150 {
		chunk = 150
	}
	type part struct{ lo, hi int }
	var parts []part
	for lo := 0; lo < len(cases); lo += chunk {
		parts = append(parts, part{lo, min(lo+chunk, len(cases))})
	}
	var mu sync.Mutex
	var first error
	fail := func(err error) {
		mu.Lock()
		if first == nil {
			first = err
		}
		mu.Unlock()
	}
	lib.Parallel(len(parts), judgePar, func(pi int) {
		p := parts[pi]
		r, err := c.TLC("JudgeGlob", lib.TLCRun{Dir: c.SpecDir("Glob"), Module: "JudgeGlob", Cfg: "JudgeGlobDetail.cfg", Workers: 1, HeapGB: 3,
			Timeout: 13 * time.Minute, Files: map[string][]byte{"cases.ndjson": lib.NDJSON(cases[p.lo:p.hi])}})
		if err != nil {
			fail(err)
			return
		}
		if r.ErrKind != "" {
			fail(lib.Infra("JudgeGlob reported %s (%s): judges print BAD lines, they do not fail", r.ErrKind, r.Err))
			return
		}
		if r.Distinct != int64(p.hi-p.lo)+1 {
			fail(lib.Infra("JudgeGlob walked %d states for %d cases", r.Distinct, p.hi-p.lo))
			return
		}
		bad := map[int]bool{}
		for _, t := range r.Tagged("BAD") {
			if k, ok := t[0].(int64); ok {
				bad[int(k)] = true
			}
		}
		for _, t := range r.Tagged("U") {
			if len(t) == 3 {
				a, _ := t[1].(int64)
				b, _ := t[2].(int64)
				c.Inc("v_unspecified_paths_produced", a)
				c.Inc("v_unspecified_paths_not_produced", b)
			}
		}
		got := map[int]bool{}
		for _, s := range r.PrintedStrings() {
			var d detail
			if err := json.Unmarshal([]byte(s), &d); err != nil {
				fail(lib.Infra("bad detail line: %v: %s", err, s))
				return
			}
			if !bad[d.K] || got[d.K] {
				continue
			}
			got[d.K] = true
			j := jobs[p.lo+d.K-1]
			report(c, j.vc, diff{Missing: strs(d.Missing), Extra: strs(d.Extra), Dups: strs(d.Dups), ExcBad: d.ExcBad}, j.root)
		}
		if len(got) != len(bad) {
			fail(lib.Infra("JudgeGlob: %d rejected cases, %d explained", len(bad), len(got)))
		}
	})
	c.AddTraces(len(cases))
	c.Inc("v_cases_with_results", int64(nonEmpty))
	return first
}

const judgePar = 3

func replay(c *lib.Ctx) error {
	b, err := os.ReadFile(c.Replay)
	if err != nil {
		return lib.Infra("%v", err)
	}
	var f struct {
		Case VCase `json:"case"`
	}
	if err := json.Unmarshal(b, &f); err != nil {
		return lib.Infra("%v", err)
	}
	tmp, err := os.MkdirTemp("", "c23-")
	if err != nil {
		return lib.Infra("%v", err)
	}
	defer os.RemoveAll(tmp)
	tmp, _ = filepath.EvalSymlinks(tmp)
	vc := f.Case
	normTree(vc.Tree)
	vc.Pat.norm()
	if vc.UC == nil {
		vc.UC = ucTable(vc.Tree)
	}
	root := filepath.Join(tmp, "t")
	if err := materialise(root, vc.Tree, nil); err != nil {
		return lib.Infra("materialise: %v", err)
	}
	mode := map[string]string{"glob.Pattern.Glob": "glob", "elvish, absolute prefix": "abs"}[vc.Via]
	if mode == "" {
		mode = "rel"
	}
	pool := newPool(1)
	var rr runResult
	err = inDir(root, func() error {
		ev := <-pool
		var e error
		rr, e = execCase(ev, &vc, root, mode, 0, false)
		return e
	})
	if err != nil {
		return err
	}
	c.AddEvals(1)
	if rr.Panic != "" {
		report(c, vc, diff{Panic: rr.Panic}, root)
		return nil
	}
	return judge(c, []vjob{{vc, root}})
}
