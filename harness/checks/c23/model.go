package main

// Abstract forms shared with spec/Glob (JSON field names = TLA+ record fields), their
// concretisation (tree -> files under a temp dir, pattern -> Elvish wildcard expression /
// glob.Pattern) and the projection of what the real code produced (paths -> code point lists).

import (
	"errors"
	"fmt"
	"os"
	"path/filepath"
	"sort"
	"strings"
	"unicode"

	"src.elv.sh/pkg/eval"
	"src.elv.sh/pkg/glob"
	"verif.local/harness/elv"
	"verif.local/harness/lib"
)

type Matcher struct {
	M  string `json:"m"` // set | range | class
	Cs []int  `json:"cs"`
	Lo int    `json:"lo"`
	Hi int    `json:"hi"`
	C  string `json:"c"`
}

type Seg struct {
	T  string    `json:"t"` // lit | slash | q | star | ss
	Cs []int     `json:"cs"`
	Ms []Matcher `json:"ms"`
	H  bool      `json:"h"`
}

type Pat struct {
	Segs      []Seg   `json:"segs"`
	Nomatchok bool    `json:"nomatchok"`
	Buts      [][]int `json:"buts"`
	Type      string  `json:"type"`
}

type Ent struct {
	P []int  `json:"p"`
	K string `json:"k"` // file | dir | symfile | symdir
	T []int  `json:"t"`
}

type UCls struct {
	Ch  int      `json:"ch"`
	Cls []string `json:"cls"`
}

// VCase is one recorded expansion (also the replay format).
type VCase struct {
	Tree []Ent   `json:"tree"`
	Pat  Pat     `json:"pat"`
	UC   []UCls  `json:"uc"`
	Res  [][]int `json:"res"`
	Exc  bool    `json:"exc"`
	Via  string  `json:"via"`  // how the real code was driven
	Code string  `json:"code"` // the Elvish text, for humans
}

func runes(s string) []int {
	out := []int{}
	for _, r := range s {
		out = append(out, int(r))
	}
	return out
}

func str(cs []int) string {
	var sb strings.Builder
	for _, c := range cs {
		sb.WriteRune(rune(c))
	}
	return sb.String()
}

// norm makes every slice non-nil so that JSON never contains null (TLC records are strict).
func (p *Pat) norm() {
	if p.Buts == nil {
		p.Buts = [][]int{}
	}
	for i := range p.Segs {
		s := &p.Segs[i]
		if s.Cs == nil {
			s.Cs = []int{}
		}
		if s.Ms == nil {
			s.Ms = []Matcher{}
		}
		for j := range s.Ms {
			if s.Ms[j].Cs == nil {
				s.Ms[j].Cs = []int{}
			}
		}
	}
}

func normTree(t []Ent) {
	for i := range t {
		if t[i].T == nil {
			t[i].T = []int{}
		}
		if t[i].P == nil {
			t[i].P = []int{}
		}
	}
}

func isWild(s Seg) bool { return s.T == "q" || s.T == "star" || s.T == "ss" }

// ---- concretisation: pattern -> Elvish text

func renderMatcher(m Matcher, alt bool) string {
	switch m.M {
	case "set":
		return "[" + elv.Quote("set:"+str(m.Cs)) + "]"
	case "range":
		if alt { // a~b excludes b
			return "[" + elv.Quote("range:"+string(rune(m.Lo))+"~"+string(rune(m.Hi+1))) + "]"
		}
		return "[" + elv.Quote("range:"+string(rune(m.Lo))+"-"+string(rune(m.Hi))) + "]"
	default:
		return "[" + m.C + "]"
	}
}

// render gives the Elvish wildcard expression of p. prefix (absolute directory with trailing
// slash, or "") is put in front of the pattern and of every but: path. gpos selects the wildcard
// (counted from 0, modulo their number) that carries the global modifiers; alt varies spellings.
func render(p Pat, prefix string, gpos int, alt bool) string {
	var sb strings.Builder
	if prefix != "" {
		sb.WriteString(elv.Quote(prefix))
	}
	nw := 0
	for _, s := range p.Segs {
		if isWild(s) {
			nw++
		}
	}
	w := 0
	for _, s := range p.Segs {
		switch s.T {
		case "lit":
			sb.WriteString(elv.Quote(str(s.Cs)))
		case "slash":
			sb.WriteString("/")
		default:
			sb.WriteString(map[string]string{"q": "?", "star": "*", "ss": "**"}[s.T])
			if s.H && alt {
				sb.WriteString("[match-hidden]")
			}
			for _, m := range s.Ms {
				sb.WriteString(renderMatcher(m, alt))
			}
			if s.H && !alt {
				sb.WriteString("[match-hidden]")
			}
			if nw > 0 && w == gpos%nw {
				if p.Nomatchok {
					sb.WriteString("[nomatch-ok]")
				}
				for _, b := range p.Buts {
					sb.WriteString("[" + elv.Quote("but:"+prefix+str(b)) + "]")
				}
				if p.Type != "" {
					sb.WriteString("[type:" + p.Type + "]")
				}
			}
			w++
		}
	}
	return sb.String()
}

// toGlobPattern builds the pkg/glob pattern directly (only for patterns without matchers).
func toGlobPattern(p Pat) (glob.Pattern, bool) {
	var segs []glob.Segment
	for _, s := range p.Segs {
		switch s.T {
		case "lit":
			segs = append(segs, glob.Literal{Data: str(s.Cs)})
		case "slash":
			segs = append(segs, glob.Slash{})
		default:
			if len(s.Ms) > 0 {
				return glob.Pattern{}, false
			}
			t := map[string]glob.WildType{"q": glob.Question, "star": glob.Star, "ss": glob.StarStar}[s.T]
			segs = append(segs, glob.Wild{Type: t, MatchHidden: s.H})
		}
	}
	return glob.Pattern{Segments: segs}, true
}

// ---- concretisation: tree -> file system

// materialise creates the tree below root. dangling: symfile entries whose index is in the set
// point to a missing target instead of a file.
func materialise(root string, tree []Ent, dangling map[int]bool) error {
	ents := make([]int, len(tree))
	for i := range ents {
		ents[i] = i
	}
	// parents first
	sort.SliceStable(ents, func(a, b int) bool { return len(tree[ents[a]].P) < len(tree[ents[b]].P) })
	if err := os.MkdirAll(filepath.Join(root, ".."), 0o755); err != nil {
		return err
	}
	if err := os.Mkdir(root, 0o755); err != nil {
		return err
	}
	if err := os.WriteFile(root+".target", []byte("x"), 0o644); err != nil {
		return err
	}
	for _, i := range ents {
		e := tree[i]
		path := filepath.Join(root, filepath.FromSlash(str(e.P)))
		var err error
		switch e.K {
		case "dir":
			err = os.Mkdir(path, 0o755)
		case "file":
			err = os.WriteFile(path, nil, 0o644)
		case "symfile":
			if dangling[i] {
				err = os.Symlink(root+".missing", path)
			} else {
				err = os.Symlink(root+".target", path)
			}
		case "symdir":
			err = os.Symlink(filepath.Join(root, filepath.FromSlash(str(e.T))), path)
		default:
			err = fmt.Errorf("bad kind %q", e.K)
		}
		if err != nil {
			return err
		}
	}
	return nil
}

// ---- running the real code (cwd must be the tree root for relative forms)

type runResult struct {
	Res   [][]int
	Exc   bool
	Panic string
}

func strip(prefix string, vs []string) ([][]int, error) {
	out := [][]int{}
	for _, s := range vs {
		if !strings.HasPrefix(s, prefix) {
			return nil, fmt.Errorf("result %q lacks prefix %q", s, prefix)
		}
		out = append(out, runes(s[len(prefix):]))
	}
	return out, nil
}

// runElvish evaluates `put <code>` and projects the outcome.
func runElvish(ev *eval.Evaler, code, prefix string) (runResult, error) {
	o := elv.Run(ev, "put "+code)
	if o.Panic != "" {
		return runResult{Panic: o.Panic}, nil
	}
	if o.Err != nil {
		if r := elv.Reason(o.Err); r != nil && errors.Is(r, eval.ErrWildcardNoMatch) {
			return runResult{Res: [][]int{}, Exc: true}, nil
		}
		return runResult{}, lib.Infra("elvish %q failed with %s error: %v", code, elv.ErrClass(o.Err), o.Err)
	}
	var vs []string
	for _, v := range o.Values {
		s, ok := v.(string)
		if !ok {
			return runResult{}, lib.Infra("elvish %q produced a non-string %v", code, v)
		}
		vs = append(vs, s)
	}
	res, err := strip(prefix, vs)
	if err != nil {
		return runResult{}, lib.Infra("elvish %q: %v", code, err)
	}
	return runResult{Res: res}, nil
}

// runGlob drives pkg/glob directly; the global modifiers are applied the way the language
// reference words them only for nomatch-ok (no but:/type: on this anchor).
func runGlob(gp glob.Pattern) (res runResult) {
	defer func() {
		if r := recover(); r != nil {
			res = runResult{Panic: fmt.Sprint(r)}
		}
	}()
	out := [][]int{}
	gp.Glob(func(pi glob.PathInfo) bool {
		out = append(out, runes(pi.Path))
		return true
	})
	return runResult{Res: out}
}

// ---- Unicode class table for the non-ASCII characters of a case (primitive evaluated in Go)

var classFns = map[string]func(rune) bool{
	"digit": unicode.IsDigit, "letter": unicode.IsLetter, "lower": unicode.IsLower,
	"upper": unicode.IsUpper, "punct": unicode.IsPunct, "space": unicode.IsSpace,
}

func ucTable(tree []Ent) []UCls {
	seen := map[int]bool{}
	out := []UCls{}
	for _, e := range tree {
		for _, ch := range e.P {
			if ch < 128 || seen[ch] {
				continue
			}
			seen[ch] = true
			cls := []string{}
			for _, n := range []string{"digit", "letter", "lower", "upper", "punct", "space"} {
				if classFns[n](rune(ch)) {
					cls = append(cls, n)
				}
			}
			out = append(out, UCls{ch, cls})
		}
	}
	sort.Slice(out, func(a, b int) bool { return out[a].Ch < out[b].Ch })
	return out
}

// ---- structural keys of rejected cases

func compsOf(p Pat) [][]Seg {
	var out [][]Seg
	var cur []Seg
	for _, s := range p.Segs {
		if s.T == "slash" {
			out = append(out, cur)
			cur = nil
		} else {
			cur = append(cur, s)
		}
	}
	return append(out, cur)
}

// needsBacktracking: inside one component a star-like wildcard restricted by matchers is preceded
// by another star-like wildcard, so the earliest match of the earlier star may have to be
// reconsidered when the restricted one cannot consume what is left.
func needsBacktracking(p Pat) bool {
	for _, comp := range compsOf(p) {
		stars := 0
		for _, s := range comp {
			if s.T == "star" || s.T == "ss" {
				if stars > 0 && len(s.Ms) > 0 {
					return true
				}
				stars++
			}
		}
	}
	return false
}

func countSS(p Pat) int {
	n := 0
	for _, s := range p.Segs {
		if s.T == "ss" {
			n++
		}
	}
	return n
}

func setOf(ps [][]int) map[string]bool {
	m := map[string]bool{}
	for _, p := range ps {
		m[str(p)] = true
	}
	return m
}

func sortedKeys(m map[string]bool) []string {
	var out []string
	for k := range m {
		out = append(out, k)
	}
	sort.Strings(out)
	return out
}
