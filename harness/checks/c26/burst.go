package main

import (
	"fmt"
	"math/rand"
	"sync"

	"src.elv.sh/pkg/daemon"
	"src.elv.sh/pkg/daemon/daemondefs"
	"verif.local/harness/lib"
	"verif.local/harness/storex"
)

// Burst histories: the shape in which a value derived from the store OUTSIDE its write transaction
// (a cache, a counter, an index kept by the daemon) falls behind. Per round:
//
//	phase A  k goroutines (separate / shared / mixed connections) are released by one barrier and each
//	         fires AddCmd; as soon as its AddCmd returns the same goroutine asks NextCmdSeq;
//	phase B  after ALL of them have returned (second barrier; nothing is in flight) two goroutines read
//	         again: NextCmdSeq, and Cmd(n) / PrevCmd(n, "") for a number just handed out.
//
// Whatever the adds left behind is still there in phase B (no add repairs it), and every phase B
// request is invoked after every AddCmd of the round has responded, so the acceptor has no freedom left:
// a stale answer there is rejected whenever the daemon produced it. Whether the daemon produces it is
// up to the scheduler (several rounds per history, many histories, GOMAXPROCS sweep).
func recordBurst(c *lib.Ctx, rng *rand.Rand, sock string, keeper daemondefs.Client, tag string) (History, error) {
	k := 2 + rng.Intn(7) // 2..8 goroutines
	mode := []string{"separate", "shared", "mixed"}[rng.Intn(3)]
	h := History{Mode: "burst-" + mode, Clients: k, Procs: tag}
	tr := &tracer{}
	base, err := readBase(keeper)
	if err != nil {
		return h, err
	}
	tr.evs = append(tr.evs, base)

	clients := make([]daemondefs.Client, k)
	var owned []daemondefs.Client
	var shared daemondefs.Client
	for g := 0; g < k; g++ {
		if mode == "shared" || (mode == "mixed" && g%2 == 0) {
			if shared == nil {
				shared = daemon.NewClient(sock)
				if _, err := shared.Version(); err != nil {
					return h, realErr{"Version", err}
				}
				owned = append(owned, shared)
			}
			clients[g] = shared
		} else {
			clients[g] = daemon.NewClient(sock)
			if _, err := clients[g].Version(); err != nil { // connected before the barrier: the burst is simultaneous
				return h, realErr{"Version", err}
			}
			owned = append(owned, clients[g])
		}
	}
	defer func() {
		for _, cl := range owned {
			cl.Close()
		}
	}()
	rounds := 38 / (2*k + 2) // <= 38 concurrent requests per history, as for the random histories
	if rounds < 1 {
		rounds = 1
	}
	total := 0
	var firstErr error
	var emu sync.Mutex
	setErr := func(e error) {
		emu.Lock()
		if firstErr == nil {
			firstErr = e
		}
		emu.Unlock()
	}
	for r := 0; r < rounds && firstErr == nil; r++ {
		texts := make([][]int, k)
		for g := range texts {
			texts[g] = lTexts[rng.Intn(len(lTexts))]
		}
		seqs := make([]int, k)
		var wg sync.WaitGroup
		start := make(chan struct{})
		for g := 0; g < k; g++ {
			wg.Add(1)
			go func(g int) {
				defer wg.Done()
				<-start
				o := emptyOp()
				o.Op, o.T = "AddCmd", texts[g]
				n, err := tr.callN(g+1, clients[g], o)
				if err != nil {
					setErr(realErr{"AddCmd", err})
					return
				}
				seqs[g] = n
				q := emptyOp()
				q.Op = "NextCmdSeq"
				if _, err := tr.callN(g+1, clients[g], q); err != nil {
					setErr(realErr{"NextCmdSeq", err})
				}
			}(g)
		}
		close(start)
		wg.Wait()
		total += 2 * k
		if firstErr != nil {
			break
		}
		// phase B: nothing in flight; two goroutines read concurrently
		g1, g2 := rng.Intn(k), rng.Intn(k)
		for g2 == g1 {
			g2 = rng.Intn(k)
		}
		q1 := emptyOp()
		q1.Op = "NextCmdSeq"
		q2 := emptyOp()
		hi := 0
		for _, n := range seqs {
			if n > hi {
				hi = n
			}
		}
		switch rng.Intn(3) {
		case 0:
			q2.Op, q2.A = "Cmd", hi
		case 1:
			q2.Op, q2.A, q2.T = "PrevCmd", hi+1, []int{}
		default:
			q2.Op = "NextCmdSeq"
		}
		for _, p := range []struct {
			g int
			o storex.Op
		}{{g1, q1}, {g2, q2}} {
			wg.Add(1)
			go func(g int, o storex.Op) {
				defer wg.Done()
				if _, err := tr.callN(g+1, clients[g], o); err != nil {
					setErr(realErr{o.Op, err})
				}
			}(p.g, p.o)
		}
		wg.Wait()
		total += 2
	}
	if firstErr == nil {
		for _, o := range []storex.Op{{Op: "CmdsWithSeq", A: base.R.N + 1, B: -1}, {Op: "NextCmdSeq"}} {
			if _, err := tr.callN(1, keeper, o); err != nil && firstErr == nil {
				firstErr = realErr{o.Op, err}
			}
		}
		total += 2
	}
	h.Events = tr.evs
	if firstErr != nil {
		return h, firstErr
	}
	c.AddEvals(total)
	for _, e := range h.Events {
		if e.Ev == "res" {
			c.Distinct([]any{e.O, e.R})
		}
	}
	c.Inc("histories_burst_"+mode, 1)
	c.Inc("burst_rounds", int64(rounds))
	return h, nil
}

// callN is call returning the sequence number of the result.
func (t *tracer) callN(c int, cl daemondefs.Client, o storex.Op) (int, error) {
	if o.T == nil {
		o.T = []int{}
	}
	if o.Bl == nil {
		o.Bl = []int{}
	}
	i := t.inv(c, o)
	ev, err := storex.Exec(cl, o)
	if err != nil {
		return 0, err
	}
	t.res(c, i, o, ev.R)
	return ev.R.N, nil
}

// readBase reads the state sequentially (no request in flight) as the base event of a history.
func readBase(keeper daemondefs.Client) (Event, error) {
	base := Event{Ev: "base", O: emptyOp(), R: emptyRes()}
	cs, err := keeper.CmdsWithSeq(0, -1)
	if err != nil {
		return base, realErr{"CmdsWithSeq", err}
	}
	nx, err := keeper.NextCmdSeq()
	if err != nil {
		return base, realErr{"NextCmdSeq", err}
	}
	base.R.N = nx - 1
	for _, cmd := range cs {
		t, ok := storex.Untext(cmd.Text)
		if !ok {
			return base, realErr{"CmdsWithSeq", fmt.Errorf("returned a text that was never stored: %q", cmd.Text)}
		}
		base.R.List = append(base.R.List, storex.Entry{N: cmd.Seq, T: t})
	}
	return base, nil
}
