package main

import (
	"fmt"
	"time"

	"verif.local/harness/lib"
	"verif.local/harness/storex"
)

// hand-made histories: helpers
type hb struct {
	evs  []Event
	open map[int]int // client -> index of its pending inv
}

func newHB() *hb {
	return &hb{evs: []Event{{Ev: "base", O: emptyOp(), R: emptyRes()}}, open: map[int]int{}}
}

func op(name string, a, b int, t ...int) storex.Op {
	o := emptyOp()
	o.Op, o.A, o.B = name, a, b
	if t != nil {
		o.T = t
	}
	return o
}

func (h *hb) inv(c int, o storex.Op) *hb {
	h.open[c] = len(h.evs)
	h.evs = append(h.evs, Event{Ev: "inv", C: c, O: o, R: emptyRes()})
	return h
}

func (h *hb) res(c int, r storex.Res) *hb {
	i := h.open[c]
	h.evs = append(h.evs, Event{Ev: "res", C: c, O: h.evs[i].O, R: r})
	h.evs[i].Ri = len(h.evs)
	return h
}

func rn(n int) storex.Res { r := emptyRes(); r.N = n; return r }
func rt(t ...int) storex.Res {
	r := emptyRes()
	r.T = t
	return r
}
func rnone() storex.Res { r := emptyRes(); r.Ok = false; return r }
func rlist(es ...storex.Entry) storex.Res {
	r := emptyRes()
	r.List = append(r.List, es...)
	return r
}

// selfTest: the acceptor must accept concurrent linearizable histories and reject three
// non-linearizable ones. A failure is a defect of the machinery (exit 2).
func selfTest(c *lib.Ctx, dir string) error {
	a, b := []int{1}, []int{2}
	good1 := newHB().inv(1, op("AddCmd", 0, 0, a...)).inv(2, op("AddCmd", 0, 0, b...)).res(2, rn(1)).res(1, rn(2)).
		inv(1, op("CmdsWithSeq", 0, -1)).res(1, rlist(storex.Entry{N: 1, T: b}, storex.Entry{N: 2, T: a}))
	// a read overlapping an add may see it or not; a delete overlapping both reads
	good2 := newHB().inv(1, op("AddCmd", 0, 0, a...)).inv(2, op("Cmd", 1, 0)).inv(3, op("Cmd", 1, 0)).inv(4, op("DelCmd", 1, 0)).
		res(2, rnone()).res(3, rt(a...)).res(1, rn(1)).res(4, emptyRes()).
		inv(2, op("Cmd", 1, 0)).res(2, rnone()).inv(3, op("NextCmdSeq", 0, 0)).res(3, rn(2))
	bads := map[string]*hb{
		// the add completed before the read started, yet the read does not see it
		"lost add": newHB().inv(1, op("AddCmd", 0, 0, a...)).res(1, rn(1)).inv(2, op("CmdsWithSeq", 0, -1)).res(2, rlist()),
		// two overlapping adds are given the same number
		"duplicate seq": newHB().inv(1, op("AddCmd", 0, 0, a...)).inv(2, op("AddCmd", 0, 0, b...)).res(1, rn(1)).res(2, rn(1)),
		// the add completed, a later NextCmdSeq still answers the old number
		"stale read": newHB().inv(1, op("AddCmd", 0, 0, a...)).res(1, rn(1)).inv(2, op("NextCmdSeq", 0, 0)).res(2, rn(1)),
	}
	for name, h := range bads {
		// the two linearizable histories come first in the same trace: they must be matched completely
		// (high-water mark inside the third history), the non-linearizable one must not
		evs := append(History{Events: good1.evs}.Rebased(0, 1), History{Events: good2.evs}.Rebased(len(good1.evs), 2)...)
		goodLen := len(evs)
		evs = append(evs, History{Events: h.evs}.Rebased(goodLen, 3)...)
		v, err := lib.ValidateTrace(c, "TraceDaemonLin(selftest "+name+")", dir, "TraceDaemonLin", evs, 8*time.Minute)
		if err != nil {
			return err
		}
		if v.Accepted {
			return lib.Infra("self-test: the acceptor accepts the non-linearizable history %q", name)
		}
		if v.HighWater < goodLen+1 {
			return lib.Infra("self-test: the acceptor rejects a linearizable history (matched %d of %d events)", v.HighWater, goodLen)
		}
		if name == "duplicate seq" {
			dup := false
			for _, t := range v.Result.Tagged("DUP") {
				if s, ok := t[0].(lib.TLASet); ok && len(s) > 0 {
					dup = true
				}
			}
			if !dup {
				return lib.Infra("self-test: duplicate sequence numbers not diagnosed")
			}
		}
		c.Inc("selftest_rejected", 1)
	}
	c.Set("selftest", fmt.Sprintf("2 linearizable concurrent histories accepted, %d non-linearizable rejected (lost add, duplicate seq, stale read)", len(bads)))
	return nil
}
