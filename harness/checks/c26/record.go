package main

import (
	"fmt"
	"math/rand"
	"os"
	"os/exec"
	"path/filepath"
	"sync"
	"syscall"
	"time"

	"src.elv.sh/pkg/daemon"
	"src.elv.sh/pkg/daemon/daemondefs"
	"verif.local/harness/lib"
	"verif.local/harness/storex"
)

// Event is one line of a recorded history (uniform fields for TraceDaemonLin).
type Event struct {
	Ev string     `json:"ev"` // base | inv | res
	C  int        `json:"c"`
	O  storex.Op  `json:"o"`
	R  storex.Res `json:"r"`
	Ri int        `json:"ri"` // inv: 1-based line of the response within the history; Rebased adds the offset
	H  int        `json:"h"`  // number of the history within the trace file (set by Rebased)
}

// History is one recorded concurrent history on one store instance, starting with its base event.
type History struct {
	Mode    string  `json:"mode"`    // how clients were connected
	Clients int     `json:"clients"` // concurrent goroutines
	Procs   string  `json:"procs"`
	Events  []Event `json:"events"`
}

// Rebased returns the events with response line numbers shifted by off (position in a batch file).
func (h History) Rebased(off, num int) []Event {
	out := make([]Event, len(h.Events))
	for i, e := range h.Events {
		e.H = num
		if e.Ev == "inv" {
			e.Ri += off
		}
		out[i] = e
	}
	return out
}

func emptyOp() storex.Op   { return storex.Op{T: []int{}, Bl: []int{}} }
func emptyRes() storex.Res { return storex.Res{Ok: true, T: []int{}, List: []storex.Entry{}} }

// tracer: one mutex + the slice index as sequence number. No wall-clock time orders anything.
type tracer struct {
	mu  sync.Mutex
	evs []Event
}

func (t *tracer) inv(c int, o storex.Op) int {
	t.mu.Lock()
	defer t.mu.Unlock()
	t.evs = append(t.evs, Event{Ev: "inv", C: c, O: o, R: emptyRes()})
	return len(t.evs) - 1
}

func (t *tracer) res(c int, invIdx int, o storex.Op, r storex.Res) {
	t.mu.Lock()
	defer t.mu.Unlock()
	t.evs = append(t.evs, Event{Ev: "res", C: c, O: o, R: r})
	t.evs[invIdx].Ri = len(t.evs) // 1-based line of the response
}

// call performs one request through a client and logs it.
func (t *tracer) call(c int, cl daemondefs.Client, o storex.Op) error {
	if o.T == nil {
		o.T = []int{}
	}
	if o.Bl == nil {
		o.Bl = []int{}
	}
	i := t.inv(c, o)
	ev, err := storex.Exec(cl, o)
	if err != nil {
		return err
	}
	t.res(c, i, o, ev.R)
	return nil
}

// ---- daemon instances

type daemonInst struct {
	sock   string
	stop   func()
	keeper daemondefs.Client // connected for the daemon's whole life: the daemon exits when its last client leaves
}

const daemonEnv = "VERIF_C26_DAEMON"

// daemonChild is the separate-process daemon: the check binary re-executed with daemonEnv=sock\x00db.
func daemonChild() {
	var sock, db string
	v := os.Getenv(daemonEnv)
	for i := 0; i < len(v); i++ {
		if v[i] == '|' {
			sock, db = v[:i], v[i+1:]
		}
	}
	os.Exit(daemon.Serve(sock, db, daemon.ServeOpts{}))
}

func startDaemon(dir string, separate bool) (*daemonInst, error) {
	sock, db := filepath.Join(dir, "sock"), filepath.Join(dir, "db")
	if !separate {
		ready := make(chan struct{})
		sig := make(chan os.Signal)
		done := make(chan int, 1)
		go func() { done <- daemon.Serve(sock, db, daemon.ServeOpts{Ready: ready, Signals: sig}) }()
		select {
		case <-ready:
		case code := <-done:
			return nil, fmt.Errorf("daemon.Serve returned %d before being ready", code)
		case <-time.After(30 * time.Second):
			return nil, fmt.Errorf("daemon not ready after 30s")
		}
		stop := func() {
			close(sig)
			select {
			case <-done:
			case <-time.After(60 * time.Second):
			}
		}
		keeper := daemon.NewClient(sock)
		if _, err := keeper.Version(); err != nil {
			keeper.Close()
			stop()
			return nil, fmt.Errorf("daemon does not answer: %v", err)
		}
		return &daemonInst{sock, stop, keeper}, nil
	}
	cmd := exec.Command(os.Args[0])
	cmd.Env = append(os.Environ(), daemonEnv+"="+sock+"|"+db)
	cmd.SysProcAttr = &syscall.SysProcAttr{Setpgid: true}
	if err := cmd.Start(); err != nil {
		return nil, err
	}
	exited := make(chan struct{})
	go func() { cmd.Wait(); close(exited) }()
	// Readiness: the first client whose request succeeds STAYS connected as the keeper. (A probe client
	// that connects and leaves makes the daemon exit by design -- "all clients disconnected" -- which is
	// not an error of the system under test; earlier versions of this harness did exactly that.)
	deadline := time.Now().Add(120 * time.Second)
	var keeper daemondefs.Client
	for {
		if _, err := os.Stat(sock); err == nil { // connect only once the socket exists: no half-made connections
			cl := daemon.NewClient(sock)
			if _, err = cl.Version(); err == nil {
				keeper = cl
				break
			}
			cl.Close()
		}
		select {
		case <-exited:
			return nil, fmt.Errorf("daemon process exited before serving")
		default:
		}
		if time.Now().After(deadline) {
			cmd.Process.Kill()
			<-exited
			return nil, fmt.Errorf("daemon process not serving after 120s")
		}
		time.Sleep(5 * time.Millisecond)
	}
	return &daemonInst{sock: sock, keeper: keeper, stop: func() {
		cmd.Process.Signal(syscall.SIGTERM)
		select {
		case <-exited:
		case <-time.After(10 * time.Second):
			cmd.Process.Kill()
			<-exited
		}
	}}, nil
}

// ---- recording

var (
	lTexts    = [][]int{{1}, {1}, {1, 2}, {2}, {1, 1}, {3}, {5, 1}, {}}
	lPrefixes = [][]int{{}, {1}, {1, 2}, {2}}
)

// randomOp draws a request on the command history; hi estimates the largest sequence number that
// can exist while the history runs. Arguments are non-negative (negative ones are Unspecified).
func randomOp(r *rand.Rand, hi int) storex.Op {
	o := emptyOp()
	arg := func() int { return r.Intn(hi + 3) }
	switch x := r.Intn(100); {
	case x < 38:
		o.Op, o.T = "AddCmd", lTexts[r.Intn(len(lTexts))]
	case x < 48:
		o.Op, o.A = "DelCmd", arg()
	case x < 60:
		o.Op, o.A = "Cmd", arg()
	case x < 68:
		o.Op, o.A, o.B = "CmdsWithSeq", arg(), arg()
		if r.Intn(2) == 0 {
			o.A, o.B = 0, -1
		}
	case x < 78:
		o.Op, o.A, o.T = "NextCmd", arg(), lPrefixes[r.Intn(len(lPrefixes))]
	case x < 88:
		o.Op, o.A, o.T = "PrevCmd", arg(), lPrefixes[r.Intn(len(lPrefixes))]
	default:
		o.Op = "NextCmdSeq"
	}
	return o
}

// record runs n histories: several epochs per daemon instance (fresh socket + database); every
// epoch is one History whose base event is the state read sequentially before the clients start.
func record(c *lib.Ctx, scratch, tag string, seed int64, n int, separate, burst bool) ([]History, error) {
	rng := rand.New(rand.NewSource(seed))
	var out []History
	inst := 0
	for len(out) < n {
		inst++
		dir := filepath.Join(scratch, fmt.Sprintf("%s-%d", tag, inst))
		if err := os.MkdirAll(dir, 0o755); err != nil {
			return nil, lib.Infra("%v", err)
		}
		d, err := startDaemon(dir, separate)
		if err != nil {
			return nil, lib.Infra("start daemon: %v", err)
		}
		keeper := d.keeper // keeps the daemon alive between epochs; reads base/final state
		epochs := 1 + rng.Intn(5)
		for e := 0; e < epochs && len(out) < n; e++ {
			rec := recordEpoch
			if burst {
				rec = recordBurst
			}
			h, err := rec(c, rng, d.sock, keeper, tag)
			if err != nil {
				keeper.Close()
				d.stop()
				if re, ok := err.(realErr); ok {
					c.Reject("daemon-error:"+re.op, re.Error(), h)
					return out, nil
				}
				return nil, err
			}
			out = append(out, h)
		}
		keeper.Close()
		d.stop()
		os.RemoveAll(dir)
	}
	return out, nil
}

// realErr is an error returned by the real daemon/client for a request (a verdict, not machinery).
type realErr struct {
	op  string
	err error
}

func (e realErr) Error() string { return fmt.Sprintf("request %s failed: %v", e.op, e.err) }

func recordEpoch(c *lib.Ctx, rng *rand.Rand, sock string, keeper daemondefs.Client, tag string) (History, error) {
	k := 2 + rng.Intn(7) // 2..8 concurrent clients
	mode := []string{"separate", "shared", "mixed"}[rng.Intn(3)]
	h := History{Mode: mode, Clients: k, Procs: tag}
	tr := &tracer{}

	// base: the state as read sequentially (no request in flight)
	cs, err := keeper.CmdsWithSeq(0, -1)
	if err != nil {
		return h, realErr{"CmdsWithSeq", err}
	}
	nx, err := keeper.NextCmdSeq()
	if err != nil {
		return h, realErr{"NextCmdSeq", err}
	}
	base := Event{Ev: "base", O: emptyOp(), R: emptyRes()}
	base.R.N = nx - 1
	for _, cmd := range cs {
		t, ok := storex.Untext(cmd.Text)
		if !ok {
			return h, realErr{"CmdsWithSeq", fmt.Errorf("returned a text that was never stored: %q", cmd.Text)}
		}
		base.R.List = append(base.R.List, storex.Entry{N: cmd.Seq, T: t})
	}
	tr.evs = append(tr.evs, base)

	// clients: goroutine g uses clients[g]; shared ones have completed a first request already
	clients := make([]daemondefs.Client, k)
	var owned []daemondefs.Client
	var shared daemondefs.Client
	for g := 0; g < k; g++ {
		useShared := mode == "shared" || (mode == "mixed" && g%2 == 0)
		if useShared {
			if shared == nil {
				shared = daemon.NewClient(sock)
				if _, err := shared.Version(); err != nil {
					return h, realErr{"Version", err}
				}
				owned = append(owned, shared)
			}
			clients[g] = shared
		} else {
			clients[g] = daemon.NewClient(sock) // connects at its first request, concurrently with the others
			owned = append(owned, clients[g])
		}
	}
	total := 12 + rng.Intn(27) // <= 38 concurrent requests, + 2 final reads
	plans := make([][]storex.Op, k)
	resets := make([]map[int]bool, k) // goroutines owning their connection drop it before some requests (redial path)
	hi := base.R.N
	for i := 0; i < total; i++ {
		g := rng.Intn(k)
		o := randomOp(rng, hi+i/3)
		if clients[g] != shared && rng.Intn(10) == 0 {
			if resets[g] == nil {
				resets[g] = map[int]bool{}
			}
			resets[g][len(plans[g])] = true
		}
		plans[g] = append(plans[g], o)
	}
	var wg sync.WaitGroup
	errs := make([]error, k)
	start := make(chan struct{})
	for g := 0; g < k; g++ {
		wg.Add(1)
		go func(g int) {
			defer wg.Done()
			<-start
			for i, o := range plans[g] {
				if resets[g][i] {
					clients[g].ResetConn()
				}
				if err := tr.call(g+1, clients[g], o); err != nil {
					errs[g] = realErr{o.Op, err}
					return
				}
			}
		}(g)
	}
	close(start)
	wg.Wait()
	// quiescent: read the final state sequentially through the keeper (client 1 is idle now)
	var ferr error
	for _, o := range []storex.Op{{Op: "CmdsWithSeq", A: 0, B: -1}, {Op: "NextCmdSeq"}} {
		if err := tr.call(1, keeper, o); err != nil && ferr == nil {
			ferr = realErr{o.Op, err}
		}
	}
	for _, cl := range owned {
		cl.Close()
	}
	h.Events = tr.evs
	for _, e := range errs {
		if e != nil {
			return h, e
		}
	}
	if ferr != nil {
		return h, ferr
	}
	c.AddEvals(total + 2)
	for _, e := range h.Events {
		if e.Ev == "res" {
			c.Distinct([]any{e.O, e.R})
		}
	}
	c.Inc("histories_"+mode, 1)
	c.Inc(fmt.Sprintf("histories_clients_%d", k), 1)
	return h, nil
}
