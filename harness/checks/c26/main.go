// C26 — concurrent clients of the daemon see a linearizable history.
// M: MCDaemonLin: every interleaving of Invoke/Linearize/Respond of 2-3 clients x 2 requests
//
//	(NoDupSeq, NoLostAdd, SeqGrows, FinalAgrees).
//
// V: a real daemon (daemon.Serve on a temporary socket + database, in-process; thorough: also in a
//
//	separate process) is driven by 2..8 concurrent clients (separate connections, and one client
//	shared by several goroutines after its first successful request); every request is logged
//	Invoke/Respond through one mutex+sequence tracer; after each history the clients quiesce and the
//	whole state is read back sequentially.  TraceDaemonLin (TLC, depth-first, high-water mark)
//	accepts a history iff it can place the linearization points.
//
// Self-test in every run: the acceptor must reject three hand-made non-linearizable histories
//
//	(lost add, duplicate sequence number, stale read) and accept two hand-made concurrent ones.
package main

import (
	"encoding/json"
	"fmt"
	"os"
	"runtime"
	"sync"
	"time"

	"verif.local/harness/histx"
	"verif.local/harness/lib"
	"verif.local/harness/storex"
)

func main() {
	if os.Getenv(daemonEnv) != "" {
		daemonChild()
		return
	}
	lib.Main("C26", run)
}

func run(c *lib.Ctx) error {
	dir, root, err := histx.SpecDir(c, "DaemonLin", "HistStore/HistStore.tla")
	if err != nil {
		return lib.Infra("%v", err)
	}
	defer os.RemoveAll(root)
	scratch, err := storex.ScratchDir()
	if err != nil {
		return lib.Infra("%v", err)
	}
	defer os.RemoveAll(scratch)
	if c.Replay != "" {
		return replay(c, dir)
	}
	c.Set("rule", "one case per recorded request (operation, arguments, result) of a concurrent history; distinct by that triple; requests of histories with a single active client are not counted")

	var wg sync.WaitGroup
	var mu sync.Mutex
	var firstErr error
	fail := func(err error) {
		mu.Lock()
		if firstErr == nil {
			firstErr = err
		}
		mu.Unlock()
	}

	// ---- M
	wg.Add(1)
	go func() {
		defer wg.Done()
		ms := []string{"CONSTANTS Clients = {1, 2} MaxOps = 2 Pool <- PoolTiny\n"}
		if c.Thorough() {
			ms = []string{"CONSTANTS Clients = {1, 2} MaxOps = 2 Pool <- PoolAll\n", "CONSTANTS Clients = {1, 2, 3} MaxOps = 1 Pool <- PoolAll\n", "CONSTANTS Clients = {1, 2} MaxOps = 3 Pool <- PoolTiny\n"}
		}
		for _, m := range ms {
			r, err := c.TLC("MCDaemonLin "+m[10:len(m)-1], lib.TLCRun{Dir: dir, Module: "MCDaemonLin", Workers: c.Pick(1, 2), Timeout: 12 * time.Minute, HeapGB: 6,
				Files: map[string][]byte{"MCDaemonLin.cfg": []byte(m + "SPECIFICATION Spec\nINVARIANT NoDupSeq\nINVARIANT NoLostAdd\nINVARIANT SeqGrows\nINVARIANT StoreOK\nINVARIANT FinalAgrees\n")}})
			if err != nil {
				fail(err)
				return
			}
			if r.ErrKind != "" {
				fail(lib.Infra("the linearizable-object model violates its own property %s %s:\n%s", r.ErrKind, r.ErrName, r.ErrTrace))
				return
			}
			c.Logf("M %s: %d distinct states, %d transitions", m[10:len(m)-1], r.Distinct, r.Generated)
		}
	}()

	// ---- self-test of the acceptor (vacuity guard)
	wg.Add(1)
	go func() {
		defer wg.Done()
		if err := selfTest(c, dir); err != nil {
			fail(err)
		}
	}()

	// ---- V: record
	nHist := c.Pick(200, 1600)
	procs := []int{1, 2, 4, 8}
	var hists []History
	t0 := time.Now()
	for pi, p := range procs {
		old := runtime.GOMAXPROCS(p)
		n := nHist / len(procs)
		hs, err := record(c, scratch, fmt.Sprintf("p%d", p), c.Seed*1_000_003+int64(pi)*7919, n, false, false)
		runtime.GOMAXPROCS(old)
		if err != nil {
			wg.Wait()
			return err
		}
		hists = append(hists, hs...)
	}
	// burst histories (simultaneous AddCmd, then reads with nothing in flight), GOMAXPROCS 2..16
	nBurst := c.Pick(400, 2000)
	bprocs := []int{2, 3, 4, 8, 16}
	var bursts []History
	for pi, p := range bprocs {
		old := runtime.GOMAXPROCS(p)
		hs, err := record(c, scratch, fmt.Sprintf("b%d", p), c.Seed*2_000_003+int64(pi)*104729, nBurst/len(bprocs), false, true)
		runtime.GOMAXPROCS(old)
		if err != nil {
			wg.Wait()
			return err
		}
		bursts = append(bursts, hs...)
	}
	c.Set("burst_histories", len(bursts))
	c.Set("burst_gomaxprocs_sweep", bprocs)
	if c.Thorough() {
		hs, err := record(c, scratch, "proc", c.Seed*1_000_003+999_983, 200, true, false)
		if err != nil {
			wg.Wait()
			return err
		}
		hists = append(hists, hs...)
	}
	c.Logf("recorded %d histories in %.1fs", len(hists), time.Since(t0).Seconds())
	c.Set("gomaxprocs_sweep", procs)
	c.Set("histories", len(hists))
	if len(hists) > 0 {
		c.Sample(hists[0].Events[:min(10, len(hists[0].Events))])
	}

	if d := os.Getenv("VERIF_C26_DUMP"); d != "" { // development aid: write the recorded histories
		for i, h := range append(hists, bursts...) {
			os.WriteFile(fmt.Sprintf("%s/h%03d.ndjson", d, i), lib.NDJSON(h.Rebased(0, 1)), 0o644)
		}
		return lib.Infra("histories dumped to %s", d)
	}
	// ---- V: judge, in batches of histories per TLC run
	// both families at once, two acceptor processes each (M and the self-test are done by now or nearly so)
	var jerr [2]error
	var jwg sync.WaitGroup
	jwg.Add(2)
	go func() { defer jwg.Done(); jerr[0] = judgeAll(c, dir, hists, c.Pick(50, 60)) }()
	go func() { defer jwg.Done(); jerr[1] = judgeAll(c, dir, bursts, 100) }()
	jwg.Wait()
	for _, err := range jerr {
		if err != nil {
			wg.Wait()
			return err
		}
	}
	wg.Wait()
	if firstErr != nil {
		return firstErr
	}
	c.Assume("TLC trusted; the tracer orders events by one mutex-protected counter (invocation logged before the call, response after it returned), so recorded real-time order is a sub-order of the true one and linearizability of the recorded history is necessary for linearizability of the real one; the daemon runs in-process over a database on tmpfs (fsync is a no-op there; durability is C25); clients never pass negative sequence numbers; connections are not cut while requests are in flight (retry after rpc.ErrShutdown not exercised)")
	return nil
}

// judgeAll validates the histories in batches; a rejected history is reported and the rest of its
// batch is validated again without it.
func judgeAll(c *lib.Ctx, dir string, hists []History, per int) error {
	type batch struct{ hs []History }
	var batches []batch
	for i := 0; i < len(hists); i += per {
		batches = append(batches, batch{hists[i:min(i+per, len(hists))]})
	}
	var mu sync.Mutex
	var firstErr error
	lib.Parallel(len(batches), 2, func(bi int) {
		hs := batches[bi].hs
		for len(hs) > 0 {
			// each rejected history costs two searches over a history that has NO linearization (the
			// expensive case); 12 reported violations decide the run, the rest is left unjudged
			if c.Violations() >= 12 {
				c.Inc("histories_not_judged_after_12_violations", int64(len(hs)))
				return
			}
			bad, err := validate(c, dir, fmt.Sprintf("TraceDaemonLin(V %d)", bi), hs)
			if err != nil {
				mu.Lock()
				if firstErr == nil {
					firstErr = err
				}
				mu.Unlock()
				return
			}
			if bad < 0 {
				c.AddTraces(len(hs))
				return
			}
			c.AddTraces(bad + 1)
			h := hs[bad]
			key, what := classify(c, dir, h)
			c.Reject(key, what, h)
			hs = hs[bad+1:]
		}
	})
	return firstErr
}

// validate runs the acceptor over the concatenation of the histories. It returns -1 when all are
// accepted, else the index of the first rejected history.
func validate(c *lib.Ctx, dir, name string, hs []History) (int, error) {
	var evs []Event
	var starts []int
	for i, h := range hs {
		starts = append(starts, len(evs))
		evs = append(evs, h.Rebased(len(evs), i+1)...)
	}
	v, err := lib.ValidateTrace(c, name, dir, "TraceDaemonLin", evs, 14*time.Minute)
	if err != nil {
		return 0, err
	}
	if v.Accepted {
		return -1, nil
	}
	if v.InvName != "" {
		return 0, lib.Infra("acceptor reported invariant %s (model state broken by a base event?)", v.InvName)
	}
	// the first unmatched line is HighWater+1 (1-based) = index HighWater
	bad := 0
	for i, s := range starts {
		if s <= v.HighWater {
			bad = i
		}
	}
	return bad, nil
}

// classify re-validates one rejected history alone to obtain the diagnostics (DUP) and the
// longest accepted prefix for the report.
func classify(c *lib.Ctx, dir string, h History) (key, what string) {
	evs := h.Rebased(0, 1)
	v, err := lib.ValidateTrace(c, "TraceDaemonLin(classify)", dir, "TraceDaemonLin", evs, 10*time.Minute)
	if err != nil || v.Accepted {
		return "lin:not-linearizable", fmt.Sprintf("history rejected in its batch (alone: accepted=%v err=%v)", v != nil && v.Accepted, err)
	}
	key = "lin:not-linearizable"
	for _, t := range v.Result.Tagged("DUP") {
		if s, ok := t[0].(lib.TLASet); ok && len(s) > 0 {
			key = "lin:dup-seq"
		}
	}
	first := Event{}
	if v.HighWater < len(evs) {
		first = evs[v.HighWater]
	}
	b, _ := json.Marshal(first)
	return key, fmt.Sprintf("no linearization: %d of %d events matched; first event that cannot be matched: %s", v.HighWater, len(evs), b)
}

func replay(c *lib.Ctx, dir string) error {
	b, err := os.ReadFile(c.Replay)
	if err != nil {
		return lib.Infra("%v", err)
	}
	var f struct {
		Case History `json:"case"`
	}
	if err := json.Unmarshal(b, &f); err != nil {
		return lib.Infra("%v", err)
	}
	// a recorded concurrent history cannot be re-executed deterministically: the stored history is judged again
	bad, err := validate(c, dir, "TraceDaemonLin(replay)", []History{f.Case})
	if err != nil {
		return err
	}
	if bad >= 0 {
		key, what := classify(c, dir, f.Case)
		c.Reject(key, what, f.Case)
	}
	return nil
}
