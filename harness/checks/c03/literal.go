package main

import "verif.local/harness/lib"

type litCase struct {
	T []int `json:"t"`
}

func literals(c *lib.Ctx) error                     { return nil }
func replayLiteral(c *lib.Ctx, lc litCase) error { return nil }
