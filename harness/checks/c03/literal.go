package main

import (
	"encoding/json"
	"fmt"
	"sync"
	"time"
	"unicode"

	"src.elv.sh/pkg/eval"
	"verif.local/harness/elv"
	"verif.local/harness/lib"
)

// litCase is a case printed by MCLiteral: a text, a context and what the reference prescribes.
type litCase struct {
	T   []int  `json:"t"`
	Ctx string `json:"ctx"`
	Ok  bool   `json:"ok"`  // the text is one literal word denoting V
	V   []int  `json:"v"`   //
	U   bool   `json:"u"`   // the reference leaves it open
	Evu bool   `json:"evu"` // resolution of the denoted name is outside the property
}

type family struct {
	id, quick, thorough int // MaxTok per tier
}

var families = []family{{1, 3, 4}, {2, 3, 5}, {3, 2, 3}, {4, 3, 5}}

// replayLit gives the text to the real parser and Evaler and compares with the prescription.
// It returns "" when they agree.
func replayLit(ev *eval.Evaler, lc litCase) string {
	if lc.U {
		return ""
	}
	t := bytesOf(lc.T)
	code, from, to := program(lc.Ctx, t)
	perr, single, val := project(lc.Ctx, code, from, to)
	if !lc.Ok {
		if !perr && single {
			return fmt.Sprintf("the reference says %q is not one literal word in context %s; the real parser accepts it as one with value %q", t, lc.Ctx, val)
		}
		return ""
	}
	want := bytesOf(lc.V)
	if perr || !single || val != want {
		return fmt.Sprintf("the reference says %q denotes %q in context %s; real parser: error=%v single=%v value=%q", t, want, lc.Ctx, perr, single, val)
	}
	if lc.Evu {
		return ""
	}
	o := observe(ev, want, t, lc.Ctx)
	if o.Evc != "" || len(o.Ev) != 1 || bytesOf(o.Ev[0]) != want {
		return fmt.Sprintf("the reference says %q denotes %q in context %s; real Evaler: %s %q", t, want, lc.Ctx, o.Evc, evStrings(o.Ev))
	}
	return ""
}

func litKey(lc litCase) string {
	return fmt.Sprintf("literal:%s:%q", lc.Ctx, bytesOf(lc.T))
}

// literals runs MCLiteral for every family and replays every printed case on the real code.
func literals(c *lib.Ctx) error {
	// the model's printability table must be the real one for the code points of its tokens
	if !unicode.IsPrint(0xe9) || unicode.IsPrint(0x85) {
		return lib.Infra("MCLiteral's printability table disagrees with unicode.IsPrint")
	}
	type result struct {
		cases []litCase
		err   error
	}
	res := make([]result, len(families))
	lib.Parallel(len(families), 4, func(i int) {
		f := families[i]
		n := c.Pick(f.quick, f.thorough)
		cfg := fmt.Sprintf("CONSTANT Family = %d\nCONSTANT MaxTok = %d\nINIT Init\nNEXT Next\nINVARIANT Sane\nINVARIANT Emit\n", f.id, n)
		r, err := c.TLC(fmt.Sprintf("MCLiteral/family%d", f.id), lib.TLCRun{Dir: c.SpecDir("StringLit"), Module: "MCLiteral",
			Workers: 2, Timeout: 45 * time.Minute, Files: map[string][]byte{"MCLiteral.cfg": []byte(cfg)}})
		if err != nil {
			res[i].err = err
			return
		}
		if r.ErrKind != "" {
			res[i].err = lib.Infra("MCLiteral family %d: the reference is inconsistent in the model itself: %s\n%s", f.id, r.Err, r.ErrTrace)
			return
		}
		seen := map[string]bool{}
		states := map[string]bool{}
		for _, s := range r.PrintedStrings() {
			var lc litCase
			if err := json.Unmarshal([]byte(s), &lc); err != nil {
				res[i].err = lib.Infra("bad case from TLC: %v: %s", err, s)
				return
			}
			k := lc.Ctx + "|" + bytesOf(lc.T)
			if !seen[k] {
				seen[k] = true
				res[i].cases = append(res[i].cases, lc)
			}
			states[bytesOf(lc.T)] = true
		}
		// every state prints its own text: at least r.Distinct different texts must have arrived
		if int64(len(states)) < r.Distinct {
			res[i].err = lib.Infra("MCLiteral family %d: TLC found %d texts, %d arrived", f.id, r.Distinct, len(states))
		}
	})
	var all []litCase
	bounds := map[string]any{}
	for i, r := range res {
		if r.err != nil {
			return r.err
		}
		bounds[fmt.Sprintf("family%d", families[i].id)] = map[string]any{"max_tokens": c.Pick(families[i].quick, families[i].thorough), "cases": len(r.cases)}
		all = append(all, r.cases...)
	}
	c.Set("literal_bounds", bounds)
	c.Logf("G: %d literal cases", len(all))
	msgs := make([]string, len(all))
	const workers = 8
	var wg sync.WaitGroup
	for w := 0; w < workers; w++ {
		wg.Add(1)
		go func(w int) {
			defer wg.Done()
			ev := elv.New()
			for i := w; i < len(all); i += workers {
				msgs[i] = replayLit(ev, all[i])
			}
		}(w)
	}
	wg.Wait()
	var nU, nOk, nBad int64
	for i, lc := range all {
		switch {
		case lc.U:
			nU++
		case lc.Ok:
			nOk++
			c.Distinct([]any{"lit", lc.Ctx, lc.T})
		default:
			nBad++
			c.Distinct([]any{"lit", lc.Ctx, lc.T})
		}
		if msgs[i] != "" {
			c.Reject(litKey(lc), msgs[i], lc)
		}
	}
	c.AddEvals(len(all))
	c.AddTraces(len(all))
	c.Set("literal_cases", map[string]any{"denoting": nOk, "not_a_literal": nBad, "unspecified_skipped": nU})
	if len(all) > 0 {
		c.Sample(all[len(all)/3])
	}
	return nil
}

func replayLiteral(c *lib.Ctx, lc litCase) error {
	c.AddEvals(1)
	if msg := replayLit(elv.New(), lc); msg != "" {
		c.Reject(litKey(lc), msg, lc)
	}
	return nil
}
