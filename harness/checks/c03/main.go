// C03 — quoted strings evaluate back to the exact original string.
//
// M: MCStringLit — the design theorem Denote(ctx, QuoteModel(s)) = s of spec/StringLit on every byte
//
//	string up to a bound over four byte alphabets.
//
// V: the executor enumerates the same strings (with seeded representatives) plus seeded random long
//
//	strings and directed names, quotes them with the REAL parse.Quote / QuoteAs / QuoteCommandName /
//	QuoteVariableName, parses and evaluates the text with the real parser and Evaler in the four
//	contexts, records what happened, and the TLA+ module JudgeQuote decides every record.
//
// G: MCLiteral — TLC enumerates literal texts with the denotation the reference prescribes; the real
//
//	parser and Evaler must agree (see literal.go).
//
// The Go side contains no oracle: it concretises, runs the real code, projects and records.
package main

import (
	"encoding/json"
	"fmt"
	"os"
	"strings"
	"sync"
	"time"
	"unicode"
	"unicode/utf8"

	"src.elv.sh/pkg/eval"
	"src.elv.sh/pkg/eval/vars"
	"src.elv.sh/pkg/parse"
	"verif.local/harness/elv"
	"verif.local/harness/lib"
)

func main() { lib.Main("C03", run) }

// rec is one recorded case (see spec/StringLit/JudgeQuote.tla for the meaning of the fields).
type rec struct {
	S       []int `json:"s"`
	Q       []int `json:"q"`
	By      []by  `json:"by"`
	Pr      []int `json:"pr"`
	Special bool  `json:"special"`
	Obs     []obs `json:"obs"`
}

type by struct {
	API  string `json:"api"`
	Pref string `json:"pref"`
	Kind string `json:"kind"`
}

type obs struct {
	Ctx    string  `json:"ctx"`
	Perr   bool    `json:"perr"`
	Single bool    `json:"single"`
	Val    []int   `json:"val"`
	Evc    string  `json:"evc"`
	Ev     [][]int `json:"ev"`
}

// what is replayed: the string
type replayCase struct {
	S []int `json:"s"`
}

var prefType = map[string]parse.PrimaryType{"bare": parse.Bareword, "single": parse.SingleQuoted, "double": parse.DoubleQuoted}
var typeName = map[parse.PrimaryType]string{parse.Bareword: "bare", parse.SingleQuoted: "single", parse.DoubleQuoted: "double"}

type api struct {
	name, pref string
	ctxs       []string // the contexts the function's result is meant for
}

var apis = []api{
	{"Quote", "bare", []string{"arg", "key"}},
	{"QuoteAs", "bare", []string{"arg", "key"}},
	{"QuoteAs", "single", []string{"arg", "key"}},
	{"QuoteAs", "double", []string{"arg", "key"}},
	{"QuoteCommandName", "bare", []string{"cmd"}},
	{"QuoteVariableName", "bare", []string{"var"}},
}

func bytesOf(b []int) string {
	var sb strings.Builder
	for _, x := range b {
		sb.WriteByte(byte(x))
	}
	return sb.String()
}

// printables lists the non-ASCII code points in the texts that unicode.IsPrint accepts.
func printables(texts ...string) []int {
	seen := map[rune]bool{}
	out := []int{}
	for _, t := range texts {
		for t != "" {
			r, w := utf8.DecodeRuneInString(t)
			if r >= 0x80 && !(r == utf8.RuneError && w == 1) && unicode.IsPrint(r) && !seen[r] {
				seen[r] = true
				out = append(out, int(r))
			}
			t = t[w:]
		}
	}
	return out
}

func quoteReal(api, pref, s string) (q, kind string) {
	switch api {
	case "Quote":
		return parse.Quote(s), ""
	case "QuoteAs":
		q, t := parse.QuoteAs(s, prefType[pref])
		k, ok := typeName[t]
		if !ok {
			k = fmt.Sprintf("type%d", int(t))
		}
		return q, k
	case "QuoteCommandName":
		return parse.QuoteCommandName(s), ""
	case "QuoteVariableName":
		return parse.QuoteVariableName(s), ""
	}
	panic("unknown api " + api)
}

// program builds the program in which the text is used, and the byte range the word must occupy.
func program(ctx, q string) (code string, from, to int) {
	switch ctx {
	case "arg":
		return "put " + q, 4, 4 + len(q)
	case "key":
		return "keys [&" + q + "=v]", 7, 7 + len(q)
	case "cmd":
		return q, 0, len(q)
	case "var":
		return "put $" + q, 4, 5 + len(q)
	}
	panic("unknown ctx " + ctx)
}

func isLiteral(cn *parse.Compound, want ...parse.PrimaryType) (*parse.Primary, bool) {
	if cn == nil || len(cn.Indexings) != 1 || len(cn.Indexings[0].Indices) != 0 || cn.Indexings[0].Head == nil {
		return nil, false
	}
	p := cn.Indexings[0].Head
	for _, t := range want {
		if p.Type == t {
			return p, p.Range() == cn.Range()
		}
	}
	return nil, false
}

var strTypes = []parse.PrimaryType{parse.Bareword, parse.SingleQuoted, parse.DoubleQuoted}

// project parses the program with the real parser and finds the word in its slot.
func project(ctx, code string, from, to int) (perr, single bool, val string) {
	tree, err := parse.Parse(parse.Source{Name: "[c03]", Code: code}, parse.Config{})
	perr = err != nil
	root := tree.Root
	if root == nil || len(root.Pipelines) != 1 || len(root.Pipelines[0].Forms) != 1 || root.Pipelines[0].Background ||
		root.Range().From != 0 || root.Range().To != len(code) {
		return perr, false, ""
	}
	f := root.Pipelines[0].Forms[0]
	if f.Range().From != 0 || f.Range().To != len(code) || len(f.Redirs) != 0 || len(f.Opts) != 0 || f.Head == nil {
		return perr, false, ""
	}
	head := func(name string) bool { return parse.SourceText(f.Head) == name && len(f.Args) == 1 }
	switch ctx {
	case "arg":
		if !head("put") || f.Args[0].Range().From != from || f.Args[0].Range().To != to {
			return perr, false, ""
		}
		if p, ok := isLiteral(f.Args[0], strTypes...); ok {
			return perr, true, p.Value
		}
	case "var":
		if !head("put") || f.Args[0].Range().From != from || f.Args[0].Range().To != to {
			return perr, false, ""
		}
		if p, ok := isLiteral(f.Args[0], parse.Variable); ok {
			return perr, true, p.Value
		}
	case "cmd":
		if len(f.Args) != 0 || f.Head.Range().From != from || f.Head.Range().To != to {
			return perr, false, ""
		}
		if p, ok := isLiteral(f.Head, strTypes...); ok {
			return perr, true, p.Value
		}
	case "key":
		if !head("keys") {
			return perr, false, ""
		}
		m, ok := isLiteral(f.Args[0], parse.Map)
		if !ok || len(m.MapPairs) != 1 || len(m.Elements) != 0 {
			return perr, false, ""
		}
		mp := m.MapPairs[0]
		if mp.Key == nil || mp.Value == nil || mp.Key.Range().From != from || mp.Key.Range().To != to ||
			parse.SourceText(mp.Value) != "v" || mp.Value.Range().From != to+1 {
			return perr, false, ""
		}
		if p, ok := isLiteral(mp.Key, strTypes...); ok {
			return perr, true, p.Value
		}
	}
	return perr, false, ""
}

// runCode evaluates code with the real Evaler; global (may be nil) replaces the global namespace.
func runCode(ev *eval.Evaler, code string, global *eval.Ns) (class string, values [][]int) {
	port, collect, err := eval.CapturePort()
	if err != nil {
		return "infra:" + err.Error(), nil
	}
	var evalErr error
	pan := ""
	func() {
		defer func() {
			if p := recover(); p != nil {
				pan = fmt.Sprint(p)
			}
		}()
		evalErr = ev.Eval(parse.Source{Name: "[c03]", Code: code},
			eval.EvalCfg{Ports: []*eval.Port{nil, port, nil}, Global: global})
	}()
	vs, _ := collect()
	values = [][]int{}
	for _, v := range vs {
		if s, ok := v.(string); ok {
			values = append(values, elv.Bytes(s))
		} else {
			values = append(values, []int{-1})
		}
	}
	if pan != "" {
		return "panic", values
	}
	return elv.ErrClass(evalErr), values
}

func announce(name string) func(fm *eval.Frame) error {
	return func(fm *eval.Frame) error { return fm.ValueOutput().Put(name) }
}

// observe runs one (string, text, context) on the real code.
func observe(ev *eval.Evaler, s, q, ctx string) obs {
	code, from, to := program(ctx, q)
	o := obs{Ctx: ctx}
	var val string
	o.Perr, o.Single, val = project(ctx, code, from, to)
	o.Val = elv.Bytes(val)
	var global *eval.Ns
	switch ctx {
	case "cmd":
		// the function registered under the name s, and decoys under the quoted text and a neighbour
		nb := eval.BuildNs().AddGoFn(s, announce(s))
		for _, d := range []string{q, s + "x"} {
			if d != s {
				nb = nb.AddGoFn(d, announce(d))
			}
		}
		global = nb.Ns()
	case "var":
		nb := eval.BuildNs().AddVar(s, vars.NewReadOnly(s))
		for _, d := range []string{q, s + "x"} {
			if d != s {
				nb = nb.AddVar(d, vars.NewReadOnly(d))
			}
		}
		global = nb.Ns()
	}
	o.Evc, o.Ev = runCode(ev, code, global)
	return o
}

// observeString quotes s with every real quoting function and observes every distinct text in the
// contexts of the functions that produced it.
func observeString(ev *eval.Evaler, s string) []rec {
	var out []rec
	idx := map[string]int{}
	for _, a := range apis {
		q, kind := quoteReal(a.name, a.pref, s)
		i, ok := idx[q]
		if !ok {
			i = len(out)
			idx[q] = i
			out = append(out, rec{S: elv.Bytes(s), Q: elv.Bytes(q), Pr: printables(s, q), Special: eval.IsBuiltinSpecial[s]})
		}
		r := &out[i]
		r.By = append(r.By, by{a.name, a.pref, kind})
	next:
		for _, ctx := range a.ctxs {
			for _, o := range r.Obs {
				if o.Ctx == ctx {
					continue next
				}
			}
			r.Obs = append(r.Obs, observe(ev, s, q, ctx))
		}
	}
	return out
}

func classSig(s string) string {
	var parts []string
	add := func(p string) {
		if len(parts) == 0 || parts[len(parts)-1] != p {
			parts = append(parts, p)
		}
	}
	for s != "" {
		r, w := utf8.DecodeRuneInString(s)
		switch {
		case r == utf8.RuneError && w == 1:
			add("badutf8")
		case r == utf8.RuneError:
			add("U+FFFD")
		case r >= 0x80 && unicode.IsPrint(r):
			add("uni")
		case r >= 0x80:
			add("uni-unprintable")
		case r < 0x20 || r == 0x7f:
			add("ctrl")
		case r >= '0' && r <= '9' || r >= 'a' && r <= 'z' || r >= 'A' && r <= 'Z':
			add("alnum")
		default:
			add(string(r))
		}
		s = s[w:]
	}
	if len(parts) > 6 {
		parts = append(parts[:6], "...")
	}
	return strings.Join(parts, " ")
}

// judge sends records to the TLA+ judge in batches and turns rejections into findings.
func judge(c *lib.Ctx, name string, recs []rec) error {
	const batch = 48000
	for lo := 0; lo < len(recs); lo += batch {
		hi := lo + batch
		if hi > len(recs) {
			hi = len(recs)
		}
		bad, err := lib.Judge(c, name, c.SpecDir("StringLit"), "JudgeQuote", recs[lo:hi], c.Pick(4, 8), 45*time.Minute)
		if err != nil {
			return err
		}
		c.AddTraces(hi - lo)
		for _, b := range bad {
			r := recs[lo+b.Index]
			why, ctx := "?", ""
			if len(b.Info) > 1 {
				why, ctx = fmt.Sprint(b.Info[0]), fmt.Sprint(b.Info[1])
			}
			s, q := bytesOf(r.S), bytesOf(r.Q)
			var names []string
			for _, y := range r.By {
				names = append(names, y.API+"("+y.Pref+")")
			}
			detail := ""
			for _, o := range r.Obs {
				if o.Ctx == ctx {
					detail = fmt.Sprintf("perr=%v single=%v val=%q eval=%s %q", o.Perr, o.Single, bytesOf(o.Val), o.Evc, evStrings(o.Ev))
				}
			}
			key := fmt.Sprintf("%s:%s:%s:%s", why, strings.Join(names, "+"), ctx, classSig(s))
			c.Reject(key, fmt.Sprintf("%q quoted as %q by %s, used as %s: rejected at %s: %s",
				s, q, strings.Join(names, ","), ctx, why, detail), replayCase{r.S})
		}
	}
	return nil
}

func evStrings(ev [][]int) []string {
	out := []string{}
	for _, e := range ev {
		out = append(out, bytesOf(e))
	}
	return out
}

// observeAll observes every string in parallel (one Evaler per worker).
func observeAll(c *lib.Ctx, strs []string) []rec {
	per := make([][]rec, len(strs))
	const workers = 8
	var wg sync.WaitGroup
	for w := 0; w < workers; w++ {
		wg.Add(1)
		go func(w int) {
			defer wg.Done()
			ev := elv.New()
			for i := w; i < len(strs); i += workers {
				per[i] = observeString(ev, strs[i])
			}
		}(w)
	}
	wg.Wait()
	var out []rec
	for _, rs := range per {
		for _, r := range rs {
			c.AddEvals(len(r.Obs))
			if len(r.Q) != len(r.S) {
				for _, y := range r.By {
					c.Distinct([]any{y.API, y.Pref, r.S})
				}
			}
			c.Inc("observations", int64(len(r.Obs)))
		}
		out = append(out, rs...)
	}
	return out
}

func run(c *lib.Ctx) error {
	if c.Replay != "" {
		return replay(c)
	}
	maxLen := c.Pick(3, 4)
	c.Set("rule", "a case is (quoting function, preference, string), observed in each context the function is meant for; distinct by those; non-trivial = the quoted text differs in length from the string (quoting was needed)")
	c.Assume("unicode.IsPrint of the non-ASCII code points of a case is supplied by the executor as data (field pr); TLC, the Json module and the Go executor's projection of the parse tree are trusted")
	c.Assume("how a command head or variable name containing ':' or starting with '@', or a special command's name is resolved is Unspecified (judged at specification and parser level only)")

	only := os.Getenv("C03_ONLY") // development aid: run one stage only (M, V or G)
	if only == "G" {
		return literals(c)
	}
	// ---- M
	if only != "V" {
		if err := modelCheck(c, maxLen); err != nil {
			return err
		}
	}
	if only == "M" {
		return nil
	}

	// ---- V: the enumerated strings, directed strings, random strings
	strs := enumerate(c, maxLen)
	nEnum := len(strs)
	strs = append(strs, directed()...)
	nRand := c.Pick(2000, 20000)
	strs = append(strs, randomStrings(c, nRand)...)
	c.Set("bounds", map[string]any{"max_len_enumerated": maxLen, "alphabets": len(alphabets), "enumerated_strings": nEnum,
		"directed_strings": len(directed()), "random_strings": nRand, "random_max_len": 64, "quoting_functions": len(apis)})
	c.Logf("V: %d strings x %d quoting functions", len(strs), len(apis))
	recs := observeAll(c, strs)
	for i := 0; i < 3 && i < len(recs); i++ {
		c.Sample(recs[(i*7919+len(recs)/2)%len(recs)])
	}
	c.Logf("V: %d records, judging", len(recs))
	if d := os.Getenv("C03_DUMP"); d != "" {
		os.WriteFile(d, lib.NDJSON(recs), 0o644)
		return lib.Infra("dumped")
	}
	if err := judge(c, "JudgeQuote", recs); err != nil {
		return err
	}
	c.Set("exhaustive", true)

	if only == "V" {
		return nil
	}
	// ---- G: literal texts with the prescribed denotation
	return literals(c)
}

func modelCheck(c *lib.Ctx, maxLen int) error {
	var mu sync.Mutex
	var firstErr error
	lib.Parallel(len(alphabets), 4, func(i int) {
		n := maxLen
		if c.Quick() && i%2 == 1 {
			n = maxLen - 1 // quick tier: the two secondary alphabets one byte shorter (as in V)
		}
		cfg := fmt.Sprintf("CONSTANT MaxLen = %d\nCONSTANT AlphaId = %d\nINIT Init\nNEXT Next\nINVARIANT Theorem\nINVARIANT Codec\n", n, i+1)
		r, err := c.TLC(fmt.Sprintf("MCStringLit/alphabet%d", i+1), lib.TLCRun{Dir: c.SpecDir("StringLit"), Module: "MCStringLit",
			Workers: c.Pick(2, 4), Timeout: 45 * time.Minute, Files: map[string][]byte{"MCStringLit.cfg": []byte(cfg)}})
		mu.Lock()
		defer mu.Unlock()
		if err != nil {
			if firstErr == nil {
				firstErr = err
			}
			return
		}
		if r.ErrKind != "" && firstErr == nil {
			firstErr = lib.Infra("the design theorem of StringLit fails in the model itself (alphabet %d): %s\n%s", i+1, r.Err, r.ErrTrace)
		}
	})
	return firstErr
}

func replay(c *lib.Ctx) error {
	b, err := os.ReadFile(c.Replay)
	if err != nil {
		return lib.Infra("%v", err)
	}
	var f struct {
		Case json.RawMessage `json:"case"`
	}
	if err := json.Unmarshal(b, &f); err != nil {
		return lib.Infra("%v", err)
	}
	var lc litCase
	if json.Unmarshal(f.Case, &lc) == nil && lc.T != nil {
		return replayLiteral(c, lc)
	}
	var rc replayCase
	if err := json.Unmarshal(f.Case, &rc); err != nil {
		return lib.Infra("%v", err)
	}
	rs := observeString(elv.New(), bytesOf(rc.S))
	c.AddEvals(len(rs))
	return judge(c, "JudgeQuote/replay", rs)
}
