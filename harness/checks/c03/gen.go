package main

import (
	"math/rand"
	"sort"

	"src.elv.sh/pkg/eval"
	"verif.local/harness/lib"
)

// The four byte alphabets of MCStringLit (AlphaId 1..4).
var alphabets = [][]byte{
	{'a', '\'', '"', '\\', '$', '~', ' ', '\n', '\t', 0x01, 0x7f, '=', ',', '<'},
	{'0', '~', '^', '*', '>', '?', '(', '[', '{', '&', ';', '|', '#', ':', '@'},
	{'a', '\'', '\\', '~', 0xc3, 0xa9, 0xc2, 0x85, 0xe2, 0x80, 0x8b, 0xef, 0xbf, 0xbd, 0xff},
	{'a', '"', 0xf0, 0x9f, 0x98, 0x80, 0xe4, 0xbd, 0xa0, 0xed, 0xc0, 0xf4, 0x90},
}

// seeded representatives of two classes: characters that are barewords everywhere, and control
// characters without a one-letter escape
var plainReps = []byte("abzAZ059_-./%+!")
var ctrlReps = []byte{0x01, 0x00, 0x02, 0x1f, 0x0e, 0x7f}

// enumerate lists every byte string up to maxLen over each alphabet (as MCStringLit does); the
// letter / digit / ^A positions are then replaced by a seeded representative of their class.
func enumerate(c *lib.Ctx, maxLen int) []string {
	seen := map[string]bool{}
	var out []string
	rng := rand.New(rand.NewSource(c.Seed*7919 + 3))
	for ai, al := range alphabets {
		limit := maxLen
		if c.Quick() && ai%2 == 1 {
			limit = maxLen - 1 // quick tier: the two secondary alphabets one byte shorter
		}
		var rec func(prefix []byte)
		rec = func(prefix []byte) {
			b := make([]byte, len(prefix))
			for i, x := range prefix {
				switch x {
				case 'a', '0':
					b[i] = plainReps[rng.Intn(len(plainReps))]
				case 0x01:
					b[i] = ctrlReps[rng.Intn(len(ctrlReps))]
				default:
					b[i] = x
				}
			}
			cands := []string{string(b)}
			if c.Thorough() && len(prefix) < maxLen {
				cands = append(cands, string(prefix)) // the model's own representative too (below the longest length)
			}
			for _, s := range cands {
				if !seen[s] {
					seen[s] = true
					out = append(out, s)
				}
			}
			if len(prefix) == limit {
				return
			}
			for _, x := range al {
				rec(append(prefix[:len(prefix):len(prefix)], x))
			}
		}
		rec(nil)
	}
	return out
}

// directed strings: names whose resolution is special, every single byte, every escape target.
func directed() []string {
	out := []string{"", "~", "~a", "a~", "~/x", "@", "@a", "a@", ":", ":a", "a:", "a:b", "e:ls", "E:PATH", "a=b", "=", "a,b", ",",
		"<", ">", "<=", ">=", "*", "^", "a^", "^a", "a>b", "a<", "?", "a?", "#", "a#", "#a", "-", "--", "_", "&", "a&b", "|", ";",
		"\\", "\\n", "a\\", "'", "''", "\"", "\"\"", "'\"", "$", "$a", "a$", "(", ")", "[", "]", "{", "}", "a b", " ", "\r", "\r\n", "^\n",
		"\u00a0", "\u00ad", "\u2028", "\ufeff", "\ufffd", "a\ufffdb", "\U0010ffff", "\U000e0001", "\xc3", "\xc3(", "\xa9", "\xe2\x80", "\xf0\x9f\x98",
		"\xed\xa0\x80", "\xc0\x80", "\xf4\x90\x80\x80", "\xff\xfe", "a\x00b", "\x1b[0m", "\u00e9", "\u4f60\u597d", "\U0001f600", "e\u0301"}
	for i := 0; i < 256; i++ {
		out = append(out, string([]byte{byte(i)}), "a"+string([]byte{byte(i)}), string([]byte{byte(i)})+"a")
	}
	var sp []string
	for name := range eval.IsBuiltinSpecial {
		sp = append(sp, name)
	}
	sort.Strings(sp)
	return append(out, sp...)
}

var runePool = []string{"\u00e9", "\u00df", "\u4f60", "\u597d", "\U0001f600", "\u00a0", "\u00ad", "\u0085", "\u200b", "\u2028", "\ufeff", "\ufffd", "\U000e0001", "\U0010ffff", "\u0301", "\u03a9"}
var metaPool = []byte("'\"\\$~ \n\t\r=,<>*^?()[]{}&;|#:@%+!./-_`")

// randomStrings: seeded strings of 5..64 bytes biased toward metacharacters, quotes, whitespace,
// control bytes, high code points and ill-formed UTF-8.
func randomStrings(c *lib.Ctx, n int) []string {
	rng := rand.New(rand.NewSource(c.Seed*104729 + 11))
	out := make([]string, 0, n)
	for i := 0; i < n; i++ {
		ln := 5 + rng.Intn(60)
		mode := rng.Intn(4) // 0: everything, 1: mostly plain with a few hostile bytes, 2: text + unicode, 3: bytes
		var b []byte
		for len(b) < ln {
			var k int
			switch mode {
			case 1:
				k = []int{0, 0, 0, 0, 0, 0, 1, 2, 3, 4}[rng.Intn(10)]
			case 2:
				k = []int{0, 0, 0, 2, 2, 1}[rng.Intn(6)]
			case 3:
				k = []int{4, 4, 3, 0, 2}[rng.Intn(5)]
			default:
				k = rng.Intn(5)
			}
			switch k {
			case 0:
				b = append(b, plainReps[rng.Intn(len(plainReps))])
			case 1:
				b = append(b, metaPool[rng.Intn(len(metaPool))])
			case 2:
				b = append(b, runePool[rng.Intn(len(runePool))]...)
			case 3:
				b = append(b, byte(rng.Intn(0x20)))
			case 4:
				b = append(b, byte(0x7f+rng.Intn(0x81)))
			}
		}
		if len(b) > 64 {
			b = b[:64]
		}
		out = append(out, string(b))
	}
	return out
}
