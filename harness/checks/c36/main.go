// C36 — the Markdown formatter preserves meaning and is idempotent.
//
// M: MdDoc.tla/MCMdDoc.tla — the generative document model; TLC checks the generator's
//
//	well-formedness (TypeOK, PartialOK, FinishedOK) on the exhaustive small scope.
//
// G: TLC enumerates (breadth-first, small scope) and draws (-simulate, larger scope) documents and
//
//	emits their Markdown text with the block skeleton the text is meant to have; this executor
//	renders every text with the real md.RenderString (HTMLCodec, FmtCodec at widths 0 and
//	{1, 20, 40, 80}) and records the outputs.
//
// V: JudgeMdDoc.tla (case walker) decides the relations of C36 on the recorded outputs; the spec
//
//	corpus and the checked-in fuzz corpus go through the same judge, skipping inputs for which
//	FmtCodec.Unsupported() reports an unsupported feature.
//
// A panic of md.RenderString on any input is reported under md:panic:<class>.
package main

import (
	"crypto/sha256"
	"encoding/hex"
	"encoding/json"
	"fmt"
	"os"
	"sort"
	"strings"
	"sync"
	"time"
	"unicode/utf8"

	"verif.local/harness/lib"
)

func main() { lib.Main("C36", run) }

var reflowWidths = []int{1, 20, 40, 80}

// ---------------------------------------------------------------- generation (TLC)

type scope struct {
	MaxBlocks, MaxKids, MaxItems, MaxDepth, MaxInl, MaxNodes, MaxAtoms int
	Atoms, Joins, Leaves, Indents, Quotes, Lists, Atx, Trails, Wheel, AtomWheel, Gaps string
	Invariants                                                           []string
}

func (s scope) cfg() []byte {
	var b strings.Builder
	fmt.Fprintf(&b, "CONSTANTS\n MaxBlocks = %d\n MaxKids = %d\n MaxItems = %d\n MaxDepth = %d\n MaxInl = %d\n MaxNodes = %d\n MaxAtoms = %d\n",
		s.MaxBlocks, s.MaxKids, s.MaxItems, s.MaxDepth, s.MaxInl, s.MaxNodes, s.MaxAtoms)
	fmt.Fprintf(&b, " AtomPool <- %s\n JoinSet <- %s\n LeafPool <- %s\n Indents = %s\n QuoteShapes <- %s\n ListShapes <- %s\n AtxShapes <- %s\n Trails = %s\n KindWheel <- %s\n AtomWheel <- %s\n Gaps = %s\n",
		s.Atoms, s.Joins, s.Leaves, s.Indents, s.Quotes, s.Lists, s.Atx, s.Trails, s.Wheel, s.AtomWheel, s.Gaps)
	b.WriteString("INIT Init\nNEXT Next\n")
	for _, inv := range s.Invariants {
		fmt.Fprintf(&b, "INVARIANT %s\n", inv)
	}
	return []byte(b.String())
}

func (s scope) describe() map[string]any {
	return map[string]any{"MaxBlocks": s.MaxBlocks, "MaxKids": s.MaxKids, "MaxItems": s.MaxItems, "MaxDepth": s.MaxDepth,
		"MaxInl": s.MaxInl, "MaxNodes": s.MaxNodes, "MaxAtoms": s.MaxAtoms, "atoms": s.Atoms, "joins": s.Joins,
		"leaves": s.Leaves, "indents": s.Indents, "gaps": s.Gaps, "quotes": s.Quotes, "lists": s.Lists, "atx": s.Atx, "trails": s.Trails}
}

var allInvariants = []string{"TypeOK", "PartialOK", "FinishedOK", "Emit"}

// exhaustive small scopes
func tinyScope() scope { // every placement of two nodes / two atoms over the tiny pools
	return scope{2, 1, 2, 1, 2, 2, 2, "TinyAtoms", "CoreJoins", "TinyLeaves", "{0}", "TinyQuotes", "TinyLists", "TinyAtx",
		"{TRUE}", "FlatWheel", "FlatAtomWheel", "{0}", allInvariants}
}
func coreFlatScope() scope { // the same shape over the larger core pools
	return scope{2, 1, 2, 1, 2, 2, 2, "CoreAtoms", "CoreJoins", "CoreLeaves", "{0}", "CoreQuotes", "CoreLists", "TinyAtx",
		"{TRUE}", "FlatWheel", "FlatAtomWheel", "{0}", allInvariants}
}
func blankStartScope() scope { // empty items / items starting with a blank line, 1 or 2 blank lines, indented paragraph after; top level, in quotes, in items
	return scope{2, 2, 2, 2, 1, 3, 1, "WordOnly", "SpOnly", "NoLeaves", "{0, 2, 3}", "TinyQuotes", "BlankLists", "TinyAtx",
		"{TRUE}", "BlankWheel", "WordWheel", "{0, 1}", allInvariants}
}
func linkTailScope() scope { // one paragraph of <= 2 atoms: link / image destinations over parentheses in every order, titles in three styles
	return scope{1, 1, 1, 1, 2, 1, 2, "TailAtoms", "SpOnly", "NoLeaves", "{0}", "TinyQuotes", "TinyLists", "TinyAtx",
		"{TRUE}", "ParaWheel", "TailWheel", "{0}", allInvariants}
}
func codeLineScope() scope { // one code block (fenced with either character, or indented) whose lines look like closing fences; top level, in a quote, in an item
	return scope{1, 1, 1, 1, 1, 2, 0, "WordOnly", "SpOnly", "CodeLeaves", "{0, 2, 3}", "CoreQuotes", "TinyLists", "TinyAtx",
		"{TRUE}", "LeafWheel", "WordWheel", "{0}", allInvariants}
}
func lineStartScope() scope { // one paragraph of <= 2 atoms: a word and tokens that look like block starts, soft breaks as written
	return scope{1, 1, 1, 1, 2, 1, 2, "LineStartAtoms", "LineJoins", "NoLeaves", "{0}", "TinyQuotes", "TinyLists", "TinyAtx",
		"{TRUE}", "ParaWheel", "LineAtomWheel", "{0}", allInvariants}
}

// small widths at which a token in the middle of a short line lands at the start of a wrapped line
// and is still followed by text (at width 1 every token is alone on its line)
var lineStartWidths = []int{3, 5, 8}

func tinyDeepScope() scope { // three nodes, nesting depth two, one-atom paragraphs, over the tiny pools
	return scope{2, 1, 2, 2, 1, 3, 2, "TinyAtoms", "CoreJoins", "TinyLeaves", "{0}", "TinyQuotes", "TinyLists", "TinyAtx",
		"{TRUE}", "FlatWheel", "FlatAtomWheel", "{0}", allInvariants}
}

// random larger scope (-simulate)
func simScope() scope {
	return scope{3, 2, 2, 2, 3, 6, 9, "FullAtoms", "AllJoins", "FullLeaves", "{0, 1, 3}", "FullQuotes", "FullLists", "FullAtx",
		"{TRUE, FALSE}", "FullWheel", "FullAtomWheel", "{0, 1}", []string{"FinishedOK", "Emit"}}
}

type genDoc struct {
	Lines []string `json:"lines"`
	Trail bool     `json:"trail"`
	Skel  []string `json:"skel"`
	Sig   string   `json:"sig"`
}

func (d genDoc) text() string {
	s := strings.Join(d.Lines, "\n")
	if d.Trail {
		s += "\n"
	}
	return s
}

func parseDocs(r *lib.TLCResult) ([]genDoc, int, error) {
	seen := map[string]bool{}
	var out []genDoc
	raw := 0
	for _, s := range r.PrintedStrings() {
		if seen[s] {
			continue
		}
		seen[s] = true
		raw++
		var d genDoc
		if err := json.Unmarshal([]byte(s), &d); err != nil {
			return nil, 0, lib.Infra("bad document from TLC: %v: %s", err, s)
		}
		if len(d.Lines) == 0 {
			return nil, 0, lib.Infra("empty document from TLC: %s", s)
		}
		out = append(out, d)
	}
	return out, raw, nil
}

// ---------------------------------------------------------------- inputs and cases

type input struct {
	Src    string   `json:"src"` // gen-exhaustive | gen-random | probe | spec | fuzz | suppl
	Name   string   `json:"name"`
	Text   string   `json:"text"`
	Widths []int    `json:"widths"`
	Skel   []string `json:"skel,omitempty"`
	Sig    string   `json:"sig,omitempty"`
}

func (in input) generated() bool { return strings.HasPrefix(in.Src, "gen") || in.Src == "probe" }

func hash8(s string) string {
	h := sha256.Sum256([]byte(s))
	return hex.EncodeToString(h[:4])
}

type pipeline struct {
	c     *lib.Ctx
	dir   string
	mu    sync.Mutex
	stats map[string]int
	// generator defects (exit 2): documents that the real parser does not read as intended
	defects []string
}

func (p *pipeline) inc(k string, n int) { p.mu.Lock(); p.stats[k] += n; p.mu.Unlock() }

// recordAll runs the real code on every input; returns the cases to judge and the inputs they belong to.
func (p *pipeline) recordAll(ins []input) ([]caseRec, []input) {
	c := p.c
	recs := make([]*caseRec, len(ins))
	lib.Parallel(len(ins), 8, func(i int) {
		in := ins[i]
		if !in.generated() {
			// documented limits of the parser itself (md.go): tabs, CR; and the fuzz targets' own filter
			switch {
			case !utf8.ValidString(in.Text):
				p.inc("corpus_skipped_invalid_utf8", 1)
				return
			case strings.ContainsAny(in.Text, "\t\r"):
				p.inc("corpus_skipped_tab_or_cr", 1)
				return
			}
		}
		rec, unsupported, pn := record(i, in.Src, in.Text, in.Widths)
		c.AddEvals(4 + 4*len(in.Widths))
		if pn != nil {
			c.Reject("md:panic:"+pn.class(), fmt.Sprintf("md.RenderString (%s codec) panics: %s on input %q", pn.Codec, pn.Msg, in.Text), in)
			p.inc("panics", 1)
			return
		}
		if in.generated() {
			ops, pn := trace(in.Text)
			if pn != nil {
				c.Reject("md:panic:"+pn.class(), fmt.Sprintf("md.RenderString (trace codec) panics: %s on input %q", pn.Msg, in.Text), in)
				return
			}
			if in.Skel == nil {
				// directed probe or replayed text: judged as is
			} else if why := excludedByParse(ops); why != "" {
				p.mu.Lock()
				p.defects = append(p.defects, fmt.Sprintf("generated text has %s emphasis in the real parse: %q (%s)", why, in.Text, in.Sig))
				p.mu.Unlock()
				return
			}
			if got := skeleton(ops); in.Skel != nil && strings.Join(got, " ") != strings.Join(in.Skel, " ") {
				p.mu.Lock()
				p.defects = append(p.defects, fmt.Sprintf("generated text is not read as intended: %q (%s): parser %v, model %v", in.Text, in.Sig, got, in.Skel))
				p.mu.Unlock()
				return
			}
			if unsupported {
				p.inc("generated_reported_unsupported_by_fmt", 1) // judged regardless
			}
		} else if unsupported {
			p.inc("corpus_skipped_unsupported", 1)
			return
		}
		recs[i] = &rec
	})
	var cases []caseRec
	var owners []input
	for i, r := range recs {
		if r == nil {
			continue
		}
		in := ins[i]
		r.ID = len(cases)
		cases = append(cases, *r)
		owners = append(owners, in)
		p.inc("judged_"+in.Src, 1)
		changed := r.F != in.Text
		for _, rf := range r.Rf {
			changed = changed || rf.Fr != in.Text
		}
		if changed {
			c.Distinct(in.Text)
		}
	}
	return cases, owners
}

func construct(in input) string {
	if in.generated() || in.Src == "probe" {
		if in.Sig != "" {
			return in.Sig
		}
	}
	return in.Name
}

// judge hands the recorded cases to JudgeMdDoc and turns every rejected relation into a Reject.
// Cases owned by a "vacuity" input are corrupted recordings: the judge must reject exactly the
// relation named in their Sig (and accept the one with an empty Sig).
func (p *pipeline) judge(cases []caseRec, owners []input, keyOf func(in input, rel string, w int) string) error {
	c := p.c
	batch := c.Pick(20000, 16000)
	par := 4
	vacGot := map[int]string{}
	for lo := 0; lo < len(cases); lo += batch {
		hi := lo + batch
		if hi > len(cases) {
			hi = len(cases)
		}
		if d := os.Getenv("C36_DUMP_CASES"); d != "" {
			os.WriteFile(fmt.Sprintf("%s/cases-%d.ndjson", d, lo), lib.NDJSON(cases[lo:hi]), 0o644)
		}
		bad, err := lib.Judge(c, "JudgeMdDoc", p.dir, "JudgeMdDoc", cases[lo:hi], par, 40*time.Minute)
		if err != nil {
			return err
		}
		c.AddTraces(hi - lo)
		// one BadCase per violated relation: Info = [relation, width]
		seenRel := map[string]bool{}
		for _, b := range bad {
			in := owners[lo+b.Index]
			rec := cases[lo+b.Index]
			if len(b.Info) != 2 {
				return lib.Infra("judge: malformed report for case %d: %v", lo+b.Index, b.Info)
			}
			rel, ok1 := b.Info[0].(string)
			w, ok2 := b.Info[1].(int64)
			if !ok1 || !ok2 {
				return lib.Infra("judge: malformed report for case %d: %v", lo+b.Index, b.Info)
			}
			k := fmt.Sprintf("%d/%s", lo+b.Index, rel)
			if seenRel[k] {
				continue // same relation at another width
			}
			seenRel[k] = true
			if in.Src == "vacuity" {
				if vacGot[lo+b.Index] != "" {
					vacGot[lo+b.Index] += ","
				}
				vacGot[lo+b.Index] += rel
				continue
			}
			p.inc("rejected_"+rel, 1)
			c.Reject(keyOf(in, rel, int(w)), describe(in, rec, rel, int(w)), in)
		}
	}
	nv := 0
	for i, in := range owners {
		if in.Src != "vacuity" {
			continue
		}
		nv++
		if vacGot[i] != in.Sig {
			return lib.Infra("vacuity guard: corrupted recording %q judged %q, expected %q", in.Name, vacGot[i], in.Sig)
		}
	}
	if nv > 0 {
		c.Set("vacuity_guard", fmt.Sprintf("%d corrupted recordings rejected for exactly the corrupted relation, the uncorrupted one accepted", nv-1))
	}
	return nil
}

func describe(in input, rec caseRec, rel string, w int) string {
	var rf *reflowRec
	for i := range rec.Rf {
		if rec.Rf[i].W == w {
			rf = &rec.Rf[i]
		}
	}
	switch {
	case rel == "html":
		return fmt.Sprintf("Html(Fmt(x)) != Html(x) for x=%q [%s]: Fmt(x)=%q Html(x)=%q Html(Fmt(x))=%q", in.Text, construct(in), rec.F, rec.H0, rec.Hf)
	case rel == "idem":
		return fmt.Sprintf("Fmt(Fmt(x)) != Fmt(x) for x=%q [%s]: Fmt(x)=%q Fmt(Fmt(x))=%q", in.Text, construct(in), rec.F, rec.Ff)
	case rf == nil:
		return fmt.Sprintf("%s at width %d for x=%q", rel, w, in.Text)
	case rel == "reflow-html":
		return fmt.Sprintf("Html(FmtReflow(x,%d)) != Html(x) modulo paragraph whitespace for x=%q [%s]: FmtReflow=%q Html(x)=%q Html(FmtReflow)=%q", w, in.Text, construct(in), rf.Fr, rec.H0, rf.Hr)
	case rel == "reflow-fixpoint":
		return fmt.Sprintf("Fmt(FmtReflow(x,%d)) != FmtReflow(x,%d) for x=%q [%s]: FmtReflow=%q Fmt(FmtReflow)=%q", w, w, in.Text, construct(in), rf.Fr, rf.F0r)
	default:
		return fmt.Sprintf("FmtReflow(x,%d) has a breakable line wider than %d for x=%q [%s]: %q", w, w, in.Text, construct(in), rf.Fr)
	}
}

// ---------------------------------------------------------------- run

func run(c *lib.Ctx) error {
	p := &pipeline{c: c, dir: c.SpecDir("MdDoc"), stats: map[string]int{}}
	if c.Replay != "" {
		return replay(c, p)
	}
	c.Set("rule", "a case is one Markdown input with its recorded outputs (Html, Fmt, Html∘Fmt, Fmt∘Fmt, and per width FmtReflow, Html∘FmtReflow, Fmt∘FmtReflow, line widths); distinct by input text; non-trivial = the formatter's output differs from the input at width 0 or at some reflow width")

	// ---- M + G: exhaustive small scopes (breadth-first) and random larger scope (-simulate), concurrently
	type named struct {
		name string
		sc   scope
	}
	exhs := []named{{"tiny", tinyScope()}, {"line-starts", lineStartScope()}, {"blank-start", blankStartScope()}, {"link-tails", linkTailScope()}, {"code-lines", codeLineScope()}}
	if c.Thorough() {
		exhs = append(exhs, named{"core-flat", coreFlatScope()}, named{"tiny-deep", tinyDeepScope()})
	}
	sim := simScope()
	if c.Thorough() {
		sim.MaxDepth, sim.MaxNodes, sim.MaxAtoms = 3, 7, 10
	}
	nSim := c.Pick(1, 6)
	perSim := c.Pick(400, 3500)
	bounds := map[string]any{"random": sim.describe(), "random_runs": nSim, "random_traces_per_run": perSim, "reflow_widths": reflowWidths, "line_start_extra_widths": lineStartWidths, "seeded_width_per_document": "2..16"}
	for _, e := range exhs {
		bounds["exhaustive "+e.name] = e.sc.describe()
	}
	c.Set("bounds", bounds)

	guard := 40 * time.Minute // only a guard against a hung TLC; sizes are set by the bounds
	exhDocs := make([][]genDoc, len(exhs))
	simDocs := make([][]genDoc, nSim)
	errs := make([]error, nSim+len(exhs))
	exhCount := map[string]any{}
	var emu sync.Mutex
	var wg sync.WaitGroup
	slots := make(chan struct{}, 4) // at most 4 TLC processes at a time
	for i, e := range exhs {
		wg.Add(1)
		go func(i int, e named) {
			defer wg.Done()
			slots <- struct{}{}
			defer func() { <-slots }()
			r, err := c.TLC("MCMdDoc exhaustive "+e.name, lib.TLCRun{Dir: p.dir, Module: "MCMdDoc", Cfg: "gen.cfg", Workers: 2,
				Timeout: guard, HeapGB: 6, Files: map[string][]byte{"gen.cfg": e.sc.cfg()}})
			if err != nil {
				errs[nSim+i] = err
				return
			}
			if r.ErrKind != "" {
				errs[nSim+i] = lib.Infra("the generator model (%s) violates %s %s:\n%s", e.name, r.ErrKind, r.ErrName, r.ErrTrace)
				return
			}
			docs, raw, err := parseDocs(r)
			if err != nil {
				errs[nSim+i] = err
				return
			}
			exhDocs[i] = docs
			emu.Lock()
			exhCount[e.name] = map[string]any{"documents": raw, "states": r.Distinct}
			emu.Unlock()
		}(i, e)
	}
	for i := 0; i < nSim; i++ {
		wg.Add(1)
		go func(i int) {
			defer wg.Done()
			slots <- struct{}{}
			defer func() { <-slots }()
			r, err := c.TLC("MCMdDoc random", lib.TLCRun{Dir: p.dir, Module: "MCMdDoc", Cfg: "gen.cfg", Workers: 1,
				Simulate: fmt.Sprintf("num=%d", perSim), Depth: 150, Seed: c.Seed*1000 + int64(i) + 1,
				Timeout: guard, HeapGB: 3, Files: map[string][]byte{"gen.cfg": sim.cfg()}})
			if err != nil {
				errs[i] = err
				return
			}
			if r.ErrKind != "" {
				errs[i] = lib.Infra("the generator model violates %s %s:\n%s", r.ErrKind, r.ErrName, r.ErrTrace)
				return
			}
			docs, _, err := parseDocs(r)
			if err != nil {
				errs[i] = err
				return
			}
			simDocs[i] = docs
		}(i)
	}
	wg.Wait()
	for _, err := range errs {
		if err != nil {
			return err
		}
	}
	c.Set("exhaustive", true)
	c.Set("exhaustive_scopes", exhCount)

	var ins []input
	seen := map[string]bool{}
	add := func(src string, d genDoc, extra []int) {
		t := d.text()
		if seen[t] {
			return
		}
		seen[t] = true
		// the fixed widths, the scope's extra widths, and one seeded width in 2..16 per document
		h := sha256.Sum256([]byte(t))
		ws := mergeWidths(reflowWidths, extra, []int{2 + int((uint64(h[0])<<8|uint64(h[1]))+uint64(c.Seed))%15})
		ins = append(ins, input{Src: src, Name: src + ":" + hash8(t), Text: t, Widths: ws, Skel: d.Skel, Sig: d.Sig})
	}
	for i, ds := range exhDocs {
		var extra []int
		if exhs[i].name == "line-starts" {
			extra = lineStartWidths
		}
		for _, d := range ds {
			add("gen-exhaustive", d, extra)
		}
	}
	nExh := len(ins)
	for _, ds := range simDocs {
		for _, d := range ds {
			add("gen-random", d, nil)
		}
	}
	c.Set("generated_distinct_texts", map[string]int{"exhaustive": nExh, "random": len(ins) - nExh})
	if nExh == 0 || len(ins) == nExh {
		return lib.Infra("a generator produced no documents (exhaustive %d, random %d)", nExh, len(ins)-nExh)
	}
	c.Logf("generated: %d exhaustive + %d random documents", nExh, len(ins)-nExh)
	for i := 0; i < 3 && i < len(ins); i++ {
		c.Sample(ins[(i*7919)%len(ins)])
	}

	// ---- corpora
	specIns, err := loadSpecCorpus(c.Repo)
	if err != nil {
		return err
	}
	fuzzIns, err := loadFuzzCorpus(c.Repo)
	if err != nil {
		return err
	}
	for _, grp := range []struct {
		src string
		ins []corpusInput
	}{{"spec", specIns}, {"fuzz", fuzzIns}, {"suppl", loadSupplemental()}} {
		for _, ci := range grp.ins {
			ws := mergeWidths(reflowWidths, ci.Widths)
			ins = append(ins, input{Src: grp.src, Name: ci.Name, Text: ci.Text, Widths: ws})
		}
	}
	ins = append(ins, probes()...)
	c.Set("corpus_inputs", map[string]int{"spec": len(specIns), "fuzz": len(fuzzIns), "supplemental": len(supplemental)})

	// ---- real code, then V
	cases, owners := p.recordAll(ins)
	c.Logf("recorded %d cases (%d inputs)", len(cases), len(ins))
	if len(p.defects) > 0 {
		sort.Strings(p.defects)
		n := len(p.defects)
		if n > 8 {
			p.defects = p.defects[:8]
		}
		return lib.Infra("%d generated documents are not what the model says (generator defect):\n  %s", n, strings.Join(p.defects, "\n  "))
	}
	vc, vo := vacuityCases()
	if len(vc) == 0 {
		return lib.Infra("vacuity guard: the base recording could not be produced")
	}
	cases, owners = append(cases, vc...), append(owners, vo...)
	if err := p.judge(cases, owners, keyOf); err != nil {
		return err
	}
	for k, v := range p.stats {
		c.Set(k, v)
	}
	c.Assume("TLC is trusted; the executor's projection (line labelling by the real parser's trace of the formatter output, wcwidth as the width primitive, byte arrays of the recorded strings) is trusted")
	c.Assume("coverage-guided fuzzing (named in the property's quantifier) is outside this technique family: inputs are the model's documents (exhaustive small scope + seeded random walks of the same model) and the checked-in corpora")
	c.Assume("corpus inputs with tabs, CR or invalid UTF-8 (documented limits of the parser / filter of the repository's fuzz targets) and those FmtCodec.Unsupported() reports are skipped; generated documents are judged regardless of that report")
	return nil
}

func mergeWidths(lists ...[]int) []int {
	set := map[int]bool{}
	var out []int
	for _, l := range lists {
		for _, w := range l {
			if w > 0 && !set[w] {
				set[w] = true
				out = append(out, w)
			}
		}
	}
	sort.Ints(out)
	return out
}

// keyOf gives the structural key of a rejected relation.
func keyOf(in input, rel string, w int) string {
	return rel + ":" + construct(in)
}

// vacuityCases corrupts one recorded field per relation; the judge must reject each for that relation.
func vacuityCases() ([]caseRec, []input) {
	x := "a *b* c d e f g h i j k l m n o p q r s t u v w x y z\n\n- `q r`\n"
	base, _, pn := record(0, "vacuity", x, reflowWidths)
	if pn != nil || len(base.Rf) < 3 || base.Rf[1].W != 20 {
		return nil, nil // reported as missing by the caller
	}
	mk := func(f func(r *caseRec)) caseRec {
		b, _ := json.Marshal(base)
		var r caseRec
		json.Unmarshal(b, &r)
		f(&r)
		return r
	}
	want := []string{"", "html", "idem", "reflow-fixpoint", "reflow-html", "fits-width", "html,idem,reflow-html,reflow-fixpoint,fits-width"}
	cs := []caseRec{
		base,
		mk(func(r *caseRec) { r.Hf += " " }),
		mk(func(r *caseRec) { r.Ff += "x" }),
		mk(func(r *caseRec) { r.Rf[1].F0r += "x" }),
		mk(func(r *caseRec) {
			r.H0b = toBytes(r.H0)
			r.Rf[2].Hr += "y"
			r.Rf[2].Hrb = toBytes(strings.Replace(r.Rf[2].Hr, "<em>", "<em> ", 1))
		}),
		mk(func(r *caseRec) {
			l := &r.Rf[1].Lines[0]
			l.W = 21
			l.B = toBytes("a *b* c d e f g h i j")
		}),
		mk(func(r *caseRec) { // everything at once, at every width: the report must survive its length
			r.Hf += " "
			r.Ff += "x"
			r.H0b = toBytes(r.H0)
			for i := range r.Rf {
				r.Rf[i].F0r += "x"
				r.Rf[i].Hr += "y"
				r.Rf[i].Hrb = toBytes(strings.Replace(r.Rf[i].Hr, "<em>", "<em> ", 1))
				l := &r.Rf[i].Lines[0]
				l.Para, l.W, l.B = true, 100, toBytes("a *b* c d e f g h i j")
			}
		}),
	}
	var owners []input
	for i := range cs {
		owners = append(owners, input{Src: "vacuity", Name: fmt.Sprintf("vacuity:%d", i), Text: x, Sig: want[i]})
	}
	return cs, owners
}

func replay(c *lib.Ctx, p *pipeline) error {
	b, err := os.ReadFile(c.Replay)
	if err != nil {
		return lib.Infra("%v", err)
	}
	var f struct {
		Case input `json:"case"`
	}
	if err := json.Unmarshal(b, &f); err != nil {
		return lib.Infra("%v", err)
	}
	in := f.Case
	in.Skel = nil
	if in.generated() {
		in.Src = "probe" // judged as is; the generator checks do not apply to a stored text
	}
	if in.Sig == "" {
		in.Sig = in.Name
	}
	if len(in.Widths) == 0 {
		in.Widths = reflowWidths
	}
	cases, owners := p.recordAll([]input{in})
	return p.judge(cases, owners, keyOf)
}
