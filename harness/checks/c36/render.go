package main

// Everything that touches the real code (src.elv.sh/pkg/md) lives here: rendering an input with
// HTMLCodec / FmtCodec / TraceCodec, and projecting the recorded outputs to the case record the
// TLA+ judge (spec/MdDoc/JudgeMdDoc.tla) reads.  No relation of C36 is decided here.

import (
	"fmt"
	"runtime/debug"
	"strings"

	"src.elv.sh/pkg/md"
	"src.elv.sh/pkg/wcwidth"
)

// lineRec is one line of a reflowed output.
type lineRec struct {
	Para bool  `json:"para"` // belongs to a paragraph of the output, according to the real parser
	W    int   `json:"w"`    // display width (wcwidth.Of, the primitive the formatter itself uses)
	B    []int `json:"b"`    // bytes; only filled for paragraph lines wider than the width (the judge reads no others)
}

type reflowRec struct {
	W     int       `json:"w"`
	Fr    string    `json:"fr"`
	Hr    string    `json:"hr"`
	F0r   string    `json:"f0r"`
	Hrb   []int     `json:"hrb"` // bytes of Hr; only filled when Hr differs from H0 (the judge reads it only then)
	Lines []lineRec `json:"lines"`
}

type caseRec struct {
	ID   int         `json:"id"`
	Src  string      `json:"src"`
	H0   string      `json:"h0"`
	F    string      `json:"f"`
	Hf   string      `json:"hf"`
	Ff   string      `json:"ff"`
	H0b  []int       `json:"h0b"` // bytes of H0; only filled when some Hr differs from H0
	HasP bool        `json:"hasP"`
	Rf   []reflowRec `json:"rf"`
}

type panicInfo struct {
	Codec string
	Msg   string
	Stack string
}

func (p *panicInfo) class() string {
	m := p.Msg
	switch {
	case strings.Contains(m, "index out of range"):
		m = "index-out-of-range"
	case strings.Contains(m, "slice bounds out of range"):
		m = "slice-bounds"
	case strings.Contains(m, "nil pointer"):
		m = "nil-pointer"
	case strings.Contains(m, "unreachable"):
		m = "unreachable"
	default:
		if len(m) > 40 {
			m = m[:40]
		}
		m = strings.Map(func(r rune) rune {
			if r == ' ' || r == ':' {
				return '-'
			}
			return r
		}, m)
	}
	return p.Codec + ":" + m
}

// renderWith runs the real md.RenderString; a panic is returned, not propagated.
func renderWith(text string, codec md.StringerCodec, name string) (out string, p *panicInfo) {
	defer func() {
		if r := recover(); r != nil {
			p = &panicInfo{Codec: name, Msg: fmt.Sprint(r), Stack: string(debug.Stack())}
		}
	}()
	return md.RenderString(text, codec), nil
}

func html(text string) (string, *panicInfo) { return renderWith(text, &md.HTMLCodec{}, "html") }

// format returns the formatted text and the formatter's own report of unsupported features.
func format(text string, width int) (string, *md.FmtUnsupported, *panicInfo) {
	codec := &md.FmtCodec{Width: width}
	out, p := renderWith(text, codec, "fmt")
	if p != nil {
		return "", nil, p
	}
	return out, codec.Unsupported(), nil
}

func trace(text string) (ops []md.Op, p *panicInfo) {
	var tc md.TraceCodec
	_, p = renderWith(text, &tc, "trace")
	return tc.Ops(), p
}

func toBytes(s string) []int {
	b := make([]int, len(s))
	for i := 0; i < len(s); i++ {
		b[i] = int(s[i])
	}
	return b
}

// paraLines marks the lines of text that belong to a paragraph according to the real parser: the
// line a paragraph operation starts at and the following lines up to the next line that is blank
// after removing blockquote markers (FmtCodec separates blocks by such a line).
func paraLines(text string, lines []string) ([]bool, *panicInfo) {
	ops, p := trace(text)
	if p != nil {
		return nil, p
	}
	mark := make([]bool, len(lines))
	for _, op := range ops {
		if op.Type != md.OpParagraph {
			continue
		}
		for i := op.LineNo - 1; i >= 0 && i < len(lines); i++ {
			if strings.Trim(lines[i], " >") == "" {
				break
			}
			mark[i] = true
		}
	}
	return mark, nil
}

// record renders x in every configuration the relations talk about and projects the outputs.
// unsupported tells whether FmtCodec reported an unsupported feature for x (used by the caller
// only to skip corpus inputs).
func record(id int, src, x string, widths []int) (rec caseRec, unsupported bool, p *panicInfo) {
	rec = caseRec{ID: id, Src: src, H0b: []int{}, Rf: []reflowRec{}}
	rec.HasP = strings.Contains(x, "<p>") || strings.Contains(x, "</p>")
	var u *md.FmtUnsupported
	if rec.H0, p = html(x); p != nil {
		return
	}
	if rec.F, u, p = format(x, 0); p != nil {
		return
	}
	unsupported = u != nil
	if rec.Hf, p = html(rec.F); p != nil {
		return
	}
	if rec.Ff, _, p = format(rec.F, 0); p != nil {
		return
	}
	needH0b := false
	for _, w := range widths {
		r := reflowRec{W: w, Hrb: []int{}, Lines: []lineRec{}}
		if r.Fr, u, p = format(x, w); p != nil {
			return
		}
		unsupported = unsupported || u != nil
		if n := len(rec.Rf); n > 0 && rec.Rf[n-1].W < w && rec.Rf[n-1].Fr == r.Fr {
			// Same output as at the next narrower width: every relation at w is implied by the
			// relations at that width (the fixpoint and HTML relations are about the same strings,
			// and a line wider than w is wider than the narrower width), so it is not recorded twice.
			continue
		}
		if r.Hr, p = html(r.Fr); p != nil {
			return
		}
		if r.F0r, _, p = format(r.Fr, 0); p != nil {
			return
		}
		if r.Hr != rec.H0 {
			r.Hrb = toBytes(r.Hr)
			needH0b = true
		}
		lines := strings.Split(strings.TrimSuffix(r.Fr, "\n"), "\n")
		var marks []bool
		if marks, p = paraLines(r.Fr, lines); p != nil {
			return
		}
		for i, l := range lines {
			lr := lineRec{Para: marks[i], W: wcwidth.Of(l), B: []int{}}
			if lr.Para && lr.W > w {
				lr.B = toBytes(l)
			}
			r.Lines = append(r.Lines, lr)
		}
		rec.Rf = append(rec.Rf, r)
	}
	if needH0b {
		rec.H0b = toBytes(rec.H0)
	}
	return
}

// excludedByParse reports whether the real parser sees one of the documented unsupported cases in
// text: emphasis or strong emphasis nested in, or immediately following, another one.  It is
// computed from the parser's operations (TraceCodec), independently of FmtCodec's own report, and
// used only to validate the generator.
func excludedByParse(ops []md.Op) string {
	for _, op := range ops {
		depth := 0
		for i, in := range op.Content {
			switch in.Type {
			case md.OpEmphasisStart, md.OpStrongEmphasisStart:
				depth++
				if depth >= 2 {
					return "nested"
				}
				if i > 0 && (op.Content[i-1].Type == md.OpEmphasisEnd || op.Content[i-1].Type == md.OpStrongEmphasisEnd) {
					return "consecutive"
				}
			case md.OpEmphasisEnd, md.OpStrongEmphasisEnd:
				depth--
			}
		}
	}
	return ""
}

func skeleton(ops []md.Op) []string {
	out := make([]string, len(ops))
	for i, op := range ops {
		out[i] = op.Type.String()
	}
	return out
}
