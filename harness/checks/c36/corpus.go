package main

// The checked-in corpora of pkg/md, read at run time from the repository under test:
// the CommonMark spec examples (spec/spec.json) and the fuzz corpus (testdata/fuzz/*/*).
// They are inputs only; the expected HTML in spec.json is not used (that would be C35).

import (
	"encoding/json"
	"os"
	"path/filepath"
	"sort"
	"strconv"
	"strings"

	"verif.local/harness/lib"
)

type corpusInput struct {
	Name   string
	Text   string
	Widths []int // extra reflow widths recorded with the input (fuzz corpus)
}

func loadSpecCorpus(repo string) ([]corpusInput, error) {
	b, err := os.ReadFile(filepath.Join(repo, "pkg/md/spec/spec.json"))
	if err != nil {
		return nil, lib.Infra("spec corpus: %v", err)
	}
	var cases []struct {
		Markdown string `json:"markdown"`
		Example  int    `json:"example"`
	}
	if err := json.Unmarshal(b, &cases); err != nil {
		return nil, lib.Infra("spec corpus: %v", err)
	}
	var out []corpusInput
	for _, c := range cases {
		out = append(out, corpusInput{Name: "spec:" + strconv.Itoa(c.Example), Text: c.Markdown})
	}
	return out, nil
}

// parseFuzzFile reads the "go test fuzz v1" encoding: one Go literal per line, string(...) or int(...).
func parseFuzzFile(b []byte) (text string, width int, hasWidth, ok bool) {
	lines := strings.Split(strings.TrimRight(string(b), "\n"), "\n")
	if len(lines) < 2 || !strings.HasPrefix(lines[0], "go test fuzz v1") {
		return
	}
	for _, l := range lines[1:] {
		switch {
		case strings.HasPrefix(l, "string(") && strings.HasSuffix(l, ")"):
			s, err := strconv.Unquote(l[len("string(") : len(l)-1])
			if err != nil {
				return
			}
			text, ok = s, true
		case strings.HasPrefix(l, "int(") && strings.HasSuffix(l, ")"):
			n, err := strconv.Atoi(l[len("int(") : len(l)-1])
			if err != nil {
				return "", 0, false, false
			}
			width, hasWidth = n, true
		}
	}
	return
}

func loadFuzzCorpus(repo string) ([]corpusInput, error) {
	root := filepath.Join(repo, "pkg/md/testdata/fuzz")
	files, err := filepath.Glob(filepath.Join(root, "*", "*"))
	if err != nil {
		return nil, lib.Infra("fuzz corpus: %v", err)
	}
	sort.Strings(files)
	var out []corpusInput
	for _, f := range files {
		b, err := os.ReadFile(f)
		if err != nil {
			return nil, lib.Infra("fuzz corpus: %v", err)
		}
		text, w, hasW, ok := parseFuzzFile(b)
		if !ok {
			return nil, lib.Infra("fuzz corpus: cannot parse %s", f)
		}
		in := corpusInput{Name: "fuzz:" + filepath.Base(filepath.Dir(f)) + "/" + filepath.Base(f)[:12], Text: text}
		if hasW && w > 0 && w <= 200 {
			in.Widths = []int{w}
		}
		out = append(out, in)
	}
	return out, nil
}

// The supplemental inputs of the repository's own formatter tests (fmt_test.go, testutils_test.go);
// inputs only, copied here because test files cannot be imported.
var supplemental = []string{
	"~~~ ~`\n~~~", "*&#32;x*", "*x&#32;*", "&#65;*!*", "*!*&#65;", "*&#32;*", `\![a](b)`,
	`[a](b ('"))`, `[a](b "\"''()")`, `[a](b '\'""()')`, `[a](b (\(''""))`, `[a](<&NewLine;>)`,
	"&#32;foo", "foo&#32;", "# title {#id}", "- ```\n  a\n\n  ```\n", "> <pre>\n\na\n", "- <pre>\n a\n",
	"> a\n>> b\n", ">> a\n>\n> b\n", "- \n  \na\n", "a\n- -\n", "a\n- 2.\n", `a*$*`, `[a](\&gt;)`,
	`[a](b (\&gt;))`, `[a](http://( "b")`, `[a](b (()))`, `[a](http://b?c&d)`, "![a\\\nb](c.png)\n",
	"![a <a></a>](b.png)", `<http://&gt;>`, `a<`, `a<!--`, "a  \n",
}

func loadSupplemental() []corpusInput {
	var out []corpusInput
	for i, s := range supplemental {
		out = append(out, corpusInput{Name: "suppl:" + strconv.Itoa(i), Text: s})
	}
	return out
}
