package main

// Directed probes: minimal inputs of known findings, so that each finding is reproduced
// deterministically in every run.  They are judged like generated documents (regardless of
// FmtCodec.Unsupported()).
func probes() []input {
	var out []input
	for _, pr := range probeTexts {
		out = append(out, input{Src: "probe", Name: "probe:" + pr.name, Text: pr.text, Widths: reflowWidths, Sig: pr.name})
	}
	return out
}

var probeTexts = []struct{ name, text string }{}
