package main

// V, history form: seeded random histories over several live versions at real scale; after every
// call ALL live versions are re-read in full and logged; TracePVector judges.

import (
	"fmt"
	"math/rand"
	"os"
	"time"

	"src.elv.sh/pkg/persistent/vector"
	"verif.local/harness/lib"
)

type hevent struct {
	O     op     `json:"o"`
	Probe bool   `json:"probe"`
	R     res    `json:"r"`
	It    []rn   `json:"it"`
	Len   int    `json:"len"`
	All   [][]rn `json:"all"`
	AllIt [][]rn `json:"allit"`
	Panic bool   `json:"panic"`
	kind  string
	what  string
}

type hmeta struct {
	Seed   int64
	Steps  int
	MaxLen int
}

var boundaryLens = []int{0, 1, 31, 32, 33, 63, 64, 65, 1055, 1056, 1057, 1088, 2080}

const maxLive = 5

// runHistory is deterministic in (seed, steps, maxLen).
func runHistory(c *lib.Ctx, seed int64, steps, maxLen int) []hevent {
	rng := rand.New(rand.NewSource(seed))
	// initial live versions: one prefilled vector near a structural boundary
	var base int
	for {
		base = boundaryLens[rng.Intn(len(boundaryLens))] + rng.Intn(5) - 2
		if base >= 0 && base <= maxLen {
			break
		}
	}
	pre, bad := prefill(base)
	if bad != "" {
		return []hevent{{O: op{Op: "Panic"}, what: bad}}
	}
	live := []vector.Vector{pre[base]}
	kinds := []string{"whole"}
	readAll := func() ([][]rn, [][]rn) {
		all, allit := make([][]rn, len(live)), make([][]rn, len(live))
		for i, v := range live {
			all[i], allit[i] = byIndex(v), byIter(v)
		}
		return all, allit
	}
	mk := func(e hevent) hevent {
		e.All, e.AllIt = readAll()
		if e.R.Seq == nil {
			e.R.Seq = []rn{}
		}
		if e.It == nil {
			e.It = []rn{}
		}
		return e
	}
	evs := []hevent{mk(hevent{O: op{Op: "Reset"}})}
	next := 1                    // written values: small numbers that seldom continue a run
	for s := 0; s < steps; s++ { // Drop events are not counted as steps
		if len(live) > maxLive {
			s--
			k := rng.Intn(len(live))
			live = append(live[:k:k], live[k+1:]...)
			kinds = append(kinds[:k:k], kinds[k+1:]...)
			evs = append(evs, mk(hevent{O: op{Op: "Drop", V: k}}))
			continue
		}
		v := rng.Intn(len(live))
		recv := live[v]
		n := recv.Len()
		o := op{V: v}
		probe := false
		near := func() int { // an in-range position, biased to the ends
			if n == 0 {
				return 0
			}
			switch rng.Intn(4) {
			case 0:
				return rng.Intn(min(n, 3))
			case 1:
				return n - 1 - rng.Intn(min(n, 3))
			}
			return rng.Intn(n)
		}
		switch d := rng.Intn(100); {
		case d < 30 && n < maxLen:
			o.Op, o.X = "Conj", next
			next = next%9 + 1
		case d < 45:
			o.Op = "Pop"
		case d < 60:
			o.Op, o.I, o.X = "Assoc", near(), next
			if rng.Intn(6) == 0 && n < maxLen {
				o.I = n
			}
			next = next%9 + 1
		case d < 72:
			o.Op = "Sub"
			o.I = near()
			o.J = o.I + rng.Intn(n-o.I+1)
			if rng.Intn(3) == 0 {
				o.J = n
			}
		case d < 80: // deliberately out of range: observed, result not kept
			probe = true
			switch rng.Intn(5) {
			case 0:
				o.Op, o.I, o.J = "Sub", -1-rng.Intn(2), rng.Intn(n+1)
			case 1:
				o.Op, o.I, o.J = "Sub", rng.Intn(n+1), n+1+rng.Intn(3)
			case 2:
				o.Op, o.I, o.J = "Sub", n, n-1
			case 3:
				o.Op, o.I, o.X = "Assoc", []int{-1, n + 1, n + 2}[rng.Intn(3)], 5
			case 4:
				o.Op, o.I = "Index", []int{-1, n, n + 1}[rng.Intn(3)]
			}
		case d < 90:
			o.Op, o.I = "Index", near()
		case d < 95:
			o.Op = "Iterate"
		default:
			o.Op = "Len"
		}
		out := exec(recv, o)
		c.AddEvals(1)
		if !probe && out.Vec != nil {
			live = append(live, out.Vec)
			k := kinds[v]
			if o.Op == "Sub" {
				k = "slice"
			}
			kinds = append(kinds, k)
		}
		ev := mk(hevent{O: o, Probe: probe, R: out.R, It: out.It, Len: out.Len, Panic: out.Panic != "", kind: kinds[v],
			what: fmt.Sprintf("%v on a %s vector of length %d: %+v panic=%q", o, kinds[v], n, out.R, out.Panic)})
		evs = append(evs, ev)
		c.Inc("H_op_"+o.Op, 1)
		if out.Panic != "" {
			break
		}
	}
	return evs
}

func histories(c *lib.Ctx, dir string) error {
	nh, steps, maxLen := c.Pick(24, 200), c.Pick(150, 300), 2200
	c.Set("V_histories", map[string]int{"histories": nh, "steps": steps, "max_length": maxLen, "max_live_versions": maxLive + 1})
	hs := make([][]hevent, nh)
	metas := make([]hmeta, nh)
	lib.Parallel(nh, 8, func(h int) {
		metas[h] = hmeta{c.Seed*100000 + int64(h), steps, maxLen}
		hs[h] = runHistory(c, metas[h].Seed, steps, maxLen)
	})
	for hi, h := range hs {
		if len(h) == 1 && h[0].O.Op == "Panic" {
			c.Reject("vector:panic:build:Conj", h[0].what, map[string]any{"mode": "H", "hseed": metas[hi].Seed, "steps": steps, "maxlen": maxLen, "events": []hevent{}})
			hs[hi] = nil
			continue
		}
		for _, e := range h {
			if e.O.Op != "Reset" && e.O.Op != "Drop" {
				c.Distinct([]any{"H", e.O, e.R, e.All})
			}
		}
	}
	if len(hs[0]) > 0 {
		c.Sample(hs[0][:min(4, len(hs[0]))])
	}
	c.AddTraces(nh)
	return judgeHistories(c, dir, "TracePVector", hs, metas)
}

func judgeHistories(c *lib.Ctx, dir, name string, hs [][]hevent, metas []hmeta) error {
	if os.Getenv("VERIF_C06_CORRUPT") == "hist" && len(hs[0]) > 20 { // self-test: the walker must reject this
		e := &hs[0][20]
		e.AllIt[0] = append([]rn{{5, 1}}, e.AllIt[0]...)
	}
	bad, err := lib.JudgeGroups(c, name, dir, "TracePVector", hs, 4, 12*time.Minute)
	if err != nil {
		return err
	}
	var starts []int
	n := 0
	for _, h := range hs {
		starts = append(starts, n)
		n += len(h)
	}
	for _, b := range bad {
		hi := 0
		for i, s := range starts {
			if s <= b.Index {
				hi = i
			}
		}
		e := hs[hi][b.Index-starts[hi]]
		wantOk, _ := b.Info[1].(bool)
		key := "vector:history:" + e.O.Op + ":" + e.kind
		switch {
		case e.Panic:
			key = "vector:panic:" + e.O.Op + ":" + e.kind
		case e.O.Op == "Sub" && e.kind == "slice" && !wantOk && e.R.Ok:
			key = keySubslice
		}
		c.Reject(key, fmt.Sprintf("history seed %d, event %d: %s; the specification prescribes %v", metas[hi].Seed, b.Index-starts[hi], e.what, b.Info[len(b.Info)-1]),
			map[string]any{"mode": "H", "hseed": metas[hi].Seed, "steps": metas[hi].Steps, "maxlen": metas[hi].MaxLen, "events": hs[hi][:b.Index-starts[hi]+1]})
	}
	return nil
}
