// C06 — lists are immutable sequences that behave like arrays at every length.
// M: MCPVector (small-scope model from the empty vector: array laws, refinement of the run form to
//
//	explicit sequences, persistence) and MCRuns (the run arithmetic on its own).
//
// G: every transition of MCPVector — for Base 0 and for Base lifted to the lengths where the real
//
//	tree changes shape — replayed on real vectors; the result and, after every step, ALL live
//	versions (Len, Index at every position, Iterator) compared with what TLC prescribes.
//
// V: every operation with each boundary argument at every length 0..L on real vectors (built up by
//
//	Conj and down by Pop; whole vectors, slices, slices of slices), recorded and judged by the TLC
//	case walker JudgePVector; random long histories judged by the stateful walker TracePVector.
package main

import (
	"bytes"
	"encoding/json"
	"fmt"
	"os"
	"sort"
	"strings"
	"sync"
	"time"

	"src.elv.sh/pkg/persistent/vector"
	"verif.local/harness/lib"
)

func main() { lib.Main("C06", run) }

const keySubslice = "vector:subslice-bounds"

type mcBounds struct {
	Bases            []int
	MaxVers, MaxGrow int
	CVals, AVals     string
	Refine           bool
}

func (b mcBounds) cfg() []byte {
	ref := "FALSE"
	inv := ""
	if b.Refine {
		ref = "TRUE"
		inv = "INVARIANT RefinesArray\nINVARIANT Laws\n"
	}
	bs := ""
	for i, x := range b.Bases {
		if i > 0 {
			bs += ", "
		}
		bs += fmt.Sprint(x)
	}
	return []byte(fmt.Sprintf("CONSTANTS Bases = {%s} MaxVers = %d MaxGrow = %d CVals = %s AVals = %s CheckRefine = %s\nSPECIFICATION Spec\nVIEW View\nINVARIANT Canonical\n%sPROPERTY Persistence\nACTION_CONSTRAINT EmitT\n",
		bs, b.MaxVers, b.MaxGrow, b.CVals, b.AVals, ref, inv))
}

// gline is one emitted transition: path to the source state + the step, prescribed result,
// prescribed contents of all live versions afterwards.
type gline struct {
	B     int               `json:"b"`
	P     []json.RawMessage `json:"p"`
	R     res               `json:"r"`
	Vers  [][]rn            `json:"vers"`
	Kinds []string          `json:"kinds"`
}

type gcase struct {
	Mode  string            `json:"mode"`
	Base  int               `json:"base"`
	P     []json.RawMessage `json:"p"`
	R     res               `json:"r"`
	Vers  [][]rn            `json:"vers"`
	Kinds []string          `json:"kinds"`
}

func parseStep(raw json.RawMessage) (op, bool, error) {
	var t []any
	if err := json.Unmarshal(raw, &t); err != nil || len(t) != 6 {
		return op{}, false, fmt.Errorf("bad step %s", raw)
	}
	name, _ := t[0].(string)
	f := func(i int) int { x, _ := t[i].(float64); return int(x) }
	return op{Op: name, V: f(1), I: f(2), J: f(3), X: f(4)}, f(5) == 1, nil
}

func pathKey(p []json.RawMessage) string {
	var b bytes.Buffer
	for _, x := range p {
		b.Write(x)
		b.WriteByte(',')
	}
	return b.String()
}

func run(c *lib.Ctx) error {
	dir := c.SpecDir("PVector")
	// many small TLC processes run side by side: keep each JVM's helper threads few
	os.Setenv("_JAVA_OPTIONS", "-XX:ParallelGCThreads=2 -XX:CICompilerCount=2")
	if c.Replay != "" {
		return replay(c, dir)
	}
	c.Set("rule", "G: one case per (base length, transition of the exhaustive model), distinct by (base, operation path); V: one case per recorded call, distinct by (operation, arguments, receiver content as runs, receiver kind); calls on an empty receiver that are plain reads (Len/Iterate) are not counted as non-trivial")
	// development aid: VERIF_C06_PHASES=runs,gen,sweep,hist restricts the phases (default: all)
	want := func(p string) bool {
		sel := os.Getenv("VERIF_C06_PHASES")
		return sel == "" || strings.Contains(","+sel+",", ","+p+",")
	}
	// the phases run one after the other (at most 4 TLC processes at a time)
	type phase struct {
		name string
		f    func(*lib.Ctx, string) error
	}
	lanes := [][]phase{{{"runs", modelRuns}, {"gen", genReplay}, {"sweep", sweep}, {"hist", histories}}}
	errs := make([]error, len(lanes))
	lib.Parallel(len(lanes), len(lanes), func(i int) {
		for _, ph := range lanes[i] {
			if !want(ph.name) {
				continue
			}
			t0 := time.Now()
			if errs[i] = ph.f(c, dir); errs[i] != nil {
				return
			}
			c.Logf("phase %s done in %.1fs", ph.name, time.Since(t0).Seconds())
		}
	})
	for _, err := range errs {
		if err != nil {
			return err
		}
	}
	c.Assume("TLC trusted; contents travel as runs [a,n] (a..a+n-1): the run arithmetic is checked against explicit sequences by MCRuns and, per operation, by RefinesArray in the Base=0 model; element values are Go ints (K+position for prefilled elements, 1/2/7.. for written ones); 'Rejected' is Index ok=false / nil from Assoc, Pop, SubVector (documented for Assoc and Pop; SubVector's nil is implemented but not documented); a panic is always a violation; structural boundaries are derived from lengths by the documented layout, unexported fields are not read")
	return nil
}

// ---- M: the run arithmetic
func modelRuns(c *lib.Ctx, dir string) error {
	cfg := fmt.Sprintf("CONSTANTS MaxRuns = %d MaxN = 2 Starts = {1, 2, 3}\nINIT Init\nNEXT Next\nINVARIANT Lemmas\n", c.Pick(2, 3))
	r, err := c.TLC("MCRuns", lib.TLCRun{Dir: dir, Module: "MCRuns", Workers: 4, Timeout: 12 * time.Minute, HeapGB: 6,
		Files: map[string][]byte{"MCRuns.cfg": []byte(cfg)}})
	if err != nil {
		return err
	}
	if r.ErrKind != "" {
		return lib.Infra("run arithmetic lemma fails in the model itself: %s\n%s", r.Err, r.ErrTrace)
	}
	return nil
}

// ---- M + G
func genReplay(c *lib.Ctx, dir string) error {
	big := []int{31, 32, 33, 63, 64, 65, 1055, 1056, 1057, 1088, 2080}
	cfgs := []mcBounds{
		{[]int{0, 1, 2}, c.Pick(4, 5), c.Pick(3, 4), "{1, 2}", "{1, 2}", true},
		{big, 3, 3, "{1}", "{2}", false},
	}
	if c.Thorough() { // one more level of versions right at the shape-changing lengths
		cfgs = append(cfgs, mcBounds{[]int{32, 64, 1056, 1088, 2080}, 4, 3, "{1}", "{2}", false})
	}
	c.Set("G_configs", cfgs)
	pre, bad := prefill(2100)
	if bad != "" {
		c.Reject("vector:panic:build:Conj", bad, map[string]any{"mode": "B", "n": 2100})
		return nil
	}
	var mu sync.Mutex
	var firstErr error
	total := 0
	lib.Parallel(len(cfgs), 2, func(ci int) {
		b := cfgs[ci]
		workers := 2
		if b.Refine && c.Thorough() { // by far the largest run (958 k transitions with the refinement invariants)
			workers = 4
		}
		r, err := c.TLC(fmt.Sprintf("MCPVector(bases=%v)", b.Bases), lib.TLCRun{Dir: dir, Module: "MCPVector", Workers: workers, Timeout: 14 * time.Minute, HeapGB: 6,
			Files: map[string][]byte{"MCPVector.cfg": b.cfg()}})
		if err == nil && r.ErrKind != "" {
			err = lib.Infra("the vector model (bases %v) violates its own property %s %s:\n%s", b.Bases, r.ErrKind, r.ErrName, r.ErrTrace)
		}
		var n int
		if err == nil {
			n, err = replayLines(c, pre, len(b.Bases), r.PrintedStrings(), r.Generated)
		}
		mu.Lock()
		defer mu.Unlock()
		if err != nil && firstErr == nil {
			firstErr = err
		}
		total += n
	})
	if firstErr != nil {
		return firstErr
	}
	c.AddTraces(total)
	c.Set("G_transitions_replayed", total)
	c.Set("exhaustive", true)
	return nil
}

// replayLines replays every emitted transition of one base on real vectors, level by level so
// that the real versions reached by a path are built once and shared (they are persistent).
func replayLines(c *lib.Ctx, pre []vector.Vector, nBases int, lines []string, generated int64) (int, error) {
	if int64(len(lines)) < generated-int64(nBases) {
		return 0, lib.Infra("TLC generated %d transitions but emitted %d", generated, len(lines))
	}
	byLevel := map[int][]gline{}
	seen := map[string]bool{}
	maxLevel := 0
	for _, s := range lines {
		if seen[s] {
			continue
		}
		seen[s] = true
		var l gline
		if err := json.Unmarshal([]byte(s), &l); err != nil {
			return 0, lib.Infra("bad transition from TLC: %v: %.200s", err, s)
		}
		if os.Getenv("VERIF_C06_CORRUPT") == "gen" && len(seen) == 500 { // self-test: the replay must reject this
			l.Vers[0] = append([]rn{{5, 1}}, l.Vers[0]...)
		}
		byLevel[len(l.P)] = append(byLevel[len(l.P)], l)
		if len(l.P) > maxLevel {
			maxLevel = len(l.P)
		}
	}
	memo := map[string][]vector.Vector{} // base|path -> live real versions (nil = unusable)
	for b, v := range pre {
		memo[fmt.Sprint(b, "|")] = []vector.Vector{v}
	}
	var mu sync.Mutex
	n := 0
	var infra error
	for lv := 1; lv <= maxLevel; lv++ {
		ls := byLevel[lv]
		type upd struct {
			key  string
			vs   []vector.Vector
			done bool
		}
		upds := make([]upd, len(ls))
		const W = 4
		lib.Parallel(W, W, func(w int) {
			for i := w; i < len(ls); i += W {
				l := ls[i]
				mu.Lock()
				vs, ok := memo[fmt.Sprint(l.B, "|")+pathKey(l.P[:lv-1])]
				mu.Unlock()
				if !ok {
					mu.Lock()
					infra = lib.Infra("base %d: no emitted transition leads to the source state of path %s", l.B, pathKey(l.P))
					mu.Unlock()
					return
				}
				if vs == nil {
					upds[i] = upd{fmt.Sprint(l.B, "|") + pathKey(l.P), nil, false} // the path already failed; reported there
					continue
				}
				upds[i] = upd{fmt.Sprint(l.B, "|") + pathKey(l.P), replayStep(c, l.B, vs, l), true}
			}
		})
		if infra != nil {
			return n, infra
		}
		for _, u := range upds {
			memo[u.key] = u.vs
			if u.done {
				n++
			}
		}
	}
	return n, nil
}

// replayStep performs the last step of l on the real versions vs and compares everything with
// the prescription. It returns the live versions afterwards (nil if they cannot be continued).
func replayStep(c *lib.Ctx, base int, vs []vector.Vector, l gline) []vector.Vector {
	o, isNew, err := parseStep(l.P[len(l.P)-1])
	if err != nil || o.V >= len(vs) {
		panic(fmt.Sprintf("bad step from TLC: %v", err))
	}
	gc := gcase{"G", base, l.P, l.R, l.Vers, l.Kinds}
	kind := l.Kinds[o.V]
	out := exec(vs[o.V], o)
	c.AddEvals(1)
	c.Distinct([]any{base, pathKey(l.P)})
	c.Inc("G_op_"+o.Op, 1)
	if base+3 < 2200 {
		c.Inc("shape_"+shape(vs[o.V].Len()), 1)
	}
	if out.Panic != "" {
		c.Reject("vector:panic:"+o.Op+":"+kind, fmt.Sprintf("base %d: %v on a %s vector of length %d panicked: %s", base, o, kind, vs[o.V].Len(), out.Panic), gc)
		return nil
	}
	want := l.R
	if want.Seq == nil {
		want.Seq = []rn{}
	}
	after := vs
	switch {
	case out.R.Ok && out.R.New && !want.Ok:
		key := "vector:" + o.Op + ":" + kind + ":accepted-out-of-range"
		if o.Op == "Sub" && kind == "slice" {
			key = keySubslice
		}
		c.Reject(key, fmt.Sprintf("base %d: %v on a %s vector of length %d is accepted and yields %v; the specification rejects it", base, o, kind, vs[o.V].Len(), out.R.Seq), gc)
		// the model made no new version: continue with the old ones
	case out.R.Ok != want.Ok || out.R.New != want.New || out.R.Val != want.Val || out.R.N != want.N || !equalRuns(out.R.Seq, want.Seq) ||
		(want.New && (!equalRuns(out.It, want.Seq) || out.Len != rlen(want.Seq))):
		c.Reject("vector:"+o.Op+":"+kind, fmt.Sprintf("base %d: %v on a %s vector of length %d gives %+v (iterator %v, Len %d); the specification prescribes %+v", base, o, kind, vs[o.V].Len(), out.R, out.It, out.Len, want), gc)
		if want.New != (out.Vec != nil) {
			return nil
		}
	}
	if isNew != want.New {
		panic("TLC: step flag and result disagree")
	}
	if want.New {
		after = append(append([]vector.Vector(nil), vs...), out.Vec)
	}
	if len(after) != len(l.Vers) {
		panic(fmt.Sprintf("TLC prescribes %d versions, replay has %d", len(l.Vers), len(after)))
	}
	// persistence: every live version re-read in full
	for k, v := range after {
		if d := sameContent(v, l.Vers[k]); d != "" {
			c.Reject("vector:persistence:"+o.Op+":"+kind, fmt.Sprintf("base %d: after %v version %d (%s) reads differently: %s", base, o, k, l.Kinds[k], d), gc)
			return nil
		}
	}
	return after
}

func rlen(rs []rn) int {
	n := 0
	for _, r := range rs {
		n += r.N
	}
	return n
}

// ---- replay of a stored case
func replay(c *lib.Ctx, dir string) error {
	b, err := os.ReadFile(c.Replay)
	if err != nil {
		return lib.Infra("%v", err)
	}
	var f struct {
		Case json.RawMessage `json:"case"`
	}
	if err := json.Unmarshal(b, &f); err != nil {
		return lib.Infra("%v", err)
	}
	var probe struct {
		Mode string `json:"mode"`
	}
	json.Unmarshal(f.Case, &probe)
	switch probe.Mode {
	case "G":
		var g gcase
		if err := json.Unmarshal(f.Case, &g); err != nil {
			return lib.Infra("%v", err)
		}
		pre, bad := prefill(g.Base)
		if bad != "" {
			c.Reject("vector:panic:build:Conj", bad, map[string]any{"mode": "B", "n": g.Base})
			return nil
		}
		vs := []vector.Vector{pre[g.Base]}
		for k := 0; k < len(g.P)-1; k++ {
			o, isNew, err := parseStep(g.P[k])
			if err != nil {
				return lib.Infra("%v", err)
			}
			out := exec(vs[o.V], o)
			if isNew {
				if out.Vec == nil {
					return lib.Infra("replay: prefix step %v returned no vector", o)
				}
				vs = append(vs, out.Vec)
			}
		}
		replayStep(c, g.Base, vs, gline{g.Base, g.P, g.R, g.Vers, g.Kinds})
		return nil
	case "V":
		var v vcase
		if err := json.Unmarshal(f.Case, &v); err != nil {
			return lib.Infra("%v", err)
		}
		recv, err := v.Recipe.build()
		if err != nil {
			return lib.Infra("%v", err)
		}
		nc := record(recv, v.Recipe, v.Kind, v.O)
		return judgeCases(c, dir, "JudgePVector(replay)", []vcase{nc})
	case "B":
		var w struct {
			N int `json:"n"`
		}
		json.Unmarshal(f.Case, &w)
		pre, bad := prefill(w.N)
		if bad == "" {
			_, bad = popDown(pre[w.N])
		}
		if bad != "" {
			c.Reject("vector:panic:build", bad, w)
		}
		return nil
	case "H":
		var w struct {
			Events []hevent `json:"events"`
			Seed   int64    `json:"hseed"`
			Steps  int      `json:"steps"`
			MaxLen int      `json:"maxlen"`
		}
		if err := json.Unmarshal(f.Case, &w); err != nil {
			return lib.Infra("%v", err)
		}
		h := runHistory(c, w.Seed, w.Steps, w.MaxLen)
		return judgeHistories(c, dir, "TracePVector(replay)", [][]hevent{h}, []hmeta{{w.Seed, w.Steps, w.MaxLen}})
	}
	return lib.Infra("unknown replay case mode %q", probe.Mode)
}

func sortedKeys(m map[string]int) []string {
	var ks []string
	for k := range m {
		ks = append(ks, k)
	}
	sort.Strings(ks)
	return ks
}
