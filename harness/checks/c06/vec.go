package main

// Concretisation and projection for C06: abstract operations -> calls on real vector.Vector
// values, real vectors -> contents as runs [a, n] (a, a+1, .., a+n-1). No expected outcome is
// computed here: prescribed results come from TLC (G) or are judged by TLC (V).

import (
	"fmt"

	"src.elv.sh/pkg/eval/vals"
	"src.elv.sh/pkg/persistent/vector"
)

const K = 1000 // prefill values are K+1, K+2, .. (MCPVector!K)

type rn struct {
	A int `json:"a"`
	N int `json:"n"`
}

type op struct {
	Op string `json:"op"`
	V  int    `json:"v"`
	I  int    `json:"i"`
	J  int    `json:"j"`
	X  int    `json:"x"`
}

func (o op) String() string {
	switch o.Op {
	case "Conj":
		return fmt.Sprintf("Conj(v%d,%d)", o.V, o.X)
	case "Assoc":
		return fmt.Sprintf("Assoc(v%d,%d,%d)", o.V, o.I, o.X)
	case "Sub":
		return fmt.Sprintf("Sub(v%d,%d,%d)", o.V, o.I, o.J)
	case "Index":
		return fmt.Sprintf("Index(v%d,%d)", o.V, o.I)
	case "EIndex":
		return fmt.Sprintf("vals.Index(v%d,%d)", o.V, o.I)
	case "EAssoc":
		return fmt.Sprintf("vals.Assoc(v%d,%d,%d)", o.V, o.I, o.X)
	case "ESlice":
		return fmt.Sprintf("vals.Index(v%d,\"%d..%d\")", o.V, o.I, o.J)
	}
	return fmt.Sprintf("%s(v%d)", o.Op, o.V)
}

// res mirrors PVector!R0.
type res struct {
	Ok  bool `json:"ok"`
	New bool `json:"new"`
	Val int  `json:"val"`
	N   int  `json:"n"`
	Seq []rn `json:"seq"`
}

const notInt = -777777 // projection of an element that is not an int (never produced by the spec)
const readPanicked = -888888

func elem(x any) int {
	if n, ok := x.(int); ok {
		return n
	}
	return notInt
}

func rle(xs []int) []rn {
	out := []rn{}
	for _, x := range xs {
		if m := len(out); m > 0 && out[m-1].A+out[m-1].N == x {
			out[m-1].N++
		} else {
			out = append(out, rn{x, 1})
		}
	}
	return out
}

func expand(rs []rn) []int {
	n := 0
	for _, r := range rs {
		n += r.N
	}
	out := make([]int, 0, n)
	for _, r := range rs {
		for k := 0; k < r.N; k++ {
			out = append(out, r.A+k)
		}
	}
	return out
}

type rleBuilder struct{ out []rn }

func (b *rleBuilder) add(x int) {
	if m := len(b.out); m > 0 && b.out[m-1].A+b.out[m-1].N == x {
		b.out[m-1].N++
	} else {
		b.out = append(b.out, rn{x, 1})
	}
}

// byIndex reads v with Index at every position 0..Len-1 (content as maximal runs).
func byIndex(v vector.Vector) (out []rn) {
	defer func() { // a panic while reading is projected to a content no specification prescribes
		if r := recover(); r != nil {
			out = []rn{{readPanicked, 1}}
		}
	}()
	b := rleBuilder{out: []rn{}}
	n := v.Len()
	for i := 0; i < n; i++ {
		x, ok := v.Index(i)
		if !ok {
			b.add(notInt - 1)
			continue
		}
		b.add(elem(x))
	}
	return b.out
}

// byIter reads v with its Iterator (bounded, so a runaway iterator cannot hang the check).
func byIter(v vector.Vector) (out []rn) {
	defer func() {
		if r := recover(); r != nil {
			out = []rn{{readPanicked, 1}}
		}
	}()
	b := rleBuilder{out: []rn{}}
	limit := v.Len() + 8
	k := 0
	for it := v.Iterator(); it.HasElem() && k <= limit; it.Next() {
		b.add(elem(it.Elem()))
		k++
	}
	return b.out
}

// outcome is what one real call did.
type outcome struct {
	R     res
	It    []rn // creating ops: content of the new version via Iterator
	Len   int  // creating ops: Len() of the new version
	Panic string
	Vec   vector.Vector // the new version, if the call returned one
}

// exec performs o on the real receiver and projects the outcome.
func exec(recv vector.Vector, o op) (out outcome) {
	out.R.Seq = []rn{}
	out.It = []rn{}
	defer func() {
		if r := recover(); r != nil {
			out = outcome{Panic: fmt.Sprint(r), It: []rn{}}
			out.R.Seq = []rn{}
		}
	}()
	var nv vector.Vector
	creating := true
	switch o.Op {
	case "Conj":
		nv = recv.Conj(o.X)
	case "Pop":
		nv = recv.Pop()
	case "Assoc":
		nv = recv.Assoc(o.I, o.X)
	case "Sub":
		nv = recv.SubVector(o.I, o.J)
	case "Index":
		creating = false
		x, ok := recv.Index(o.I)
		out.R.Ok = ok
		if ok {
			out.R.Val = elem(x)
		} else if x != nil {
			out.R.Val = notInt // "rejected" must come with no value
		}
	case "EIndex": // the Elvish layer: $l[i]
		creating = false
		x, err := vals.Index(recv, o.I)
		out.R.Ok = err == nil
		if err == nil {
			out.R.Val = elem(x)
		} else if x != nil {
			out.R.Val = notInt
		}
	case "ESlice": // $l[i..j]
		x, err := vals.Index(recv, fmt.Sprintf("%d..%d", o.I, o.J))
		if err == nil {
			nv, _ = x.(vector.Vector)
		}
	case "EAssoc": // assoc $l i x
		x, err := vals.Assoc(recv, o.I, o.X)
		if err == nil {
			nv, _ = x.(vector.Vector)
		}
	case "Iterate":
		creating = false
		out.R.Ok = true
		out.R.Seq = byIter(recv)
	case "Len":
		creating = false
		out.R.Ok = true
		out.R.N = recv.Len()
	default:
		panic("harness: unknown op " + o.Op)
	}
	if creating && nv != nil {
		out.Vec = nv
		out.R.Ok, out.R.New = true, true
		out.R.Seq = byIndex(nv)
		out.It = byIter(nv)
		out.Len = nv.Len()
	}
	return out
}

// sameContent compares a real vector with a content prescribed as runs, reading the vector in
// full with Len, Index at every position (and just outside), and the Iterator.
func sameContent(v vector.Vector, want []rn) (diff string) {
	defer func() {
		if r := recover(); r != nil {
			diff = fmt.Sprintf("reading the vector panicked: %v", r)
		}
	}()
	n := 0
	for _, r := range want {
		n += r.N
	}
	if v.Len() != n {
		return fmt.Sprintf("Len() = %d, prescribed %d", v.Len(), n)
	}
	i := 0
	it := v.Iterator()
	for _, r := range want {
		for k := 0; k < r.N; k++ {
			x, ok := v.Index(i)
			if !ok || elem(x) != r.A+k {
				return fmt.Sprintf("Index(%d) = %v,%v, prescribed %d", i, x, ok, r.A+k)
			}
			if !it.HasElem() {
				return fmt.Sprintf("iterator ends at %d, prescribed length %d", i, n)
			}
			if e := it.Elem(); elem(e) != r.A+k {
				return fmt.Sprintf("iterator element %d = %v, prescribed %d", i, e, r.A+k)
			}
			it.Next()
			i++
		}
	}
	if it.HasElem() {
		return fmt.Sprintf("iterator continues past the prescribed length %d", n)
	}
	return ""
}

func equalRuns(a, b []rn) bool {
	if len(a) != len(b) {
		return false
	}
	for i := range a {
		if a[i] != b[i] {
			return false
		}
	}
	return true
}

// prefill returns the real vectors of length 0..n holding K+1..K+len, built by Conj.
// A panic of the real code while building is returned as text (the caller rejects it).
func prefill(n int) (out []vector.Vector, panicked string) {
	out = make([]vector.Vector, n+1)
	defer func() {
		if r := recover(); r != nil {
			panicked = fmt.Sprintf("Conj while building a vector of length %d panicked: %v", n, r)
		}
	}()
	v := vector.Empty
	out[0] = v
	for i := 1; i <= n; i++ {
		v = v.Conj(K + i)
		if v == nil {
			return out, fmt.Sprintf("Conj on a vector of length %d returned nil", i-1)
		}
		out[i] = v
	}
	return out, ""
}

// popDown returns down[n] = top popped down to length n, for n = 0..Len(top).
func popDown(top vector.Vector) (down []vector.Vector, panicked string) {
	L := top.Len()
	down = make([]vector.Vector, L+1)
	defer func() {
		if r := recover(); r != nil {
			panicked = fmt.Sprintf("Pop while building the vectors below length %d panicked: %v", L, r)
		}
	}()
	down[L] = top
	for n := L - 1; n >= 0; n-- {
		down[n] = down[n+1].Pop()
		if down[n] == nil {
			return down, fmt.Sprintf("Pop of a vector of length %d returned nil", n+1)
		}
	}
	return down, ""
}

// shape names the structural situation of a whole vector of length n in the documented layout
// (32-element tail + 32-way tree); coverage evidence only.
func shape(n int) string {
	tree := 0
	if n >= 32 {
		tree = ((n - 1) >> 5) << 5
	}
	h := 0
	for leaves := tree / 32; leaves > 1; leaves = (leaves + 31) / 32 {
		h++
	}
	tail := n - tree
	t := "tail-part"
	if tail == 32 {
		t = "tail-full"
	} else if tail == 1 && n > 1 {
		t = "tail-one"
	} else if n == 0 {
		t = "empty"
	}
	return fmt.Sprintf("h%d/%s", h, t)
}
