package main

// V, one-step form: every operation with each boundary argument at every length 0..L.

import (
	"fmt"
	"os"
	"strconv"
	"sync"
	"time"

	"src.elv.sh/pkg/persistent/vector"
	"verif.local/harness/lib"
)

// recipe says how the executor obtained a receiver (so that a stored case can be rebuilt).
type recipe struct {
	N      int      `json:"n"`      // length of the whole vector
	Pass   string   `json:"pass"`   // "up": Conj from empty; "down": Conj to Top, then Pop down to N
	Top    int      `json:"top"`    // only for "down"
	Slices [][2]int `json:"slices"` // successive SubVector(i, j) applied to it
}

func (r recipe) build() (v vector.Vector, err error) {
	defer func() {
		if p := recover(); p != nil {
			err = fmt.Errorf("building the receiver panicked: %v", p)
		}
	}()
	switch r.Pass {
	case "up":
		pre, bad := prefill(r.N)
		if bad != "" {
			return nil, fmt.Errorf("%s", bad)
		}
		v = pre[r.N]
	case "down":
		pre, bad := prefill(r.Top)
		if bad != "" {
			return nil, fmt.Errorf("%s", bad)
		}
		down, bad := popDown(pre[r.Top])
		if bad != "" {
			return nil, fmt.Errorf("%s", bad)
		}
		v = down[r.N]
	default:
		return nil, fmt.Errorf("unknown pass %q", r.Pass)
	}
	for _, s := range r.Slices {
		v = v.SubVector(s[0], s[1])
		if v == nil {
			return nil, fmt.Errorf("recipe slice %v rejected", s)
		}
	}
	return v, nil
}

type vcase struct {
	Mode   string `json:"mode"`
	Recipe recipe `json:"recipe"`
	O      op     `json:"o"`
	Kind   string `json:"kind"`
	Parent []rn   `json:"parent"`
	R      res    `json:"r"`
	It     []rn   `json:"it"`
	Len    int    `json:"len"`
	After  []rn   `json:"after"`
	Panic  bool   `json:"panic"`
	panicS string
}

func record(recv vector.Vector, rc recipe, kind string, o op) vcase {
	return recordWith(recv, byIndex(recv), rc, kind, o)
}

func recordWith(recv vector.Vector, parent []rn, rc recipe, kind string, o op) vcase {
	if rc.Slices == nil {
		rc.Slices = [][2]int{}
	}
	out := exec(recv, o)
	return vcase{Mode: "V", Recipe: rc, O: o, Kind: kind, Parent: parent, R: out.R, It: out.It, Len: out.Len,
		After: byIndex(recv), Panic: out.Panic != "", panicS: out.Panic}
}

func uniq(xs ...int) []int {
	seen := map[int]bool{}
	var out []int
	for _, x := range xs {
		if !seen[x] {
			seen[x] = true
			out = append(out, x)
		}
	}
	return out
}

// opsFor lists the operations applied to a receiver of (reported) length n.
// With elvish, the same requests with non-negative bounds are also made through vals.Index / vals.Assoc.
func opsFor(n int, grid []int, elvish bool) []op {
	ops := []op{{Op: "Pop"}, {Op: "Conj", X: 7}, {Op: "Len"}, {Op: "Iterate"}}
	for _, i := range grid {
		ops = append(ops, op{Op: "Index", I: i}, op{Op: "Assoc", I: i, X: 7})
		if elvish && i >= 0 {
			ops = append(ops, op{Op: "EIndex", I: i}, op{Op: "EAssoc", I: i, X: 7})
		}
		for _, j := range grid {
			ops = append(ops, op{Op: "Sub", I: i, J: j})
			if elvish && i >= 0 && j >= 0 {
				ops = append(ops, op{Op: "ESlice", I: i, J: j})
			}
		}
	}
	return ops
}

// casesAt records all cases for the whole vector v (length n) and for slices / slices of slices of it.
func casesAt(v vector.Vector, rc recipe, level int, elvish bool) (out []vcase) {
	defer func() { // a panic while taking the slices to operate on: keep what was recorded so far
		if r := recover(); r != nil {
			out = append(out, vcase{Mode: "V", Recipe: rc, O: op{Op: "Sub"}, Kind: "whole", Parent: []rn{}, R: res{Seq: []rn{}}, It: []rn{}, After: []rn{}, Panic: true, panicS: fmt.Sprint(r)})
		}
	}()
	n := v.Len()
	apply := func(recv vector.Vector, rc recipe, kind string, grid []int) {
		parent := byIndex(recv)
		for _, o := range opsFor(recv.Len(), grid, elvish && (kind == "whole" || level == 2)) {
			out = append(out, recordWith(recv, parent, rc, kind, o))
		}
	}
	apply(v, rc, "whole", uniq(-1, 0, 1, n/2, n-1, n, n+1))
	// slices: taken with in-range bounds only (as reported by Len); the requests made ON them
	// include bounds outside the slice but inside the vector it was taken from.
	// level 2: all six slices + a slice of a slice at every length; level 1: one of the six (rotating
	// with the length) and the slice of a slice at every third length; level 0: one of three at even lengths
	all := [][2]int{{1, n - 1}, {0, n}, {n / 2, n}, {0, n / 2}, {n - 1, n}, {n / 3, n - n/3}}
	var parents [][2]int
	sub2 := false
	switch level {
	case 2:
		parents, sub2 = all, true
	case 1:
		parents, sub2 = [][2]int{all[n%6]}, n%3 == 0
		if sub2 && n%6 != 0 {
			parents = append(parents, all[0])
		}
	default:
		if n%2 == 0 {
			parents = [][2]int{all[(n/2)%3]}
		}
	}
	seen := map[[2]int]bool{}
	for _, p := range parents {
		if p[0] < 0 || p[0] > p[1] || p[1] > n || seen[p] {
			continue
		}
		seen[p] = true
		s := v.SubVector(p[0], p[1])
		if s == nil {
			continue // recorded as a rejected Sub by the whole-vector grid when it is a grid point
		}
		m := s.Len()
		rs := rc
		rs.Slices = [][2]int{p}
		apply(s, rs, "slice", uniq(-1, 0, 1, m/2, m-1, m, m+1, m+2))
		if sub2 && p == all[0] && m >= 2 {
			if s2 := s.SubVector(1, m-1); s2 != nil {
				m2 := s2.Len()
				rs2 := rc
				rs2.Slices = [][2]int{p, {1, m - 1}}
				apply(s2, rs2, "slice", uniq(-2, -1, 0, 1, m2-1, m2, m2+1, m2+2))
			}
		}
	}
	return out
}

func sweep(c *lib.Ctx, dir string) error {
	L := c.Pick(1100, 2200)
	if v, err := strconv.Atoi(os.Getenv("VERIF_C06_L")); err == nil && v > 0 { // development aid
		L = v
	}
	c.Set("V_sweep_max_length", L)
	up, bad := prefill(L)
	if bad != "" {
		c.Reject("vector:panic:build:Conj", bad, map[string]any{"mode": "B", "n": L})
		return nil
	}
	down, bad := popDown(up[L])
	if bad != "" {
		c.Reject("vector:panic:build:Pop", bad, map[string]any{"mode": "B", "n": L})
		return nil
	}
	const block = 400
	total := 0
	for lo := 0; lo <= L; lo += block {
		hi := min(lo+block-1, L)
		per := make([][]vcase, hi-lo+1)
		lib.Parallel(hi-lo+1, 8, func(k int) {
			n := lo + k
			cs := casesAt(up[n], recipe{N: n, Pass: "up"}, c.Pick(1, 2), true)
			cs = append(cs, casesAt(down[n], recipe{N: n, Pass: "down", Top: L}, c.Pick(0, 1), c.Thorough())...)
			per[k] = cs
		})
		var cases []vcase
		for _, cs := range per {
			cases = append(cases, cs...)
		}
		for i := range cases {
			cs := &cases[i]
			if !(len(cs.Parent) == 0 && (cs.O.Op == "Len" || cs.O.Op == "Iterate")) {
				c.Distinct([]any{cs.O.Op, cs.O.I, cs.O.J, cs.O.X, cs.Kind, cs.Parent})
			}
		}
		c.AddEvals(len(cases))
		if lo == 0 {
			c.Sample(cases[len(cases)/2])
		}
		if err := judgeCases(c, dir, "JudgePVector", cases); err != nil {
			return err
		}
		total += len(cases)
	}
	c.AddTraces(total)
	c.Set("V_sweep_cases", total)
	// the lengths stay live during the whole sweep: re-read every one of them at the end
	var mu sync.Mutex
	var late []vcase
	lib.Parallel(L+1, 8, func(n int) {
		a := recordWith(up[n], byIndex(up[n]), recipe{N: n, Pass: "up"}, "whole", op{Op: "Iterate"})
		b := recordWith(down[n], byIndex(down[n]), recipe{N: n, Pass: "down", Top: L}, "whole", op{Op: "Len"})
		mu.Lock()
		late = append(late, a, b)
		mu.Unlock()
	})
	c.AddEvals(len(late))
	c.AddTraces(len(late))
	return judgeCases(c, dir, "JudgePVector(final)", late)
}

// tcase is what TLC reads of a vcase (JudgePVector header).
type tcase struct {
	O      op   `json:"o"`
	Parent []rn `json:"parent"`
	R      res  `json:"r"`
	It     []rn `json:"it"`
	Len    int  `json:"len"`
	After  []rn `json:"after"`
	Panic  bool `json:"panic"`
}

func judgeCases(c *lib.Ctx, dir, name string, cases []vcase) error {
	ts := make([]tcase, len(cases))
	for i, cs := range cases {
		ts[i] = tcase{cs.O, cs.Parent, cs.R, cs.It, cs.Len, cs.After, cs.Panic}
	}
	if os.Getenv("VERIF_C06_CORRUPT") == "sweep" && len(ts) > 1000 { // self-test: the judge must reject these
		ts[700].After = append([]rn{{5, 1}}, ts[700].After...)
		ts[701].Len++
		ts[702].R.Ok = !ts[702].R.Ok
	}
	bad, err := lib.Judge(c, name, dir, "JudgePVector", ts, 4, 10*time.Minute)
	if err != nil {
		return err
	}
	for _, b := range bad {
		cs := cases[b.Index]
		wantOk, _ := b.Info[1].(bool)
		key := "vector:" + cs.O.Op + ":" + cs.Kind
		switch {
		case cs.Panic:
			key = "vector:panic:" + cs.O.Op + ":" + cs.Kind
		case cs.O.Op == "Sub" && cs.Kind == "slice" && !wantOk && cs.R.Ok:
			key = keySubslice
		case !wantOk && cs.R.Ok:
			key += ":accepted-out-of-range"
		}
		c.Reject(key, fmt.Sprintf("%v on a %s vector %v (recipe %+v): recorded %+v it=%v len=%d after=%v panic=%q; the specification prescribes %v",
			cs.O, cs.Kind, cs.Parent, cs.Recipe, cs.R, cs.It, cs.Len, cs.After, cs.panicS, b.Info[len(b.Info)-1]), cs)
	}
	return nil
}
