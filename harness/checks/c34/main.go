// C34 — width handling fits text to the requested number of columns
// (pkg/wcwidth Trim/Force/TrimEachLine, ui.Text.TrimWcwidth, pkg/cli/term BufferBuilder, pkg/cli/tk widgets).
//
// M: Width.tla: TrimRef is maximal and prefix-closed, ForceRef has exactly the requested width
//
//	(TLC, all strings of the bounded scope).
//
// G: every (s, w) of the scope with the results TLC prescribes is replayed through wcwidth.Trim,
//
//	wcwidth.Force, wcwidth.TrimEachLine and ui.Text.TrimWcwidth (plain content); every abstract widget
//	configuration TLC enumerates is rendered by the real tk widget at every W in 2..8, H in 1..4 and the
//	projected line widths are judged by TLC (JudgeWidth: RenderOK).
//
// V: random strings / widths and random widget states / sizes, recorded and judged by TLC.
package main

import (
	"encoding/json"
	"fmt"
	"math/rand"
	"os"
	"runtime/debug"
	"strings"
	"sync"
	"time"

	"src.elv.sh/pkg/ui"
	"src.elv.sh/pkg/wcwidth"
	"verif.local/harness/lib"
)

func main() { lib.Main("C34", run) }

var (
	keyMu   sync.Mutex
	keyHist = map[string]int{}
)

// reject counts rejected cases per key (evidence) and hands them to the verdict logic.
func reject(c *lib.Ctx, key, what string, replay any) {
	keyMu.Lock()
	keyHist[key]++
	first := keyHist[key] == 1
	keyMu.Unlock()
	if first {
		c.Logf("first rejected case with key %s: %s", key, what)
	}
	c.Reject(key, what, replay)
}

// extendFeature marks list configurations that use ExtendStyle.
func extendFeature(c Cfg) string {
	if (c.Kind == "listbox" || c.Kind == "combobox") && c.Extend {
		return ":extend-style"
	}
	return ""
}

// panicKey names the class of a recovered panic.
func panicKey(kind, msg string) string {
	for _, p := range [][2]string{{"index out of range", "index-out-of-range"}, {"slice bounds out of range", "slice-bounds"},
		{"negative Repeat count", "negative-repeat-count"}, {"nil pointer", "nil-pointer"}} {
		if strings.Contains(msg, p[0]) {
			return kind + ":panic:" + p[1]
		}
	}
	return kind + ":panic"
}


func run(c *lib.Ctx) error {
	if c.Replay != "" {
		return replay(c)
	}
	c.Set("rule", "a case is (string, width) or (widget configuration, size); distinct by canonical JSON; non-trivial = every case with w >= 0 (each has a prescribed result or a render obligation)")
	parts := []func(*lib.Ctx) error{strings_, recorded}
	errs := make([]error, len(parts))
	var wg sync.WaitGroup
	for i := range parts {
		wg.Add(1)
		go func(i int) {
			defer wg.Done()
			defer func() {
				if p := recover(); p != nil {
					errs[i] = lib.Infra("panic in check driver: %v\n%s", p, debug.Stack())
				}
			}()
			errs[i] = parts[i](c)
		}(i)
	}
	wg.Wait()
	for _, err := range errs {
		if err != nil {
			return err
		}
	}
	c.Set("rejected_cases_per_key", keyHist)
	c.Logf("rejected cases per key: %v", keyHist)
	c.Assume("TLC is trusted; the display width of a non-control character is data from wcwidth.OfRune (the Unicode table is not specified); control characters have the documented width 0 for wcwidth and are two-column caret cells in a buffer; a rendered line's width is the sum of its cells' widths")
	c.Assume("Unspecified: negative widths; W < 2; multi-line items in a horizontal list box; widget states no widget method produces")
	return nil
}

// ---- strings

type strEmitted struct {
	C struct {
		Kind string `json:"kind"`
		S    []int  `json:"s"`
		W    int    `json:"w"`
	} `json:"c"`
	Unspec bool  `json:"unspec"`
	Trim   []int `json:"trim"`
	Force  []int `json:"force"`
	Lines  []int `json:"lines"`
}

// StrCase is a recorded string case (also the replay format).
type StrCase struct {
	Kind  string  `json:"kind"` // "str"
	S     []int   `json:"s"`
	W     int     `json:"w"`
	Trim  []int   `json:"trim"`
	Force []int   `json:"force"`
	Lines []int   `json:"lines"`
	TTrim [][]int `json:"ttrim"` // plain content of ui.Text.TrimWcwidth for several segmentations
}

func eqInts(a, b []int) bool {
	if len(a) != len(b) {
		return false
	}
	for i := range a {
		if a[i] != b[i] {
			return false
		}
	}
	return true
}

func plainOf(t ui.Text) []int {
	out := []int{}
	for _, seg := range t {
		out = append(out, charsOf(seg.Text)...)
	}
	return out
}

// runStr runs the real string functions on (s, w), w >= 0.
func runStr(cs []int, w int) (sc StrCase, pan string, err error) {
	sc = StrCase{Kind: "str", S: cs, W: w, TTrim: [][]int{}}
	s, err := stringOf(cs)
	if err != nil {
		return sc, "", err
	}
	defer func() {
		if p := recover(); p != nil {
			pan = fmt.Sprint(p)
		}
	}()
	sc.Trim = charsOf(wcwidth.Trim(s, w))
	sc.Force = charsOf(wcwidth.Force(s, w))
	sc.Lines = charsOf(wcwidth.TrimEachLine(s, w))
	// ui.Text.TrimWcwidth: one segment, and every split into two differently styled segments
	sc.TTrim = append(sc.TTrim, plainOf(ui.T(s).TrimWcwidth(w)))
	rs := []rune(s)
	step := 1
	if len(rs) > 6 {
		step = len(rs) / 4 // longer (random) strings: a few segmentations
	}
	for k := 1; k < len(rs); k += step {
		t := ui.Concat(ui.T(string(rs[:k])), ui.T(string(rs[k:]), ui.Bold))
		sc.TTrim = append(sc.TTrim, plainOf(t.TrimWcwidth(w)))
	}
	return sc, "", nil
}

// strKey labels a rejected string case; exp is the prescribed trim result.
func strKey(why string, sc StrCase, exp []int) string {
	if why != "text-trimwcwidth" {
		return "wcwidth:" + why
	}
	for _, got := range sc.TTrim {
		if eqInts(got, exp) {
			continue
		}
		if len(got) < len(exp) && eqInts(got, exp[:len(got)]) && sumW(exp[len(got):]) == 0 {
			return "text-trimwcwidth:drops-zero-width-tail"
		}
		break
	}
	return "text-trimwcwidth:not-longest-prefix"
}

func strings_(c *lib.Ctx) error {
	dir := c.SpecDir("Width")
	cfg := fmt.Sprintf("CONSTANTS MaxLen = %d MaxLenNL = %d MaxW = %d Tier = %d\nINIT InitStrShards\nNEXT NextStrShards\nINVARIANT StrLaws\nINVARIANT EmitStr\n",
		c.Pick(4, 5), c.Pick(3, 5), c.Pick(7, 11), c.Pick(1, 2))
	r, err := c.TLC("MCWidth/strings", lib.TLCRun{Dir: dir, Module: "MCWidth", Workers: 4, Timeout: 14 * time.Minute, HeapGB: 6,
		Files: map[string][]byte{"MCWidth.cfg": []byte(cfg)}})
	if err != nil {
		return err
	}
	if r.ErrKind != "" {
		return lib.Infra("a law of Width.tla fails in the model itself (%s %s)\n%s", r.ErrKind, r.ErrName, r.ErrTrace)
	}
	seen := map[string]bool{}
	n, unspec := 0, 0
	for _, s := range r.PrintedStrings() {
		if seen[s] {
			continue
		}
		seen[s] = true
		var em strEmitted
		if err := json.Unmarshal([]byte(s), &em); err != nil {
			return lib.Infra("bad case from TLC: %v: %s", err, s)
		}
		n++
		if em.Unspec {
			unspec++
			continue
		}
		c.Distinct(em.C)
		c.AddEvals(1)
		sc, pan, err := runStr(em.C.S, em.C.W)
		if err != nil {
			return lib.Infra("string case: %v", err)
		}
		str, _ := stringOf(em.C.S)
		if pan != "" {
			reject(c, "wcwidth:panic", fmt.Sprintf("(%q, %d): panic %s", str, em.C.W, pan), sc)
			continue
		}
		why := ""
		switch {
		case !eqInts(sc.Trim, em.Trim):
			why = "trim"
		case !eqInts(sc.Force, em.Force):
			why = "force"
		case !eqInts(sc.Lines, em.Lines):
			why = "trimeachline"
		default:
			for _, tt := range sc.TTrim {
				if !eqInts(tt, em.Trim) {
					why = "text-trimwcwidth"
				}
			}
		}
		if why != "" {
			reject(c, strKey(why, sc, em.Trim), fmt.Sprintf("(%q, %d): real code %s; specification prescribes trim=%v force=%v lines=%v", str, em.C.W, js(sc), em.Trim, em.Force, em.Lines), sc)
		}
		if n%3000 == 1 {
			c.Sample(em)
		}
	}
	if want := r.Distinct - int64(c.Pick(7, 11)+2); int64(n) != want {
		return lib.Infra("TLC reported %d string cases, received %d", want, n)
	}
	c.AddTraces(n)
	c.Set("string_cases", n)
	c.Set("string_cases_unspecified", unspec)
	c.Set("exhaustive", true)
	c.Logf("strings: %d cases replayed", n)
	return nil
}

// ---- widgets

var gridSizes = func() []Size {
	var out []Size
	for w := 2; w <= 8; w++ {
		for h := 1; h <= 4; h++ {
			out = append(out, Size{w, h})
		}
	}
	return out
}()

// quick tier: the corner and middle sizes of the grid
var quickSizes = []Size{{2, 1}, {2, 2}, {2, 4}, {3, 1}, {3, 3}, {4, 2}, {5, 1}, {5, 4}, {6, 2}, {8, 1}, {8, 3}, {8, 4}}

// renderAndCollect renders configurations; panics are rejected here, the rest goes to the judge.
func renderAndCollect(c *lib.Ctx, cfgs []Cfg, sizesOf func(i int) []Size, seed int64) ([]WidgetCase, error) {
	var out []WidgetCase
	for i, cf := range cfgs {
		sizes := sizesOf(i)
		wc, pan, err := renderAll(cf, sizes, seed+int64(i))
		if err != nil {
			return nil, lib.Infra("widget %s: %v", js(cf), err)
		}
		c.AddEvals(len(sizes))
		if pan != "" {
			reject(c, panicKey(cf.key(), pan)+extendFeature(cf), fmt.Sprintf("%s panics: %s", js(cf), pan), wc)
			continue
		}
		out = append(out, wc)
	}
	return out, nil
}

func judgeWidgets(c *lib.Ctx, name string, wcs []WidgetCase, par int) error {
	bad, err := lib.Judge(c, name, c.SpecDir("Width"), "JudgeWidth", wcs, par, 12*time.Minute)
	if err != nil {
		return err
	}
	c.AddTraces(len(wcs))
	for _, b := range bad {
		rejectWidget(c, wcs[b.Index], b.Info)
	}
	return nil
}

func rejectWidget(c *lib.Ctx, wc WidgetCase, info []any) {
	why, at := "render", ""
	if len(info) >= 2 {
		if j, ok := info[0].(int64); ok && j >= 1 && int(j) <= len(wc.Renders) {
			r := wc.Renders[j-1]
			at = fmt.Sprintf("Render(%d, %d) produced %d lines of widths %v", r.W, r.H, len(r.Lines), r.Lines)
		}
		if s, ok := info[1].(string); ok {
			why = s
		}
	}
	if wc.Cfg.feature() == ":control-chars" && (why == "height-exceeded" || why == "width-exceeded") {
		why = "overflow" // a caret cell both widens a line and wraps it; one class
	}
	reject(c, wc.Cfg.key()+":"+why+wc.Cfg.feature(), fmt.Sprintf("%s: %s", js(wc.Cfg), at), wc)
}


func widgets(c *lib.Ctx) ([]WidgetCase, error) {
	dir := c.SpecDir("Width")
	cfg := fmt.Sprintf("CONSTANTS MaxLen = 1 MaxLenNL = 1 MaxW = 1 Tier = %d\nINIT InitWidget\nNEXT Next\nINVARIANT EmitWidget\n", c.Pick(1, 2))
	r, err := c.TLC("MCWidth/widgets", lib.TLCRun{Dir: dir, Module: "MCWidth", Workers: 2, Timeout: 14 * time.Minute, HeapGB: 6,
		Files: map[string][]byte{"MCWidth.cfg": []byte(cfg)}})
	if err != nil {
		return nil, err
	}
	if r.ErrKind != "" {
		return nil, lib.Infra("MCWidth/widgets: %s %s", r.ErrKind, r.Err)
	}
	seen := map[string]bool{}
	var cfgs []Cfg
	kinds := map[string]int{}
	for _, s := range r.PrintedStrings() {
		if seen[s] {
			continue
		}
		seen[s] = true
		var cf Cfg
		if err := json.Unmarshal([]byte(s), &cf); err != nil {
			return nil, lib.Infra("bad widget configuration from TLC: %v: %s", err, s)
		}
		cfgs = append(cfgs, cf)
		kinds[cf.key()]++
		c.Distinct(cf)
	}
	if int64(len(cfgs)) != r.Distinct { // (probes are appended below)
		return nil, lib.Infra("TLC reported %d widget configurations, received %d", r.Distinct, len(cfgs))
	}
	sizes := gridSizes
	if c.Quick() {
		sizes = quickSizes
	}
	pr := probes()
	for _, p := range pr {
		cfgs = append(cfgs, p.cfg)
	}
	nEnum := len(cfgs) - len(pr)
	wcs, err := renderAndCollect(c, cfgs, func(i int) []Size {
		if i >= nEnum {
			return pr[i-nEnum].sizes
		}
		return sizes
	}, c.Seed*1000003)
	if err != nil {
		return nil, err
	}
	if len(wcs) > 0 {
		c.Sample(wcs[len(wcs)/2].Cfg)
	}
	c.Set("widget_configurations", kinds)
	c.Set("renders_per_configuration", len(sizes))
	c.Logf("widgets: %d configurations x %d sizes (+ %d directed probes) rendered and judged %v", nEnum, len(sizes), len(pr), kinds)
	return wcs, nil
}

// recorded: everything that is judged by TLC after the fact (enumerated widget configurations,
// random strings, random widget states) goes to JudgeWidth in one batch.
func recorded(c *lib.Ctx) error {
	wcs, err := widgets(c)
	if err != nil {
		return err
	}
	scs, rws, err := randomAll(c)
	if err != nil {
		return err
	}
	var all []any
	for _, x := range wcs {
		all = append(all, x)
	}
	for _, x := range scs {
		all = append(all, x)
	}
	for _, x := range rws {
		all = append(all, x)
	}
	bad, err := lib.Judge(c, "JudgeWidth", c.SpecDir("Width"), "JudgeWidth", all, c.Pick(2, 6), 14*time.Minute)
	if err != nil {
		return err
	}
	c.AddTraces(len(all))
	for _, b := range bad {
		switch x := all[b.Index].(type) {
		case WidgetCase:
			rejectWidget(c, x, b.Info)
		case StrCase:
			rejectStr(c, x, b.Info)
		}
	}
	c.Logf("judged by TLC: %d enumerated widget configurations, %d random strings, %d random widget states", len(wcs), len(scs), len(rws))
	return nil
}

// ---- replay

func replay(c *lib.Ctx) error {
	b, err := os.ReadFile(c.Replay)
	if err != nil {
		return lib.Infra("%v", err)
	}
	var f struct {
		Case json.RawMessage `json:"case"`
	}
	if err := json.Unmarshal(b, &f); err != nil {
		return lib.Infra("%v", err)
	}
	var kind struct {
		Kind string `json:"kind"`
	}
	json.Unmarshal(f.Case, &kind)
	if kind.Kind == "widget" {
		var wc WidgetCase
		if err := json.Unmarshal(f.Case, &wc); err != nil {
			return lib.Infra("%v", err)
		}
		var sizes []Size
		for _, r := range wc.Renders {
			sizes = append(sizes, Size{r.W, r.H})
		}
		if len(sizes) == 0 {
			sizes = gridSizes
		}
		w2, pan, err := renderAll(wc.Cfg, sizes, wc.RepSeed)
		if err != nil {
			return lib.Infra("%v", err)
		}
		if pan != "" {
			reject(c, panicKey(wc.Cfg.key(), pan)+extendFeature(wc.Cfg), pan, w2)
			return nil
		}
		return judgeWidgets(c, "JudgeWidth/replay", []WidgetCase{w2}, 1)
	}
	var sc StrCase
	if err := json.Unmarshal(f.Case, &sc); err != nil {
		return lib.Infra("%v", err)
	}
	s2, pan, err := runStr(sc.S, sc.W)
	if err != nil {
		return lib.Infra("%v", err)
	}
	if pan != "" {
		reject(c, "wcwidth:panic", pan, s2)
		return nil
	}
	return judgeStrs(c, "JudgeWidth/replay", []StrCase{s2}, 1)
}

func judgeStrs(c *lib.Ctx, name string, scs []StrCase, par int) error {
	bad, err := lib.Judge(c, name, c.SpecDir("Width"), "JudgeWidth", scs, par, 12*time.Minute)
	if err != nil {
		return err
	}
	c.AddTraces(len(scs))
	for _, b := range bad {
		rejectStr(c, scs[b.Index], b.Info)
	}
	return nil
}

func rejectStr(c *lib.Ctx, sc StrCase, info []any) {
	why := "trim"
	var exp []int
	if len(info) >= 2 {
		if s, ok := info[1].(string); ok {
			why = s
		}
	}
	if len(info) >= 3 {
		if s, ok := info[2].(string); ok {
			json.Unmarshal([]byte(s), &exp)
		}
	}
	str, _ := stringOf(sc.S)
	reject(c, strKey(why, sc, exp), fmt.Sprintf("(%q, %d): real code %s", str, sc.W, js(sc)), sc)
}

var _ = rand.Int
