package main

// Directed configurations for the findings recorded in findings.d/C34.json, so that each of them is
// reproduced on every run (they are rendered and judged by TLC like every other configuration).

type probe struct {
	cfg   Cfg
	sizes []Size
}

func cs(s string) []int { return charsOf(s) }

func probes() []probe {
	noPending := &Pending{Content: []int{}}
	return []probe{
		// vertical list, multi-line item cut with the wrong bound
		{Cfg{Kind: "listbox", Items: [][]int{cs("a"), cs("b\nc\nd\ne")}}, []Size{{5, 2}}},
		{Cfg{Kind: "combobox", Buffer: cs("x"), Pending: noPending, Items: [][]int{cs("a"), cs("b\nc\nd\ne")}}, []Size{{8, 3}}},
		// ExtendStyle with an empty right spacing
		{Cfg{Kind: "listbox", Items: [][]int{cs("a"), cs("b"), cs("c")}, Padding: 1, Extend: true}, []Size{{2, 1}}},
		{Cfg{Kind: "listbox", Horizontal: true, Items: [][]int{cs("a"), cs("a")}, Padding: 1, Extend: true}, []Size{{6, 1}}},
		{Cfg{Kind: "combobox", Buffer: cs("x"), Pending: noPending, Horizontal: true, Items: [][]int{cs("a"), cs("a")}, Padding: 1, Extend: true}, []Size{{6, 2}}},
		// control characters: 0 columns for wcwidth, 2 columns (caret notation) in a buffer
		{Cfg{Kind: "textview", Lines: [][]int{cs("\tab"), cs("x")}}, []Size{{3, 2}}},
		{Cfg{Kind: "listbox", Items: [][]int{cs("echo\ta"), cs("b")}}, []Size{{5, 2}}},
		{Cfg{Kind: "listbox", Horizontal: true, Items: [][]int{cs("ab\tcd"), cs("b"), cs("c"), cs("d")}}, []Size{{6, 2}}},
		{Cfg{Kind: "combobox", Buffer: cs("x"), Pending: noPending, Items: [][]int{cs("echo\ta"), cs("b")}}, []Size{{5, 3}}},
	}
}
