package main

// V: random strings / widths and random widget states / sizes.

import (
	"math/rand"

	"verif.local/harness/lib"
)

var rndRunes = [][]rune{
	[]rune("abcXYZ019 _-~"),
	[]rune("你好か한"),
	{0x1F600, 0x1F680},
	{0x0301, 0x200B, 0xFE0F},
	{'\t', 0x1b, 0x7f, 0x85, 0x01},
	[]rune("éΩж€"),
	{0x1D11E},
}
var rndWeights = []int{8, 4, 1, 2, 1, 2, 1}

func rndRune(r *rand.Rand) rune {
	tot := 0
	for _, w := range rndWeights {
		tot += w
	}
	k := r.Intn(tot)
	for i, w := range rndWeights {
		if k < w {
			return rndRunes[i][r.Intn(len(rndRunes[i]))]
		}
		k -= w
	}
	return 'a'
}

func rndChars(r *rand.Rand, maxLen int, nl bool) []int {
	cs := []int{}
	for n := r.Intn(maxLen + 1); n > 0; n-- {
		if nl && r.Intn(7) == 0 {
			cs = append(cs, pack('\n'))
		} else {
			cs = append(cs, pack(rndRune(r)))
		}
	}
	return cs
}

func sumW(cs []int) int {
	w := 0
	for _, c := range cs {
		w += chW(c)
	}
	return w
}

func rndWidget(r *rand.Rand) Cfg {
	switch r.Intn(7) {
	case 0:
		return Cfg{Kind: "label", Content: rndChars(r, 30, true)}
	case 1:
		c := Cfg{Kind: "textview", Scrollable: r.Intn(2) == 0}
		for n := r.Intn(8); n > 0; n-- {
			c.Lines = append(c.Lines, rndChars(r, 20, false))
		}
		c.First = r.Intn(len(c.Lines) + 1)
		return c
	case 2, 3:
		return rndListBox(r)
	case 4, 5:
		return rndCodeArea(r)
	}
	c := rndCodeArea(r)
	lb := rndListBox(r)
	c.Kind = "combobox"
	c.Horizontal, c.Items, c.Selected, c.First, c.Padding, c.Extend = lb.Horizontal, lb.Items, lb.Selected, lb.First, lb.Padding, lb.Extend
	return c
}

func rndListBox(r *rand.Rand) Cfg {
	c := Cfg{Kind: "listbox", Horizontal: r.Intn(2) == 0, Padding: r.Intn(2), Extend: r.Intn(3) == 0}
	for n := r.Intn(9); n > 0; n-- {
		it := rndChars(r, 10, !c.Horizontal)
		c.Items = append(c.Items, it)
	}
	if len(c.Items) > 0 {
		c.Selected = r.Intn(len(c.Items))
		c.First = r.Intn(len(c.Items))
	}
	return c
}

func rndCodeArea(r *rand.Rand) Cfg {
	c := Cfg{Kind: "codearea", Prompt: rndChars(r, 8, true), RPrompt: rndChars(r, 6, true), Buffer: rndChars(r, 40, true)}
	c.Dot = r.Intn(len(c.Buffer) + 1)
	p := &Pending{Content: []int{}}
	if r.Intn(2) == 0 {
		p.From = r.Intn(len(c.Buffer) + 1)
		p.To = p.From + r.Intn(len(c.Buffer)-p.From+1)
		p.Content = rndChars(r, 8, true)
	}
	c.Pending = p
	for n := r.Intn(3); n > 0; n-- {
		c.Tips = append(c.Tips, rndChars(r, 25, true))
	}
	return c
}

func randomAll(c *lib.Ctx) ([]StrCase, []WidgetCase, error) {
	rng := rand.New(rand.NewSource(c.Seed*7919 + 34))
	// strings
	var scs []StrCase
	for i := 0; i < c.Pick(1500, 30000); i++ {
		cs := rndChars(rng, 16, true)
		w := rng.Intn(sumW(cs) + 4)
		c.AddEvals(1)
		sc, pan, err := runStr(cs, w)
		if err != nil {
			return nil, nil, lib.Infra("random string: %v", err)
		}
		if pan != "" {
			reject(c, "wcwidth:panic", pan, sc)
			continue
		}
		scs = append(scs, sc)
		c.Distinct([]any{cs, w})
	}
	c.Set("random_strings_judged", len(scs))
	// widgets
	var cfgs []Cfg
	sizes := map[int][]Size{}
	for i := 0; i < c.Pick(1500, 30000); i++ {
		cfgs = append(cfgs, rndWidget(rng))
		for k := 0; k < 5; k++ {
			sizes[i] = append(sizes[i], Size{2 + rng.Intn(29), 1 + rng.Intn(8)})
		}
		c.Distinct(cfgs[i])
	}
	wcs, err := renderAndCollect(c, cfgs, func(i int) []Size { return sizes[i] }, c.Seed*15485863)
	if err != nil {
		return nil, nil, err
	}
	c.Set("random_widgets_judged", len(wcs))
	return scs, wcs, nil
}
