package main

// Abstract forms shared with spec/Width/*.tla and their binding to the real code:
// concretise (abstract chars / widget configurations -> real strings and tk widgets) and
// project (real results -> chars; rendered term.Buffer -> cell widths per line).

import (
	"encoding/json"
	"fmt"
	"math/rand"
	"strings"
	"unicode/utf8"

	"src.elv.sh/pkg/cli/term"
	"src.elv.sh/pkg/cli/tk"
	"src.elv.sh/pkg/ui"
	"src.elv.sh/pkg/wcwidth"
)

func isControl(r rune) bool { return r < 32 || (0x7f <= r && r < 0xa0) }

// pack: code point, width, UTF-8 length as in Width.tla. The width of a control character is the
// documented one (0, "Control character" in wcwidth.go), not asked from OfRune; every other width
// is data from the Unicode table.
func pack(r rune) int {
	w := 0
	if !isControl(r) {
		w = wcwidth.OfRune(r)
	}
	return int(r)*12 + w*4 + (utf8.RuneLen(r) - 1)
}
func chId(c int) rune { return rune(c / 12) }
func chW(c int) int   { return (c % 12) / 4 }

func charsOf(s string) []int {
	cs := []int{}
	for _, r := range s {
		cs = append(cs, pack(r))
	}
	return cs
}

// stringOf concretises model chars; the width the model assumes must be the table's (data) unless
// the char is a control character (documented width).
func stringOf(cs []int) (string, error) {
	var sb strings.Builder
	for _, c := range cs {
		r := chId(c)
		if !utf8.ValidRune(r) || utf8.RuneLen(r) != c%4+1 {
			return "", fmt.Errorf("char %d: bad code point / UTF-8 length", c)
		}
		if !isControl(r) && wcwidth.OfRune(r) != chW(c) {
			return "", fmt.Errorf("char %d: wcwidth.OfRune(U+%04X) = %d, model says %d", c, r, wcwidth.OfRune(r), chW(c))
		}
		if isControl(r) && chW(c) != 0 {
			return "", fmt.Errorf("char %d: control character with model width %d", c, chW(c))
		}
		sb.WriteRune(r)
	}
	return sb.String(), nil
}

// ---- class representatives for widget configurations (the model uses one char per class)

var reps = map[rune][]rune{
	'a':    []rune("aZ0é€"),
	0x4F60: {0x4F60, 0x597D, 0x304B, 0x1F600},
	0x0301: {0x0301, 0x200B},
	9:      {9, 1, 0x1b, 0x7f},
	10:     {10},
}

// concretise maps model chars to a string, replacing each char by a representative of its class.
func concretise(cs []int, rng *rand.Rand) (string, error) {
	var sb strings.Builder
	for _, c := range cs {
		r := chId(c)
		if alt, ok := reps[r]; ok && rng != nil {
			r = alt[rng.Intn(len(alt))]
		}
		sb.WriteRune(r)
	}
	// same classes => same widths; checked
	s := sb.String()
	i := 0
	for _, r := range s {
		if chW(pack(r)) != chW(cs[i]) {
			return "", fmt.Errorf("representative U+%04X has width %d, class width %d", r, chW(pack(r)), chW(cs[i]))
		}
		i++
	}
	return s, nil
}

// ---- widget configurations (MCWidth.tla)

type Pending struct {
	From    int   `json:"from"`
	To      int   `json:"to"`
	Content []int `json:"content"`
}

type Cfg struct {
	Kind string `json:"kind"`
	// label
	Content []int `json:"content,omitempty"`
	// textview
	Lines      [][]int `json:"lines,omitempty"`
	First      int     `json:"first"`
	Scrollable bool    `json:"scrollable"`
	// listbox
	Horizontal bool    `json:"horizontal"`
	Items      [][]int `json:"items,omitempty"`
	Selected   int     `json:"selected"`
	Padding    int     `json:"padding"`
	Extend     bool    `json:"extend"`
	// codearea
	Prompt  []int    `json:"prompt,omitempty"`
	RPrompt []int    `json:"rprompt,omitempty"`
	Buffer  []int    `json:"buffer,omitempty"`
	Dot     int      `json:"dot"`
	Pending *Pending `json:"pending,omitempty"`
	Tips    [][]int  `json:"tips,omitempty"`
	// combobox = codearea fields + listbox fields; colview = Cols
	Cols []Cfg `json:"cols,omitempty"`
}

func (c Cfg) key() string {
	if c.Kind == "listbox" {
		if c.Horizontal {
			return "listbox-horizontal"
		}
		return "listbox-vertical"
	}
	return c.Kind
}

func (c Cfg) allChars() [][]int {
	out := [][]int{c.Content, c.Prompt, c.RPrompt, c.Buffer}
	out = append(out, c.Lines...)
	out = append(out, c.Items...)
	out = append(out, c.Tips...)
	if c.Pending != nil {
		out = append(out, c.Pending.Content)
	}
	for _, cc := range c.Cols {
		out = append(out, cc.allChars()...)
	}
	return out
}

// feature names the structural class of a configuration that enters the key of a rejected render
// (labels only; never a verdict): content with control characters that a buffer shows in caret
// notation; a vertical list with multi-line items.
func (c Cfg) feature() string {
	for _, cs := range c.allChars() {
		for _, ch := range cs {
			if r := chId(ch); (r < 0x20 && r != '\n') || r == 0x7f {
				return ":control-chars"
			}
		}
	}
	if (c.Kind == "listbox" || c.Kind == "combobox") && !c.Horizontal {
		for _, it := range c.Items {
			for _, ch := range it {
				if chId(ch) == '\n' {
					return ":multiline-items"
				}
			}
		}
	}
	return ""
}

type listItems []ui.Text

func (it listItems) Show(i int) ui.Text { return it[i] }
func (it listItems) Len() int           { return len(it) }

// styled gives a text for s, sometimes in two differently styled segments (styles never change widths).
func styled(s string, rng *rand.Rand) ui.Text {
	if rng == nil || len(s) == 0 || rng.Intn(3) > 0 {
		return ui.T(s)
	}
	rs := []rune(s)
	k := rng.Intn(len(rs) + 1)
	return ui.Concat(ui.T(string(rs[:k]), ui.FgRed), ui.T(string(rs[k:]), ui.Bold))
}

func byteOffset(s string, chars int) int {
	n := 0
	for i := range s {
		if n == chars {
			return i
		}
		n++
	}
	return len(s)
}

// build makes a fresh real widget for the configuration.
func build(c Cfg, rng *rand.Rand) (tk.Renderer, error) {
	str := func(cs []int) (string, error) { return concretise(cs, rng) }
	switch c.Kind {
	case "label":
		s, err := str(c.Content)
		if err != nil {
			return nil, err
		}
		return tk.Label{Content: styled(s, rng)}, nil
	case "textview":
		var lines []string
		for _, l := range c.Lines {
			s, err := str(l)
			if err != nil {
				return nil, err
			}
			lines = append(lines, s)
		}
		return tk.NewTextView(tk.TextViewSpec{Scrollable: c.Scrollable, State: tk.TextViewState{Lines: lines, First: c.First}}), nil
	case "listbox":
		return tk.NewListBox(listBoxSpec(c, rng)), nil
	case "codearea":
		spec, err := codeAreaSpec(c, rng)
		if err != nil {
			return nil, err
		}
		return tk.NewCodeArea(spec), nil
	case "combobox":
		spec, err := codeAreaSpec(c, rng)
		if err != nil {
			return nil, err
		}
		return tk.NewComboBox(tk.ComboBoxSpec{CodeArea: spec, ListBox: listBoxSpec(c, rng)}), nil
	case "colview":
		var cols []tk.Widget
		for _, cc := range c.Cols {
			r, err := build(cc, rng)
			if err != nil {
				return nil, err
			}
			w, ok := r.(tk.Widget)
			if !ok {
				return nil, fmt.Errorf("column %s is not a widget", cc.Kind)
			}
			cols = append(cols, w)
		}
		return tk.NewColView(tk.ColViewSpec{State: tk.ColViewState{Columns: cols}}), nil
	}
	return nil, fmt.Errorf("unknown widget kind %q", c.Kind)
}

func listBoxSpec(c Cfg, rng *rand.Rand) tk.ListBoxSpec {
	var items listItems
	for _, it := range c.Items {
		s, _ := concretise(it, rng)
		items = append(items, styled(s, rng))
	}
	return tk.ListBoxSpec{Horizontal: c.Horizontal, Padding: c.Padding, ExtendStyle: c.Extend,
		Placeholder: ui.T("(none)"),
		State:       tk.ListBoxState{Items: items, Selected: c.Selected, First: c.First}}
}

func codeAreaSpec(c Cfg, rng *rand.Rand) (tk.CodeAreaSpec, error) {
	var spec tk.CodeAreaSpec
	prompt, err := concretise(c.Prompt, rng)
	if err != nil {
		return spec, err
	}
	rprompt, err := concretise(c.RPrompt, rng)
	if err != nil {
		return spec, err
	}
	buf, err := concretise(c.Buffer, rng)
	if err != nil {
		return spec, err
	}
	var tips []ui.Text
	for _, t := range c.Tips {
		s, err := concretise(t, rng)
		if err != nil {
			return spec, err
		}
		tips = append(tips, styled(s, rng))
	}
	pt, rt := styled(prompt, rng), styled(rprompt, rng)
	spec.Prompt = func() ui.Text { return pt }
	spec.RPrompt = func() ui.Text { return rt }
	spec.Highlighter = func(code string) (ui.Text, []ui.Text) { return styled(code, rng), tips }
	spec.State.Buffer = tk.CodeBuffer{Content: buf, Dot: byteOffset(buf, c.Dot)}
	if c.Pending != nil {
		pc, err := concretise(c.Pending.Content, rng)
		if err != nil {
			return spec, err
		}
		spec.State.Pending = tk.PendingCode{From: byteOffset(buf, c.Pending.From), To: byteOffset(buf, c.Pending.To), Content: pc}
	}
	return spec, nil
}

// ---- projection of a rendered buffer

type Render struct {
	W     int   `json:"W"`
	H     int   `json:"H"`
	Lines []int `json:"lines"` // display width of every rendered line
}

// cellWidth is the number of columns a cell takes: the sum of its runes' table widths (a control
// character below 0x20 / 0x7f arrives here already in caret notation, two narrow runes).
func cellWidth(c term.Cell) int { return wcwidth.Of(c.Text) }

func projectBuffer(b *term.Buffer, w, h int) Render {
	r := Render{W: w, H: h, Lines: []int{}}
	if b == nil {
		return r
	}
	for _, l := range b.Lines {
		lw := 0
		for _, cell := range l {
			lw += cellWidth(cell)
		}
		r.Lines = append(r.Lines, lw)
	}
	return r
}

type WidgetCase struct {
	Kind    string   `json:"kind"` // "widget"
	Cfg     Cfg      `json:"cfg"`
	Renders []Render `json:"renders"`
	RepSeed int64    `json:"repseed"`
}

type Size struct{ W, H int }

// renderAll builds a fresh widget per size and renders it. A panic is returned as text.
func renderAll(c Cfg, sizes []Size, repSeed int64) (wc WidgetCase, pan string, err error) {
	wc = WidgetCase{Kind: "widget", Cfg: c, RepSeed: repSeed, Renders: []Render{}}
	for _, sz := range sizes {
		rng := rand.New(rand.NewSource(repSeed))
		w, err := build(c, rng)
		if err != nil {
			return wc, "", err
		}
		var buf *term.Buffer
		pan = func() (p string) {
			defer func() {
				if x := recover(); x != nil {
					p = fmt.Sprintf("Render(%d, %d): %v", sz.W, sz.H, x)
				}
			}()
			buf = w.Render(sz.W, sz.H)
			return ""
		}()
		if pan != "" {
			return wc, pan, nil
		}
		wc.Renders = append(wc.Renders, projectBuffer(buf, sz.W, sz.H))
	}
	return wc, "", nil
}

func js(v any) string { b, _ := json.Marshal(v); return string(b) }
