// C33 — styled text stays normalised and keeps its content (pkg/ui, pkg/ui/styledown).
//
// M: StyledText.tla's laws (normality = canonical form, content laws per operation) on every case
//
//	of the bounded scopes; MCStyledText: behaviours over a pool of texts and a TextBuilder.
//
// G: every case / behaviour TLC enumerates carries the results the specification accepts; it is
//
//	replayed on the real pkg/ui API, the real result is projected and compared after every step.
//
// V: random texts (full style lattice, random colours and runes) and arguments run on the real
//
//	code, recorded, and judged by TLC (JudgeStyledText); Styledown round trips likewise.
package main

import (
	"encoding/json"
	"fmt"
	"os"
	"runtime/debug"
	"sort"
	"sync"
	"time"

	"verif.local/harness/lib"
)

func main() { lib.Main("C33", run) }

func run(c *lib.Ctx) error {
	if c.Replay != "" {
		return replay(c)
	}
	c.Set("rule", "a case is one call (operation, projected arguments); distinct by its canonical JSON; non-trivial = every case except those the specification leaves Unspecified (each has a prescribed result set)")
	// the four parts are independent; they run side by side (each starts its own TLC processes)
	parts := []func(*lib.Ctx) error{oneStep, behaviours, random, styledown}
	errs := make([]error, len(parts))
	var wg sync.WaitGroup
	for i := range parts {
		wg.Add(1)
		go func(i int) {
			defer wg.Done()
			defer func() {
				if p := recover(); p != nil {
					errs[i] = lib.Infra("panic in check driver: %v\n%s", p, debug.Stack())
				}
			}()
			errs[i] = parts[i](c)
		}(i)
	}
	wg.Wait()
	for _, err := range errs {
		if err != nil {
			return err
		}
	}
	c.Assume("TLC is trusted; display width and UTF-8 length of a char are data taken from wcwidth.OfRune / utf8 (checked when a model char is concretised); Normal(t) is the doc comment of ui.Text; the executor compares projected results with the result sets TLC prescribes and never computes an expected result itself")
	c.Assume("Unspecified: Partition at an index that is not a char boundary / out of range / decreasing; TrimWcwidth(w<0); the number of pieces (0 or 1) of SplitByRune on the empty text; Styledown for zero-width characters (Render rejects them)")
	return nil
}

// oneStep: M + G over the exhaustive one-step scopes (ScopeOf in MCStyledCases.tla).
func oneStep(c *lib.Ctx) error {
	dir := c.SpecDir("StyledText")
	cfg := fmt.Sprintf("CONSTANT Tier = %d\nINIT InitAll\nNEXT Next\nINVARIANT InputsOK\nINVARIANT LawOK\nINVARIANT Emit\n", c.Pick(1, 2))
	r, err := c.TLC("MCStyledCases", lib.TLCRun{Dir: dir, Module: "MCStyledCases", Workers: 4, Timeout: 14 * time.Minute, HeapGB: 8,
		Files: map[string][]byte{"MCStyledCases.cfg": []byte(cfg)}})
	if err != nil {
		return err
	}
	if r.ErrKind != "" {
		return lib.Infra("a law of StyledText fails in the model itself (%s %s)\n%s", r.ErrKind, r.ErrName, r.ErrTrace)
	}
	seen := map[string]bool{}
	scopes := map[string]int{}
	unspec, n := 0, 0
	for _, s := range r.PrintedStrings() {
		if seen[s] {
			continue
		}
		seen[s] = true
		var em Emitted
		if err := json.Unmarshal([]byte(s), &em); err != nil {
			return lib.Infra("bad case from TLC: %v: %s", err, s)
		}
		n++
		scopes[em.C.Op]++
		if em.Unspec {
			unspec++
		} else {
			c.Distinct(em.C)
		}
		if err := replayCase(c, em); err != nil {
			return err
		}
		if n%4000 == 1 {
			c.Sample(em)
		}
	}
	if int64(n) != r.Distinct {
		return lib.Infra("TLC reported %d cases, received %d", r.Distinct, n)
	}
	c.AddTraces(n)
	c.Logf("one-step: %d cases replayed %v", n, scopes)
	c.Set("one_step_cases", scopes)
	c.Set("unspecified_not_judged", unspec)
	c.Set("exhaustive", true)
	return nil
}

var replayMu sync.Mutex

func replay(c *lib.Ctx) error {
	b, err := os.ReadFile(c.Replay)
	if err != nil {
		return lib.Infra("%v", err)
	}
	var f struct {
		Key  string          `json:"key"`
		Case json.RawMessage `json:"case"`
	}
	if err := json.Unmarshal(b, &f); err != nil {
		return lib.Infra("%v", err)
	}
	var kind struct {
		Kind string `json:"kind"`
	}
	json.Unmarshal(f.Case, &kind)
	switch kind.Kind {
	case "behaviour":
		var bh Behaviour
		if err := json.Unmarshal(f.Case, &bh); err != nil {
			return lib.Infra("%v", err)
		}
		return replayBehaviour(c, bh)
	case "recorded":
		var rc Recorded
		if err := json.Unmarshal(f.Case, &rc); err != nil {
			return lib.Infra("%v", err)
		}
		return rejudge(c, rc)
	case "styledown":
		var sc SDCase
		if err := json.Unmarshal(f.Case, &sc); err != nil {
			return lib.Infra("%v", err)
		}
		return rejudgeSD(c, sc)
	}
	var em Emitted
	if err := json.Unmarshal(f.Case, &em); err != nil {
		return lib.Infra("%v", err)
	}
	return replayCase(c, em)
}

func sortedKeys(m map[string]int) []string {
	var ks []string
	for k := range m {
		ks = append(ks, k)
	}
	sort.Strings(ks)
	return ks
}

var _ = fmt.Sprint
