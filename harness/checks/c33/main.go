// C33 — styled text stays normalised and keeps its content (pkg/ui, pkg/ui/styledown).
//
// M: StyledText.tla's laws (normality = canonical form, content laws per operation) on every case
//
//	of the bounded scopes; MCStyledText: behaviours over a pool of texts and a TextBuilder.
//
// G: every case / behaviour TLC enumerates carries the results the specification accepts; it is
//
//	replayed on the real pkg/ui API, the real result is projected and compared after every step.
//
// V: random texts (full style lattice, random colours and runes) and arguments run on the real
//
//	code, recorded, and judged by TLC (JudgeStyledText); Styledown round trips likewise.
package main

import (
	"encoding/json"
	"fmt"
	"os"
	"sort"
	"sync"
	"time"

	"verif.local/harness/lib"
)

func main() { lib.Main("C33", run) }

type opRun struct {
	init   string
	consts string // quick
	constT string // thorough
}

func cfg(init, consts string) []byte {
	return []byte("CONSTANTS " + consts + "\nINIT " + init + "\nNEXT Next\nINVARIANT InputsOK\nINVARIANT LawOK\nINVARIANT Emit\n")
}

// Scopes of the exhaustive one-step enumeration. Alphabets (Alpha): 1 {a,wide,combining}
// 2 {a,newline,wide} 3 {a,e-acute} 4 {a,wide} 5 {a,wide,combining,newline} 6 {a,e-acute,wide}.
var opRuns = []opRun{
	{"InitT", "MaxSegs = 1 MaxChars = 2 MaxW = 0 NStyles = 2 Alpha = 5 MaxIx = 0 MaxScript = 0",
		"MaxSegs = 1 MaxChars = 3 MaxW = 0 NStyles = 2 Alpha = 5 MaxIx = 0 MaxScript = 0"},
	{"InitConcat", "MaxSegs = 2 MaxChars = 1 MaxW = 0 NStyles = 3 Alpha = 4 MaxIx = 0 MaxScript = 0",
		"MaxSegs = 2 MaxChars = 2 MaxW = 0 NStyles = 3 Alpha = 4 MaxIx = 0 MaxScript = 0"},
	{"InitConcat3", "MaxSegs = 1 MaxChars = 1 MaxW = 0 NStyles = 3 Alpha = 4 MaxIx = 0 MaxScript = 0",
		"MaxSegs = 2 MaxChars = 1 MaxW = 0 NStyles = 3 Alpha = 4 MaxIx = 0 MaxScript = 0"},
	{"InitPartition", "MaxSegs = 2 MaxChars = 2 MaxW = 0 NStyles = 2 Alpha = 3 MaxIx = 2 MaxScript = 0",
		"MaxSegs = 3 MaxChars = 2 MaxW = 0 NStyles = 2 Alpha = 3 MaxIx = 2 MaxScript = 0"},
	{"InitSplit", "MaxSegs = 2 MaxChars = 2 MaxW = 0 NStyles = 3 Alpha = 2 MaxIx = 0 MaxScript = 0",
		"MaxSegs = 3 MaxChars = 2 MaxW = 0 NStyles = 3 Alpha = 2 MaxIx = 0 MaxScript = 0"},
	{"InitTrim", "MaxSegs = 2 MaxChars = 2 MaxW = 5 NStyles = 3 Alpha = 1 MaxIx = 0 MaxScript = 0",
		"MaxSegs = 3 MaxChars = 2 MaxW = 7 NStyles = 3 Alpha = 1 MaxIx = 0 MaxScript = 0"},
	{"InitStyle", "MaxSegs = 2 MaxChars = 2 MaxW = 0 NStyles = 3 Alpha = 4 MaxIx = 0 MaxScript = 0",
		"MaxSegs = 3 MaxChars = 1 MaxW = 0 NStyles = 4 Alpha = 4 MaxIx = 0 MaxScript = 0"},
	{"InitStyleSeg", "MaxSegs = 1 MaxChars = 2 MaxW = 0 NStyles = 4 Alpha = 4 MaxIx = 0 MaxScript = 0",
		"MaxSegs = 1 MaxChars = 2 MaxW = 0 NStyles = 4 Alpha = 5 MaxIx = 0 MaxScript = 0"},
	{"InitTB", "MaxSegs = 2 MaxChars = 1 MaxW = 0 NStyles = 2 Alpha = 4 MaxIx = 0 MaxScript = 2",
		"MaxSegs = 2 MaxChars = 1 MaxW = 0 NStyles = 2 Alpha = 4 MaxIx = 0 MaxScript = 3"},
}

func run(c *lib.Ctx) error {
	if c.Replay != "" {
		return replay(c)
	}
	c.Set("rule", "a case is one call (operation, projected arguments); distinct by its canonical JSON; non-trivial = every case except those the specification leaves Unspecified (each has a prescribed result set)")
	if err := oneStep(c); err != nil {
		return err
	}
	if err := behaviours(c); err != nil {
		return err
	}
	if err := random(c); err != nil {
		return err
	}
	if err := styledown(c); err != nil {
		return err
	}
	c.Assume("TLC is trusted; display width and UTF-8 length of a char are data taken from wcwidth.OfRune / utf8 (checked when a model char is concretised); Normal(t) is the doc comment of ui.Text; the executor compares projected results with the result sets TLC prescribes and never computes an expected result itself")
	c.Assume("Unspecified: Partition at an index that is not a char boundary / out of range / decreasing; TrimWcwidth(w<0); the number of pieces (0 or 1) of SplitByRune on the empty text; Styledown for zero-width characters (Render rejects them)")
	return nil
}

// oneStep: M + G over the exhaustive one-step scopes, one TLC process per operation.
func oneStep(c *lib.Ctx) error {
	dir := c.SpecDir("StyledText")
	type out struct {
		ems   []Emitted
		err   error
		count int64
	}
	outs := make([]out, len(opRuns))
	lib.Parallel(len(opRuns), 5, func(i int) {
		o := opRuns[i]
		consts := o.consts
		if c.Thorough() {
			consts = o.constT
		}
		r, err := c.TLC("MCStyledCases/"+o.init, lib.TLCRun{Dir: dir, Module: "MCStyledCases", Workers: 2, Timeout: 12 * time.Minute, HeapGB: 6,
			Files: map[string][]byte{"MCStyledCases.cfg": cfg(o.init, consts)}})
		if err != nil {
			outs[i].err = err
			return
		}
		if r.ErrKind != "" {
			outs[i].err = lib.Infra("%s: a law of StyledText fails in the model itself (%s %s)\n%s", o.init, r.ErrKind, r.ErrName, r.ErrTrace)
			return
		}
		seen := map[string]bool{}
		for _, s := range r.PrintedStrings() {
			if seen[s] {
				continue
			}
			seen[s] = true
			var em Emitted
			if err := json.Unmarshal([]byte(s), &em); err != nil {
				outs[i].err = lib.Infra("bad case from TLC: %v: %s", err, s)
				return
			}
			outs[i].ems = append(outs[i].ems, em)
		}
		if int64(len(outs[i].ems)) != r.Distinct {
			outs[i].err = lib.Infra("%s: TLC reported %d cases, received %d", o.init, r.Distinct, len(outs[i].ems))
		}
	})
	scopes := map[string]int{}
	unspec := 0
	for i, o := range outs {
		if o.err != nil {
			return o.err
		}
		scopes[opRuns[i].init] = len(o.ems)
		for k, em := range o.ems {
			if em.Unspec {
				unspec++
			} else {
				c.Distinct(em.C)
			}
			if err := replayCase(c, em); err != nil {
				return err
			}
			if k == len(o.ems)/2 && i%3 == 0 {
				c.Sample(em)
			}
		}
		c.AddTraces(len(o.ems))
		c.Logf("%s: %d cases replayed", opRuns[i].init, len(o.ems))
	}
	c.Set("one_step_cases", scopes)
	c.Set("unspecified_not_judged", unspec)
	c.Set("exhaustive", true)
	return nil
}

var replayMu sync.Mutex

func replay(c *lib.Ctx) error {
	b, err := os.ReadFile(c.Replay)
	if err != nil {
		return lib.Infra("%v", err)
	}
	var f struct {
		Key  string          `json:"key"`
		Case json.RawMessage `json:"case"`
	}
	if err := json.Unmarshal(b, &f); err != nil {
		return lib.Infra("%v", err)
	}
	var kind struct {
		Kind string `json:"kind"`
	}
	json.Unmarshal(f.Case, &kind)
	switch kind.Kind {
	case "behaviour":
		var bh Behaviour
		if err := json.Unmarshal(f.Case, &bh); err != nil {
			return lib.Infra("%v", err)
		}
		return replayBehaviour(c, bh)
	case "recorded":
		var rc Recorded
		if err := json.Unmarshal(f.Case, &rc); err != nil {
			return lib.Infra("%v", err)
		}
		return rejudge(c, rc)
	case "styledown":
		var sc SDCase
		if err := json.Unmarshal(f.Case, &sc); err != nil {
			return lib.Infra("%v", err)
		}
		return rejudgeSD(c, sc)
	}
	var em Emitted
	if err := json.Unmarshal(f.Case, &em); err != nil {
		return lib.Infra("%v", err)
	}
	return replayCase(c, em)
}

func sortedKeys(m map[string]int) []string {
	var ks []string
	for k := range m {
		ks = append(ks, k)
	}
	sort.Strings(ks)
	return ks
}

var _ = fmt.Sprint
