package main

// Abstract form of styled text shared with spec/StyledText/StyledText.tla, and the two functions
// that bind it to pkg/ui: project (real value -> abstract) and concretise (abstract -> real input).

import (
	"fmt"
	"strings"
	"unicode/utf8"

	"src.elv.sh/pkg/ui"
	"src.elv.sh/pkg/wcwidth"
)

type Style struct {
	Fg string `json:"fg"`
	Bg string `json:"bg"`
	At int    `json:"at"`
}

type Seg struct {
	St Style `json:"st"`
	Cs []int `json:"cs"`
}

type Text struct {
	Nil  bool  `json:"nil"`
	Segs []Seg `json:"segs"`
}

type Styling struct {
	K string `json:"k"`
	C string `json:"c"`
	B int    `json:"b"`
}

// Case is one call (see "cases" in StyledText.tla). All fields are always present.
type Case struct {
	Op string    `json:"op"`
	T  Text      `json:"t"`
	Ts []Text    `json:"ts"`
	Ix []int     `json:"ix"`
	W  int       `json:"w"`
	Gs []Styling `json:"gs"`
	R  int       `json:"r"`
	S  []int     `json:"s"`
}

// Result is what a call produced / what the specification accepts.
type Result struct {
	Texts []Text `json:"texts"`
	Flags []bool `json:"flags"`
}

// ---- chars: code point, display width and UTF-8 length packed as in StyledText.tla

func pack(r rune) int { return int(r)*12 + wcwidth.OfRune(r)*4 + (utf8.RuneLen(r) - 1) }

func chId(c int) rune { return rune(c / 12) }
func chW(c int) int   { return (c % 12) / 4 }
func chB(c int) int   { return c%4 + 1 }

// runeOf concretises a char and checks that the attributes the model was given are the real ones.
func runeOf(c int) (rune, error) {
	r := chId(c)
	if !utf8.ValidRune(r) || utf8.RuneLen(r) != chB(c) {
		return 0, fmt.Errorf("char %d: code point U+%04X has UTF-8 length %d, model says %d", c, r, utf8.RuneLen(r), chB(c))
	}
	if w := wcwidth.OfRune(r); w != chW(c) {
		return 0, fmt.Errorf("char %d: wcwidth.OfRune(U+%04X) = %d, model says %d", c, r, w, chW(c))
	}
	return r, nil
}

func stringOf(cs []int) (string, error) {
	var sb strings.Builder
	for _, c := range cs {
		r, err := runeOf(c)
		if err != nil {
			return "", err
		}
		sb.WriteRune(r)
	}
	return sb.String(), nil
}

func charsOf(s string) []int {
	cs := []int{}
	for _, r := range s {
		cs = append(cs, pack(r))
	}
	return cs
}

// ---- styles

var bitStylings = map[int][3]ui.Styling{
	1:  {ui.Bold, ui.NoBold, ui.ToggleBold},
	2:  {ui.Dim, ui.NoDim, ui.ToggleDim},
	4:  {ui.Italic, ui.NoItalic, ui.ToggleItalic},
	8:  {ui.Underlined, ui.NoUnderlined, ui.ToggleUnderlined},
	16: {ui.Blink, ui.NoBlink, ui.ToggleBlink},
	32: {ui.Inverse, ui.NoInverse, ui.ToggleInverse},
}

func colorOf(name string) (ui.Color, error) {
	if name == "" {
		return nil, nil
	}
	sg := ui.ParseStyling("fg-" + name)
	if sg == nil {
		return nil, fmt.Errorf("colour %q not understood by ui.ParseStyling", name)
	}
	c := ui.ApplyStyling(ui.Style{}, sg).Fg
	if c == nil || c.String() != name {
		return nil, fmt.Errorf("colour %q does not survive ui.ParseStyling", name)
	}
	return c, nil
}

func stylingOf(g Styling) (ui.Styling, error) {
	switch g.K {
	case "reset":
		return ui.Reset, nil
	case "fg", "bg":
		c, err := colorOf(g.C)
		if err != nil {
			return nil, err
		}
		if g.K == "fg" {
			return ui.Fg(c), nil
		}
		return ui.Bg(c), nil
	case "on", "off", "toggle":
		t, ok := bitStylings[g.B]
		if !ok {
			return nil, fmt.Errorf("styling bit %d", g.B)
		}
		return t[map[string]int{"on": 0, "off": 1, "toggle": 2}[g.K]], nil
	}
	return nil, fmt.Errorf("styling kind %q", g.K)
}

func stylingsOf(gs []Styling) ([]ui.Styling, error) {
	out := []ui.Styling{}
	for _, g := range gs {
		s, err := stylingOf(g)
		if err != nil {
			return nil, err
		}
		out = append(out, s)
	}
	return out, nil
}

// stylingsFor gives stylings that turn the default style into st.
func stylingsFor(st Style) []Styling {
	gs := []Styling{}
	if st.Fg != "" {
		gs = append(gs, Styling{"fg", st.Fg, 0})
	}
	if st.Bg != "" {
		gs = append(gs, Styling{"bg", st.Bg, 0})
	}
	for b := 1; b <= 32; b *= 2 {
		if st.At&b != 0 {
			gs = append(gs, Styling{"on", "", b})
		}
	}
	return gs
}

func realStyle(st Style) (ui.Style, error) {
	ss, err := stylingsOf(stylingsFor(st))
	if err != nil {
		return ui.Style{}, err
	}
	return ui.ApplyStyling(ui.Style{}, ss...), nil
}

func projectStyle(s ui.Style) Style {
	var st Style
	if s.Fg != nil {
		st.Fg = s.Fg.String()
	}
	if s.Bg != nil {
		st.Bg = s.Bg.String()
	}
	for i, b := range []bool{s.Bold, s.Dim, s.Italic, s.Underlined, s.Blink, s.Inverse} {
		if b {
			st.At |= 1 << i
		}
	}
	return st
}

// ---- texts

func projectSeg(g *ui.Segment) Seg { return Seg{projectStyle(g.Style), charsOf(g.Text)} }

// project reports nil-ness and the segments exactly as they are (no normalisation).
func project(t ui.Text) Text {
	p := Text{Nil: t == nil, Segs: []Seg{}}
	for _, g := range t {
		p.Segs = append(p.Segs, projectSeg(g))
	}
	return p
}

func projectAll(ts []ui.Text) []Text {
	out := []Text{}
	for _, t := range ts {
		out = append(out, project(t))
	}
	return out
}

// realText builds the real value of a NORMAL abstract text using only the public constructors
// (ui.T per segment, ui.Concat); the caller checks project(realText(t)) == t.
func realText(t Text) (ui.Text, error) {
	parts := []ui.Text{}
	for _, g := range t.Segs {
		s, err := stringOf(g.Cs)
		if err != nil {
			return nil, err
		}
		ss, err := stylingsOf(stylingsFor(g.St))
		if err != nil {
			return nil, err
		}
		parts = append(parts, ui.T(s, ss...))
	}
	if len(parts) == 1 {
		return parts[0], nil
	}
	return ui.Concat(parts...), nil
}

func realSegment(g Seg) (*ui.Segment, error) {
	s, err := stringOf(g.Cs)
	if err != nil {
		return nil, err
	}
	st, err := realStyle(g.St)
	if err != nil {
		return nil, err
	}
	return &ui.Segment{Style: st, Text: s}, nil
}

func eqInts(a, b []int) bool {
	if len(a) != len(b) {
		return false
	}
	for i := range a {
		if a[i] != b[i] {
			return false
		}
	}
	return true
}

func eqText(a, b Text) bool {
	if a.Nil != b.Nil || len(a.Segs) != len(b.Segs) {
		return false
	}
	for i := range a.Segs {
		if a.Segs[i].St != b.Segs[i].St || !eqInts(a.Segs[i].Cs, b.Segs[i].Cs) {
			return false
		}
	}
	return true
}

func eqResult(a, b Result) bool {
	if len(a.Texts) != len(b.Texts) || len(a.Flags) != len(b.Flags) {
		return false
	}
	for i := range a.Texts {
		if !eqText(a.Texts[i], b.Texts[i]) {
			return false
		}
	}
	for i := range a.Flags {
		if a.Flags[i] != b.Flags[i] {
			return false
		}
	}
	return true
}

func plain(t Text) []int {
	out := []int{}
	for _, g := range t.Segs {
		out = append(out, g.Cs...)
	}
	return out
}

func plainAll(ts []Text) []int {
	out := []int{}
	for _, t := range ts {
		out = append(out, plain(t)...)
	}
	return out
}

// shape names the way a projected text fails to be in normal form ("" if it is normal).
// It only labels rejected cases (finding keys); it never decides a verdict.
func shape(t Text) string {
	for _, g := range t.Segs {
		if len(g.Cs) == 0 {
			return "empty-segment"
		}
	}
	if len(t.Segs) == 0 && !t.Nil {
		return "empty-non-nil"
	}
	for i := 0; i+1 < len(t.Segs); i++ {
		if t.Segs[i].St == t.Segs[i+1].St {
			return "equal-style-neighbours"
		}
	}
	return ""
}

var opNames = map[string]string{"t": "t", "concat": "concat", "partition": "partition", "split": "splitbyrune",
	"trim": "trimwcwidth", "style": "styletext", "styleseg": "stylesegment", "tb": "textbuilder",
	"tbwrite": "textbuilder", "tbtext": "textbuilder", "tbreset": "textbuilder"}

// classify labels a rejected result: <operation>:<class>.
func classify(op string, got Result, alts []Result) string {
	name := opNames[op]
	if name == "" {
		name = op
	}
	for _, t := range got.Texts {
		if s := shape(t); s != "" {
			return name + ":" + s
		}
	}
	if len(alts) > 0 {
		exp := alts[0]
		if len(got.Texts) != len(exp.Texts) {
			return name + ":piece-count"
		}
		gp, ep := plainAll(got.Texts), plainAll(exp.Texts)
		if !eqInts(gp, ep) {
			if op == "trim" && len(gp) < len(ep) && eqInts(gp, ep[:len(gp)]) {
				zero := true
				for _, c := range ep[len(gp):] {
					if chW(c) != 0 {
						zero = false
					}
				}
				if zero {
					return name + ":drops-zero-width-tail"
				}
			}
			return name + ":content"
		}
		for i := range got.Texts {
			if !eqInts(plain(got.Texts[i]), plain(exp.Texts[i])) {
				return name + ":cut-position"
			}
		}
		if len(got.Flags) != len(exp.Flags) {
			return name + ":flags"
		}
		for i := range got.Flags {
			if got.Flags[i] != exp.Flags[i] {
				return name + ":empty-flag"
			}
		}
	}
	return name + ":style"
}
