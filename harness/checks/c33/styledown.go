package main

// Styledown codec: G (MCStyledown: round trips of enumerated texts; Render of enumerated
// structural markups) and V (random texts and style sheets judged by JudgeStyledown).

import (
	"encoding/json"
	"fmt"
	"math/rand"
	"strings"
	"time"

	sd "src.elv.sh/pkg/ui/styledown"
	"verif.local/harness/lib"
)

type SDDef struct {
	Ch int   `json:"ch"`
	St Style `json:"st"`
}

type SDOut struct {
	Err bool `json:"err"`
	T2  Text `json:"t2"`
}

type SDLine struct {
	Text  []int `json:"text"`
	Style []int `json:"style"`
}

type SDMarkup struct {
	Lines []SDLine `json:"lines"`
	NoEOL bool     `json:"noeol"`
	Used  []int    `json:"used"`
}

// SDCase is both a generated case (Kind rt/render, from MCStyledown) and a recorded one.
type SDCase struct {
	Kind string   `json:"kind"` // "styledown" when stored as a replay
	Sub  string   `json:"sub"`  // "rt" | "render"
	T    Text     `json:"t"`
	M    SDMarkup `json:"m"`
	Defs []SDDef  `json:"defs"`
	Out  SDOut    `json:"out"`
	Alts []SDOut  `json:"alts"`
}

type sdEmitted struct {
	C struct {
		Kind string   `json:"kind"`
		T    Text     `json:"t"`
		M    SDMarkup `json:"m"`
	} `json:"c"`
	Alts   []SDOut `json:"alts"`
	Unspec bool    `json:"unspec"`
}

// stylingString renders a style as the kebab-case styling names ui.ParseStyling understands.
func stylingString(st Style) string {
	var parts []string
	if st.Fg != "" {
		parts = append(parts, "fg-"+st.Fg)
	}
	if st.Bg != "" {
		parts = append(parts, "bg-"+st.Bg)
	}
	for i, n := range []string{"bold", "dim", "italic", "underlined", "blink", "inverse"} {
		if st.At&(1<<i) != 0 {
			parts = append(parts, n)
		}
	}
	return strings.Join(parts, " ")
}

func defsString(defs []SDDef) string {
	var sb strings.Builder
	for _, d := range defs {
		fmt.Fprintf(&sb, "%c %s\n", rune(d.Ch), stylingString(d.St))
	}
	return sb.String()
}

// roundTrip runs Derender then Render on the real code.
func roundTrip(t Text, defs []SDDef) (out SDOut, markup string, pan string, err error) {
	out.T2 = Text{Nil: true, Segs: []Seg{}}
	rt, err := inputText(t)
	if err != nil {
		return out, "", "", err
	}
	defer func() {
		if p := recover(); p != nil {
			pan = fmt.Sprint(p)
		}
	}()
	markup, derr := sd.Derender(rt, defsString(defs))
	if derr != nil {
		out.Err = true
		return out, "", "", nil
	}
	t2, rerr := sd.Render(markup)
	if rerr != nil {
		out.Err = true
		return out, markup, "", nil
	}
	out.T2 = project(t2)
	return out, markup, "", nil
}

// markupString concretises a structural markup.
func markupString(m SDMarkup, defs []SDDef) (string, error) {
	var sb strings.Builder
	for _, l := range m.Lines {
		s, err := stringOf(l.Text)
		if err != nil {
			return "", err
		}
		sb.WriteString(s + "\n")
		for _, ch := range l.Style {
			sb.WriteRune(rune(ch))
		}
		sb.WriteString("\n")
	}
	sb.WriteString("\n")
	if m.NoEOL {
		sb.WriteString("no-eol\n")
	}
	sb.WriteString(defsString(defs))
	return sb.String(), nil
}

func sdAccepted(out SDOut, alts []SDOut) bool {
	for _, a := range alts {
		if a.Err == out.Err && (out.Err || eqText(a.T2, out.T2)) {
			return true
		}
	}
	return false
}

// sdKey labels a rejected round trip.
func sdKey(sub string, t Text, out SDOut, alts []SDOut) string {
	if sub == "render" {
		if out.Err {
			return "styledown-render:unexpected-error"
		}
		if len(alts) > 0 && alts[0].Err {
			return "styledown-render:error-expected"
		}
		return "styledown-render:text"
	}
	wantErr := len(alts) > 0
	for _, a := range alts {
		if !a.Err {
			wantErr = false
		}
	}
	if wantErr {
		return "styledown:unsupported-style-accepted"
	}
	if out.Err {
		return "styledown:unexpected-error"
	}
	// same text except for the styles of newlines?
	strip := func(x Text) Text {
		y := Text{Segs: []Seg{}}
		for _, g := range x.Segs {
			h := Seg{St: g.St}
			for _, ch := range g.Cs {
				if chId(ch) != '\n' {
					h.Cs = append(h.Cs, ch)
				}
			}
			if len(h.Cs) > 0 {
				if n := len(y.Segs); n > 0 && y.Segs[n-1].St == h.St {
					y.Segs[n-1].Cs = append(y.Segs[n-1].Cs, h.Cs...)
				} else {
					y.Segs = append(y.Segs, h)
				}
			}
		}
		y.Nil = len(y.Segs) == 0
		return y
	}
	if eqInts(plain(t), plain(out.T2)) && eqText(strip(t), strip(out.T2)) {
		return "styledown:newline-style-lost"
	}
	return "styledown:text-changed"
}

var rSheet = []SDDef{{Ch: 'R', St: Style{Fg: "red"}}}

func replaySD(c *lib.Ctx, sc SDCase) error {
	c.AddEvals(1)
	switch sc.Sub {
	case "rt":
		out, markup, pan, err := roundTrip(sc.T, sc.Defs)
		if ie, ok := err.(inputError); ok {
			c.Reject("construct:styledown", ie.Error(), sc)
			return nil
		}
		if err != nil {
			return lib.Infra("styledown case: %v", err)
		}
		sc.Out = out
		if pan != "" {
			c.Reject("styledown:panic", fmt.Sprintf("Derender/Render of %s panics: %s", js(sc.T), pan), sc)
			return nil
		}
		if !sdAccepted(out, sc.Alts) {
			c.Reject(sdKey("rt", sc.T, out, sc.Alts), fmt.Sprintf("Render(Derender(%s)) via markup %q gives %s; specification accepts %s", js(sc.T), markup, js(out), js(sc.Alts)), sc)
		}
	case "render":
		src, err := markupString(sc.M, sc.Defs)
		if err != nil {
			return lib.Infra("styledown markup: %v", err)
		}
		out := SDOut{T2: Text{Nil: true, Segs: []Seg{}}}
		pan := func() (pan string) {
			defer func() {
				if p := recover(); p != nil {
					pan = fmt.Sprint(p)
				}
			}()
			t2, rerr := sd.Render(src)
			if rerr != nil {
				out.Err = true
			} else {
				out.T2 = project(t2)
			}
			return ""
		}()
		sc.Out = out
		if pan != "" {
			c.Reject("styledown-render:panic", fmt.Sprintf("Render(%q) panics: %s", src, pan), sc)
			return nil
		}
		if !sdAccepted(out, sc.Alts) {
			c.Reject(sdKey("render", sc.T, out, sc.Alts), fmt.Sprintf("Render(%q) gives %s; specification accepts %s", src, js(out), js(sc.Alts)), sc)
		}
	default:
		return lib.Infra("styledown case kind %q", sc.Sub)
	}
	return nil
}

func sdCfg(init string, segs, chars, lines, nsty int) []byte {
	return []byte(fmt.Sprintf("CONSTANTS MaxSegs = %d MaxChars = %d MaxLines = %d NSty = %d\nINIT %s\nNEXT Next\nINVARIANT LawOK\nINVARIANT Emit\n", segs, chars, lines, nsty, init))
}

func styledown(c *lib.Ctx) error {
	dir := c.SpecDir("StyledText")
	type job struct {
		name string
		cfg  []byte
	}
	jobs := []job{
		{"MCStyledown/rt+render1", sdCfg("InitBoth", c.Pick(2, 3), 2, 1, 4)},
	}
	if c.Thorough() {
		jobs = append(jobs, job{"MCStyledown/render2", sdCfg("InitRender", 0, 1, 2, 2)})
	}
	outs := make([][]SDCase, len(jobs))
	errs := make([]error, len(jobs))
	unspec := 0
	lib.Parallel(len(jobs), 3, func(i int) {
		r, err := c.TLC(jobs[i].name, lib.TLCRun{Dir: dir, Module: "MCStyledown", Workers: 2, Timeout: 12 * time.Minute, HeapGB: 6,
			Files: map[string][]byte{"MCStyledown.cfg": jobs[i].cfg}})
		if err != nil {
			errs[i] = err
			return
		}
		if r.ErrKind != "" {
			errs[i] = lib.Infra("%s: the Styledown model violates its own law (%s %s)\n%s", jobs[i].name, r.ErrKind, r.ErrName, r.ErrTrace)
			return
		}
		seen := map[string]bool{}
		for _, s := range r.PrintedStrings() {
			if seen[s] {
				continue
			}
			seen[s] = true
			var em sdEmitted
			if err := json.Unmarshal([]byte(s), &em); err != nil {
				errs[i] = lib.Infra("bad styledown case from TLC: %v: %s", err, s)
				return
			}
			if em.Unspec {
				unspec++
				continue
			}
			outs[i] = append(outs[i], SDCase{Kind: "styledown", Sub: em.C.Kind, T: em.C.T, M: em.C.M, Defs: rSheet, Alts: em.Alts})
		}
		if int64(len(seen)) != r.Distinct {
			errs[i] = lib.Infra("%s: TLC reported %d cases, received %d", jobs[i].name, r.Distinct, len(seen))
		}
	})
	counts := map[string]int{}
	for i := range jobs {
		if errs[i] != nil {
			return errs[i]
		}
		for k, sc := range outs[i] {
			if err := replaySD(c, sc); err != nil {
				return err
			}
			c.Distinct(sc)
			if k == len(outs[i])/2 {
				c.Sample(sc)
			}
		}
		c.AddTraces(len(outs[i]))
		counts[jobs[i].name] = len(outs[i])
		c.Logf("%s: %d cases replayed", jobs[i].name, len(outs[i]))
	}
	c.Set("styledown_cases", counts)
	return sdRandom(c)
}

// ---- V

type sdRecorded struct {
	T    Text    `json:"t"`
	Defs []SDDef `json:"defs"`
	Out  SDOut   `json:"out"`
}

var sdRunes = []rune("abcXYZ 019你好かéΩ€\U0001F600")

func sdRandomCase(r *rand.Rand) (Text, []SDDef) {
	// a sheet of 0..4 non-built-in styles
	defs := []SDDef{}
	builtin := map[Style]bool{{}: true, {At: 1}: true, {At: 8}: true, {At: 32}: true}
	used := map[Style]bool{}
	for n := r.Intn(5); n > 0; n-- {
		st := randStyle(r)
		if builtin[st] || used[st] {
			continue
		}
		used[st] = true
		defs = append(defs, SDDef{Ch: int('A') + len(defs), St: st})
	}
	pool := []Style{{}, {At: 1}, {At: 8}, {At: 32}}
	for _, d := range defs {
		pool = append(pool, d.St)
	}
	// styled chars -> canonical text
	t := Text{Segs: []Seg{}}
	n := r.Intn(14)
	cur := pool[r.Intn(len(pool))]
	for i := 0; i < n; i++ {
		if r.Intn(3) == 0 {
			cur = pool[r.Intn(len(pool))]
			if r.Intn(40) == 0 {
				cur = randStyle(r) // most likely not in the sheet
			}
		}
		ch := pack(sdRunes[r.Intn(len(sdRunes))])
		st := cur
		switch k := r.Intn(30); {
		case k < 5:
			ch = pack('\n')
			if r.Intn(8) != 0 {
				st = Style{}
			}
		case k == 5:
			ch = pack(0x0301) // Unspecified
		}
		if m := len(t.Segs); m > 0 && t.Segs[m-1].St == st {
			t.Segs[m-1].Cs = append(t.Segs[m-1].Cs, ch)
		} else {
			t.Segs = append(t.Segs, Seg{st, []int{ch}})
		}
	}
	t.Nil = len(t.Segs) == 0
	return t, defs
}

func sdRandom(c *lib.Ctx) error {
	n := c.Pick(1000, 20000)
	rng := rand.New(rand.NewSource(c.Seed*104729 + 2))
	var recs []sdRecorded
	// directed probe for the recorded finding
	type in struct {
		t    Text
		defs []SDDef
	}
	ins := []in{{Text{Segs: []Seg{seg1("a\n", Style{At: 1})}}, []SDDef{}}}
	for i := 0; i < n; i++ {
		t, defs := sdRandomCase(rng)
		ins = append(ins, in{t, defs})
	}
	for _, x := range ins {
		c.AddEvals(1)
		out, _, pan, err := roundTrip(x.t, x.defs)
		sc := SDCase{Kind: "styledown", Sub: "rt", T: x.t, Defs: x.defs, Out: out}
		if ie, ok := err.(inputError); ok {
			c.Reject("construct:styledown", ie.Error(), sc)
			continue
		}
		if err != nil {
			return lib.Infra("styledown random case: %v", err)
		}
		if pan != "" {
			c.Reject("styledown:panic", fmt.Sprintf("Derender/Render of %s panics: %s", js(x.t), pan), sc)
			continue
		}
		recs = append(recs, sdRecorded{x.t, x.defs, out})
		c.Distinct(x)
	}
	bad, err := lib.Judge(c, "JudgeStyledown", c.SpecDir("StyledText"), "JudgeStyledown", recs, c.Pick(1, 4), 10*time.Minute)
	if err != nil {
		return err
	}
	c.AddTraces(len(recs))
	for _, b := range bad {
		rc := recs[b.Index]
		// label: which outcome would have been accepted is implied by the class of the text
		alts := []SDOut{{Err: false, T2: rc.T}}
		key := sdKey("rt", rc.T, rc.Out, alts)
		if !rc.Out.Err && eqText(rc.Out.T2, rc.T) {
			key = "styledown:unsupported-style-accepted"
		}
		c.Reject(key, fmt.Sprintf("Render(Derender(%s, %q)) gives %s", js(rc.T), defsString(rc.Defs), js(rc.Out)),
			SDCase{Kind: "styledown", Sub: "rt", T: rc.T, Defs: rc.Defs, Out: rc.Out})
	}
	c.Set("styledown_random_judged", len(recs))
	c.Logf("styledown random: %d round trips judged by TLC", len(recs))
	return nil
}

func rejudgeSD(c *lib.Ctx, sc SDCase) error {
	if len(sc.Alts) > 0 {
		return replaySD(c, sc)
	}
	out, _, pan, err := roundTrip(sc.T, sc.Defs)
	if err != nil || pan != "" {
		return lib.Infra("styledown replay: %v %s", err, pan)
	}
	recs := []sdRecorded{{sc.T, sc.Defs, out}}
	bad, err := lib.Judge(c, "JudgeStyledown", c.SpecDir("StyledText"), "JudgeStyledown", recs, 1, 5*time.Minute)
	if err != nil {
		return err
	}
	for range bad {
		c.Reject(sdKey("rt", sc.T, out, []SDOut{{T2: sc.T}}), fmt.Sprintf("Render(Derender(%s)) gives %s", js(sc.T), js(out)), sc)
	}
	return nil
}
