package main

// Execution of one abstract case on the real pkg/ui API and comparison with what the
// specification accepts.

import (
	"encoding/json"
	"fmt"
	"runtime/debug"

	"src.elv.sh/pkg/ui"
	"verif.local/harness/lib"
)

// Emitted is one line printed by MCStyledCases (Emit): the case and the accepted results.
type Emitted struct {
	C      Case     `json:"c"`
	Alts   []Result `json:"alts"`
	Unspec bool     `json:"unspec"`
}

type inputError struct{ error }

// inputText builds a real input text and insists that it projects back to the abstract one:
// a failure there is itself a rejected construction (T / Concat are operations of the property).
func inputText(t Text) (ui.Text, error) {
	rt, err := realText(t)
	if err != nil {
		return nil, err
	}
	if p := project(rt); !eqText(p, t) {
		return nil, inputError{fmt.Errorf("building %s with ui.T/ui.Concat gives %s", js(t), js(p))}
	}
	return rt, nil
}

func js(v any) string { b, _ := json.Marshal(v); return string(b) }

// execute runs the case on the real code. panicked is non-empty if the real code panicked.
func execute(c Case) (res Result, panicked string, err error) {
	res = Result{Texts: []Text{}, Flags: []bool{}}
	defer func() {
		if p := recover(); p != nil {
			panicked = fmt.Sprintf("%v\n%s", p, debug.Stack())
		}
	}()
	gs, err := stylingsOf(c.Gs)
	if err != nil {
		return res, "", err
	}
	var t ui.Text
	if c.Op != "styleseg" && c.Op != "t" && c.Op != "concat" && c.Op != "tb" {
		if t, err = inputText(c.T); err != nil {
			return res, "", err
		}
	}
	switch c.Op {
	case "t":
		s, err := stringOf(c.S)
		if err != nil {
			return res, "", err
		}
		res.Texts = append(res.Texts, project(ui.T(s, gs...)))
	case "concat":
		var ts []ui.Text
		for _, a := range c.Ts {
			rt, err := inputText(a)
			if err != nil {
				return res, "", err
			}
			ts = append(ts, rt)
		}
		res.Texts = append(res.Texts, project(ui.Concat(ts...)))
	case "partition":
		res.Texts = projectAll(t.Partition(c.Ix...))
	case "split":
		res.Texts = projectAll(t.SplitByRune(rune(c.R)))
	case "trim":
		res.Texts = append(res.Texts, project(t.TrimWcwidth(c.W)))
	case "style":
		res.Texts = append(res.Texts, project(ui.StyleText(t, gs...)))
	case "styleseg":
		if len(c.T.Segs) != 1 {
			return res, "", fmt.Errorf("styleseg case without a segment")
		}
		g, err := realSegment(c.T.Segs[0])
		if err != nil {
			return res, "", err
		}
		before := projectSeg(g)
		out := ui.StyleSegment(g, gs...)
		if after := projectSeg(g); after.St != before.St || !eqInts(after.Cs, before.Cs) {
			// "It does not modify the given Segment": report as a differing result
			res.Texts = append(res.Texts, Text{Segs: []Seg{after}}, Text{Segs: []Seg{projectSeg(out)}})
			return res, "", nil
		}
		res.Texts = append(res.Texts, Text{Segs: []Seg{projectSeg(out)}})
	case "tb":
		var tb ui.TextBuilder
		res.Texts = append(res.Texts, project(tb.Text()))
		res.Flags = append(res.Flags, tb.Empty())
		for i, a := range c.Ts {
			rt, err := inputText(a)
			if err != nil {
				return res, "", err
			}
			if c.Ix[i] == 1 {
				tb.Reset()
			}
			tb.WriteText(rt)
			res.Texts = append(res.Texts, project(tb.Text()))
			res.Flags = append(res.Flags, tb.Empty())
		}
	default:
		return res, "", fmt.Errorf("unknown op %q", c.Op)
	}
	return res, "", nil
}

func accepted(got Result, alts []Result) bool {
	for _, a := range alts {
		if eqResult(got, a) {
			return true
		}
	}
	return false
}

// replayCase replays one TLC-generated case with its prescribed outcome.
func replayCase(c *lib.Ctx, em Emitted) error {
	c.AddEvals(1)
	got, pan, err := execute(em.C)
	if ie, ok := err.(inputError); ok {
		c.Reject("construct:"+em.C.Op, ie.Error(), em)
		return nil
	}
	if err != nil {
		return lib.Infra("case %s: %v", js(em.C), err)
	}
	if pan != "" {
		if em.Unspec {
			return nil
		}
		c.Reject(opNames[em.C.Op]+":panic", fmt.Sprintf("%s panics: %s", js(em.C), firstLine(pan)), em)
		return nil
	}
	if em.Unspec {
		return nil
	}
	if !accepted(got, em.Alts) {
		c.Reject(classify(em.C.Op, got, em.Alts),
			fmt.Sprintf("%s: real code %s; specification accepts %s", describe(em.C), js(got), js(em.Alts)), em)
	}
	return nil
}

func firstLine(s string) string {
	for i, ch := range s {
		if ch == '\n' {
			return s[:i]
		}
	}
	return s
}

// describe renders a case as the Go call it stands for.
func describe(c Case) string {
	txt := func(t Text) string {
		s := "Text{"
		for i, g := range t.Segs {
			if i > 0 {
				s += " "
			}
			str, _ := stringOf(g.Cs)
			s += fmt.Sprintf("%q", str)
			if g.St != (Style{}) {
				s += fmt.Sprintf("%v", g.St)
			}
		}
		return s + "}"
	}
	switch c.Op {
	case "t":
		s, _ := stringOf(c.S)
		return fmt.Sprintf("ui.T(%q, %s)", s, js(c.Gs))
	case "concat":
		s := "ui.Concat("
		for i, a := range c.Ts {
			if i > 0 {
				s += ", "
			}
			s += txt(a)
		}
		return s + ")"
	case "partition":
		return fmt.Sprintf("%s.Partition(%v)", txt(c.T), c.Ix)
	case "split":
		return fmt.Sprintf("%s.SplitByRune(%q)", txt(c.T), rune(c.R))
	case "trim":
		return fmt.Sprintf("%s.TrimWcwidth(%d)", txt(c.T), c.W)
	case "style":
		return fmt.Sprintf("ui.StyleText(%s, %s)", txt(c.T), js(c.Gs))
	case "styleseg":
		return fmt.Sprintf("ui.StyleSegment(%s, %s)", txt(c.T), js(c.Gs))
	case "tb":
		s := "TextBuilder"
		for i, a := range c.Ts {
			if c.Ix[i] == 1 {
				s += ".Reset()"
			}
			s += ".WriteText(" + txt(a) + ")"
		}
		return s
	}
	return js(c)
}
