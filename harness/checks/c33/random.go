package main

// V: random texts and arguments run on the real pkg/ui API, recorded, judged by TLC
// (spec/StyledText/JudgeStyledText.tla).

import (
	"encoding/json"
	"fmt"
	"math/rand"
	"sort"
	"time"

	"verif.local/harness/lib"
)

type Recorded struct {
	Kind string `json:"kind"`
	C    Case   `json:"c"`
	Res  Result `json:"res"`
}

var runeClasses = [][]rune{
	[]rune("abcXYZ019 _-"),      // narrow ASCII
	[]rune("你好か한"),              // wide, 3 bytes
	{0x1F600, 0x1F680},          // wide, 4 bytes
	{0x0301, 0x200B, 0xFE0F},    // zero width (combining, ZWSP, variation selector)
	{'\t', 0x1b, 0x7f, 0x85},    // control characters (width 0)
	{'\n'},                      // newline
	[]rune("éΩж"),               // narrow, 2 bytes
	{0x20AC, 0x2764, 0x1D11E},   // narrow, 3 and 4 bytes
}
var classWeights = []int{8, 4, 1, 2, 1, 2, 2, 1}

func randRune(r *rand.Rand) rune {
	tot := 0
	for _, w := range classWeights {
		tot += w
	}
	k := r.Intn(tot)
	for i, w := range classWeights {
		if k < w {
			return runeClasses[i][r.Intn(len(runeClasses[i]))]
		}
		k -= w
	}
	return 'a'
}

func randColor(r *rand.Rand) string {
	switch r.Intn(7) {
	case 0, 1, 2:
		return ""
	case 3:
		return []string{"black", "red", "green", "yellow", "blue", "magenta", "cyan", "white"}[r.Intn(8)]
	case 4:
		return "bright-" + []string{"black", "red", "green", "yellow", "blue", "magenta", "cyan", "white"}[r.Intn(8)]
	case 5:
		return fmt.Sprintf("color%d", r.Intn(256))
	}
	return fmt.Sprintf("#%02x%02x%02x", r.Intn(256), r.Intn(256), r.Intn(256))
}

func randStyle(r *rand.Rand) Style {
	st := Style{Fg: randColor(r), Bg: randColor(r)}
	if r.Intn(3) == 0 {
		st.Bg = ""
	}
	for b := 1; b <= 32; b *= 2 {
		if r.Intn(5) == 0 {
			st.At |= b
		}
	}
	return st
}

func randChars(r *rand.Rand, n int) []int {
	cs := []int{}
	for i := 0; i < n; i++ {
		cs = append(cs, pack(randRune(r)))
	}
	return cs
}

// randText returns a random NORMAL abstract text.
func randText(r *rand.Rand, maxSegs int) Text {
	t := Text{Segs: []Seg{}}
	n := r.Intn(maxSegs + 1)
	for i := 0; i < n; i++ {
		st := randStyle(r)
		for i > 0 && st == t.Segs[i-1].St {
			st = randStyle(r)
		}
		t.Segs = append(t.Segs, Seg{st, randChars(r, 1+r.Intn(5))})
	}
	t.Nil = len(t.Segs) == 0
	return t
}

func randStylings(r *rand.Rand) []Styling {
	gs := []Styling{}
	for n := r.Intn(4); n > 0; n-- {
		switch r.Intn(6) {
		case 0:
			gs = append(gs, Styling{"reset", "", 0})
		case 1:
			gs = append(gs, Styling{"fg", randColor(r), 0})
		case 2:
			gs = append(gs, Styling{"bg", randColor(r), 0})
		default:
			gs = append(gs, Styling{[]string{"on", "off", "toggle"}[r.Intn(3)], "", 1 << r.Intn(6)})
		}
	}
	return gs
}

func sumW(cs []int) int {
	w := 0
	for _, c := range cs {
		w += chW(c)
	}
	return w
}

func newCase(op string) Case {
	return Case{Op: op, T: Text{Nil: true, Segs: []Seg{}}, Ts: []Text{}, Ix: []int{}, Gs: []Styling{}, S: []int{}}
}

func randCase(r *rand.Rand) Case {
	switch k := r.Intn(20); {
	case k < 2:
		c := newCase("t")
		c.S = randChars(r, r.Intn(7))
		c.Gs = randStylings(r)
		return c
	case k < 5:
		c := newCase("concat")
		for n := r.Intn(5); n > 0; n-- {
			c.Ts = append(c.Ts, randText(r, 4))
		}
		return c
	case k < 9:
		c := newCase("partition")
		c.T = randText(r, 6)
		p := plain(c.T)
		bounds := []int{0}
		for _, ch := range p {
			bounds = append(bounds, bounds[len(bounds)-1]+chB(ch))
		}
		for n := r.Intn(4); n > 0; n-- {
			if r.Intn(12) == 0 {
				c.Ix = append(c.Ix, r.Intn(bounds[len(bounds)-1]+3)-1) // possibly Unspecified
			} else {
				c.Ix = append(c.Ix, bounds[r.Intn(len(bounds))])
			}
		}
		if r.Intn(10) != 0 {
			sort.Ints(c.Ix)
		}
		return c
	case k < 12:
		c := newCase("split")
		c.T = randText(r, 6)
		p := plain(c.T)
		c.R = '\n'
		if len(p) > 0 && r.Intn(2) == 0 {
			c.R = int(chId(p[r.Intn(len(p))]))
		}
		return c
	case k < 16:
		c := newCase("trim")
		c.T = randText(r, 6)
		c.W = r.Intn(sumW(plain(c.T))+3) - 0
		if r.Intn(25) == 0 {
			c.W = -1 - r.Intn(3)
		}
		return c
	case k < 18:
		c := newCase("style")
		c.T = randText(r, 6)
		c.Gs = randStylings(r)
		return c
	case k < 19:
		c := newCase("styleseg")
		c.T = Text{Segs: []Seg{{randStyle(r), randChars(r, r.Intn(4))}}}
		c.Gs = randStylings(r)
		return c
	}
	c := newCase("tb")
	for n := 1 + r.Intn(5); n > 0; n-- {
		c.Ts = append(c.Ts, randText(r, 3))
		z := 0
		if r.Intn(6) == 0 {
			z = 1
		}
		c.Ix = append(c.Ix, z)
	}
	return c
}

func seg1(s string, st Style) Seg { return Seg{st, charsOf(s)} }

// probes are the directed cases for the findings recorded in findings.d/C33.json.
func probes() []Case {
	bold := Style{At: 1}
	var out []Case
	c := newCase("trim")
	c.T = Text{Segs: []Seg{seg1("abc", Style{})}}
	c.W = 0
	out = append(out, c)
	c = newCase("trim")
	c.T = Text{Segs: []Seg{seg1("你", Style{})}}
	c.W = 1
	out = append(out, c)
	c = newCase("trim")
	c.T = Text{Segs: []Seg{seg1("ab", Style{}), seg1("́", bold)}}
	c.W = 2
	out = append(out, c)
	c = newCase("trim")
	c.T = Text{Segs: []Seg{seg1("a", Style{}), seg1("́", bold), seg1("b", Style{})}}
	c.W = 1
	out = append(out, c)
	c = newCase("style")
	c.T = Text{Segs: []Seg{seg1("a", Style{Fg: "red"}), seg1("b", Style{Fg: "blue"})}}
	c.Gs = []Styling{{"fg", "green", 0}}
	out = append(out, c)
	c = newCase("style")
	c.Gs = []Styling{{"fg", "green", 0}}
	out = append(out, c)
	return out
}

// record runs a case on the real code. ok=false: nothing to judge (panic or construction
// failure already reported).
func record(c *lib.Ctx, cs Case) (Recorded, bool, error) {
	c.AddEvals(1)
	got, pan, err := execute(cs)
	if ie, ok := err.(inputError); ok {
		c.Reject("construct:"+cs.Op, ie.Error(), Recorded{"recorded", cs, got})
		return Recorded{}, false, nil
	}
	if err != nil {
		return Recorded{}, false, lib.Infra("random case %s: %v", js(cs), err)
	}
	if pan != "" {
		if (cs.Op == "trim" && cs.W < 0) || cs.Op == "partition" {
			return Recorded{}, false, nil // possibly Unspecified arguments: a panic is not judged
		}
		c.Reject(opNames[cs.Op]+":panic", fmt.Sprintf("%s panics: %s", describe(cs), firstLine(pan)), Recorded{"recorded", cs, got})
		return Recorded{}, false, nil
	}
	return Recorded{"recorded", cs, got}, true, nil
}

func judge(c *lib.Ctx, recs []Recorded) error {
	bad, err := lib.Judge(c, "JudgeStyledText", c.SpecDir("StyledText"), "JudgeStyledText", recs, c.Pick(1, 6), 10*time.Minute)
	if err != nil {
		return err
	}
	c.AddTraces(len(recs))
	for _, b := range bad {
		rc := recs[b.Index]
		var alts []Result
		if len(b.Info) > 0 {
			if s, ok := b.Info[0].(string); ok {
				json.Unmarshal([]byte(s), &alts)
			}
		}
		c.Reject(classify(rc.C.Op, rc.Res, alts),
			fmt.Sprintf("%s: real code %s; specification accepts %s", describe(rc.C), js(rc.Res), js(alts)), rc)
	}
	return nil
}

func random(c *lib.Ctx) error {
	n := c.Pick(1500, 40000)
	rng := rand.New(rand.NewSource(c.Seed*7919 + 1))
	var recs []Recorded
	cases := probes()
	for i := 0; i < n; i++ {
		cases = append(cases, randCase(rng))
	}
	perOp := map[string]int{}
	for _, cs := range cases {
		rc, ok, err := record(c, cs)
		if err != nil {
			return err
		}
		if ok {
			recs = append(recs, rc)
			perOp[cs.Op]++
			c.Distinct(cs)
		}
	}
	c.Sample(recs[len(recs)/2])
	if err := judge(c, recs); err != nil {
		return err
	}
	c.Set("random_cases_judged", perOp)
	c.Logf("random: %d recorded cases judged by TLC", len(recs))
	return nil
}

func rejudge(c *lib.Ctx, rc Recorded) error {
	r2, ok, err := record(c, rc.C)
	if err != nil || !ok {
		return err
	}
	return judge(c, []Recorded{r2})
}
