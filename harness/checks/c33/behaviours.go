package main

// G for behaviours: MCStyledText's histories replayed on the real API, real results fed forward.

import (
	"encoding/json"
	"fmt"
	"time"

	"src.elv.sh/pkg/ui"
	"verif.local/harness/lib"
)

type Step struct {
	Op    string    `json:"op"`
	Ai    []int     `json:"ai"`
	Ix    []int     `json:"ix"`
	W     int       `json:"w"`
	Gs    []Styling `json:"gs"`
	R     int       `json:"r"`
	S     []int     `json:"s"`
	Res   []Text    `json:"res"`
	Flags []bool    `json:"flags"`
}

type Behaviour struct {
	Kind  string `json:"kind"`
	Steps []Step `json:"steps"`
}

func poolCfg(depth, maxW, maxPool, lit int) []byte {
	return []byte(fmt.Sprintf("CONSTANTS Depth = %d MaxW = %d MaxPool = %d LitSel = %d\nINIT Init\nNEXT Next\nINVARIANT PoolNormal\nINVARIANT StepLaw\nINVARIANT Emit\n", depth, maxW, maxPool, lit))
}

func behaviours(c *lib.Ctx) error {
	dir := c.SpecDir("StyledText")
	type job struct {
		name string
		run  lib.TLCRun
		exh  bool
	}
	d := c.Pick(2, 3)
	jobs := []job{
		{fmt.Sprintf("MCStyledText/depth%d", d), lib.TLCRun{Dir: dir, Module: "MCStyledText", Workers: 3, Timeout: 12 * time.Minute, HeapGB: 6,
			Files: map[string][]byte{"MCStyledText.cfg": poolCfg(d, 3, 8, 1)}}, true},
		{"MCStyledText/simulate", lib.TLCRun{Dir: dir, Module: "MCStyledText", Workers: 1, Timeout: 12 * time.Minute, HeapGB: 6,
			Simulate: fmt.Sprintf("num=%d", c.Pick(25, 250)), Depth: c.Pick(4, 5) + 1,
			Files: map[string][]byte{"MCStyledText.cfg": poolCfg(c.Pick(4, 5), 4, 10, 2)}}, false},
	}
	results := make([][]Behaviour, len(jobs))
	errs := make([]error, len(jobs))
	lib.Parallel(len(jobs), 2, func(i int) {
		r, err := c.TLC(jobs[i].name, jobs[i].run)
		if err != nil {
			errs[i] = err
			return
		}
		if r.ErrKind != "" {
			errs[i] = lib.Infra("%s: the pool model violates its own invariant (%s %s)\n%s", jobs[i].name, r.ErrKind, r.ErrName, r.ErrTrace)
			return
		}
		seen := map[string]bool{}
		for _, s := range r.PrintedStrings() {
			if seen[s] {
				continue
			}
			seen[s] = true
			var steps []Step
			if err := json.Unmarshal([]byte(s), &steps); err != nil {
				errs[i] = lib.Infra("bad behaviour from TLC: %v: %s", err, s)
				return
			}
			results[i] = append(results[i], Behaviour{"behaviour", steps})
		}
		if len(results[i]) == 0 {
			errs[i] = lib.Infra("%s emitted no behaviour", jobs[i].name)
		}
	})
	counts := map[string]int{}
	for i := range jobs {
		if errs[i] != nil {
			return errs[i]
		}
		for k, b := range results[i] {
			if err := replayBehaviour(c, b); err != nil {
				return err
			}
			c.Distinct(b.Steps)
			if k == len(results[i])/2 {
				c.Sample(b)
			}
		}
		c.AddTraces(len(results[i]))
		counts[jobs[i].name] = len(results[i])
		c.Logf("%s: %d behaviours replayed", jobs[i].name, len(results[i]))
	}
	c.Set("behaviours", counts)
	return nil
}

// replayBehaviour drives the real API through the steps; after every step the projected real
// results must equal the prescribed ones. The real values (not rebuilt ones) are fed forward.
func replayBehaviour(c *lib.Ctx, b Behaviour) error {
	var pool []ui.Text
	var tb ui.TextBuilder
	for n, st := range b.Steps {
		c.AddEvals(1)
		got := Result{Texts: []Text{}, Flags: []bool{}}
		var real []ui.Text
		arg := func(k int) (ui.Text, error) {
			if k >= len(st.Ai) || st.Ai[k] < 1 || st.Ai[k] > len(pool) {
				return nil, lib.Infra("behaviour step %d: bad pool index", n)
			}
			return pool[st.Ai[k]-1], nil
		}
		pan, err := func() (pan string, err error) {
			defer func() {
				if p := recover(); p != nil {
					pan = fmt.Sprint(p)
				}
			}()
			gs, err := stylingsOf(st.Gs)
			if err != nil {
				return "", err
			}
			var a ui.Text
			if len(st.Ai) > 0 {
				if a, err = arg(0); err != nil {
					return "", err
				}
			}
			switch st.Op {
			case "t":
				s, err := stringOf(st.S)
				if err != nil {
					return "", err
				}
				real = []ui.Text{ui.T(s, gs...)}
			case "concat":
				a2, err := arg(1)
				if err != nil {
					return "", err
				}
				real = []ui.Text{ui.Concat(a, a2)}
			case "partition":
				real = a.Partition(st.Ix...)
			case "split":
				real = a.SplitByRune(rune(st.R))
			case "trim":
				real = []ui.Text{a.TrimWcwidth(st.W)}
			case "style":
				real = []ui.Text{ui.StyleText(a, gs...)}
			case "tbwrite":
				tb.WriteText(a)
				got.Flags = append(got.Flags, tb.Empty())
			case "tbtext":
				real = []ui.Text{tb.Text()}
				got.Flags = append(got.Flags, tb.Empty())
			case "tbreset":
				tb.Reset()
				got.Flags = append(got.Flags, tb.Empty())
			default:
				return "", fmt.Errorf("unknown step %q", st.Op)
			}
			return "", nil
		}()
		if err != nil {
			if _, ok := err.(lib.InfraError); ok {
				return err
			}
			return lib.Infra("behaviour step %d: %v", n, err)
		}
		if pan != "" {
			c.Reject(opNames[st.Op]+":panic", fmt.Sprintf("step %d (%s) of a behaviour panics: %s", n+1, st.Op, pan), b)
			return nil
		}
		got.Texts = projectAll(real)
		exp := Result{Texts: st.Res, Flags: st.Flags}
		if !eqResult(got, exp) {
			c.Reject(classify(st.Op, got, []Result{exp}),
				fmt.Sprintf("behaviour step %d (%s %v): real code %s; specification prescribes %s", n+1, st.Op, st.Ai, js(got), js(exp)), b)
			return nil
		}
		pool = append(pool, real...)
	}
	return nil
}
