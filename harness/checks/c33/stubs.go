package main

import "verif.local/harness/lib"

type Recorded struct{ Kind string `json:"kind"` }
type SDCase struct{ Kind string `json:"kind"` }

func random(c *lib.Ctx) error                      { return nil }
func styledown(c *lib.Ctx) error                   { return nil }
func rejudge(c *lib.Ctx, r Recorded) error         { return nil }
func rejudgeSD(c *lib.Ctx, s SDCase) error         { return nil }
