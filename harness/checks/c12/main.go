// C12 — inexact arithmetic follows IEEE-754 after the documented conversion.
//
// G: TLC enumerates argument lists over a class pool (floats: both zeros, infinities, NaN,
//
//	subnormal, max, ties ...; exact: ints, 2^53+1, +-2^64, +-2^63, 1/3, huge and tiny rationals)
//	and prints for each the outcome ArithF.tla prescribes: a term over IEEE primitives, an exact
//	value (exact-zero rules, exact-num), the integer a rounding function must yield, or an exception.
//
// V: seeded random argument lists (random bit patterns) take the same way: Go records the inputs,
//
//	TLC prescribes, Go evaluates the prescribed term with hardware doubles and compares BIT PATTERNS
//	(any NaN == any NaN) with what the real builtin returned.
//
// Trusted primitives (stated in the evidence): hardware + - * / on float64, big.Rat.Float64 as
// NearestDouble (re-checked here against both neighbouring doubles with exact rational arithmetic).
package main

import (
	"encoding/json"
	"fmt"
	"math"
	"math/big"
	"os"
	"strings"
	"time"

	"src.elv.sh/pkg/eval"
	"verif.local/harness/checks/c11/numx"
	"verif.local/harness/elv"
	"verif.local/harness/lib"
)

type term struct {
	Op   string `json:"op"`
	Bits []int  `json:"bits"`
	V    string `json:"v"`
	I    int    `json:"i"`
	S    int    `json:"s"`
	A    *term  `json:"a"`
	B    *term  `json:"b"`
}

type foutcome struct {
	T    string     `json:"t"`
	Vs   []numx.Res `json:"vs"`
	Term *term      `json:"term"`
	Fx   struct {
		N  numx.Z `json:"n"`
		Zs int    `json:"zs"`
	} `json:"fx"`
}

type fcase struct {
	Cmd  string     `json:"cmd"`
	Args []numx.Val `json:"args"`
	Out  *foutcome  `json:"out,omitempty"`
}

func main() { lib.Main("C12", run) }

func source(cmd string, args []numx.Val, typed bool) string {
	var sb strings.Builder
	sb.WriteString(cmd)
	for _, a := range args {
		if typed {
			sb.WriteString(" " + a.Typed())
		} else {
			sb.WriteString(" " + a.Text())
		}
	}
	return sb.String()
}

func show(cmd string, args []numx.Val) string { return source(cmd, args, false) }

func sig(cmd string, args []numx.Val) string {
	var ss []string
	for _, a := range args {
		ss = append(ss, a.Sig())
	}
	return cmd + ":" + strings.Join(ss, ",")
}

// nearestOK: is f the double nearest to x (ties to even; beyond the midpoint above the largest
// double: infinity)?  Exact rational arithmetic only.
func nearestOK(x *big.Rat, f float64) bool {
	if math.IsNaN(f) {
		return false
	}
	exact := func(g float64) *big.Rat { // with 2^1024 standing in for the infinities
		if math.IsInf(g, 0) {
			r := new(big.Rat).SetInt(numx.Pow2(1024))
			if g < 0 {
				r.Neg(r)
			}
			return r
		}
		return new(big.Rat).SetFloat64(g)
	}
	if f == 0 && (math.Signbit(f) != (x.Sign() < 0)) {
		return false
	}
	dist := func(g float64) *big.Rat { d := new(big.Rat).Sub(x, exact(g)); return d.Abs(d) }
	d := dist(f)
	even := math.Float64bits(f)&1 == 0 // also holds for the infinities (mantissa 0)
	if !math.IsInf(f, 0) {
		for _, g := range []float64{math.Nextafter(f, math.Inf(1)), math.Nextafter(f, math.Inf(-1))} {
			switch c := d.Cmp(dist(g)); {
			case c > 0:
				return false
			case c == 0 && !even:
				return false
			}
		}
		return true
	}
	// infinity: x must be at or beyond the midpoint between max and 2^1024 (max has an odd mantissa)
	g := math.Copysign(math.MaxFloat64, f)
	if new(big.Rat).Abs(x).Cmp(exact(math.MaxFloat64)) <= 0 {
		return false
	}
	return d.Cmp(dist(g)) <= 0
}

type evalErr struct{ msg string }

func (e evalErr) Error() string { return e.msg }

// evalTerm interprets a prescribed term with hardware doubles.
func evalTerm(t *term, args []numx.Val) (float64, error) {
	switch t.Op {
	case "f":
		if len(t.Bits) != 16 {
			return 0, evalErr{"bad bits"}
		}
		return math.Float64frombits(numx.FromHex(t.Bits)), nil
	case "const":
		switch t.V {
		case "0.0":
			return 0, nil
		case "1.0":
			return 1, nil
		}
	case "inf":
		return math.Inf(t.S), nil
	case "nearest":
		if t.I < 1 || t.I > len(args) || args[t.I-1].K != "x" {
			return 0, evalErr{"nearest: bad argument index"}
		}
		x := args[t.I-1].Rat()
		f, _ := x.Float64()
		if !nearestOK(x, f) {
			return 0, evalErr{fmt.Sprintf("primitive NearestDouble: big.Rat.Float64(%s) = %v is not the nearest double", x, f)}
		}
		return f, nil
	case "neg":
		a, err := evalTerm(t.A, args)
		return -a, err
	case "add", "sub", "mul", "div":
		a, err := evalTerm(t.A, args)
		if err != nil {
			return 0, err
		}
		b, err := evalTerm(t.B, args)
		if err != nil {
			return 0, err
		}
		switch t.Op {
		case "add":
			return a + b, nil
		case "sub":
			return a - b, nil
		case "mul":
			return a * b, nil
		default:
			return a / b, nil
		}
	}
	return 0, evalErr{"unknown term " + t.Op}
}

func sameFloat(a, b float64) bool {
	return math.Float64bits(a) == math.Float64bits(b) || (math.IsNaN(a) && math.IsNaN(b))
}

// check runs the real builtin and compares with the prescribed outcome.
// Returns "" when they agree, else a short kind (for the finding key) and a description.
func check(ev *eval.Evaler, fc fcase, typed bool) (kind, desc string, err error) {
	code := source(fc.Cmd, fc.Args, typed)
	o := elv.RunCtx(ev, code, nil, 60*time.Second)
	if o.Timeout {
		return "", "", lib.Infra("evaluation of %q did not return", code)
	}
	if o.Panic != "" {
		return "panic", code + " panics: " + strings.SplitN(o.Panic, "\n", 2)[0], nil
	}
	if o.Err != nil && elv.ErrClass(o.Err) != "exception" {
		return "", "", lib.Infra("rendered call %q is not valid Elvish: %v", code, o.Err)
	}
	out := fc.Out
	gotDesc := fmt.Sprint(o.Values)
	if o.Err != nil {
		gotDesc = "exception: " + o.Err.Error()
	} else {
		var ss []string
		for _, v := range o.Values {
			ss = append(ss, numx.Project(v).String())
		}
		gotDesc = "[" + strings.Join(ss, " ") + "]"
	}
	fail := func(k, want string) (string, string, error) {
		return k, fmt.Sprintf("%s -> %s; ArithF.tla prescribes %s", code, gotDesc, want), nil
	}
	switch out.T {
	case "exc":
		if o.Err == nil {
			return fail("missing-exception", "an exception")
		}
		return "", "", nil
	case "vals":
		want := numx.Outcome{T: "vals", Vs: out.Vs}
		if o.Err != nil {
			return fail("unexpected-exception", want.String())
		}
		got := numx.Outcome{T: "vals"}
		for _, v := range o.Values {
			got.Vs = append(got.Vs, numx.Project(v))
		}
		if !got.Equal(want) {
			return fail("wrong-exact-result", want.String())
		}
		return "", "", nil
	}
	// one float expected
	var want float64
	switch out.T {
	case "term":
		w, e := evalTerm(out.Term, fc.Args)
		if e != nil {
			return "", "", lib.Infra("term of %s: %v", show(fc.Cmd, fc.Args), e)
		}
		want = w
	case "fx":
		if out.Fx.N.Sign() == 0 {
			want = math.Copysign(0, float64(out.Fx.Zs))
		} else {
			f, acc := new(big.Float).SetInt(&out.Fx.N.Int).Float64()
			if acc != big.Exact {
				return "", "", lib.Infra("ArithF.tla prescribes the integer %s which is not a double (%s)", out.Fx.N.String(), show(fc.Cmd, fc.Args))
			}
			want = f
		}
	case "same":
		want = fc.Args[0].F64()
	default:
		return "", "", lib.Infra("unknown outcome kind %q", out.T)
	}
	wantDesc := "float:" + numx.FloatText(want)
	if o.Err != nil {
		return fail("unexpected-exception", wantDesc)
	}
	if len(o.Values) != 1 {
		return fail("wrong-count", wantDesc)
	}
	g, ok := o.Values[0].(float64)
	if !ok {
		return fail("not-inexact", wantDesc)
	}
	if !sameFloat(g, want) {
		if g == want || (g == 0 && want == 0) {
			return fail("wrong-zero-sign", wantDesc)
		}
		return fail("wrong-float", wantDesc)
	}
	return "", "", nil
}

// conversions (inexact-num of an exact number) recorded for JudgeNearest.tla
var nearCases []numx.NearCase

func replayCase(c *lib.Ctx, ev *eval.Evaler, fc fcase) error {
	if fc.Out == nil || fc.Out.T == "unspec" {
		c.Inc("not_prescribed_unspec", 1)
		return nil
	}
	c.Distinct(show(fc.Cmd, fc.Args))
	c.Inc("outcome_"+fc.Out.T, 1)
	for _, typed := range []bool{true, false} {
		kind, desc, err := check(ev, fc, typed)
		if err != nil {
			return err
		}
		c.AddEvals(1)
		if kind != "" {
			c.Reject(sig(fc.Cmd, fc.Args)+":"+kind, desc, fc)
			return nil
		}
	}
	if fc.Cmd == "inexact-num" && fc.Out.T == "term" && fc.Out.Term.Op == "nearest" {
		// record what the real builtin produced for this exact number
		o := elv.RunCtx(ev, source(fc.Cmd, fc.Args, true), nil, 60*time.Second)
		if len(o.Values) == 1 {
			if f, ok := o.Values[0].(float64); ok {
				a := fc.Args[0]
				nearCases = append(nearCases, numx.NearCase{Kind: "rat", Neg: a.N.Sign() < 0, M: numx.Limbs(&a.N.Int), D: numx.Limbs(&a.D.Int), Sc: 0, Bits: numx.HexDigits(math.Float64bits(f))})
			}
		}
	}
	return nil
}

// judgeNearest lets TLC decide whether the doubles the real conversion produced are the nearest
// ones (Nearest.tla): a cost-bounded sample of the recorded inexact-num calls.
func judgeNearest(c *lib.Ctx) error {
	budget := c.Pick(2500, 100000)
	max := c.Pick(250, 5000)
	var sel []numx.NearCase
	c.Rand.Shuffle(len(nearCases), func(i, j int) { nearCases[i], nearCases[j] = nearCases[j], nearCases[i] })
	for _, n := range nearCases {
		if k := n.Cost(); k <= budget && len(sel) < max {
			budget -= k
			sel = append(sel, n)
		}
	}
	// vacuity guard: 2^53+1 converted to 2^53+2 (tie broken to odd) must be rejected
	sel = append(sel, numx.NearCase{Kind: "rat", Neg: false, M: numx.Limbs(new(big.Int).Add(numx.Pow2(53), big.NewInt(1))), D: []int{1}, Sc: 0, Bits: numx.HexDigits(math.Float64bits(9007199254740994))})
	bad, err := lib.Judge(c, "JudgeNearest", c.SpecDir("Arith"), "JudgeNearest", sel, c.Pick(2, 4), 14*time.Minute)
	if err != nil {
		return err
	}
	guard := false
	for _, b := range bad {
		if b.Index == len(sel)-1 {
			guard = true
			continue
		}
		n := sel[b.Index]
		c.Reject("inexact-num:not-nearest", fmt.Sprintf("inexact-num of %v/%v gives bits %x: Nearest.tla: not the nearest double", n.M, n.D, numx.FromHex(n.Bits)), n)
	}
	if !guard {
		return lib.Infra("vacuity guard: JudgeNearest accepted a wrongly rounded 2^53+1")
	}
	c.AddTraces(len(sel) - 1)
	c.Set("conversions_judged_by_tlc", len(sel)-1)
	c.Logf("conversions judged by TLC: %d of %d", len(sel)-1, len(nearCases))
	return nil
}

func cfg(consts string, invs ...string) []byte {
	s := consts + "INIT Init\nNEXT Next\n"
	for _, i := range invs {
		s += "INVARIANT " + i + "\n"
	}
	return []byte(s)
}

func run(c *lib.Ctx) error {
	dir := c.SpecDir("Arith")
	ev := elv.New()
	// math: is imported once (importing it in every evaluation adds a global slot per call)
	if o := elv.Run(ev, "use math"); o.Err != nil || o.Panic != "" {
		return lib.Infra("use math: %v %s", o.Err, o.Panic)
	}
	if c.Replay != "" {
		return replay(c, ev)
	}
	c.Set("rule", "a case is (command, argument list); distinct by its rendered call; counted only when ArithF.tla prescribes an outcome (Unspecified cases are not counted)")
	maxLen := c.Pick(2, 3)
	rnd := randomCases(c)

	var rG *lib.TLCResult
	var pres []string
	errs := make([]error, 2)
	lib.Parallel(2, 2, func(i int) {
		if i == 0 {
			r, err := c.TLC("MCArithF", lib.TLCRun{Dir: dir, Module: "MCArithF", Workers: 2, Timeout: 14 * time.Minute,
				Files: map[string][]byte{"MCArithF.cfg": cfg(fmt.Sprintf("CONSTANT MaxLen = %d\n", maxLen), "BitsOK", "Shape", "Emit")}})
			if err == nil && r.ErrKind != "" {
				err = lib.Infra("ArithF.tla inconsistent: %s %s\n%s", r.ErrName, r.Err, r.ErrTrace)
			}
			rG, errs[i] = r, err
		} else {
			pres, errs[i] = numx.Prescribe(c, "GenArithF", dir, "GenArithF", rnd, c.Pick(2, 3), 14*time.Minute)
		}
	})
	for _, e := range errs {
		if e != nil {
			return e
		}
	}

	// ---- G
	seen := map[string]bool{}
	n := 0
	for _, s := range rG.PrintedStrings() {
		if seen[s] {
			continue
		}
		seen[s] = true
		var fc fcase
		if err := json.Unmarshal([]byte(s), &fc); err != nil {
			return lib.Infra("bad case from TLC: %v: %s", err, s)
		}
		if err := replayCase(c, ev, fc); err != nil {
			return err
		}
		if n%997 == 3 {
			c.Sample(fc)
		}
		n++
	}
	if n < 1000 {
		return lib.Infra("class-pool enumeration incomplete: %d cases", n)
	}
	c.AddTraces(n)
	c.Logf("class pool: %d cases replayed", n)
	c.Set("exhaustive", true)
	c.Set("bounds", map[string]any{"max_len": maxLen, "float_pool": "+0.0 -0.0 1.5 -2.0 +Inf -Inf NaN subnormal max (+17 more for the rounding functions, inexact-num, exact-num)",
		"exact_pool": "0 1 -3 2^53+1 +-2^64 +-2^63 2^63-1 1/3 (2^64+1)/2 10^310/3 -1/(3*10^328)", "random_lists": len(rnd)})

	// ---- V
	for idx, js := range pres {
		fc := rnd[idx]
		fc.Out = new(foutcome)
		if err := json.Unmarshal([]byte(js), fc.Out); err != nil {
			return lib.Infra("bad outcome from TLC: %v: %s", err, js)
		}
		if err := replayCase(c, ev, fc); err != nil {
			return err
		}
		if idx < 2 {
			c.Sample(fc)
		}
	}
	c.AddTraces(len(rnd))
	c.Logf("random lists: %d judged", len(rnd))
	// ---- V: the conversion itself, decided by TLC
	if err := judgeNearest(c); err != nil {
		return err
	}
	c.Assume("hardware IEEE-754 double + - * / (Go float64) and big.Rat.Float64 as NearestDouble are trusted primitives; the executor re-checks every NearestDouble result against both neighbouring doubles with exact rational arithmetic, and a cost-bounded sample of the conversions performed by the real inexact-num is judged by TLC itself (Nearest.tla, BigNat)")
	c.Assume("TLC is trusted; ArithF.tla decides conversion, fold order, initial element, exact-zero precedence, exceptions, the exact binary value of floats (exact-num) and the integer results of floor/ceil/round/round-to-even/trunc (BigNat); it does not compute IEEE sums/products")
	c.Assume("arguments are built with the real `num` from shortest round-trip spellings (C05 covers that); any NaN equals any NaN")
	return nil
}

// randomCases draws argument lists (inputs only).
func randomCases(c *lib.Ctx) []fcase {
	g := &numx.Gen{R: c.Rand}
	r := c.Rand
	n := c.Pick(1500, 40000)
	heavy := c.Pick(60, 1500) // cases whose outcome TLC computes with BigNat (rounding, exact-num)
	folds := []string{"+", "-", "*", "/"}
	rounds := []string{"math:floor", "math:ceil", "math:round", "math:round-to-even", "math:trunc", "math:abs", "exact-num"}
	var out []fcase
	for i := 0; i < n; i++ {
		cmd := folds[r.Intn(4)]
		k := 1 + r.Intn(5)
		args := make([]numx.Val, k)
		hasF := false
		for j := range args {
			switch r.Intn(5) {
			case 0:
				args[j] = g.Exact(true)
			case 1:
				if r.Intn(3) == 0 {
					args[j] = numx.ExactInt(big.NewInt(0))
				} else {
					args[j] = numx.ExactInt(g.BigInt())
				}
			default:
				args[j] = numx.Float(g.FloatBits(true))
				hasF = true
			}
		}
		if !hasF {
			args[r.Intn(k)] = numx.Float(g.FloatBits(true))
		}
		out = append(out, fcase{Cmd: cmd, Args: args})
	}
	for i := 0; i < heavy; i++ {
		cmd := rounds[r.Intn(len(rounds))]
		out = append(out, fcase{Cmd: cmd, Args: []numx.Val{numx.Float(g.FloatBits(i%10 == 0))}})
	}
	for i := 0; i < c.Pick(200, 4000); i++ {
		var a numx.Val
		if r.Intn(3) == 0 {
			a = numx.Float(g.FloatBits(true))
		} else {
			a = g.Exact(true)
		}
		out = append(out, fcase{Cmd: "inexact-num", Args: []numx.Val{a}})
	}
	return out
}

func replay(c *lib.Ctx, ev *eval.Evaler) error {
	b, err := os.ReadFile(c.Replay)
	if err != nil {
		return lib.Infra("%v", err)
	}
	var f struct {
		Case fcase `json:"case"`
	}
	if err := json.Unmarshal(b, &f); err != nil {
		return lib.Infra("%v", err)
	}
	return replayCase(c, ev, f.Case)
}
