// C05 — typed numbers survive to-string/num; every documented literal parses.
//
// G: MCNumLit.tla generates literals of every documented syntax (sign, base prefixes in either
//
//	case, digit groups with underscores, hex digit case, rationals, decimal and scientific floats,
//	Inf/NaN in any case, the 2^63/2^64 boundaries in every base) together with the reading
//	NumLit.tla prescribes (exact value and canonical class computed by TLC with BigNat; floats as
//	exact decimal m*10^sc). The executor calls vals.ParseNum and the `num` builtin and compares.
//
// V: (a) random literals, their mutations and non-numbers drawn here are classified by TLC
//
//	(GenNumLit.tla) and compared the same way; (b) random typed numbers x are sent through
//	to-string and num; TLC judges {x, num(to-string(x))} with RoundTripOK (JudgeRoundTrip.tla).
//
// Trusted primitive: NearestDouble(m*10^sc) = big.Rat.Float64, re-checked here against both
// neighbouring doubles with exact rational arithmetic.
package main

import (
	"encoding/json"
	"fmt"
	"math"
	"math/big"
	"os"
	"strings"
	"time"
	"unicode/utf8"

	"src.elv.sh/pkg/eval"
	"src.elv.sh/pkg/eval/vals"
	"verif.local/harness/checks/c11/numx"
	"verif.local/harness/elv"
	"verif.local/harness/lib"
)

type nat []int // little-endian base-10^4 limbs

func (n nat) big() *big.Int {
	acc := new(big.Int)
	for i := len(n) - 1; i >= 0; i-- {
		acc.Mul(acc, big.NewInt(10000))
		acc.Add(acc, big.NewInt(int64(n[i])))
	}
	return acc
}

type class struct {
	K   string   `json:"k"`
	R   numx.Res `json:"r"`
	Neg bool     `json:"neg"`
	M   nat      `json:"m"`
	Sc  int      `json:"sc"`
	Why string   `json:"why"`
}

type lcase struct {
	Text []int  `json:"text"`
	Cls  *class `json:"cls,omitempty"`
}

func (l lcase) str() string {
	b := make([]byte, len(l.Text))
	for i, c := range l.Text {
		b[i] = byte(c)
	}
	return string(b)
}

func codes(s string) []int {
	out := make([]int, len(s))
	for i := 0; i < len(s); i++ {
		out[i] = int(s[i])
	}
	return out
}

func main() { lib.Main("C05", run) }

// nearestOK: is f the double nearest to x (ties to even)?  x is within the finite range.
func nearestOK(x *big.Rat, f float64) bool {
	if math.IsNaN(f) || math.IsInf(f, 0) {
		return false
	}
	exact := func(g float64) *big.Rat {
		if math.IsInf(g, 0) {
			r := new(big.Rat).SetInt(numx.Pow2(1024))
			if g < 0 {
				r.Neg(r)
			}
			return r
		}
		return new(big.Rat).SetFloat64(g)
	}
	dist := func(g float64) *big.Rat { d := new(big.Rat).Sub(x, exact(g)); return d.Abs(d) }
	d := dist(f)
	even := math.Float64bits(f)&1 == 0
	for _, g := range []float64{math.Nextafter(f, math.Inf(1)), math.Nextafter(f, math.Inf(-1))} {
		switch c := d.Cmp(dist(g)); {
		case c > 0:
			return false
		case c == 0 && !even:
			return false
		}
	}
	return true
}

// observed reading of a text by the real code
type obs struct {
	ok  bool
	res numx.Res
}

func (o obs) String() string {
	if !o.ok {
		return "not a number"
	}
	return o.res.String()
}

func observe(ev *eval.Evaler, s string) (direct, viaNum obs, err error) {
	if n := vals.ParseNum(s); n != nil {
		direct = obs{true, numx.Project(n)}
	}
	o := elv.RunCtx(ev, "num "+elv.Quote(s), nil, 60*time.Second)
	switch {
	case o.Timeout:
		return direct, viaNum, lib.Infra("num %q did not return", s)
	case o.Panic != "":
		return direct, obs{false, numx.Res{Cls: "panic"}}, nil
	case o.Err != nil:
		if elv.ErrClass(o.Err) != "exception" {
			return direct, viaNum, lib.Infra("num %s: not valid Elvish: %v", elv.Quote(s), o.Err)
		}
	case len(o.Values) == 1:
		viaNum = obs{true, numx.Project(o.Values[0])}
	default:
		return direct, viaNum, lib.Infra("num %q output %d values", s, len(o.Values))
	}
	return direct, viaNum, nil
}

// agree compares an observed reading with the prescribed one; "" when they agree.
func agree(cl *class, o obs) (kind string, want string, err error) {
	if o.res.Cls == "panic" {
		return "panic", cl.K, nil
	}
	switch cl.K {
	case "fail":
		if o.ok {
			return "accepted-non-number", "an exception", nil
		}
	case "exact":
		want = cl.R.String()
		if !o.ok {
			return "rejected-literal", want, nil
		}
		if !o.res.Equal(cl.R) {
			if o.res.Cls != cl.R.Cls {
				return "wrong-class", want, nil
			}
			return "wrong-value", want, nil
		}
	case "inf", "nan", "float":
		var f float64
		switch cl.K {
		case "inf":
			f = math.Inf(1)
			if cl.Neg {
				f = math.Inf(-1)
			}
		case "nan":
			f = math.NaN()
		default:
			x := new(big.Rat).SetInt(cl.M.big())
			p := new(big.Int).Exp(big.NewInt(10), big.NewInt(int64(abs(cl.Sc))), nil)
			if cl.Sc >= 0 {
				x.Mul(x, new(big.Rat).SetInt(p))
			} else {
				x.Quo(x, new(big.Rat).SetInt(p))
			}
			f, _ = x.Float64()
			if !nearestOK(x, f) {
				return "", "", lib.Infra("primitive NearestDouble: big.Rat.Float64(%s*10^%d) = %v is not the nearest double", cl.M.big(), cl.Sc, f)
			}
			if cl.Neg {
				f = -f // also gives -0.0
			}
		}
		want = "float:" + numx.FloatText(f)
		if !o.ok {
			return "rejected-literal", want, nil
		}
		if o.res.Cls != "float" {
			return "wrong-class", want, nil
		}
		g := math.Float64frombits(o.res.F)
		if !(math.Float64bits(f) == o.res.F || (math.IsNaN(f) && math.IsNaN(g))) {
			if f == g {
				return "wrong-zero-sign", want, nil
			}
			return "not-correctly-rounded", want, nil
		}
	default:
		return "", "", lib.Infra("unknown class %q", cl.K)
	}
	return "", want, nil
}

func abs(i int) int {
	if i < 0 {
		return -i
	}
	return i
}

// shape is the structural signature of a text used in finding keys: digits -> 9, hex letters -> a,
// other letters kept (lower case), runs collapsed.
func shape(s string) string {
	var sb strings.Builder
	var last rune
	for _, r := range strings.ToLower(s) {
		c := r
		switch {
		case r >= '0' && r <= '9':
			c = '9'
		case r >= 'a' && r <= 'f' && r != 'e' && r != 'b':
			c = 'a'
		case r >= 128:
			c = 'U'
		}
		if c == last && (c == '9' || c == 'a') {
			continue
		}
		sb.WriteRune(c)
		last = c
	}
	out := sb.String()
	if len(out) > 24 {
		out = out[:24]
	}
	return out
}

// conversions of float literals recorded for JudgeNearest.tla
var nearCases []numx.NearCase

func checkText(c *lib.Ctx, ev *eval.Evaler, lc lcase) error {
	s := lc.str()
	cl := lc.Cls
	if cl.K == "unspec" {
		c.Inc("unspecified_"+cl.Why, 1)
		return nil
	}
	c.Distinct(s)
	c.Inc("prescribed_"+cl.K, 1)
	direct, viaNum, err := observe(ev, s)
	if err != nil {
		return err
	}
	c.AddEvals(2)
	for i, o := range []obs{direct, viaNum} {
		via := []string{"vals.ParseNum", "num"}[i]
		kind, want, err := agree(cl, o)
		if err != nil {
			return err
		}
		if kind != "" {
			c.Reject("literal:"+cl.K+":"+shape(s)+":"+kind, fmt.Sprintf("%s %q -> %s; NumLit.tla prescribes %s", via, s, o, want), lc)
			return nil
		}
	}
	if cl.K == "float" && direct.ok && direct.res.Cls == "float" {
		m := []int(cl.M)
		if m == nil {
			m = []int{}
		}
		nearCases = append(nearCases, numx.NearCase{Kind: "dec", Neg: cl.Neg, M: m, D: []int{1}, Sc: cl.Sc, Bits: numx.HexDigits(direct.res.F)})
	}
	return nil
}

// judgeNearest lets TLC decide whether the doubles `num` produced for float literals are the
// correctly rounded ones (Nearest.tla): a cost-bounded sample of the recorded conversions.
func judgeNearest(c *lib.Ctx) error {
	budget := c.Pick(2500, 120000) // total cost in limbs
	max := c.Pick(250, 6000)
	var sel []numx.NearCase
	c.Rand.Shuffle(len(nearCases), func(i, j int) { nearCases[i], nearCases[j] = nearCases[j], nearCases[i] })
	for _, n := range nearCases {
		if k := n.Cost(); k <= budget && len(sel) < max {
			budget -= k
			sel = append(sel, n)
		}
	}
	// vacuity guard: 0.1 rounded the wrong way must be rejected
	sel = append(sel, numx.NearCase{Kind: "dec", Neg: false, M: []int{1}, D: []int{1}, Sc: -1, Bits: numx.HexDigits(math.Float64bits(math.Nextafter(0.1, 1)))})
	bad, err := lib.Judge(c, "JudgeNearest", c.SpecDir("Arith"), "JudgeNearest", sel, c.Pick(2, 4), 14*time.Minute)
	if err != nil {
		return err
	}
	guard := false
	for _, b := range bad {
		if b.Index == len(sel)-1 {
			guard = true
			continue
		}
		n := sel[b.Index]
		c.Reject("literal:float:not-correctly-rounded", fmt.Sprintf("num of a literal with value %v*10^%d gives bits %x: Nearest.tla: not the nearest double", nat(n.M).big(), n.Sc, numx.FromHex(n.Bits)), n)
	}
	if !guard {
		return lib.Infra("vacuity guard: JudgeNearest accepted a wrongly rounded 0.1")
	}
	c.AddTraces(len(sel) - 1)
	c.Set("conversions_judged_by_tlc", len(sel)-1)
	c.Logf("float conversions judged by TLC: %d of %d", len(sel)-1, len(nearCases))
	return nil
}

func cfg(consts string, invs ...string) []byte {
	s := consts + "INIT Init\nNEXT Next\n"
	for _, i := range invs {
		s += "INVARIANT " + i + "\n"
	}
	return []byte(s)
}

type rtVal struct {
	Cls  string `json:"cls"`
	N    numx.Z `json:"n"`
	D    numx.Z `json:"d"`
	Bits []int  `json:"bits"`
}

type rtCase struct {
	X   rtVal  `json:"x"`
	S   string `json:"s"`
	Yok bool   `json:"yok"`
	Y   rtVal  `json:"y"`
}

func toRT(r numx.Res) rtVal {
	v := rtVal{Cls: r.Cls, N: r.N, D: r.D, Bits: []int{}}
	if r.Cls == "float" {
		v.Bits = numx.HexDigits(r.F)
	}
	return v
}

func run(c *lib.Ctx) error {
	dir := c.SpecDir("NumLit")
	ev := elv.New()
	if c.Replay != "" {
		return replay(c, ev)
	}
	c.Set("rule", "literals: distinct by text, counted only when NumLit.tla prescribes a reading (Unspecified texts are not counted); round trips: distinct by the value x")
	texts := randomTexts(c)
	rts, err := roundTrips(c, ev)
	if err != nil {
		return err
	}

	var rG *lib.TLCResult
	var pres []string
	var bad []lib.BadCase
	errs := make([]error, 3)
	lib.Parallel(3, 3, func(i int) {
		switch i {
		case 0:
			r, err := c.TLC("MCNumLit", lib.TLCRun{Dir: dir, Module: "MCNumLit", Workers: 1, Timeout: 14 * time.Minute,
				Files: map[string][]byte{"MCNumLit.cfg": cfg(fmt.Sprintf("CONSTANT Seed = %d\nCONSTANT Big = %s\n", c.Seed%100000, map[bool]string{true: "TRUE", false: "FALSE"}[c.Thorough()]), "Documented", "SmallDecimal", "Emit")}})
			if err == nil && r.ErrKind != "" {
				err = lib.Infra("NumLit.tla: grammar and recogniser disagree: %s %s\n%s", r.ErrName, r.Err, r.ErrTrace)
			}
			rG, errs[i] = r, err
		case 1:
			pres, errs[i] = numx.Prescribe(c, "GenNumLit", dir, "GenNumLit", texts, c.Pick(1, 3), 14*time.Minute)
		case 2:
			bad, errs[i] = lib.Judge(c, "JudgeRoundTrip", dir, "JudgeRoundTrip", rts, c.Pick(2, 3), 14*time.Minute)
		}
	})
	for _, e := range errs {
		if e != nil {
			return e
		}
	}

	// ---- G
	seen := map[string]bool{}
	n := 0
	for _, s := range rG.PrintedStrings() {
		if seen[s] {
			continue
		}
		seen[s] = true
		var lc lcase
		if err := json.Unmarshal([]byte(s), &lc); err != nil || lc.Cls == nil {
			return lib.Infra("bad case from TLC: %v: %s", err, s)
		}
		if err := checkText(c, ev, lc); err != nil {
			return err
		}
		if n%499 == 7 {
			c.Sample(map[string]any{"text": lc.str(), "prescribed": lc.Cls})
		}
		n++
	}
	if n < 1500 {
		return lib.Infra("literal enumeration incomplete: %d", n)
	}
	c.AddTraces(n)
	c.Logf("generated literals: %d checked", n)
	c.Set("exhaustive", true)

	// ---- V (a): recorded texts
	for idx, js := range pres {
		lc := texts[idx]
		lc.Cls = new(class)
		if err := json.Unmarshal([]byte(js), lc.Cls); err != nil {
			return lib.Infra("bad class from TLC: %v: %s", err, js)
		}
		if err := checkText(c, ev, lc); err != nil {
			return err
		}
	}
	c.AddTraces(len(texts))
	c.Logf("random texts: %d classified and checked", len(texts))

	// ---- V (b): round trips
	guard := len(rts) - 2
	nGuard := 0
	for _, b := range bad {
		if b.Index >= guard {
			nGuard++
		}
	}
	if nGuard != 2 {
		return lib.Infra("vacuity guard: JudgeRoundTrip accepted a corrupted round trip")
	}
	rts = rts[:guard]
	c.Set("vacuity_guard", "two corrupted round trips (sign of zero flipped, integer off by one) were rejected by JudgeRoundTrip")
	for _, b := range bad {
		if b.Index >= guard {
			continue
		}
		rc := rts[b.Index]
		y := "not a number"
		if rc.Yok {
			y = rc.Y.Cls
		}
		c.Reject("roundtrip:"+rc.X.Cls+"->"+y, fmt.Sprintf("to-string gives %q, num of it gives %s (x: %s)", rc.S, y, rc.X.Cls), rc)
	}
	c.AddTraces(len(rts))
	// ---- V (c): correct rounding of float literals, decided by TLC
	if err := judgeNearest(c); err != nil {
		return err
	}
	c.Set("bounds", map[string]any{"generated_literals": n, "random_texts": len(texts), "round_trips": len(rts)})
	c.Logf("round trips: %d judged", len(rts))
	c.Assume("TLC is trusted; NumLit.tla is the reading of 'Number' in language.md; exact values and classes are computed by TLC (BigNat); for float literals TLC fixes the exact decimal value; the executor compares with NearestDouble = big.Rat.Float64 (re-checked against both neighbouring doubles with exact rational arithmetic) and a cost-bounded sample of the produced doubles is judged by TLC itself (Nearest.tla, BigNat)")
	c.Assume("float literals at or beyond the rounding boundary of the largest double, with exponents beyond +-400, and every spelling the reference does not mention are Unspecified (accepted either way)")
	return nil
}

// roundTrips records {x, to-string(x), num(to-string(x))} through the real builtins.
func roundTrips(c *lib.Ctx, ev *eval.Evaler) ([]rtCase, error) {
	g := &numx.Gen{R: c.Rand}
	r := c.Rand
	n := c.Pick(12000, 240000)
	var xs []any
	for _, f := range []float64{0, math.Copysign(0, -1), math.Inf(1), math.Inf(-1), math.NaN(), 5e-324, -5e-324, 2.2250738585072014e-308, 2.225073858507201e-308,
		math.MaxFloat64, -math.MaxFloat64, 1e21, 1e20, 123456789012345680, 1e14, 1e15, 99999999999999.98, 1e-5, 1e-4, 0.0001, 0.00001, 1.5, 0.1, 1e23, 9007199254740993} {
		xs = append(xs, f)
	}
	for i := 0; i < n; i++ {
		switch r.Intn(8) {
		case 0, 1, 2:
			xs = append(xs, math.Float64frombits(r.Uint64()))
		case 3:
			xs = append(xs, g.FloatBits(false))
		case 4: // all exponent classes: pick the exponent field uniformly, random mantissa
			xs = append(xs, math.Float64frombits(r.Uint64()&^(0x7ff<<52)|uint64(r.Intn(2048))<<52))
		case 5, 6:
			xs = append(xs, vals.NormalizeBigInt(g.BigInt()))
		default:
			xs = append(xs, vals.NormalizeBigRat(g.Exact(true).Rat()))
		}
	}
	// through Elvish in batches: put (to-string $x) (num (to-string $x))
	out := make([]rtCase, 0, len(xs))
	direct := 0
	for i, x := range xs {
		xr := numx.Project(x)
		var s string
		var y any
		if i%50 == 0 { // a sample goes through the builtins `to-string` and `num` themselves
			o := elv.RunCtx(ev, "{ var s = (to-string "+reprNum(x)+"); put $s; put (num $s) }", nil, 60*time.Second)
			c.AddEvals(1)
			if o.Timeout || o.Panic != "" {
				return nil, lib.Infra("to-string/num of %s: timeout or panic %s", reprNum(x), o.Panic)
			}
			if len(o.Values) >= 1 {
				s, _ = o.Values[0].(string)
			}
			if o.Err == nil && len(o.Values) == 2 {
				y = o.Values[1]
			}
			// the typed number must have been built faithfully for the sample to count
			direct++
		} else {
			s = vals.ToString(x)
			y = vals.ParseNum(s)
			c.AddEvals(1)
		}
		rc := rtCase{X: toRT(xr), S: s, Yok: y != nil, Y: rtVal{Cls: "none", N: numx.ZInt(0), D: numx.ZInt(1), Bits: []int{}}}
		if y != nil {
			rc.Y = toRT(numx.Project(y))
		}
		out = append(out, rc)
		if i%1000 == 0 {
			c.Distinct(fmt.Sprint("rt:", s))
		}
	}
	c.Set("round_trips_through_builtins", direct)
	// vacuity guard: two corrupted copies (sign of zero flipped; integer off by one) close the list;
	// the judge must reject both (checked by the caller)
	z := rtCase{X: toRT(numx.Project(0.0)), S: "0.0", Yok: true, Y: toRT(numx.Project(math.Copysign(0, -1)))}
	o := rtCase{X: toRT(numx.Project(41)), S: "41", Yok: true, Y: toRT(numx.Project(42))}
	out = append(out, z, o)
	return out, nil
}

// reprNum renders a typed number as Elvish source that rebuilds exactly this value without going
// through the conversion under test for exact numbers; floats use the bit-exact hex float form,
// which `num` reads through strconv (only used to construct inputs of the builtin sample).
func reprNum(x any) string {
	switch x := x.(type) {
	case float64:
		switch {
		case math.IsNaN(x):
			return "(num NaN)"
		case math.IsInf(x, 1):
			return "(num +Inf)"
		case math.IsInf(x, -1):
			return "(num -Inf)"
		}
		return "(num " + fmt.Sprintf("%x", x) + ")"
	case int:
		return fmt.Sprintf("(num %d)", x)
	case *big.Int:
		return "(num " + x.String() + ")"
	case *big.Rat:
		return "(num " + x.String() + ")"
	}
	return "(num 0)"
}

var seedLits = []string{"0", "7", "10", "-3", "+5", "1000000", "1_000_000", "1_2_3", "9223372036854775807", "9223372036854775808", "-9223372036854775808",
	"-9223372036854775809", "18446744073709551616", "0xA", "0XfF", "0x7fffffffffffffff", "0x8000000000000000", "0o12", "0O777", "0b1010", "0B1", "1/2", "-1/12",
	"0x10/100", "22/7", "4/2", "10.0", "3.14", "1e1", "1.0e1", "1.234_56e3", "1.23456E3", "-0.0", "+0.5", "1e-320", "4.9e-324", "2.4703282292062328e-324",
	"1.7976931348623157e308", "0.1", "123456789.125", "5e22", "9007199254740993.0", "Inf", "+Inf", "-Inf", "NaN", "inf", "nan", "+INF", "-inf"}

var junk = []string{"", " ", "+", "-", "--1", "+-1", "1e", "1e+", "0x", "0o", "0b", "1/", "/2", "1//2", "1/2/3", " 1", "1 ", "1,000", "abc", "xyz", "1z", "٣", "１", "1 2",
	"1__0", "_1", "1_", "0x_1", "010", "00", "09", ".5", "5.", "1/0", "1/-2", "1.5/2", "0x1p-2", "Infinity", "+NaN", "-nan", "1e400", "-1e400", "1e-400", "0b12", "0o8", "0xg", "१", "½", "1e5e3", "e5", "..", "1..2", "1.2.3", "$1", "1;", "~1"}

// randomTexts draws literal-like texts: documented literals built here with random case and
// underscores, mutations of them, and junk.  They are inputs; TLC classifies each.
func randomTexts(c *lib.Ctx) []lcase {
	r := c.Rand
	n := c.Pick(2000, 60000)
	var out []lcase
	add := func(s string) {
		if len(s) <= 60 && utf8.ValidString(s) {
			out = append(out, lcase{Text: codes(s)})
		}
	}
	for _, s := range seedLits {
		add(s)
	}
	for _, s := range junk {
		add(s)
	}
	digits := func(base, n int) string {
		const d = "0123456789abcdef"
		b := make([]byte, n)
		for i := range b {
			b[i] = d[r.Intn(base)]
		}
		if n > 1 && b[0] == '0' {
			b[0] = '1'
		}
		return string(b)
	}
	unders := func(s string) string {
		if r.Intn(2) == 0 || len(s) < 2 {
			return s
		}
		var sb strings.Builder
		for i := 0; i < len(s); i++ {
			if i > 0 && r.Intn(3) == 0 {
				sb.WriteByte('_')
			}
			sb.WriteByte(s[i])
		}
		return sb.String()
	}
	recase := func(s string) string {
		b := []byte(s)
		for i := range b {
			if r.Intn(2) == 0 {
				b[i] = strings.ToUpper(string(b[i]))[0]
			}
		}
		return string(b)
	}
	uint_ := func() string {
		switch r.Intn(6) {
		case 0:
			return "0x" + unders(digits(16, 1+r.Intn(20)))
		case 1:
			return "0o" + unders(digits(8, 1+r.Intn(24)))
		case 2:
			return "0b" + unders(digits(2, 1+r.Intn(70)))
		default:
			return unders(digits(10, 1+r.Intn(24)))
		}
	}
	sign := func() string { return []string{"", "", "+", "-"}[r.Intn(4)] }
	lit := func() string {
		switch r.Intn(8) {
		case 0, 1:
			return sign() + uint_()
		case 2:
			return sign() + uint_() + "/" + uint_()
		case 3:
			return sign() + []string{"inf", "nan", "Inf", "NaN"}[r.Intn(4)]
		default:
			s := sign() + unders(digits(10, 1+r.Intn(20)))
			if r.Intn(4) != 0 {
				s += "." + unders(digits(10, 1+r.Intn(20)))
			}
			if r.Intn(2) == 0 || !strings.Contains(s, ".") {
				e := r.Intn(40)
				if r.Intn(4) == 0 {
					e = r.Intn(340)
				}
				s += "e" + []string{"", "+", "-"}[r.Intn(3)] + fmt.Sprint(e)
			}
			return s
		}
	}
	alphabet := "0123456789abcdefxobepinty_+-./ gz,"
	for len(out) < n {
		s := recase(lit())
		switch r.Intn(4) {
		case 0: // mutate: replace, insert or delete one character
			b := []byte(s)
			if len(b) == 0 {
				break
			}
			i := r.Intn(len(b))
			switch r.Intn(3) {
			case 0:
				b[i] = alphabet[r.Intn(len(alphabet))]
			case 1:
				b = append(b[:i], append([]byte{alphabet[r.Intn(len(alphabet))]}, b[i:]...)...)
			default:
				b = append(b[:i], b[i+1:]...)
			}
			s = string(b)
		}
		add(s)
	}
	return out
}

func replay(c *lib.Ctx, ev *eval.Evaler) error {
	b, err := os.ReadFile(c.Replay)
	if err != nil {
		return lib.Infra("%v", err)
	}
	var f struct {
		Case json.RawMessage `json:"case"`
	}
	if err := json.Unmarshal(b, &f); err != nil {
		return lib.Infra("%v", err)
	}
	var lc lcase
	if json.Unmarshal(f.Case, &lc) == nil && lc.Cls != nil {
		return checkText(c, ev, lc)
	}
	var rc rtCase
	if err := json.Unmarshal(f.Case, &rc); err != nil {
		return lib.Infra("%v", err)
	}
	// rebuild x from the record, run the round trip again and judge it again
	var x any
	switch rc.X.Cls {
	case "float":
		x = math.Float64frombits(numx.FromHex(rc.X.Bits))
	case "rat":
		x = new(big.Rat).SetFrac(&rc.X.N.Int, &rc.X.D.Int)
	default:
		x = vals.NormalizeBigInt(&rc.X.N.Int)
	}
	s := vals.ToString(x)
	y := vals.ParseNum(s)
	n := rtCase{X: toRT(numx.Project(x)), S: s, Yok: y != nil, Y: rtVal{Cls: "none", N: numx.ZInt(0), D: numx.ZInt(1), Bits: []int{}}}
	if y != nil {
		n.Y = toRT(numx.Project(y))
	}
	bad, err := lib.Judge(c, "JudgeRoundTrip", c.SpecDir("NumLit"), "JudgeRoundTrip", []rtCase{n}, 1, 5*time.Minute)
	if err != nil {
		return err
	}
	for range bad {
		c.Reject("roundtrip:"+n.X.Cls+"->"+n.Y.Cls, fmt.Sprintf("to-string gives %q", s), n)
	}
	return nil
}
