package main

import (
	"math/rand"

	"verif.local/harness/elv"
	"verif.local/harness/lib"
)

// units of hostile file names: one representative per class (the classes of DESIGN.md C43 and a few more)
var nameUnits = []string{"a", "b", " ", "'", "\"", "$", "~", ".", "*", "\u00e9", "\n", "=", "#", "\\", "\xff", "-", ";", "?", "[", ","}

var styles = []struct {
	style  string
	closed bool
}{{"none", false}, {"bare", false}, {"single", false}, {"single", true}, {"double", false}, {"double", true}}

func validName(n string) bool { return n != "" && n != "." && n != ".." }

// prefixesOf: the empty prefix, the first unit, the whole name, and a prefix that matches nothing
func prefixesOf(units []string) []string {
	out := []string{""}
	if len(units) > 1 {
		out = append(out, units[0])
	}
	whole := ""
	for _, u := range units {
		whole += u
	}
	return append(out, whole, "zz")
}

func entriesJSON(es []fsEntry) []fsEntryJSON {
	out := []fsEntryJSON{}
	for _, e := range es {
		out = append(out, fsEntryJSON{elv.Bytes(e.name), e.dir, e.exe})
	}
	return out
}

// fileCases lists the file name completion cases of a run.
func fileCases(c *lib.Ctx) []fileCase {
	rng := rand.New(rand.NewSource(c.Seed*15485863 + 5))
	var out []fileCase
	dirparts := func(tm template) []string {
		if tm.cmdpos {
			return []string{"./", "sub/"}
		}
		return []string{"", "sub/"}
	}
	rot := 0
	one := func(units []string, kind int, lite bool) {
		name := ""
		for _, u := range units {
			name += u
		}
		if !validName(name) {
			return
		}
		e := fsEntry{name: name, dir: kind == 1, exe: kind == 2}
		for _, p := range prefixesOf(units) {
			for _, st := range styles {
				for ti, tm := range fileTemplates {
					dps := dirparts(tm)
					if lite { // one of the two directory parts, alternating
						rot++
						dps = dps[rot%2 : rot%2+1]
					}
					for _, dp := range dps {
						out = append(out, fileCase{Entries: entriesJSON([]fsEntry{e}), DirPart: dp, Prefix: elv.Bytes(p),
							Style: st.style, Closed: st.closed, Tmpl: ti})
					}
				}
			}
		}
	}
	// every name of one unit, as a file, a directory and an executable (quick tier: a seeded 40% of them)
	for _, u := range nameUnits {
		for kind := 0; kind < 3; kind++ {
			one([]string{u}, kind, false)
		}
	}
	if c.Quick() {
		kept := out[:0]
		for _, fc := range out {
			if rng.Intn(5) < 2 {
				kept = append(kept, fc)
			}
		}
		out = kept
	}
	// directed probe of the known finding "replace range after the cursor": always present
	out = append(out, fileCase{Entries: entriesJSON([]fsEntry{{name: "a", dir: true}}), DirPart: "", Prefix: []int{}, Style: "none", Tmpl: 1})
	n1 := len(out)
	// names of two units: all of them in the thorough tier, a seeded sample in the quick tier
	var two []fileCase
	save := out
	out = nil
	for _, u := range nameUnits {
		for _, v := range nameUnits {
			one([]string{u, v}, rng.Intn(3), true)
		}
	}
	two, out = out, save
	if c.Quick() {
		rng.Shuffle(len(two), func(i, j int) { two[i], two[j] = two[j], two[i] })
		if len(two) > 1000 {
			two = two[:1000]
		}
	}
	out = append(out, two...)
	// directories of several entries
	pool := func() string {
		n := 1 + rng.Intn(3)
		s := ""
		for i := 0; i < n; i++ {
			s += nameUnits[rng.Intn(len(nameUnits))]
		}
		return s
	}
	nMulti := c.Pick(300, 6000)
	for i := 0; i < nMulti; i++ {
		var es []fsEntry
		seen := map[string]bool{}
		for len(es) < 2+rng.Intn(3) {
			n := pool()
			if rng.Intn(3) == 0 && len(es) > 0 { // share a prefix with an earlier entry
				n = es[0].name[:1+rng.Intn(len(es[0].name))] + nameUnits[rng.Intn(len(nameUnits))]
			}
			if !validName(n) || seen[n] {
				continue
			}
			seen[n] = true
			k := rng.Intn(4)
			es = append(es, fsEntry{name: n, dir: k == 1, exe: k == 2})
		}
		src := es[rng.Intn(len(es))].name
		p := src[:rng.Intn(len(src)+1)]
		st := styles[rng.Intn(len(styles))]
		if st.style == "none" {
			p = ""
		}
		ti := rng.Intn(len(fileTemplates))
		dps := dirparts(fileTemplates[ti])
		out = append(out, fileCase{Entries: entriesJSON(es), DirPart: dps[rng.Intn(len(dps))], Prefix: elv.Bytes(p),
			Style: st.style, Closed: st.closed, Tmpl: ti})
	}
	// longer random hostile names
	runes := []string{"\u00e9", "\u4f60", "\U0001f600", "\u00a0", "\u200b", "\u0085", "\ufffd", "\u0301"}
	meta := []byte("'\"\\$~ \n\t=,<>*^?()[]{}&;|#:@%+!.-_`")
	nRand := c.Pick(300, 6000)
	for i := 0; i < nRand; i++ {
		var b []byte
		ln := 1 + rng.Intn(12)
		for len(b) < ln {
			switch rng.Intn(6) {
			case 0, 1:
				b = append(b, "abzAZ09"[rng.Intn(7)])
			case 2, 3:
				b = append(b, meta[rng.Intn(len(meta))])
			case 4:
				b = append(b, runes[rng.Intn(len(runes))]...)
			case 5:
				x := byte(1 + rng.Intn(255))
				if x == '/' {
					x = 0xfe
				}
				b = append(b, x)
			}
		}
		n := string(b)
		if !validName(n) {
			continue
		}
		k := rng.Intn(4)
		es := []fsEntry{{name: n, dir: k == 1, exe: k == 2}, {name: "other", dir: false}}
		p := n[:rng.Intn(len(n)+1)]
		st := styles[rng.Intn(len(styles))]
		if st.style == "none" {
			p = ""
		}
		ti := rng.Intn(len(fileTemplates))
		dps := dirparts(fileTemplates[ti])
		out = append(out, fileCase{Entries: entriesJSON(es), DirPart: dps[rng.Intn(len(dps))], Prefix: elv.Bytes(p),
			Style: st.style, Closed: st.closed, Tmpl: ti})
	}
	c.Set("bounds", map[string]any{"name_units": len(nameUnits), "one_unit_cases": n1, "two_unit_cases": len(two),
		"two_units_exhaustive": c.Thorough(), "multi_entry_dirs": nMulti, "random_names": nRand, "templates": len(fileTemplates)})
	return out
}
