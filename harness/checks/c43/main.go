// C43 — completion inserts text that evaluates to the chosen candidate.
//
// M: MCComplete — the acceptance predicates of spec/StringLit/Complete.tla hold on a code-shaped
//
//	model of completion (filter by prefix, quote in the typed style) for every small name / prefix / style.
//
// V: the executor builds real directories with hostile file names (and an Evaler with hostile variable
//
//	and function names), types partial words in bare / single / double style into code buffers, calls
//	the REAL complete.Complete, substitutes every candidate's insertion text into the buffer and
//	evaluates the buffer with the real Evaler; the TLA+ module JudgeComplete decides every record.
//
// The Go side contains no oracle: it concretises, runs the real code, projects and records.
package main

import (
	"encoding/json"
	"fmt"
	"os"
	"path/filepath"
	"strings"
	"time"
	"unicode"
	"unicode/utf8"

	"src.elv.sh/pkg/edit/complete"
	"src.elv.sh/pkg/eval"
	"src.elv.sh/pkg/parse"
	"verif.local/harness/elv"
	"verif.local/harness/lib"
)

func main() { lib.Main("C43", run) }

// ---- the record judged by spec/StringLit/JudgeComplete.tla

type entry struct {
	Name []int `json:"name"`
	Dir  bool  `json:"dir"`
	Exe  bool  `json:"exe"`
}

type typedWord struct {
	Style string `json:"style"`
	Text  []int  `json:"text"`
}

type item struct {
	Ins   []int   `json:"ins"`
	Evapp bool    `json:"evapp"`
	Evc   string  `json:"evc"`
	Ev    [][]int `json:"ev"`
}

type result struct {
	Offered bool   `json:"offered"`
	From    int    `json:"from"`
	To      int    `json:"to"`
	Items   []item `json:"items"`
}

type rec struct {
	Kind    string    `json:"kind"`
	Ctx     string    `json:"ctx"`
	Pos     string    `json:"pos"`
	Cmdpos  bool      `json:"cmdpos"`
	Buf     []int     `json:"buf"`
	Dot     int       `json:"dot"`
	Typed   typedWord `json:"typed"`
	Entries []entry   `json:"entries"`
	Pre     []int     `json:"pre"`
	Seed    []int     `json:"seed"`
	Names   [][]int   `json:"names"`
	Evnames [][]int   `json:"evnames"`
	Known   [][]int   `json:"known"`
	Res     result    `json:"res"`
	Evpost  [][]int   `json:"evpost"`
	Pr      []int     `json:"pr"`

	replay any // what is stored for bin/check C43 replay
}

func bytesOf(b []int) string {
	var sb strings.Builder
	for _, x := range b {
		sb.WriteByte(byte(x))
	}
	return sb.String()
}

func bytesList(ss []string) [][]int {
	out := [][]int{}
	for _, s := range ss {
		out = append(out, elv.Bytes(s))
	}
	return out
}

// printables lists the non-ASCII code points in the texts that unicode.IsPrint accepts.
func printables(texts ...string) []int {
	seen := map[rune]bool{}
	out := []int{}
	for _, t := range texts {
		for t != "" {
			r, w := utf8.DecodeRuneInString(t)
			if r >= 0x80 && !(r == utf8.RuneError && w == 1) && unicode.IsPrint(r) && !seen[r] {
				seen[r] = true
				out = append(out, int(r))
			}
			t = t[w:]
		}
	}
	return out
}

// runCode evaluates code with the real Evaler and returns the error class and the values put.
func runCode(ev *eval.Evaler, code string) (class string, values [][]int) {
	port, collect, err := eval.CapturePort()
	if err != nil {
		return "infra:" + err.Error(), [][]int{}
	}
	var evalErr error
	pan := ""
	func() {
		defer func() {
			if p := recover(); p != nil {
				pan = fmt.Sprint(p)
			}
		}()
		evalErr = ev.Eval(parse.Source{Name: "[c43]", Code: code}, eval.EvalCfg{Ports: []*eval.Port{nil, port, nil}})
	}()
	vs, _ := collect()
	values = [][]int{}
	for _, v := range vs {
		if s, ok := v.(string); ok {
			values = append(values, elv.Bytes(s))
		} else {
			values = append(values, []int{-1})
		}
	}
	if pan != "" {
		return "panic", values
	}
	return elv.ErrClass(evalErr), values
}

// ---- typing a word (concretisation of [style, denoted prefix])

// typeWord renders the prefix value p as the user would type it in the given style; ok = false if
// this style cannot express p in a way the harness is sure about (the case is skipped).
func typeWord(style, p string, closed bool) (text string, ok bool) {
	switch style {
	case "none":
		return "", p == ""
	case "bare":
		if p == "" || p[0] == '~' {
			return "", false
		}
		for _, r := range p {
			if !(r >= 'a' && r <= 'z' || r >= 'A' && r <= 'Z' || r >= '0' && r <= '9' || strings.ContainsRune("_-./%+!@:", r) ||
				r >= 0x80 && r != utf8.RuneError && unicode.IsPrint(r)) {
				return "", false
			}
		}
		return p, utf8.ValidString(p)
	case "single":
		if !utf8.ValidString(p) {
			return "", false
		}
		t := "'" + strings.ReplaceAll(p, "'", "''")
		if closed {
			t += "'"
		}
		return t, true
	case "double":
		var sb strings.Builder
		sb.WriteByte('"')
		for p != "" {
			r, w := utf8.DecodeRuneInString(p)
			switch {
			case r == utf8.RuneError && w == 1, r < 0x20, r == 0x7f:
				fmt.Fprintf(&sb, "\\x%02x", p[0])
			case r == '"' || r == '\\':
				sb.WriteByte('\\')
				sb.WriteByte(byte(r))
			default:
				sb.WriteString(p[:w])
			}
			p = p[w:]
		}
		if closed {
			sb.WriteByte('"')
		}
		return sb.String(), true
	}
	return "", false
}

// ---- file name completion

type fsEntry struct {
	name     string
	dir, exe bool
}

// template: where in a buffer the word is typed and how the word's value is observed afterwards
type template struct {
	pos    string // name of the position
	ctx    string // lexical context for Denote
	cmdpos bool
	pre    string   // buffer text before the word
	post   string   // buffer text after the cursor (only used when the typed word is complete)
	closer string   // appended after substitution so that the buffer can be evaluated
	evpost []string // what the rest of the buffer yields after the word's value
	dirs   bool     // the word's value can be observed for directories too
	files  bool     // the word's value can be observed for plain files
}

var fileTemplates = []template{
	{pos: "arg", ctx: "arg", pre: "put ", dirs: true, files: true},
	{pos: "arg-later", ctx: "arg", pre: "nop a 'b c'; put ", post: " y", evpost: []string{"y"}, dirs: true, files: true},
	{pos: "capture", ctx: "arg", pre: "put (put ", closer: ")", dirs: true, files: true},
	{pos: "redir", ctx: "arg", pre: "slurp < ", files: true},
	{pos: "redir-nospace", ctx: "arg", pre: "slurp <", files: true},
	{pos: "cmd", ctx: "cmd", cmdpos: true, pre: ""},
	{pos: "cmd-after-pipe", ctx: "cmd", cmdpos: true, pre: "nop | "},
}

type fileCase struct {
	Entries []fsEntryJSON `json:"entries"`
	DirPart string        `json:"dirpart"`
	Prefix  []int         `json:"prefix"`
	Style   string        `json:"style"`
	Closed  bool          `json:"closed"`
	Tmpl    int           `json:"tmpl"`
}

type fsEntryJSON struct {
	Name []int `json:"name"`
	Dir  bool  `json:"dir"`
	Exe  bool  `json:"exe"`
}

type world struct {
	root  string
	n     int
	ev    *eval.Evaler
	names *nameWorld
}

// runFileCase builds the directory, asks the real completer and evaluates every substitution.
// ok = false: the case cannot be concretised (skipped).
func (w *world) runFileCase(fc fileCase) (r rec, ok bool, err error) {
	tm := fileTemplates[fc.Tmpl]
	prefix := bytesOf(fc.Prefix)
	if tm.cmdpos && !strings.Contains(fc.DirPart, "/") {
		return r, false, nil // file names are completed in command position only after a slash
	}
	text, okT := typeWord(fc.Style, fc.DirPart+prefix, fc.Closed)
	if !okT {
		return r, false, nil
	}
	closedWord := fc.Style == "bare" || fc.Style == "none" || fc.Closed
	post := tm.post
	if !closedWord {
		post = ""
	}
	evpost := tm.evpost
	if post == "" {
		evpost = nil
	}
	w.n++
	dir := filepath.Join(w.root, fmt.Sprintf("c%d", w.n))
	target := filepath.Join(dir, filepath.FromSlash(strings.TrimPrefix(fc.DirPart, "./")))
	if err := os.MkdirAll(target, 0o755); err != nil {
		return r, false, err
	}
	defer os.RemoveAll(dir)
	var texts []string
	r = rec{Kind: "file", Ctx: tm.ctx, Pos: tm.pos, Cmdpos: tm.cmdpos, Entries: []entry{}, Pre: []int{}, Seed: []int{},
		Names: [][]int{}, Evnames: [][]int{}, Known: [][]int{}, Evpost: bytesList(evpost), replay: fc}
	for _, e := range fc.Entries {
		name := bytesOf(e.Name)
		p := filepath.Join(target, name)
		if e.Dir {
			err = os.Mkdir(p, 0o755)
		} else {
			mode := os.FileMode(0o644)
			if e.Exe {
				mode = 0o755
			}
			err = os.WriteFile(p, []byte(fc.DirPart+name), mode)
		}
		if err != nil {
			return r, false, nil // the file system refuses this name: skip
		}
		r.Entries = append(r.Entries, entry{e.Name, e.Dir, e.Exe})
		texts = append(texts, name)
	}
	if err := os.Chdir(dir); err != nil {
		return r, false, err
	}
	defer os.Chdir(w.root)
	buf := tm.pre + text + post
	dot := len(tm.pre) + len(text)
	r.Buf, r.Dot, r.Typed = elv.Bytes(buf), dot, typedWord{fc.Style, elv.Bytes(text)}
	res, cerr := complete.Complete(complete.CodeBuffer{Content: buf, Dot: dot}, w.ev, complete.Config{})
	r.Res = result{Items: []item{}}
	texts = append(texts, buf)
	if cerr == nil && res != nil {
		r.Res.Offered, r.Res.From, r.Res.To = true, res.Replace.From, res.Replace.To
		for _, it := range res.Items {
			x := item{Ins: elv.Bytes(it.ToInsert), Ev: [][]int{}}
			texts = append(texts, it.ToInsert)
			if res.Replace.From >= 0 && res.Replace.From <= res.Replace.To && res.Replace.To <= len(buf) {
				isDir := strings.HasSuffix(strings.TrimRight(it.ToInsert, " '\""), "/")
				if (isDir && tm.dirs) || (!isDir && tm.files) {
					x.Evapp = true
					x.Evc, x.Ev = runCode(w.ev, buf[:res.Replace.From]+it.ToInsert+buf[res.Replace.To:]+tm.closer)
				}
			}
			r.Res.Items = append(r.Res.Items, x)
		}
	}
	r.Pr = printables(texts...)
	return r, true, nil
}

func classSig(s string) string {
	var parts []string
	add := func(p string) {
		if len(parts) == 0 || parts[len(parts)-1] != p {
			parts = append(parts, p)
		}
	}
	for s != "" {
		r, w := utf8.DecodeRuneInString(s)
		switch {
		case r == utf8.RuneError && w == 1:
			add("badutf8")
		case r == utf8.RuneError:
			add("U+FFFD")
		case r >= 0x80 && unicode.IsPrint(r):
			add("uni")
		case r >= 0x80:
			add("uni-unprintable")
		case r < 0x20 || r == 0x7f:
			add("ctrl")
		case r >= '0' && r <= '9' || r >= 'a' && r <= 'z' || r >= 'A' && r <= 'Z':
			add("alnum")
		default:
			add(string(r))
		}
		s = s[w:]
	}
	if len(parts) > 6 {
		parts = append(parts[:6], "...")
	}
	return strings.Join(parts, " ")
}

// judge sends records to the TLA+ judge and turns rejections into findings.
func judge(c *lib.Ctx, name string, recs []rec) error {
	const batch = 40000
	for lo := 0; lo < len(recs); lo += batch {
		hi := lo + batch
		if hi > len(recs) {
			hi = len(recs)
		}
		bad, err := lib.Judge(c, name, c.SpecDir("StringLit"), "JudgeComplete", recs[lo:hi], c.Pick(4, 8), 45*time.Minute)
		if err != nil {
			return err
		}
		c.AddTraces(hi - lo)
		for _, b := range bad {
			r := recs[lo+b.Index]
			why := "?"
			if len(b.Info) > 0 {
				why = fmt.Sprint(b.Info[0])
			}
			if strings.HasPrefix(why, "BADCASE") {
				return lib.Infra("the harness typed a word the specification does not accept (%s): buffer %q", why, bytesOf(r.Buf))
			}
			var ins []string
			for _, it := range r.Res.Items {
				ins = append(ins, fmt.Sprintf("%q->%s%q", bytesOf(it.Ins), it.Evc, evStrings(it.Ev)))
			}
			var names []string
			for _, e := range r.Entries {
				names = append(names, bytesOf(e.Name))
			}
			for _, n := range r.Names {
				names = append(names, bytesOf(n))
			}
			// structural key: the two classes with a known cause are named after the cause
			key := fmt.Sprintf("%s:%s:%s:%s", why, r.Pos, r.Typed.Style, classSig(strings.Join(names, "")))
			switch {
			case r.Res.Offered && r.Res.From > r.Dot:
				key = why + ":replace-range-after-cursor"
			case r.Kind == "name" && r.Ctx == "var" && strings.Contains(bytesOf(r.Seed), ":"):
				key = why + ":variable-in-namespace:" + r.Typed.Style
			}
			c.Reject(key, fmt.Sprintf("buffer %q dot %d, names %q: %s; completion replaced [%d,%d) with %s",
				bytesOf(r.Buf), r.Dot, names, why, r.Res.From, r.Res.To, strings.Join(ins, " ")), r.replay)
		}
	}
	return nil
}

func evStrings(ev [][]int) []string {
	out := []string{}
	for _, e := range ev {
		out = append(out, bytesOf(e))
	}
	return out
}

func run(c *lib.Ctx) error {
	c.Set("rule", "a case is (directory listing or names in scope, typed word [style, prefix, open/closed], buffer position); distinct by those; non-trivial = at least one candidate was offered")
	c.Assume("unicode.IsPrint of the non-ASCII code points of a case is supplied by the executor as data (field pr); TLC, the Json module and the Go executor's concretisation (typing a word, substituting an insertion) are trusted")
	c.Assume("hiding of dot files, the trailing / of directory candidates, non-runnable files in command position, and the choice between two adequate quoting styles are Unspecified (see Complete.tla)")
	root, err := os.MkdirTemp("", "c43-")
	if err != nil {
		return lib.Infra("%v", err)
	}
	defer os.RemoveAll(root)
	if root, err = filepath.EvalSymlinks(root); err != nil {
		return lib.Infra("%v", err)
	}
	cwd, _ := os.Getwd()
	defer os.Chdir(cwd)
	w := &world{root: root, ev: elv.New()}

	if c.Replay != "" {
		return replay(c, w)
	}
	only := os.Getenv("C43_ONLY") // development aid: run one stage only (M or V)
	if only != "V" {
		if err := modelCheck(c); err != nil {
			return err
		}
	}
	if only == "M" {
		return nil
	}
	var recs []rec
	cases := fileCases(c)
	skipped := 0
	for _, fc := range cases {
		r, ok, err := w.runFileCase(fc)
		if err != nil {
			return lib.Infra("%v", err)
		}
		if !ok {
			skipped++
			continue
		}
		recs = append(recs, r)
	}
	c.Logf("file name completion: %d cases run, %d not concretisable", len(recs), skipped)
	nameRecs, err := nameCases(c, w)
	if err != nil {
		return err
	}
	recs = append(recs, nameRecs...)
	nItems := 0
	for _, r := range recs {
		c.AddEvals(1 + len(r.Res.Items))
		nItems += len(r.Res.Items)
		if len(r.Res.Items) > 0 {
			c.Distinct([]any{r.Kind, r.Pos, r.Typed, r.Entries, r.Names, r.Buf})
		}
		c.Inc("positions/"+r.Pos, 1)
	}
	c.Set("candidates_evaluated", nItems)
	for i := 0; i < 3 && len(recs) > 0; i++ {
		c.Sample(recs[(i*7919+len(recs)/2)%len(recs)])
	}
	if d := os.Getenv("C43_DUMP"); d != "" {
		os.WriteFile(d, lib.NDJSON(recs), 0o644)
	}
	c.Logf("V: %d records, %d candidates, judging", len(recs), nItems)
	return judge(c, "JudgeComplete", recs)
}

func replay(c *lib.Ctx, w *world) error {
	b, err := os.ReadFile(c.Replay)
	if err != nil {
		return lib.Infra("%v", err)
	}
	var f struct {
		Case json.RawMessage `json:"case"`
	}
	if err := json.Unmarshal(b, &f); err != nil {
		return lib.Infra("%v", err)
	}
	var nc nameCase
	if json.Unmarshal(f.Case, &nc) == nil && nc.Pos != "" {
		r, err := runNameCase(w, nc)
		if err != nil {
			return lib.Infra("%v", err)
		}
		return judge(c, "JudgeComplete/replay", []rec{r})
	}
	var fc fileCase
	if err := json.Unmarshal(f.Case, &fc); err != nil {
		return lib.Infra("%v", err)
	}
	r, ok, err := w.runFileCase(fc)
	if err != nil || !ok {
		return lib.Infra("replay case cannot be concretised: %v", err)
	}
	c.AddEvals(1 + len(r.Res.Items))
	return judge(c, "JudgeComplete/replay", []rec{r})
}
