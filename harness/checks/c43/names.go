package main

import (
	"fmt"
	"os"
	"path/filepath"
	"sort"
	"strings"
	"time"
	"unicode"
	"unicode/utf8"

	"src.elv.sh/pkg/edit/complete"
	"src.elv.sh/pkg/eval"
	"src.elv.sh/pkg/eval/vars"
	"verif.local/harness/elv"
	"verif.local/harness/lib"
)

// Completion of variable names after `$` and of command names in head position.
//
// The Evaler's global namespace gets variables and functions with hostile names (every variable
// holds its own qualified name, every function puts its own name), also inside a namespace `ns:`;
// $E:PATH points at a directory with executables with hostile names.

var hostileVars = []string{"a", "ab", "a b", "a'b", "a\"b", "a$b", "a.b", "a\nb", "a\u00e9", "a\xffb", "a-b", "a~", "a=b", "a*b", "a#",
	" x", "'x", "$x", "~x", ".x", "\u00e9x", "-x", "b\\", "b\tc", "b\u200bc"}
var hostileFns = []string{"f", "fg", "f b", "f'b", "f\"b", "f$", "f\nb", "f\u00e9", "f\xffb", "f=1", "f*", "f<", "f>g", "f^", "f,",
	"~f", "'f", " f", "g\\", "g\x01"}
var hostileExternals = []string{"xcmd", "x y", "x'z", "x$"}

func announce(name string) func(fm *eval.Frame) error {
	return func(fm *eval.Frame) error { return fm.ValueOutput().Put(name) }
}

type nameWorld struct {
	ev      *eval.Evaler
	pathDir string
}

func newNameWorld(root string) (*nameWorld, error) {
	ev := elv.New()
	inner := eval.BuildNs()
	for _, v := range hostileVars {
		inner = inner.AddVar(v, vars.NewReadOnly("ns:"+v))
	}
	for _, f := range hostileFns {
		inner = inner.AddGoFn(f, announce("ns:"+f))
	}
	nb := eval.BuildNs().AddNs("ns", inner.Ns())
	for _, v := range hostileVars {
		nb = nb.AddVar(v, vars.NewReadOnly(v))
	}
	for _, f := range hostileFns {
		nb = nb.AddGoFn(f, announce(f))
	}
	ev.ExtendGlobal(nb.Ns())
	dir := filepath.Join(root, "bin")
	if err := os.MkdirAll(dir, 0o755); err != nil {
		return nil, err
	}
	for _, x := range hostileExternals {
		if err := os.WriteFile(filepath.Join(dir, x), []byte("#!/bin/sh\n"), 0o755); err != nil {
			return nil, err
		}
	}
	return &nameWorld{ev, dir}, nil
}

type nameTemplate struct {
	pos    string
	ctx    string // "var" | "cmd"
	pre    string // buffer before the word (for "var": up to and including `$`)
	closer string
}

var nameTemplates = []nameTemplate{
	{pos: "var", ctx: "var", pre: "put $"},
	{pos: "var-in-capture", ctx: "var", pre: "put (put $", closer: ")"},
	{pos: "var-compound", ctx: "var", pre: "nop x; put $"},
	{pos: "cmd-name", ctx: "cmd", pre: ""},
	{pos: "cmd-name-after-pipe", ctx: "cmd", pre: "nop | "},
	{pos: "cmd-name-in-capture", ctx: "cmd", pre: "put (", closer: ")"},
}

type nameCase struct {
	Pos    string `json:"pos"`
	Tmpl   int    `json:"tmpl"`
	Style  string `json:"style"`
	Closed bool   `json:"closed"`
	Seed   []int  `json:"seed"` // the denoted prefix typed so far, qualified (e.g. "ns:a")
}

// typeName renders the typed prefix of a variable / command name in the given style.
func typeName(ctx, style, p string, closed bool) (string, bool) {
	if style == "bare" && ctx == "var" {
		if p == "" {
			return "", true
		}
		for _, r := range p {
			if !(r >= 'a' && r <= 'z' || r >= 'A' && r <= 'Z' || r >= '0' && r <= '9' || strings.ContainsRune("_-:~", r) ||
				r >= 0x80 && r != utf8.RuneError && unicode.IsPrint(r)) {
				return "", false
			}
		}
		return p, utf8.ValidString(p)
	}
	if style == "none" {
		return "", p == "" && ctx == "cmd"
	}
	return typeWord(style, p, closed)
}

func qualifiedIn(prefix string, names []string) []string {
	var out []string
	for _, n := range names {
		out = append(out, prefix+n)
	}
	return out
}

// scope lists the names in scope: for variables every variable of the global and builtin namespace (or
// of ns:), plus the special namespaces; for commands the functions, namespaces, special commands and externals.
func (nw *nameWorld) scope(ctx string, inNs bool) (known []string) {
	add := func(ns *eval.Ns, prefix string) {
		ns.IterateKeysString(func(k string) {
			switch {
			case ctx == "var":
				known = append(known, prefix+k)
			case strings.HasSuffix(k, eval.FnSuffix):
				known = append(known, prefix+k[:len(k)-1])
			case strings.HasSuffix(k, eval.NsSuffix):
				known = append(known, prefix+k)
			}
		})
	}
	if inNs {
		v := nw.ev.Global().IndexString("ns:")
		add(v.Get().(*eval.Ns), "ns:")
		return known
	}
	add(nw.ev.Global(), "")
	add(nw.ev.Builtin(), "")
	if ctx == "var" {
		return append(known, "e:", "E:")
	}
	for name := range eval.IsBuiltinSpecial {
		known = append(known, name)
	}
	return append(known, hostileExternals...)
}

func runNameCase(w *world, nc nameCase) (rec, error) {
	if w.names == nil {
		nw, err := newNameWorld(w.root)
		if err != nil {
			return rec{}, lib.Infra("%v", err)
		}
		w.names = nw
	}
	nw := w.names
	tm := nameTemplates[nc.Tmpl]
	seed := bytesOf(nc.Seed)
	inNs := strings.HasPrefix(seed, "ns:")
	text, ok := typeName(tm.ctx, nc.Style, seed, nc.Closed)
	if !ok {
		return rec{}, errSkip
	}
	buf := tm.pre + text
	dot := len(buf)
	wordStart := len(tm.pre)
	var names, evnames []string
	switch {
	case tm.ctx == "var" && inNs:
		names = qualifiedIn("ns:", hostileVars)
		evnames = names
	case tm.ctx == "var":
		names = append(append([]string{}, hostileVars...), "ns:")
		evnames = hostileVars
	case inNs:
		names = qualifiedIn("ns:", hostileFns)
		evnames = names
	default:
		names = append(append(append([]string{}, hostileFns...), "ns:"), hostileExternals...)
		evnames = hostileFns
	}
	known := nw.scope(tm.ctx, inNs)
	sort.Strings(known)
	r := rec{Kind: "name", Ctx: tm.ctx, Pos: tm.pos, Buf: elv.Bytes(buf), Dot: dot, Typed: typedWord{nc.Style, elv.Bytes(text)},
		Entries: []entry{}, Pre: []int{}, Seed: nc.Seed, Names: bytesList(names), Evnames: bytesList(evnames), Known: bytesList(known),
		Evpost: [][]int{}, Res: result{Items: []item{}}, replay: nc}
	oldPath := os.Getenv("PATH")
	os.Setenv("PATH", nw.pathDir)
	res, cerr := complete.Complete(complete.CodeBuffer{Content: buf, Dot: dot}, nw.ev, complete.Config{})
	os.Setenv("PATH", oldPath)
	texts := []string{buf, strings.Join(known, " ")}
	if cerr == nil && res != nil {
		r.Res.Offered, r.Res.From, r.Res.To = true, res.Replace.From, res.Replace.To
		inRange := res.Replace.From >= wordStart && res.Replace.From <= res.Replace.To && res.Replace.To <= len(buf)
		if inRange {
			r.Pre = elv.Bytes(buf[wordStart:res.Replace.From])
		}
		for _, it := range res.Items {
			x := item{Ins: elv.Bytes(it.ToInsert), Ev: [][]int{}}
			texts = append(texts, it.ToInsert)
			// in command position the candidates are run: only where the typed prefix confines them to
			// the harness's functions and harmless builtins (not `exit`, `exec`, `cd`, ...)
			runnable := tm.ctx == "var" || strings.HasPrefix(seed, "f") || strings.HasPrefix(seed, "g") || strings.HasPrefix(seed, "ns:")
			if inRange && runnable {
				x.Evapp = true
				x.Evc, x.Ev = runCode(nw.ev, buf[:res.Replace.From]+it.ToInsert+buf[res.Replace.To:]+tm.closer)
			}
			r.Res.Items = append(r.Res.Items, x)
		}
	}
	r.Pr = printables(texts...)
	return r, nil
}

var errSkip = fmt.Errorf("case not concretisable")

func nameCases(c *lib.Ctx, w *world) ([]rec, error) {
	seedsVar := []string{"", "a", "a ", "a'", "a\n", "a\xff", " ", "'", "$", "~", "\u00e9", "b", "zz", "ns:", "ns:a", "ns:a ", "ns:'", "ns:zz"}
	seedsCmd := []string{"", "f", "f ", "f'", "f\n", "f\xff", "f=", "f>", "~", "'", " ", "g", "x", "x ", "zz", "ns:", "ns:f", "ns:f ", "ns:zz"}
	var out []rec
	skipped := 0
	for ti, tm := range nameTemplates {
		seeds := seedsVar
		if tm.ctx == "cmd" {
			seeds = seedsCmd
		}
		for _, s := range seeds {
			for _, st := range styles {
				r, err := runNameCase(w, nameCase{Pos: tm.pos, Tmpl: ti, Style: st.style, Closed: st.closed, Seed: elv.Bytes(s)})
				if err == errSkip {
					skipped++
					continue
				}
				if err != nil {
					return nil, lib.Infra("%v", err)
				}
				out = append(out, r)
			}
		}
	}
	c.Logf("name completion: %d cases run, %d not concretisable", len(out), skipped)
	c.Set("name_bounds", map[string]any{"variables": len(hostileVars), "functions": len(hostileFns), "externals": len(hostileExternals),
		"templates": len(nameTemplates), "cases": len(out)})
	return out, nil
}

// modelCheck runs MCComplete: the acceptance predicates hold on the code-shaped model of completion.
func modelCheck(c *lib.Ctx) error {
	n := c.Pick(2, 3)
	cfg := fmt.Sprintf("CONSTANT MaxLen = %d\nINIT Init\nNEXT Next\nINVARIANT Theorem\n", n)
	r, err := c.TLC("MCComplete", lib.TLCRun{Dir: c.SpecDir("StringLit"), Module: "MCComplete", Workers: 4, Timeout: 45 * time.Minute,
		Files: map[string][]byte{"MCComplete.cfg": []byte(cfg)}})
	if err != nil {
		return err
	}
	if r.ErrKind != "" {
		return lib.Infra("the design theorem of Complete fails in the model itself: %s\n%s", r.Err, r.ErrTrace)
	}
	c.Set("model_bounds", map[string]any{"max_name_len": n, "names": r.Distinct})
	return nil
}
