// C28 — editor buffer commands keep the cursor valid and edit exactly.
// M: MCCodeBuffer: all buffers of length <= N over six token kinds, all dots, all 26 builtins:
//
//	the code-shaped transcription is Allowed by the documented rule; Allowed implies the clauses
//	of the statement (DotValid, KillExact, TransposeIsPermutation, WordMotionLandsOnWordStart).
//
// G: every (buffer, dot, builtin) with the enumerated allowed outcomes is replayed on the real
//
//	functions (edit.VerifBufferBuiltins); outcomes that are only "a permutation" and kills whose
//	target is Unspecified are recorded (with the real move-dot-X result) and judged by TLC.
//
// V: random long buffers (<= 80 runes: ASCII, wide, combining, ZWJ sequences, newlines, blanks)
//
//	with random builtin sequences, and random key / paste / builtin sequences on a real
//	tk.NewCodeArea with abbreviations configured, judged by the stateful walker TraceCodeBuffer.
package main

import (
	"encoding/json"
	"fmt"
	"os"
	"strings"
	"sync"
	"time"

	"src.elv.sh/pkg/cli/tk"
	"src.elv.sh/pkg/edit"
	"verif.local/harness/lib"
)

func main() { lib.Main("C28", run) }

var actSeq = []string{"move-dot-left", "move-dot-right", "move-dot-left-word", "move-dot-right-word",
	"move-dot-left-small-word", "move-dot-right-small-word", "move-dot-left-alnum-word",
	"move-dot-right-alnum-word", "move-dot-sol", "move-dot-eol", "move-dot-up", "move-dot-down",
	"kill-rune-left", "kill-rune-right", "kill-word-left", "kill-word-right",
	"kill-small-word-left", "kill-small-word-right", "kill-alnum-word-left",
	"kill-alnum-word-right", "kill-line-left", "kill-line-right",
	"transpose-rune", "transpose-word", "transpose-small-word", "transpose-alnum-word"}

// the token kinds of MCCodeBuffer (must agree with the real attributes of the runes)
var mcKinds = []struct {
	c     string
	w     int
	runes []rune
}{
	{"alnum", 1, []rune("abcdef")},
	{"punct", 1, []rune(".,;:!?")},
	{"space", 1, []rune("      ")},
	{"newline", 0, []rune("\n\n\n\n\n\n")},
	{"alnum", 2, []rune{20320, 22909, 19990, 30028, 20154, 22825}},
	{"punct", 0, []rune{769, 770, 771, 772, 773, 774}},
}

type permCase struct {
	A  string `json:"a"`
	B  []int  `json:"b"`
	D  int    `json:"d"`
	B2 []int  `json:"b2"`
	D2 int    `json:"d2"`
}

type gcase struct {
	Buf  []int   `json:"buf"`
	Dot  int     `json:"dot"`
	Acts [][]any `json:"acts"` // per builtin: [enum, unspec, outs]; out = [move target or -1, dot, runes...]
}

func mcCfg(n int, invs ...string) []byte {
	s := fmt.Sprintf("CONSTANT N = %d\nINIT Init\nNEXT Next\n", n)
	for _, i := range invs {
		s += "INVARIANT " + i + "\n"
	}
	return []byte(s)
}

func sameRunes(a []int, b []any) bool {
	if len(a) != len(b) {
		return false
	}
	for i := range a {
		f, ok := b[i].(float64)
		if !ok || int(f) != a[i] {
			return false
		}
	}
	return true
}

func run(c *lib.Ctx) error {
	dir := c.SpecDir("CodeBuffer")
	fns := edit.VerifBufferBuiltins()
	if len(fns) != len(actSeq) {
		return lib.Infra("the real table has %d builtins, the specification %d", len(fns), len(actSeq))
	}
	for _, a := range actSeq {
		if fns[a] == nil {
			return lib.Infra("builtin %s missing from the real table", a)
		}
	}
	for _, k := range mcKinds {
		for _, r := range k.runes {
			if t := attrs(r); t.C != k.c || t.W != k.w {
				return lib.Infra("rune %U has attributes %+v, MCCodeBuffer assumes (%s, %d)", r, t, k.c, k.w)
			}
		}
	}
	if c.Replay != "" {
		return replay(c, dir, fns)
	}
	c.Set("rule", "G: a case is (buffer, dot, builtin); distinct by (runes, dot, builtin); non-trivial = the real builtin changed the buffer or the dot. V: one case per recorded call; sequences are distinct by their initial buffer and event script")
	// development aid (mutant triage on a loaded machine): C28_PARTS=G,A,V restricts the run to the
	// builtin generation (G), the code-area generation (A) and/or the validation (V). Default: all.
	parts := os.Getenv("C28_PARTS")
	part := func(p string) bool { return parts == "" || strings.Contains(parts, p) }
	if parts != "" {
		c.Set("partial_run", parts)
	}
	if !part("G") {
		if part("A") {
			if err := codeAreaG(c, dir, fns); err != nil {
				return err
			}
		}
		if part("V") {
			return validate(c, dir, fns)
		}
		return nil
	}
	N := c.Pick(4, 5)
	c.Set("bounds", map[string]any{"N_generate": N, "N_consequences": N - 1, "kinds": 6})

	var wg sync.WaitGroup
	var gen, cons *lib.TLCResult
	var e1, e2 error
	wg.Add(2)
	go func() {
		defer wg.Done()
		gen, e1 = c.TLC("MCCodeBuffer(theorem+generate)", lib.TLCRun{Dir: dir, Module: "MCCodeBuffer", Workers: 4, Timeout: 13 * time.Minute, HeapGB: 8,
			Files: map[string][]byte{"MCCodeBuffer.cfg": mcCfg(N, "DesignTheorem", "ConseqImpl", "EmitB")}})
	}()
	go func() {
		defer wg.Done()
		cons, e2 = c.TLC("MCCodeBuffer(consequences)", lib.TLCRun{Dir: dir, Module: "MCCodeBuffer", Workers: 4, Timeout: 13 * time.Minute,
			Files: map[string][]byte{"MCCodeBuffer.cfg": mcCfg(N-1, "ConseqAll")}})
	}()
	wg.Wait()
	if e1 != nil {
		return e1
	}
	if e2 != nil {
		return e2
	}
	for _, r := range []*lib.TLCResult{gen, cons} {
		if r.ErrKind != "" {
			return lib.Infra("the buffer model violates its own theorem %s %s:\n%s", r.ErrKind, r.ErrName, r.ErrTrace)
		}
	}
	// ---- G
	seen := map[string]bool{}
	var permCases []permCase
	ncase, nunspec, nperm := 0, 0, 0
	for _, line := range gen.PrintedStrings() {
		var gc gcase
		if err := json.Unmarshal([]byte(line), &gc); err != nil {
			return lib.Infra("bad case from TLC: %v: %.200s", err, line)
		}
		key := fmt.Sprint(gc.Buf, gc.Dot)
		if seen[key] {
			continue
		}
		seen[key] = true
		if len(gc.Acts) != len(actSeq) {
			return lib.Infra("case with %d builtins", len(gc.Acts))
		}
		content, off := concretise(gc.Buf, gc.Dot)
		cb := tk.CodeBuffer{Content: content, Dot: off}
		for i, a := range actSeq {
			pr := gc.Acts[i]
			enum, unspec := pr[0].(float64) == 1, pr[1].(float64) == 1
			outs, _ := pr[2].([]any)
			r, out, pm := builtinRec(fns, a, cb)
			c.AddEvals(1)
			ncase++
			ck := fmt.Sprintf("%v|%d|%s", gc.Buf, gc.Dot, a)
			rc := map[string]any{"buf": gc.Buf, "dot": gc.Dot, "builtin": a}
			if pm != "" {
				c.Reject("builtin:"+a+":panic", fmt.Sprintf("%s on %q dot %d panics: %s", a, content, off, pm), rc)
				continue
			}
			if out != cb {
				c.Distinct(ck)
			}
			if r.Rdot < 0 {
				c.Reject("builtin:"+a+":dot-invalid", fmt.Sprintf("%s on %q dot %d -> %q dot %d: not a valid cursor", a, content, off, out.Content, out.Dot), rc)
				continue
			}
			isKill := moveOf[a] != ""
			if enum || isKill {
				ok := false
				got := runesOf(out.Content)
				for _, o := range outs {
					ov := o.([]any)
					if isKill && int(ov[0].(float64)) != r.M {
						continue
					}
					if int(ov[1].(float64)) == r.Rdot && sameRunes(got, ov[2:]) {
						ok = true
						break
					}
				}
				if !ok {
					why := "outcome"
					if isKill {
						why = "kill-vs-move"
					}
					c.Reject("builtin:"+a+":"+why, fmt.Sprintf("%s on %q (runes %v) dot %d -> %q rune-dot %d (the real %s gives rune-dot %d); the specification allows [move target, dot, runes...] %v", a, content, gc.Buf, gc.Dot, out.Content, r.Rdot, moveOf[a], r.M, outs), rc)
					continue
				}
				if unspec {
					nunspec++
				}
			} else {
				nperm++
				permCases = append(permCases, permCase{a, gc.Buf, gc.Dot, runesOf(out.Content), r.Rdot})
			}
		}
		if len(seen) == 700 {
			c.Sample(map[string]any{"buf": gc.Buf, "dot": gc.Dot, "move-dot-left-word": gc.Acts[2], "kill-word-right": gc.Acts[15], "transpose-word": gc.Acts[23]})
		}
	}
	if int64(len(seen)) != gen.Distinct {
		return lib.Infra("TLC reported %d (buffer, dot) states, received %d", gen.Distinct, len(seen))
	}
	c.Logf("G: %d (buffer, dot) states, %d builtin calls compared; %d permutation-only outcomes judged by TLC; %d calls with an Unspecified target", len(seen), ncase, nperm, nunspec)
	c.Set("g_states", len(seen))
	c.Set("g_cases", ncase)
	c.Set("g_permutation_only_judged", nperm)
	c.Set("g_unspecified_target", nunspec)
	c.Set("exhaustive", true)
	c.AddTraces(ncase)
	bad, err := lib.Judge(c, "JudgeCodeBuffer(G)", dir, "JudgeCodeBuffer", permCases, 4, 13*time.Minute)
	if err != nil {
		return err
	}
	for _, b := range bad {
		pc := permCases[b.Index]
		c.Reject("builtin:"+pc.A+":transpose", fmt.Sprintf("%s on runes %v dot %d -> runes %v dot %d: not a permutation with a valid dot", pc.A, pc.B, pc.D, pc.B2, pc.D2), map[string]any{"buf": pc.B, "dot": pc.D, "builtin": pc.A})
	}
	// ---- G, code-area events
	if part("A") {
		if err := codeAreaG(c, dir, fns); err != nil {
			return err
		}
	}
	// ---- V
	if part("V") {
		if err := validate(c, dir, fns); err != nil {
			return err
		}
	}
	c.Assume("TLC trusted; category (unicode.IsSpace / IsLetter|IsNumber) and width (pkg/wcwidth.OfRune) of a rune are data attached by the executor; parse.Quote of a pasted text is a primitive evaluated by the executor; the dot after a transpose, word motions with no word on that side, transposes with the dot inside a word or fewer than two words, and command-abbreviation expansion are Unspecified as listed in the module headers")
	return nil
}

// judge hands groups (each starting with a reset record) to TraceCodeBuffer and reports rejections.
func judge(c *lib.Ctx, dir, name string, groups [][]rec) error {
	// keep every TLC process small (<= ~4000 records of up to 80 tokens): batches of 16 000 records
	total := 0
	for i, g := range groups {
		total += len(g)
		if total > 16000 && i+1 < len(groups) {
			if err := judge(c, dir, name, groups[:i+1]); err != nil {
				return err
			}
			return judge(c, dir, name, groups[i+1:])
		}
	}
	if p := os.Getenv("C28_DUMP"); p != "" { // development aid: keep the cases handed to TLC
		var flat []rec
		for _, g := range groups {
			flat = append(flat, g...)
		}
		os.WriteFile(p+"-"+name+".ndjson", lib.NDJSON(flat), 0o644)
	}
	bad, err := lib.JudgeGroups(c, name, dir, "TraceCodeBuffer", groups, 4, 13*time.Minute)
	if err != nil {
		return err
	}
	starts := make([]int, len(groups))
	off := 0
	for i, g := range groups {
		starts[i] = off
		off += len(g)
	}
	for _, b := range bad {
		gi := 0
		for i, s := range starts {
			if s <= b.Index {
				gi = i
			}
		}
		g := groups[gi]
		at := b.Index - starts[gi]
		why := "?"
		if len(b.Info) > 0 {
			why = fmt.Sprint(b.Info[0])
		}
		e := g[at]
		if why == "harness-paste-desync" {
			return lib.Infra("the harness' record of the pasted text disagrees with the model's at %+v", e)
		}
		name := e.Ev
		if e.Ev == "builtin" {
			name = "builtin:" + e.A
		}
		var before rec
		if at > 0 {
			before = g[at-1]
		}
		c.Reject(name+":"+why, fmt.Sprintf("step %d %s %s: real result %s rune-dot %d (move result %d) from state %s; rejected: %s",
			at, e.Ev, e.A, show(e.Res), e.Rdot, e.M, showState(before), why), g[:at+1])
	}
	return nil
}

func show(ts []tok) string {
	rs := make([]rune, len(ts))
	for i, t := range ts {
		rs[i] = rune(t.R)
	}
	return fmt.Sprintf("%q", string(rs))
}

func showState(r rec) string {
	if r.Ev == "reset" {
		return fmt.Sprintf("%s dot %d", show(r.Toks), r.Dot)
	}
	return fmt.Sprintf("%s dot %d", show(r.Res), r.Rdot)
}

func replay(c *lib.Ctx, dir string, fns map[string]func(*tk.CodeBuffer)) error {
	b, err := os.ReadFile(c.Replay)
	if err != nil {
		return lib.Infra("%v", err)
	}
	var f struct {
		Case json.RawMessage `json:"case"`
	}
	if err := json.Unmarshal(b, &f); err != nil {
		return lib.Infra("%v", err)
	}
	var one struct {
		Buf     []int  `json:"buf"`
		Dot     int    `json:"dot"`
		Builtin string `json:"builtin"`
	}
	if json.Unmarshal(f.Case, &one) == nil && one.Builtin != "" {
		content, off := concretise(one.Buf, one.Dot)
		r, _, pm := builtinRec(fns, one.Builtin, tk.CodeBuffer{Content: content, Dot: off})
		if pm != "" {
			c.Reject("builtin:"+one.Builtin+":panic", pm, one)
			return nil
		}
		return judge(c, dir, "TraceCodeBuffer(replay)", [][]rec{{resetRec(content, one.Dot), r}})
	}
	var recs []rec
	if err := json.Unmarshal(f.Case, &recs); err != nil || len(recs) == 0 {
		return lib.Infra("unrecognised replay case: %v", err)
	}
	// re-execute the recorded script on the real code and judge again
	g, pm := rerun(fns, recs)
	if pm != "" {
		c.Reject("replay:panic", pm, recs)
		return nil
	}
	return judge(c, dir, "TraceCodeBuffer(replay)", [][]rec{g})
}
