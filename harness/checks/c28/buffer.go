package main

import (
	"fmt"
	"unicode"
	"unicode/utf8"

	"src.elv.sh/pkg/cli/tk"
	"src.elv.sh/pkg/wcwidth"
)

// tok is the abstract token of CodeBuffer.tla: one rune with its category and column width.
type tok struct {
	R int    `json:"r"`
	C string `json:"c"`
	W int    `json:"w"`
}

// attrs attaches the DATA attributes of a rune: category from the Unicode tables of the Go
// standard library, width from elvish's wcwidth table (the editor's own notion of a column).
func attrs(r rune) tok {
	c := "punct"
	switch {
	case r == '\n':
		c = "newline"
	case unicode.IsSpace(r):
		c = "space"
	case unicode.IsLetter(r) || unicode.IsNumber(r):
		c = "alnum"
	}
	return tok{int(r), c, wcwidth.OfRune(r)}
}

func toks(s string) []tok {
	out := []tok{}
	for _, r := range s {
		out = append(out, attrs(r))
	}
	return out
}

func runesOf(s string) []int {
	out := []int{}
	for _, r := range s {
		out = append(out, int(r))
	}
	return out
}

// concretise: rune list + rune index -> content + byte offset.
func concretise(rs []int, dot int) (string, int) {
	b := []byte{}
	off := 0
	for i, r := range rs {
		if i == dot {
			off = len(b)
		}
		b = utf8.AppendRune(b, rune(r))
	}
	if dot >= len(rs) {
		off = len(b)
	}
	return string(b), off
}

// project: real buffer -> rune index of the dot. -1: offset outside the buffer or not on a rune
// boundary; -2: content is not valid UTF-8.
func project(cb tk.CodeBuffer) int {
	if !utf8.ValidString(cb.Content) {
		return -2
	}
	if cb.Dot < 0 || cb.Dot > len(cb.Content) {
		return -1
	}
	if cb.Dot < len(cb.Content) && !utf8.RuneStart(cb.Content[cb.Dot]) {
		return -1
	}
	return utf8.RuneCountInString(cb.Content[:cb.Dot])
}

// apply runs a builtin on a copy of the buffer; a panic is reported as such.
func apply(fn func(*tk.CodeBuffer), cb tk.CodeBuffer) (out tk.CodeBuffer, panicMsg string) {
	defer func() {
		if r := recover(); r != nil {
			panicMsg = fmt.Sprint(r)
		}
	}()
	fn(&cb)
	return cb, ""
}

var moveOf = map[string]string{
	"kill-rune-left": "move-dot-left", "kill-rune-right": "move-dot-right",
	"kill-word-left": "move-dot-left-word", "kill-word-right": "move-dot-right-word",
	"kill-small-word-left": "move-dot-left-small-word", "kill-small-word-right": "move-dot-right-small-word",
	"kill-alnum-word-left": "move-dot-left-alnum-word", "kill-alnum-word-right": "move-dot-right-alnum-word",
	"kill-line-left": "move-dot-sol", "kill-line-right": "move-dot-eol",
}

// rec is one record of TraceCodeBuffer (uniform fields).
type abbr struct {
	K []tok `json:"k"`
	V []tok `json:"v"`
}
type rec struct {
	Ev   string `json:"ev"`
	A    string `json:"a"`
	Toks []tok  `json:"toks"`
	Dot  int    `json:"dot"`
	Res  []tok  `json:"res"`
	Rdot int    `json:"rdot"`
	M    int    `json:"m"`
	Ws   bool   `json:"ws"`
	Q    bool   `json:"q"`
	Praw []tok  `json:"praw"`
	Sab  []abbr `json:"sab"`
	Wab  []abbr `json:"wab"`
	Cab  []abbr `json:"cab"`
}

func blank(ev string) rec {
	return rec{Ev: ev, Toks: []tok{}, Res: []tok{}, M: -1, Praw: []tok{}, Sab: []abbr{}, Wab: []abbr{}, Cab: []abbr{}}
}

func resetRec(content string, dotRunes int) rec {
	r := blank("reset")
	r.Toks = toks(content)
	r.Dot = dotRunes
	return r
}

// builtinRec applies builtin name to cb (real code), and records the projected outcome (and, for
// kill-X, what the real move-dot-X does on the same state).
func builtinRec(fns map[string]func(*tk.CodeBuffer), name string, cb tk.CodeBuffer) (rec, tk.CodeBuffer, string) {
	r := blank("builtin")
	r.A = name
	out, pm := apply(fns[name], cb)
	if pm != "" {
		return r, cb, pm
	}
	r.Rdot = project(out)
	if r.Rdot != -2 {
		r.Res = toks(out.Content)
	}
	if mv, ok := moveOf[name]; ok {
		mo, pm2 := apply(fns[mv], cb)
		if pm2 != "" {
			return r, cb, pm2
		}
		r.M = project(mo)
		if mo.Content != cb.Content {
			r.M = -1
		}
	}
	return r, out, ""
}
