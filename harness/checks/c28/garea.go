package main

import (
	"encoding/json"
	"fmt"
	"time"

	"src.elv.sh/pkg/cli/tk"
	"src.elv.sh/pkg/ui"
	"verif.local/harness/lib"
)

// G for the code-area events: MCCodeArea prints one behaviour per transition of its state graph;
// each is replayed on a fresh real tk.NewCodeArea (tables gTables) and the projected buffer is
// compared with the set of allowed outcomes after every step.
type astep struct {
	Ev   string  `json:"ev"`
	Outs [][]int `json:"outs"` // allowed [dot, runes...]
	Impl []int   `json:"impl"` // the outcome by which the model continued
}

var areaRunes = map[string]rune{"a": 'a', "b": 'b', "sp": ' ', "sc": ';', "w": '你', "backspace": ui.Backspace}

func sameInts(a, b []int) bool {
	if len(a) != len(b) {
		return false
	}
	for i := range a {
		if a[i] != b[i] {
			return false
		}
	}
	return true
}

func (d *driver) areaEvent(ev string) string {
	switch ev {
	case "left":
		return d.builtin("move-dot-left")
	case "right":
		return d.builtin("move-dot-right")
	case "func":
		return d.event("func", 0, "up")
	case "pastestart", "pasteend":
		return d.event(ev, 0, "")
	}
	return d.event("rune", areaRunes[ev], "")
}

func codeAreaG(c *lib.Ctx, dir string, fns map[string]func(*tk.CodeBuffer)) error {
	L := c.Pick(4, 6)
	r, err := c.TLC("MCCodeArea", lib.TLCRun{Dir: dir, Module: "MCCodeArea", Workers: 4, Timeout: 13 * time.Minute, HeapGB: 8,
		Files: map[string][]byte{"MCCodeArea.cfg": []byte(fmt.Sprintf("CONSTANT L = %d\nSPECIFICATION Spec\nVIEW View\nINVARIANT DotOK\nINVARIANT InsConsistent\nPROPERTY DesignTheorem\nACTION_CONSTRAINT EmitT\n", L))}})
	if err != nil {
		return err
	}
	if r.ErrKind != "" {
		return lib.Infra("the code-area model violates its own theorem %s %s:\n%s", r.ErrKind, r.ErrName, r.ErrTrace)
	}
	lines := r.PrintedStrings()
	if int64(len(lines)) < r.Generated-1 {
		return lib.Infra("TLC generated %d transitions but emitted %d behaviours", r.Generated, len(lines))
	}
	var diverged [][]rec
	nb := 0
	seen := map[string]bool{}
	for _, line := range lines {
		if seen[line] {
			continue
		}
		seen[line] = true
		var beh []astep
		if err := json.Unmarshal([]byte(line), &beh); err != nil {
			return lib.Infra("bad behaviour from TLC: %v: %.200s", err, line)
		}
		nb++
		d := newDriverT(fns, "", 0, gTables)
		script := ""
		for k, st := range beh {
			script += st.Ev + " "
			if pm := d.areaEvent(st.Ev); pm != "" {
				c.Reject("codearea:"+st.Ev+":panic", fmt.Sprintf("events %s: panic %s", script, pm), d.recs)
				break
			}
			c.AddEvals(1)
			last := d.recs[len(d.recs)-1]
			got := append([]int{last.Rdot}, runesOfToks(last.Res)...)
			ok := false
			for _, o := range st.Outs {
				if sameInts(o, got) {
					ok = true
					break
				}
			}
			if !ok {
				c.Reject("codearea:"+st.Ev+":outcome", fmt.Sprintf("events %s(step %d): real code area -> [dot, runes...] %v; the specification allows %v", script, k+1, got, st.Outs), d.recs)
				break
			}
			if !sameInts(st.Impl, got) {
				// allowed, but not the path the model continued on: judge the whole run by the walker
				for _, rest := range beh[k+1:] {
					if pm := d.areaEvent(rest.Ev); pm != "" {
						c.Reject("codearea:"+rest.Ev+":panic", pm, d.recs)
						break
					}
				}
				diverged = append(diverged, d.recs)
				break
			}
		}
		if nb == 50 {
			c.Sample(beh)
		}
		c.Distinct(script)
	}
	c.Set("g_codearea_behaviours", nb)
	c.Set("g_codearea_diverged_judged_by_walker", len(diverged))
	c.AddTraces(nb)
	c.Logf("G code area: %d behaviours replayed (%d distinct states), %d continued on another allowed path", nb, r.Distinct, len(diverged))
	return judge(c, dir, "TraceCodeBuffer(G-area)", diverged)
}

func runesOfToks(ts []tok) []int {
	out := make([]int, len(ts))
	for i, t := range ts {
		out[i] = t.R
	}
	return out
}
