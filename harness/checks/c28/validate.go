package main

import (
	"fmt"
	"math/rand"
	"time"
	"unicode"

	"src.elv.sh/pkg/cli/term"
	"src.elv.sh/pkg/cli/tk"
	"src.elv.sh/pkg/parse"
	"src.elv.sh/pkg/ui"
	"verif.local/harness/lib"
)

// ---- abbreviation tables configured on the real code area (and handed to the model as data)
// The tables overlap on purpose so that one key can complete abbreviations of two kinds:
// simple `gc;` / `gcm.` minus their last rune are the small-word `gc` / `gcm` and that rune is a
// trigger of another category; simple `ll ` ends with a whitespace after the command / small-word
// `ll`; `dn` is a suffix of `>dn`, `cm` of `gcm`; expansions are short or multi-byte.
var simpleAbbr = [][2]string{{"||", "| less"}, {">dn", "2>/dev/null"}, {"dn", "DOWN"}, {"你好", "hello "}, {"é", "é"},
	{"gc;", "x"}, {"gcm.", "→!"}, {"ll ", "→ "}, {"世界。", "é"}}
var smallAbbr = [][2]string{{"gcm", "git checkout master"}, {"cm", "XY"}, {"ll", "ls -ltr"}, {">o", " >/dev/null"}, {"世界", "world"},
	{"gc", "git commit→"}}
var cmdAbbr = [][2]string{{"l", "less"}, {"gc", "git commit"}, {"ll", "ls -l"}, {"gcm", "→"}}

func abbrToks(t [][2]string) []abbr {
	out := []abbr{}
	for _, e := range t {
		out = append(out, abbr{toks(e[0]), toks(e[1])})
	}
	return out
}

func tokString(ts []tok) string {
	rs := make([]rune, len(ts))
	for i, t := range ts {
		rs[i] = rune(t.R)
	}
	return string(rs)
}

func abbrStrings(t []abbr) [][2]string {
	out := [][2]string{}
	for _, e := range t {
		out = append(out, [2]string{tokString(e.K), tokString(e.V)})
	}
	return out
}

func feed(t [][2]string) func(func(a, f string)) {
	return func(f func(a, f string)) {
		for _, e := range t {
			f(e[0], e[1])
		}
	}
}

// driver wraps a real code area and records one rec per call.
type driver struct {
	ca      tk.CodeArea
	fns     map[string]func(*tk.CodeBuffer)
	quote   bool
	pasted  []rune // what the harness sent while pasting (cross-checked by the model)
	inPaste bool
	recs    []rec
}

type tables struct{ simple, small, cmd [][2]string }

var vTables = tables{simpleAbbr, smallAbbr, cmdAbbr}

// the tables of MCCodeArea
var gTables = tables{[][2]string{{"ab", "你"}, {"b;", "你"}}, [][2]string{{"b", "bb"}}, [][2]string{{"a", "aa"}}}

func newDriver(fns map[string]func(*tk.CodeBuffer), content string, dotRunes int) *driver {
	return newDriverT(fns, content, dotRunes, vTables)
}

func newDriverT(fns map[string]func(*tk.CodeBuffer), content string, dotRunes int, tb tables) *driver {
	d := &driver{fns: fns}
	_, off := concretise(runesOf(content), dotRunes)
	d.ca = tk.NewCodeArea(tk.CodeAreaSpec{
		SimpleAbbreviations:    feed(tb.simple),
		SmallWordAbbreviations: feed(tb.small),
		CommandAbbreviations:   feed(tb.cmd),
		QuotePaste:             func() bool { return d.quote },
		State:                  tk.CodeAreaState{Buffer: tk.CodeBuffer{Content: content, Dot: off}},
	})
	r := resetRec(content, dotRunes)
	r.Sab, r.Wab, r.Cab = abbrToks(tb.simple), abbrToks(tb.small), abbrToks(tb.cmd)
	d.recs = append(d.recs, r)
	return d
}

func (d *driver) observe(r *rec) {
	cb := d.ca.CopyState().Buffer
	r.Rdot = project(cb)
	if r.Rdot != -2 {
		r.Res = toks(cb.Content)
	}
	r.Q = d.quote
}

func (d *driver) builtin(name string) (panicMsg string) {
	defer func() {
		if x := recover(); x != nil {
			panicMsg = fmt.Sprint(x)
		}
	}()
	cb := d.ca.CopyState().Buffer
	r, _, pm := builtinRec(d.fns, name, cb)
	if pm != "" {
		return pm
	}
	d.ca.MutateState(func(s *tk.CodeAreaState) { d.fns[name](&s.Buffer) })
	d.observe(&r)
	d.recs = append(d.recs, r)
	return ""
}

var funcKeys = map[string]ui.Key{
	"up": ui.K(ui.Up), "left": ui.K(ui.Left), "f1": ui.K(ui.F1), "delete": ui.K(ui.Delete),
	"alt-a": ui.K('a', ui.Alt), "ctrl-x": ui.K('X', ui.Ctrl), "alt-enter": ui.K('\n', ui.Alt), "shift-tab": ui.K(ui.Tab, ui.Shift),
}

// event sends one terminal event to the real code area. kind: "rune" (arg = rune), "func" (name),
// "ctrl-h", "pastestart", "pasteend".
func (d *driver) event(kind string, r rune, name string) (panicMsg string) {
	e := blank("")
	defer func() {
		if x := recover(); x != nil {
			// Handle panicked: keep the key in the record (replayable) with the state it left behind
			panicMsg = fmt.Sprint(x)
			func() {
				defer func() { recover() }()
				d.observe(&e)
			}()
			d.recs = append(d.recs, e)
		}
	}()
	switch kind {
	case "rune":
		switch {
		case r == '\n':
			e.Ev = "enter"
		case r == ui.Backspace:
			e.Ev = "backspace"
		case unicode.IsGraphic(r):
			e.Ev = "key"
		default:
			e.Ev = "nongraphic"
		}
		e.Toks = []tok{attrs(r)}
		e.Ws = parse.IsWhitespace(r)
		if d.inPaste {
			d.pasted = append(d.pasted, r)
		}
		d.ca.Handle(term.K(r))
	case "func":
		e.Ev, e.A = "func", name
		d.ca.Handle(term.KeyEvent(funcKeys[name]))
	case "ctrl-h":
		e.Ev = "ctrl-h"
		d.ca.Handle(term.K('H', ui.Ctrl))
	case "pastestart":
		e.Ev = "pastestart"
		d.inPaste = true
		d.ca.Handle(term.PasteSetting(true))
	case "pasteend":
		e.Ev = "pasteend"
		e.Praw = toks(string(d.pasted))
		if d.quote {
			e.Toks = toks(parse.Quote(string(d.pasted)))
		}
		d.inPaste, d.pasted = false, nil
		d.ca.Handle(term.PasteSetting(false))
	}
	d.observe(&e)
	d.recs = append(d.recs, e)
	return ""
}

// rerun re-executes the input part of recorded records on a fresh real code area.
func rerun(fns map[string]func(*tk.CodeBuffer), recs []rec) ([]rec, string) {
	var d *driver
	for _, r := range recs {
		if r.Ev == "reset" {
			rs := make([]rune, len(r.Toks))
			for i, t := range r.Toks {
				rs[i] = rune(t.R)
			}
			d = newDriverT(fns, string(rs), r.Dot, tables{abbrStrings(r.Sab), abbrStrings(r.Wab), abbrStrings(r.Cab)})
			continue
		}
		if d == nil {
			return nil, "replay case does not start with a reset"
		}
		d.quote = r.Q
		pm := ""
		switch r.Ev {
		case "builtin":
			pm = d.builtin(r.A)
		case "key", "nongraphic", "backspace", "enter":
			pm = d.event("rune", rune(r.Toks[0].R), "")
		case "func":
			pm = d.event("func", 0, r.A)
		default:
			pm = d.event(r.Ev, 0, "")
		}
		if pm != "" {
			return d.recs, pm
		}
	}
	if d == nil {
		return nil, "empty replay case"
	}
	return d.recs, ""
}

// ---- random inputs

var pool = []rune{'a', 'b', 'Z', 'q', '0', '7', '_', '.', ',', ';', '|', '>', '/', '-', '~', '(', '{', '$',
	' ', ' ', ' ', '\t', '\n', '\n', 0xA0, 0x3000,
	'你', '好', '世', '界', 'ー', 0xFF0C, 0x1F600, 0x1F468, 0x1F469, 0x1F467,
	0x301, 0x308, 0x200D, 0xFE0F, 0x0E31, 'é', 'ß', 'λ', 'ж', '٣', '½', 'ª', 0x0627, 0x05D0}

func randContent(rng *rand.Rand, max int) string {
	n := rng.Intn(max + 1)
	rs := []rune{}
	for len(rs) < n {
		switch rng.Intn(12) {
		case 0: // ZWJ family
			rs = append(rs, 0x1F468, 0x200D, 0x1F469, 0x200D, 0x1F467)
		case 1:
			rs = append(rs, 'e', 0x301)
		case 2, 3: // a run of one category, to make words
			k := 1 + rng.Intn(4)
			src := [][]rune{[]rune("abcxyz019"), []rune(".,;|>/-"), []rune("  \t"), []rune("你好世界")}[rng.Intn(4)]
			for ; k > 0; k-- {
				rs = append(rs, src[rng.Intn(len(src))])
			}
		default:
			rs = append(rs, pool[rng.Intn(len(pool))])
		}
	}
	if len(rs) > max {
		rs = rs[:max]
	}
	return string(rs)
}

func randBuiltin(rng *rand.Rand) string {
	switch x := rng.Intn(10); {
	case x < 6:
		return actSeq[rng.Intn(12)]
	case x < 8:
		return actSeq[12+rng.Intn(10)]
	default:
		return actSeq[22+rng.Intn(4)]
	}
}

func builtinSequence(fns map[string]func(*tk.CodeBuffer), rng *rand.Rand, steps int) ([]rec, string) {
	content := randContent(rng, 80)
	n := len([]rune(content))
	d := newDriver(fns, content, rng.Intn(n+1))
	for i := 0; i < steps; i++ {
		if pm := d.builtin(randBuiltin(rng)); pm != "" {
			return d.recs, pm
		}
	}
	return d.recs, ""
}

func eventSequence(fns map[string]func(*tk.CodeBuffer), rng *rand.Rand, steps int) ([]rec, string) {
	content := randContent(rng, 16)
	n := len([]rune(content))
	dot := n
	if rng.Intn(3) == 0 {
		dot = rng.Intn(n + 1)
	}
	d := newDriver(fns, content, dot)
	typ := func(s string) string {
		for _, r := range s {
			if pm := d.event("rune", r, ""); pm != "" {
				return pm
			}
		}
		return ""
	}
	fnames := []string{"up", "left", "f1", "delete", "alt-a", "ctrl-x", "alt-enter", "shift-tab"}
	triggers := []rune{' ', ';', 'x', '.', '\t', '你', 0x301}
	for len(d.recs) < steps {
		pm := ""
		switch rng.Intn(20) {
		case 0, 1, 2: // an abbreviation, typed in full, then maybe a trigger
			tabs := [][][2]string{simpleAbbr, smallAbbr, cmdAbbr}[rng.Intn(3)]
			pm = typ(tabs[rng.Intn(len(tabs))][0])
			if pm == "" && rng.Intn(4) > 0 {
				pm = d.event("rune", triggers[rng.Intn(len(triggers))], "")
			}
		case 3: // an abbreviation interrupted in the middle
			tabs := [][][2]string{simpleAbbr, smallAbbr}[rng.Intn(2)]
			a := []rune(tabs[rng.Intn(len(tabs))][0])
			cut := 1 + rng.Intn(len(a))
			pm = typ(string(a[:cut]))
			if pm == "" {
				switch rng.Intn(4) {
				case 0:
					pm = d.builtin([]string{"move-dot-left", "move-dot-right", "move-dot-sol", "move-dot-eol"}[rng.Intn(4)])
					if pm == "" && rng.Intn(2) == 0 {
						pm = d.builtin([]string{"move-dot-right", "move-dot-left"}[rng.Intn(2)])
					}
				case 1:
					pm = d.event("func", 0, fnames[rng.Intn(len(fnames))])
				case 2:
					pm = d.builtin("transpose-rune")
					if pm == "" {
						pm = d.builtin("transpose-rune")
					}
				}
			}
			if pm == "" {
				pm = typ(string(a[cut:]))
			}
			if pm == "" && rng.Intn(2) == 0 {
				pm = d.event("rune", triggers[rng.Intn(len(triggers))], "")
			}
		case 4, 5, 6, 7, 8:
			pm = d.event("rune", pool[rng.Intn(len(pool))], "")
		case 9:
			pm = typ([]string{"ls ", "| ", "; ", "{ ", "( ", "x"}[rng.Intn(6)])
		case 10, 11, 12:
			pm = d.builtin(randBuiltin(rng))
		case 13:
			pm = d.event("rune", ui.Backspace, "")
		case 14:
			pm = d.event("ctrl-h", 0, "")
		case 15:
			pm = d.event("rune", []rune{'\n', '\t', 0x01, 0x1b}[rng.Intn(4)], "")
		case 16:
			pm = d.event("func", 0, fnames[rng.Intn(len(fnames))])
		case 17:
			d.quote = !d.quote
		default: // a bracketed paste
			if rng.Intn(6) == 0 {
				pm = d.event("pasteend", 0, "") // unmatched end
				break
			}
			pm = d.event("pastestart", 0, "")
			for k := rng.Intn(8); k > 0 && pm == ""; k-- {
				switch rng.Intn(8) {
				case 0:
					pm = d.event("func", 0, fnames[rng.Intn(len(fnames))])
				case 1:
					pm = d.event("rune", []rune{'\n', '\t', ui.Backspace, '\''}[rng.Intn(4)], "")
				case 2:
					pm = d.event("ctrl-h", 0, "")
				case 3:
					pm = d.builtin(randBuiltin(rng))
				default:
					pm = d.event("rune", pool[rng.Intn(len(pool))], "")
				}
			}
			if pm == "" && rng.Intn(8) > 0 {
				pm = d.event("pasteend", 0, "")
			}
		}
		if pm != "" {
			return d.recs, pm
		}
	}
	return d.recs, ""
}

// directedSequences types every configured abbreviation in full at the end of a buffer (empty,
// after a command word, after a wide rune), optionally followed by a trigger of each category: the
// deterministic probes for keys that complete abbreviations of two kinds at once.
func directedSequences(fns map[string]func(*tk.CodeBuffer)) (groups [][]rec, panics []string) {
	for _, tab := range [][][2]string{simpleAbbr, smallAbbr, cmdAbbr} {
		for _, e := range tab {
			for _, prefix := range []string{"", "echo ", "你", "x;"} {
				for _, trig := range []string{"", " ", ";", "x"} {
					d := newDriver(fns, "", 0)
					pm := ""
					for _, r := range prefix + e[0] + trig {
						if pm = d.event("rune", r, ""); pm != "" {
							break
						}
					}
					groups = append(groups, d.recs)
					panics = append(panics, pm)
				}
			}
		}
	}
	return
}

func typed(g []rec) string {
	rs := []rune{}
	for _, r := range g {
		if len(r.Toks) == 1 && r.Ev != "reset" {
			rs = append(rs, rune(r.Toks[0].R))
		}
	}
	return fmt.Sprintf("%q", string(rs))
}

func validate(c *lib.Ctx, dir string, fns map[string]func(*tk.CodeBuffer)) error {
	nb, ne := c.Pick(60, 1500), c.Pick(160, 3000)
	steps := 50
	var groups [][]rec
	nrec := 0
	var vac []rec
	dg, dp := directedSequences(fns)
	for i, g := range dg {
		c.AddEvals(len(g) - 1)
		nrec += len(g) - 1
		if dp[i] != "" {
			c.Reject("panic:after:"+g[len(g)-1].Ev, fmt.Sprintf("Handle panicked: %s after typing %s", dp[i], typed(g)), g)
		}
		groups = append(groups, g)
	}
	c.Set("v_directed_abbreviation_sequences", len(dg))
	for i := 0; i < nb+ne; i++ {
		var g []rec
		var pm string
		if i < nb {
			g, pm = builtinSequence(fns, c.Rand, steps)
		} else {
			g, pm = eventSequence(fns, c.Rand, steps)
		}
		c.AddEvals(len(g) - 1)
		nrec += len(g) - 1
		if pm != "" {
			last := "reset"
			if len(g) > 0 {
				last = g[len(g)-1].Ev + g[len(g)-1].A
			}
			c.Reject("panic:after:"+last, fmt.Sprintf("the real code panicked: %s (after %d recorded calls)", pm, len(g)), g)
		}
		groups = append(groups, g)
		if i == 0 || i == nb {
			c.Sample(g[:min(5, len(g))])
		}
		if i == 0 {
			vac = g
		}
		for _, r := range g {
			if r.Ev != "reset" {
				c.Distinct([]any{r.Ev, r.A, r.Toks, r.Res, r.Rdot})
			}
		}
	}
	c.Set("v_sequences", map[string]any{"builtin_sequences": nb, "code_area_sequences": ne, "recorded_calls": nrec})
	if err := judge(c, dir, "TraceCodeBuffer(V)", groups); err != nil {
		return err
	}
	c.AddTraces(len(groups))
	// vacuity guard: a corrupted recorded dot must be rejected
	g := append([]rec{}, vac...)
	for i := range g {
		if g[i].Ev == "builtin" {
			g[i].Res = append(append([]tok{}, g[i].Res...), attrs('X')) // a character that was never typed
			bad, err := lib.JudgeGroups(c, "TraceCodeBuffer(vacuity)", dir, "TraceCodeBuffer", [][]rec{g}, 1, 5*time.Minute)
			if err != nil {
				return err
			}
			if len(bad) == 0 {
				return lib.Infra("vacuity guard: a corrupted record was accepted by TraceCodeBuffer")
			}
			c.Set("vacuity_guard", "added character rejected")
			break
		}
	}
	return nil
}
