// C02 — errors in prefixes of valid programs are partial; Enter keeps reading.
//
// M: spec/ParseTree/MCSmartEnter — the two mechanisms (errorp marks an error partial iff it starts
//
//	at len(src); smart-enter inserts a newline iff an error starts at the end) give the statement.
//
// G/V: valid programs come from the grammar ElvSyntax.tla expanded by TLC (validity is checked by
//
//	parsing the full text: a generated program with errors is a generator defect, exit 2). Every
//	proper rune-boundary prefix is parsed by the real parser; the Enter decision is taken from
//	edit.VerifIsSyntaxComplete (the decision the Enter binding uses) and, for a sample, from the
//	real edit:smart-enter builtin acting on the real code area of a real Editor. One recorded
//	case per prefix is judged by the TLC case walker JudgeSmartEnter (predicates of SmartEnter.tla).
package main

import (
	"encoding/json"
	"fmt"
	"os"
	"sort"
	"sync"
	"sync/atomic"
	"time"

	"src.elv.sh/pkg/cli/clitest"
	"src.elv.sh/pkg/edit"
	"src.elv.sh/pkg/eval"
	"src.elv.sh/pkg/parse"
	"verif.local/harness/checks/c01/syn"
	"verif.local/harness/lib"
)

func main() { lib.Main("C02", run) }

type pcase struct {
	Len    int            `json:"len"`
	Prefix bool           `json:"prefix"`
	Errs   []syn.ParseErr `json:"errs"`
	Enter  bool           `json:"enter"` // edit.VerifIsSyntaxComplete(text) == false: Enter inserts a newline
	Area   int            `json:"area"`  // -1 not driven; 1 the real smart-enter inserted a newline; 0 it did not
	text   string
	of     string
}

// area drives the real smart-enter builtin on the real code area of a real Editor.
type area struct {
	ev       *eval.Evaler
	mu       sync.Mutex
	cur, got string
}

func newArea() (a *area, err error) {
	defer func() {
		if p := recover(); p != nil {
			err = lib.Infra("cannot build an Editor: %v", p)
		}
	}()
	tty, _ := clitest.NewFakeTTY()
	ev := eval.NewEvaler()
	ed := edit.NewEditor(tty, ev, nil)
	ev.ExtendBuiltin(eval.BuildNs().AddNs("edit", ed))
	a = &area{ev: ev}
	ev.ExtendGlobal(eval.BuildNs().
		AddGoFn("c02-text", func() string { return a.cur }).
		AddGoFn("c02-got", func(s string) { a.got = s }))
	return a, nil
}

// press puts text into the code area (dot at the end), runs edit:smart-enter and reports whether
// a newline was inserted (the alternative is that the code was committed unchanged).
func (a *area) press(text string) (newline bool, err error) {
	a.mu.Lock()
	defer a.mu.Unlock()
	defer func() {
		if p := recover(); p != nil {
			err = lib.Infra("driving the code area panicked: %v", p)
		}
	}()
	a.cur, a.got = text, "\x00unset"
	code := "set edit:current-command = (c02-text); edit:smart-enter; c02-got $edit:current-command"
	if err := a.ev.Eval(parse.Source{Name: "[c02]", Code: code}, eval.EvalCfg{}); err != nil {
		return false, lib.Infra("driving the code area with %q: %v", text, err)
	}
	switch a.got {
	case text + "\n":
		return true, nil
	case text:
		return false, nil
	}
	return false, lib.Infra("code area holds %q after smart-enter on %q", a.got, text)
}

// recordWatched is record under the parse watchdog (syn.ParseLimit); an expiry is confirmed by a
// second run with a fresh limit before syn.Hang is returned. Texts parse in microseconds; a parse
// that does not return keeps spinning until the process exits, so the caller stops feeding texts.
func recordWatched(text string, isPrefix bool, of string, ar *area) (pcase, error) {
	var pc pcase
	var err error
	for try := 0; ; try++ {
		r := syn.Watch(syn.ParseLimit, "recordInner", func() { pc, err = recordInner(text, isPrefix, of, ar) })
		if r.Finished && r.Panic == "" {
			return pc, err
		}
		if r.Finished {
			return pc, lib.Infra("recording %q panicked: %s", text, r.Panic)
		}
		if try == 1 {
			return pcase{text: text, of: of, Prefix: isPrefix}, syn.Hang{Code: text, State: r.State, Limit: syn.ParseLimit}
		}
		ar = nil // the retry must not wait for the code area (its lock may be held by the first try)
	}
}

func recordInner(text string, isPrefix bool, of string, ar *area) (pcase, error) {
	pc := pcase{Len: len(text), Prefix: isPrefix, Errs: syn.Errors(text), Enter: !edit.VerifIsSyntaxComplete(text), Area: -1, text: text, of: of}
	if ar != nil {
		nl, err := ar.press(text)
		if err != nil {
			return pc, err
		}
		if nl {
			pc.Area = 1
		} else {
			pc.Area = 0
		}
	}
	return pc, nil
}

func run(c *lib.Ctx) error {
	dir := c.SpecDir("ParseTree")
	if c.Replay != "" {
		return replay(c, dir)
	}
	c.Set("rule", "a case is a proper rune-boundary prefix (distinct by its text) of a generated valid program; non-trivial = the prefix has at least one parse error (clean prefixes are Unspecified for the Enter decision and are counted separately)")

	// ---- M
	nM := c.Pick(3, 5)
	rm, err := syn.TLC(c, "MCSmartEnter", lib.TLCRun{Dir: dir, Module: "MCSmartEnter", Workers: 1, Timeout: 5 * time.Minute,
		Files: map[string][]byte{"MCSmartEnter.cfg": []byte(fmt.Sprintf("CONSTANT N = %d\nINIT Init\nNEXT Next\nINVARIANT PartialAtEnd\nINVARIANT PrefixPartial\nINVARIANT KeepsReading\nINVARIANT Rule\n", nM))}})
	if err != nil {
		return err
	}
	if rm.ErrKind != "" {
		return lib.Infra("SmartEnter model: %s %s\n%s", rm.ErrKind, rm.Err, rm.ErrTrace)
	}

	// ---- valid programs from the grammar
	if !syn.ValidUTF8() {
		return lib.Infra("class representatives must be valid UTF-8")
	}
	exS, exD := c.Pick(6, 7), 1
	simN, simD, simS := c.Pick(250, 4000), c.Pick(2, 3), 40
	var ex, sim [][]string
	var e1, e2 error
	var wg sync.WaitGroup
	wg.Add(2)
	go func() { defer wg.Done(); ex, e1 = syn.Expand(c, "ElvSyntax-exhaustive", exD, exS, 0, 30*time.Minute) }()
	go func() {
		defer wg.Done()
		sim, e2 = syn.Expand(c, "ElvSyntax-simulate", simD, simS, simN, 30*time.Minute)
	}()
	wg.Wait()
	if e1 != nil {
		return e1
	}
	if e2 != nil {
		return e2
	}
	reps := c.Pick(1, 3)
	progSeen := map[string]bool{}
	var progs []string
	for _, toks := range append(ex, sim...) {
		for k := 0; k < reps; k++ {
			text := syn.Concretise(toks, c.Rand)
			if progSeen[text] {
				continue
			}
			if err := syn.CheckValid(toks, text); err != nil {
				if h, ok := err.(syn.Hang); ok {
					c.Reject("program:non-termination", "valid program: "+h.Error(), map[string]any{"text": []byte(text), "of": []byte(text), "prefix": false})
					return nil // the verdict is out; no further text is fed to a parser that spins
				}
				return err
			}
			progSeen[text] = true
			progs = append(progs, text)
		}
	}
	// directed probes (each is checked to be valid like the generated ones)
	for _, p := range []string{"echo a 2>&1", "a | b &\n", "put [&k=[a b] &j=(x)]{1,2}[0]", "fn f {|a @b &o=1| put \"\\x41\\u00e9\\^A\" '''' ^\n $a[0..1] }", "~/x ?(fail) **/a?.go <>f >>&2", "# c\necho é # d\n"} {
		if progSeen[p] {
			continue
		}
		if err := syn.CheckValid([]string{"probe"}, p); err != nil {
			return err
		}
		progSeen[p] = true
		progs = append(progs, p)
	}
	// escape sequences of double-quoted strings, generated by TLC from DQEscape.tla (every valid
	// escape over digit representatives; "special" = a proper digit prefix denotes a surrogate /
	// sits at the octal boundary). Prefixes cut inside the escape at every byte.
	escs, err := escapePrograms(c, dir)
	if err != nil {
		return err
	}
	nEsc := 0
	for _, p := range escs {
		if progSeen[p] {
			continue
		}
		if err := syn.CheckValid([]string{"escape"}, p); err != nil {
			if h, ok := err.(syn.Hang); ok {
				c.Reject("program:non-termination", "valid program: "+h.Error(), map[string]any{"text": []byte(p), "of": []byte(p), "prefix": false})
				return nil
			}
			return err
		}
		progSeen[p] = true
		progs = append(progs, p)
		nEsc++
	}
	c.Set("escape_programs", nEsc)
	c.Set("grammar", map[string]any{"exhaustive": map[string]int{"D": exD, "S": exS, "token_sequences": len(ex)},
		"simulated":                    map[string]int{"D": simD, "walks": simN, "max_expansions": simS, "token_sequences": len(sim)},
		"concretisations_per_sequence": reps, "valid_programs": len(progs)})
	c.Logf("%d token sequences, %d distinct valid programs (all parsed without error)", len(ex)+len(sim), len(progs))

	// ---- prefixes
	ar, err := newArea()
	if err != nil {
		return err
	}
	preSeen := map[string]bool{}
	type pre struct{ text, of string }
	var pres []pre
	for _, p := range progs {
		for _, q := range syn.Prefixes(p) {
			if !preSeen[q] {
				preSeen[q] = true
				pres = append(pres, pre{q, p})
			}
		}
	}
	nPrefix := len(pres)
	// other texts (not prefixes of valid programs): one token inserted into a valid program, and all
	// strings of up to 3 tokens over a small alphabet. Only the second sentence of the statement
	// (a partial error starts at the very end) and the error ranges are judged on them.
	junk := []string{"|", "&", ";", "(", ")", "[", "]", "{", "}", "<", ">", "$", "'", "\"", "\\", "^", "#", "\n", " ", "a", "é"}
	perm := c.Rand.Perm(len(progs))
	for j := 0; j < len(perm) && j < c.Pick(150, 3000); j++ {
		p := progs[perm[j]]
		for _, i := range syn.Boundaries(p) {
			q := p[:i] + junk[c.Rand.Intn(len(junk))] + p[i:]
			if !preSeen[q] && !progSeen[q] {
				preSeen[q] = true
				pres = append(pres, pre{q, ""})
			}
		}
	}
	for _, a := range junk {
		for _, b := range append([]string{""}, junk...) {
			for _, d := range append([]string{""}, junk...) {
				if q := a + b + d; !preSeen[q] && !progSeen[q] {
					preSeen[q] = true
					pres = append(pres, pre{q, ""})
				}
			}
		}
	}
	areaEvery := len(pres)/c.Pick(3000, 30000) + 1
	all := make([]pcase, len(pres))
	done := make([]bool, len(pres))
	var recErr error
	var hung []int
	var stop int32
	var mu sync.Mutex
	lib.Parallel(len(pres), 4, func(i int) {
		if atomic.LoadInt32(&stop) > 0 {
			return
		}
		var a *area
		if i%areaEvery == 0 {
			a = ar
		}
		pc, err := recordWatched(pres[i].text, i < nPrefix, pres[i].of, a)
		if err != nil {
			mu.Lock()
			if _, ok := err.(syn.Hang); ok {
				hung = append(hung, i)
				c.Logf("%v", err)
			} else if recErr == nil {
				recErr = err
			}
			mu.Unlock()
			atomic.AddInt32(&stop, 1)
			return
		}
		all[i], done[i] = pc, true
	})
	if recErr != nil && len(hung) == 0 {
		return recErr
	}
	sort.Ints(hung)
	for _, i := range hung {
		kind := "text"
		if i < nPrefix {
			kind = "prefix"
		}
		c.Reject(kind+":non-termination", fmt.Sprintf("%q (prefix of valid program %q): parse.Parse / the Enter decision did not return within %s, twice", pres[i].text, pres[i].of, syn.ParseLimit),
			map[string]any{"text": []byte(pres[i].text), "of": []byte(pres[i].of), "prefix": i < nPrefix})
	}
	var cases []pcase // what was recorded (everything, unless a parse did not terminate)
	for i := range all {
		if done[i] {
			cases = append(cases, all[i])
		}
	}
	if len(hung) > 0 {
		c.Set("not_fed_after_non_termination", len(pres)-len(cases)-len(hung))
		nPrefix = 0
		for _, pc := range cases {
			if pc.Prefix {
				nPrefix++
			}
		}
	}
	c.AddEvals(2*len(cases) + len(progs))
	var withErr, clean, driven, newlines, others int
	for i, pc := range cases {
		if !pc.Prefix {
			others++
			if pc.Area >= 0 {
				driven++
			}
			continue
		}
		if len(pc.Errs) > 0 {
			withErr++
			c.Distinct(pc.text)
			if withErr%(len(cases)/40+1) == 1 {
				c.Sample(map[string]any{"prefix": fmt.Sprintf("%q", pc.text), "of": fmt.Sprintf("%q", pc.of), "errs": pc.Errs, "enter_inserts_newline": pc.Enter, "area": pc.Area})
			}
		} else {
			clean++
		}
		if pc.Area >= 0 {
			driven++
		}
		if pc.Enter {
			newlines++
		}
		_ = i
	}
	c.Set("prefixes", map[string]int{"distinct": nPrefix, "other_texts_judged_for_partial_at_end": others, "with_errors": withErr, "clean_unspecified": clean,
		"enter_inserts_newline": newlines, "driven_through_real_code_area": driven})
	c.Logf("%d distinct prefixes (%d with errors, %d clean), %d other texts, %d driven through the real code area", nPrefix, withErr, clean, others, driven)

	bad, err := lib.Judge(c, "JudgeSmartEnter", dir, "JudgeSmartEnter", cases, 4, 30*time.Minute)
	if err != nil {
		return err
	}
	c.AddTraces(len(cases))
	report(c, cases, bad)
	c.Assume("TLC is trusted; validity of the generated programs is the claim of ElvSyntax.tla and is checked by parsing each program completely (no error allowed)")
	c.Assume("the Enter decision is observed through edit.VerifIsSyntaxComplete (verif build tag; the function the Enter binding calls) and, for a sample, through the real edit:smart-enter builtin on the code area of a real Editor (no event loop running)")
	c.Assume("for prefixes that parse cleanly the Enter decision is Unspecified; valid programs found by fuzzing are not produced (outside this technique family)")
	return nil
}

type escCase struct {
	K       string `json:"k"`
	Ds      []int  `json:"ds"`
	Special bool   `json:"special"`
}

// escapePrograms lets TLC enumerate the valid escapes of DQEscape.tla (checking its theorem) and
// renders each into valid programs.
func escapePrograms(c *lib.Ctx, dir string) ([]string, error) {
	r, err := syn.TLC(c, "DQEscape", lib.TLCRun{Dir: dir, Module: "DQEscape", Workers: 1, Timeout: 10 * time.Minute})
	if err != nil {
		return nil, err
	}
	if r.ErrKind != "" {
		return nil, lib.Infra("DQEscape model: %s %s\n%s", r.ErrKind, r.Err, r.ErrTrace)
	}
	seen := map[string]bool{}
	var out []string
	nSpecial := 0
	for _, line := range r.PrintedStrings() {
		if seen[line] {
			continue
		}
		seen[line] = true
		var e escCase
		if err := json.Unmarshal([]byte(line), &e); err != nil {
			return nil, lib.Infra("DQEscape printed %q: %v", line, err)
		}
		digits := "0123456789abcdef"
		if c.Rand.Intn(2) == 0 {
			digits = "0123456789ABCDEF"
		}
		esc := "\\"
		switch e.K {
		case "x", "u", "U":
			esc += e.K
			for _, d := range e.Ds {
				esc += string(digits[d])
			}
		case "o":
			for _, d := range e.Ds {
				esc += string(digits[d])
			}
		case "c":
			if c.Rand.Intn(2) == 0 {
				esc += "c"
			} else {
				esc += "^"
			}
			esc += string(rune(e.Ds[0]))
		default:
			return nil, lib.Infra("DQEscape: unknown escape kind %q", e.K)
		}
		out = append(out, "put \""+esc+"\"")
		if e.Special {
			nSpecial++
			out = append(out, "echo \"a"+esc+"é\" $x")
		}
	}
	if int64(len(seen)) != r.Distinct {
		return nil, lib.Infra("DQEscape: TLC reported %d escapes, received %d", r.Distinct, len(seen))
	}
	c.Set("escapes", map[string]int{"generated": len(seen), "special": nSpecial})
	return out, nil
}

func report(c *lib.Ctx, cases []pcase, bad []lib.BadCase) {
	sort.Slice(bad, func(a, b int) bool { return bad[a].Index < bad[b].Index })
	for _, b := range bad {
		pc := cases[b.Index]
		why := "rejected"
		if len(b.Info) > 0 {
			if s, ok := b.Info[0].(string); ok {
				why = s
			}
		}
		kind := "prefix"
		if !pc.Prefix {
			kind = "text"
		}
		c.Reject(kind+":"+why, fmt.Sprintf("%q (prefix of valid program %q): errors %+v, Enter inserts newline = %v, code area = %d: %s", pc.text, pc.of, pc.Errs, pc.Enter, pc.Area, why),
			map[string]any{"text": []byte(pc.text), "of": []byte(pc.of), "prefix": pc.Prefix})
	}
}

func replay(c *lib.Ctx, dir string) error {
	b, err := os.ReadFile(c.Replay)
	if err != nil {
		return lib.Infra("%v", err)
	}
	var f struct {
		Case struct {
			Text   []byte `json:"text"`
			Of     []byte `json:"of"`
			Prefix bool   `json:"prefix"`
		} `json:"case"`
	}
	if err := json.Unmarshal(b, &f); err != nil {
		return lib.Infra("%v", err)
	}
	ar, err := newArea()
	if err != nil {
		return err
	}
	pc, err := recordWatched(string(f.Case.Text), f.Case.Prefix, string(f.Case.Of), ar)
	if h, ok := err.(syn.Hang); ok {
		c.Reject("prefix:non-termination", h.Error(), map[string]any{"text": f.Case.Text, "of": f.Case.Of, "prefix": f.Case.Prefix})
		return nil
	}
	if err != nil {
		return err
	}
	cases := []pcase{pc}
	bad, err := lib.Judge(c, "JudgeSmartEnter", dir, "JudgeSmartEnter", cases, 1, 5*time.Minute)
	if err != nil {
		return err
	}
	report(c, cases, bad)
	return nil
}
