// Package storex holds what the history-store checks (C24, C25, C29, C26) share: the JSON form of
// HistStore.tla operations/results, their execution on a real storedefs.Store, and concretisation
// of abstract texts/directories.
package storex

import (
	"fmt"
	"math"
	"math/rand"
	"os"
	"path/filepath"
	"strings"
	"time"

	bolt "go.etcd.io/bbolt"
	"src.elv.sh/pkg/store"
	"src.elv.sh/pkg/store/storedefs"
)

// Op mirrors the operation records of HistStore.tla (uniform fields).
type Op struct {
	Op string `json:"op"`
	A  int    `json:"a"`
	B  int    `json:"b"`
	T  []int  `json:"t"`
	D  int    `json:"d"`
	F  int    `json:"f"` // increment factor in halves (factor = F/2)
	Bl []int  `json:"bl"`
}

type Entry struct {
	N int   `json:"n"`
	T []int `json:"t"`
}

// Res mirrors R0 of HistStore.tla.
type Res struct {
	Ok   bool    `json:"ok"`
	N    int     `json:"n"`
	T    []int   `json:"t"`
	List []Entry `json:"list"`
}

type DirScore struct {
	D     int `json:"d"`
	Score int `json:"score"` // milli-units
}

// Event is one recorded API call on the real store.
type Event struct {
	O    Op         `json:"o"`
	R    Res        `json:"r"`
	Dirs []DirScore `json:"dirs"`
}

// Step is one element of a behaviour emitted by MCHistStore (prescribed result included).
type Step struct {
	O      Op         `json:"o"`
	R      Res        `json:"r"`
	Dirs   []DirScore `json:"dirs"`   // model directory table after the step
	Visits int        `json:"visits"` // model visit count after the step
}

var tokens = map[int]string{1: "a", 2: "b", 3: "\x00\xff", 4: " c", 5: "é"}

func Text(t []int) string {
	var sb strings.Builder
	for _, x := range t {
		sb.WriteString(tokens[x])
	}
	return sb.String()
}

// Untext maps a real text back to tokens; ok=false if it is not a token sequence.
func Untext(s string) ([]int, bool) {
	out := []int{}
	for len(s) > 0 {
		found := false
		for id, tok := range tokens {
			if strings.HasPrefix(s, tok) {
				out = append(out, id)
				s = s[len(tok):]
				found = true
				break
			}
		}
		if !found {
			return nil, false
		}
	}
	return out, true
}

func DirPath(d int) string { return fmt.Sprintf("/d%d", d) }

func dirID(p string) int {
	var d int
	fmt.Sscanf(p, "/d%d", &d)
	return d
}

func ResetEvent() Event {
	return Event{O: Op{Op: "Reset", T: []int{}, Bl: []int{}}, R: Res{Ok: true, T: []int{}, List: []Entry{}}, Dirs: []DirScore{}}
}

func noMatch(err error) bool { return err != nil && err.Error() == storedefs.ErrNoMatchingCmd.Error() }

// Exec runs one operation on a real store and records what it returned.
// An error other than "no matching command" is returned as err (machinery or real failure: caller decides).
func Exec(st storedefs.Store, o Op) (ev Event, err error) {
	// a panic of the real store is an answer of the real code (an error no model accepts), not a
	// defect of the driver
	defer func() {
		if r := recover(); r != nil {
			err = fmt.Errorf("the real store panicked in %s: %v", o.Op, r)
			if o.T == nil {
				o.T = []int{}
			}
			if o.Bl == nil {
				o.Bl = []int{}
			}
			ev = Event{O: o, R: Res{T: []int{}, List: []Entry{}}, Dirs: []DirScore{}}
		}
	}()
	return exec(st, o)
}

func exec(st storedefs.Store, o Op) (Event, error) {
	if o.T == nil {
		o.T = []int{}
	}
	if o.Bl == nil {
		o.Bl = []int{}
	}
	ev := Event{O: o, R: Res{Ok: true, T: []int{}, List: []Entry{}}, Dirs: []DirScore{}}
	var err error
	switch o.Op {
	case "NextCmdSeq":
		ev.R.N, err = st.NextCmdSeq()
	case "AddCmd":
		ev.R.N, err = st.AddCmd(Text(o.T))
	case "DelCmd":
		err = st.DelCmd(o.A)
	case "Cmd":
		var s string
		s, err = st.Cmd(o.A)
		if noMatch(err) {
			ev.R.Ok, err = false, nil
		} else if err == nil {
			t, ok := Untext(s)
			if !ok {
				return ev, fmt.Errorf("store returned a text that was never stored: %q", s)
			}
			ev.R.T = t
		}
	case "CmdsWithSeq":
		var cs []storedefs.Cmd
		cs, err = st.CmdsWithSeq(o.A, o.B)
		for _, c := range cs {
			t, ok := Untext(c.Text)
			if !ok {
				return ev, fmt.Errorf("store returned a text that was never stored: %q", c.Text)
			}
			ev.R.List = append(ev.R.List, Entry{c.Seq, t})
		}
	case "NextCmd", "PrevCmd":
		var c storedefs.Cmd
		if o.Op == "NextCmd" {
			c, err = st.NextCmd(o.A, Text(o.T))
		} else {
			c, err = st.PrevCmd(o.A, Text(o.T))
		}
		if noMatch(err) {
			ev.R.Ok, err = false, nil
		} else if err == nil {
			t, ok := Untext(c.Text)
			if !ok {
				return ev, fmt.Errorf("store returned a text that was never stored: %q", c.Text)
			}
			ev.R.N, ev.R.T = c.Seq, t
		}
	case "AddDir":
		err = st.AddDir(DirPath(o.D), float64(o.F)/2)
	case "DelDir":
		err = st.DelDir(DirPath(o.D))
	case "Dirs":
		bl := map[string]struct{}{}
		for _, d := range o.Bl {
			bl[DirPath(d)] = struct{}{}
		}
		var ds []storedefs.Dir
		ds, err = st.Dirs(bl)
		for _, d := range ds {
			ev.Dirs = append(ev.Dirs, DirScore{dirID(d.Path), int(math.Round(d.Score * 1000))})
		}
	default:
		return ev, fmt.Errorf("unknown op %q", o.Op)
	}
	return ev, err
}

// ScratchDir returns a fresh directory for database files (tmpfs when available).
func ScratchDir() (string, error) {
	base := ""
	if st, err := os.Stat("/dev/shm"); err == nil && st.IsDir() {
		base = "/dev/shm"
	}
	return os.MkdirTemp(base, "vstore-")
}

// OpenNoSync opens the real store over a bbolt database without fsync (same store code, faster;
// durability is C25's subject, not C24's).
func OpenNoSync(path string) (store.DBStore, error) {
	db, err := bolt.Open(path, 0o644, &bolt.Options{Timeout: time.Second, NoSync: true, NoFreelistSync: true})
	if err != nil {
		return nil, err
	}
	return store.NewStoreFromDB(db)
}

// RandomOp draws an operation for random histories; next is the model-free upper estimate of the
// highest sequence number issued so far.
func RandomOp(r *rand.Rand, next int, allowNeg bool) Op {
	texts := [][]int{{}, {1}, {2}, {1, 1}, {1, 2}, {1, 2, 1}, {3}, {3, 1}, {2, 2, 2}, {4}, {5, 1}, {1, 5}}
	prefixes := [][]int{{}, {1}, {1, 2}, {2}, {3}, {5}, {1, 2, 1, 1}}
	pick := func(hi int) int {
		if hi < 0 {
			hi = 0
		}
		v := r.Intn(hi + 3)
		if allowNeg && r.Intn(25) == 0 {
			return -1 - r.Intn(3)
		}
		if r.Intn(30) == 0 {
			return hi + 1000
		}
		return v
	}
	o := Op{T: []int{}, Bl: []int{}}
	switch x := r.Intn(100); {
	case x < 30:
		o.Op, o.T = "AddCmd", texts[r.Intn(len(texts))]
	case x < 38:
		o.Op, o.A = "DelCmd", pick(next)
	case x < 46:
		o.Op, o.A = "Cmd", pick(next)
	case x < 54:
		o.Op, o.A, o.B = "CmdsWithSeq", pick(next), pick(next)
		if r.Intn(4) == 0 {
			o.B = -1
		}
	case x < 64:
		o.Op, o.A, o.T = "NextCmd", pick(next), prefixes[r.Intn(len(prefixes))]
	case x < 74:
		o.Op, o.A, o.T = "PrevCmd", pick(next+1), prefixes[r.Intn(len(prefixes))]
	case x < 78:
		o.Op = "NextCmdSeq"
	case x < 90:
		o.Op, o.D, o.F = "AddDir", 1+r.Intn(6), []int{1, 2, 2, 2, 3, 4}[r.Intn(6)]
	case x < 93:
		o.Op, o.D = "DelDir", 1+r.Intn(6)
	default:
		o.Op = "Dirs"
		for d := 1; d <= 6; d++ {
			if r.Intn(5) == 0 {
				o.Bl = append(o.Bl, d)
			}
		}
	}
	return o
}

// DBPath joins a scratch dir and a file name.
func DBPath(dir string, i int) string { return filepath.Join(dir, fmt.Sprintf("db%d", i)) }

// Reusable is a real store over one bbolt file that can be brought back to the state of a fresh
// database (buckets deleted and re-created, which also resets the bucket sequence) — used to
// replay many short behaviours without creating a file for each.
type Reusable struct {
	Store store.DBStore
	db    *bolt.DB
}

func OpenReusable(path string) (*Reusable, error) {
	db, err := bolt.Open(path, 0o644, &bolt.Options{Timeout: time.Second, NoSync: true, NoFreelistSync: true})
	if err != nil {
		return nil, err
	}
	st, err := store.NewStoreFromDB(db)
	if err != nil {
		return nil, err
	}
	return &Reusable{st, db}, nil
}

// Reset empties the database by dropping all buckets and re-running the store's initialisation.
func (r *Reusable) Reset() error {
	err := r.db.Update(func(tx *bolt.Tx) error {
		var names [][]byte
		tx.ForEach(func(name []byte, _ *bolt.Bucket) error {
			names = append(names, append([]byte{}, name...))
			return nil
		})
		for _, n := range names {
			if err := tx.DeleteBucket(n); err != nil {
				return err
			}
		}
		return nil
	})
	if err != nil {
		return err
	}
	st, err := store.NewStoreFromDB(r.db)
	if err != nil {
		return err
	}
	r.Store = st
	return nil
}

func (r *Reusable) Close() error { return r.db.Close() }
