// Package elv holds helpers for driving the real Elvish evaluator from checks.
package elv

import (
	"context"
	"errors"
	"fmt"
	"math/big"
	"runtime/debug"
	"sort"
	"strings"
	"time"

	"src.elv.sh/pkg/eval"
	"src.elv.sh/pkg/eval/vals"
	"src.elv.sh/pkg/mods"
	"src.elv.sh/pkg/parse"
)

// Outcome of one Evaler.Eval call.
type Outcome struct {
	Values  []any
	Bytes   []byte
	Err     error  // parse error, compilation error or exception
	Panic   string // non-empty if Eval panicked (recovered on the calling goroutine)
	Timeout bool   // evaluation did not return within the limit (goroutine abandoned)
}

// New returns an Evaler with the standard modules installed.
func New() *eval.Evaler {
	ev := eval.NewEvaler()
	mods.AddTo(ev)
	return ev
}

// Run evaluates code on ev, capturing value and byte output of stdout (stderr is discarded).
func Run(ev *eval.Evaler, code string) Outcome {
	return RunCtx(ev, code, nil, 0)
}

// RunCtx is Run with an interrupt context and an optional watchdog (0 = none).
func RunCtx(ev *eval.Evaler, code string, intr context.Context, limit time.Duration) Outcome {
	port, collect, err := eval.CapturePort()
	if err != nil {
		return Outcome{Err: err}
	}
	type res struct {
		err error
		pan string
	}
	done := make(chan res, 1)
	go func() {
		var r res
		defer func() {
			if p := recover(); p != nil {
				r.pan = fmt.Sprintf("%v\n%s", p, debug.Stack())
			}
			done <- r
		}()
		r.err = ev.Eval(parse.Source{Name: "[verif]", Code: code},
			eval.EvalCfg{Ports: []*eval.Port{nil, port, nil}, Interrupts: intr})
	}()
	var r res
	if limit > 0 {
		select {
		case r = <-done:
		case <-time.After(limit):
			return Outcome{Timeout: true}
		}
	} else {
		r = <-done
	}
	vs, bs := collect()
	return Outcome{Values: vs, Bytes: bs, Err: r.err, Panic: r.pan}
}

// Reason unwraps an exception to its reason; nil for a nil error or non-exception.
func Reason(err error) error {
	var exc eval.Exception
	if errors.As(err, &exc) {
		return exc.Reason()
	}
	return nil
}

// ErrClass classifies the error of an evaluation: "" (none), "parse", "compile", "exception".
func ErrClass(err error) string {
	if err == nil {
		return ""
	}
	if parse.UnpackErrors(err) != nil {
		return "parse"
	}
	if eval.UnpackCompilationErrors(err) != nil {
		return "compile"
	}
	var exc eval.Exception
	if errors.As(err, &exc) {
		return "exception"
	}
	return "other"
}

// Abs projects an Elvish value to a JSON-able abstract form used in traces:
//
//	nil -> null, bool -> bool, string -> {"s": [bytes]} (or plain string when printable ASCII),
//	numbers -> {"num": class, "v": canonical text}, list -> {"list": [...]},
//	map -> {"map": [[k,v]...]} sorted by repr of key, others -> {"other": kind}.
func Abs(v any) any {
	switch v := v.(type) {
	case nil:
		return nil
	case bool:
		return v
	case string:
		return map[string]any{"s": Bytes(v)}
	case int:
		return map[string]any{"num": "int", "v": fmt.Sprint(v)}
	case *big.Int:
		return map[string]any{"num": "bigint", "v": v.String()}
	case *big.Rat:
		return map[string]any{"num": "rat", "v": v.String()}
	case float64:
		return map[string]any{"num": "float", "v": vals.ToString(v)}
	case vals.List:
		out := []any{}
		for it := v.Iterator(); it.HasElem(); it.Next() {
			out = append(out, Abs(it.Elem()))
		}
		return map[string]any{"list": out}
	case vals.Map:
		type kv struct {
			r    string
			k, v any
		}
		var ps []kv
		for it := v.Iterator(); it.HasElem(); it.Next() {
			k, val := it.Elem()
			ps = append(ps, kv{vals.ReprPlain(k), Abs(k), Abs(val)})
		}
		sort.Slice(ps, func(i, j int) bool { return ps[i].r < ps[j].r })
		out := []any{}
		for _, p := range ps {
			out = append(out, []any{p.k, p.v})
		}
		return map[string]any{"map": out}
	default:
		return map[string]any{"other": vals.Kind(v)}
	}
}

// Bytes converts a string to a slice of ints (TLC cannot index strings).
func Bytes(s string) []int {
	out := make([]int, len(s))
	for i := 0; i < len(s); i++ {
		out[i] = int(s[i])
	}
	return out
}

// MakeList builds a real Elvish list of n distinct string elements e0..e(n-1).
func MakeList(n int) vals.List {
	l := vals.EmptyList
	for i := 0; i < n; i++ {
		l = l.Conj(fmt.Sprintf("e%d", i))
	}
	return l
}

// ListStrings returns the elements of a list of strings.
func ListStrings(v any) ([]string, bool) {
	l, ok := v.(vals.List)
	if !ok {
		return nil, false
	}
	var out []string
	for it := l.Iterator(); it.HasElem(); it.Next() {
		s, ok := it.Elem().(string)
		if !ok {
			return nil, false
		}
		out = append(out, s)
	}
	return out, true
}

// Quote quotes s as an Elvish word.
func Quote(s string) string { return parse.Quote(s) }

// Join joins words with spaces.
func Join(ws ...string) string { return strings.Join(ws, " ") }

// RunSync is Run on the CALLING goroutine (no watchdog): needed when hooks identify the goroutine.
func RunSync(ev *eval.Evaler, code string) (o Outcome) {
	port, collect, err := eval.CapturePort()
	if err != nil {
		return Outcome{Err: err}
	}
	func() {
		defer func() {
			if p := recover(); p != nil {
				o.Panic = fmt.Sprintf("%v\n%s", p, debug.Stack())
			}
		}()
		o.Err = ev.Eval(parse.Source{Name: "[verif]", Code: code}, eval.EvalCfg{Ports: []*eval.Port{nil, port, nil}})
	}()
	o.Values, o.Bytes = collect()
	return o
}
