package lib

import "testing"

func TestCrashOfRealCode(t *testing.T) {
	real := "[C15  103.6s] G: x\npanic: runtime error: index out of range [1] with length 1\n\ngoroutine 42680 [running]:\nsrc.elv.sh/pkg/eval.(*lambdaOp).exec(0xc00972ea80, 0xc00a383680)\n\t/tmp/x/pkg/eval/compile_value.go:472 +0x5d1\nsrc.elv.sh/pkg/eval.(*pipelineOp).exec.func1(0xc004fc8fd0?)\n\t/tmp/x.go:156 +0x7c\ncreated by src.elv.sh/pkg/eval.(*pipelineOp).exec in goroutine 42618\n\t/tmp/x.go:173 +0xa4f\n\ngoroutine 1 [chan receive]:\nverif.local/harness/lib.Main()\n"
	fn, head, _, ok := CrashOfRealCode(real)
	if !ok || fn != "src.elv.sh/pkg/eval.(*lambdaOp).exec" || head != "panic: runtime error: index out of range [1] with length 1" {
		t.Fatalf("real: %v %q %q", ok, fn, head)
	}
	lib := "panic: nil\n\ngoroutine 26 [running]:\ngo.etcd.io/bbolt.(*Bucket).Cursor(...)\n\t/x.go:84\nsrc.elv.sh/pkg/store.(*dbStore).Dirs.func1(0x30?)\n\t/x.go:78 +0x56\nverif.local/harness/storex.Exec({_, _})\n\t/x.go:1\n"
	if fn, _, _, ok := CrashOfRealCode(lib); !ok || fn != "src.elv.sh/pkg/store.(*dbStore).Dirs.func1" {
		t.Fatalf("lib: %v %q", ok, fn)
	}
	harness := "panic: boom\n\ngoroutine 1 [running]:\nverif.local/harness/lib.Foo()\n\t/x.go:1\nsrc.elv.sh/pkg/eval.X()\n\t/x.go:2\n"
	if _, _, _, ok := CrashOfRealCode(harness); ok {
		t.Fatal("harness panic classified as real")
	}
	mainp := "panic: boom\n\ngoroutine 1 [running]:\nmain.run()\n\t/x.go:1\n"
	if _, _, _, ok := CrashOfRealCode(mainp); ok {
		t.Fatal("main panic classified as real")
	}
	if _, _, _, ok := CrashOfRealCode("INFRA property=C01: x\n"); ok {
		t.Fatal("no panic")
	}
}
