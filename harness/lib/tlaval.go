package lib

import (
	"fmt"
	"strconv"
	"strings"
)

// ParseTLA parses a value printed by TLC (PrintT / counterexample states) into Go values:
// int -> int64, "str" -> string, TRUE/FALSE -> bool, <<..>> -> []any, {..} -> TLASet,
// [a |-> v, ...] -> map[string]any, (k :> v @@ ...) -> TLAFun, model values / identifiers -> TLAId.
type TLASet []any
type TLAId string
type TLAFun []TLAPair
type TLAPair struct{ K, V any }

type tlaParser struct {
	s string
	i int
}

func ParseTLA(s string) (any, error) {
	p := &tlaParser{s: s}
	v, err := p.value()
	if err != nil {
		return nil, err
	}
	p.ws()
	if p.i != len(p.s) {
		return nil, fmt.Errorf("trailing input at %d: %q", p.i, p.s[p.i:])
	}
	return v, nil
}

func (p *tlaParser) ws() {
	for p.i < len(p.s) && (p.s[p.i] == ' ' || p.s[p.i] == '\n' || p.s[p.i] == '\t' || p.s[p.i] == '\r') {
		p.i++
	}
}

func (p *tlaParser) has(tok string) bool {
	p.ws()
	return strings.HasPrefix(p.s[p.i:], tok)
}

func (p *tlaParser) eat(tok string) bool {
	if p.has(tok) {
		p.i += len(tok)
		return true
	}
	return false
}

func (p *tlaParser) value() (any, error) {
	p.ws()
	if p.i >= len(p.s) {
		return nil, fmt.Errorf("unexpected end")
	}
	c := p.s[p.i]
	switch {
	case c == '"':
		j := p.i + 1
		for j < len(p.s) {
			if p.s[j] == '\\' {
				j += 2
				continue
			}
			if p.s[j] == '"' {
				break
			}
			j++
		}
		if j >= len(p.s) {
			return nil, fmt.Errorf("unterminated string")
		}
		raw := p.s[p.i : j+1]
		p.i = j + 1
		u, err := strconv.Unquote(raw)
		if err != nil {
			// TLC escapes only \" \\ \n \t etc.; fall back to a manual unescape
			u = strings.NewReplacer(`\"`, `"`, `\\`, `\`, `\n`, "\n", `\t`, "\t", `\r`, "\r", `\f`, "\f").Replace(raw[1 : len(raw)-1])
		}
		return u, nil
	case strings.HasPrefix(p.s[p.i:], "<<"):
		p.i += 2
		var out []any
		out = []any{}
		if p.eat(">>") {
			return out, nil
		}
		for {
			v, err := p.value()
			if err != nil {
				return nil, err
			}
			out = append(out, v)
			if p.eat(",") {
				continue
			}
			if p.eat(">>") {
				return out, nil
			}
			return nil, fmt.Errorf("expected , or >> at %d", p.i)
		}
	case c == '{':
		p.i++
		out := TLASet{}
		if p.eat("}") {
			return out, nil
		}
		for {
			v, err := p.value()
			if err != nil {
				return nil, err
			}
			out = append(out, v)
			if p.eat(",") {
				continue
			}
			if p.eat("}") {
				return out, nil
			}
			return nil, fmt.Errorf("expected , or } at %d", p.i)
		}
	case c == '[':
		p.i++
		out := map[string]any{}
		if p.eat("]") {
			return out, nil
		}
		for {
			p.ws()
			j := p.i
			for j < len(p.s) && (isIdent(p.s[j])) {
				j++
			}
			name := p.s[p.i:j]
			p.i = j
			if !p.eat("|->") {
				return nil, fmt.Errorf("expected |-> at %d", p.i)
			}
			v, err := p.value()
			if err != nil {
				return nil, err
			}
			out[name] = v
			if p.eat(",") {
				continue
			}
			if p.eat("]") {
				return out, nil
			}
			return nil, fmt.Errorf("expected , or ] at %d", p.i)
		}
	case c == '(':
		p.i++
		out := TLAFun{}
		for {
			k, err := p.value()
			if err != nil {
				return nil, err
			}
			if !p.eat(":>") {
				return nil, fmt.Errorf("expected :> at %d", p.i)
			}
			v, err := p.value()
			if err != nil {
				return nil, err
			}
			out = append(out, TLAPair{k, v})
			if p.eat("@@") {
				continue
			}
			if p.eat(")") {
				return out, nil
			}
			return nil, fmt.Errorf("expected @@ or ) at %d", p.i)
		}
	case c == '-' || (c >= '0' && c <= '9'):
		j := p.i + 1
		for j < len(p.s) && p.s[j] >= '0' && p.s[j] <= '9' {
			j++
		}
		n, err := strconv.ParseInt(p.s[p.i:j], 10, 64)
		if err != nil {
			return nil, err
		}
		p.i = j
		return n, nil
	default:
		j := p.i
		for j < len(p.s) && isIdent(p.s[j]) {
			j++
		}
		if j == p.i {
			return nil, fmt.Errorf("unexpected %q at %d", c, p.i)
		}
		id := p.s[p.i:j]
		p.i = j
		switch id {
		case "TRUE":
			return true, nil
		case "FALSE":
			return false, nil
		}
		return TLAId(id), nil
	}
}

func isIdent(c byte) bool {
	return c == '_' || (c >= '0' && c <= '9') || (c >= 'a' && c <= 'z') || (c >= 'A' && c <= 'Z')
}
