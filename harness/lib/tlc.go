package lib

import (
	"bufio"
	"bytes"
	"context"
	"fmt"
	"os"
	"os/exec"
	"path/filepath"
	"regexp"
	"strconv"
	"strings"
	"syscall"
	"time"
)

const tlaJar = "/opt/veriftools/tla/tla2tools.jar:/opt/veriftools/tla/CommunityModules-deps.jar"

// TLCRun describes one TLC invocation. The spec directory is copied into a fresh scratch
// directory (outside /repo and /verif) which is removed afterwards.
type TLCRun struct {
	Dir       string            // directory holding the .tla/.cfg files (all are copied); common/ next to it is copied too
	Module    string            // root module name (Module.tla)
	Cfg       string            // cfg file name; default Module.cfg
	Files     map[string][]byte // extra files written into the scratch dir (traces, cases)
	Workers   int               // default 1
	Simulate  string            // e.g. "num=100" => -simulate num=100
	Depth     int               // -depth for simulation
	Seed      int64             // -seed (simulation)
	Timeout   time.Duration     // default 5 min
	Deadlock  bool              // true: check deadlock (default off => -deadlock flag passed)
	Coverage  bool              // -coverage 1
	Continue  bool              // -continue
	DFS       bool              // StateDeque depth-first queue
	HeapGB    int               // default 4
	Keep      []string          // files to read back from the scratch dir after the run
	DumpDot   bool              // -dump dot,actionlabels graph  (read back as graph.dot via Keep)
	ExtraArgs []string
}

type TLCResult struct {
	Generated int64 // states generated (≈ transitions taken)
	Distinct  int64 // distinct states
	Depth     int
	Printed   []string // raw lines printed by Print/PrintT (those starting with " or <<)
	Err       string   // first "Error:" line, if any
	ErrKind   string   // "", "invariant", "deadlock", "temporal", "postcondition", "assumption", "action-property", "other"
	ErrName   string   // invariant / property name when reported
	ErrTrace  string   // raw counterexample text
	Stdout    string
	Exit      int
	Wall      time.Duration
	Kept      map[string][]byte
	Coverage  map[string]int64 // action name -> count (distinct states found via action), when Coverage requested
	TimedOut  bool
}

var (
	reStates    = regexp.MustCompile(`^(\d+) states generated, (\d+) distinct states found`)
	reSimStates = regexp.MustCompile(`(\d+) states checked`)
	reDepth     = regexp.MustCompile(`depth of the complete state graph search is (\d+)`)
	reInv       = regexp.MustCompile(`Invariant (\S+) is violated`)
	reActProp   = regexp.MustCompile(`Action property (\S+) is violated`)
	reCov       = regexp.MustCompile(`^<(\w+) line \d+, col \d+ to line \d+, col \d+ of module (\w+)>: (\d+):(\d+)`)
)

// Tagged returns, for every printed tuple <<"tag", ...>>, the remaining elements parsed.
func (r *TLCResult) Tagged(tag string) [][]any {
	var out [][]any
	quoted := `"` + tag + `"`
	for _, l := range r.Printed {
		// TLC prints short tuples as <<"TAG", ..>> and wrapped (long) ones as << "TAG", .. >>
		if !strings.HasPrefix(l, "<<") || !strings.HasPrefix(strings.TrimSpace(l[2:]), quoted) {
			continue
		}
		v, err := ParseTLA(l)
		if err != nil {
			continue
		}
		if t, ok := v.([]any); ok && len(t) >= 1 && t[0] == tag {
			out = append(out, t[1:])
		}
	}
	return out
}

// PrintedStrings returns every printed line that is a single TLA+ string, unquoted.
func (r *TLCResult) PrintedStrings() []string {
	var out []string
	for _, l := range r.Printed {
		if strings.HasPrefix(l, `"`) {
			if v, err := ParseTLA(l); err == nil {
				if s, ok := v.(string); ok {
					out = append(out, s)
				}
			}
		}
	}
	return out
}

func copySpecDir(src, dst string) error {
	ents, err := os.ReadDir(src)
	if err != nil {
		return err
	}
	for _, e := range ents {
		if e.IsDir() {
			continue
		}
		n := e.Name()
		if !(strings.HasSuffix(n, ".tla") || strings.HasSuffix(n, ".cfg") || strings.HasSuffix(n, ".json") || strings.HasSuffix(n, ".ndjson")) {
			continue
		}
		b, err := os.ReadFile(filepath.Join(src, n))
		if err != nil {
			return err
		}
		if err := os.WriteFile(filepath.Join(dst, n), b, 0o644); err != nil {
			return err
		}
	}
	return nil
}

// RunTLC runs TLC. An error return means an infrastructure problem (TLC could not run, parse
// error in the spec, timeout, evaluation error): callers must treat it as exit 2, never as a verdict.
// Property violations are reported in the result (ErrKind != "").
func RunTLC(run TLCRun) (*TLCResult, error) {
	if run.Workers <= 0 {
		run.Workers = 1
	}
	if run.Timeout == 0 {
		run.Timeout = 5 * time.Minute
	}
	if run.HeapGB == 0 {
		run.HeapGB = 4
	}
	if run.Cfg == "" {
		run.Cfg = run.Module + ".cfg"
	}
	scratch, err := os.MkdirTemp("", "vtlc-")
	if err != nil {
		return nil, err
	}
	defer os.RemoveAll(scratch)
	common := filepath.Join(filepath.Dir(run.Dir), "common")
	if st, err := os.Stat(common); err == nil && st.IsDir() {
		if err := copySpecDir(common, scratch); err != nil {
			return nil, err
		}
	}
	if err := copySpecDir(run.Dir, scratch); err != nil {
		return nil, err
	}
	for n, b := range run.Files {
		if err := os.WriteFile(filepath.Join(scratch, n), b, 0o644); err != nil {
			return nil, err
		}
	}
	args := []string{"-XX:+UseParallelGC", fmt.Sprintf("-Xmx%dg", run.HeapGB), "-Xss256m",
		"-Djava.io.tmpdir=" + scratch}
	if run.DFS {
		args = append(args, "-Dtlc2.tool.queue.IStateQueue=StateDeque")
	}
	args = append(args, "-cp", tlaJar, "tlc2.TLC", "-workers", strconv.Itoa(run.Workers),
		"-metadir", filepath.Join(scratch, "meta"), "-config", run.Cfg, "-noGenerateSpecTE")
	if !run.Deadlock {
		args = append(args, "-deadlock")
	}
	if run.Simulate != "" {
		args = append(args, "-simulate", run.Simulate)
		if run.Depth > 0 {
			args = append(args, "-depth", strconv.Itoa(run.Depth))
		}
		args = append(args, "-seed", strconv.FormatInt(run.Seed, 10))
	}
	if run.Coverage {
		args = append(args, "-coverage", "1")
	}
	if run.Continue {
		args = append(args, "-continue")
	}
	if run.DumpDot {
		args = append(args, "-dump", "dot,actionlabels", "graph")
		run.Keep = append(run.Keep, "graph.dot")
	}
	args = append(args, run.ExtraArgs...)
	args = append(args, run.Module)

	ctx, cancel := context.WithTimeout(context.Background(), run.Timeout)
	defer cancel()
	cmd := exec.CommandContext(ctx, "java", args...)
	cmd.Dir = scratch
	cmd.SysProcAttr = &syscall.SysProcAttr{Setpgid: true}
	cmd.Cancel = func() error { return syscall.Kill(-cmd.Process.Pid, syscall.SIGKILL) }
	cmd.Env = append(os.Environ(), "JAVA_TOOL_OPTIONS=")
	var buf bytes.Buffer
	cmd.Stdout = &buf
	cmd.Stderr = &buf
	t0 := time.Now()
	runErr := cmd.Run()
	res := &TLCResult{Stdout: buf.String(), Wall: time.Since(t0), Kept: map[string][]byte{}, Coverage: map[string]int64{}}
	if ctx.Err() != nil {
		res.TimedOut = true
		return res, fmt.Errorf("tlc %s: timeout after %s", run.Module, run.Timeout)
	}
	if ee, ok := runErr.(*exec.ExitError); ok {
		res.Exit = ee.ExitCode()
	} else if runErr != nil {
		return res, fmt.Errorf("tlc %s: %v", run.Module, runErr)
	}
	for _, k := range run.Keep {
		if b, err := os.ReadFile(filepath.Join(scratch, k)); err == nil {
			res.Kept[k] = b
		}
	}
	sc := bufio.NewScanner(strings.NewReader(res.Stdout))
	sc.Buffer(make([]byte, 1<<20), 1<<30)
	inTrace := false
	var trace strings.Builder
	var pending strings.Builder // a printed value that TLC wrapped over several lines
	for sc.Scan() {
		l := sc.Text()
		if pending.Len() > 0 {
			// continuation of a wrapped value: TLC pretty-prints values wider than ~80 columns
			pending.WriteByte(' ')
			pending.WriteString(strings.TrimSpace(l))
			if tlaBalanced(pending.String()) {
				if !inTrace {
					res.Printed = append(res.Printed, pending.String())
				}
				pending.Reset()
			}
			continue
		}
		switch {
		case strings.HasPrefix(l, `"`) || strings.HasPrefix(l, "<<"):
			if !tlaBalanced(l) {
				pending.WriteString(l)
				continue
			}
			if !inTrace {
				res.Printed = append(res.Printed, l)
			}
		}
		if m := reStates.FindStringSubmatch(l); m != nil {
			res.Generated, _ = strconv.ParseInt(m[1], 10, 64)
			res.Distinct, _ = strconv.ParseInt(m[2], 10, 64)
			inTrace = false
		}
		if m := reDepth.FindStringSubmatch(l); m != nil {
			res.Depth, _ = strconv.Atoi(m[1])
		}
		if m := reCov.FindStringSubmatch(l); m != nil {
			n, _ := strconv.ParseInt(m[3], 10, 64)
			res.Coverage[m[1]] += n
		}
		if strings.HasPrefix(l, "Error:") && res.Err == "" {
			res.Err = l
			switch {
			case reInv.MatchString(l):
				res.ErrKind, res.ErrName = "invariant", reInv.FindStringSubmatch(l)[1]
			case reActProp.MatchString(l):
				res.ErrKind, res.ErrName = "action-property", reActProp.FindStringSubmatch(l)[1]
			case strings.Contains(l, "Deadlock reached"):
				res.ErrKind = "deadlock"
			case strings.Contains(l, "Temporal properties were violated"):
				res.ErrKind = "temporal"
			case strings.Contains(l, "Postcondition") || strings.Contains(l, "POSTCONDITION"):
				res.ErrKind = "postcondition"
			case strings.Contains(l, "Assumption") && strings.Contains(l, "is false"):
				res.ErrKind = "assumption"
			default:
				res.ErrKind = "other"
			}
		}
		if strings.HasPrefix(l, "Error: The behavior up to this point is:") || strings.HasPrefix(l, "Error: The following behavior constitutes a counter-example") {
			inTrace = true
			continue
		}
		if inTrace {
			if strings.HasPrefix(l, "Finished ") || strings.Contains(l, "states generated") {
				inTrace = false
			} else {
				trace.WriteString(l)
				trace.WriteByte('\n')
			}
		}
	}
	res.ErrTrace = trace.String()
	if run.Simulate != "" && res.Generated == 0 {
		if m := reSimStates.FindStringSubmatch(res.Stdout); m != nil {
			res.Generated, _ = strconv.ParseInt(m[1], 10, 64)
			res.Distinct = res.Generated
		}
	}
	if res.ErrKind == "other" || (res.Exit != 0 && res.ErrKind == "") {
		tail := res.Stdout
		if len(tail) > 4000 {
			tail = tail[len(tail)-4000:]
		}
		return res, fmt.Errorf("tlc %s failed (exit %d): %s\n%s", run.Module, res.Exit, res.Err, tail)
	}
	return res, nil
}

// tlaBalanced reports whether every <<, {, [, ( opened in s (outside string literals) is closed.
func tlaBalanced(s string) bool {
	depth := 0
	inStr := false
	for i := 0; i < len(s); i++ {
		c := s[i]
		if inStr {
			if c == '\\' {
				i++
			} else if c == '"' {
				inStr = false
			}
			continue
		}
		switch {
		case c == '"':
			inStr = true
		case c == '<' && i+1 < len(s) && s[i+1] == '<':
			depth++
			i++
		case c == '>' && i+1 < len(s) && s[i+1] == '>':
			depth--
			i++
		case c == '{' || c == '[' || c == '(':
			depth++
		case c == '}' || c == ']' || c == ')':
			depth--
		}
	}
	return depth <= 0 && !inStr
}

// TraceStates splits a raw TLC counterexample into per-state variable maps (best effort).
func (r *TLCResult) TraceStates() []map[string]any {
	var out []map[string]any
	var cur map[string]any
	var name string
	var val strings.Builder
	flush := func() {
		if cur != nil && name != "" {
			if v, err := ParseTLA(strings.TrimSpace(val.String())); err == nil {
				cur[name] = v
			} else {
				cur[name] = strings.TrimSpace(val.String())
			}
		}
		name = ""
		val.Reset()
	}
	for _, l := range strings.Split(r.ErrTrace, "\n") {
		if strings.HasPrefix(l, "State ") {
			flush()
			cur = map[string]any{"_header": l}
			out = append(out, cur)
			continue
		}
		if cur == nil {
			continue
		}
		if strings.HasPrefix(l, "/\\ ") || (name == "" && strings.Contains(l, " = ") && !strings.HasPrefix(l, " ")) {
			flush()
			t := strings.TrimPrefix(l, "/\\ ")
			if i := strings.Index(t, " = "); i > 0 {
				name = t[:i]
				val.WriteString(t[i+3:])
			}
			continue
		}
		if name != "" {
			val.WriteByte('\n')
			val.WriteString(l)
		}
	}
	flush()
	return out
}
