// Package lib is the shared runtime of every check under /verif/harness/checks.
// It is deliberately small and frozen: checks add helpers in their own package.
package lib

import (
	"crypto/sha256"
	"encoding/json"
	"fmt"
	"math/rand"
	"os"
	"path/filepath"
	"runtime/debug"
	"sort"
	"strconv"
	"sync"
	"time"
)

// InfraError marks a problem of the machinery (exit 2): never a verdict about the code.
type InfraError struct{ Err error }

func (e InfraError) Error() string { return e.Err.Error() }

func Infra(format string, a ...any) error { return InfraError{fmt.Errorf(format, a...)} }

type Finding struct {
	Property string `json:"property"`
	Status   string `json:"status"` // "known" | "fixed"
	Key      string `json:"key"`
	Commit   string `json:"commit,omitempty"`
	What     string `json:"what"`
}

type Ctx struct {
	ID     string
	Tier   string // "quick" | "thorough"
	Seed   int64
	Root   string // /verif
	Repo   string // /repo (or VERIF_REPO)
	Replay string // path given to "replay", else ""
	Start  time.Time
	Level  string
	Rand   *rand.Rand

	mu          sync.Mutex
	cov         map[string]any
	assumptions []string
	samples     []any
	distinct    map[[16]byte]struct{}
	evals       int64
	states      int64
	transitions int64
	traces      int64
	violations  int
	known       []Finding
	knownHit    map[string]int
	nReplay     int
}

func (c *Ctx) Quick() bool    { return c.Tier != "thorough" }
func (c *Ctx) Thorough() bool { return c.Tier == "thorough" }

// Pick returns q in the quick tier and t in the thorough tier.
func (c *Ctx) Pick(q, t int) int {
	if c.Thorough() {
		return t
	}
	return q
}

func (c *Ctx) SpecDir(family string) string { return filepath.Join(c.Root, "spec", family) }

func (c *Ctx) Logf(format string, a ...any) {
	fmt.Fprintf(os.Stderr, "[%s %6.1fs] %s\n", c.ID, time.Since(c.Start).Seconds(), fmt.Sprintf(format, a...))
}

// ---- evidence accumulation

func (c *Ctx) Set(key string, v any) { c.mu.Lock(); c.cov[key] = v; c.mu.Unlock() }
func (c *Ctx) Assume(s string)       { c.mu.Lock(); c.assumptions = append(c.assumptions, s); c.mu.Unlock() }
func (c *Ctx) AddEvals(n int)        { c.mu.Lock(); c.evals += int64(n); c.mu.Unlock() }
func (c *Ctx) AddTraces(n int)       { c.mu.Lock(); c.traces += int64(n); c.mu.Unlock() }

// Inc adds n to an integer counter kept in coverage (e.g. per-action counts).
func (c *Ctx) Inc(key string, n int64) {
	c.mu.Lock()
	old, _ := c.cov[key].(int64)
	c.cov[key] = old + n
	c.mu.Unlock()
}

// Sample records an explored case verbatim (first 6 are kept).
func (c *Ctx) Sample(v any) {
	c.mu.Lock()
	if len(c.samples) < 6 {
		c.samples = append(c.samples, v)
	}
	c.mu.Unlock()
}

// Distinct counts a non-trivial case by the hash of its canonical JSON form.
func (c *Ctx) Distinct(v any) {
	b, _ := json.Marshal(v)
	h := sha256.Sum256(b)
	var k [16]byte
	copy(k[:], h[:16])
	c.mu.Lock()
	c.distinct[k] = struct{}{}
	c.mu.Unlock()
}

// AddTLC adds a TLC run's state counts to the evidence.
func (c *Ctx) AddTLC(name string, r *TLCResult) {
	c.mu.Lock()
	c.states += r.Distinct
	c.transitions += r.Generated
	runs, _ := c.cov["tlc_runs"].([]any)
	entry := map[string]any{"config": name, "states_generated": r.Generated, "distinct": r.Distinct, "depth": r.Depth, "wall_s": r.Wall.Seconds()}
	if len(r.Coverage) > 0 {
		entry["action_coverage"] = r.Coverage
	}
	if len(runs) < 40 {
		c.cov["tlc_runs"] = append(runs, entry)
	}
	c.mu.Unlock()
}

// TLC runs TLC, records its counts, and converts infrastructure failures to InfraError.
func (c *Ctx) TLC(name string, run TLCRun) (*TLCResult, error) {
	if run.Seed == 0 {
		run.Seed = c.Seed
	}
	r, err := RunTLC(run)
	if err != nil {
		return r, InfraError{err}
	}
	c.AddTLC(name, r)
	return r, nil
}

// ---- verdicts

// Reject reports that the real code showed behaviour the specification rejects.
// key identifies the failing case structurally; if known-findings.json lists it as "known"
// it is reported as KNOWN-FINDING, otherwise it is a VIOLATION (exit 1) and replay is stored.
func (c *Ctx) Reject(key, what string, replay any) {
	c.mu.Lock()
	defer c.mu.Unlock()
	for _, f := range c.known {
		if f.Status == "known" && f.Key == key {
			c.knownHit[key]++
			if c.knownHit[key] == 1 {
				fmt.Printf("KNOWN-FINDING: property=%s %s [key=%s]\n", c.ID, f.What, key)
			}
			return
		}
	}
	c.violations++
	if c.violations > 20 {
		return
	}
	dir := filepath.Join(c.Root, "replays", c.ID)
	os.MkdirAll(dir, 0o755)
	c.nReplay++
	path := filepath.Join(dir, fmt.Sprintf("%s-seed%d-%d.json", c.Tier, c.Seed, c.nReplay))
	b, _ := json.MarshalIndent(map[string]any{"property": c.ID, "key": key, "what": what, "seed": c.Seed, "tier": c.Tier, "case": replay}, "", " ")
	os.WriteFile(path, b, 0o644)
	fmt.Printf("VIOLATION property=%s replay=%s\n", c.ID, path)
	fmt.Fprintf(os.Stderr, "  violation detail: key=%s: %s\n", key, what)
}

func (c *Ctx) Violations() int { c.mu.Lock(); defer c.mu.Unlock(); return c.violations }

// IsKnown tells whether key is listed as a known (unrepaired) finding for this property.
func (c *Ctx) IsKnown(key string) bool {
	for _, f := range c.known {
		if f.Status == "known" && f.Key == key {
			return true
		}
	}
	return false
}

// KnownKeys lists the keys of known findings for this property (for directed probes).
func (c *Ctx) KnownKeys() []string {
	var out []string
	for _, f := range c.known {
		if f.Status == "known" {
			out = append(out, f.Key)
		}
	}
	return out
}

func loadFindings(root, id string) ([]Finding, error) {
	b, err := os.ReadFile(filepath.Join(root, "known-findings.json"))
	if os.IsNotExist(err) {
		return nil, nil
	}
	if err != nil {
		return nil, err
	}
	var all []Finding
	if err := json.Unmarshal(b, &all); err != nil {
		return nil, fmt.Errorf("known-findings.json: %v", err)
	}
	var out []Finding
	for _, f := range all {
		if f.Property == id {
			out = append(out, f)
		}
	}
	return out, nil
}

func (c *Ctx) writeEvidence() error {
	c.mu.Lock()
	defer c.mu.Unlock()
	cov := map[string]any{}
	for k, v := range c.cov {
		cov[k] = v
	}
	cov["evaluations"] = c.evals
	cov["distinct_nontrivial"] = len(c.distinct)
	cov["samples"] = c.samples
	cov["states"] = c.states
	cov["transitions"] = c.transitions
	cov["traces_validated_against_impl"] = c.traces
	if _, ok := cov["rule"]; !ok {
		cov["rule"] = "cases are hashed after projection to the abstract form; trivial (identity / empty) cases are not counted"
	}
	var hits []string
	for k := range c.knownHit {
		hits = append(hits, k)
	}
	sort.Strings(hits)
	if hits == nil {
		hits = []string{}
	}
	cov["known_findings_reproduced"] = hits
	if c.assumptions == nil {
		c.assumptions = []string{}
	}
	if c.samples == nil {
		c.samples = []any{}
	}
	ev := map[string]any{
		"property_id": c.ID, "tier": c.Tier, "seed": c.Seed, "level": c.Level,
		"coverage": cov, "assumptions": c.assumptions,
		"wall_s": time.Since(c.Start).Seconds(), "violations": c.violations,
	}
	b, err := json.MarshalIndent(ev, "", " ")
	if err != nil {
		return err
	}
	dir := filepath.Join(c.Root, "evidence")
	os.MkdirAll(dir, 0o755)
	return os.WriteFile(filepath.Join(dir, c.ID+".json"), append(b, '\n'), 0o644)
}

// Main is the entry point of every check binary:  <bin> quick|thorough   or   <bin> replay <path>.
func Main(id string, run func(c *Ctx) error) {
	c := &Ctx{ID: id, Tier: "quick", Start: time.Now(), Level: "model_checking",
		cov: map[string]any{}, distinct: map[[16]byte]struct{}{}, knownHit: map[string]int{}}
	c.Root = os.Getenv("VERIF_ROOT")
	if c.Root == "" {
		c.Root = "/verif"
	}
	c.Repo = os.Getenv("VERIF_REPO")
	if c.Repo == "" {
		c.Repo = "/repo"
	}
	if t := os.Getenv("VERIF_TIER"); t == "quick" || t == "thorough" {
		c.Tier = t
	}
	args := os.Args[1:]
	if len(args) >= 1 {
		switch args[0] {
		case "quick", "thorough":
			c.Tier = args[0]
		case "replay":
			if len(args) < 2 {
				fmt.Fprintln(os.Stderr, "replay needs a path")
				os.Exit(2)
			}
			c.Replay = args[1]
		}
	}
	c.Seed = 1
	if s := os.Getenv("VERIF_SEED"); s != "" {
		if n, err := strconv.ParseInt(s, 10, 64); err == nil {
			c.Seed = n
		}
	}
	c.Rand = rand.New(rand.NewSource(c.Seed))
	if os.Getenv("VERIF_SUPERVISED") == "" && c.Replay == "" && os.Getenv("VERIF_NO_SUPERVISOR") == "" {
		supervise(id, c.Tier, c.Seed, c.Root) // runs the check as a child; does not return
	}
	var err error
	c.known, err = loadFindings(c.Root, id)
	if err != nil {
		fmt.Fprintln(os.Stderr, "INFRA:", err)
		os.Exit(2)
	}
	func() {
		defer func() {
			if r := recover(); r != nil {
				err = Infra("panic in check driver: %v\n%s", r, debug.Stack())
			}
		}()
		err = run(c)
	}()
	if werr := c.writeEvidence(); werr != nil && err == nil {
		err = Infra("writing evidence: %v", werr)
	}
	if c.violations > 0 {
		fmt.Fprintf(os.Stderr, "[%s] %d violation(s)\n", id, c.violations)
		os.Exit(1)
	}
	if err != nil {
		fmt.Fprintf(os.Stderr, "INFRA property=%s: %v\n", id, err)
		os.Exit(2)
	}
	fmt.Printf("OK property=%s tier=%s seed=%d wall=%.1fs\n", id, c.Tier, c.Seed, time.Since(c.Start).Seconds())
}
