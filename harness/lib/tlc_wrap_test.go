package lib

import (
	"os"
	"testing"
)

func TestWrappedPrint(t *testing.T) {
	dir := t.TempDir()
	spec := "---- MODULE P ----\nEXTENDS TLC, Sequences\nASSUME PrintT(<<\"BAD\", 3, \"aaaaaaaaaaaaaaaaaaaaaaaaaaaaaaaaaaaaaaaaaaaaaaaaaaaaaaaaaaaaaaaaaaaaaaaaaaaaaaaaaaaaaaaaaaaaaaaaaaaaaaaa\", [a |-> <<1,2,3>>, b |-> \"x y >> z\"], {1,2,3}>>)\nASSUME PrintT(<<\"BAD\", 4, <<>>, \"s\">>)\nVARIABLE x\nInit == x = 0\nNext == x' = x\n====\n"
	os.WriteFile(dir+"/P.tla", []byte(spec), 0o644)
	os.WriteFile(dir+"/P.cfg", []byte("INIT Init\nNEXT Next\n"), 0o644)
	r, err := RunTLC(TLCRun{Dir: dir, Module: "P"})
	if err != nil {
		t.Fatal(err)
	}
	got := r.Tagged("BAD")
	if len(got) != 2 {
		t.Fatalf("want 2 BAD tuples, got %d: %v", len(got), r.Printed)
	}
	if got[0][0].(int64) != 3 || len(got[0]) != 4 {
		t.Fatalf("bad parse: %v", got[0])
	}
}
