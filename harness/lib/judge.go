package lib

import (
	"bytes"
	"encoding/json"
	"fmt"
	"runtime"
	"sort"
	"sync"
	"time"
)

// NDJSON serialises values one per line.
func NDJSON[T any](items []T) []byte {
	var buf bytes.Buffer
	enc := json.NewEncoder(&buf)
	enc.SetEscapeHTML(false)
	for _, it := range items {
		enc.Encode(it)
	}
	return buf.Bytes()
}

type BadCase struct {
	Index int   // index into the slice given to Judge
	Info  []any // what the spec printed after the index
}

// Judge hands recorded cases (input + what the real code did) to a TLA+ "case walker" module:
//
//	Cases == ndJsonDeserialize("cases.ndjson")
//	VARIABLE k      Init == k = 0      Next == k < Len(Cases) /\ k' = k + 1
//	Inv == k = 0 \/ CaseOK(Cases[k]) \/ PrintT(<<"BAD", k, Why(Cases[k])>>)
//
// The module never fails; it prints the rejected indices. Cases are split over `par` TLC processes.
// Every TLC state is one judged case; the counts are added to the evidence.
func Judge[T any](c *Ctx, name, dir, module string, cases []T, par int, timeout time.Duration) ([]BadCase, error) {
	if len(cases) == 0 {
		return nil, nil
	}
	if par <= 0 {
		par = runtime.NumCPU() / 2
	}
	chunk := (len(cases) + par - 1) / par
	if chunk < 200 {
		chunk = 200
	}
	type job struct{ lo, hi int }
	var jobs []job
	for lo := 0; lo < len(cases); lo += chunk {
		hi := lo + chunk
		if hi > len(cases) {
			hi = len(cases)
		}
		jobs = append(jobs, job{lo, hi})
	}
	var mu sync.Mutex
	var bad []BadCase
	var firstErr error
	sem := make(chan struct{}, par)
	var wg sync.WaitGroup
	for _, j := range jobs {
		wg.Add(1)
		sem <- struct{}{}
		go func(j job) {
			defer wg.Done()
			defer func() { <-sem }()
			r, err := c.TLC(name, TLCRun{Dir: dir, Module: module, Workers: 1, Timeout: timeout, HeapGB: 3,
				Files: map[string][]byte{"cases.ndjson": NDJSON(cases[j.lo:j.hi])}})
			mu.Lock()
			defer mu.Unlock()
			if err != nil {
				if firstErr == nil {
					firstErr = err
				}
				return
			}
			if r.ErrKind != "" {
				if firstErr == nil {
					firstErr = Infra("judge %s reported %s (%s): judges must print BAD lines, not fail", module, r.ErrKind, r.Err)
				}
				return
			}
			if r.Distinct != int64(j.hi-j.lo)+1 {
				if firstErr == nil {
					firstErr = Infra("judge %s walked %d states for %d cases", module, r.Distinct, j.hi-j.lo)
				}
				return
			}
			for _, t := range r.Tagged("BAD") {
				if len(t) < 1 {
					continue
				}
				k, ok := t[0].(int64)
				if !ok {
					continue
				}
				bad = append(bad, BadCase{Index: j.lo + int(k) - 1, Info: t[1:]})
			}
		}(j)
	}
	wg.Wait()
	if firstErr != nil {
		return nil, firstErr
	}
	sort.Slice(bad, func(a, b int) bool { return bad[a].Index < bad[b].Index })
	return bad, nil
}

// TraceVerdict is the outcome of validating one recorded trace file against a Trace*.tla module.
type TraceVerdict struct {
	Accepted  bool
	HighWater int // number of trace lines matched (longest prefix)
	Len       int
	InvName   string // invariant violated in an inferred state, if any
	Result    *TLCResult
}

// ValidateTrace checks that the recorded events are a behaviour of the trace specification.
// Contract for the module: it reads "trace.ndjson", has a position variable l starting at 1, keeps
// a high-water mark with  HW == TLCSet(1, Max(TLCGet(1), l))  as CONSTRAINT, and a POSTCONDITION
// that prints <<"HW", TLCGet(1)>> and requires TLCGet(1) = Len(Trace) + 1.
// A violated invariant in an inferred state is a rejection too (InvName set).
func ValidateTrace[T any](c *Ctx, name, dir, module string, events []T, timeout time.Duration) (*TraceVerdict, error) {
	r, err := RunTLC(TLCRun{Dir: dir, Module: module, Workers: 1, DFS: true, Timeout: timeout, HeapGB: 6,
		Files: map[string][]byte{"trace.ndjson": NDJSON(events)}})
	v := &TraceVerdict{Len: len(events), Result: r}
	if err != nil {
		return v, InfraError{err}
	}
	c.AddTLC(name, r)
	for _, t := range r.Tagged("HW") {
		if n, ok := t[0].(int64); ok {
			v.HighWater = int(n) - 1
		}
	}
	switch r.ErrKind {
	case "":
		v.Accepted = v.HighWater == len(events)
		if !v.Accepted {
			return v, Infra("trace spec %s: no error but high-water %d of %d", module, v.HighWater, len(events))
		}
	case "postcondition":
		v.Accepted = false
	case "invariant", "action-property":
		v.Accepted = false
		v.InvName = r.ErrName
	default:
		return v, Infra("trace spec %s: unexpected TLC outcome %s: %s", module, r.ErrKind, r.Err)
	}
	return v, nil
}

// Parallel runs f(i) for i in [0,n) on up to par goroutines.
func Parallel(n, par int, f func(i int)) {
	if par <= 0 {
		par = runtime.NumCPU()
	}
	sem := make(chan struct{}, par)
	var wg sync.WaitGroup
	for i := 0; i < n; i++ {
		wg.Add(1)
		sem <- struct{}{}
		go func(i int) {
			defer wg.Done()
			defer func() { <-sem }()
			f(i)
		}(i)
	}
	wg.Wait()
}

// Must turns an error into a panic that Main reports as an infrastructure failure.
func Must(err error) {
	if err != nil {
		panic(fmt.Sprintf("%v", err))
	}
}

// JudgeGroups is Judge for stateful walkers: every group (e.g. one history, starting with its own
// Reset event) is kept inside one TLC process. BadCase.Index is the index into the flattened list.
func JudgeGroups[T any](c *Ctx, name, dir, module string, groups [][]T, par int, timeout time.Duration) ([]BadCase, error) {
	if par <= 0 {
		par = runtime.NumCPU() / 2
	}
	total := 0
	for _, g := range groups {
		total += len(g)
	}
	if total == 0 {
		return nil, nil
	}
	target := (total + par - 1) / par
	if target < 300 {
		target = 300
	}
	type chunk struct {
		items []T
		base  int
	}
	var chunks []chunk
	cur := chunk{}
	off := 0
	for _, g := range groups {
		if len(cur.items) > 0 && len(cur.items)+len(g) > target {
			chunks = append(chunks, cur)
			cur = chunk{base: off}
		}
		cur.items = append(cur.items, g...)
		off += len(g)
	}
	if len(cur.items) > 0 {
		chunks = append(chunks, cur)
	}
	var mu sync.Mutex
	var bad []BadCase
	var firstErr error
	Parallel(len(chunks), par, func(i int) {
		ch := chunks[i]
		r, err := c.TLC(name, TLCRun{Dir: dir, Module: module, Workers: 1, Timeout: timeout, HeapGB: 3,
			Files: map[string][]byte{"cases.ndjson": NDJSON(ch.items)}})
		mu.Lock()
		defer mu.Unlock()
		if err != nil {
			if firstErr == nil {
				firstErr = err
			}
			return
		}
		if r.ErrKind != "" {
			if firstErr == nil {
				firstErr = Infra("judge %s reported %s (%s): judges must print BAD lines, not fail\n%s", module, r.ErrKind, r.Err, r.ErrTrace)
			}
			return
		}
		if r.Distinct != int64(len(ch.items))+1 {
			if firstErr == nil {
				firstErr = Infra("judge %s walked %d states for %d cases", module, r.Distinct, len(ch.items))
			}
			return
		}
		for _, t := range r.Tagged("BAD") {
			if len(t) < 1 {
				continue
			}
			if k, ok := t[0].(int64); ok {
				bad = append(bad, BadCase{Index: ch.base + int(k) - 1, Info: t[1:]})
			}
		}
	})
	if firstErr != nil {
		return nil, firstErr
	}
	sort.Slice(bad, func(a, b int) bool { return bad[a].Index < bad[b].Index })
	return bad, nil
}
