package lib

// Supervision of the check process.  A panic of the real code on a goroutine the driver did not
// start (a pipeline stage, a daemon handler, a worker of peach ...) cannot be recovered by the
// driver and kills the process with the Go runtime's exit status 2 -- which is also the status for
// "infrastructure problem, no verdict".  So the check runs as a child of a thin supervisor that
// keeps the tail of its stderr: when the child dies from an unrecovered panic (or a fatal
// "concurrent map" error) whose innermost non-runtime frames belong to the code under test
// (src.elv.sh/..., or a library it called) and not to verif.local/..., the crash is a behaviour
// of the real code on an in-scope input and is reported as a VIOLATION (key crash:unrecovered:<func>)
// with the trace as replay file.  Every other abnormal end stays exit 2.

import (
	"encoding/json"
	"fmt"
	"io"
	"os"
	"os/exec"
	"os/signal"
	"path/filepath"
	"runtime"
	"strings"
	"sync"
	"syscall"
	"time"
)

type tailBuf struct {
	mu  sync.Mutex
	buf []byte
	max int
}

func (t *tailBuf) Write(p []byte) (int, error) {
	t.mu.Lock()
	t.buf = append(t.buf, p...)
	if len(t.buf) > 2*t.max {
		t.buf = append([]byte{}, t.buf[len(t.buf)-t.max:]...)
	}
	t.mu.Unlock()
	return len(p), nil
}

// frameFn strips the argument list from a frame line of a goroutine dump.
func frameFn(l string) string {
	l = strings.TrimSpace(l)
	if !strings.HasSuffix(l, ")") {
		return l
	}
	depth := 0
	for i := len(l) - 1; i >= 0; i-- {
		switch l[i] {
		case ')':
			depth++
		case '(':
			depth--
			if depth == 0 {
				return l[:i]
			}
		}
	}
	return l
}

// CrashOfRealCode inspects the stderr tail of a dead check process.  ok is true only when the
// process ended by an unrecovered Go panic / fatal map error and the innermost frame that belongs
// to either the code under test or the harness belongs to the code under test.
func CrashOfRealCode(stderr string) (fn, head, trace string, ok bool) {
	i := strings.LastIndex(stderr, "\npanic: ")
	j := strings.LastIndex(stderr, "\nfatal error: concurrent map")
	if strings.HasPrefix(stderr, "panic: ") && i < 0 {
		i = 0
	}
	if j > i {
		i = j
	}
	if i < 0 {
		return "", "", "", false
	}
	trace = strings.TrimLeft(stderr[i:], "\n")
	lines := strings.Split(trace, "\n")
	head = lines[0]
	// the goroutine that crashed is the first one listed ("[running]" for a panic)
	k := 0
	for k < len(lines) && !strings.HasPrefix(lines[k], "goroutine ") {
		k++
	}
	if k == len(lines) {
		return "", head, trace, false
	}
	for _, l := range lines[k+1:] {
		if l == "" {
			break // end of the first goroutine
		}
		if strings.HasPrefix(l, "\t") || strings.HasPrefix(l, "created by ") {
			continue
		}
		switch {
		case strings.HasPrefix(l, "verif.local/") || strings.HasPrefix(l, "main."):
			return "", head, trace, false // the driver's own code is innermost: no verdict
		case strings.HasPrefix(l, "src.elv.sh/"):
			return frameFn(l), head, trace, true
		}
	}
	return "", head, trace, false
}

// supervise runs this executable again as the real check and never returns.
func supervise(id, tier string, seed int64, root string) {
	runtime.LockOSThread() // Pdeathsig is tied to the creating thread
	exe, err := os.Executable()
	if err != nil {
		exe = os.Args[0]
	}
	tail := &tailBuf{max: 1 << 20}
	cmd := exec.Command(exe, os.Args[1:]...)
	cmd.Env = append(os.Environ(), "VERIF_SUPERVISED=1")
	cmd.Stdin, cmd.Stdout = os.Stdin, os.Stdout
	cmd.Stderr = io.MultiWriter(os.Stderr, tail)
	cmd.SysProcAttr = &syscall.SysProcAttr{Pdeathsig: syscall.SIGKILL}
	start := time.Now()
	if err := cmd.Start(); err != nil {
		fmt.Fprintf(os.Stderr, "INFRA property=%s: cannot start the check process: %v\n", id, err)
		os.Exit(2)
	}
	sig := make(chan os.Signal, 4)
	signal.Notify(sig, syscall.SIGTERM, syscall.SIGINT, syscall.SIGHUP)
	go func() {
		for s := range sig {
			cmd.Process.Signal(s)
		}
	}()
	err = cmd.Wait()
	if err == nil {
		os.Exit(0)
	}
	ee, isExit := err.(*exec.ExitError)
	if !isExit {
		fmt.Fprintf(os.Stderr, "INFRA property=%s: %v\n", id, err)
		os.Exit(2)
	}
	ws, _ := ee.Sys().(syscall.WaitStatus)
	if ws.Signaled() {
		fmt.Fprintf(os.Stderr, "INFRA property=%s: the check process was ended by signal %v\n", id, ws.Signal())
		os.Exit(2)
	}
	code := ee.ExitCode()
	if code != 2 {
		os.Exit(code)
	}
	tail.mu.Lock()
	text := string(tail.buf)
	tail.mu.Unlock()
	if strings.Contains(text, "INFRA property="+id) {
		os.Exit(2)
	}
	fn, head, trace, ok := CrashOfRealCode(text)
	if !ok {
		os.Exit(2)
	}
	key := "crash:unrecovered:" + fn
	dir := filepath.Join(root, "replays", id)
	os.MkdirAll(dir, 0o755)
	path := filepath.Join(dir, fmt.Sprintf("%s-seed%d-crash.txt", tier, seed))
	if len(trace) > 200000 {
		trace = trace[:200000]
	}
	os.WriteFile(path, []byte("key="+key+"\n"+trace), 0o644)
	// evidence: the run did not complete; say so (level "other" with an explanation)
	ev := map[string]any{"property_id": id, "tier": tier, "seed": seed, "level": "other", "wall_s": time.Since(start).Seconds(), "violations": 1,
		"assumptions": []string{},
		"coverage": map[string]any{"explanation": "the run was aborted by an unrecovered panic of the code under test (" + head + " in " + fn + "); counts of the aborted run are not available",
			"evaluations": 0, "distinct_nontrivial": 0, "rule": "aborted run", "samples": []any{head}}}
	if b, err := json.MarshalIndent(ev, "", " "); err == nil {
		os.MkdirAll(filepath.Join(root, "evidence"), 0o755)
		os.WriteFile(filepath.Join(root, "evidence", id+".json"), b, 0o644)
	}
	fmt.Printf("VIOLATION property=%s replay=%s\n", id, path)
	fmt.Fprintf(os.Stderr, "  violation detail: key=%s: the code under test crashed the process on a goroutine the driver cannot guard: %s (innermost frame of the code under test: %s)\n[%s] 1 violation(s)\n", key, head, fn, id)
	os.Exit(1)
}
