module verif.local/harness

go 1.22

require src.elv.sh v0.0.0

replace src.elv.sh => /repo
