module verif.local/harness

go 1.22

require (
	go.etcd.io/bbolt v1.3.10
	golang.org/x/sys v0.24.0
	src.elv.sh v0.0.0
)

require (
	github.com/mattn/go-isatty v0.0.20 // indirect
	golang.org/x/sync v0.8.0 // indirect
)

replace src.elv.sh => /repo
