// Package histx holds helpers shared by the history checks C29, C25 and C26 (owned by their author;
// storex and lib are frozen).
package histx

import (
	"os"
	"path/filepath"
	"strings"

	"verif.local/harness/lib"
)

// SpecDir assembles a scratch specification directory <tmp>/spec/<family> holding the family's
// files plus the named extra modules (paths relative to /verif/spec, e.g. "HistStore/HistStore.tla"),
// and <tmp>/spec/common. lib.TLCRun / lib.JudgeGroups / lib.ValidateTrace copy exactly one directory,
// so modules that EXTEND a module of another family are run from such an assembled directory.
// The caller removes the returned root.
func SpecDir(c *lib.Ctx, family string, extra ...string) (dir, root string, err error) {
	root, err = os.MkdirTemp("", "vspec-")
	if err != nil {
		return "", "", err
	}
	dir = filepath.Join(root, "spec", family)
	if err = os.MkdirAll(dir, 0o755); err != nil {
		return
	}
	if err = os.MkdirAll(filepath.Join(root, "spec", "common"), 0o755); err != nil {
		return
	}
	cp := func(src, dstDir string) error {
		ents, err := os.ReadDir(src)
		if err != nil {
			return err
		}
		for _, e := range ents {
			n := e.Name()
			if e.IsDir() || !(strings.HasSuffix(n, ".tla") || strings.HasSuffix(n, ".cfg")) {
				continue
			}
			b, err := os.ReadFile(filepath.Join(src, n))
			if err != nil {
				return err
			}
			if err := os.WriteFile(filepath.Join(dstDir, n), b, 0o644); err != nil {
				return err
			}
		}
		return nil
	}
	if err = cp(c.SpecDir(family), dir); err != nil {
		return
	}
	if st, e := os.Stat(c.SpecDir("common")); e == nil && st.IsDir() {
		if err = cp(c.SpecDir("common"), filepath.Join(root, "spec", "common")); err != nil {
			return
		}
	}
	for _, x := range extra {
		var b []byte
		b, err = os.ReadFile(filepath.Join(c.Root, "spec", x))
		if err != nil {
			return
		}
		if err = os.WriteFile(filepath.Join(dir, filepath.Base(x)), b, 0o644); err != nil {
			return
		}
	}
	return dir, root, nil
}
