package histx

import (
	"fmt"
	"os"
	"path/filepath"
	"time"

	"src.elv.sh/pkg/daemon"
)

// StartDaemon runs the real storage daemon (daemon.Serve) in this process on a socket and database
// inside dir and returns the socket path and a function that shuts it down.
func StartDaemon(dir string) (sock string, stop func(), err error) {
	sock, db := filepath.Join(dir, "sock"), filepath.Join(dir, "db")
	ready := make(chan struct{})
	sig := make(chan os.Signal)
	done := make(chan int, 1)
	go func() { done <- daemon.Serve(sock, db, daemon.ServeOpts{Ready: ready, Signals: sig}) }()
	select {
	case <-ready:
	case code := <-done:
		return "", nil, fmt.Errorf("daemon.Serve returned %d before being ready", code)
	case <-time.After(60 * time.Second):
		return "", nil, fmt.Errorf("daemon not ready after 60s")
	}
	return sock, func() {
		close(sig)
		select {
		case <-done:
		case <-time.After(60 * time.Second):
		}
	}, nil
}
