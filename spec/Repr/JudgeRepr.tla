------------------------------ MODULE JudgeRepr ------------------------------
(* Case walker for C04 (one TLC state per recorded case).  A case is one abstract value v and what
   the real code did with it in several runs; every run builds v afresh (another insertion order /
   construction history for every map inside v), prints it with vals.ReprPlain and vals.Repr(v, 0),
   evaluates both texts with the real Evaler and projects the results back to abstract values:
     [id, v, runs : << [ord, plain, pretty, bp, bq] >>]
   plain / pretty are the printed texts (hex strings: TLC compares strings, it need not index
   them), bp / bq the values read back from them ([k |-> "error"] when evaluation failed or did not
   give exactly one value).  JSON arrays arrive as sequences: Norm turns `ps` back into a set.

   Accepted iff  Valid(v)  (otherwise the generator is defective: reason "illformed", an
   infrastructure problem, never a verdict),  RTOK(v, bp) and RTOK(v, bq) in every run, and the
   plain texts of all runs are one text, and so are the pretty texts (TextFunctional).
   A rejected case prints <<"BAD", k, reason, TieClass(v), run index>>. *)
EXTENDS Repr, TLC, Json
Cases == ndJsonDeserialize("cases.ndjson")
VARIABLE k
Init == k = 0
Next == k < Len(Cases) /\ k' = k + 1

RECURSIVE Norm(_)
Norm(j) == [k  |-> j.k, a |-> j.a,
            es |-> [i \in 1..Len(j.es) |-> Norm(j.es[i])],
            ps |-> {<<Norm(j.ps[i][1]), Norm(j.ps[i][2])>> : i \in 1..Len(j.ps)}]

\* a map given with two entries for one key (modulo RT) loses an entry in Norm: ill-formed input
RECURSIVE NoLoss(_)
NoLoss(j) == /\ \A i \in 1..Len(j.es) : NoLoss(j.es[i])
             /\ \A i \in 1..Len(j.ps) : NoLoss(j.ps[i][1]) /\ NoLoss(j.ps[i][2])
             /\ Cardinality({<<Norm(j.ps[i][1]), Norm(j.ps[i][2])>> : i \in 1..Len(j.ps)}) = Len(j.ps)

FirstBad(c) ==
  LET v  == Norm(c.v)
      R  == 1..Len(c.runs)
      bp == {i \in R : ~RTOK(v, Norm(c.runs[i].bp))}
      bq == {i \in R : ~RTOK(v, Norm(c.runs[i].bq))}
      Min(S) == CHOOSE i \in S : \A j \in S : i <= j
  IN IF ~(NoLoss(c.v) /\ Valid(v)) THEN <<"illformed", 0>>
     ELSE IF bp # {} THEN <<"roundtrip-plain", Min(bp)>>
     ELSE IF bq # {} THEN <<"roundtrip-pretty", Min(bq)>>
     ELSE IF ~TextFunctional([i \in R |-> c.runs[i].plain]) THEN <<"order-plain", 0>>
     ELSE IF ~TextFunctional([i \in R |-> c.runs[i].pretty]) THEN <<"order-pretty", 0>>
     ELSE <<"ok", 0>>

CaseOK(c) == FirstBad(c)[1] = "ok"
Inv == k = 0 \/ CaseOK(Cases[k])
         \/ PrintT(<<"BAD", k, FirstBad(Cases[k])[1], TieClass(Norm(Cases[k].v)), FirstBad(Cases[k])[2]>>)
=============================================================================
