------------------------------ MODULE JudgeRepr ------------------------------
(* Case walker for C04 (one TLC state per recorded case).  A case is one abstract value v and what
   the real code did with it in several runs; every run builds v afresh (another insertion order /
   construction history for every map inside v), prints it with vals.ReprPlain and vals.Repr(v, 0),
   evaluates both texts with the real Evaler and projects the results back to abstract values:
     [id, chk, v, backs : << value >>, runs : << [ords, plain, pretty, bp, bq, eqp, eqq] >>]
   plain / pretty are the printed texts (hex strings: TLC compares strings, it need not index
   them); bp / bq index into `backs`, the distinct values read back ([k |-> "error"] when the
   evaluation failed or did not give exactly one value); eqp / eqq are what the real `eq`
   (vals.Equal) said about the original and the value read back.  Runs with identical records are
   merged (ords lists their histories).

   JSON form of values: atoms {k, a}, lists {k, es}, maps {k, ps : [[key, value] ...]} with the
   entries of every map sorted by their JSON text (a canonical listing of the set; the executor
   builds from TLC's / the generator's own order).  Norm turns the JSON form into Repr.tla's
   records with `ps` a set.  Because RT is reflexive on well-formed values (checked by MCRepr on
   its value set, by MCReprGen on every value it emits, and here when chk is set), a read-back
   value whose canonical JSON form is identical to v's is accepted without unfolding RT.

   Accepted iff  chk => NoLoss(v) /\ Valid(v) /\ RT(v, v)  (otherwise the random generator is
   defective: reason "illformed", an infrastructure problem, never a verdict),  every read-back
   value is RT-related to v, the real `eq` holds between original and read-back value when v is
   NaN-free (the literal statement), and the plain texts of all runs are one text and so are the
   pretty texts (TextFunctional).
   A rejected case prints <<"BAD", k, reason, TieClass(v), run index>>. *)
EXTENDS Repr, TLC, Json
Cases == ndJsonDeserialize("cases.ndjson")
VARIABLE k
Init == k = 0
Next == k < Len(Cases) /\ k' = k + 1

RECURSIVE Norm(_)
Norm(j) == IF j.k = "list" THEN List([i \in 1..Len(j.es) |-> Norm(j.es[i])])
           ELSE IF j.k = "map" THEN Map({<<Norm(j.ps[i][1]), Norm(j.ps[i][2])>> : i \in 1..Len(j.ps)})
           ELSE Atom(j.k, j.a)

\* a map given with two entries for one key loses an entry in Norm: ill-formed input
RECURSIVE NoLoss(_)
NoLoss(j) == IF j.k = "list" THEN \A i \in 1..Len(j.es) : NoLoss(j.es[i])
             ELSE IF j.k = "map" THEN
                  /\ \A i \in 1..Len(j.ps) : NoLoss(j.ps[i][1]) /\ NoLoss(j.ps[i][2])
                  /\ Cardinality({Norm(j.ps[i][1]) : i \in 1..Len(j.ps)}) = Len(j.ps)
             ELSE TRUE

BackOK(c, i) == c.backs[i] = c.v \/ RTOK(Norm(c.v), Norm(c.backs[i]))

FirstBad(c) ==
  LET R  == 1..Len(c.runs)
      bp == {i \in R : ~BackOK(c, c.runs[i].bp)}
      bq == {i \in R : ~BackOK(c, c.runs[i].bq)}
      ne == {i \in R : ~(c.runs[i].eqp /\ c.runs[i].eqq)}
      Min(S) == CHOOSE i \in S : \A j \in S : i <= j
  IN IF c.chk /\ ~(NoLoss(c.v) /\ Valid(Norm(c.v)) /\ RT(Norm(c.v), Norm(c.v))) THEN <<"illformed", 0>>
     ELSE IF bp # {} THEN <<"roundtrip-plain", Min(bp)>>
     ELSE IF bq # {} THEN <<"roundtrip-pretty", Min(bq)>>
     ELSE IF ne # {} /\ NaNFree(Norm(c.v)) THEN <<"eq-real", Min(ne)>>
     ELSE IF ~TextFunctional([i \in R |-> c.runs[i].plain]) THEN <<"order-plain", 0>>
     ELSE IF ~TextFunctional([i \in R |-> c.runs[i].pretty]) THEN <<"order-pretty", 0>>
     ELSE <<"ok", 0>>

CaseOK(c) == FirstBad(c)[1] = "ok"
Inv == k = 0 \/ CaseOK(Cases[k])
         \/ PrintT(<<"BAD", k, FirstBad(Cases[k])[1], TieClass(Norm(Cases[k].v)), FirstBad(Cases[k])[2]>>)
=============================================================================
