----------------------------- MODULE MCReprOrder -----------------------------
(* M for C04, design level: why the entry order of a printed map can depend on insertion order.
   Code-shaped model of vals.reprMap over three keys, each with two attributes that the real code
   computes: rank (its position in the total preorder of vals.CmpTotal) and hash (vals.Hash).
     Iterate(ins)  the persistent hash map hands out entries grouped by hash; entries whose hashes
                   collide sit in one collision node in insertion order
     Print(ins)    reprMap collects the pairs in iteration order and sorts them by rank; a sort can
                   only keep or permute entries of equal rank -- modelled as keeping them (the
                   sorting algorithm is deterministic, so any fixed choice shows the same effect)
   Functional (the property of C04 restricted to entry order): Print does not depend on ins.
   TLC checks  Characterised:  Functional  <=>  no two distinct keys agree in rank AND hash.
   So the design admits exactly one bad class: two keys that are not eq, rank equal under
   `compare &total`, and collide in hash.  This is a CANDIDATE from the model; the executor
   replays it on the real code with the keys (num 0) / (num 0.0) (probe cases of checks/c04). *)
EXTENDS Integers, Sequences, FiniteSets
VARIABLES rank, hash

K == 1..3
Perms == {p \in [K -> K] : \A i, j \in K : i # j => p[i] # p[j]}      \* insertion orders

\* stable insertion sort of a sequence of keys by an integer attribute f
RECURSIVE Ins(_, _, _, _)
Ins(s, x, f, i) == IF i = Len(s) THEN Append(s, x)
                   ELSE IF f[x] < f[s[i + 1]] THEN SubSeq(s, 1, i) \o <<x>> \o SubSeq(s, i + 1, Len(s))
                   ELSE Ins(s, x, f, i + 1)
RECURSIVE SortBy(_, _, _, _)
SortBy(s, acc, f, i) == IF i > Len(s) THEN acc ELSE SortBy(s, Ins(acc, s[i], f, 0), f, i + 1)

Iterate(ins) == SortBy(ins, <<>>, hash, 1)
Print(ins)   == SortBy(Iterate(ins), <<>>, rank, 1)

Init == rank \in [K -> 1..2] /\ hash \in [K -> 1..2]
Next == UNCHANGED <<rank, hash>>

Functional    == \A p, q \in Perms : Print(p) = Print(q)
TieAndCollide == \E i, j \in K : i # j /\ rank[i] = rank[j] /\ hash[i] = hash[j]
Characterised == Functional <=> ~TieAndCollide
=============================================================================
