CONSTANT Full = FALSE
INIT Init
NEXT Next
INVARIANT AllValid
INVARIANT RTReflexive
INVARIANT EqReflexive
INVARIANT PairLaws
INVARIANT Transitive
