CONSTANT Fam = 0
CONSTANT Wide = FALSE
INIT Init
NEXT Next
INVARIANT WellFormed
INVARIANT Emit
