CONSTANT Fams = {0, 1}
CONSTANT Wide = FALSE
INIT Init
NEXT Next
INVARIANT WellFormed
INVARIANT Emit
