CONSTANT Level = 0
INIT Init
NEXT Next
INVARIANT WellFormed
INVARIANT Emit
