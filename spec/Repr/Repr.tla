-------------------------------- MODULE Repr --------------------------------
(* C04 -- "repr output evaluates back to an equal value".

   What is modelled.  The *values* of the property statement ($nil, booleans, strings, typed
   numbers, lists, maps, nested) as abstract terms, the documented equality `eq` on them (EqDoc),
   the round-trip relation the statement demands (RT: eq, every number keeps its type, NaN reads
   back as NaN) and the requirement that the printed text is a FUNCTION of the abstract value
   (TextFunctional: a map is a *set* of pairs, therefore the way it was built cannot show).

   Abstract values (uniform record shape, so that TLC can compare any two of them):
       [k |-> "nil" | "bool" | "str" | "num" | "list" | "map",
        a |-> atom name ("" for containers),  es |-> <<elements>>,  ps |-> {<<key, value>>}]
   Atoms are NAMES: TLC has no floats, no bignums and cannot index strings.
     - string atoms are classes ("s:tab", "s:bad" = invalid UTF-8, ...); the executor picks a
       representative byte string per class and case (same atom => same string within a case,
       different atoms => different strings);
     - number atoms carry two attributes: NumCls (representation class int / bigint / rat / float;
       the first three are exact) and NumVal (identity of the numeric value inside its class:
       f:+0.0 and f:-0.0 are the same value for `eq`, NaN is a value that is not eq to itself).
       The numeric text of an atom is not derived here (that is C05's subject).
     - kind "dnum": a number drawn at random by the executor for one case (never zero, NaN or an
       infinity, pairwise different numeric values within the case), identified by its name; the
       executor's projection gives the name back only for a value of identical representation
       class and identical value, so name equality is "same type and same value" (eq and RT
       coincide on it).  String atoms outside StrAtoms ("d:<n>") are random byte strings,
       likewise identified by name.

   There are no actions: the rule is one step (value -> text -> value).  The properties are
     RTOK(v, back)          back is what evaluating the text gave; must be RT-related to v
     TextFunctional(texts)  all texts printed for one abstract value are the same text
   and they are evaluated by JudgeRepr on records taken from the real code; MCRepr checks the
   sanity of EqDoc / RT themselves (M) and enumerates the values (G), GenRepr draws large ones.

   Unspecified: nothing for the round trip.  For entry order the statement is unconditional, so no
   case is left open; the one class where the code is known to fail (two keys that are not eq but
   rank equal in `compare &total`) is *classified* by TieClass so that the executor can key it. *)
EXTENDS Integers, Sequences, FiniteSets

(* ------------------------------------------------------------------ atoms *)
IntAtoms   == {"i:0", "i:1", "i:-1", "i:42", "i:maxint", "i:minint"}
BigAtoms   == {"i:2^63", "i:-2^63-1", "i:10^30", "i:-10^30"}
RatAtoms   == {"r:1/3", "r:-1/3", "r:3/2", "r:big"}
FloatAtoms == {"f:+0.0", "f:-0.0", "f:1.0", "f:-1.5", "f:0.1", "f:+Inf", "f:-Inf", "f:NaN",
               "f:1e21", "f:1e-7", "f:max", "f:denorm", "f:2^63", "f:1e15", "f:123456.789",
               "f:2^53", "f:12345678901"}
NumAtoms   == IntAtoms \cup BigAtoms \cup RatAtoms \cup FloatAtoms

StrAtoms   == {"s:empty", "s:bare", "s:bare2", "s:space", "s:squote", "s:dquote", "s:tab", "s:nl",
               "s:bad", "s:ctrl", "s:uni", "s:unp", "s:meta", "s:numlike", "s:kw", "s:tilde"}

NumCls(a) == IF a \in IntAtoms THEN "int"
             ELSE IF a \in BigAtoms THEN "bigint"
             ELSE IF a \in RatAtoms THEN "rat"
             ELSE IF a \in FloatAtoms THEN "float"
             ELSE "unknown"
Exact(a)  == NumCls(a) \in {"int", "bigint", "rat"}
NumVal(a) == IF a \in {"f:+0.0", "f:-0.0"} THEN "f:zero" ELSE a
\* the mathematical value, for the documented numeric comparison across classes
MathVal(a) == IF a \in {"i:0", "f:+0.0", "f:-0.0"} THEN "0"
              ELSE IF a \in {"i:1", "f:1.0"} THEN "1"
              ELSE IF a \in {"i:2^63", "f:2^63"} THEN "2^63"
              ELSE a

(* ------------------------------------------------------------ constructors *)
Atom(kind, a) == [k |-> kind, a |-> a, es |-> <<>>, ps |-> {}]
Nil       == Atom("nil", "nil")
Bool(b)   == Atom("bool", b)               \* "true" | "false"
Str(s)    == Atom("str", s)
Num(n)    == Atom("num", n)
List(es)  == [k |-> "list", a |-> "", es |-> es, ps |-> {}]
Map(ps)   == [k |-> "map", a |-> "", es |-> <<>>, ps |-> ps]

(* --------------------------------------------------- documented equality `eq` *)
\* numbers: same type and same value; NaN is not equal to anything
NumEq(a, b) == /\ a \in NumAtoms /\ b \in NumAtoms
               /\ NumCls(a) = NumCls(b) /\ NumVal(a) = NumVal(b)
               /\ a # "f:NaN"
\* read back: same type, same value, NaN <-> NaN
NumRT(a, b) == /\ a \in NumAtoms /\ b \in NumAtoms
               /\ NumCls(a) = NumCls(b) /\ NumVal(a) = NumVal(b)

RECURSIVE Rel(_, _, _)
\* Rel(x, y, nan): nan = FALSE gives EqDoc, nan = TRUE gives RT
Rel(x, y, nan) ==
  IF x.k # y.k THEN FALSE
  ELSE IF x.k = "num" THEN (IF nan THEN NumRT(x.a, y.a) ELSE NumEq(x.a, y.a))
  ELSE IF x.k = "list" THEN /\ Len(x.es) = Len(y.es)
                            /\ \A i \in 1..Len(x.es) : Rel(x.es[i], y.es[i], nan)
  ELSE IF x.k = "map"  THEN /\ Cardinality(x.ps) = Cardinality(y.ps)
                            /\ \A p \in x.ps : \E q \in y.ps : Rel(p[1], q[1], nan) /\ Rel(p[2], q[2], nan)
  ELSE IF x.k \in {"nil", "bool", "str", "dnum"} THEN x.a = y.a /\ x.a # "?"
  ELSE FALSE                                   \* "error" and anything else is related to nothing

EqDoc(x, y) == Rel(x, y, FALSE)
RT(x, y)    == Rel(x, y, TRUE)

RECURSIVE NaNFree(_)
NaNFree(x) == IF x.k = "num" THEN x.a # "f:NaN"
              ELSE IF x.k = "list" THEN \A i \in 1..Len(x.es) : NaNFree(x.es[i])
              ELSE IF x.k = "map" THEN \A p \in x.ps : NaNFree(p[1]) /\ NaNFree(p[2])
              ELSE TRUE

\* a well-formed value: the keys of every map are pairwise unrelated (not even modulo NaN / zero sign)
RECURSIVE Valid(_)
Valid(x) == IF x.k = "list" THEN \A i \in 1..Len(x.es) : Valid(x.es[i])
            ELSE IF x.k = "map" THEN /\ \A p \in x.ps : Valid(p[1]) /\ Valid(p[2])
                                     /\ \A p, q \in x.ps : p # q => ~RT(p[1], q[1])
            ELSE TRUE

(* --------------------------------------------------------------- properties *)
RTOK(v, back) == RT(v, back)
TextFunctional(texts) == \A i, j \in 1..Len(texts) : texts[i] = texts[j]

(* ------------------- classification of maps whose keys tie in the documented total order *)
\* rank-equality under `compare &total`: numbers numerically (NaN = NaN), strings/booleans by
\* value, lists element-wise, values of one unordered type (maps; nil) all rank equal
RECURSIVE TotEq(_, _)
TotEq(x, y) ==
  IF x.k # y.k THEN FALSE
  ELSE IF x.k = "num" THEN MathVal(x.a) = MathVal(y.a)
  ELSE IF x.k = "list" THEN /\ Len(x.es) = Len(y.es)
                            /\ \A i \in 1..Len(x.es) : TotEq(x.es[i], y.es[i])
  ELSE IF x.k = "map" THEN TRUE
  ELSE x.a = y.a

RECURSIVE HasMap(_)
HasMap(x) == IF x.k = "map" THEN TRUE
             ELSE IF x.k = "list" THEN \E i \in 1..Len(x.es) : HasMap(x.es[i])
             ELSE FALSE

RECURSIVE MapNodes(_)
MapNodes(x) == IF x.k = "list" THEN UNION {MapNodes(x.es[i]) : i \in 1..Len(x.es)}
               ELSE IF x.k = "map" THEN {x} \cup UNION {MapNodes(p[1]) \cup MapNodes(p[2]) : p \in x.ps}
               ELSE {}

TiePairs(v) == UNION {{<<p[1], q[1]>> : <<p, q>> \in {pq \in m.ps \X m.ps : pq[1] # pq[2] /\ TotEq(pq[1][1], pq[2][1])}} : m \in MapNodes(v)}

\* "none": no map in v has two keys of equal rank -- the total order fixes the entry order;
\* "num-exactness": every tie is between map-free keys that differ only in the class of numbers
\*                  of equal value (exact 0 against inexact 0.0 ...);
\* "unordered": some tie involves keys of an unordered type (maps)
TieClass(v) == LET t == TiePairs(v) IN
               IF t = {} THEN "none"
               ELSE IF \A pq \in t : ~HasMap(pq[1]) /\ ~HasMap(pq[2]) THEN "num-exactness"
               ELSE "unordered"
=============================================================================
