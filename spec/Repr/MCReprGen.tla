----------------------------- MODULE MCReprGen -----------------------------
(* G for C04, exhaustive part: every initial state is one abstract value; TLC checks that it is
   well-formed and that RT holds of it with itself (a value must be allowed to read back as
   itself) and prints it.  The executor builds it through the real constructors in several
   insertion orders per map, prints it with the real repr (single-line and pretty), evaluates the
   texts with the real Evaler and hands {v, texts, read-back values} to JudgeRepr.

   Families (one TLC process each):
     F0  every atom
     F1  lists of length <= 2 over all atoms (quick: one of the two elements from Small)
     F2  one-entry maps, key and value over all atoms (quick: one of the two from Small)
     F3  two-entry maps: every unordered pair of (unrelated) atoms as keys, both assignments of
         two distinct values  -- every pair of atoms meets the entry sort
     F4  depth 2, width <= 2: lists and maps over the cross-section Sub (atoms and containers,
         with the exact/inexact zeros as nested keys)
     F5  three-entry maps over a 9-key pool (all key triples, one value assignment)
     F6  two-entry maps whose keys are one-element lists / one-entry maps over all atoms paired with
         the same container of exact zero (nested ties and nested sort keys)                      *)
EXTENDS Repr, TLC, Json
CONSTANT Fams,     \* the families this TLC process enumerates (the executor runs several processes)
         Wide      \* TRUE (thorough): F1, F2, F4 are full products; FALSE (quick): one side from Small
VARIABLE v

Atoms == {Nil, Bool("true"), Bool("false")} \cup {Str(s) : s \in StrAtoms} \cup {Num(n) : n \in NumAtoms}
X == Str("s:bare")
Y == Str("s:bare2")

Seqs2(S) == {<<>>} \cup {<<a>> : a \in S} \cup {<<a, b>> : a \in S, b \in S}
KeyPairs(K) == {p \in K \X K : ~RT(p[1], p[2])}
Maps2(K, V) == {{}} \cup {{<<k, w>>} : k \in K, w \in V}
               \cup {{<<kk[1], vv[1]>>, <<kk[2], vv[2]>>} : kk \in KeyPairs(K), vv \in V \X V}

F0 == Atoms
Small == {Str("s:bare"), Str("s:nl"), Num("f:-0.0"), Nil}
Prod == IF Wide THEN Atoms \X Atoms ELSE (Atoms \X Small) \cup (Small \X Atoms)
F1 == {List(<<>>)} \cup {List(<<a>>) : a \in Atoms} \cup {List(<<p[1], p[2]>>) : p \in Prod}
F2 == {Map({<<p[1], p[2]>>}) : p \in Prod}
F3 == {Map({<<kk[1], X>>, <<kk[2], Y>>}) : kk \in KeyPairs(Atoms)}
Sub == {Nil, Str("s:tab"), Str("s:nl"), Num("i:0"), Num("f:+0.0"), Num("f:NaN"),
        List(<<>>), Map({}), List(<<Num("i:0")>>), List(<<Num("f:+0.0")>>), List(<<Str("s:nl"), Str("s:tab")>>),
        Map({<<Num("i:0"), Str("s:tab")>>}), Map({<<Num("f:+0.0"), Str("s:tab")>>}),
        Map({<<Num("i:0"), X>>, <<Num("f:+0.0"), Y>>}), Map({<<Str("s:nl"), List(<<Str("s:tab")>>)>>})}
SubV == IF Wide THEN {Str("s:tab"), Num("f:NaN"), List(<<Num("f:+0.0")>>), Map({<<Num("i:0"), X>>, <<Num("f:+0.0"), Y>>})}
        ELSE {Str("s:tab"), Map({<<Num("i:0"), X>>, <<Num("f:+0.0"), Y>>})}
F4 == {List(s) : s \in Seqs2(Sub)} \cup {Map(m) : m \in Maps2(Sub, SubV)}
K5 == {Num("i:0"), Num("f:+0.0"), Num("f:-0.0"), Num("i:1"), Num("f:1.0"), Num("f:NaN"), Str("s:numlike"), Nil, List(<<Num("i:0")>>)}
F5 == {Map({<<a, X>>, <<b, Y>>, <<c, Nil>>}) : <<a, b, c>> \in {t \in K5 \X K5 \X K5 : ~RT(t[1], t[2]) /\ ~RT(t[1], t[3]) /\ ~RT(t[2], t[3])}}
F6 == {Map({<<List(<<a>>), X>>, <<List(<<Num("i:0")>>), Y>>}) : a \in {b \in Atoms : ~RT(b, Num("i:0"))}}
      \cup {Map({<<Map({<<a, X>>}), X>>, <<Map({<<Num("i:0"), X>>}), Y>>}) : a \in {b \in Atoms : ~RT(b, Num("i:0"))}}

FamSet(f) == CASE f = 0 -> F0 [] f = 1 -> F1 [] f = 2 -> F2 [] f = 3 -> F3 [] f = 4 -> F4 [] f = 5 -> F5 [] f = 6 -> F6
Values == UNION {FamSet(f) : f \in Fams}

Init == v \in Values
Next == UNCHANGED v
WellFormed == Valid(v) /\ RT(v, v)
Emit == PrintT(ToJson([v |-> v]))
=============================================================================
