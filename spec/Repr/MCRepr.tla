------------------------------- MODULE MCRepr -------------------------------
(* M for C04: sanity of the oracle relations of Repr.tla on an exhaustive small value set.
   Every state is a value x, every invariant quantifies over a partner y, of values of depth <= 2 / width <= 2 over a pool chosen to hit
   every distinction the relations make (a string, exact zero, +0.0, -0.0, NaN):
     EqDoc is symmetric; reflexive exactly on NaN-free values; contained in RT; equal to RT on
     NaN-free values; RT is reflexive and symmetric; only Valid values are enumerated.
   Transitivity (cubic) is checked over the depth <= 1 part without two-entry maps. *)
EXTENDS Repr, TLC
CONSTANT Full      \* TRUE: all pairs of VS (thorough); FALSE: partners from the cross-section YS (quick)
VARIABLE x

Pool == {Str("s:bare"), Num("i:0"), Num("f:+0.0"), Num("f:-0.0"), Num("f:NaN")}

Seqs2(S) == {<<>>} \cup {<<a>> : a \in S} \cup {<<a, b>> : a \in S, b \in S}
Maps2(K, V) == {{}} \cup {{<<k, v>>} : k \in K, v \in V}
               \cup {{<<kk[1], vv[1]>>, <<kk[2], vv[2]>>} :
                       kk \in {p \in K \X K : ~RT(p[1], p[2])}, vv \in V \X V}

\* depth <= 1, width <= 2
D1 == Pool \cup {List(s) : s \in Seqs2(Pool)} \cup {Map(m) : m \in Maps2(Pool, Pool)}
\* depth 2: containers of a cross-section of D1 (every kind, the zero family, NaN inside a container)
C1 == {Str("s:bare"), Num("i:0"), Num("f:-0.0"), Num("f:NaN"),
       List(<<>>), List(<<Num("f:+0.0")>>), List(<<Num("f:-0.0")>>), List(<<Num("f:NaN")>>),
       Map({}), Map({<<Num("i:0"), Str("s:bare")>>}), Map({<<Num("f:+0.0"), Str("s:bare")>>}),
       Map({<<Num("i:0"), Str("s:bare")>>, <<Num("f:+0.0"), Num("f:NaN")>>})}
D2 == {List(s) : s \in Seqs2(C1)} \cup {Map(m) : m \in Maps2(C1, {Str("s:bare"), List(<<Num("f:NaN")>>)})}

VS == D1 \cup D2
\* partners in the quick tier: every atom, the cross-section C1 and containers of it
YS == IF Full THEN VS
      ELSE Pool \cup C1 \cup {List(<<c>>) : c \in C1} \cup {Map({<<c, Str("s:bare")>>}) : c \in C1}
              \cup {Map({<<Num("f:-0.0"), Str("s:bare")>>, <<Num("i:0"), Num("f:NaN")>>}),
                    Map({<<Num("f:+0.0"), Num("f:NaN")>>, <<Num("i:0"), Str("s:bare")>>}),
                    List(<<Num("i:0"), Num("f:-0.0")>>), List(<<Num("i:0"), Num("f:+0.0")>>)}

\* transitivity is cubic: the depth <= 1 part without two-entry maps
T == IF Full THEN Pool \cup {List(s) : s \in Seqs2(Pool)} \cup {Map({<<k, v>>}) : k \in Pool, v \in Pool}
     ELSE Pool \cup {List(<<a>>) : a \in Pool} \cup {List(<<a, Num("f:NaN")>>) : a \in Pool}
               \cup {Map({<<k, Str("s:bare")>>}) : k \in Pool} \cup {Map({<<Str("s:bare"), v>>}) : v \in Pool}

\* one state per x; the invariants quantify over the partner(s), so the work is spread over the
\* workers without one stored state per pair
Init == x \in VS
Next == UNCHANGED x

AllValid     == Valid(x)
RTReflexive  == RT(x, x)
EqReflexive  == EqDoc(x, x) = NaNFree(x)
PairLaws     == \A y \in YS :
                  /\ EqDoc(x, y) = EqDoc(y, x)
                  /\ RT(x, y) = RT(y, x)
                  /\ EqDoc(x, y) => RT(x, y)
                  /\ (NaNFree(x) /\ NaNFree(y)) => (EqDoc(x, y) = RT(x, y))
Transitive   == x \in T => \A b \in T, c \in T :
                  /\ (EqDoc(x, b) /\ EqDoc(b, c)) => EqDoc(x, c)
                  /\ (RT(x, b) /\ RT(b, c)) => RT(x, c)
\* sizes for the evidence
ASSUME PrintT(<<"SIZES", Cardinality(VS), Cardinality(YS), Cardinality(T)>>)
=============================================================================
