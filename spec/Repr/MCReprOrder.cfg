INIT Init
NEXT Next
INVARIANT Characterised
