----------------------------- MODULE MCInterrupt -----------------------------
(* M for C19 (and the source of the G cases): an abstract evaluation drives the protocol of Interrupt.tla.
   The top-level chunk is a sequence `prog` of pipelines on goroutine 0, each with one command:
     "mark"    a harness command that records that it ran
     "cancel"  a harness command that cancels the context synchronously and returns
     "sleep"   the interruptible sleep
     "peach"   peach with the configuration cfg (all callbacks "ok"; `wrapped`: the callback is an Elvish
               closure, i.e. its body is a pipeline with its own interrupt check, else a Go callback)
   Worker i of the peach statement is goroutine i.  Cancel (asynchronous) may happen at any point if MayCancel. *)
EXTENDS Interrupt, Json
CONSTANTS Progs,     \* set of programs (sequences of statement kinds), defined in the cfg through MC operators
          MaxN, Bounds, Wrappings
VARIABLES prog, wrapped, mip, mph, exc, marks, wst
dvars == <<prog, wrapped, mip, mph, exc, marks, wst>>
mcvars == <<allvars, dvars>>

PeachCfgs == { [mode |-> "peach", n |-> n, bound |-> b, res |-> [i \in 1..n |-> "ok"], nout |-> [i \in 1..n |-> 0]] :
                 n \in 1..MaxN, b \in Bounds }
NoPeach == [mode |-> "peach", n |-> 0, bound |-> 0, res |-> <<>>, nout |-> <<>>]
HasPeach(p) == \E k \in 1..Len(p) : p[k] = "peach"
MCInit == \E p \in Progs : \E c \in (IF HasPeach(p) THEN PeachCfgs ELSE {NoPeach}) : \E w \in (IF HasPeach(p) THEN Wrappings ELSE {FALSE}) :
            /\ InitWith(c) /\ IInit
            /\ GInit(0..c.n)
            /\ prog = p /\ wrapped = w /\ mip = 1 /\ mph = "next" /\ exc = "none" /\ marks = <<>>
            /\ wst = [i \in 1..c.n |-> "none"]

Kind == IF mip <= Len(prog) THEN prog[mip] ELSE "end"
Goto(ph) == mph' = ph /\ UNCHANGED <<prog, wrapped, mip, exc, marks, wst>>
NextStmt == mph' = "next" /\ mip' = mip + 1 /\ UNCHANGED <<prog, wrapped, exc, marks, wst>>
Raise(e) == mph' = "raise" /\ exc' = e /\ UNCHANGED <<prog, wrapped, mip, marks, wst>>

\* ---- goroutine 0: pipeline by pipeline
MEnter == mph = "next" /\ mip <= Len(prog) /\ PEnter(0, FALSE) /\ Goto("chk")
MCheck == mph = "chk" /\ PCheck(0) /\ Goto("chk2")
MStart == mph = "chk2" /\ PStart(0) /\ Goto("body")
MReject == mph = "chk2" /\ PReject(0) /\ Raise("intr")
MMark == /\ mph = "body" /\ Kind = "mark" /\ marks' = Append(marks, mip) /\ mph' = "next" /\ mip' = mip + 1
         /\ UNCHANGED <<allvars, prog, wrapped, exc, wst>>
MSyncCancel == /\ mph = "body" /\ Kind = "cancel" /\ cancelled' = TRUE /\ NextStmt
               /\ UNCHANGED <<cfg, fpc, cur, permit, sem, wpc, pos, ended, nstart, broken, errs, out, ret, ivars>>
MSleepOK == mph = "body" /\ Kind = "sleep" /\ NextStmt /\ UNCHANGED allvars
MSleepIntr == mph = "body" /\ Kind = "sleep" /\ cancelled /\ Raise("intr") /\ UNCHANGED allvars
\* ---- the peach statement: the machine of Peach.tla; closure callbacks pass their own interrupt check
InPeach == mph = "body" /\ Kind = "peach"
Feeder == FTest \/ FAcqEnter \/ FAcquireOK \/ FAcquireCancelled \/ FAcqRet \/ FSpawnAsIs \/ FRetest
          \/ ProceedWithoutPermit \/ FStopOnAcquireError \/ FSpawn \/ FReturn(DesignRet)
WorkerBody(i) == WFlag(i) \/ WRelease(i) \/ WEnd(i, "ok") \/ WEnd(i, "intr")
PeachStep == /\ InPeach /\ UNCHANGED <<ivars, dvars>>
             /\ \/ Feeder
                \/ \E i \in In : WorkerBody(i)
                \/ \E i \in In : (~wrapped \/ wst[i] = "go") /\ WStart(i)
SetW(i, v) == wst' = [wst EXCEPT ![i] = v] /\ UNCHANGED <<prog, wrapped, mip, mph, exc, marks>>
WEnterPipe(i) == InPeach /\ wrapped /\ wpc[i] = "spawned" /\ wst[i] = "none" /\ PEnter(i, FALSE) /\ SetW(i, "entered")
WCheckPipe(i) == InPeach /\ wst[i] = "entered" /\ PCheck(i) /\ SetW(i, "checked")
WPassPipe(i) == InPeach /\ wst[i] = "checked" /\ PStart(i) /\ SetW(i, "go")
WRejectPipe(i) == InPeach /\ wst[i] = "checked" /\ PReject(i) /\ SetW(i, "rej")
WRejectedEnd(i) == InPeach /\ wst[i] = "rej" /\ WRejected(i) /\ SetW(i, "over")
MPeachDone == /\ InPeach /\ fpc = "returned" /\ UNCHANGED allvars
              /\ IF errs # {} THEN Raise("intr") ELSE NextStmt
\* ---- the end of the chunk
MFinal == mph = "next" /\ mip > Len(prog) /\ FinalCheck /\ Goto("final")
MReturn == \/ mph = "final" /\ EvalReturn(IF final = "cancelled" THEN "intr" ELSE "ok") /\ Goto("returned")
           \/ mph = "raise" /\ EvalReturn(exc) /\ Goto("returned")
AsyncCancel == eret = "none" /\ Cancel /\ UNCHANGED <<ivars, dvars>>

MCNext == MEnter \/ MCheck \/ MStart \/ MReject \/ MMark \/ MSyncCancel \/ MSleepOK \/ MSleepIntr
          \/ PeachStep \/ MPeachDone \/ MFinal \/ MReturn \/ AsyncCancel
          \/ \E i \in In : WEnterPipe(i) \/ WCheckPipe(i) \/ WPassPipe(i) \/ WRejectPipe(i) \/ WRejectedEnd(i)
MCSpec == MCInit /\ [][MCNext]_mcvars /\ WF_mcvars(MCNext)
Terminates == <>(eret # "none")

\* ---- properties that need the program
\* marks run in program order and none after the cancellation was seen by a check
MarksInOrder == \A k \in 1..Len(marks) : k > 1 => marks[k - 1] < marks[k]
NothingAfterSyncCancel == \A k \in 1..Len(marks) : \A j \in 1..Len(prog) : (prog[j] = "cancel" /\ j < marks[k]) => FALSE
SyncCancelReturnsInterrupted == (eret # "none" /\ \E j \in 1..Len(prog) : prog[j] = "cancel") => eret = "intr"
NoCancelNoInterrupt == (eret # "none" /\ ~cancelled) => eret = "ok" /\ Len(marks) = Cardinality({j \in 1..Len(prog) : prog[j] = "mark"})

\* ---- program sets
AsyncProgs == { <<"mark", "peach", "mark">>, <<"sleep", "peach">>, <<"peach", "sleep", "mark">>, <<"mark", "sleep", "mark">> }
RECURSIVE SeqsOf(_, _)
SeqsOf(S, k) == IF k = 0 THEN {<<>>} ELSE SeqsOf(S, k - 1) \cup {Append(s, x) : s \in {t \in SeqsOf(S, k - 1) : Len(t) = k - 1}, x \in S}
OneCancel(p) == Cardinality({j \in 1..Len(p) : p[j] = "cancel"}) = 1
SyncProgs(len) == {p \in SeqsOf({"mark", "sleep", "cancel"}, len) : OneCancel(p)} \cup {p \in SeqsOf({"mark", "sleep"}, 3) : TRUE}
SyncProgs4 == SyncProgs(4)
SyncProgs6 == SyncProgs(6)
\* G(a): the prescribed outcome of a synchronous-cancel program
Emit == eret # "none" => PrintT(ToJson([prog |-> prog, marks |-> marks, eret |-> eret]))
=============================================================================
