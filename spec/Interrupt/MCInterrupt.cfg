CONSTANTS Recheck = {FALSE} Honour = {FALSE} MayCancel = TRUE AllowBadStart = FALSE
  Progs <- AsyncProgs MaxN = 2 Bounds = {1, 2} Wrappings = {TRUE, FALSE}
SPECIFICATION MCSpec
INVARIANT NoStartAfterCancel ReturnInterrupted AllGoroutinesDone BoundRespected SemNonNegative MarksInOrder NoCancelNoInterrupt
PROPERTY Terminates
