CONSTANTS Recheck = {TRUE, FALSE} Honour = {TRUE, FALSE} MayCancel = TRUE AllowBadStart = TRUE
SPECIFICATION TSpec
CONSTRAINT Live
POSTCONDITION Accepted
