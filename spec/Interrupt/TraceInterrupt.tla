--------------------------- MODULE TraceInterrupt ---------------------------
(* V and the judge of the G(b) replays for C19: the events recorded from REAL evaluations that are
   interrupted (asynchronously at swept/random delays, synchronously by the harness command vi-cancel, or
   by a forced schedule) must be a behaviour of Interrupt.tla (which contains the peach machine of
   Peach.tla); every invariant is evaluated in every inferred state.  Both shapes of the code after
   Acquire are accepted (Recheck = Honour = BOOLEAN), the named deviations ProceedWithoutPermit and
   PStartDespiteCancel are behaviours -- the invariants decide.

   Logged events (one tracer; every event is written to the file at once: the process may die):
     Begin                          a new evaluation (fresh Evaler); goroutine 0 calls Eval
     PEnter(g, bg) / PStart(g)      hooks pipeline.enter / pipeline.start on goroutine g
     Mark(k, g)                     the harness command vi-mark ran                      (not constrained here)
     PeachDecl(n, bound)            harness command in front of a peach: the configuration of the next call
     AcqEnter / AcqRet / Spawn / CbStart(i) / CbEnd(i, res) / Release(i)    as in TracePeach
                                    (Release with i = -1: a worker whose closure callback was rejected)
     LateRelease                    release hook of a worker of an earlier peach call     (ignored)
     CancelStart / CancelEnd        around the CancelFunc (the cancellation itself is placed in between)
     EvalReturn(exc)                Eval returned ok | intr | other
     Settled(k)                     goroutine count back at the baseline (k = 0) or k evaluator goroutines left
   Unlogged: Cancel, the peach-internal steps, WRejected, FReturn, FinalCheck.  *)
EXTENDS Interrupt, Json
Trace == ndJsonDeserialize("trace.ndjson")
VARIABLES l, cst
tvars == <<allvars, l, cst>>
Is(e) == l <= Len(Trace) /\ Trace[l].ev = e
T == Trace[l]
Adv == l' = l + 1 /\ UNCHANGED cst
Stay == UNCHANGED <<l, cst>>
NoPeach == [mode |-> "peach", n |-> 0, bound |-> 0, res |-> <<>>, nout |-> <<>>]

TInit == l = 1 /\ cst = "no" /\ InitWith(NoPeach) /\ IInit /\ GInit({0}) /\ Is("Begin")
ResetPeach(c) == /\ cfg' = c /\ fpc' = "test" /\ cur' = 1 /\ permit' = FALSE /\ sem' = 0
                 /\ wpc' = [i \in 1..c.n |-> "none"] /\ pos' = [i \in 1..c.n |-> 0] /\ ended' = [i \in 1..c.n |-> "none"]
                 /\ nstart' = [i \in 1..c.n |-> 0]
                 /\ broken' = FALSE /\ errs' = {} /\ out' = <<>> /\ ret' = NoRet
Begin == /\ Is("Begin") /\ l' = l + 1 /\ cst' = "no" /\ ResetPeach(NoPeach) /\ cancelled' = FALSE
         /\ gst' = [g \in {0} |-> [pc |-> "out", after |-> FALSE, bg |-> FALSE]]
         /\ final' = "no" /\ eret' = "none" /\ leaked' = 0 /\ badStart' = FALSE
Quiescent == \A i \in In : wpc[i] \in {"none", "done", "released"}
PeachDecl == /\ Is("PeachDecl") /\ Adv /\ Quiescent /\ fpc \in {"test", "returned"}
             /\ ResetPeach([mode |-> "peach", n |-> T.n, bound |-> T.bound, res |-> T.ress, nout |-> T.nouts])
             /\ UNCHANGED <<cancelled, ivars>>
\* a worker whose callback never logged CbStart (rejected closure): the smallest such worker releases
Unstarted == {i \in In : wpc[i] = "done" /\ nstart[i] = 0}
\* the callback returned: WEnd; when `broken` is already set, WFlag (which then only records the exception)
\* commutes with everything else and is taken at once
CbEndEv(i, r) == IF broken /\ r # "ok"
                 THEN /\ wpc[i] = "run" /\ (r = cfg.res[i] \/ (r = "intr" /\ cancelled))
                      /\ ended' = [ended EXCEPT ![i] = r] /\ wpc' = [wpc EXCEPT ![i] = "done"]
                      /\ errs' = (IF r # "break" THEN errs \cup {i} ELSE errs)
                      /\ UNCHANGED <<cfg, fpc, cur, permit, sem, pos, nstart, broken, cancelled, out, ret>>
                 ELSE WEnd(i, r)
Logged ==
  \/ Is("PEnter") /\ Adv /\ PEnterObs(T.g, T.bg)
  \/ Is("PStart") /\ Adv /\ PStartObs(T.g)
  \/ Is("Mark") /\ Adv /\ UNCHANGED allvars
  \/ Is("LateRelease") /\ Adv /\ UNCHANGED allvars
  \/ Is("AcqEnter") /\ Adv /\ FAcqEnter /\ UNCHANGED ivars
  \/ Is("AcqRet") /\ Adv /\ FAcqRet /\ UNCHANGED ivars
  \/ Is("Spawn") /\ Adv /\ FSpawn /\ UNCHANGED ivars
  \/ Is("CbStart") /\ Adv /\ T.i \in In /\ WStart(T.i) /\ UNCHANGED ivars
  \/ Is("CbEnd") /\ Adv /\ T.i \in In /\ CbEndEv(T.i, T.res) /\ UNCHANGED ivars
  \/ Is("Release") /\ Adv /\ T.i \in In /\ WRelease(T.i) /\ UNCHANGED ivars
  \/ Is("Release") /\ Adv /\ T.i = -1 /\ Unstarted # {} /\ WRelease(CHOOSE i \in Unstarted : \A j \in Unstarted : i <= j) /\ UNCHANGED ivars
  \/ Is("CancelStart") /\ l' = l + 1 /\ cst = "no" /\ cst' = "started" /\ UNCHANGED allvars
  \/ Is("CancelEnd") /\ l' = l + 1 /\ cst = "done" /\ cst' = "over" /\ UNCHANGED allvars
  \/ Is("EvalReturn") /\ Adv /\ EvalReturnObs(T.exc)
  \/ Is("Settled") /\ Adv /\ Settled(T.k)
\* Unlogged steps are offered only where they can matter (this does not remove behaviours, it removes
\* equivalent interleavings):
\*   WRejected(i) when the next event needs it: a Release of an unstarted worker, or the end of the call
\*     (then in index order: every spawned worker has to go);
\*   FinalCheck just before the events between which it must lie (EvalReturn, or the cancellation);
\*   FReturn is not needed by any event or invariant here and is left out.
Spawned == {i \in In : wpc[i] = "spawned"}
NeedRejected(i) == \/ Is("Release") /\ T.i = -1 /\ Unstarted = {} /\ \A j \in In : wpc[j] # "flag"
                   \/ (Is("EvalReturn") \/ Is("PeachDecl")) /\ \A j \in Spawned : i <= j
Unlogged ==
  \/ Internal /\ UNCHANGED ivars /\ Stay
  \/ (\E i \in Spawned : NeedRejected(i) /\ WRejected(i)) /\ Stay
  \/ (Is("EvalReturn") \/ Is("CancelStart") \/ Is("CancelEnd")) /\ FinalCheck /\ Stay
  \/ cst = "started" /\ Cancel /\ cst' = "done" /\ UNCHANGED <<l, ivars>>
TNext == Begin \/ PeachDecl \/ Logged \/ Unlogged
TSpec == TInit /\ [][TNext]_tvars

HW == TLCSet(1, IF TLCGet(1) > l THEN TLCGet(1) ELSE l)
\* Acceptance is EXISTENTIAL: the trace is accepted iff some placement of the unlogged steps explains all
\* of it with every invariant holding in every state on the way.  Hence the invariants prune (CONSTRAINT
\* Live in TraceInterrupt.cfg); a state reached by an unlucky placement (e.g. FAcquireCancelled chosen where
\* the real Acquire had succeeded) is not a verdict.  Only when no explanation exists is the trace judged
\* again with TraceInterruptName.cfg, where the same invariants are INVARIANTs, to name what is violated.
InvOK == NoStartAfterCancel /\ ReturnInterrupted /\ AllGoroutinesDone /\ BoundRespected /\ SemNonNegative /\ AtMostOnce
Live == InvOK /\ HW
Accepted == PrintT(<<"HW", TLCGet(1)>>) /\ TLCGet(1) = Len(Trace) + 1
ASSUME TLCSet(1, 0)
=============================================================================
