------------------------------ MODULE Interrupt ------------------------------
(* C19 -- interrupting an evaluation (pkg/eval: interrupts.go, compile_effect.go pipelineOp.exec /
   chunkOp.exec, builtin_fn_flow.go peach, builtin_fn_time.go sleep).

   The goroutines of ONE evaluation.  This module EXTENDS Peach.tla: the bounded-worker machine (feeder,
   workers, semaphore, `cancelled`, the actions Cancel, FAcquireOK / FAcquireCancelled, the named
   deviation ProceedWithoutPermit, FStopOnAcquireError, WRelease, ...) is the one of C20; here it is one
   statement of a program, and every goroutine passes the interrupt check in front of each pipeline.

   Added state
     gst[g]   per goroutine g (0 = the goroutine that called Eval; others as they appear):
              [pc, after, bg]  pc: "out" | "entered" (hook pipeline.enter passed, Canceled() not yet read)
                               | "passed" | "rejected" (what the check read);  after: the context was already
                               cancelled when the pipeline was entered;  bg: the frame's context is the
                               background context (a background job: not subject to the interrupt)
     final    "no" | "clean" | "cancelled": what the check AFTER the top-level chunk read (chunkOp.exec)
     eret     "none" | "ok" | "intr" | "other": what Eval returned
     leaked   goroutines of the evaluation still alive after Eval returned and the count settled
     badStart ghost: a pipeline started although the check must have read `cancelled`
   Actions
     PEnter(g, bg)   hook pipeline.enter        PCheck(g)   fm.Canceled() is read (unlogged)
     PStart(g)       hook pipeline.start (check passed)       PReject(g)  the pipeline raises `interrupted`
     PStartDespiteCancel(g)   named deviation, only if AllowBadStart: the hook pipeline.start is reached
                     although the check read `cancelled` -- sets badStart
     FinalCheck      the check after the top-level chunk;  nothing happens on goroutine 0 afterwards
     EvalReturn(e)   Eval returns: "ok" only after a clean final check; "intr" only if cancelled
     Settled(k)      the goroutine count was sampled after Eval returned: k goroutines too many
     (sleep, the semaphore and the wait are blocking points inside statements: MCInterrupt drives them)
   Invariants
     NoStartAfterCancel   ~badStart: no pipeline.start whose pipeline.enter came after the cancellation
                          (background jobs excepted)
     ReturnInterrupted    the final check read `cancelled` => Eval returned `interrupted`
     AllGoroutinesDone    at EvalReturn no worker is between spawn and the end of its callback; leaked = 0
     BoundRespected, SemNonNegative   from Peach.tla: also while being interrupted
   Unspecified: what Eval returns when the cancellation comes after the last check (either outcome).  *)
EXTENDS Peach
CONSTANT AllowBadStart
VARIABLES gst, final, eret, leaked, badStart
ivars == <<gst, final, eret, leaked, badStart>>
allvars == <<vars, ivars>>

GInit(G) == gst = [g \in G |-> [pc |-> "out", after |-> FALSE, bg |-> FALSE]]
IInit == final = "no" /\ eret = "none" /\ leaked = 0 /\ badStart = FALSE

Pc(g) == IF g \in DOMAIN gst THEN gst[g].pc ELSE "out"
SetG(g, r) == gst' = [h \in DOMAIN gst \cup {g} |-> IF h = g THEN r ELSE gst[h]]
MainQuiet(g) == g = 0 => final = "no"

PEnter(g, bg) == /\ Pc(g) = "out" /\ MainQuiet(g)
                 /\ SetG(g, [pc |-> "entered", after |-> cancelled /\ ~bg, bg |-> bg])
                 /\ UNCHANGED <<vars, final, eret, leaked, badStart>>
PCheck(g) == /\ Pc(g) = "entered"
             /\ SetG(g, [gst[g] EXCEPT !.pc = IF cancelled /\ ~gst[g].bg THEN "rejected" ELSE "passed"])
             /\ UNCHANGED <<vars, final, eret, leaked, badStart>>
PStart(g) == /\ Pc(g) = "passed" /\ SetG(g, [gst[g] EXCEPT !.pc = "out"])
             /\ UNCHANGED <<vars, final, eret, leaked, badStart>>
PReject(g) == /\ Pc(g) = "rejected" /\ SetG(g, [gst[g] EXCEPT !.pc = "out"])
              /\ UNCHANGED <<vars, final, eret, leaked, badStart>>
PStartDespiteCancel(g) == /\ AllowBadStart /\ Pc(g) = "rejected" /\ SetG(g, [gst[g] EXCEPT !.pc = "out"])
                          /\ badStart' = TRUE
                          /\ UNCHANGED <<vars, final, eret, leaked>>
FinalCheck == /\ final = "no" /\ eret = "none" /\ Pc(0) = "out"
              /\ final' = (IF cancelled THEN "cancelled" ELSE "clean")
              /\ UNCHANGED <<vars, gst, eret, leaked, badStart>>
RetGuards(e) == /\ eret = "none" /\ e \in {"ok", "intr", "other"}
                /\ (e = "ok" => final = "clean")
                /\ (e = "intr" => cancelled)
EvalReturn(e) == /\ RetGuards(e) /\ Pc(0) = "out" /\ eret' = e
                 /\ UNCHANGED <<vars, gst, final, leaked, badStart>>
\* a closure callback whose only pipeline was rejected: the worker ends `interrupted` without its callback
\* ever being "inside" (no CbStart)
WRejected(i) == /\ wpc[i] = "spawned" /\ cancelled
                /\ ended' = [ended EXCEPT ![i] = "intr"] /\ wpc' = [wpc EXCEPT ![i] = "flag"]
                /\ UNCHANGED <<cfg, fpc, cur, permit, sem, pos, nstart, broken, errs, cancelled, out, ret, ivars>>
Settled(k) == /\ eret # "none" /\ leaked' = k
              /\ UNCHANGED <<vars, gst, final, eret, badStart>>

\* The same protocol as seen through the two hooks only (trace validation). `cancelled` never goes back,
\* hence: a check between pipeline.enter and pipeline.start can have read "not cancelled" iff the context
\* was not cancelled at pipeline.enter (= ~after); and a pipeline was rejected between two pipeline.enter
\* events of a goroutine only if the context is cancelled by the second one.
PEnterObs(g, bg) == /\ MainQuiet(g)
                    /\ \/ Pc(g) = "out"
                       \/ Pc(g) = "entered" /\ cancelled /\ ~gst[g].bg     \* PCheck; PReject happened
                    /\ SetG(g, [pc |-> "entered", after |-> cancelled /\ ~bg, bg |-> bg])
                    /\ UNCHANGED <<vars, final, eret, leaked, badStart>>
PStartObs(g) == /\ Pc(g) = "entered" /\ SetG(g, [gst[g] EXCEPT !.pc = "out"])
                /\ badStart' = (badStart \/ (gst[g].after /\ AllowBadStart))   \* PStartDespiteCancel
                /\ (gst[g].after => AllowBadStart)
                /\ UNCHANGED <<vars, final, eret, leaked>>

\* Eval returns; the last pipeline entered on goroutine 0 may have been rejected without a further hook.
\* ("ok" without a clean final check is left to the invariant ReturnInterrupted, so that it has a name.)
EvalReturnObs(e) == /\ eret = "none" /\ e \in {"ok", "intr", "other"} /\ (e = "intr" => cancelled) /\ eret' = e
                    /\ \/ Pc(0) = "out" /\ UNCHANGED gst
                       \/ Pc(0) = "entered" /\ cancelled /\ e # "ok" /\ SetG(0, [gst[0] EXCEPT !.pc = "out"])
                    /\ UNCHANGED <<vars, final, leaked, badStart>>

NoStartAfterCancel == ~badStart
ReturnInterrupted == /\ (eret # "none" /\ final = "cancelled") => eret = "intr"
                     /\ eret = "ok" => final = "clean"
AllGoroutinesDone == /\ eret # "none" => \A i \in In : wpc[i] \notin {"spawned", "run", "flag"}
                     /\ leaked = 0
=============================================================================
