CONSTANTS Recheck = {TRUE, FALSE} Honour = {TRUE, FALSE} MayCancel = TRUE AllowBadStart = TRUE
SPECIFICATION TSpec
CONSTRAINT HW
INVARIANT NoStartAfterCancel ReturnInterrupted AllGoroutinesDone BoundRespected SemNonNegative AtMostOnce
POSTCONDITION Accepted
