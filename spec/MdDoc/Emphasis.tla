------------------------------ MODULE Emphasis ------------------------------
(* C35 -- CommonMark 0.31.2 section 6.2 (emphasis and strong emphasis) for a FLAT inline text: a
   sequence of characters [s |-> the character, c |-> its class] with classes
      "*" "_"   delimiter characters            "s"  Unicode whitespace
      "p"       Unicode punctuation             "w"  anything else
   (the beginning and the end of the line count as whitespace; a delimiter character next to a
   delimiter run of the other kind counts as punctuation).

   Transcribed from the specification text, not from pkg/md/inline.go:

     Tokens(t)       delimiter runs (maximal runs of one delimiter character) and text characters
     LeftFlanking / RightFlanking, CanOpen / CanClose      rules 1-8 incl. the `_` intraword rules
     Process(ns, p)  the "process emphasis" procedure of the appendix "An algorithm for parsing nested
                     emphasis and links" WITHOUT the openers_bottom optimisation: for every potential
                     closer, from left to right, walk back to the nearest potential opener of the same
                     character that is not excluded by the "multiple of 3" rule (rules 9/10: if one of
                     the two runs can both open and close, the sum of the ORIGINAL lengths must not be a
                     multiple of 3 unless both are); strong if both runs still have >= 2 delimiters,
                     else regular emphasis; the delimiters between opener and closer leave the stack;
                     the used delimiters are removed from the inner ends of the two runs; a run that
                     becomes empty disappears, a closer with delimiters left is processed again; a closer
                     without opener that cannot open leaves the stack.  What is left is literal text.
     EmphHtml(t)     <p> the resulting tags and characters </p>\n

   Theorems checked by TLC on every enumerated text (M, EmphOK): the tags are balanced and properly
   nested with matching kinds; conservation -- every `*` / `_` of the input is either output literally
   or consumed by exactly one tag (1 per <em>/</em>, 2 per <strong>/</strong>), and the other
   characters are output unchanged and in order; a text without a potential closer has no tags. *)
EXTENDS Integers, Sequences, TLC

RECURSIVE Rep(_, _)
Rep(s, n) == IF n <= 0 THEN "" ELSE s \o Rep(s, n - 1)

IsDelim(ch) == ch.c \in {"*", "_"}
FlankClass(ch) == IF IsDelim(ch) THEN "p" ELSE ch.c

(* ---------------- delimiter runs ---------------- *)
RECURSIVE RunEnd(_, _)
RunEnd(t, i) == IF i < Len(t) /\ t[i + 1].c = t[i].c THEN RunEnd(t, i + 1) ELSE i

LeftFlanking(prev, next)  == next # "s" /\ (next # "p" \/ prev \in {"s", "p"})
RightFlanking(prev, next) == prev # "s" /\ (prev # "p" \/ next \in {"s", "p"})
CanOpen(c, prev, next) ==
  IF c = "*" THEN LeftFlanking(prev, next)
  ELSE LeftFlanking(prev, next) /\ (~RightFlanking(prev, next) \/ prev = "p")
CanClose(c, prev, next) ==
  IF c = "*" THEN RightFlanking(prev, next)
  ELSE RightFlanking(prev, next) /\ (~LeftFlanking(prev, next) \/ next = "p")

N0 == [k |-> "t", s |-> "", c |-> "", n |-> 0, n0 |-> 0, o |-> FALSE, cl |-> FALSE, act |-> FALSE]
TextNode(ch)    == [N0 EXCEPT !.s = ch.s]
OpenTag(tag, c)  == [N0 EXCEPT !.k = "O", !.s = tag, !.c = c]
CloseTag(tag, c) == [N0 EXCEPT !.k = "C", !.s = tag, !.c = c]
RunNode(c, n, prev, next) ==
  [N0 EXCEPT !.k = "d", !.c = c, !.n = n, !.n0 = n, !.o = CanOpen(c, prev, next), !.cl = CanClose(c, prev, next), !.act = TRUE]

RECURSIVE TokensFrom(_, _)
TokensFrom(t, i) ==
  IF i > Len(t) THEN <<>>
  ELSE IF IsDelim(t[i])
       THEN LET e    == RunEnd(t, i)
                prev == IF i = 1 THEN "s" ELSE FlankClass(t[i - 1])
                next == IF e = Len(t) THEN "s" ELSE FlankClass(t[e + 1])
            IN <<RunNode(t[i].c, e - i + 1, prev, next)>> \o TokensFrom(t, e + 1)
       ELSE <<TextNode(t[i])>> \o TokensFrom(t, i + 1)
Tokens(t) == TokensFrom(t, 1)

(* ---------------- process emphasis ---------------- *)
\* rules 9 and 10
ExcludedBy3(op, cl) == (op.cl \/ cl.o) /\ (op.n0 + cl.n0) % 3 = 0 /\ ~(op.n0 % 3 = 0 /\ cl.n0 % 3 = 0)
RECURSIVE FindOpener(_, _, _)
FindOpener(ns, p, i) ==
  IF i < 1 THEN 0
  ELSE IF ns[i].k = "d" /\ ns[i].act /\ ns[i].o /\ ns[i].c = ns[p].c /\ ~ExcludedBy3(ns[i], ns[p]) THEN i
  ELSE FindOpener(ns, p, i - 1)

Deactivate(q) == [i \in DOMAIN q |-> IF q[i].k = "d" THEN [q[i] EXCEPT !.act = FALSE] ELSE q[i]]

RECURSIVE Process(_, _)
Process(ns, p) ==
  IF p > Len(ns) THEN ns
  ELSE IF ~(ns[p].k = "d" /\ ns[p].act /\ ns[p].cl) THEN Process(ns, p + 1)
  ELSE LET i == FindOpener(ns, p, p - 1) IN
       IF i = 0
       THEN Process(IF ns[p].o THEN ns ELSE [ns EXCEPT ![p].act = FALSE], p + 1)
       ELSE LET m     == IF ns[i].n >= 2 /\ ns[p].n >= 2 THEN 2 ELSE 1
                tag   == IF m = 2 THEN "strong" ELSE "em"
                left  == SubSeq(ns, 1, i - 1)
                op2   == IF ns[i].n > m THEN <<[ns[i] EXCEPT !.n = @ - m]>> ELSE <<>>
                mid   == Deactivate(SubSeq(ns, i + 1, p - 1))
                cl2   == IF ns[p].n > m THEN <<[ns[p] EXCEPT !.n = @ - m]>> ELSE <<>>
                rest  == SubSeq(ns, p + 1, Len(ns))
                ns2   == left \o op2 \o <<OpenTag(tag, ns[p].c)>> \o mid \o <<CloseTag(tag, ns[p].c)>> \o cl2 \o rest
                \* the closer again if it has delimiters left, else what follows it
                p2    == Len(left) + Len(op2) + 1 + Len(mid) + 1 + 1
            IN Process(ns2, p2)

Result(t) == Process(Tokens(t), 1)

RECURSIVE FlatNodes(_)
NodeText(x) == CASE x.k = "t" -> x.s [] x.k = "d" -> Rep(x.c, x.n)
                 [] x.k = "O" -> "<" \o x.s \o ">" [] x.k = "C" -> "</" \o x.s \o ">"
FlatNodes(ns) == IF ns = <<>> THEN "" ELSE NodeText(ns[1]) \o FlatNodes(Tail(ns))
RECURSIVE FlatText(_)
FlatText(t) == IF t = <<>> THEN "" ELSE t[1].s \o FlatText(Tail(t))

EmphHtml(t) == "<p>" \o FlatNodes(Result(t)) \o "</p>\n"

(* ---------------- theorems ---------------- *)
RECURSIVE NestedTags(_, _, _)
NestedTags(ns, i, stk) ==
  IF i > Len(ns) THEN stk = <<>>
  ELSE CASE ns[i].k = "O" -> NestedTags(ns, i + 1, Append(stk, <<ns[i].s, ns[i].c>>))
         [] ns[i].k = "C" -> stk # <<>> /\ stk[Len(stk)] = <<ns[i].s, ns[i].c>>
                             /\ NestedTags(ns, i + 1, SubSeq(stk, 1, Len(stk) - 1))
         [] OTHER -> NestedTags(ns, i + 1, stk)
RECURSIVE CountIn(_, _)
CountIn(t, c) == IF t = <<>> THEN 0 ELSE (IF t[1].c = c THEN 1 ELSE 0) + CountIn(Tail(t), c)
RECURSIVE CountOut(_, _)
CountOut(ns, c) ==
  IF ns = <<>> THEN 0
  ELSE (CASE ns[1].k = "d" /\ ns[1].c = c -> ns[1].n
          [] ns[1].k \in {"O", "C"} /\ ns[1].c = c -> (IF ns[1].s = "strong" THEN 2 ELSE 1)
          [] OTHER -> 0) + CountOut(Tail(ns), c)
RECURSIVE PlainIn(_)
PlainIn(t) == IF t = <<>> THEN <<>> ELSE (IF IsDelim(t[1]) THEN <<>> ELSE <<t[1].s>>) \o PlainIn(Tail(t))
RECURSIVE PlainOut(_)
PlainOut(ns) == IF ns = <<>> THEN <<>> ELSE (IF ns[1].k = "t" THEN <<ns[1].s>> ELSE <<>>) \o PlainOut(Tail(ns))

EmphTheorems(t) ==
  LET r == Result(t) IN
  /\ NestedTags(r, 1, <<>>)
  /\ \A c \in {"*", "_"} : CountIn(t, c) = CountOut(r, c)
  /\ PlainIn(t) = PlainOut(r)
  /\ (~\E i \in DOMAIN Tokens(t) : Tokens(t)[i].k = "d" /\ Tokens(t)[i].cl) => \A i \in DOMAIN r : r[i].k \in {"t", "d"}
=============================================================================
