CONSTANTS
 L1 = 10
 L2 = 7
 L3 = 5
INIT Init
NEXT Next
INVARIANT EmphOK
INVARIANT Emit
