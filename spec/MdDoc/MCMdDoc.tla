------------------------------ MODULE MCMdDoc ------------------------------
(* Configurations of MdDoc for C36: the pools of atoms / leaves / shapes, the exhaustive small scope
   (M + G, breadth-first) and the random larger scope (G, -simulate), and the emission of every
   finished document as JSON: text lines, trailing-newline flag, expected skeleton, a structural
   signature used for keys.  The .cfg is written by the executor (tier-dependent constants);
   MCMdDoc.cfg is the quick exhaustive configuration for running by hand. *)
EXTENDS MdDoc, Json

(* ---------------- inline pools ---------------- *)
B1  == <<W("a")>>
B2  == <<J(W("a"), "sp"), W("bb")>>
B3  == <<Lx("\\#")>>                              \* punctuation only
B4  == <<J(Lx("&#32;"), "none"), W("a")>>         \* space at the start of the content
B5  == <<J(W("a"), "none"), Lx("&#32;")>>         \* space at the end of the content
B6  == <<Code("`x`")>>
B7  == <<J(W("a"), "nl"), W("bb")>>               \* soft break inside
B8  == <<Lx("&NewLine;")>>                        \* newline character only
B9  == <<J(W("a"), "none"), Lx("\\!")>>           \* ends with punctuation
B10 == <<J(Lx("\\!"), "none"), W("a")>>           \* starts with punctuation
B11 == <<Lx("\\]")>>
B12 == <<J(W("a"), "sp"), J(Code("`x y`"), "sp"), W("bb")>>
B13 == <<J(W("a"), "none"), Br("\\"), W("bb")>>       \* hard break inside link text / image description
B14 == <<J(W("a"), "sp"), Br("  "), W("bb")>>

Words  == {W("a"), W("bb"), W("1")}
EscLex == {Lx("\\#"), Lx("\\-"), Lx("\\+"), Lx("\\>"), Lx("\\."), Lx("\\)"), Lx("\\*"), Lx("\\_"),
           Lx("\\["), Lx("\\]"), Lx("\\`"), Lx("\\\\"), Lx("\\<"), Lx("\\&"), Lx("\\!"), Lx("\\~"), Lx("!")}
EntLex == {Lx("&#35;"), Lx("&amp;"), Lx("&lt;"), Lx("&#32;"), Lx("&#9;"), Lx("&NewLine;"), Lx("&nbsp;"),
           Lx("&#x2A;"), Lx("&amp;amp;"), Lx("&#45;")}
Codes  == {Code("`x`"), Code("`x y`"), Code("`` ` ``"), Code("`a  b`"), Code("`  x  `"), Code("`` `x ``")}
Autos  == {Auto("<http://a.b>"), Auto("<x@y.z>"), Auto("<http://a.b/?q=1&amp;r>")}
EmBodies   == {B1, B2, B3, B4, B5, B6, B7, B8, B9, B10}
Emphs  == {Em(c, b) : c \in {"*", "_"}, b \in EmBodies} \cup {Strong(c, b) : c \in {"*", "_"}, b \in EmBodies}
Tails  == {"(u)", "(/a \"t\")", "(/a 't')", "(/a (t))", "(<a b>)", "()", "(u \"x y\")", "(a(b)c)",
           "(<> \"t\")", "(\\(u)", "(u 'i\\'s \"q\"')", "(u \"t&NewLine;v\")"}
LinkBodies == {B1, B2, B3, B6, B7, B11, B12, B13, B14}
Links  == {Link(b, "(u)") : b \in LinkBodies} \cup {Link(B1, t) : t \in Tails} \cup {Link(B2, "(u \"x y\")")}
          \cup {Link(B1, t) : t \in {"(<)(>)", "(\\)\\()", "(<(()>)", "(())", "(<a (b)>)", "(u \"(t)\")", "(u (\\(t\\)))", "(u \"a)b\")"}}
Imgs   == {Img(b, "(u)") : b \in {B1, B2, B7, B3, B13}} \cup {Img(B1, t) : t \in {"(/a \"t\")", "(<a b>)", "()", "(u \"x y\")"}}
Brs    == {Br("\\"), Br("  ")}

(* tokens that look like block starts: raw text, escaped spelling, may the raw text start a continuation
   line without interrupting the paragraph (for THIS parser: no setext headings), class of the first
   source character *)
Tok(raw, esc, cont, fc) == [raw |-> raw, esc |-> esc, cont |-> cont, fc |-> fc]
OrdToks  == {Tok("1.", "1\\.", FALSE, "w"), Tok("01.", "01\\.", FALSE, "w"), Tok("001)", "001\\)", FALSE, "w"),
             Tok("1)", "1\\)", FALSE, "w"), Tok("2.", "2\\.", TRUE, "w"), Tok("02)", "02\\)", TRUE, "w"),
             Tok("10.", "10\\.", TRUE, "w"), Tok("000000001.", "000000001\\.", FALSE, "w"),
             Tok("123456789)", "123456789\\)", TRUE, "w")}
BulToks  == {Tok("-", "\\-", FALSE, "p"), Tok("+", "\\+", FALSE, "p"), Tok("*", "\\*", FALSE, "p")}
HashToks == {Tok("#", "\\#", FALSE, "p"), Tok("###", "\\###", FALSE, "p"), Tok("#######", "\\#######", TRUE, "p")}
MiscToks == {Tok(">", "\\>", FALSE, "p"), Tok("```", "\\`\\`\\`", FALSE, "p"), Tok("~~~", "\\~~~", FALSE, "p"),
             Tok("---", "\\---", FALSE, "p"), Tok("***", "\\*\\*\\*", FALSE, "p"), Tok("___", "\\_\\_\\_", FALSE, "p"),
             Tok("- - -", "\\- - -", FALSE, "p"), Tok("=", "=", TRUE, "p"), Tok("===", "===", TRUE, "p"),
             Tok("--", "\\--", TRUE, "p")}
AllToks  == OrdToks \cup BulToks \cup HashToks \cup MiscToks
LineToks == {Tok("1.", "1\\.", FALSE, "w"), Tok("01.", "01\\.", FALSE, "w"), Tok("001)", "001\\)", FALSE, "w"),
             Tok("2.", "2\\.", TRUE, "w"), Tok("02)", "02\\)", TRUE, "w"), Tok("10.", "10\\.", TRUE, "w")}
            \cup BulToks \cup {Tok("#", "\\#", FALSE, "p"), Tok(">", "\\>", FALSE, "p"), Tok("~~~", "\\~~~", FALSE, "p"),
                               Tok("---", "\\---", FALSE, "p"), Tok("- - -", "\\- - -", FALSE, "p"), Tok("===", "===", TRUE, "p")}
MkAtoms(toks) == {Mk(t, e, tl) : t \in toks, e \in BOOLEAN, tl \in {"", " x"}}
(* the "line starts" scope: paragraphs of a word and such tokens, soft breaks as written *)
LineStartAtoms == {W("a"), W("bb")} \cup MkAtoms(LineToks)
LineJoins  == {"sp", "nl"}
NoLeaves   == {}
ParaWheel  == <<"para">>
LineAtomWheel == <<"w", "mk">>

FullAtoms == MkAtoms(AllToks) \cup Words \cup EscLex \cup EntLex \cup Codes \cup Autos \cup Emphs \cup Links \cup Imgs \cup Brs
CoreAtoms == {W("a"), W("1"), Lx("\\#"), Lx("\\-"), Lx("\\."), Lx("&#32;"), Lx("\\*"), Lx("&NewLine;"),
              Lx("\\~"), Lx("\\_"), Lx("!"),
              Code("`x y`"), Em("*", B1), Em("_", B3), Strong("*", B5), Strong("_", B1),
              Link(B1, "(u)"), Link(B2, "(u \"x y\")"), Img(B1, "(/a \"t\")"), Auto("<http://a.b>"), Br("\\")}
TinyAtoms == {W("a"), Lx("\\#"), Lx("\\+"), Code("`x y`"), Em("*", B4), Strong("_", B3), Link(B2, "(u)"), Br("\\")}

(* ---------------- leaf pools ---------------- *)
(* code lines that look like closing fences: 0-3 spaces (4 = the control that never closes) and a run of
   3-5 fence characters, alone or followed by text; in blocks fenced with the same and the other character *)
CodeFences == {Fence(0, "`", 4, "", <<CL(1, "`", 3, ""), PL("after")>>),
               Fence(0, "~", 3, "", <<CL(2, "`", 3, "")>>),
               Fence(0, "~", 4, " x`y", <<CL(1, "~", 3, "")>>),
               Fence(0, "`", 6, "", <<CL(3, "`", 5, ""), CL(0, "`", 4, " x")>>),
               Fence(0, "~", 6, "sh", <<CL(3, "~", 5, ""), CL(4, "~", 5, "")>>),
               Fence(0, "`", 3, "", <<CL(4, "`", 3, "")>>),
               Fence(0, "`", 3, "", <<CL(0, "`", 3, " x")>>),
               Fence(0, "~", 3, "", <<CL(1, "`", 4, ""), CL(2, "~", 3, " y")>>)}
CodeICodes == {ICode(<<CL(1, "`", 3, "")>>), ICode(<<PL("a"), CL(3, "~", 3, ""), CL(0, "`", 3, "")>>),
               ICode(<<CL(2, "`", 4, " x"), CL(0, "~", 5, "")>>)}
CodeLeaves == CodeFences \cup CodeICodes
LeafWheel  == <<"leaf", "leaf", "quote", "list">>
Fences == {Fence(0, "`", 3, "", <<>>),
           Fence(0, "`", 3, "sh", <<PL("x")>>),
           Fence(0, "~", 3, "", <<CL(0, "`", 3, "")>>),
           Fence(0, "`", 4, " a b", <<CL(0, "~", 3, ""), PL(""), CL(2, "", 0, "y")>>),
           Fence(0, "~", 4, "sh", <<PL(""), PL("x")>>),
           Fence(0, "~", 3, " x`y", <<PL("- z")>>),
           Fence(0, "`", 3, "a\\\\b&amp;c \\&lt;", <<RL("> q", "&gt; q")>>)} \cup CodeFences
ICodes == {ICode(<<PL("x")>>), ICode(<<PL("x"), PL(""), CL(2, "", 0, "y")>>)} \cup CodeICodes
Thems  == {Them(0, "*", "***"), Them(0, "-", "---"), Them(0, "_", "___"), Them(0, "*", "* * *"),
           Them(0, "-", "- - -"), Them(0, "-", "-----")}
Htmls  == {Html(0, <<"<div>", "x", "</div>">>), Html(0, <<"<!-- c -->">>),
           Html(0, <<"<pre>", "", "y", "</pre>">>), Html(0, <<"<b>">>), Html(0, <<"<?php", "?>">>)}
FullLeaves == Fences \cup ICodes \cup Thems \cup Htmls
CoreLeaves == {Fence(0, "`", 3, "sh", <<PL("x")>>), Fence(0, "~", 3, "", <<CL(0, "`", 3, "")>>), ICode(<<PL("x")>>),
               Them(0, "*", "***"), Them(0, "-", "---"), Html(0, <<"<div>", "x", "</div>">>)}
TinyLeaves == {Fence(0, "~", 3, "", <<CL(0, "`", 3, "")>>), Them(0, "-", "---"), Html(0, <<"<b>">>)}

(* ---------------- shapes ---------------- *)
FullAtx    == {[lvl |-> 1, closer |-> ""], [lvl |-> 2, closer |-> " #"], [lvl |-> 6, closer |-> " ##  "], [lvl |-> 3, closer |-> ""], [lvl |-> 4, closer |-> " {#id}"]}
CoreAtx    == {[lvl |-> 1, closer |-> ""], [lvl |-> 2, closer |-> " #"]}
FullQuotes == {[ind |-> 0, marker |-> "> "], [ind |-> 0, marker |-> ">"], [ind |-> 2, marker |-> "> "], [ind |-> 3, marker |-> ">"]}
CoreQuotes == {[ind |-> 0, marker |-> "> "], [ind |-> 1, marker |-> ">"]}
LS(k, ind, c, n, p, loose) == [k |-> k, ind |-> ind, c |-> c, n |-> n, p |-> p, loose |-> loose]
FullLists  == {LS("ulist", ind, c, 0, p, l) : ind \in {0, 2}, c \in {"-", "+", "*"}, p \in {0, 1, 3, 4}, l \in BOOLEAN}
              \cup {LS("olist", ind, c, n, p, l) : ind \in {0, 3}, c \in {".", ")"}, n \in {1, 7, 10}, p \in {0, 1, 2}, l \in BOOLEAN}
CoreLists  == {LS("ulist", 0, "-", 0, 1, TRUE), LS("ulist", 0, "*", 0, 3, FALSE), LS("ulist", 2, "+", 0, 1, TRUE),
               LS("olist", 0, ".", 1, 1, TRUE), LS("olist", 0, ")", 7, 2, FALSE)}
TinyLists  == {LS("ulist", 0, "-", 0, 1, TRUE), LS("ulist", 0, "*", 0, 3, FALSE), LS("olist", 0, ".", 1, 1, FALSE)}
(* the "blank-start" scope: items that start with a blank line, empty items followed by one or two
   blank lines and an indented paragraph, at top level and inside blockquotes / list items *)
BlankLists == {LS("ulist", 0, "-", 0, 0, TRUE), LS("olist", 0, ")", 7, 0, FALSE)}
BlankWheel == <<"para", "quote", "list">>
WordOnly   == {W("a")}
WordWheel  == <<"w">>
(* the "link-tails" scope: destinations over parentheses in every order and nesting, bare / escaped /
   in angle brackets, titles in the three quote styles *)
ParenTails == {"(<)(>)", "(\\)\\()", "(<(()>)", "(\\(\\(\\))", "(<)>)", "(\\))", "(<(>)", "(())", "((()))", "(a(b)c)", "(\\(u)",
               "(<a (b)>)", "(<a b>)", "(u \"(t)\")", "(u '(t)')", "(/a (t))", "(u (\\(t\\)))", "(u \"a)b\")", "(u ')(')",
               "(<)(> \"t\")", "(u)", "()", "(<> \"t\")", "(u 'i\\'s \"q\"')"}
TailAtoms  == {W("a")} \cup {Link(B1, t) : t \in ParenTails}
              \cup {Img(B1, t) : t \in {"(<)(>)", "(\\)\\()", "(<(()>)", "(())", "(<a (b)>)", "(u \"(t)\")", "(u (\\(t\\)))", "(<)(> \"t\")"}}
TailWheel  == <<"w", "link", "img">>
SpOnly     == {"sp"}
TinyAtx    == {[lvl |-> 2, closer |-> " #"]}
TinyQuotes == {[ind |-> 0, marker |-> "> "]}

AllJoins  == {"sp", "nl", "none"}
CoreJoins == {"sp", "none"}
FullWheel == <<"para", "para", "para", "para", "atx", "leaf", "quote", "list", "list">>
FlatWheel == <<"para", "atx", "leaf", "quote", "list">>
FullAtomWheel == <<"w", "w", "lex", "lex", "mk", "mk", "mk", "code", "em", "strong", "link", "img", "auto", "br">>
FlatAtomWheel == <<"w", "lex", "mk", "code", "em", "strong", "link", "img", "auto", "br">>

ASSUME MaxBlocks <= MaxNodes /\ "sp" \in JoinSet

(* ---------------- emission ---------------- *)
RECURSIVE SigInl(_)
SigInl(q) == IF q = <<>> THEN "" ELSE q[1].k \o (IF Len(q) = 1 THEN "" ELSE "," \o SigInl(Tail(q)))
RECURSIVE Sig(_)
RECURSIVE SigItems(_, _)
SigBlock(b) ==
  CASE b.k \in {"para", "atx"} -> b.k \o "[" \o SigInl(b.inl) \o "]"
    [] b.k \in {"fence", "icode", "them", "html"} -> b.k
    [] b.k = "quote" -> "quote(" \o Sig(b.items[1]) \o ")"
    [] b.k \in ListKinds -> b.k \o "(" \o SigItems(b, 1) \o ")"
SigItems(b, i) == IF i > Len(b.items) THEN "" ELSE "{" \o Sig(b.items[i]) \o "}" \o SigItems(b, i + 1)
Sig(bs) == IF bs = <<>> THEN "" ELSE SigBlock(bs[1]) \o (IF Len(bs) = 1 THEN "" ELSE " " \o Sig(Tail(bs)))

Emit == fin # <<>> =>
          PrintT(ToJson([lines |-> Write(fin[1].doc), trail |-> fin[1].trail,
                         skel |-> Skel(fin[1].doc), sig |-> Sig(fin[1].doc)]))
=============================================================================
