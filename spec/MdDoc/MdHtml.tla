------------------------------- MODULE MdHtml -------------------------------
(* C35 -- the HTML that the CommonMark specification (0.31.2) prescribes for a document TREE of MdDoc.

   The oracle is the tree, not the text: MdDoc!Write(doc) is the Markdown, HtmlOf(doc) below is the
   rendering CommonMark's rules give to the tree, in the serialisation of the reference
   implementation (the format of the 652 reference outputs shipped in pkg/md/spec/spec.json, against
   which this transcription was calibrated):

     para      <p>INLINE</p>\n                      atx     <hN>INLINE</hN>\n   (closing #s dropped)
     fence     <pre><code class="language-W">LINES</code></pre>\n   W = first word of the info string after
               backslash/entity decoding; each body line HTML-escaped and followed by \n
     icode     <pre><code>LINES</code></pre>\n       them    <hr />\n
     html      the lines verbatim (leading spaces of the first line are content)
     quote     <blockquote>\n BLOCKS </blockquote>\n
     ulist     <ul>\n ITEMS </ul>\n                 olist   <ol>\n  or  <ol start="N">\n  (N # 1)
     item      <li>\n BLOCKS </li>\n   (loose list)  ;  empty item  <li></li>\n
     inline    word/lexeme/look-alike: its characters, HTML-escaped (& < > ")
               code <code>C</code>   em <em>..</em>   strong <strong>..</strong>
               link <a href="H" title="T">..</a>      img <img src="H" alt="A" title="T" />
               autolink <a href="U">U</a>   hard break <br />\n   soft break \n
               a join "sp" is one space -- dropped before a two-space hard break, kept before a
               backslash hard break; "none" is nothing

   The meaning of the leaf vocabulary (what characters a lexeme / code span / link tail / info string
   of the pools denotes, already HTML-escaped) is given by the tables *Tab below, written from the
   CommonMark sections on backslash escapes, character references, code spans, links and fenced
   code blocks.  A spelling that is not in a table makes the document Unspecified.

   Unspecified(doc) (skipped and counted, both outcomes accepted) -- the documented omissions of
   pkg/md and the places where the TEXT of a tree means a different CommonMark document:
     tight      a list that is tight in CommonMark (no blank line between items and no item with two
                blocks) and has a paragraph directly in an item -- the only place where tightness
                shows: pkg/md renders every list loose (documented omission)
     attr       ATX heading with the {#id} extension
     setext     a raw = / === / -- at the start of a continuation line (CommonMark: setext heading)
     closer     an ATX heading without closing sequence whose last atom is a raw # run
     bang       a literal ! directly before a link (CommonMark: an image)
     ticks      backtick runs that would pair differently when written next to each other
     swallow    a fenced block in a blockquote written with ">" and no space (one space of the
                code lines belongs to the marker)
     vocab      a spelling without an entry in the tables

   Theorems checked by TLC on finished documents (M): the tag tokens of HtmlOf(doc) are balanced and
   properly nested; text tokens come only from the tables; HtmlOf(doc) ends with a newline token;
   HtmlOf(Erase(doc)) = HtmlOf(doc) (no syntactic variant changes the rendering). *)
EXTENDS MdDoc

-----------------------------------------------------------------------------
(* tokens *)
O(n, s) == [k |-> "o", n |-> n, s |-> s]        \* opening tag
C(n)    == [k |-> "c", n |-> n, s |-> "</" \o n \o ">"]
V(s)    == [k |-> "v", n |-> "", s |-> s]       \* void tag / verbatim HTML
T(s)    == [k |-> "t", n |-> "", s |-> s]       \* character data (already escaped)
NL      == T("\n")
RECURSIVE Flat(_)
Flat(ts) == IF ts = <<>> THEN "" ELSE ts[1].s \o Flat(Tail(ts))

-----------------------------------------------------------------------------
(* the leaf vocabulary: spelling -> escaped characters *)
LexTab ==
  [s \in {"\\#", "&#35;"} |-> "#"] @@ [s \in {"\\-", "&#45;"} |-> "-"] @@ [s \in {"\\*", "&#x2A;"} |-> "*"]
  @@ ("\\+" :> "+") @@ ("\\>" :> "&gt;") @@ ("\\." :> ".") @@ ("\\)" :> ")") @@ ("\\_" :> "_")
  @@ ("\\[" :> "[") @@ ("\\]" :> "]") @@ ("\\`" :> "`") @@ ("\\\\" :> "\\") @@ ("\\<" :> "&lt;")
  @@ ("\\&" :> "&amp;") @@ ("\\!" :> "!") @@ ("\\~" :> "~") @@ ("!" :> "!")
  @@ ("&amp;" :> "&amp;") @@ ("&lt;" :> "&lt;") @@ ("&#32;" :> " ") @@ ("&#9;" :> "\t")
  @@ ("&NewLine;" :> "\n") @@ ("&amp;amp;" :> "&amp;amp;")
  @@ ("&gt;" :> "&gt;") @@ ("&apos;" :> "'") @@ ("&Tab;" :> "\t") @@ ("&#x26;" :> "&amp;")
  @@ ("&quote;" :> "&amp;quote;")     \* not an HTML5 entity name: the characters stay as they are
CodeTab ==
  ("`x`" :> "x") @@ ("`x y`" :> "x y") @@ ("`` ` ``" :> "`") @@ ("`a  b`" :> "a  b")
  @@ ("`  x  `" :> " x ") @@ ("`` `x ``" :> "`x")
AutoTab ==
  ("<http://a.b>" :> [href |-> "http://a.b", text |-> "http://a.b"])
  @@ ("<x@y.z>" :> [href |-> "mailto:x@y.z", text |-> "x@y.z"])
TailTab ==
  ("(u)" :> [href |-> "u", title |-> ""]) @@ ("(/a \"t\")" :> [href |-> "/a", title |-> "t"])
  @@ ("(/a 't')" :> [href |-> "/a", title |-> "t"]) @@ ("(/a (t))" :> [href |-> "/a", title |-> "t"])
  @@ ("(<a b>)" :> [href |-> "a%20b", title |-> ""]) @@ ("()" :> [href |-> "", title |-> ""])
  @@ ("(u \"x y\")" :> [href |-> "u", title |-> "x y"]) @@ ("(a(b)c)" :> [href |-> "a(b)c", title |-> ""])
  @@ ("(<> \"t\")" :> [href |-> "", title |-> "t"]) @@ ("(\\(u)" :> [href |-> "(u", title |-> ""])
  @@ ("(u 'i\\'s \"q\"')" :> [href |-> "u", title |-> "i's &quot;q&quot;"])
  @@ ("(u \"t&NewLine;v\")" :> [href |-> "u", title |-> "t\nv"])
  @@ [t \in {"(<)(>)", "(\\)\\()"} |-> [href |-> ")(", title |-> ""]]
  @@ [t \in {"(<(()>)", "(\\(\\(\\))"} |-> [href |-> "(()", title |-> ""]]
  @@ [t \in {"(<)>)", "(\\))"} |-> [href |-> ")", title |-> ""]] @@ ("(<(>)" :> [href |-> "(", title |-> ""])
  @@ ("(())" :> [href |-> "()", title |-> ""]) @@ ("((()))" :> [href |-> "(())", title |-> ""])
  @@ ("(<a (b)>)" :> [href |-> "a%20(b)", title |-> ""])
  @@ [t \in {"(u \"(t)\")", "(u '(t)')", "(u (\\(t\\)))"} |-> [href |-> "u", title |-> "(t)"]]
  @@ ("(u \"a)b\")" :> [href |-> "u", title |-> "a)b"]) @@ ("(u ')(')" :> [href |-> "u", title |-> ")("])
  @@ ("(<)(> \"t\")" :> [href |-> ")(", title |-> "t"])
\* look-alike tokens: spelling (raw or escaped, with tail) -> characters.  The token part:
MkTab ==
  [s \in {"1.", "1\\."} |-> "1."] @@ [s \in {"01.", "01\\."} |-> "01."] @@ [s \in {"001)", "001\\)"} |-> "001)"]
  @@ [s \in {"1)", "1\\)"} |-> "1)"] @@ [s \in {"2.", "2\\."} |-> "2."] @@ [s \in {"02)", "02\\)"} |-> "02)"]
  @@ [s \in {"10.", "10\\."} |-> "10."] @@ [s \in {"000000001.", "000000001\\."} |-> "000000001."]
  @@ [s \in {"123456789)", "123456789\\)"} |-> "123456789)"]
  @@ [s \in {"-", "\\-"} |-> "-"] @@ [s \in {"+", "\\+"} |-> "+"] @@ [s \in {"*", "\\*"} |-> "*"]
  @@ [s \in {"#", "\\#"} |-> "#"] @@ [s \in {"###", "\\###"} |-> "###"] @@ [s \in {"#######", "\\#######"} |-> "#######"]
  @@ [s \in {">", "\\>"} |-> "&gt;"] @@ [s \in {"```", "\\`\\`\\`"} |-> "```"] @@ [s \in {"~~~", "\\~~~"} |-> "~~~"]
  @@ [s \in {"---", "\\---"} |-> "---"] @@ [s \in {"***", "\\*\\*\\*"} |-> "***"] @@ [s \in {"___", "\\_\\_\\_"} |-> "___"]
  @@ [s \in {"- - -", "\\- - -"} |-> "- - -"] @@ ("=" :> "=") @@ ("===" :> "===") @@ [s \in {"--", "\\--"} |-> "--"]
MkH(s) == IF s \in DOMAIN MkTab THEN MkTab[s] ELSE "?"
\* an mk atom's spelling is token \o tail with tail "" or " x"; the builder records the pieces
\* only in the spelling, so both candidates are tried
MkKnown(a) == a.s \in DOMAIN MkTab \/ (a.lc = "w" /\ \E t \in DOMAIN MkTab : a.s = t \o " x")
MkText(a)  == IF a.lc = "w" THEN MkTab[CHOOSE t \in DOMAIN MkTab : a.s = t \o " x"] \o " x" ELSE MkTab[a.s]
MkRawSetext(a) == a.k = "mk" /\ ~a.e /\ (a.s \in {"=", "===", "--"} \/ \E t \in {"=", "===", "--"} : a.s = t \o " x")
MkRawHashEnd(a) == a.k = "mk" /\ ~a.e /\ a.s \in {"#", "###", "#######"}
MkRawTicks(a) == a.k = "mk" /\ ~a.e /\ (a.s = "```" \/ a.s = "``` x")

InfoTab ==    \* info string -> language ("" = none), escaped
  ("" :> "") @@ ("sh" :> "sh") @@ (" a b" :> "a") @@ (" x`y" :> "x`y") @@ ("a\\\\b&amp;c \\&lt;" :> "a\\b&amp;c")
LineTab ==    \* code line -> escaped
  ("" :> "") @@ ("x" :> "x") @@ ("y" :> "y") @@ ("  y" :> "  y") @@ ("```" :> "```") @@ ("~~~" :> "~~~")
  @@ ("- z" :> "- z") @@ ("> q" :> "&gt; q")

-----------------------------------------------------------------------------
(* inline content *)
AtomKnown(a) ==
  CASE a.k = "w"    -> TRUE
    [] a.k = "lex"  -> a.s \in DOMAIN LexTab
    [] a.k = "mk"   -> MkKnown(a)
    [] a.k = "code" -> a.s \in DOMAIN CodeTab
    [] a.k = "auto" -> a.s \in DOMAIN AutoTab
    [] a.k \in {"link", "img"} -> a.t \in DOMAIN TailTab
    [] OTHER -> TRUE
RECURSIVE InlKnown(_)
InlKnown(q) == \A i \in DOMAIN q : AtomKnown(q[i]) /\ (q[i].body # <<>> => InlKnown(q[i].body))

\* what stands between atom i and atom i+1
JoinT(q, i) ==
  IF i = Len(q) THEN <<>>
  ELSE CASE q[i].j = "none" -> <<>>
         [] q[i].j = "nl"   -> <<NL>>
         [] q[i].j = "sp"   -> IF q[i + 1].k = "br" /\ q[i + 1].c = "  " THEN <<>> ELSE <<T(" ")>>

\* plain characters of an inline sequence (image description)
RECURSIVE Alt(_)
AltAtom(a) ==
  CASE a.k = "w" -> a.s [] a.k = "lex" -> LexTab[a.s] [] a.k = "mk" -> MkText(a)
    [] a.k = "code" -> CodeTab[a.s] [] a.k = "br" -> "" [] OTHER -> Alt(a.body)
Alt(q) == IF q = <<>> THEN ""
          ELSE AltAtom(q[1]) \o Flat(JoinT(q, 1)) \o Alt(Tail(q))

RECURSIVE Inl(_)
AtomT(a) ==
  CASE a.k = "w"      -> <<T(a.s)>>
    [] a.k = "lex"    -> <<T(LexTab[a.s])>>
    [] a.k = "mk"     -> <<T(MkText(a))>>
    [] a.k = "code"   -> <<O("code", "<code>"), T(CodeTab[a.s]), C("code")>>
    [] a.k = "em"     -> <<O("em", "<em>")>> \o Inl(a.body) \o <<C("em")>>
    [] a.k = "strong" -> <<O("strong", "<strong>")>> \o Inl(a.body) \o <<C("strong")>>
    [] a.k = "link"   -> LET tl == TailTab[a.t] IN
                         <<O("a", "<a href=\"" \o tl.href \o "\""
                                  \o (IF tl.title = "" THEN "" ELSE " title=\"" \o tl.title \o "\"") \o ">")>>
                         \o Inl(a.body) \o <<C("a")>>
    [] a.k = "img"    -> LET tl == TailTab[a.t] IN
                         <<V("<img src=\"" \o tl.href \o "\" alt=\"" \o Alt(a.body) \o "\""
                             \o (IF tl.title = "" THEN "" ELSE " title=\"" \o tl.title \o "\"") \o " />")>>
    [] a.k = "auto"   -> LET u == AutoTab[a.s] IN
                         <<O("a", "<a href=\"" \o u.href \o "\">"), T(u.text), C("a")>>
    [] a.k = "br"     -> <<V("<br />")>>
Inl(q) == IF q = <<>> THEN <<>>
          ELSE AtomT(q[1]) \o JoinT(q, 1) \o Inl(Tail(q))

-----------------------------------------------------------------------------
(* blocks *)
HName(n) == "h" \o ToString(n)
RECURSIVE CodeLines(_)
CodeLines(ls) == IF ls = <<>> THEN <<>> ELSE <<T(ls[1].h \o "\n")>> \o CodeLines(Tail(ls))   \* ls: line records (MdDoc!CL / RL)

\* loose in CommonMark: blank line between two items, or an item with two blocks (Write separates
\* sibling blocks by a blank line)
CMLoose(b) == (b.loose /\ Len(b.items) >= 2) \/ \E i \in DOMAIN b.items : Len(b.items[i]) >= 2

RECURSIVE Blocks(_)
RECURSIVE Items(_, _)
BlockT(b) ==
  CASE b.k = "para"  -> <<O("p", "<p>")>> \o Inl(b.inl) \o <<C("p"), NL>>
    [] b.k = "atx"   -> <<O(HName(b.n), "<" \o HName(b.n) \o ">")>> \o Inl(b.inl) \o <<C(HName(b.n)), NL>>
    [] b.k = "fence" -> <<O("pre", "<pre>"),
                          O("code", IF InfoTab[b.s] = "" THEN "<code>"
                                    ELSE "<code class=\"language-" \o InfoTab[b.s] \o "\">")>>
                        \o CodeLines(b.cls) \o <<C("code"), C("pre"), NL>>
    [] b.k = "icode" -> <<O("pre", "<pre>"), O("code", "<code>")>> \o CodeLines(b.cls) \o <<C("code"), C("pre"), NL>>
    [] b.k = "them"  -> <<V("<hr />"), NL>>
    [] b.k = "html"  -> <<V(Spaces(b.ind) \o b.body[1] \o "\n")>>
                        \o [i \in 1..(Len(b.body) - 1) |-> V(b.body[i + 1] \o "\n")]
    [] b.k = "quote" -> <<O("blockquote", "<blockquote>"), NL>> \o Blocks(b.items[1]) \o <<C("blockquote"), NL>>
    [] b.k = "ulist" -> <<O("ul", "<ul>"), NL>> \o Items(b, 1) \o <<C("ul"), NL>>
    [] b.k = "olist" -> <<O("ol", IF b.n = 1 THEN "<ol>" ELSE "<ol start=\"" \o ToString(b.n) \o "\">"), NL>>
                        \o Items(b, 1) \o <<C("ol"), NL>>
Items(b, i) ==
  IF i > Len(b.items) THEN <<>>
  ELSE (IF b.items[i] = <<>> THEN <<O("li", "<li>"), C("li"), NL>>
        ELSE <<O("li", "<li>"), NL>> \o Blocks(b.items[i]) \o <<C("li"), NL>>)
       \o Items(b, i + 1)
Blocks(bs) == IF bs = <<>> THEN <<>> ELSE BlockT(bs[1]) \o Blocks(Tail(bs))

Tokens(doc) == Blocks(doc)
HtmlOf(doc)   == Flat(Tokens(doc))

-----------------------------------------------------------------------------
(* Unspecified *)
HasTicks(a) == a.k = "code" \/ (a.k = "lex" /\ a.s = "\\`") \/ MkRawTicks(a)
InlUnspec(q, atx, closer) ==
  IF ~InlKnown(q) THEN "vocab"
  ELSE IF \E i \in 1..(Len(q) - 1) : q[i].k = "lex" /\ q[i].s = "!" /\ q[i].j = "none" /\ q[i + 1].k = "link" THEN "bang"
  ELSE IF \E i \in 1..(Len(q) - 1) : HasTicks(q[i]) /\ HasTicks(q[i + 1]) /\ q[i].j = "none" THEN "ticks"
  ELSE IF \E i \in DOMAIN q : MkRawTicks(q[i]) /\ \E x \in DOMAIN q : x # i /\ HasTicks(q[x]) THEN "ticks"
  ELSE IF \E i \in 2..Len(q) : MkRawSetext(q[i]) /\ q[i - 1].j = "nl" THEN "setext"
  ELSE IF atx /\ closer = "" /\ MkRawHashEnd(q[Len(q)]) THEN "closer"
  ELSE ""
RECURSIVE BodyTicks(_)
BodyTicks(q) == \E i \in DOMAIN q : (q[i].body # <<>> /\
                  (\E x \in 1..(Len(q[i].body) - 1) : HasTicks(q[i].body[x]) /\ HasTicks(q[i].body[x + 1]) /\ q[i].body[x].j = "none"))
RECURSIVE BlocksUnspec(_, _)
BlockUnspec(b, inBareQuote) ==
  CASE b.k = "para"  -> IF BodyTicks(b.inl) THEN "ticks" ELSE InlUnspec(b.inl, FALSE, "")
    [] b.k = "atx"   -> IF b.s = " {#id}" THEN "attr"
                        ELSE IF BodyTicks(b.inl) THEN "ticks" ELSE InlUnspec(b.inl, TRUE, b.s)
    [] b.k = "fence" -> IF inBareQuote THEN "swallow"
                        ELSE IF b.s \notin DOMAIN InfoTab THEN "vocab" ELSE ""
    [] b.k = "icode" -> ""
    [] b.k \in {"them", "html"} -> ""
    [] b.k = "quote" -> BlocksUnspec(b.items[1], b.s = ">")
    [] b.k \in ListKinds ->
         IF ~CMLoose(b) /\ \E i \in DOMAIN b.items : \E x \in DOMAIN b.items[i] : b.items[i][x].k = "para" THEN "tight"
         ELSE LET rs == {BlocksUnspec(b.items[i], FALSE) : i \in DOMAIN b.items} \ {""}
              IN IF rs = {} THEN "" ELSE CHOOSE r \in rs : TRUE
BlocksUnspec(bs, inBareQuote) ==
  LET rs == {BlockUnspec(bs[i], inBareQuote) : i \in DOMAIN bs} \ {""}
  IN IF rs = {} THEN "" ELSE CHOOSE r \in rs : TRUE
Unspecified(doc) == BlocksUnspec(doc, FALSE)      \* "" = specified

-----------------------------------------------------------------------------
(* theorems about Html *)
RECURSIVE Nested(_, _, _)
Nested(ts, i, stk) ==      \* tags are balanced and properly nested
  IF i > Len(ts) THEN stk = <<>>
  ELSE CASE ts[i].k = "o" -> Nested(ts, i + 1, Append(stk, ts[i].n))
         [] ts[i].k = "c" -> stk # <<>> /\ stk[Len(stk)] = ts[i].n
                             /\ Nested(ts, i + 1, SubSeq(stk, 1, Len(stk) - 1))
         [] OTHER -> Nested(ts, i + 1, stk)
BlockTags == {"p", "h1", "h2", "h3", "h4", "h5", "h6", "pre", "blockquote", "ul", "ol", "li"}
RECURSIVE NoBlockInInline(_, _, _)
NoBlockInInline(ts, i, depth) ==   \* nothing but inline content inside <p> and <hN>
  IF i > Len(ts) THEN TRUE
  ELSE LET leaf == ts[i].n \in {"p", "h1", "h2", "h3", "h4", "h5", "h6"} IN
       CASE ts[i].k = "o" -> (depth > 0 => ts[i].n \notin BlockTags)
                             /\ NoBlockInInline(ts, i + 1, IF leaf \/ depth > 0 THEN depth + 1 ELSE 0)
         [] ts[i].k = "c" -> NoBlockInInline(ts, i + 1, IF depth > 0 THEN depth - 1 ELSE 0)
         [] OTHER -> NoBlockInInline(ts, i + 1, depth)
HtmlWellFormed(doc) ==
  LET ts == Tokens(doc) IN
  /\ ts # <<>>
  /\ ts[Len(ts)].s = "\n" \/ ts[Len(ts)].k = "v"
  /\ Nested(ts, 1, <<>>)
  /\ NoBlockInInline(ts, 1, 0)
  /\ HtmlOf(Erase(doc)) = HtmlOf(doc)
=============================================================================
