------------------------------ MODULE JudgeEmph ------------------------------
(* C35: the emphasis examples of the CommonMark specification shipped in pkg/md/spec/spec.json, judged
   against Emphasis.tla.  A case: chars (the example's single line as [s, c] with the character class
   evaluated by the executor for ASCII), want = the reference implementation's HTML, got = the real
   renderer's HTML.  "ref": the transcription disagrees with the reference output (a defect of
   Emphasis.tla: machinery, exit 2); "real": the real renderer disagrees with the transcription. *)
EXTENDS Emphasis, Json
Cases == ndJsonDeserialize("cases.ndjson")
VARIABLE k
Init == k = 0
Next == k < Len(Cases) /\ k' = k + 1
Inv == k = 0 \/ LET c == Cases[k]
                    h == EmphHtml(c.chars)
                IN /\ (h = c.want \/ PrintT(<<"BAD", k, "ref">>))
                   /\ (h = c.got \/ PrintT(<<"BAD", k, "real">>))
=============================================================================
