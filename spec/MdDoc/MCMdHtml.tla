------------------------------ MODULE MCMdHtml ------------------------------
(* C35: configurations of MdHtml -- the pools and scopes of MCMdDoc, the theorems of MdHtml as an
   invariant on finished documents, and the emission of every finished document with the HTML that
   CommonMark prescribes for its tree (or the reason why it is Unspecified). *)
EXTENDS MCMdDoc, MdHtml

(* scopes of C35 beyond those of C36 *)
EntityAtoms == {W("a"), Lx("&quote;"), Lx("&amp;"), Lx("&lt;"), Lx("&gt;"), Lx("&apos;"), Lx("&Tab;"), Lx("&NewLine;"),
                Lx("&#35;"), Lx("&#x26;"), Lx("\\&"), Lx("&amp;amp;"), Lx("\\<"), Lx("&#32;")}
EntityAtomWheel == <<"w", "lex">>
BreakAtoms == {W("a"), Code("`x`"), Em("*", B1), Link(B1, "(u)"), Link(B1, "(/a (t))"), Lx("&#32;"), Br("  "), Br("\\")}
BreakAtomWheel == <<"w", "code", "em", "link", "lex", "br">>
LooseAtoms == {W("a"), Em("*", B1), Code("`x`")}
LooseLists == {LS("ulist", 0, "-", 0, 1, TRUE), LS("ulist", 0, "+", 0, 3, FALSE),
               LS("olist", 0, ".", 7, 2, TRUE), LS("olist", 0, ")", 0, 1, FALSE)}
LooseWheel == <<"list", "para", "leaf", "quote">>
LooseAtomWheel == <<"w", "em", "code">>

HtmlOK == fin # <<>> => (Unspecified(fin[1].doc) = "" => HtmlWellFormed(fin[1].doc))

EmitH == fin # <<>> =>
          LET d == fin[1].doc
              u == Unspecified(d)
          IN PrintT(ToJson([lines |-> Write(d), trail |-> fin[1].trail, skel |-> Skel(d), sig |-> Sig(d),
                            unspec |-> u, html |-> IF u = "" THEN HtmlOf(d) ELSE ""]))
=============================================================================
