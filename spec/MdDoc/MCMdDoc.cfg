CONSTANTS
  MaxBlocks = 2
  MaxKids = 1
  MaxItems = 2
  MaxDepth = 1
  MaxInl = 2
  MaxNodes = 2
  MaxAtoms = 2
  AtomPool <- TinyAtoms
  JoinSet <- CoreJoins
  LeafPool <- TinyLeaves
  Indents = {0}
  QuoteShapes <- TinyQuotes
  ListShapes <- TinyLists
  AtxShapes <- TinyAtx
  Trails = {TRUE}
  Gaps = {0}
  KindWheel <- FlatWheel
  AtomWheel <- FlatAtomWheel
INIT Init
NEXT Next
INVARIANT TypeOK
INVARIANT PartialOK
INVARIANT FinishedOK
INVARIANT Emit
