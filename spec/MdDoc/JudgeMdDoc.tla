----------------------------- MODULE JudgeMdDoc -----------------------------
(* C36, V half: the relations between RECORDED outputs of the real code (md.RenderString with
   HTMLCodec / FmtCodec) for one input x, judged case by case (lib.Judge).

   A case (written by the executor; strings are the recorded outputs, *b fields their bytes):
     h0  = Html(x)        f = Fmt(x)          hf = Html(f)        ff = Fmt(f)        h0b = bytes(h0)
     hasP: x contains the literal text "<p>" or "</p>"
     rf  = one record per reflow width w > 0:
           fr = FmtW(x, w)   hr = Html(fr)   hrb = bytes(hr)   f0r = Fmt(fr)
           lines = the lines of fr: [para |-> the line belongs to a paragraph of fr (real parser),
                                     w |-> display width (wcwidth, evaluated by the executor),
                                     b |-> bytes]

   Relations (property C36):
     HtmlPreserved    hf = h0                           formatting keeps the rendered HTML
     Idempotent       ff = f                            formatting the output again changes nothing
     ReflowFixpoint   f0r = fr                          ... also when the output was produced with reflow
                                                        (the repository's own fuzz target
                                                        FuzzReflowFmtResultIsUnchangedUnderFmt)
     ReflowPreserved  NormWS(hr) = NormWS(h0)           same HTML up to whitespace inside paragraphs:
                                                        inside <p>..</p> whitespace runs count as one
                                                        space, and not at all at the ends or next to <br />
     FitsWidth        a paragraph line wider than w has no breakable space

   Breakable space: a space of a paragraph line after the container markers that is outside code
   spans, outside <...>, and outside the stretch from the first unescaped "[" to the last ")" of the
   line (link text, destination and title are never broken).  Backslash escapes are skipped.

   Unspecified (accepted either way):
     * ReflowPreserved when hasP: the paragraphs cannot be located in the HTML.
     * FitsWidth for a line whose content starts with "<" or "&NewLine;<": the formatter prefixes
       such a line so that it does not become an HTML block, which no line break can avoid. *)
EXTENDS Integers, Sequences, TLC, Json

Cases == ndJsonDeserialize("cases.ndjson")
VARIABLE k
Init == k = 0
Next == k < Len(Cases) /\ k' = k + 1

(* ---------------- NormWS on byte sequences ---------------- *)
PO == <<60, 112, 62>>                   \* <p>
PC == <<60, 47, 112, 62>>               \* </p>
BR == <<60, 98, 114, 32, 47, 62>>       \* <br />
IsWS(b) == b \in {32, 9, 10}
At(s, i, pat) == i + Len(pat) - 1 <= Len(s) /\ SubSeq(s, i, i + Len(pat) - 1) = pat

\* mode "out": outside paragraphs; "start": in a paragraph, at its start or after <br />;
\* "in": in a paragraph after some content.  pend: whitespace seen since the last content.
RECURSIVE NW(_, _, _, _, _)
NW(s, i, mode, pend, out) ==
  IF i > Len(s) THEN out
  ELSE IF mode = "out"
       THEN IF At(s, i, PO) THEN NW(s, i + 3, "start", FALSE, out \o PO)
            ELSE NW(s, i + 1, "out", FALSE, Append(out, s[i]))
  ELSE IF IsWS(s[i]) THEN NW(s, i + 1, mode, mode = "in", out)
  ELSE IF At(s, i, PC) THEN NW(s, i + 4, "out", FALSE, out \o PC)
  ELSE IF At(s, i, BR) THEN NW(s, i + 6, "start", FALSE, out \o BR)
  ELSE NW(s, i + 1, "in", FALSE, (IF pend THEN Append(out, 32) ELSE out) \o <<s[i]>>)
NormWS(s) == NW(s, 1, "out", FALSE, <<>>)

(* ---------------- breakable spaces of a paragraph line ---------------- *)
IsDigit(b) == b >= 48 /\ b <= 57
RECURSIVE DigitsEnd(_, _)
DigitsEnd(s, i) == IF i <= Len(s) /\ IsDigit(s[i]) THEN DigitsEnd(s, i + 1) ELSE i
SpaceOrEnd(s, i) == i > Len(s) \/ s[i] = 32
\* index of the first byte of the content: skips "   ", "> ", "-   ", "*   ", "12. ", "3)  "
RECURSIVE ContentStart(_, _)
ContentStart(s, i) ==
  IF i > Len(s) THEN i
  ELSE IF s[i] = 32 THEN ContentStart(s, i + 1)
  ELSE IF s[i] \in {62, 45, 42} /\ SpaceOrEnd(s, i + 1) THEN ContentStart(s, i + 1)
  ELSE IF IsDigit(s[i])
       THEN LET e == DigitsEnd(s, i) IN
            IF e - i <= 9 /\ e <= Len(s) /\ s[e] \in {46, 41} /\ SpaceOrEnd(s, e + 1)
            THEN ContentStart(s, e + 1) ELSE i
  ELSE i

RECURSIVE RunEnd(_, _, _)
RunEnd(s, i, b) == IF i <= Len(s) /\ s[i] = b THEN RunEnd(s, i + 1, b) ELSE i
RECURSIVE LastIndexOf(_, _, _)
LastIndexOf(s, i, b) == IF i < 1 THEN 0 ELSE IF s[i] = b THEN i ELSE LastIndexOf(s, i - 1, b)
\* end of the code span opened by a backtick run of length n ending before i; 0 if it is not closed
RECURSIVE CodeEnd(_, _, _)
CodeEnd(s, i, n) ==
  IF i > Len(s) THEN 0
  ELSE IF s[i] = 96 THEN LET e == RunEnd(s, i, 96) IN IF e - i = n THEN e ELSE CodeEnd(s, e, n)
  ELSE CodeEnd(s, i + 1, n)
RECURSIVE IndexFrom(_, _, _)
IndexFrom(s, i, b) == IF i > Len(s) THEN 0 ELSE IF s[i] = b THEN i ELSE IndexFrom(s, i + 1, b)

RECURSIVE Breakable(_, _)
Breakable(s, i) ==
  IF i > Len(s) THEN FALSE
  ELSE CASE s[i] = 32 -> TRUE
         [] s[i] = 92 -> Breakable(s, i + 2)                                \* backslash escape
         [] s[i] = 96 -> LET e == RunEnd(s, i, 96)
                             c == CodeEnd(s, e, e - i)
                         IN IF c = 0 THEN FALSE ELSE Breakable(s, c)        \* code span
         [] s[i] = 60 -> LET e == IndexFrom(s, i + 1, 62)
                         IN IF e = 0 THEN FALSE ELSE Breakable(s, e + 1)    \* <...>
         [] s[i] = 91 -> LET e == LastIndexOf(s, Len(s), 41)
                         IN IF e < i THEN FALSE ELSE Breakable(s, e + 1)    \* [text](dest "title")
         [] OTHER -> Breakable(s, i + 1)
NLLT == <<38, 78, 101, 119, 76, 105, 110, 101, 59, 60>>                     \* &NewLine;<
UnspecifiedLine(s, i) == (i <= Len(s) /\ s[i] = 60) \/ At(s, i, NLLT)
HasBreakableSpace(s) == LET i == ContentStart(s, 1) IN ~UnspecifiedLine(s, i) /\ Breakable(s, i)

(* ---------------- the relations ---------------- *)
HtmlPreserved(c)      == c.hf = c.h0
Idempotent(c)         == c.ff = c.f
ReflowFixpoint(r)     == r.f0r = r.fr
ReflowPreserved(c, r) == r.hr = c.h0 \/ c.hasP \/ NormWS(r.hrb) = NormWS(c.h0b)
FitsWidth(r)          == \A i \in DOMAIN r.lines :
                           (r.lines[i].para /\ r.lines[i].w > r.w) => ~HasBreakableSpace(r.lines[i].b)

Bad(c) == \/ ~HtmlPreserved(c) \/ ~Idempotent(c)
          \/ \E i \in DOMAIN c.rf : ~ReflowFixpoint(c.rf[i]) \/ ~ReflowPreserved(c, c.rf[i]) \/ ~FitsWidth(c.rf[i])
\* every violated relation with the width it was violated at (0 = no reflow)
RECURSIVE RfFails(_, _)
RfFails(c, i) ==
  IF i > Len(c.rf) THEN <<>>
  ELSE LET r == c.rf[i] IN
       (IF ReflowPreserved(c, r) THEN <<>> ELSE <<<<"reflow-html", r.w>>>>)
       \o (IF ReflowFixpoint(r) THEN <<>> ELSE <<<<"reflow-fixpoint", r.w>>>>)
       \o (IF FitsWidth(r) THEN <<>> ELSE <<<<"fits-width", r.w>>>>)
       \o RfFails(c, i + 1)
Why(c) == (IF HtmlPreserved(c) THEN <<>> ELSE <<<<"html", 0>>>>)
          \o (IF Idempotent(c) THEN <<>> ELSE <<<<"idem", 0>>>>)
          \o RfFails(c, 1)

CaseOK(c) == ~Bad(c)
\* one short line per violated relation (TLC wraps long values over several lines, which the reader of
\* the output does not reassemble)
Report(n, w) == \A i \in DOMAIN w : PrintT(<<"BAD", n, w[i][1], w[i][2]>>)
Inv == k = 0 \/ CaseOK(Cases[k]) \/ Report(k, Why(Cases[k]))
=============================================================================
