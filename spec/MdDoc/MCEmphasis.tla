----------------------------- MODULE MCEmphasis -----------------------------
(* C35: exhaustive enumeration of flat inline texts for Emphasis.tla.  Three alphabets (cfg constants
   give the maximal lengths; 0 switches a scope off):
     A1 = {*, a}             long runs and the multiple-of-3 rule
     A2 = {*, _, a}          both delimiter characters, intraword rules
     A3 = {*, _, a, " ", !}  whitespace and punctuation flanking
   A text is admissible when it contains a delimiter, does not begin or end with a space (the paragraph
   would strip it) and is not a block construct: a bullet item ("*" alone or followed by a space) or a
   thematic break (three or more of one delimiter character, with spaces).  Every admissible text is
   one initial state; TLC checks the theorems and emits the text with the prescribed HTML. *)
EXTENDS Emphasis, FiniteSets, Json
CONSTANTS L1, L2, L3
VARIABLE txt

ClassOf(s) == CASE s = "*" -> "*" [] s = "_" -> "_" [] s = " " -> "s" [] s = "!" -> "p" [] OTHER -> "w"
Ch(s) == [s |-> s, c |-> ClassOf(s)]
Strs(A, L) == UNION {[1..k -> {Ch(s) : s \in A}] : k \in 1..L}
Thematic(t, c) == (\A i \in DOMAIN t : t[i].s \in {c, " "}) /\ CountIn(t, c) >= 3
Admissible(t) ==
  /\ \E i \in DOMAIN t : IsDelim(t[i])
  /\ t[1].s # " " /\ t[Len(t)].s # " "
  /\ ~(t[1].s = "*" /\ (Len(t) = 1 \/ t[2].s = " "))
  /\ ~Thematic(t, "*") /\ ~Thematic(t, "_")
Texts == {t \in Strs({"*", "a"}, L1) \cup Strs({"*", "_", "a"}, L2) \cup Strs({"*", "_", "a", " ", "!"}, L3) : Admissible(t)}

Init == txt \in Texts
Next == UNCHANGED txt
EmphOK == EmphTheorems(txt)
Emit == PrintT(ToJson([text |-> FlatText(txt), html |-> EmphHtml(txt)]))
=============================================================================
