---------------------------- MODULE JudgeMdHtml ----------------------------
(* C35, judge: a case is one Markdown input with
     want  the HTML prescribed for it -- MdHtml!HtmlOf(tree) for a generated document, the reference
           implementation's output (pkg/md/spec/spec.json) for a CommonMark spec example
     got   what md.RenderString(text, &md.HTMLCodec{}) returned
     wb, gb  their bytes (filled by the executor only when the strings differ)
   Agreement "up to insignificant serialisation differences" is exactly:
     got = want, or got = Loosify(want), where Loosify rewrites
        <li></li>      to  <li>\n</li>                    (white space inside an empty item)
        <li>TEXT</li>  to  <li>\n<p>TEXT</p>\n</li>       (TEXT without "<": an item of a tight list that
                                                           is one line of plain text -- pkg/md renders
                                                           every list loose, a documented omission; the
                                                           same rewriting the repository's own test uses)
   Nothing else is normalised. *)
EXTENDS Integers, Sequences, TLC, Json

Cases == ndJsonDeserialize("cases.ndjson")
VARIABLE k
Init == k = 0
Next == k < Len(Cases) /\ k' = k + 1

LI  == <<60, 108, 105, 62>>            \* <li>
LIC == <<60, 47, 108, 105, 62>>        \* </li>
PO  == <<60, 112, 62>>                 \* <p>
PC  == <<60, 47, 112, 62>>             \* </p>
At(s, i, pat) == i + Len(pat) - 1 <= Len(s) /\ SubSeq(s, i, i + Len(pat) - 1) = pat
RECURSIVE NextLt(_, _)
NextLt(s, i) == IF i > Len(s) THEN i ELSE IF s[i] = 60 THEN i ELSE NextLt(s, i + 1)
RECURSIVE Loose(_, _, _)
Loose(s, i, out) ==
  IF i > Len(s) THEN out
  ELSE IF At(s, i, LI)
       THEN LET e == NextLt(s, i + 4) IN
            IF At(s, e, LIC)
            THEN IF e = i + 4 THEN Loose(s, e + 5, out \o LI \o <<10>> \o LIC)
                 ELSE Loose(s, e + 5, out \o LI \o <<10>> \o PO \o SubSeq(s, i + 4, e - 1) \o PC \o <<10>> \o LIC)
            ELSE Loose(s, i + 4, out \o LI)
       ELSE Loose(s, i + 1, Append(out, s[i]))
Loosify(s) == Loose(s, 1, <<>>)

Agrees(c) == c.got = c.want \/ c.gb = Loosify(c.wb)
Inv == k = 0 \/ Agrees(Cases[k]) \/ PrintT(<<"BAD", k>>)
=============================================================================
