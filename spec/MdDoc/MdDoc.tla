------------------------------- MODULE MdDoc -------------------------------
(* C36 -- generative document model for the Markdown formatter (pkg/md: FmtCodec, HTMLCodec).

   What it models.  A Markdown document as a TREE, and the text one writes for it:

     blocks   para(ind, inl)  atx(ind, level, closer, inl)  fence(ind, ch, len, info, body)
              icode(body)  them(ind, style)  html(ind, lines)
              quote(ind, marker, kids)  ulist/olist(ind, bullet|delimiter, start, pad, loose, items)
     inlines  (atoms, each followed by a join  sp | nl (soft break) | none)
              w(word)  lex(backslash escape or character reference)  code(span)
              mk(token that looks like a block start: ordered/bullet marker, #-run, >, fence run,
                 thematic break, setext underline; written escaped or raw; tail)
              em(ch, body)  strong(ch, body)  link(body, tail)  img(alt, tail)  auto(url)  br(kind)
              bodies of em/strong are sequences of SIMPLE atoms (w, lex, code); link text and image
              descriptions may also contain hard breaks.

   Further variants: pad 0 of a list = every non-empty item starts with a blank line (marker alone,
   content from the next line); gap 1 of a block = two blank lines before it instead of one.
   Syntactic VARIANTS are attributes of the construct they belong to: emphasis character (`*`/`_`),
   bullet (`-`/`+`/`*`), ordered delimiter (`.`/`)`), fence character and length, indentation 0-3 of
   a block start, spaces after a list marker, blockquote marker with/without space, ATX closing
   sequence, thematic break style, hard break kind, link title quoting (part of the tail).
   Erase(doc) forgets them.  Write(doc) is the Markdown text, a sequence of lines; lazy continuation
   is never used; sibling blocks are separated by one blank line; tight lists omit it between items.

   Excluded BY CONSTRUCTION (the documented unsupported cases of FmtCodec): emphasis or strong
   emphasis nested in emphasis/strong emphasis (bodies are simple atoms; `*`/`_` occur in the text
   only as delimiters of em/strong atoms -- literal ones are written as `\*` `\_`), and emphasis
   immediately followed by emphasis (NoExcluded).  The executor re-checks this on the real parse of
   every generated text (a generator defect is exit 2, never a verdict).

   The builder.  Documents are built by a state machine so that breadth-first search enumerates the
   whole small scope and `-simulate` draws random documents of a larger scope from the same rules:
     Init              chooses the number of top-level blocks
     Choose            draws the kind of the next block (KindWheel)
     ChooseAtom        draws the kind of the next atom (AtomWheel)
     StartPara/StartAtx(number of atoms), AddAtom    build a leaf with inline content atom by atom
     AddLeaf           fence / icode / them / html from LeafPool
     OpenQuote(n kids), OpenList(item sizes)         containers; they close when their planned children
                                                     are complete (Settle)
     Finish            when the root is complete: the document, its text and its skeleton are emitted
   OKChild states where a construct may be placed so that the text still MEANS the tree (e.g. a
   thematic break `---` may not be the first child of a `-` item, two adjacent lists need different
   markers, a block after a list is not indented).  Skel(doc) is the sequence of block operations the
   parser is expected to report; the executor compares it with the real parser's trace (generator
   quality, exit 2 on mismatch -- parser conformance is C35, not claimed).

   Properties checked by TLC in MCMdDoc (M): TypeOK, WellFormed (depth, sizes, NoExcluded,
   placement rules) in every state; on finished documents: text non-empty, Skel balanced,
   Erase idempotent and Skel(Erase(doc)) = Skel(doc) (variants do not change the structure), and the
   number of text lines equals LineCount(doc) computed independently of Write.

   The relations of C36 on recorded outputs of the real code are in JudgeMdDoc.tla.
   Unspecified: none here (see JudgeMdDoc). *)
EXTENDS Integers, Sequences, FiniteSets, TLC

CONSTANTS MaxBlocks,    \* top-level blocks
          MaxKids,      \* children of a quote / of a list item
          MaxItems,     \* items of a list
          MaxDepth,     \* container nesting
          MaxInl,       \* atoms of a paragraph / heading
          MaxNodes,     \* blocks in a document (leaves + containers)
          MaxAtoms,     \* atoms in a document (all paragraphs and headings together)
          AtomPool, JoinSet, LeafPool, Indents, QuoteShapes, ListShapes, AtxShapes, Trails,
          Gaps,         \* extra blank lines written before a block that is not the first of its container (subset of {0, 1})
          KindWheel,    \* sequence of block kinds "para" "atx" "leaf" "quote" "list", with multiplicity
          AtomWheel     \* sequence of atom kinds, with multiplicity

VARIABLES stack,   \* frames of open containers, root first
          cur,     \* leaf with inline content under construction, or NoLeaf
          want,    \* kind of the next block, drawn by Choose ("" = not drawn)
          wantA,   \* kind of the next atom, drawn by ChooseAtom ("" = not drawn)
          nodes,   \* blocks created so far
          atoms,   \* atoms planned so far
          fin      \* <<>> while building; <<[doc, trail]>> when finished

vars == <<stack, cur, want, wantA, nodes, atoms, fin>>

-----------------------------------------------------------------------------
(* strings *)
RECURSIVE Rep(_, _)
Rep(s, n) == IF n <= 0 THEN "" ELSE s \o Rep(s, n - 1)
Spaces(n) == Rep(" ", n)

-----------------------------------------------------------------------------
(* inline atoms: one record shape *)
A0 == [k |-> "", s |-> "", c |-> "", body |-> <<>>, t |-> "", j |-> "sp",
       e |-> TRUE, cont |-> TRUE, fc |-> "p", lc |-> "p"]
W(s)         == [A0 EXCEPT !.k = "w", !.s = s]
Lx(s)        == [A0 EXCEPT !.k = "lex", !.s = s]
Code(s)      == [A0 EXCEPT !.k = "code", !.s = s]          \* s is the whole span with delimiters
Auto(s)      == [A0 EXCEPT !.k = "auto", !.s = s]
Em(c, b)     == [A0 EXCEPT !.k = "em", !.c = c, !.body = b]
Strong(c, b) == [A0 EXCEPT !.k = "strong", !.c = c, !.body = b]
Link(b, t)   == [A0 EXCEPT !.k = "link", !.body = b, !.t = t]
Img(b, t)    == [A0 EXCEPT !.k = "img", !.body = b, !.t = t]
Br(c)        == [A0 EXCEPT !.k = "br", !.c = c, !.j = "nl"] \* c = "\\" or "  "
\* mk: a token that LOOKS like a block start ("01.", "-", "#", ">", "~~~", "---", "===" ...), written
\* escaped (e: `01\.`; plain text wherever it stands) or raw (plain text only where the parser cannot
\* take it for a block start: after a space inside a line, or -- if tok.cont -- at the start of a
\* continuation line, e.g. "2." / "02)" cannot interrupt a paragraph), followed by tail ("" or " x").
Mk(tok, e, tail) == [A0 EXCEPT !.k = "mk", !.s = (IF e THEN tok.esc ELSE tok.raw) \o tail, !.e = e,
                              !.cont = tok.cont, !.fc = tok.fc, !.lc = IF tail = "" THEN "p" ELSE "w"]
J(a, j)      == [a EXCEPT !.j = j]

SimpleKinds == {"w", "lex", "code"}
EmphKinds   == {"em", "strong"}
IsSimple(a) == a.k \in SimpleKinds /\ a.body = <<>>
IsEmph(a)   == a.k \in EmphKinds

(* text of an inline sequence: a non-empty sequence of lines *)
Cat(L1, L2) == SubSeq(L1, 1, Len(L1) - 1) \o <<L1[Len(L1)] \o L2[1]>> \o Tail(L2)
RECURSIVE InlLines(_)
AtomLines(a) ==
  CASE a.k \in {"w", "lex", "code", "auto", "mk"} -> <<a.s>>
    [] a.k = "em"     -> Cat(Cat(<<a.c>>, InlLines(a.body)), <<a.c>>)
    [] a.k = "strong" -> Cat(Cat(<<a.c \o a.c>>, InlLines(a.body)), <<a.c \o a.c>>)
    [] a.k = "link"   -> Cat(Cat(<<"[">>, InlLines(a.body)), <<"]" \o a.t>>)
    [] a.k = "img"    -> Cat(Cat(<<"![">>, InlLines(a.body)), <<"]" \o a.t>>)
    [] a.k = "br"     -> <<a.c>>
InlLines(q) ==
  IF q = <<>> THEN <<"">>
  ELSE IF Len(q) = 1 THEN AtomLines(q[1])
  ELSE LET h == AtomLines(q[1])
           r == InlLines(Tail(q))
       IN CASE q[1].j = "sp"   -> Cat(Cat(h, <<" ">>), r)
            [] q[1].j = "none" -> Cat(h, r)
            [] q[1].j = "nl"   -> h \o r

RECURSIVE InlLineCount(_)
InlLineCount(q) ==
  IF q = <<>> THEN 1
  ELSE LET own == IF q[1].body = <<>> THEN 1 ELSE InlLineCount(q[1].body)
       IN IF Len(q) = 1 THEN own
          ELSE own + InlLineCount(Tail(q)) - (IF q[1].j = "nl" THEN 0 ELSE 1)

(* where a block-start lookalike may stand; l.inl = the atoms before it *)
MkOK(l, a, last) ==
  a.k = "mk" =>
    /\ (~last => a.j # "none")                  \* the token ends at a space, a line end or the paragraph end
    /\ (~a.e => /\ l.inl # <<>>                 \* raw: never first in the paragraph / heading
                /\ LET q == l.inl[Len(l.inl)] IN q.j = "sp" \/ (q.j = "nl" /\ a.cont))

(* an inline sequence that can be closed: hard breaks are inner atoms *)
InlClosed(q) == q # <<>> /\ q[1].k # "br" /\ q[Len(q)].k # "br"

(* the documented unsupported cases never occur *)
RECURSIVE NoExcludedInl(_, _)
NoExcludedInl(q, inEmph) ==
  /\ \A i \in DOMAIN q :
       /\ IsEmph(q[i]) => ~inEmph
       /\ q[i].body # <<>> => NoExcludedInl(q[i].body, inEmph \/ IsEmph(q[i]))
       /\ q[i].k \in EmphKinds => \A x \in DOMAIN q[i].body : IsSimple(q[i].body[x])
       /\ q[i].k \in {"link", "img"} => (InlClosed(q[i].body) /\ \A x \in DOMAIN q[i].body : IsSimple(q[i].body[x]) \/ q[i].body[x].k = "br")
  /\ \A i \in 1..(Len(q) - 1) : ~(IsEmph(q[i]) /\ IsEmph(q[i + 1]) /\ q[i].j = "none")

(* Delimiter runs must be able to open / close (CommonMark flanking rules), otherwise an intended
   closer stays open and pairs with a later run -- which could nest emphasis.  Only the classes of the
   neighbouring source characters matter: "s" whitespace (also line start / end), "p" punctuation
   (every lexeme, code span, link, image, autolink and delimiter starts and ends with one), "w" other. *)
FirstClass(a) == IF a.k = "w" THEN "w" ELSE IF a.k = "mk" THEN a.fc ELSE "p"
LastClass(a)  == IF a.k = "w" THEN "w" ELSE IF a.k = "mk" THEN a.lc ELSE "p"
OpenOK(c, P, bf)  == P \in {"s", "p"} \/ (c = "*" /\ bf = "w")
CloseOK(c, bl, N) == N \in {"s", "p"} \/ (c = "*" /\ bl = "w")
FlankOK(q) ==
  \A i \in DOMAIN q : IsEmph(q[i]) =>
     LET b == q[i].body
         P == IF i = 1 \/ q[i - 1].j # "none" THEN "s" ELSE LastClass(q[i - 1])
         N == IF i = Len(q) \/ q[i].j # "none" THEN "s" ELSE FirstClass(q[i + 1])
     IN OpenOK(q[i].c, P, FirstClass(b[1])) /\ CloseOK(q[i].c, LastClass(b[Len(b)]), N)


-----------------------------------------------------------------------------
(* blocks: one record shape *)
B0 == [k |-> "", ind |-> 0, c |-> "", n |-> 0, p |-> 0, s |-> "", cls |-> <<>>, inl |-> <<>>,
       body |-> <<>>, loose |-> TRUE, items |-> <<>>, gap |-> 0]
Para(ind, inl)               == [B0 EXCEPT !.k = "para", !.ind = ind, !.inl = inl]
Atx(ind, lvl, closer, inl)   == [B0 EXCEPT !.k = "atx", !.ind = ind, !.n = lvl, !.s = closer, !.inl = inl]
\* a line of a code block: sp spaces, a run of rn fence characters ch (or none), rest; s is the line,
\* h its HTML-escaped form.  CL lines need no escaping by construction; RL gives both spellings.
CL(sp, ch, rn, rest) == [sp |-> sp, ch |-> ch, rn |-> rn, rest |-> rest,
                         s |-> Spaces(sp) \o Rep(ch, rn) \o rest, h |-> Spaces(sp) \o Rep(ch, rn) \o rest]
PL(s)     == CL(0, "", 0, s)
RL(s, h)  == [sp |-> 0, ch |-> "", rn |-> 0, rest |-> s, s |-> s, h |-> h]
LineStrs(cls) == [i \in DOMAIN cls |-> cls[i].s]
Fence(ind, ch, n, info, cls) == [B0 EXCEPT !.k = "fence", !.ind = ind, !.c = ch, !.n = n, !.s = info, !.cls = cls, !.body = LineStrs(cls)]
ICode(cls)                   == [B0 EXCEPT !.k = "icode", !.cls = cls, !.body = LineStrs(cls)]
\* CommonMark, fenced code blocks: the closing fence is a line of up to three spaces of indentation, at
\* least as many fence characters of the same kind as the opening fence, and nothing but spaces after.
\* shift = the spaces the written line gets in addition to l.sp (the indentation of the fence itself).
\* (This is also the rule the FORMATTER has to respect when it chooses a fence for the lines: its fence
\* must be longer than every such run; C36 sees a failure as changed HTML / lost idempotence.)
ClosesFence(l, ch, n, shift) == l.ch = ch /\ l.rest = "" /\ l.rn >= n /\ l.sp + shift <= 3
Them(ind, ch, style)         == [B0 EXCEPT !.k = "them", !.ind = ind, !.c = ch, !.s = style]
Html(ind, lines)             == [B0 EXCEPT !.k = "html", !.ind = ind, !.body = lines]
Quote(ind, marker, kids)     == [B0 EXCEPT !.k = "quote", !.ind = ind, !.s = marker, !.items = <<kids>>]
UList(ind, ch, pad, loose, items)        == [B0 EXCEPT !.k = "ulist", !.ind = ind, !.c = ch, !.p = pad, !.loose = loose, !.items = items]
OList(ind, start, ch, pad, loose, items) == [B0 EXCEPT !.k = "olist", !.ind = ind, !.c = ch, !.n = start, !.p = pad, !.loose = loose, !.items = items]

ListKinds      == {"ulist", "olist"}
ContainerKinds == {"quote", "ulist", "olist"}
LeafKinds      == {"para", "atx", "fence", "icode", "them", "html"}

Marker(b, i) == IF b.k = "ulist" THEN b.c ELSE ToString(b.n + i - 1) \o b.c

RECURSIVE WBlocks(_)
RECURSIVE WBlock(_)
RECURSIVE WItems(_, _)
IndentLines(n, lines) == [i \in DOMAIN lines |-> IF lines[i] = "" THEN "" ELSE Spaces(n) \o lines[i]]
WBlocks(bs) ==       \* siblings are separated by one blank line, two if the next one has gap = 1
  IF bs = <<>> THEN <<>>
  ELSE IF Len(bs) = 1 THEN WBlock(bs[1])
  ELSE WBlock(bs[1]) \o <<"">> \o (IF bs[2].gap = 1 THEN <<"">> ELSE <<>>) \o WBlocks(Tail(bs))
WItems(b, i) ==
  LET inner == WBlocks(b.items[i])
      m     == Marker(b, i)
      w     == Len(m) + b.p
      me    == IF inner = <<>> THEN <<Spaces(b.ind) \o m>>
               ELSE IF b.p = 0      \* the item starts with a blank line: marker alone, content from the next line
                    THEN <<Spaces(b.ind) \o m>> \o IndentLines(b.ind + Len(m) + 1, inner)
               ELSE <<Spaces(b.ind) \o m \o Spaces(b.p) \o inner[1]>> \o IndentLines(b.ind + w, Tail(inner))
  IN IF i = Len(b.items) THEN me
     ELSE me \o (IF b.loose THEN <<"">> ELSE <<>>) \o WItems(b, i + 1)
WBlock(b) ==
  CASE b.k = "para"  -> LET L == InlLines(b.inl) IN <<Spaces(b.ind) \o L[1]>> \o Tail(L)
    [] b.k = "atx"   -> <<Spaces(b.ind) \o Rep("#", b.n) \o " " \o InlLines(b.inl)[1] \o b.s>>
    [] b.k = "fence" -> LET f == Rep(b.c, b.n)
                        IN <<Spaces(b.ind) \o f \o b.s>> \o IndentLines(b.ind, b.body) \o <<Spaces(b.ind) \o f>>
    [] b.k = "icode" -> IndentLines(4, b.body)
    [] b.k = "them"  -> <<Spaces(b.ind) \o b.s>>
    [] b.k = "html"  -> <<Spaces(b.ind) \o b.body[1]>> \o Tail(b.body)
    [] b.k = "quote" -> LET inner == WBlocks(b.items[1])
                        IN IF inner = <<>> THEN <<Spaces(b.ind) \o ">">>
                           ELSE [i \in DOMAIN inner |->
                                   Spaces(b.ind) \o (IF inner[i] = "" THEN ">" ELSE b.s \o inner[i])]
    [] b.k \in ListKinds -> WItems(b, 1)

Write(doc) == WBlocks(doc)

(* number of text lines, computed without building the text *)
RECURSIVE LCBlocks(_)
RECURSIVE LCBlock(_)
RECURSIVE LCItems(_, _)
LCBlocks(bs) == IF bs = <<>> THEN 0
                ELSE IF Len(bs) = 1 THEN LCBlock(bs[1])
                ELSE LCBlock(bs[1]) + 1 + bs[2].gap + LCBlocks(Tail(bs))
LCItems(b, i) == LET me == IF b.items[i] = <<>> THEN 1 ELSE LCBlocks(b.items[i]) + (IF b.p = 0 THEN 1 ELSE 0)
                 IN IF i = Len(b.items) THEN me
                    ELSE me + (IF b.loose THEN 1 ELSE 0) + LCItems(b, i + 1)
LCBlock(b) ==
  CASE b.k = "para"  -> InlLineCount(b.inl)
    [] b.k = "atx"   -> 1
    [] b.k = "fence" -> Len(b.body) + 2
    [] b.k \in {"icode", "html"} -> Len(b.body)
    [] b.k = "them"  -> 1
    [] b.k = "quote" -> IF b.items[1] = <<>> THEN 1 ELSE LCBlocks(b.items[1])
    [] b.k \in ListKinds -> LCItems(b, 1)
LineCount(doc) == LCBlocks(doc)

(* the block operations the parser is expected to report (md.OpType names) *)
RECURSIVE Skel(_)
RECURSIVE SkelItems(_, _)
SkelBlock(b) ==
  CASE b.k = "para"  -> <<"OpParagraph">>
    [] b.k = "atx"   -> <<"OpHeading">>
    [] b.k \in {"fence", "icode"} -> <<"OpCodeBlock">>
    [] b.k = "them"  -> <<"OpThematicBreak">>
    [] b.k = "html"  -> <<"OpHTMLBlock">>
    [] b.k = "quote" -> <<"OpBlockquoteStart">> \o Skel(b.items[1]) \o <<"OpBlockquoteEnd">>
    [] b.k = "ulist" -> <<"OpBulletListStart">> \o SkelItems(b, 1) \o <<"OpBulletListEnd">>
    [] b.k = "olist" -> <<"OpOrderedListStart">> \o SkelItems(b, 1) \o <<"OpOrderedListEnd">>
SkelItems(b, i) == IF i > Len(b.items) THEN <<>>
                   ELSE <<"OpListItemStart">> \o Skel(b.items[i]) \o <<"OpListItemEnd">> \o SkelItems(b, i + 1)
Skel(bs) == IF bs = <<>> THEN <<>> ELSE SkelBlock(bs[1]) \o Skel(Tail(bs))

Opens  == {"OpBlockquoteStart", "OpListItemStart", "OpBulletListStart", "OpOrderedListStart"}
Closes == {"OpBlockquoteEnd", "OpListItemEnd", "OpBulletListEnd", "OpOrderedListEnd"}
RECURSIVE BalancedFrom(_, _, _)
BalancedFrom(sk, i, d) ==
  IF i > Len(sk) THEN d = 0
  ELSE IF sk[i] \in Opens THEN BalancedFrom(sk, i + 1, d + 1)
  ELSE IF sk[i] \in Closes THEN d > 0 /\ BalancedFrom(sk, i + 1, d - 1)
  ELSE BalancedFrom(sk, i + 1, d)

(* forgetting the variants *)
EraseAtomFlat(a) == [a EXCEPT !.c = IF a.k \in EmphKinds THEN "*" ELSE @]   \* the kind of a hard break is kept: it decides whether a space before it is content
EraseAtom(a) == [EraseAtomFlat(a) EXCEPT !.body = [i \in DOMAIN a.body |-> EraseAtomFlat(a.body[i])]]
EraseInl(q) == [i \in DOMAIN q |-> EraseAtom(q[i])]
RECURSIVE Erase(_)
EraseBlock(b) ==
  CASE b.k = "para"  -> [b EXCEPT !.ind = 0, !.inl = EraseInl(@)]
    [] b.k = "atx"   -> [b EXCEPT !.ind = 0, !.s = "", !.inl = EraseInl(@)]
    [] b.k = "fence" -> [b EXCEPT !.ind = 0, !.c = "`", !.n = 3]
    [] b.k = "icode" -> b
    [] b.k = "them"  -> [b EXCEPT !.ind = 0, !.c = "*", !.s = "***"]
    [] b.k = "html"  -> b      \* leading spaces of an HTML block are content
    [] b.k = "quote" -> [b EXCEPT !.ind = 0, !.s = "> ", !.items = <<Erase(b.items[1])>>]
    [] b.k = "ulist" -> [b EXCEPT !.ind = 0, !.c = "-", !.p = 3, !.items = [i \in DOMAIN b.items |-> Erase(b.items[i])]]
    [] b.k = "olist" -> [b EXCEPT !.ind = 0, !.c = ".", !.p = 2, !.items = [i \in DOMAIN b.items |-> Erase(b.items[i])]]
Erase(bs) == [i \in DOMAIN bs |-> [EraseBlock(bs[i]) EXCEPT !.gap = 0]]

RECURSIVE DepthOf(_)
DepthOfBlock(b) == IF b.k \in ContainerKinds
                   THEN 1 + (LET ds == {DepthOf(b.items[i]) : i \in DOMAIN b.items} IN
                             IF ds = {} THEN 0 ELSE CHOOSE d \in ds : \A e \in ds : e <= d)
                   ELSE 0
DepthOf(bs) == IF bs = <<>> THEN 0
               ELSE LET ds == {DepthOfBlock(bs[i]) : i \in DOMAIN bs} IN CHOOSE d \in ds : \A e \in ds : e <= d

RECURSIVE NodesOf(_)
RECURSIVE NodesItems(_, _)
NodesOfBlock(b) == 1 + (IF b.k \in ContainerKinds THEN NodesItems(b, 1) ELSE 0)
NodesItems(b, i) == IF i > Len(b.items) THEN 0 ELSE NodesOf(b.items[i]) + NodesItems(b, i + 1)
NodesOf(bs) == IF bs = <<>> THEN 0 ELSE NodesOfBlock(bs[1]) + NodesOf(Tail(bs))

-----------------------------------------------------------------------------
(* placement: where a block may stand so that the text means the tree.
   ctx  = [k, c, s]  of the enclosing container ("root" at top level), first = first child of it,
   prev = the previous sibling or B0 *)
OKChild(ctx, first, prev, b) ==
  /\ (first /\ ctx.k \in ListKinds) =>
        /\ b.ind = 0                            \* marker spaces + indentation <= 4
        /\ b.k # "icode"
        /\ (b.k = "them" => b.c # ctx.c)        \* "- ---" is a thematic break
        /\ ((b.k = "ulist" /\ ctx.k = "ulist") => b.c # ctx.c)   \* "- - -" is a thematic break
  /\ (ctx.k = "quote" /\ ctx.s = ">") =>        \* ">" swallows one space of the content
        /\ b.ind = 0
        /\ b.k \in LeafKinds \ {"icode"}
  /\ first => b.gap = 0
  /\ prev.k \in ListKinds =>
        \* an indented block would continue the last item -- unless that item is empty: an item
        \* can begin with at most one blank line, so the blank line after the bare marker ends it
        /\ (b.ind = 0 \/ (b.k = "para" /\ prev.items[Len(prev.items)] = <<>>))
        /\ b.k # "icode"
        /\ (b.k = prev.k => b.c # prev.c)       \* same marker: one list
  /\ (prev.k = "icode" => b.k # "icode")        \* one code block
  /\ (b.k = "fence" =>                          \* no line of the body closes the fence
        \A i \in DOMAIN b.cls : ~ClosesFence(b.cls[i], b.c, b.n, b.ind - (IF ctx.k = "quote" /\ ctx.s = ">" THEN 1 ELSE 0)))

RECURSIVE WFBlocks(_, _)
WFBlock(ctx, first, prev, b) ==
  /\ OKChild(ctx, first, prev, b)
  /\ b.k \in {"para", "atx"} => (InlClosed(b.inl) /\ Len(b.inl) <= MaxInl /\ NoExcludedInl(b.inl, FALSE) /\ FlankOK(b.inl))
  /\ b.k \in {"para", "atx"} => \A i \in DOMAIN b.inl :
        MkOK([inl |-> SubSeq(b.inl, 1, i - 1)], b.inl[i], i = Len(b.inl))
  /\ b.k = "atx" => InlLineCount(b.inl) = 1
  /\ b.k \in ContainerKinds => \A i \in DOMAIN b.items : WFBlocks([k |-> b.k, c |-> b.c, s |-> b.s], b.items[i])
WFBlocks(ctx, bs) ==
  \A i \in DOMAIN bs : WFBlock(ctx, i = 1, IF i = 1 THEN B0 ELSE bs[i - 1], bs[i])
RootCtx == [k |-> "root", c |-> "", s |-> ""]
WellFormedDoc(doc) == /\ doc # <<>>
                      /\ WFBlocks(RootCtx, doc)
                      /\ DepthOf(doc) <= MaxDepth
                      /\ NodesOf(doc) <= MaxNodes

-----------------------------------------------------------------------------
(* the builder *)
NoLeaf == [blk |-> [B0 EXCEPT !.k = "none"], left |-> 0]
Frame(blk, need, plan) == [blk |-> blk, kids |-> <<>>, need |-> need, plan |-> plan]
RootBlk == [B0 EXCEPT !.k = "root"]

RECURSIVE SumSeq(_)
SumSeq(q) == IF q = <<>> THEN 0 ELSE q[1] + SumSeq(Tail(q))
RECURSIVE Owed(_)
Owed(st) == IF st = <<>> THEN 0 ELSE st[1].need + SumSeq(st[1].plan) + Owed(Tail(st))
\* blocks still to come: every open container will itself satisfy one owed child of its parent
Remaining(st) == Owed(st) - (Len(st) - 1)

AddKid(st, b) == [st EXCEPT ![Len(st)] = [@ EXCEPT !.kids = Append(@, b), !.need = @ - 1]]
RECURSIVE Settle(_)
Settle(st) ==
  LET top == st[Len(st)] IN
  IF top.need > 0 \/ top.blk.k = "root" THEN st
  ELSE IF top.blk.k = "quote"
       THEN Settle(AddKid(SubSeq(st, 1, Len(st) - 1), [top.blk EXCEPT !.items = <<top.kids>>]))
  ELSE LET blk2 == [top.blk EXCEPT !.items = Append(@, top.kids)] IN
       IF top.plan # <<>>
       THEN Settle([st EXCEPT ![Len(st)] = [blk |-> blk2, kids |-> <<>>, need |-> Head(top.plan), plan |-> Tail(top.plan)]])
       ELSE Settle(AddKid(SubSeq(st, 1, Len(st) - 1), blk2))

Top       == stack[Len(stack)]
TopCtx    == [k |-> Top.blk.k, c |-> Top.blk.c, s |-> Top.blk.s]
PrevSib   == IF Top.kids = <<>> THEN B0 ELSE Top.kids[Len(Top.kids)]
CanPlace(b) == OKChild(TopCtx, Top.kids = <<>>, PrevSib, b)
Building  == fin = <<>>
Idle      == Building /\ cur.blk.k = "none" /\ Top.need > 0
Depth     == Len(stack) - 1

Init == /\ \E nb \in 1..MaxBlocks : stack = <<Frame(RootBlk, nb, <<>>)>>
        /\ cur = NoLeaf
        /\ want = ""
        /\ wantA = ""
        /\ nodes = 0
        /\ atoms = 0
        /\ fin = <<>>

(* the kind of the next block is drawn first (KindWheel lists kinds with multiplicity: in
   simulation mode TLC picks uniformly among successors, so this sets the mix of blocks) *)
Choose == /\ Idle /\ want = ""
          /\ \E i \in DOMAIN KindWheel :
               /\ (KindWheel[i] \in {"quote", "list"} => Depth < MaxDepth)
               /\ want' = KindWheel[i]
          /\ UNCHANGED <<stack, cur, wantA, nodes, atoms, fin>>

StartPara == /\ Idle /\ want = "para"
             /\ \E ind \in Indents, n \in 1..MaxInl, g \in Gaps :
                  /\ CanPlace([Para(ind, <<>>) EXCEPT !.gap = g])
                  /\ atoms + n <= MaxAtoms
                  /\ cur' = [blk |-> [Para(ind, <<>>) EXCEPT !.gap = g], left |-> n]
                  /\ atoms' = atoms + n
             /\ want' = ""
             /\ UNCHANGED <<stack, wantA, nodes, fin>>

StartAtx == /\ Idle /\ want = "atx"
            /\ \E ind \in Indents, sh \in AtxShapes, n \in 1..MaxInl :
                 /\ CanPlace(Atx(ind, sh.lvl, sh.closer, <<>>))
                 /\ atoms + n <= MaxAtoms
                 /\ cur' = [blk |-> Atx(ind, sh.lvl, sh.closer, <<>>), left |-> n]
                 /\ atoms' = atoms + n
            /\ want' = ""
            /\ UNCHANGED <<stack, wantA, nodes, fin>>

AtomOK(l, a, last) ==
  /\ MkOK(l, a, last)
  /\ (l.k = "atx" => (a.k # "br" /\ (~last => a.j # "nl") /\ InlLineCount(<<a>>) = 1))
  /\ (a.k = "br" => (l.inl # <<>> /\ ~last))
  /\ (l.inl # <<>> => LET q == l.inl[Len(l.inl)] IN
                        /\ ~(IsEmph(q) /\ IsEmph(a) /\ q.j = "none")
                        /\ (a.k = "br" => (q.k # "br" /\ q.j # "nl")))   \* a line of two spaces is blank
ChooseAtom == /\ Building /\ cur.blk.k # "none" /\ wantA = ""
              /\ \E i \in DOMAIN AtomWheel :
                   /\ (AtomWheel[i] = "br" => (cur.blk.k = "para" /\ cur.blk.inl # <<>> /\ cur.left > 1))
                   /\ wantA' = AtomWheel[i]
              /\ UNCHANGED <<stack, cur, want, nodes, atoms, fin>>

AddAtom == /\ Building /\ cur.blk.k # "none" /\ wantA # ""
           /\ \E a0 \in {x \in AtomPool : x.k = wantA}, j \in JoinSet :
                LET last == cur.left = 1
                    a    == IF a0.k = "br" THEN a0 ELSE J(a0, j)
                    blk2 == [cur.blk EXCEPT !.inl = Append(@, a)]
                IN /\ ((last \/ a0.k = "br") => j = "sp")     \* the join of the last atom / of br is not used
                   /\ AtomOK(cur.blk, a, last)
                   /\ FlankOK([blk2.inl EXCEPT ![Len(blk2.inl)] = J(@, "sp")])   \* what follows the new atom is checked with the next one
                   /\ IF last
                      THEN /\ stack' = Settle(AddKid(stack, blk2))
                           /\ cur' = NoLeaf
                           /\ nodes' = nodes + 1
                      ELSE /\ cur' = [blk |-> blk2, left |-> cur.left - 1]
                           /\ UNCHANGED <<stack, nodes>>
           /\ wantA' = ""
           /\ UNCHANGED <<fin, want, atoms>>

AddLeaf == /\ Idle /\ want = "leaf"
           /\ \E b0 \in LeafPool, ind \in Indents :
                \E g \in Gaps :
                LET b == [(IF b0.k = "icode" THEN b0 ELSE [b0 EXCEPT !.ind = ind]) EXCEPT !.gap = g] IN   \* icode has no indentation of its own
                /\ CanPlace(b)
                /\ stack' = Settle(AddKid(stack, b))
                /\ nodes' = nodes + 1
           /\ want' = ""
           /\ UNCHANGED <<cur, wantA, atoms, fin>>

OpenQuote == /\ Idle /\ want = "quote" /\ Depth < MaxDepth
             /\ \E sh \in QuoteShapes, n \in 0..MaxKids, g \in Gaps :
                  LET b == [Quote(sh.ind, sh.marker, <<>>) EXCEPT !.gap = g] IN
                  /\ CanPlace(b)
                  /\ nodes + Remaining(stack) + n <= MaxNodes
                  /\ stack' = Settle(Append(stack, Frame(b, n, <<>>)))
                  /\ nodes' = nodes + 1
             /\ want' = ""
             /\ UNCHANGED <<cur, wantA, atoms, fin>>

RECURSIVE Plans(_)
Plans(n) == IF n = 0 THEN {<<>>} ELSE {<<k>> \o p : k \in 0..MaxKids, p \in Plans(n - 1)}
OpenList == /\ Idle /\ want = "list" /\ Depth < MaxDepth
            /\ \E sh \in ListShapes, ni \in 1..MaxItems :
                 \E plan \in Plans(ni), g \in Gaps :
                   LET b == [(IF sh.k = "ulist" THEN UList(sh.ind, sh.c, sh.p, sh.loose, <<>>)
                                               ELSE OList(sh.ind, sh.n, sh.c, sh.p, sh.loose, <<>>)) EXCEPT !.gap = g] IN
                   /\ CanPlace(b)
                   /\ nodes + Remaining(stack) + SumSeq(plan) <= MaxNodes
                   /\ stack' = Settle(Append(stack, Frame(b, Head(plan), Tail(plan))))
                   /\ nodes' = nodes + 1
            /\ want' = ""
            /\ UNCHANGED <<cur, wantA, atoms, fin>>

Finish == /\ Building /\ cur.blk.k = "none" /\ Len(stack) = 1 /\ Top.need = 0
          /\ \E tr \in Trails : fin' = <<[doc |-> Top.kids, trail |-> tr]>>
          /\ UNCHANGED <<stack, cur, nodes, atoms, want, wantA>>

Next == Choose \/ ChooseAtom \/ StartPara \/ StartAtx \/ AddAtom \/ AddLeaf \/ OpenQuote \/ OpenList \/ Finish
Spec == Init /\ [][Next]_vars

-----------------------------------------------------------------------------
(* M: well-formedness of the generator *)
RECURSIVE Rebuild(_)
Rebuild(st) == \* the document as far as it is built: close every open frame
  IF Len(st) = 1 THEN st[1].kids
  ELSE LET top == st[Len(st)]
           blk == IF top.blk.k = "quote" THEN [top.blk EXCEPT !.items = <<top.kids>>]
                  ELSE [top.blk EXCEPT !.items = Append(@, top.kids)]
       IN Rebuild(AddKid(SubSeq(st, 1, Len(st) - 1), blk))

TypeOK == /\ Len(stack) >= 1 /\ Len(stack) <= MaxDepth + 1
          /\ stack[1].blk.k = "root"
          /\ \A i \in 2..Len(stack) : stack[i].blk.k \in ContainerKinds
          /\ \A i \in DOMAIN stack : stack[i].need >= 0
          /\ cur.blk.k \in {"none", "para", "atx"}
          /\ cur.left >= 0 /\ (cur.blk.k # "none" => cur.left >= 1)
          /\ want \in {"", "para", "atx", "leaf", "quote", "list"}
          /\ wantA \in {""} \cup {AtomWheel[i] : i \in DOMAIN AtomWheel}
          /\ nodes \in 0..MaxNodes
          /\ atoms \in 0..MaxAtoms
          /\ Len(fin) <= 1

PartialOK == \* every prefix of a document obeys the placement rules and the bounds
  LET d == Rebuild(stack) IN
  /\ (d # <<>> => WFBlocks(RootCtx, d))
  /\ DepthOf(d) <= MaxDepth
  /\ NodesOf(d) = nodes
  /\ nodes + Remaining(stack) <= MaxNodes
  /\ cur.blk.k # "none" => NoExcludedInl(cur.blk.inl, FALSE)

FinishedOK ==
  fin # <<>> =>
    LET d == fin[1].doc
        t == Write(d)
    IN /\ WellFormedDoc(d)
       /\ t # <<>>
       /\ Len(t) = LineCount(d)
       /\ BalancedFrom(Skel(d), 1, 0)
       /\ Erase(Erase(d)) = Erase(d)
       /\ Skel(Erase(d)) = Skel(d)
=============================================================================
