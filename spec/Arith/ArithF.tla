------------------------------- MODULE ArithF -------------------------------
(* C12 -- inexact arithmetic: what the numeric builtins compute when a floating-point number is
   involved ("Exactness-preserving commands", + - * / in builtin_fn_num.d.elv, math:floor ceil
   round round-to-even trunc abs in math.d.elv, inexact-num, exact-num).

   TLC has no floating point.  The module is structural: it decides WHICH IEEE-754 operation is
   applied to WHAT in WHICH order, which conversion each exact argument gets, which documented
   exact-zero rule or exception takes precedence -- and returns the result as a term over named
   primitives which the executor evaluates with hardware doubles:

     [op |-> "f", bits]            the float argument with this bit pattern (16 hex digits)
     [op |-> "const", v]           the double 0.0 or 1.0                       (v = "0.0" | "1.0")
     [op |-> "nearest", i]         the double nearest to the exact argument number i, ties to even
                                   (trusted primitive; the executor re-checks it against both neighbours)
     [op |-> "inf", s]             the infinity of sign s
     [op |-> "add"|"sub"|"mul"|"div", a, b]     one IEEE-754 double operation
     [op |-> "neg", a]             sign flip

   What TLC does compute (BigNat): the exact binary value of a float from its bit pattern
   (ExactBinary), hence exact-num, and the roundings floor ceil round round-to-even trunc abs of
   finite floats -- prescribed as "the double equal to this integer, zero taking the sign of the
   argument" -- and the int64-range test that selects between "nearest" and "inf".

   FOutcome(cmd, args) = [t, vs, term, fx]
     t = "vals"   exact values vs (an exact-zero rule, exact-num, or no float involved: Arith.tla)
     t = "exc"    exception
     t = "term"   one float: the value of term
     t = "fx"     one float: the double equal to the integer fx.n; if fx.n = 0 the zero of sign fx.zs
     t = "same"   one float: the argument itself (special values of the rounding functions)
     t = "unspec" Unspecified (inherited from Arith.tla)
   Argument values: exact [k |-> "x", n, d, ...]; float [k |-> "f", c, bits, ...] with
   c \in {"fin", "inf", "nan"} (checked against bits by ClassOK). *)
EXTENDS ArithRings

(* ---------------- bit patterns ---------------- *)
Hex(bits, i, j) ==              \* hex digits i..j as a natural
  LET f[t \in (i - 1)..j] == IF t = i - 1 THEN <<>> ELSE Add(MulSmall(f[t - 1], 16), FromNat(bits[t])) IN f[j]
SignBit(bits)  == bits[1] >= 8
ExpField(bits) == (bits[1] % 8) * 256 + bits[2] * 16 + bits[3]
Mant(bits)     == Hex(bits, 4, 16)
ClassOf(bits)  == IF ExpField(bits) # 2047 THEN "fin" ELSE IF Mant(bits) = <<>> THEN "inf" ELSE "nan"
ClassOK(v)     == v.k = "f" => v.c = ClassOf(v.bits)

RECURSIVE Halve(_, _)           \* strip common factors of two: m * 2^e with e < 0
Halve(m, e) == IF e < 0 /\ m # <<>> /\ m[1] % 2 = 0 THEN Halve(DivMod(m, <<2>>).q, e + 1) ELSE [m |-> m, e |-> e]

\* the exact value of a finite float as a fraction in lowest terms (BG rational)
ExactBinary(bits) ==
  LET ef == ExpField(bits)
      m0 == IF ef = 0 THEN Mant(bits) ELSE Add(TwoTo(52), Mant(bits))
      e0 == IF ef = 0 THEN -1074 ELSE ef - 1075
      h  == Halve(m0, e0)
      s  == IF SignBit(bits) THEN -1 ELSE 1
  IN IF m0 = <<>> THEN BG!QInt(Z0)
     ELSE IF h.e >= 0 THEN BG!QInt(Z(s, Mul(h.m, TwoTo(h.e))))
     ELSE BG!Q(Z(s, h.m), Z(1, TwoTo(-h.e)))

(* ---------------- terms ---------------- *)
TF(bits)      == [op |-> "f", bits |-> bits]
TConst(v)     == [op |-> "const", v |-> v]
TNearest(i)   == [op |-> "nearest", i |-> i]
TInf(s)       == [op |-> "inf", s |-> s]
TBin(o, a, b) == [op |-> o, a |-> a, b |-> b]
TNeg(a)       == [op |-> "neg", a |-> a]

\* the documented conversion of an argument to floating point
Conv(args, i) ==
  LET v == args[i]
  IN IF v.k = "f" THEN TF(v.bits)
     ELSE IF BG!IsXInt(v) /\ ~ZFits64(v.n) THEN TInf(ZSign(v.n))  \* "may be converted to an infinite value"
     ELSE TNearest(i)
Convs(args) == [i \in 1..Len(args) |-> Conv(args, i)]

TAdd(a, b) == TBin("add", a, b)
TSub(a, b) == TBin("sub", a, b)
TMul(a, b) == TBin("mul", a, b)
TDiv(a, b) == TBin("div", a, b)

(* ---------------- outcomes ---------------- *)
None    == [op |-> "none"]
NoFx    == [n |-> Z0, zs |-> 1]
OfExact(o) == [t |-> o.t, vs |-> o.vs, term |-> None, fx |-> NoFx]
Term(tm)   == [t |-> "term", vs |-> <<>>, term |-> tm, fx |-> NoFx]
Fx(n, zs)  == [t |-> "fx", vs |-> <<>>, term |-> None, fx |-> [n |-> n, zs |-> zs]]
Same       == [t |-> "same", vs |-> <<>>, term |-> None, fx |-> NoFx]

FoldCmds == {"+", "-", "*", "/"}
RoundCmds == {"math:floor", "math:ceil", "math:round", "math:round-to-even", "math:trunc", "math:abs"}
FCmds == FoldCmds \cup RoundCmds \cup {"inexact-num", "exact-num"}

RoundI(cmd, q) ==               \* the integer the rounding function yields on the rational q
  CASE cmd = "math:floor" -> BG!QFloor(q)
    [] cmd = "math:ceil" -> BG!QCeil(q)
    [] cmd = "math:round" -> BG!QRound(q)
    [] cmd = "math:round-to-even" -> BG!QRoundEven(q)
    [] cmd = "math:trunc" -> BG!QTrunc(q)

FOutcome(cmd, args) ==
  IF cmd \in FoldCmds THEN
    LET ex == BG!Outcome(cmd, args, <<>>)         \* exceptions, exact-zero rules and all-exact calls first
        cs == Convs(args)
    IN IF ex.t # "inexact" THEN OfExact(ex)
       ELSE CASE cmd = "+" -> Term(BG!Fold(TAdd, TConst("0.0"), cs))
              [] cmd = "*" -> Term(BG!Fold(TMul, TConst("1.0"), cs))
              [] cmd = "-" -> IF Len(args) = 1 THEN Term(TNeg(cs[1]))
                              ELSE Term(BG!Fold(TSub, cs[1], SubSeq(cs, 2, Len(cs))))
              [] cmd = "/" -> IF Len(args) = 1 THEN Term(TDiv(TConst("1.0"), cs[1]))
                              ELSE Term(BG!Fold(TDiv, cs[1], SubSeq(cs, 2, Len(cs))))
  ELSE IF Len(args) # 1 THEN OfExact(BG!Exc)
  ELSE LET v == args[1] IN
    IF cmd \in RoundCmds THEN
      IF v.k = "x" THEN OfExact(BG!Outcome(cmd, args, <<>>))
      ELSE IF v.c # "fin" THEN (IF cmd = "math:abs" /\ v.c = "inf" THEN Term(TInf(1)) ELSE Same)
      ELSE LET q  == ExactBinary(v.bits)
               zs == IF SignBit(v.bits) THEN -1 ELSE 1
           IN IF cmd = "math:abs" THEN Term(TF([v.bits EXCEPT ![1] = v.bits[1] % 8]))   \* sign bit cleared
              ELSE Fx(RoundI(cmd, q), zs)
    ELSE IF cmd = "inexact-num" THEN Term(Conv(args, 1))
    ELSE \* exact-num
      IF v.k = "x" THEN OfExact(BG!One(BG!ToQ(v)))
      ELSE IF v.c # "fin" THEN OfExact(BG!Exc)
      ELSE OfExact(BG!One(ExactBinary(v.bits)))
=============================================================================
