CONSTANT MaxLen = 3
CONSTANT AgreeLen = 3
INIT Init
NEXT Next
INVARIANT BackEndsAgree
INVARIANT Canonical
INVARIANT Emit
