----------------------------- MODULE ArithRings -----------------------------
(* The two integer back ends of Arith.tla and the translation between them.
   SM = Arith over TLC's native integers (all values small);  BG = Arith over BigNat integers. *)
EXTENDS BigNat

SAbs(a)     == IF a < 0 THEN -a ELSE a
SSign(a)    == IF a < 0 THEN -1 ELSE IF a > 0 THEN 1 ELSE 0
SAdd(a, b)  == a + b
SNeg(a)     == -a
SMul(a, b)  == a * b
SQuoT(a, b) == SSign(a) * SSign(b) * (SAbs(a) \div SAbs(b))
RECURSIVE SGcd(_, _)
SGcd(a, b)  == IF b = 0 THEN a ELSE SGcd(b, a % b)
SFits64(a)  == TRUE

SM == INSTANCE Arith WITH I0 <- 0, I1 <- 1, IAdd <- SAdd, INeg <- SNeg, IMul <- SMul, ISign <- SSign,
                          IQuoT <- SQuoT, IGcd <- SGcd, IFits64 <- SFits64
BG == INSTANCE Arith WITH I0 <- Z0, I1 <- Z1, IAdd <- ZAdd, INeg <- ZNeg, IMul <- ZMul, ISign <- ZSign,
                          IQuoT <- ZQuoT, IGcd <- ZGcd, IFits64 <- ZFits64

\* argument values: every value carries all fields (TLC compares records field by field)
X(n, d)  == [k |-> "x", n |-> n, d |-> d, c |-> "", id |-> ""]          \* exact n/d, lowest terms, d > 0
F(c, id) == [k |-> "f", n |-> 0, d |-> 1, c |-> c, id |-> id]           \* a float of class c named id

LiftV(v)  == IF v.k = "x" THEN [v EXCEPT !.n = ZFromInt(v.n), !.d = ZFromInt(v.d)]
             ELSE [v EXCEPT !.n = Z0, !.d = Z1]
Lift(s)   == [i \in 1..Len(s) |-> LiftV(s[i])]
LowerO(o) == [t |-> o.t, vs |-> [i \in 1..Len(o.vs) |-> [cls |-> o.vs[i].cls, n |-> ZToInt(o.vs[i].n), d |-> ZToInt(o.vs[i].d)]]]
=============================================================================
