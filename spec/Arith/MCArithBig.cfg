CONSTANT L = 2
INIT Init
NEXT Next
INVARIANT WellFormed
INVARIANT Emit
