INIT Init
NEXT Next
INVARIANT BitsOK
INVARIANT Emit
