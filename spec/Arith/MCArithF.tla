------------------------------ MODULE MCArithF ------------------------------
(* G for C12: every argument list of length 1..MaxLen with at least one float, over the class
   pool below, for + - * /; every pool value for the rounding functions, inexact-num and
   exact-num.  TLC prints each case with the outcome ArithF.tla prescribes. *)
EXTENDS ArithF, TLC, Json
CONSTANT MaxLen
VARIABLES ph, cmd, first, args

FV(c, id, bits) == [k |-> "f", n |-> Z0, d |-> Z1, c |-> c, id |-> id, bits |-> bits]
XV(n, d)        == [k |-> "x", n |-> n, d |-> d, c |-> "", id |-> "", bits |-> <<>>]
H(a, b, c, d)   == <<a, b, c>> \o [i \in 1..13 |-> d]          \* sign/exponent digits a b c, mantissa digit d repeated

Floats == {FV("fin", "+0.0", H(0, 0, 0, 0)), FV("fin", "-0.0", H(8, 0, 0, 0)),
           FV("fin", "1.5", <<3, 15, 15, 8>> \o [i \in 1..12 |-> 0]), FV("fin", "-2.0", H(12, 0, 0, 0)),
           FV("inf", "+Inf", H(7, 15, 15, 0)), FV("inf", "-Inf", H(15, 15, 15, 0)),
           FV("nan", "NaN", <<7, 15, 15, 8>> \o [i \in 1..12 |-> 0]),
           FV("fin", "subnormal", [i \in 1..16 |-> IF i = 16 THEN 1 ELSE 0]),
           FV("fin", "max", <<7, 15, 14>> \o [i \in 1..13 |-> 15])}
\* more finite floats for the rounding functions: ties, the largest float below 1/2, 2^52 - 1/2, 0.1, 2^53, -1e300
RoundFloats == {FV("fin", "0.5", H(3, 15, 14, 0)), FV("fin", "-0.5", H(11, 15, 14, 0)),
                FV("fin", "2.5", <<4, 0, 0, 4>> \o [i \in 1..12 |-> 0]), FV("fin", "-2.5", <<12, 0, 0, 4>> \o [i \in 1..12 |-> 0]),
                FV("fin", "-1.5", <<11, 15, 15, 8>> \o [i \in 1..12 |-> 0]), FV("fin", "3.5", <<4, 0, 0, 12>> \o [i \in 1..12 |-> 0]),
                FV("fin", "pred(0.5)", <<3, 15, 13>> \o [i \in 1..13 |-> 15]), FV("fin", "-pred(0.5)", <<11, 15, 13>> \o [i \in 1..13 |-> 15]),
                FV("fin", "2^52-0.5", <<4, 3, 2>> \o [i \in 1..13 |-> 15]), FV("fin", "-(2^52-0.5)", <<12, 3, 2>> \o [i \in 1..13 |-> 15]),
                FV("fin", "0.1", <<3, 15, 11>> \o [i \in 1..12 |-> 9] \o <<10>>), FV("fin", "2^53", H(4, 3, 4, 0)),
                FV("fin", "-2^63", H(12, 3, 14, 0)), FV("fin", "2^63", H(4, 3, 14, 0)), FV("fin", "-subnormal", <<8>> \o [i \in 1..14 |-> 0] \o <<1>>),
                FV("fin", "-max", <<15, 15, 14>> \o [i \in 1..13 |-> 15]), FV("fin", "1e300~", <<7, 14, 3>> \o [i \in 1..13 |-> 7])}

P(m)  == Z(1, m)
RECURSIVE PowB(_)
PowB(j) == IF j = 0 THEN <<1>> ELSE Shift(PowB(j - 1))
Three == P(<<3>>)
Exacts == {XV(Z0, Z1), XV(Z1, Z1), XV(ZFromInt(-3), Z1), XV(P(Add(TwoTo(53), <<1>>)), Z1),
           XV(P(TwoTo(64)), Z1), XV(Z(-1, TwoTo(64)), Z1), XV(Z1, Three),
           XV(P(Add(TwoTo(64), <<1>>)), P(<<2>>)),                       \* (2^64+1)/2: not an integer, finite image 2^63
           XV(P(MulSmall(PowB(77), 100)), Three),                        \* 10^310/3: nearest double is +Inf
           XV(ZNeg(Z1), P(MulSmall(PowB(82), 3))),                       \* -1/(3*10^328): nearest double is -0.0
           XV(P(Sub(TwoTo63, <<1>>)), Z1), XV(Z(-1, TwoTo63), Z1), XV(P(TwoTo63), Z1)}
NoArg == [k |-> "none", n |-> Z0, d |-> Z1, c |-> "", id |-> "", bits |-> <<>>]

Pool == Floats \cup Exacts
Lists(S, lo, hi) == UNION {[1..j -> S] : j \in lo..hi}
HasF(s) == \E i \in 1..Len(s) : s[i].k = "f"

ArgsOf(c, f) ==
  IF c \in FoldCmds THEN {s \in {<<f>> \o r : r \in Lists(Pool, 0, MaxLen - 1)} : HasF(s)}
  ELSE {<<f>>}
FirstOf(c) == IF c \in FoldCmds THEN Pool ELSE Pool \cup RoundFloats

Init == ph = 0 /\ cmd \in FCmds /\ first \in FirstOf(cmd) /\ args = <<>>
Next == ph = 0 /\ ph' = 1 /\ UNCHANGED <<cmd, first>> /\ args' \in ArgsOf(cmd, first)

Out == FOutcome(cmd, args)
BitsOK == ph = 1 => \A i \in 1..Len(args) : ClassOK(args[i])
Shape  == ph = 1 => (Out.t \in {"term", "fx", "same"} => HasF(args) \/ cmd = "inexact-num")
Emit   == ph = 1 => PrintT(ToJson([cmd |-> cmd, args |-> args, out |-> Out]))
=============================================================================
