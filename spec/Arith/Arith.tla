------------------------------- MODULE Arith -------------------------------
(* C11 -- exact arithmetic of the numeric builtins, from "Exactness" (website/ref/language.md),
   "Exactness-preserving commands" and the entries  + - * / % range  (builtin_fn_num.d.elv) and
   math:abs ceil floor round round-to-even trunc min max pow  (math.d.elv).

   The module is written over an abstract ring of integers (CONSTANT operators I0 .. IFits64) and
   is instantiated twice:  Small (TLC's native integers; exhaustive small pool, internal theorems)
   and Big (BigNat.tla; the int64 / big-integer boundary and recorded random cases).

   Arguments   exact  [k |-> "x", n, d]   the rational n/d in lowest terms, d > 0
               float  [k |-> "f", c |-> "fin" | "inf" | "nan", ...]  (opaque here; C12 owns them)
   Outcome(cmd, args, step)  =  [t, vs]
     t = "vals"     the command outputs exactly the values vs, each [cls, n, d] with n/d in lowest
                    terms and cls the canonical class:  "int" iff d = 1 and n fits in 64 bits,
                    "bigint" iff d = 1 otherwise,  "rat" iff d # 1
     t = "exc"      the command raises an exception (and outputs nothing)
     t = "inexact"  an inexact argument is involved and no exact-zero rule applies: not prescribed
                    here (ArithF.tla, C12)
     t = "unspec"   Unspecified: the documentation leaves the case open, any outcome is accepted:
        - `/` without arguments (implicit cd);
        - `/ 0` (one exact zero): "`/ $y` is `/ 1 $y`" says division by exact zero, "when $x-num
          is exact 0 and no $y-num is exact 0 the result is exact 0" says 0;
        - `math:pow 0 0`;  `range` with &step=0.

   Rationals are kept as unreduced fractions (d > 0) inside a command and reduced once per output
   value (Norm); the internal theorems (MCArith.tla) relate the operations to their declarative
   meaning (floor: k <= x < k+1, round: nearest, ties away from zero, ...). *)
EXTENDS Integers, Sequences

CONSTANTS I0, I1,               \* the integers 0 and 1
          IAdd(_, _), INeg(_), IMul(_, _),
          ISign(_),             \* -1, 0, 1 as native integers
          IQuoT(_, _),          \* quotient truncated towards zero (divisor # 0)
          IGcd(_, _),           \* gcd of two non-negative integers, not both 0
          IFits64(_)            \* -2^63 <= i < 2^63

ISub(a, b)  == IAdd(a, INeg(b))
ICmp(a, b)  == ISign(ISub(a, b))
IAbs(a)     == IF ISign(a) < 0 THEN INeg(a) ELSE a
I2          == IAdd(I1, I1)
IRemT(a, b) == ISub(a, IMul(b, IQuoT(a, b)))          \* remainder with the sign of a
IEven(a)    == ISign(IRemT(a, I2)) = 0

(* ---------------- rationals: fractions with positive denominator ---------------- *)
Q(n, d)    == [n |-> n, d |-> d]
QInt(i)    == Q(i, I1)
Norm(q)    == LET g == IGcd(IAbs(q.n), q.d) IN Q(IQuoT(q.n, g), IQuoT(q.d, g))
QAdd(a, b) == Q(IAdd(IMul(a.n, b.d), IMul(b.n, a.d)), IMul(a.d, b.d))
QNeg(a)    == Q(INeg(a.n), a.d)
QSub(a, b) == QAdd(a, QNeg(b))
QMul(a, b) == Q(IMul(a.n, b.n), IMul(a.d, b.d))
QInv(a)    == IF ISign(a.n) > 0 THEN Q(a.d, a.n) ELSE Q(INeg(a.d), INeg(a.n))      \* a # 0
QDiv(a, b) == QMul(a, QInv(b))                                                     \* b # 0
QSign(a)   == ISign(a.n)
QCmp(a, b) == ISign(ISub(IMul(a.n, b.d), IMul(b.n, a.d)))
QAbs(a)    == IF QSign(a) < 0 THEN QNeg(a) ELSE a
QHalf      == Q(I1, I2)

\* integer parts (results are ring integers)
QTrunc(a) == IQuoT(a.n, a.d)
QFloor(a) == IF ISign(IRemT(a.n, a.d)) < 0 THEN ISub(QTrunc(a), I1) ELSE QTrunc(a)
QCeil(a)  == IF ISign(IRemT(a.n, a.d)) > 0 THEN IAdd(QTrunc(a), I1) ELSE QTrunc(a)
\* nearest integer, a tie goes away from zero
QRound(a) == IF QSign(a) >= 0 THEN QFloor(QAdd(a, QHalf)) ELSE QCeil(QSub(a, QHalf))
\* nearest integer, a tie goes to the even neighbour
QRoundEven(a) ==
  LET f == QFloor(a)
      c == QCmp(QSub(a, QInt(f)), QHalf)
  IN IF c < 0 THEN f
     ELSE IF c > 0 THEN IAdd(f, I1)
     ELSE IF IEven(f) THEN f ELSE IAdd(f, I1)

RECURSIVE QPow(_, _)            \* e >= 0
QPow(q, e) == IF ISign(e) = 0 THEN QInt(I1) ELSE QMul(q, QPow(q, ISub(e, I1)))

Fold(Op(_, _), init, s) ==
  LET f[i \in 0..Len(s)] == IF i = 0 THEN init ELSE Op(f[i - 1], s[i]) IN f[Len(s)]

(* ---------------- argument values ---------------- *)
IsX(v)    == v.k = "x"
IsX0(v)   == IsX(v) /\ ISign(v.n) = 0
IsXInt(v) == IsX(v) /\ ICmp(v.d, I1) = 0
IsFInf(v) == v.k = "f" /\ v.c = "inf"
ToQ(v)    == Q(v.n, v.d)
Qs(args)  == [i \in 1..Len(args) |-> ToQ(args[i])]
AnyF(args)    == \E i \in 1..Len(args) : ~IsX(args[i])
AnyFInf(args) == \E i \in 1..Len(args) : IsFInf(args[i])
AnyX0(args)   == \E i \in 1..Len(args) : IsX0(args[i])
Rest(args)    == SubSeq(args, 2, Len(args))

(* ---------------- outcomes ---------------- *)
Class(q) == IF ICmp(q.d, I1) # 0 THEN "rat" ELSE IF IFits64(q.n) THEN "int" ELSE "bigint"
Res(q0)  == LET q == Norm(q0) IN [cls |-> Class(q), n |-> q.n, d |-> q.d]
Exc      == [t |-> "exc", vs |-> <<>>]
Inexact  == [t |-> "inexact", vs |-> <<>>]
Unspec   == [t |-> "unspec", vs |-> <<>>]
Many(qs) == [t |-> "vals", vs |-> [i \in 1..Len(qs) |-> Res(qs[i])]]
One(q)   == Many(<<q>>)

(* ---------------- the commands ---------------- *)
CAdd(args) == IF AnyF(args) THEN Inexact ELSE One(Fold(QAdd, QInt(I0), Qs(args)))

CSub(args) ==
  IF Len(args) = 0 THEN Exc
  ELSE IF AnyF(args) THEN Inexact
  ELSE IF Len(args) = 1 THEN One(QNeg(ToQ(args[1])))
  ELSE One(Fold(QSub, ToQ(args[1]), Qs(Rest(args))))

CMul(args) ==
  IF AnyX0(args) /\ ~AnyFInf(args) THEN One(QInt(I0))      \* exact-zero rule, also with inexact arguments
  ELSE IF AnyF(args) THEN Inexact
  ELSE One(Fold(QMul, QInt(I1), Qs(args)))

CDiv(args) ==
  IF Len(args) = 0 THEN Unspec
  ELSE IF AnyX0(Rest(args)) THEN Exc                        \* division by exact zero, whatever the rest
  ELSE IF IsX0(args[1]) THEN (IF Len(args) = 1 THEN Unspec ELSE One(QInt(I0)))   \* exact-zero rule
  ELSE IF AnyF(args) THEN Inexact
  ELSE IF Len(args) = 1 THEN One(QInv(ToQ(args[1])))
  ELSE One(Fold(QDiv, ToQ(args[1]), Qs(Rest(args))))

CRem(args) ==
  IF Len(args) # 2 THEN Exc
  ELSE IF ~IsXInt(args[1]) \/ ~IsXInt(args[2]) THEN Exc     \* "both arguments must be exact integers"
  ELSE IF IsX0(args[2]) THEN Exc
  ELSE One(QInt(IRemT(args[1].n, args[2].n)))

CUnary(F(_), args) ==
  IF Len(args) # 1 THEN Exc
  ELSE IF AnyF(args) THEN Inexact
  ELSE One(F(ToQ(args[1])))
FAbs(q)       == QAbs(q)
FCeil(q)      == QInt(QCeil(q))
FFloor(q)     == QInt(QFloor(q))
FRound(q)     == QInt(QRound(q))
FRoundEven(q) == QInt(QRoundEven(q))
FTrunc(q)     == QInt(QTrunc(q))

QMin2(a, b) == IF QCmp(b, a) < 0 THEN b ELSE a
QMax2(a, b) == IF QCmp(b, a) > 0 THEN b ELSE a
CMinMax(Pick(_, _), args) ==
  IF Len(args) = 0 THEN Exc
  ELSE IF AnyF(args) THEN Inexact
  ELSE One(Fold(Pick, ToQ(args[1]), Qs(Rest(args))))

CPow(args) ==
  IF Len(args) # 2 THEN Exc
  ELSE LET b == args[1]
           e == args[2]
       IN IF ~IsX(b) \/ ~IsXInt(e) THEN Inexact             \* "exact when base exact and exponent exact integer"
          ELSE IF IsX0(b) /\ ISign(e.n) < 0 THEN Exc        \* no exact result: division by exact zero
          ELSE IF IsX0(b) /\ ISign(e.n) = 0 THEN Unspec
          ELSE IF ISign(e.n) >= 0 THEN One(QPow(ToQ(b), e.n))
          ELSE One(QPow(QInv(ToQ(b)), INeg(e.n)))

RECURSIVE RangeSeq(_, _, _, _)
RangeSeq(cur, end, st, up) ==
  IF (up /\ QCmp(cur, end) < 0) \/ (~up /\ QCmp(cur, end) > 0)
  THEN <<cur>> \o RangeSeq(Norm(QAdd(cur, st)), end, st, up)
  ELSE <<>>

CRange(args, step) ==           \* step = << >> or <<s>>
  IF Len(args) \notin {1, 2} THEN Exc
  ELSE IF AnyF(args) \/ AnyF(step) THEN Inexact
  ELSE LET start == IF Len(args) = 1 THEN QInt(I0) ELSE ToQ(args[1])
           end   == ToQ(args[Len(args)])
           up    == QCmp(start, end) <= 0
           st    == IF step = <<>> THEN (IF up THEN QInt(I1) ELSE QInt(INeg(I1))) ELSE ToQ(step[1])
       IN IF QSign(st) = 0 THEN Unspec
          ELSE IF (up /\ QSign(st) < 0) \/ (~up /\ QSign(st) > 0) THEN Exc
          ELSE Many(RangeSeq(start, end, st, up))

Cmds == {"+", "-", "*", "/", "%", "range", "math:abs", "math:ceil", "math:floor", "math:round",
         "math:round-to-even", "math:trunc", "math:min", "math:max", "math:pow"}

Outcome(cmd, args, step) ==
  CASE cmd = "+" -> CAdd(args)
    [] cmd = "-" -> CSub(args)
    [] cmd = "*" -> CMul(args)
    [] cmd = "/" -> CDiv(args)
    [] cmd = "%" -> CRem(args)
    [] cmd = "range" -> CRange(args, step)
    [] cmd = "math:abs" -> CUnary(FAbs, args)
    [] cmd = "math:ceil" -> CUnary(FCeil, args)
    [] cmd = "math:floor" -> CUnary(FFloor, args)
    [] cmd = "math:round" -> CUnary(FRound, args)
    [] cmd = "math:round-to-even" -> CUnary(FRoundEven, args)
    [] cmd = "math:trunc" -> CUnary(FTrunc, args)
    [] cmd = "math:min" -> CMinMax(QMin2, args)
    [] cmd = "math:max" -> CMinMax(QMax2, args)
    [] cmd = "math:pow" -> CPow(args)
=============================================================================
