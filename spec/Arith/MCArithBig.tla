----------------------------- MODULE MCArithBig -----------------------------
(* G for C11 at the machine-integer / big-integer boundary: Arith.tla over BigNat prescribes the
   outcome (value and canonical class) of every command on argument lists drawn from
   {0, +-1, +-2^31, +-(2^63-1), +-2^63, +-(2^63+1), 2^64, 10^30} and a few big rationals. *)
EXTENDS ArithRings, TLC, Json
CONSTANT L                      \* longest list for + - *
VARIABLES ph, cmd, first, case

P(m)  == Z(1, m)
N_(m) == Z(-1, m)
T63   == TwoTo63
T64   == TwoTo(64)
T31   == TwoTo(31)
Ten30 == <<0, 0, 0, 0, 0, 0, 0, 100>>
XI(z) == X(z, Z1)
BInts == {XI(Z0), XI(Z1), XI(ZNeg(Z1)), XI(P(T31)), XI(N_(T31)),
          XI(P(Sub(T63, <<1>>))), XI(N_(Sub(T63, <<1>>))), XI(P(T63)), XI(N_(T63)),
          XI(P(Add(T63, <<1>>))), XI(N_(Add(T63, <<1>>))), XI(P(T64)), XI(P(Ten30))}
Two   == P(<<2>>)
BRats == {X(P(Sub(T64, <<1>>)), Two), X(N_(Sub(T64, <<1>>)), Two), X(P(Add(T64, <<1>>)), Two), X(N_(Add(T64, <<1>>)), Two),
          X(Z1, P(T63)), X(N_(Sub(T63, <<1>>)), P(T63)), X(P(Ten30), P(<<3>>)), X(Z1, Two), X(ZNeg(Z1), Two),
          X(P(Sub(T64, <<3>>)), Two), X(N_(Sub(T64, <<3>>)), Two)}
NoArg == [k |-> "none", n |-> Z0, d |-> Z1, c |-> "", id |-> ""]

Small(i) == XI(ZFromInt(i))
Fold3   == {"+", "-", "*"}
Pairs   == {"/", "%", "math:min", "math:max"}
Unary   == {"math:abs", "math:ceil", "math:floor", "math:round", "math:round-to-even", "math:trunc"}
Lists(S, lo, hi) == UNION {[1..j -> S] : j \in lo..hi}

PowBases == {Small(2), Small(-2), Small(10), X(Z1, Two), X(ZNeg(Z1), Two), XI(P(T31)), XI(N_(T63)), XI(P(T64))}
PowExps(b) == IF b \in {Small(2), Small(-2), Small(10), X(Z1, Two), X(ZNeg(Z1), Two)}
              THEN {Small(e) : e \in {0, 1, 2, 3, 31, 62, 63, 64, -1, -2, -63, -64}}
              ELSE {Small(e) : e \in {0, 1, 2, 3, -1, -2}}

\* range start end [step]: walks that cross the boundaries
RangeCases ==
  LET a(i) == XI(ZAdd(P(T63), ZFromInt(i)))            \* 2^63 + i
      b(i) == XI(ZAdd(N_(T63), ZFromInt(i)))           \* -2^63 + i
  IN {[args |-> <<a(-2), a(2)>>, step |-> <<>>], [args |-> <<a(1), a(-3)>>, step |-> <<>>],
      [args |-> <<b(1), b(-2)>>, step |-> <<>>], [args |-> <<b(-2), b(2)>>, step |-> <<>>],
      [args |-> <<a(-3), a(0)>>, step |-> <<Small(2)>>], [args |-> <<a(-3), a(-1)>>, step |-> <<Small(5)>>],
      [args |-> <<b(2), b(0)>>, step |-> <<Small(-5)>>],
      [args |-> <<XI(P(T64))>>, step |-> <<XI(P(T63))>>], [args |-> <<XI(Z0), a(-1)>>, step |-> <<XI(P(TwoTo(62)))>>],
      [args |-> <<XI(Z0), b(0)>>, step |-> <<XI(N_(TwoTo(62)))>>], [args |-> <<Small(-1), b(0)>>, step |-> <<XI(N_(TwoTo(62)))>>],
      [args |-> <<a(-1), a(1)>>, step |-> <<X(Z1, Two)>>], [args |-> <<b(0), b(-2)>>, step |-> <<X(ZNeg(Z1), Two)>>],
      [args |-> <<a(-1), a(-1)>>, step |-> <<>>], [args |-> <<a(0), a(1)>>, step |-> <<Small(-1)>>],
      [args |-> <<X(P(Sub(T64, <<3>>)), Two), a(1)>>, step |-> <<>>]}

CasesOf(c, f) ==
  IF c \in Fold3 THEN {[args |-> <<f>> \o r, step |-> <<>>] : r \in Lists(BInts, 0, L - 1)}
  ELSE IF c \in Pairs THEN {[args |-> <<f>> \o r, step |-> <<>>] : r \in Lists(BInts \cup {X(P(Sub(T64, <<1>>)), Two)}, 1, 1)}
                           \cup (IF c = "/" THEN {[args |-> <<f>>, step |-> <<>>]} ELSE {})
  ELSE IF c \in Unary THEN {[args |-> <<f>>, step |-> <<>>]}
  ELSE IF c = "math:pow" THEN (IF f \in PowBases THEN {[args |-> <<f, e>>, step |-> <<>>] : e \in PowExps(f)} ELSE {})
  ELSE {rc \in RangeCases : rc.args[1] = f}

FirstOf(c) == IF c \in Unary THEN BInts \cup BRats
              ELSE IF c = "math:pow" THEN PowBases
              ELSE IF c = "range" THEN {rc.args[1] : rc \in RangeCases}
              ELSE BInts

Init == /\ ph = 0 /\ cmd \in BG!Cmds /\ first \in FirstOf(cmd)
        /\ case = [args |-> <<>>, step |-> <<>>]
Next == /\ ph = 0 /\ ph' = 1 /\ UNCHANGED <<cmd, first>>
        /\ case' \in CasesOf(cmd, first)

Out == BG!Outcome(cmd, case.args, case.step)
WellFormed == ph = 1 => \A i \in 1..Len(Out.vs) :
                LET v == Out.vs[i]
                IN /\ IsZ(v.n) /\ IsZ(v.d) /\ v.d.s = 1 /\ Gcd(v.n.m, v.d.m) = <<1>>
                   /\ (v.cls = "rat" <=> v.d # Z1)
                   /\ (v.cls = "int" <=> (v.d = Z1 /\ ZFits64(v.n)))
Emit == ph = 1 => PrintT(ToJson([cmd |-> cmd, args |-> case.args, step |-> case.step, out |-> Out]))
=============================================================================
