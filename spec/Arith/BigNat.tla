------------------------------- MODULE BigNat -------------------------------
(* Arbitrary-precision arithmetic inside TLC (TLC's integers are 32-bit): the integer back end of
   the exact-arithmetic specification Arith.tla (C11) and of the class rules of C05 / C12.

   A natural number is a little-endian sequence of base-10^4 limbs without leading (= trailing
   in the sequence) zero limbs; zero is << >>.  Limb products stay below 10^8 + 10^4 < 2^31.
   A signed integer is [s |-> -1 | 0 | 1, m |-> natural], with s = 0 iff m = << >>.

   Naturals:  Add  Sub (a >= b)  Mul  Cmp  DivMod (schoolbook long division; the quotient limb is
              located by bisection between two bounds computed from the leading limbs)  Gcd
   Integers:  ZAdd ZNeg ZMul ZSign ZQuoT (quotient truncated towards zero) ZGcd ZFits64
   Checked in MCBigNat.tla against TLC's native arithmetic (all pairs below a bound, pairs around
   the limb boundaries, division identities on multi-limb operands). *)
EXTENDS Integers, Sequences

B == 10000

Hd(a) == IF a = <<>> THEN 0 ELSE a[1]
Tl(a) == IF a = <<>> THEN <<>> ELSE Tail(a)

IsNat(a) == /\ \A i \in 1..Len(a) : a[i] \in 0..(B - 1)
            /\ (a = <<>> \/ a[Len(a)] # 0)

RECURSIVE Trim(_)
Trim(a) == IF a = <<>> THEN a
           ELSE IF a[Len(a)] = 0 THEN Trim(SubSeq(a, 1, Len(a) - 1)) ELSE a

RECURSIVE FromNat(_)
FromNat(n) == IF n = 0 THEN <<>> ELSE <<n % B>> \o FromNat(n \div B)

RECURSIVE ToNat(_)            \* only for values known to be small
ToNat(a) == IF a = <<>> THEN 0 ELSE a[1] + B * ToNat(Tail(a))

(* ---------------- addition, subtraction, comparison ---------------- *)
RECURSIVE AddC(_, _, _)
AddC(a, b, c) ==
  IF a = <<>> /\ b = <<>> THEN (IF c = 0 THEN <<>> ELSE <<c>>)
  ELSE IF b = <<>> /\ c = 0 THEN a
  ELSE IF a = <<>> /\ c = 0 THEN b
  ELSE LET x == Hd(a) + Hd(b) + c IN <<x % B>> \o AddC(Tl(a), Tl(b), x \div B)
Add(a, b) == AddC(a, b, 0)

RECURSIVE CmpFrom(_, _, _)
CmpFrom(a, b, i) == IF i = 0 THEN 0
                    ELSE IF a[i] < b[i] THEN -1
                    ELSE IF a[i] > b[i] THEN 1
                    ELSE CmpFrom(a, b, i - 1)
Cmp(a, b) == IF Len(a) < Len(b) THEN -1
             ELSE IF Len(a) > Len(b) THEN 1
             ELSE CmpFrom(a, b, Len(a))

RECURSIVE SubC(_, _, _)       \* precondition a >= b
SubC(a, b, c) ==
  IF a = <<>> THEN <<>>
  ELSE IF b = <<>> /\ c = 0 THEN a
  ELSE LET x == Hd(a) - Hd(b) - c
       IN IF x < 0 THEN <<x + B>> \o SubC(Tl(a), Tl(b), 1)
          ELSE <<x>> \o SubC(Tl(a), Tl(b), 0)
Sub(a, b) == Trim(SubC(a, b, 0))

(* ---------------- multiplication ---------------- *)
RECURSIVE MulC(_, _, _)
MulC(a, k, c) == IF a = <<>> THEN (IF c = 0 THEN <<>> ELSE <<c>>)
                 ELSE LET x == a[1] * k + c IN <<x % B>> \o MulC(Tail(a), k, x \div B)
MulSmall(a, k) == IF k = 0 THEN <<>> ELSE IF k = 1 THEN a ELSE MulC(a, k, 0)     \* 0 <= k < B

Shift(a) == IF a = <<>> THEN <<>> ELSE <<0>> \o a                                \* a * B

RECURSIVE Mul(_, _)
Mul(a, b) == IF a = <<>> \/ b = <<>> THEN <<>>
             ELSE Add(MulSmall(a, b[1]), Shift(Mul(a, Tail(b))))

(* ---------------- division ---------------- *)
RECURSIVE QDigit(_, _, _, _)  \* the largest q in lo..hi with b*q <= r   (b*lo <= r is given)
QDigit(r, b, lo, hi) ==
  IF lo >= hi THEN lo
  ELSE LET mid == (lo + hi + 1) \div 2
       IN IF Cmp(MulSmall(b, mid), r) <= 0 THEN QDigit(r, b, mid, hi)
          ELSE QDigit(r, b, lo, mid - 1)

(* One quotient limb: r < b*B.  With m = Len(b), bt the leading limb of b and rt the value of the
   limbs of r from position m upwards:  rt*B^(m-1) <= r < (rt+1)*B^(m-1)  and
   bt*B^(m-1) <= b < (bt+1)*B^(m-1),  hence  rt \div (bt+1) <= r \div b <= (rt+1) \div bt. *)
QLimb(r, b) ==
  IF Cmp(r, b) < 0 THEN 0
  ELSE LET m  == Len(b)
           bt == b[m]
           rt == IF Len(r) = m THEN r[m] ELSE r[m + 1] * B + r[m]
           lo == rt \div (bt + 1)
           h0 == (rt + 1) \div bt
           hi == IF h0 > B - 1 THEN B - 1 ELSE h0
       IN QDigit(r, b, lo, hi)

RECURSIVE DivStep(_, _, _, _) \* limbs of a from the most significant one; st.r < b throughout
DivStep(a, b, i, st) ==
  IF i = 0 THEN st
  ELSE LET r1 == Trim(<<a[i]>> \o st.r)
           d  == QLimb(r1, b)
       IN DivStep(a, b, i - 1, [q |-> <<d>> \o st.q, r |-> Sub(r1, MulSmall(b, d))])

DivMod(a, b) ==               \* b # << >>;  a = q*b + r, r < b
  IF Cmp(a, b) < 0 THEN [q |-> <<>>, r |-> a]
  ELSE LET st == DivStep(a, b, Len(a), [q |-> <<>>, r |-> <<>>])
       IN [q |-> Trim(st.q), r |-> st.r]

RECURSIVE Gcd(_, _)
Gcd(a, b) == IF b = <<>> THEN a ELSE Gcd(b, DivMod(a, b).r)

(* ---------------- signed integers ---------------- *)
Z(s, m)  == [s |-> IF m = <<>> THEN 0 ELSE s, m |-> m]
Z0       == Z(0, <<>>)
Z1       == Z(1, <<1>>)
ZFromInt(n) == IF n < 0 THEN Z(-1, FromNat(-n)) ELSE Z(1, FromNat(n))
ZToInt(z)   == z.s * ToNat(z.m)                       \* only for values known to be small
IsZ(z)      == z.s \in {-1, 0, 1} /\ IsNat(z.m) /\ (z.s = 0 <=> z.m = <<>>)

ZSign(z) == z.s
ZNeg(z)  == Z(-z.s, z.m)
ZAbs(z)  == Z(1, z.m)
ZAdd(a, b) ==
  IF a.s = 0 THEN b
  ELSE IF b.s = 0 THEN a
  ELSE IF a.s = b.s THEN Z(a.s, Add(a.m, b.m))
  ELSE LET c == Cmp(a.m, b.m)
       IN IF c = 0 THEN Z0
          ELSE IF c > 0 THEN Z(a.s, Sub(a.m, b.m))
          ELSE Z(b.s, Sub(b.m, a.m))
ZMul(a, b)  == Z(a.s * b.s, Mul(a.m, b.m))
ZQuoT(a, b) == Z(a.s * b.s, DivMod(a.m, b.m).q)       \* b # 0; truncated towards zero
ZGcd(a, b)  == Z(1, Gcd(a.m, b.m))
ZCmp(a, b)  == ZSign(ZAdd(a, ZNeg(b)))

RECURSIVE TwoTo(_)            \* 2^k, thirteen doublings per limb pass (2^13 < B)
TwoTo(k) == IF k = 0 THEN <<1>>
            ELSE IF k < 13 THEN MulSmall(TwoTo(k - 1), 2)
            ELSE MulSmall(TwoTo(k - 13), 8192)
TwoTo63  == <<5808, 5477, 368, 3372, 922>>            \* 9223372036854775808 (checked in MCBigNat)
ZFits64(z) == IF z.s >= 0 THEN Cmp(z.m, TwoTo63) < 0 ELSE Cmp(z.m, TwoTo63) <= 0
=============================================================================
