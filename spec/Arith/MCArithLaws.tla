---------------------------- MODULE MCArithLaws ----------------------------
(* M for C11: the internal theorems of Arith.tla, checked on the native-integer instance for every
   triple of rationals n/d with |n| <= K, 1 <= d <= D.  They tie the operational definitions used
   to prescribe outcomes to their declarative meaning ("mathematically exact"). *)
EXTENDS ArithRings, TLC
CONSTANTS K, D
VARIABLES ph, x, y, z

Rats == {SM!Norm(SM!Q(n, d)) : n \in (-K)..K, d \in 1..D}
Init == ph = 0 /\ x \in Rats /\ y \in Rats /\ z = x
Next == ph = 0 /\ ph' = 1 /\ UNCHANGED <<x, y>> /\ z' \in Rats

Eq(a, b)  == SM!QCmp(a, b) = 0
Le(a, b)  == SM!QCmp(a, b) <= 0
Lt(a, b)  == SM!QCmp(a, b) < 0
I(k)      == SM!QInt(k)
Dist(a, k) == SM!QAbs(SM!QSub(a, I(k)))
Half      == SM!QHalf
V(q)      == X(SM!Norm(q).n, SM!Norm(q).d)              \* a rational as an argument value
Val(o)    == SM!Q(o.vs[1].n, o.vs[1].d)                 \* the single value of an outcome

Unary == ph = 0 =>
  /\ LET n == SM!Norm(x) IN Eq(n, x) /\ n.d > 0 /\ SGcd(SAbs(n.n), n.d) = 1
  /\ LET k == SM!QFloor(x) IN Le(I(k), x) /\ Lt(x, I(k + 1))
  /\ LET k == SM!QCeil(x) IN Lt(I(k - 1), x) /\ Le(x, I(k))
  /\ LET k == SM!QTrunc(x) IN /\ Le(I(SAbs(k)), SM!QAbs(x)) /\ Lt(SM!QAbs(x), I(SAbs(k) + 1))
                              /\ SSign(k) \in {0, SM!QSign(x)}
  /\ LET k == SM!QRound(x) IN /\ Le(Dist(x, k), Half)
                              /\ (Eq(Dist(x, k), Half) => Lt(SM!QAbs(x), I(SAbs(k))))
  /\ LET k == SM!QRoundEven(x) IN /\ Le(Dist(x, k), Half)
                                  /\ (Eq(Dist(x, k), Half) => k % 2 = 0)
  /\ Le(I(0), SM!QAbs(x)) /\ (Eq(SM!QAbs(x), x) \/ Eq(SM!QAbs(x), SM!QNeg(x)))
  /\ SM!QSign(x) # 0 => Eq(SM!QMul(x, SM!QInv(x)), I(1)) /\ SM!QInv(x).d > 0

Binary == ph = 0 =>
  /\ Eq(SM!QAdd(x, y), SM!QAdd(y, x)) /\ Eq(SM!QMul(x, y), SM!QMul(y, x))
  /\ Eq(SM!QAdd(SM!QSub(x, y), y), x)
  /\ SM!QCmp(x, y) = -SM!QCmp(y, x) /\ SM!QCmp(x, y) = SM!QSign(SM!QSub(x, y))
  /\ SM!QSign(y) # 0 => Eq(SM!QMul(SM!QDiv(x, y), y), x)
  /\ SM!QAdd(x, y).d > 0 /\ SM!QMul(x, y).d > 0
  \* remainder: a = b*q + r with |r| < |b| and r carrying the sign of a
  /\ (x.d = 1 /\ y.d = 1 /\ y.n # 0) =>
       LET o == SM!CRem(<<V(x), V(y)>>)
           r == o.vs[1].n
       IN /\ o.t = "vals" /\ o.vs[1].d = 1
          /\ SAbs(r) < SAbs(y.n) /\ (x.n - r) % SAbs(y.n) = 0 /\ SSign(r) \in {0, SSign(x.n)}
  \* powers: x^(e+1) = x^e * x,  x^(-e) * x^e = 1
  /\ \A e \in 0..3 :
       /\ Eq(SM!QPow(x, e + 1), SM!QMul(SM!QPow(x, e), x))
       /\ SM!QSign(x) # 0 =>
            LET o == SM!CPow(<<V(x), X(-e, 1)>>) IN o.t = "vals" /\ Eq(SM!QMul(Val(o), SM!QPow(x, e)), I(1))
  /\ SM!CPow(<<V(x), X(1, 2)>>).t = "inexact"
  /\ (SM!QSign(x) = 0 /\ y.d = 1 /\ y.n < 0) => SM!CPow(<<V(x), V(y)>>).t = "exc"
  /\ LET o == SM!CMinMax(SM!QMin2, <<V(x), V(y)>>) IN Le(Val(o), x) /\ Le(Val(o), y) /\ (Eq(Val(o), x) \/ Eq(Val(o), y))
  /\ LET o == SM!CMinMax(SM!QMax2, <<V(x), V(y)>>) IN Le(x, Val(o)) /\ Le(y, Val(o)) /\ (Eq(Val(o), x) \/ Eq(Val(o), y))

Ternary == ph = 1 =>
  /\ Eq(SM!QAdd(SM!QAdd(x, y), z), SM!QAdd(x, SM!QAdd(y, z)))
  /\ Eq(SM!QMul(SM!QMul(x, y), z), SM!QMul(x, SM!QMul(y, z)))
  /\ Eq(SM!QMul(x, SM!QAdd(y, z)), SM!QAdd(SM!QMul(x, y), SM!QMul(x, z)))
  /\ (Le(x, y) /\ Le(y, z)) => Le(x, z)
  \* the commands do not depend on the order of summands / factors; - and / are + and * of the rest
  /\ SM!CAdd(<<V(x), V(y), V(z)>>) = SM!CAdd(<<V(z), V(x), V(y)>>)
  /\ SM!CMul(<<V(x), V(y), V(z)>>) = SM!CMul(<<V(z), V(x), V(y)>>)
  /\ SM!CSub(<<V(x), V(y), V(z)>>) = SM!One(SM!QSub(x, SM!QAdd(y, z)))
  /\ (SM!QSign(y) # 0 /\ SM!QSign(z) # 0 /\ SM!QSign(x) # 0) =>
        SM!CDiv(<<V(x), V(y), V(z)>>) = SM!One(SM!QDiv(x, SM!QMul(y, z)))
  /\ (SM!QSign(y) = 0 \/ SM!QSign(z) = 0) => SM!CDiv(<<V(x), V(y), V(z)>>).t = "exc"
  \* range x y &step=z
  /\ LET o  == SM!CRange(<<V(x), V(y)>>, <<V(z)>>)
         up == Le(x, y)
     IN IF SM!QSign(z) = 0 THEN o.t = "unspec"
        ELSE IF (up /\ SM!QSign(z) < 0) \/ (~up /\ SM!QSign(z) > 0) THEN o.t = "exc"
        ELSE /\ o.t = "vals"
             /\ (Len(o.vs) = 0 <=> Eq(x, y))
             /\ Len(o.vs) > 0 => /\ Eq(SM!Q(o.vs[1].n, o.vs[1].d), x)
                                 /\ LET last == SM!Q(o.vs[Len(o.vs)].n, o.vs[Len(o.vs)].d)
                                    IN IF up THEN Lt(last, y) /\ Le(y, SM!QAdd(last, z))
                                       ELSE Lt(y, last) /\ Le(SM!QAdd(last, z), y)
             /\ \A i \in 1..(Len(o.vs) - 1) :
                  Eq(SM!QSub(SM!Q(o.vs[i + 1].n, o.vs[i + 1].d), SM!Q(o.vs[i].n, o.vs[i].d)), z)
=============================================================================
