----------------------------- MODULE JudgeArith -----------------------------
(* V for C11: recorded calls of the real builtins (random argument lists of machine integers, big
   integers and rationals, biased to the 2^63 boundary) judged against Arith.tla over BigNat.
   One TLC state per recorded case {cmd, args, step, obs}; obs is what the real code did
   ([t |-> "vals" | "exc" | "panic", vs]).  Cases the specification does not prescribe
   (Unspecified; inexact results, C12) are reported as "np:<kind>" and accepted. *)
EXTENDS ArithRings, TLC, Json
Cases == ndJsonDeserialize("cases.ndjson")
VARIABLE k
Init == k = 0
Next == k < Len(Cases) /\ k' = k + 1
Pres(c) == BG!Outcome(c.cmd, c.args, c.step)
Judge(c) == LET o == Pres(c)
            IN IF o.t \in {"unspec", "inexact"} THEN PrintT(<<"BAD", k, "np:" \o o.t>>)
               ELSE o = c.obs \/ PrintT(<<"BAD", k, o.t>>)
Inv == k = 0 \/ Judge(Cases[k])
=============================================================================
