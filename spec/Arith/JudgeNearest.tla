---------------------------- MODULE JudgeNearest ----------------------------
(* Case walker for Nearest.tla.  A case is either  [kind |-> "dec", neg, m, sc, bits]  (a float
   literal with exact decimal value m*10^sc and the double `num` produced) or
   [kind |-> "rat", neg, m (numerator), d (denominator), sc |-> 0, bits]  (an exact number and the
   double the conversion produced).  m and d are BigNat naturals. *)
EXTENDS Nearest, TLC, Json
Cases == ndJsonDeserialize("cases.ndjson")
VARIABLE k
Init == k = 0
Next == k < Len(Cases) /\ k' = k + 1
OK(c) == IF c.kind = "dec" THEN NearestDecOK(c.neg, c.m, c.sc, c.bits) ELSE NearestOK(c.neg, c.m, c.d, c.bits)
Inv == k = 0 \/ OK(Cases[k]) \/ PrintT(<<"BAD", k, Cases[k].kind>>)
=============================================================================
