CONSTANT K = 5
CONSTANT D = 4
INIT Init
NEXT Next
INVARIANT Unary
INVARIANT Binary
INVARIANT Ternary
