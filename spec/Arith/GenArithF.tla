----------------------------- MODULE GenArithF -----------------------------
(* V for C12: argument lists recorded by the executor (random bit patterns, random exact numbers)
   -> the outcome ArithF.tla prescribes for each, printed as <<"OUT", k, json>>.  One TLC state per
   list.  The executor evaluates the prescribed term and compares it with the real result. *)
EXTENDS ArithF, TLC, Json
Cases == ndJsonDeserialize("cases.ndjson")
VARIABLE k
Init == k = 0
Next == k < Len(Cases) /\ k' = k + 1
BitsOK == k = 0 \/ \A i \in 1..Len(Cases[k].args) : ClassOK(Cases[k].args[i])
Emit == k = 0 \/ PrintT(<<"OUT", k, ToJson(FOutcome(Cases[k].cmd, Cases[k].args))>>)
=============================================================================
