------------------------------ MODULE Nearest ------------------------------
(* NearestDouble, decided by TLC: is the double with bit pattern `bits` the IEEE-754
   round-to-nearest, ties-to-even image of the non-negative rational x = xn/xd ?
   (Used by C05 for float literals and by C12 for the conversion of exact arguments: the executors
   obtain the double from math/big and TLC judges a sample of these conversions, so the primitive
   is checked, not trusted.)

   With f = M * 2^E the magnitude of the double (M < 2^53), u the gap to the next double above and v
   the gap to the next double below (v = u, except v = u/2 when M = 2^52 and the double is not in
   the lowest binade; no lower neighbour for zero):

       f - v/2  <=  x  <=  f + u/2      and equality only if M is even.

   For the largest double the upper neighbour is 2^1024; a result of infinity is right iff
   x >= 2^1024 - 2^970. *)
EXTENDS ArithF

Pow2Q(e) == IF e >= 0 THEN BG!QInt(Z(1, TwoTo(e))) ELSE BG!Q(Z1, Z(1, TwoTo(-e)))
MantEven(bits) == bits[16] % 2 = 0

NearestMagOK(xn, xd, bits) ==
  LET x  == BG!Q(Z(1, xn), Z(1, xd))
      ef == ExpField(bits)
  IN IF ef = 2047
     THEN Mant(bits) = <<>> /\ Cmp(xn, Mul(xd, Sub(TwoTo(1024), TwoTo(970)))) >= 0          \* infinity
     ELSE
       LET mant == Mant(bits)
           e    == IF ef = 0 THEN -1074 ELSE ef - 1075
           m    == IF ef = 0 THEN mant ELSE Add(TwoTo(52), mant)
           f    == BG!QMul(BG!QInt(Z(1, m)), Pow2Q(e))
           hu   == Pow2Q(e - 1)                                                             \* u/2
           hv   == IF ef > 1 /\ mant = <<>> THEN Pow2Q(e - 2) ELSE Pow2Q(e - 1)             \* v/2
           cu   == BG!QCmp(x, BG!QAdd(f, hu))
           cv   == IF m = <<>> THEN 1 ELSE BG!QCmp(x, BG!QSub(f, hv))
           even == MantEven(bits)
       IN /\ (cu < 0 \/ (cu = 0 /\ even))
          /\ (cv > 0 \/ (cv = 0 /\ even))

\* x = (-1)^neg * xn/xd; a zero result carries the sign asked for
NearestOK(neg, xn, xd, bits) == SignBit(bits) = neg /\ NearestMagOK(xn, xd, bits)

\* decimal form m * 10^sc
RECURSIVE Ten(_)
Ten(j) == IF j = 0 THEN <<1>> ELSE IF j < 4 THEN MulSmall(Ten(j - 1), 10) ELSE Shift(Ten(j - 4))
NearestDecOK(neg, m, sc, bits) ==
  IF sc >= 0 THEN NearestOK(neg, Mul(m, Ten(sc)), <<1>>, bits) ELSE NearestOK(neg, m, Ten(-sc), bits)
=============================================================================
