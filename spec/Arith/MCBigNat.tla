------------------------------ MODULE MCBigNat ------------------------------
(* M for the integer back end: BigNat against TLC's native arithmetic and against algebraic
   identities on operands beyond 32 bits.  Every initial state is one operand pair. *)
EXTENDS BigNat, TLC
CONSTANTS N,                    \* all pairs below N are checked natively
          AllWide               \* TRUE: all pairs of wide operands; FALSE: wide x WideFew
VARIABLES a, b, mode, ph      \* ph = 0: only a chosen (no check yet); ph = 1: pair complete

\* pseudo-random 30-bit values (two 15-bit halves of a Lehmer sequence modulo 65537)
RECURSIVE Lehmer(_)
Lehmer(i) == IF i = 0 THEN 1 ELSE (Lehmer(i - 1) * 75) % 65537
Rand30(i) == (Lehmer(i) % 32768) * 32768 + (Lehmer(i + 57) % 32768)

Edge   == {B - 2, B - 1, B, B + 1, 2 * B - 1, 2 * B, B * B - 1, B * B, B * B + 1, 99989999, 99990000,
           46340, 46341, 65535, 65536, 2147483647 - B, 1073741823, 1073741824, 2147483646, 2147483647}
Native == (0..(N - 1)) \cup Edge \cup {Rand30(i) : i \in 1..40}

\* operands beyond 32 bits
RECURSIVE PowB(_)
PowB(k) == IF k = 0 THEN <<1>> ELSE Shift(PowB(k - 1))
Dbl(k) == TwoTo(k)
TenTo30 == <<0, 0, 0, 0, 0, 0, 0, 100>>
Wide == {TwoTo63, Sub(TwoTo63, <<1>>), Add(TwoTo63, <<1>>), Dbl(64), Dbl(31), Dbl(32), TenTo30,
         PowB(1), PowB(2), PowB(3), PowB(5), Sub(PowB(2), <<1>>), Sub(PowB(4), <<1>>), Sub(PowB(7), <<1>>),
         <<9999, 0, 9999>>, <<1, 0, 0, 1>>, <<5000, 5000, 5000, 4999>>, <<1, 9999>>, <<9999, 1>>, <<7>>, <<2>>, <<1>>,
         <<1234, 5678, 9012, 3456, 7890, 1234>>, <<4321, 8765, 2109>>}

\* two phases so that TLC's workers share the pairs (initial states are computed by one thread)
WideFew == {TwoTo63, TenTo30, <<9999, 0, 9999>>, <<1, 0, 0, 1>>, <<7>>, <<1234, 5678, 9012, 3456, 7890, 1234>>}

Init == /\ ph = 0
        /\ \/ mode = "native" /\ a \in Native
           \/ mode = "wide" /\ a \in Wide
        /\ b = a
Next == /\ ph = 0 /\ ph' = 1 /\ UNCHANGED <<a, mode>>
        /\ b' \in (IF mode = "native" THEN Native ELSE IF AllWide THEN Wide ELSE WideFew)

Fits(x, y) == x = 0 \/ y <= 2147483647 \div x

NativeOK ==
  (ph = 1 /\ mode = "native") =>
    LET x == FromNat(a)
        y == FromNat(b)
    IN /\ IsNat(x) /\ ToNat(x) = a
       /\ Cmp(x, y) = (IF a < b THEN -1 ELSE IF a > b THEN 1 ELSE 0)
       /\ (a <= 2147483647 - b => Add(x, y) = FromNat(a + b))
       /\ (a >= b => Sub(x, y) = FromNat(a - b))
       /\ (Fits(a, b) => Mul(x, y) = FromNat(a * b))
       /\ (b # 0 => DivMod(x, y) = [q |-> FromNat(a \div b), r |-> FromNat(a % b)])
       /\ (b # 0 => LET g == ToNat(Gcd(x, y)) IN g > 0 /\ a % g = 0 /\ b % g = 0
                                                 /\ ToNat(Gcd(FromNat(a \div g), FromNat(b \div g))) = 1)
       \* signed layer
       /\ \A sa \in {-1, 1}, sb \in {-1, 1} :
            LET p == ZFromInt(sa * a)
                q == ZFromInt(sb * b)
            IN /\ IsZ(p) /\ ZToInt(p) = sa * a
               /\ (a <= 2147483647 - b => ZAdd(p, q) = ZFromInt(sa * a + sb * b))
               /\ (Fits(a, b) => ZMul(p, q) = ZFromInt(sa * a * sb * b))
               /\ (b # 0 => ZToInt(ZQuoT(p, q)) = sa * sb * (a \div b))
               /\ ZCmp(p, q) = (IF sa * a < sb * b THEN -1 ELSE IF sa * a > sb * b THEN 1 ELSE 0)

WideOK ==
  (ph = 1 /\ mode = "wide") =>
    LET p  == Mul(a, b)
        s  == Add(a, b)
        dm == DivMod(p, b)
        c  == <<4999, 17>>
        e  == DivMod(Add(p, c), b)
    IN /\ IsNat(p) /\ IsNat(s)
       /\ p = Mul(b, a) /\ s = Add(b, a)
       /\ Sub(s, b) = a /\ Sub(s, a) = b
       /\ dm.q = a /\ dm.r = <<>>
       /\ (Cmp(c, b) < 0 => e.q = a /\ e.r = c)
       /\ Mul(a, Add(b, c)) = Add(p, Mul(a, c))
       /\ Mul(p, c) = Mul(a, Mul(b, c))
       /\ Cmp(p, a) >= 0 /\ Cmp(s, a) > 0
       /\ Gcd(Mul(a, c), Mul(b, c)) = Mul(Gcd(a, b), c)
       /\ LET d == DivMod(a, b) IN Add(Mul(d.q, b), d.r) = a /\ Cmp(d.r, b) < 0

ASSUME Consts ==
          /\ Dbl(63) = TwoTo63
          /\ ZFits64(Z(1, Sub(TwoTo63, <<1>>))) /\ ~ZFits64(Z(1, TwoTo63))
          /\ ZFits64(Z(-1, TwoTo63)) /\ ~ZFits64(Z(-1, Add(TwoTo63, <<1>>)))
          /\ ZFits64(Z0)
          /\ TenTo30 = Mul(Mul(Mul(FromNat(1000000000), FromNat(1000000000)), FromNat(1000000000)), <<1000>>)
          /\ TenTo30 = Mul(PowB(7), <<100>>)
=============================================================================
