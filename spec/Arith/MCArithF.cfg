CONSTANT MaxLen = 2
INIT Init
NEXT Next
INVARIANT BitsOK
INVARIANT Shape
INVARIANT Emit
