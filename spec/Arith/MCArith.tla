------------------------------ MODULE MCArith ------------------------------
(* M + G for C11 on the small pool.  A case is (cmd, args, step).  Phase 0 fixes the command and
   the first argument (so that TLC's workers share the cases), phase 1 is one complete case: TLC
   checks that both integer back ends prescribe the same outcome, that every prescribed value is
   canonical, and prints the case with its prescribed outcome for the executor. *)
EXTENDS ArithRings, TLC, Json
CONSTANTS MaxLen,               \* longest argument list of the variadic commands
          AgreeLen              \* both back ends are compared on lists up to this length
VARIABLES ph, cmd, first, case

XPool == {X(-3, 1), X(-2, 1), X(-1, 1), X(-1, 2), X(0, 1), X(1, 3), X(1, 2), X(1, 1), X(2, 1), X(3, 1)}
FPool == {F("fin", "0.0"), F("fin", "1.5"), F("inf", "+Inf"), F("nan", "NaN")}
NoArg == [k |-> "none", n |-> 0, d |-> 1, c |-> "", id |-> ""]

Variadic == {"+", "-", "*", "/", "math:min", "math:max"}
Binary   == {"%", "math:pow"}
Unary    == {"math:abs", "math:ceil", "math:floor", "math:round", "math:round-to-even", "math:trunc"}
PoolOf(c) == IF c \in {"*", "/", "%"} THEN XPool \cup FPool ELSE XPool

Lists(P, lo, hi) == UNION {[1..j -> P] : j \in lo..hi}
ArgsOf(c, f) ==
  IF f = NoArg THEN (IF c \in Variadic THEN {<<>>} ELSE {})
  ELSE LET more == IF c \in Variadic THEN Lists(PoolOf(c), 0, MaxLen - 1)
                   ELSE IF c \in Binary THEN Lists(PoolOf(c), 1, 1)
                   ELSE IF c \in Unary THEN {<<>>}
                   ELSE Lists(PoolOf(c), 0, 1)                    \* range: one or two arguments
       IN {<<f>> \o r : r \in more}
StepsOf(c) == IF c = "range" THEN {<<>>} \cup {<<s>> : s \in XPool} ELSE {<<>>}

Init == /\ ph = 0 /\ cmd \in SM!Cmds /\ first \in XPool \cup FPool \cup {NoArg}
        /\ (first \in FPool => cmd \in {"*", "/", "%"})
        /\ case = [args |-> <<>>, step |-> <<>>]
Next == /\ ph = 0 /\ ph' = 1 /\ UNCHANGED <<cmd, first>>
        /\ \E a \in ArgsOf(cmd, first), s \in StepsOf(cmd) : case' = [args |-> a, step |-> s]

Out == SM!Outcome(cmd, case.args, case.step)

BackEndsAgree == (ph = 1 /\ Len(case.args) <= AgreeLen) => LowerO(BG!Outcome(cmd, Lift(case.args), Lift(case.step))) = Out

Canonical ==                    \* what "canonical form" means, on every prescribed value
  ph = 1 => \A i \in 1..Len(Out.vs) :
              LET v == Out.vs[i]
              IN /\ v.d > 0 /\ SGcd(SAbs(v.n), v.d) = 1
                 /\ (v.cls = "rat" <=> v.d # 1) /\ (v.cls = "int" <=> v.d = 1)

Emit == ph = 1 => PrintT(ToJson([cmd |-> cmd, args |-> case.args, step |-> case.step, out |-> Out]))
=============================================================================
