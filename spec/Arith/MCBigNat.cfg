CONSTANT N = 120
CONSTANT AllWide = TRUE
INIT Init
NEXT Next
INVARIANT NativeOK
INVARIANT WideOK
