CONSTANT N = 120
INIT Init
NEXT Next
INVARIANT NativeOK
INVARIANT WideOK
