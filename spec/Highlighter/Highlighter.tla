----------------------------- MODULE Highlighter -----------------------------
(* C30 -- "Syntax highlighting never changes the text and is never stale".
   Models pkg/edit/highlight/highlighter.go (Highlighter.Get / the late callback / InvalidateCache /
   LateUpdates) together with the late path of highlight.go:highlight, one action per critical
   section of cacheMutex.

   Codes are identified by naturals; Empty (0) is the empty string "" (the code of a fresh or
   invalidated cache).  A styled text is abstracted to the pair
        of   -- the code whose bytes it consists of (its plain content)
        late -- TRUE iff the command regions carry the good/bad-command styling, i.e. it is the
                "late" result of highlight (HasCommand has been consulted)
   That highlight(c) assembles a text whose plain content is c -- for ANY set of regions -- is the
   theorem of the sibling module Regions.tla (and is re-checked on the real code through the judge
   JudgeRegions); here it appears as  cacheFor' = c  in Miss.

   State
     cacheCode  hl.cache.code
     cacheFor   plain content of hl.cache.styledCode      (CacheConsistent: = cacheCode)
     cacheLate  hl.cache.styledCode is a late result
     inflight   bag  code -> number of late computations started by a Get that returned the partial
                text and whose late callback has not yet entered its critical section
     sending    late callbacks that stored their result, released the mutex and have not yet sent
                on hl.lates
     lates      len(hl.lates)   (buffered channel, capacity LatesCap = 128 in the code)
     shown      the last value returned by Get, with the code it was asked for
     applied    history: <<code of the late result, cacheCode at that moment>> for every late result
                that was stored into the cache
   Actions
     Get(c)         GetHit | GetMissFinal (no HasCommand or no command region: nothing is late)
                           | GetMissFull  (late result arrived within maxBlockForLate)
                           | GetMissPartial (timer fired first: partial text returned, late in flight)
     LateDeliver(c) LateApply (cacheCode = c: store, then Send)  |  LateDrop (code changed: discard)
     Send           the channel send of an applied late callback (after the mutex was released)
     Recv           the editor receives one notification from LateUpdates()
     Invalidate     InvalidateCache()
   Properties (invariants)
     TextPreserved       the text handed to the editor consists of exactly the code asked for
     CacheConsistent     the cached text is a text of the cached code
     LateOnlyForItsCode  a late result is stored only while the cache holds the code it was computed for
     LateIsLooked        a late-styled text exists only where command lookup applies
   Unspecified: nothing is left open by the statement for the text; that a cache HIT happens (as
   opposed to re-highlighting) is not required by the property -- executors compare the observable
   results only (text, late styling, notifications), never hit/miss itself. *)
EXTENDS Integers, FiniteSets
CONSTANTS Codes,       \* set of naturals containing Empty
          CmdCodes,    \* subset of Codes \ {Empty}: codes containing at least one command region
          WithLookup,  \* BOOLEAN: Config.HasCommand # nil
          LatesCap     \* capacity of hl.lates
Empty == 0
VARIABLES cacheCode, cacheFor, cacheLate, inflight, sending, lates, shown, applied
hvars == <<cacheCode, cacheFor, cacheLate, inflight, sending, lates, shown, applied>>

Bag0 == [c \in {} |-> 0]
Count(b, c) == IF c \in DOMAIN b THEN b[c] ELSE 0
BagAdd(b, c) == [x \in DOMAIN b \cup {c} |-> IF x = c THEN Count(b, c) + 1 ELSE b[x]]
BagDel(b, c) == IF b[c] = 1 THEN [x \in DOMAIN b \ {c} |-> b[x]] ELSE [b EXCEPT ![c] = b[c] - 1]
RECURSIVE BagSizeOver(_, _)
BagSizeOver(b, S) == IF S = {} THEN 0 ELSE LET x == CHOOSE y \in S : TRUE IN b[x] + BagSizeOver(b, S \ {x})
BagSize(b) == BagSizeOver(b, DOMAIN b)

HInit == /\ cacheCode = Empty /\ cacheFor = Empty /\ cacheLate = FALSE
         /\ inflight = Bag0 /\ sending = 0 /\ lates = 0
         /\ shown = [code |-> Empty, of |-> Empty, late |-> FALSE]
         /\ applied = {}

\* ---- Get: one critical section of cacheMutex
GetHit(c) == /\ cacheCode = c
             /\ shown' = [code |-> c, of |-> cacheFor, late |-> cacheLate]
             /\ UNCHANGED <<cacheCode, cacheFor, cacheLate, inflight, sending, lates, applied>>
Miss(c, late, spawn) ==
             /\ cacheCode # c
             /\ cacheCode' = c /\ cacheFor' = c /\ cacheLate' = late
             /\ shown' = [code |-> c, of |-> c, late |-> late]
             /\ inflight' = IF spawn THEN BagAdd(inflight, c) ELSE inflight
             /\ UNCHANGED <<sending, lates, applied>>
GetMissFinal(c)   == Miss(c, FALSE, FALSE)
GetMissFull(c)    == Miss(c, TRUE, FALSE)
GetMissPartial(c) == Miss(c, FALSE, TRUE)
NeedsLookup(c) == WithLookup /\ c \in CmdCodes
Get(c) == \/ GetHit(c)
          \/ NeedsLookup(c) /\ (GetMissFull(c) \/ GetMissPartial(c))
          \/ ~NeedsLookup(c) /\ GetMissFinal(c)

\* ---- the late callback: one critical section, then (if stored) a channel send
LateStore(c, fused) ==
                /\ Count(inflight, c) > 0 /\ cacheCode = c
                /\ inflight' = BagDel(inflight, c)
                /\ cacheFor' = c /\ cacheLate' = TRUE
                /\ IF fused THEN lates < LatesCap /\ lates' = lates + 1 /\ UNCHANGED sending
                            ELSE sending' = sending + 1 /\ UNCHANGED lates
                /\ applied' = applied \cup {<<c, cacheCode>>}
                /\ UNCHANGED <<cacheCode, shown>>
LateApply(c) == LateStore(c, FALSE)
\* LateApply immediately followed by its Send: the only form a gated replay (G) can produce, there
\* is no gate between the unlock and the channel send
LateApplySend(c) == LateStore(c, TRUE)
LateDrop(c) == /\ Count(inflight, c) > 0 /\ cacheCode # c
               /\ inflight' = BagDel(inflight, c)
               /\ UNCHANGED <<cacheCode, cacheFor, cacheLate, sending, lates, shown, applied>>
LateDeliver(c) == LateApply(c) \/ LateDrop(c)
Send == /\ sending > 0 /\ lates < LatesCap
        /\ sending' = sending - 1 /\ lates' = lates + 1
        /\ UNCHANGED <<cacheCode, cacheFor, cacheLate, inflight, shown, applied>>
Recv == /\ lates > 0 /\ lates' = lates - 1
        /\ UNCHANGED <<cacheCode, cacheFor, cacheLate, inflight, sending, shown, applied>>
Invalidate == /\ cacheCode' = Empty /\ cacheFor' = Empty /\ cacheLate' = FALSE
              /\ UNCHANGED <<inflight, sending, lates, shown, applied>>

HNext == \/ \E c \in Codes : Get(c) \/ LateDeliver(c)
         \/ Send \/ Recv \/ Invalidate

\* ---- properties
TypeOK == /\ cacheCode \in Codes /\ cacheFor \in Codes /\ cacheLate \in BOOLEAN
          /\ DOMAIN inflight \subseteq CmdCodes /\ \A c \in DOMAIN inflight : inflight[c] \in Nat \ {0}
          /\ sending \in Nat /\ lates \in 0..LatesCap
          /\ shown \in [code : Codes, of : Codes, late : BOOLEAN]
TextPreserved == shown.of = shown.code
CacheConsistent == cacheFor = cacheCode
LateOnlyForItsCode == \A p \in applied : p[1] = p[2]
LateIsLooked == (cacheLate => NeedsLookup(cacheCode)) /\ (shown.late => NeedsLookup(shown.code))
=============================================================================
