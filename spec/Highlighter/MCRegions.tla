------------------------------ MODULE MCRegions ------------------------------
(* M for Regions: every initial state is one (n, sorted arrangement of <= K regions inside 0..n,
   duplicates allowed); TLC checks the design theorem on each. *)
EXTENDS Regions, FiniteSets, TLC
CONSTANTS N, K
VARIABLES n, q
AllRegions(m) == {[b |-> b, e |-> e, sem |-> s] : b \in 0..m, e \in 0..m, s \in BOOLEAN}
Regs(m) == {r \in AllRegions(m) : r.b <= r.e}
Arrangements(m) == UNION {{s \in [1..k -> Regs(m)] : IsSorted(s)} : k \in 0..K}
Init == n \in 0..N /\ q \in Arrangements(n)
Next == UNCHANGED <<n, q>>
Code == [i \in 1..n |-> i]
Theorem == /\ Tiles(Segments(q, n), n)
           /\ SameText(Code, Segments(q, n))
\* sanity of the model itself: the kept regions do not overlap and keep their order
KeptDisjoint == LET d == Dedup(q, 0) IN \A i \in 1..(Len(d) - 1) : d[i].e <= d[i + 1].b
=============================================================================
