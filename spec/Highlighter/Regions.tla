------------------------------- MODULE Regions -------------------------------
(* C30, the one-step part: the text-assembly rule of highlight.go:highlight on top of
   regions.go:fixRegions.  A region is [b, e, sem] with 0 <= b <= e <= n (byte offsets into a code
   of n bytes; sem = TRUE for a semantic region, FALSE for a lexical one).

     Before      the `less` of fixRegions' sort.Slice (by begin, semantic before lexical);
                 sort.Slice is not stable, so ANY arrangement consistent with Before may result
     Dedup       fixRegions' second loop: a region starting before the end of the last kept one is removed
     Assemble    highlight's loop: the gap before a region becomes an unstyled segment, the region a
                 segment of its own, the rest after the last region a final unstyled segment
   Design theorem (checked by MCRegions for every sorted arrangement of <= K regions over n <= N):
     Tiles       the segments are consecutive, start at 0 and end at n
     SameText    the concatenation of the segment texts is the code   ("never changes the text")
   It holds for ANY multiset of regions inside 0..n -- in particular whatever the parser and the
   checker report.  The judge JudgeRegions applies the conclusion to results recorded from the real
   highlighter (regions are not injectable there; the segments of the returned ui.Text are). *)
EXTENDS Integers, Sequences
Before(r, s) == r.b < s.b \/ (r.b = s.b /\ r.sem /\ ~s.sem)
IsSorted(q) == \A i, j \in 1..Len(q) : i < j => ~Before(q[j], q[i])
RECURSIVE Dedup(_, _)
Dedup(q, lastEnd) == IF q = <<>> THEN <<>>
                     ELSE IF Head(q).b < lastEnd THEN Dedup(Tail(q), lastEnd)
                     ELSE <<Head(q)>> \o Dedup(Tail(q), Head(q).e)
Seg(b, e) == [b |-> b, e |-> e]
RECURSIVE Assemble(_, _, _)
Assemble(q, lastEnd, n) ==
  IF q = <<>> THEN (IF n > lastEnd THEN <<Seg(lastEnd, n)>> ELSE <<>>)
  ELSE (IF Head(q).b > lastEnd THEN <<Seg(lastEnd, Head(q).b)>> ELSE <<>>)
       \o <<Seg(Head(q).b, Head(q).e)>> \o Assemble(Tail(q), Head(q).e, n)
Segments(q, n) == Assemble(Dedup(q, 0), 0, n)

RECURSIVE TilesFrom(_, _, _)
TilesFrom(segs, at, n) == IF segs = <<>> THEN at = n
                          ELSE Head(segs).b = at /\ Head(segs).e >= at /\ TilesFrom(Tail(segs), Head(segs).e, n)
Tiles(segs, n) == TilesFrom(segs, 0, n)
RECURSIVE Concat(_)
Concat(texts) == IF texts = <<>> THEN <<>> ELSE Head(texts) \o Concat(Tail(texts))
TextsOf(code, segs) == [i \in 1..Len(segs) |-> SubSeq(code, segs[i].b + 1, segs[i].e)]
SameText(code, segs) == Concat(TextsOf(code, segs)) = code
\* what a result of the real highlighter must satisfy: its segment texts, concatenated, are the code
IsAssemblyOf(texts, code) == Concat(texts) = code
=============================================================================
