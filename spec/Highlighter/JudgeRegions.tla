----------------------------- MODULE JudgeRegions -----------------------------
(* V for the one-step part of C30: results of the REAL highlighter on generated codes (non-concurrent
   sweep).  A case is  [code |-> bytes, segs |-> <<bytes of segment 1, ...>>]  (what Get returned, segment
   by segment); it is accepted iff the segments are an assembly of the code (Regions!IsAssemblyOf),
   i.e. they tile the code and change no byte. *)
EXTENDS Regions, TLC, Json
Cases == ndJsonDeserialize("cases.ndjson")
VARIABLE k
Init == k = 0
Next == k < Len(Cases) /\ k' = k + 1
CaseOK(c) == IsAssemblyOf(c.segs, c.code)
Inv == k = 0 \/ CaseOK(Cases[k]) \/ PrintT(<<"BAD", k, Len(Cases[k].code), Len(Concat(Cases[k].segs))>>)
=============================================================================
