CONSTANTS Codes = {0, 1, 2, 3} CmdCodes = {1, 2} WithLookup = TRUE LatesCap = 2
          Rec = FALSE Depth = 0 MaxInflight = 3 Variant = "asis"
SPECIFICATION Spec
CONSTRAINT Bound
INVARIANT TypeOK TextPreserved CacheConsistent LateOnlyForItsCode LateIsLooked
PROPERTY Refines
