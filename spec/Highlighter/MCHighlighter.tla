---------------------------- MODULE MCHighlighter ----------------------------
(* Exhaustive configuration of Highlighter (M) and generator of schedules (G).
   Rec = FALSE: plain exhaustive model checking, all interleavings of Get / LateDeliver / Send /
                Recv / Invalidate within the constraint (<= MaxInflight late computations in flight).
   Rec = TRUE : hist records every step with the outcome the specification prescribes; every
                behaviour of length Depth is a distinct state and is printed once (Emit).  The late
                callback's store and send are fused (LateApplySend): a replay cannot separate them.
   Variant = "nocheck" is the DESIGN MUTANT "the late path does not test cacheCode = code": TLC's
   counterexample to TextPreserved is a candidate schedule that the executor replays on the real code. *)
EXTENDS Highlighter, Sequences, TLC, Json
CONSTANTS Rec, Depth, MaxInflight, Variant
VARIABLE hist
vars == <<cacheCode, cacheFor, cacheLate, inflight, sending, lates, shown, applied, hist>>

St(op, c, mode) == [op |-> op, code |-> c, mode |-> mode, of |-> shown'.of, late |-> shown'.late,
                    lates |-> lates', infl |-> BagSize(inflight')]
Log(op, c, mode) == hist' = IF Rec THEN Append(hist, St(op, c, mode)) ELSE hist

\* the design mutant: store the late result whatever the cache holds now
BadStore(c) == /\ Count(inflight, c) > 0
               /\ inflight' = BagDel(inflight, c)
               /\ cacheFor' = c /\ cacheLate' = TRUE
               /\ lates < LatesCap /\ lates' = lates + 1
               /\ applied' = applied \cup {<<c, cacheCode>>}
               /\ UNCHANGED <<cacheCode, sending, shown>>

Init == HInit /\ hist = <<>>
\* one named action per kind of step (TLC reports coverage per name)
DoGetHit     == \E c \in Codes : GetHit(c) /\ Log("get", c, "hit")
DoGetFull    == \E c \in Codes : NeedsLookup(c) /\ GetMissFull(c) /\ Log("get", c, "full")
DoGetPartial == \E c \in Codes : NeedsLookup(c) /\ GetMissPartial(c) /\ Log("get", c, "partial")
DoGetFinal   == \E c \in Codes : ~NeedsLookup(c) /\ GetMissFinal(c) /\ Log("get", c, "final")
DoApply      == \E c \in Codes : Variant = "asis" /\ (IF Rec THEN LateApplySend(c) ELSE LateApply(c)) /\ Log("deliver", c, "apply")
DoDrop       == \E c \in Codes : Variant = "asis" /\ LateDrop(c) /\ Log("deliver", c, "drop")
DoBadStore   == \E c \in Codes : Variant = "nocheck" /\ BadStore(c) /\ Log("deliver", c, "apply")
DoSend       == ~Rec /\ Send /\ UNCHANGED hist
DoRecv       == Recv /\ Log("recv", 0, "-")
DoInvalidate == Invalidate /\ Log("inv", 0, "-")
Next == DoGetHit \/ DoGetFull \/ DoGetPartial \/ DoGetFinal \/ DoApply \/ DoDrop \/ DoBadStore
        \/ DoSend \/ DoRecv \/ DoInvalidate
Spec == Init /\ [][Next]_vars

Bound == /\ BagSize(inflight) <= MaxInflight /\ sending <= MaxInflight
         /\ (Rec => Len(hist) <= Depth)
Emit == (Rec /\ Len(hist) = Depth) => PrintT(ToJson(hist))
\* transition cover (VIEW hides hist): one shortest path to every reachable state, extended by every
\* transition leaving it -- "one implementation test per transition of the model"
View == hvars
EmitT == PrintT(ToJson(hist'))
\* the model follows the code: every step of Next is a step of the specification proper
Refines == [][HNext \/ (Rec /\ \E c \in Codes : LateApplySend(c)) \/ Variant = "nocheck"]_hvars
=============================================================================
