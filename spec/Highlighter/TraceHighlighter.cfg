CONSTANTS Codes = {0} CmdCodes = {} WithLookup = TRUE LatesCap = 128
SPECIFICATION Spec
CONSTRAINT HW
INVARIANT TextPreserved CacheConsistent LateOnlyForItsCode
POSTCONDITION Accepted
