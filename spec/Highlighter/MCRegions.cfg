CONSTANTS N = 5 K = 3
INIT Init
NEXT Next
INVARIANT Theorem KeptDisjoint
