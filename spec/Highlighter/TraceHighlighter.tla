--------------------------- MODULE TraceHighlighter ---------------------------
(* V for C30: events recorded from REAL Highlighters (free-running callers, HasCommand with random
   delays, a receiver of LateUpdates) are checked to be a behaviour of Highlighter.tla.
   Logged events (one tracer: mutex + sequence number; every record has all fields):
     Reset(lookup)                    a new Highlighter; lookup = Config.HasCommand # nil (runs are concatenated)
     GetStart(g, code, cmd)           caller g calls Get(code); cmd = the code has a command region
                                      (an attribute of the code, taken as data from a sequential pre-pass)
     GetEnd(g, code, plain, sty)      Get returned: plain = id of the code that the returned text's plain
                                      content is equal to (-1: no known code); sty = 1 the segment styles are
                                      those of the late (command-styled) text of that code, 0 those of the
                                      partial text (also: a code without command regions), 2 neither
     InvStart(g) InvEnd(g)            InvalidateCache()
     Late                             one notification was received from LateUpdates()
     Quiet(n)                         no goroutine of the highlighter exists any more; n = len(LateUpdates())
   Unlogged internal steps placed by TLC:
     Lin(g)        the critical section of an outstanding Get / InvalidateCache (one of the Highlighter
                   actions GetHit, GetMissFinal, GetMissFull, GetMissPartial, Invalidate)
     LateApply(c)  a late callback stores its result (needs cacheCode = c)
     Send          its channel send
   Every record carries rem = the number of Late events still to come in its run; the recorder drains
   LateUpdates() completely after Quiet, so a behaviour holding more unsent/unreceived notifications
   than rem can never be completed: Apply is not explored there (a pruning, not a requirement).
   LateDrop is not placed: it only forgets an in-flight computation, which no later event can observe.
   TextPreserved / CacheConsistent / LateOnlyForItsCode are evaluated in every inferred state; a
   GetEnd whose text or styling no behaviour of the specification explains stops the high-water mark. *)
EXTENDS Highlighter, Sequences, TLC, Json
Trace == ndJsonDeserialize("trace.ndjson")
VARIABLES l, lookup, pend
vars == <<cacheCode, cacheFor, cacheLate, inflight, sending, lates, shown, applied, l, lookup, pend>>
NoPend == [g \in {} |-> 0]
Init == HInit /\ l = 1 /\ lookup = FALSE /\ pend = NoPend
Is(e) == l <= Len(Trace) /\ Trace[l].ev = e
T == Trace[l]
Adv == l' = l + 1
Reset == /\ Is("Reset") /\ Adv /\ lookup' = T.lookup /\ pend' = NoPend
         /\ cacheCode' = Empty /\ cacheFor' = Empty /\ cacheLate' = FALSE
         /\ inflight' = Bag0 /\ sending' = 0 /\ lates' = 0
         /\ shown' = [code |-> Empty, of |-> Empty, late |-> FALSE] /\ applied' = {}
Put(g, r) == [x \in DOMAIN pend \cup {g} |-> IF x = g THEN r ELSE pend[x]]
GetStart == /\ Is("GetStart") /\ Adv /\ T.g \notin DOMAIN pend
            /\ pend' = Put(T.g, [k |-> "get", code |-> T.code, cmd |-> T.cmd, done |-> FALSE, of |-> 0, late |-> FALSE])
            /\ UNCHANGED <<hvars, lookup>>
InvStart == /\ Is("InvStart") /\ Adv /\ T.g \notin DOMAIN pend
            /\ pend' = Put(T.g, [k |-> "inv", code |-> 0, cmd |-> FALSE, done |-> FALSE, of |-> 0, late |-> FALSE])
            /\ UNCHANGED <<hvars, lookup>>
Lin == \E g \in DOMAIN pend :
         /\ ~pend[g].done
         /\ IF pend[g].k = "inv" THEN Invalidate
            ELSE LET c == pend[g].code IN
                 \/ GetHit(c)
                 \/ (lookup /\ pend[g].cmd) /\ (GetMissFull(c) \/ GetMissPartial(c))
                 \/ ~(lookup /\ pend[g].cmd) /\ GetMissFinal(c)
         /\ pend' = [pend EXCEPT ![g].done = TRUE, ![g].of = shown'.of, ![g].late = shown'.late]
         /\ UNCHANGED <<l, lookup>>
GetEnd == /\ Is("GetEnd") /\ Adv /\ T.g \in DOMAIN pend /\ pend[T.g].k = "get" /\ pend[T.g].done
          /\ pend[T.g].code = T.code
          /\ T.plain = pend[T.g].of /\ T.sty = (IF pend[T.g].late THEN 1 ELSE 0)
          /\ pend' = [x \in DOMAIN pend \ {T.g} |-> pend[x]]
          /\ UNCHANGED <<hvars, lookup>>
InvEnd == /\ Is("InvEnd") /\ Adv /\ T.g \in DOMAIN pend /\ pend[T.g].k = "inv" /\ pend[T.g].done
          /\ pend' = [x \in DOMAIN pend \ {T.g} |-> pend[x]]
          /\ UNCHANGED <<hvars, lookup>>
Rem == IF l <= Len(Trace) THEN Trace[l].rem ELSE 0
Apply == /\ sending + lates < Rem
         /\ \E c \in DOMAIN inflight : LateApply(c)
         /\ UNCHANGED <<l, lookup, pend>>
SendI == Send /\ UNCHANGED <<l, lookup, pend>>
Late == Is("Late") /\ Adv /\ Recv /\ UNCHANGED <<lookup, pend>>
Quiet == /\ Is("Quiet") /\ Adv /\ sending = 0 /\ lates = T.n /\ pend = NoPend
         /\ UNCHANGED <<hvars, lookup, pend>>
Next == Reset \/ GetStart \/ InvStart \/ Lin \/ GetEnd \/ InvEnd \/ Apply \/ SendI \/ Late \/ Quiet
Spec == Init /\ [][Next]_vars
HW == TLCSet(1, IF TLCGet(1) > l THEN TLCGet(1) ELSE l)
Accepted == PrintT(<<"HW", TLCGet(1)>>) /\ TLCGet(1) = Len(Trace) + 1
ASSUME TLCSet(1, 0)
=============================================================================
