---------------------------- MODULE JudgeCleanup ----------------------------
(* V for C21: cases recorded from the REAL evaluator on programs built by the executor (random,
   larger than the exhaustive scope, and directed probes):
     [prog, obs (the values the program put), a0, a1, b (the store after the call), exc (the
      exception of the call as [k, id])]
   The walker evaluates the reference semantics on the program and requires the recorded outcome
   to be one the specification prescribes.  A rejected case is printed with its explanation under
   the known-defect evaluation (first tag) or "unexplained". *)
EXTENDS Cleanup, TLC, Json
Cases == ndJsonDeserialize("cases.ndjson")
VARIABLE k
Init == k = 0
Next == k < Len(Cases) /\ k' = k + 1
Matches(c, r) == /\ r.obs = c.obs /\ r.final.a[1] = c.a0 /\ r.final.a[2] = c.a1 /\ r.final.b = c.b
                 /\ c.exc \in r.excs
CaseOK(c) == Matches(c, Run(c.prog, FALSE))
Why(c) == LET q == Run(c.prog, TRUE)
          IN IF Matches(c, q) /\ q.tags # <<>> THEN q.tags[1] ELSE "unexplained"
Inv == k = 0 \/ CaseOK(Cases[k]) \/ PrintT(<<"BAD", k, Why(Cases[k])>>)
=============================================================================
