----------------------------- MODULE MCCleanup -----------------------------
(* M + G for C21.  Every initial state is one function: ALL programs of the Cleanup grammar with at
   most MaxSize nodes (exits only at the end of a block - what follows an exit is dead code; inside a
   deferred callback the only exit is `fail`; iteration-guarded exits only inside a loop).
   res = the prescribed run, alt = the run under the known defect (classification only).
   TLC checks the property predicates of Cleanup on the ghost log of every program and prints the
   program with the prescribed observable outcome. *)
EXTENDS Cleanup, TLC, Json
CONSTANT MaxSize
VARIABLES prog, res, alt

Nd(t, v, at, b) == [t |-> t, v |-> v, at |-> at, id |-> 0, body |-> b]
SimpleSet == {Nd("tmp", "a", 0, <<>>), Nd("tmp", "a0", 0, <<>>), Nd("tmp", "b", 0, <<>>), Nd("set", "a1", 0, <<>>)}
Exits(L, D) ==
  IF D THEN {Nd("exit", "fail", 0, <<>>)} \cup (IF L THEN {Nd("exit", "fail", 2, <<>>)} ELSE {})
  ELSE {Nd("exit", v, 0, <<>>) : v \in {"fail", "break", "continue", "return"}}
       \cup (IF L THEN {Nd("exit", v, 2, <<>>) : v \in {"fail", "break", "continue"}} ELSE {})

RECURSIVE Blk(_, _, _), Stm(_, _, _)
\* non-exit statements with exactly n nodes (L: inside a loop body, D: inside a deferred callback)
Stm(n, L, D) ==
  (IF n = 1 THEN SimpleSet ELSE {})
  \cup {Nd("defer", "", 0, b) : b \in Blk(n - 1, FALSE, TRUE)}
  \cup {Nd("with", v, 0, b) : v \in WithVs, b \in Blk(n - 1, L, D)}
  \cup {Nd("loop", "", 0, b) : b \in Blk(n - 1, TRUE, D)}
  \cup {Nd("call", "", 0, b) : b \in Blk(n - 1, L, D)}
  \cup {Nd("try", "", 0, b) : b \in Blk(n - 1, L, D)}
\* blocks with exactly n nodes
Blk(n, L, D) ==
  IF n = 0 THEN {<<>>}
  ELSE (IF n = 1 THEN {<<e>> : e \in Exits(L, D)} ELSE {})
       \cup UNION {{<<s>> \o r : s \in Stm(k, L, D), r \in Blk(n - k, L, D)} : k \in 1..n}

\* preorder numbering of the nodes, from n
RECURSIVE Lab(_, _)
Lab(b, n) ==
  IF b = <<>> THEN [b |-> <<>>, n |-> n]
  ELSE LET h     == Head(b)
           inner == Lab(h.body, n + 1)
           rest  == Lab(Tail(b), inner.n)
       IN [b |-> <<[h EXCEPT !.id = n, !.body = inner.b]>> \o rest.b, n |-> rest.n]

Progs == {Lab(b, 1).b : b \in UNION {Blk(n, FALSE, FALSE) : n \in 0..MaxSize}}

Init == /\ prog \in Progs
        /\ res = Run(prog, FALSE)
        /\ alt = Run(prog, TRUE)
Next == UNCHANGED <<prog, res, alt>>

InvRestoreMatches == RestoreMatches(res.log)
InvDeferOnce      == DeferOnce(res.log)
InvReverseOrder   == ReverseOrder(res.log)
InvExcRule        == ExcRule(res.log)
InvStoreRestored  == StoreRestored(res.log)
InvFinalRestored  == FinalRestored(prog, res)
\* the prescription never contains an effect of the defect
InvNoQuirk        == res.tags = <<>> /\ \A i \in 1..Len(res.log) : res.log[i].e = "ret" => res.log[i].out.k # "okish"

Emit == PrintT(ToJson([prog |-> prog, exp |-> Outcome(res), alt |-> Outcome(alt), tags |-> alt.tags]))
=============================================================================
