CONSTANT MaxSize = 2
INIT Init
NEXT Next
INVARIANT InvRestoreMatches
INVARIANT InvDeferOnce
INVARIANT InvReverseOrder
INVARIANT InvExcRule
INVARIANT InvStoreRestored
INVARIANT InvFinalRestored
INVARIANT InvNoQuirk
INVARIANT Emit
