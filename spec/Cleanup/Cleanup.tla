------------------------------- MODULE Cleanup -------------------------------
(* C21 -- tmp, with and defer restore and clean up on every exit path.

   Reference semantics of the cleanup constructs of Elvish (website/ref/language.md "tmp", "with";
   builtin `defer`), shaped like the interpreter: pkg/eval/closure.go Closure.Call (= Call),
   frame.go runDefers (= RunDefers), builtin_special.go withOp.exec (= the "with" case of ExecStmt + WithAssigns), compile_lvalue.go
   doAssign/save with a restore collector (= Assign + Thunk), builtin_fn_flow.go deferFn (= "defer").

   Programs are ASTs.  A block is a sequence of nodes [t, v, at, id, body]:
     tmp   v \in {a, a0, a1, b}          tmp a = [..] | tmp a[0] = .. | tmp a[1] = .. | tmp b = ..
     set   v \in {a1, b}                 plain assignment (not undone by anybody)
     defer body                          defer { <probe>; body }      (body fails <=> it ends in `fail`)
     with  v \in WithVs, body            with [..] [..] { body }      ("a0bad": the 2nd assignment raises)
     loop  body                          for i [1 2] { body }         (the body is a closure: own frame)
     call  body                          { body }                     (lambda called on the spot)
     try   body                          try { body } catch e { <probe> }
     exit  v \in {fail, break, continue, return}, at   (at = 2: only in iteration 2 of the innermost loop)
   The store has two variables: a (a list of two atoms) and b (an atom).  The value assigned by node
   id is fresh: id*10 (a[0]), id*10+1 (a[1]), id*10+2 (b), so every restore order is visible in the store.

   Every closure call (the function itself, loop/with/try bodies, lambdas, deferred callbacks) is a
   FRAME carrying `df`, the sequence of its cleanup thunks: `tmp` appends a restore thunk holding the
   saved WHOLE variable, `defer` appends the callback.  Call = body; then df in reverse.  `with`
   keeps its own restore list and runs it in reverse when its body has finished, whatever the exit.
   Completion of a frame (the property's rule): the body's completion if that is not normal,
   otherwise `fail` with the failures of its deferred callbacks (if any), otherwise normal.

   Ghost log: assign / restore / reg / run / cbret / ret / wexit events (RestoreMatches, ReverseOrder,
   DeferOnce, ExcRule, StoreRestored, FinalRestored are checked on it by MCCleanup).
   Observable log `obs`: one probe (a[0], a[1], b) after every statement that completes normally
   ("p"), at the start of every deferred callback ("d") and in every catch block ("c"); it is what the
   executor compares with the values the real evaluator puts, together with the exception and the
   final store.

   Unspecified (both outcomes accepted):
     * which failure is reported when several deferred callbacks of one frame fail after a
       successful body: the completion carries the SET of their ids;
     * UnspecReturn: the function body exits by `return` and a deferred callback fails: the statement
       does not say whether `return` counts as success; accepted: no exception, or that failure.

   Q = TRUE evaluates the same program under the KNOWN DEFECT of the unrepaired tree (deferFn wraps
   a successful callback into a non-nil exception with a nil reason, "okish"): it is never the
   prescription; the executor uses it only to give a rejected case its structural key (tags:
   swallow / loopstop / trycatch), so that anything else stays a VIOLATION. *)
EXTENDS Integers, Sequences, FiniteSets

InitStore == [a |-> <<1, 2>>, b |-> 3]

None     == [k |-> "none", ids |-> {}]
Okish    == [k |-> "okish", ids |-> {}]
Fail(S)  == [k |-> "fail", ids |-> S]
Flow(k)  == [k |-> k, ids |-> {}]
Goes(c)  == c.k \in {"none", "okish"}     \* the pipeline treats a nil reason as success

VarOf(tg) == IF tg = "b" THEN "b" ELSE "a"
ApplyTarget(st, tg, id) ==
  CASE tg = "a"  -> [st EXCEPT !.a = <<id * 10, id * 10 + 1>>]
    [] tg = "a0" -> [st EXCEPT !.a = <<id * 10, st.a[2]>>]
    [] tg = "a1" -> [st EXCEPT !.a = <<st.a[1], id * 10 + 1>>]
    [] tg = "b"  -> [st EXCEPT !.b = id * 10 + 2]

WithVs == {"a", "a0", "ab", "a0a1", "a0bad"}
Targets(v) ==
  CASE v = "a" -> <<"a">> [] v = "a0" -> <<"a0">> [] v = "ab" -> <<"a", "b">>
    [] v = "a0a1" -> <<"a0", "a1">> [] v = "a0bad" -> <<"a0", "bad">>

(* ---- evaluation state
   st store | df thunks of the current frame | log ghost | obs observable | n id counter for frames
   and with-instances | fr current frame | tags defect effects (Q only) | unspec | c completion *)
Start == [st |-> InitStore, df |-> <<>>, log |-> <<>>, obs |-> <<>>, n |-> 0, fr |-> 0,
          tags |-> <<>>, unspec |-> FALSE, c |-> None]

Ev(S, e)      == [S EXCEPT !.log = Append(@, e)]
Probe(S, k, id) == [S EXCEPT !.obs = Append(@, [k |-> k, id |-> id, a0 |-> S.st.a[1], a1 |-> S.st.a[2], b |-> S.st.b])]

(* one saving assignment: the thunk holds the WHOLE old value of the variable (vars.HeadOfElement) *)
Assign(S, by, own, tg, id, k) ==
  LET x   == VarOf(tg)
      st2 == ApplyTarget(S.st, tg, id)
  IN [Ev(S, [e |-> "assign", by |-> by, own |-> own, id |-> id * 10 + k, x |-> x, old |-> S.st[x], new |-> st2[x]])
        EXCEPT !.st = st2]
Thunk(S, by, own, tg, id, k) ==
  [t |-> "restore", by |-> by, own |-> own, id |-> id * 10 + k, x |-> VarOf(tg), v |-> S.st[VarOf(tg)]]
RunRestore(S, th) ==
  Ev([S EXCEPT !.st = [@ EXCEPT ![th.x] = th.v]],
     [e |-> "restore", by |-> th.by, own |-> th.own, id |-> th.id, x |-> th.x, v |-> th.v])

RECURSIVE ExecBlock(_, _, _, _, _), ExecStmt(_, _, _, _), Call(_, _, _, _, _),
          RunDefers(_, _, _, _, _, _, _), LoopFrom(_, _, _, _), WithAssigns(_, _, _, _, _, _),
          RunRestores(_, _, _)

(* statements of a block in order; a probe after every statement that completes normally *)
ExecBlock(b, i, it, Q, S) ==
  IF i > Len(b) THEN S
  ELSE LET S1 == ExecStmt(b[i], it, Q, S)
       IN IF Goes(S1.c) THEN ExecBlock(b, i + 1, it, Q, Probe([S1 EXCEPT !.c = None], "p", b[i].id))
          ELSE S1

RunRestores(rs, j, S) == IF j = 0 THEN S ELSE RunRestores(rs, j - 1, RunRestore(S, rs[j]))

(* withOp.exec: assignments left to right, each pushing its restore; the first failing one stops *)
WithAssigns(s, tg, k, own, S, rs) ==
  IF k > Len(tg) THEN [S |-> S, rs |-> rs]
  ELSE IF tg[k] = "bad" THEN [S |-> [S EXCEPT !.c = Fail({s.id})], rs |-> rs]
  ELSE WithAssigns(s, tg, k + 1, own, Assign(S, "with", own, tg[k], s.id, k),
                   Append(rs, Thunk(S, "with", own, tg[k], s.id, k)))

(* for i [1 2] { body }: every iteration is a call of the body closure *)
LoopFrom(s, j, Q, S) ==
  IF j > 2 THEN S
  ELSE LET S1 == Call(s.body, j, Q, S, FALSE)
           k  == S1.c.k
       IN IF k \in {"none", "continue"} THEN LoopFrom(s, j + 1, Q, [S1 EXCEPT !.c = None])
          ELSE IF k = "break" THEN [S1 EXCEPT !.c = None]
          ELSE IF k = "okish" THEN [S1 EXCEPT !.tags = IF j < 2 THEN Append(@, "loopstop") ELSE @]
          ELSE S1

ExecStmt(s, it, Q, S) ==
  CASE s.t = "tmp"   -> [Assign(S, "tmp", S.fr, s.v, s.id, 0) EXCEPT !.df = Append(@, Thunk(S, "tmp", S.fr, s.v, s.id, 0))]
    [] s.t = "set"   -> [S EXCEPT !.st = ApplyTarget(S.st, s.v, s.id)]
    [] s.t = "defer" -> [Ev(S, [e |-> "reg", own |-> S.fr, id |-> s.id * 10]) EXCEPT !.df = Append(@, [t |-> "cb", node |-> s])]
    [] s.t = "exit"  -> IF s.at = 0 \/ s.at = it
                        THEN [S EXCEPT !.c = IF s.v = "fail" THEN Fail({s.id}) ELSE Flow(s.v)]
                        ELSE S
    [] s.t = "call"  -> Call(s.body, it, Q, S, FALSE)
    [] s.t = "loop"  -> LoopFrom(s, 1, Q, S)
    [] s.t = "try"   -> LET S1 == Call(s.body, it, Q, S, FALSE)
                        IN IF S1.c.k = "none" THEN S1
                           ELSE Probe([S1 EXCEPT !.c = None,
                                                 !.tags = IF S1.c.k = "okish" THEN Append(@, "trycatch") ELSE @], "c", s.id)
    [] s.t = "with"  -> LET own == S.n + 1
                            A   == WithAssigns(s, Targets(s.v), 1, own, [S EXCEPT !.n = own], <<>>)
                            S1  == IF A.S.c.k = "none" THEN Call(s.body, it, Q, A.S, FALSE) ELSE A.S
                            S2  == RunRestores(A.rs, Len(A.rs), S1)
                        IN Ev(S2, [e |-> "wexit", own |-> own, st |-> S2.st])

(* runDefers: thunks in reverse order of registration.  acc = completion of the defers so far *)
RunDefers(df, j, it, Q, S, acc, seen) ==
  IF j = 0 THEN [S EXCEPT !.c = acc]
  ELSE LET th == df[j] IN
       IF th.t = "restore" THEN RunDefers(df, j - 1, it, Q, RunRestore(S, th), acc, seen)
       ELSE LET S0 == Probe(Ev(S, [e |-> "run", own |-> S.fr, id |-> th.node.id * 10]), "d", th.node.id)
                S1 == Call(th.node.body, it, Q, S0, FALSE)
                r  == S1.c
                S2 == Ev([S1 EXCEPT !.c = None], [e |-> "cbret", own |-> S.fr, id |-> th.node.id * 10,
                                                  ids |-> IF r.k = "fail" THEN r.ids ELSE {}])
            IN IF ~Q
               THEN RunDefers(df, j - 1, it, Q, S2, IF r.k = "none" THEN acc ELSE Fail(acc.ids \cup r.ids), TRUE)
               ELSE \* defect: the first callback run decides; its success is a non-nil "okish" exception
                    IF ~seen
                    THEN RunDefers(df, j - 1, it, Q, S2, IF Goes(r) THEN Okish ELSE r, TRUE)
                    ELSE RunDefers(df, j - 1, it, Q,
                                   [S2 EXCEPT !.tags = IF acc.k = "okish" /\ r.k = "fail" THEN Append(@, "swallow") ELSE @],
                                   acc, TRUE)

(* Closure.Call (isFn: the fnWrap of `fn`, which turns `return` into normal completion BEFORE the
   frame's thunks run) *)
Call(body, it, Q, S, isFn) ==
  LET fr  == S.n + 1
      S1  == ExecBlock(body, 1, it, Q, [S EXCEPT !.n = fr, !.fr = fr, !.df = <<>>])
      bc  == IF isFn /\ S1.c.k = "return" THEN None ELSE S1.c
      S2  == RunDefers(S1.df, Len(S1.df), it, Q, [S1 EXCEPT !.c = None], None, FALSE)
      dc  == S2.c
      out == IF bc.k # "none" THEN bc ELSE dc
      S3  == Ev(S2, [e |-> "ret", own |-> fr, body |-> bc.k, out |-> out, st |-> S2.st])
  IN [S3 EXCEPT !.c = out, !.df = S.df, !.fr = S.fr,
                !.unspec = @ \/ (isFn /\ S1.c.k = "return" /\ dc.k = "fail")]

Exc(k, id) == [k |-> k, id |-> id]
ExcSet(S) ==
  IF Goes(S.c) THEN {Exc("none", 0)}
  ELSE IF S.c.k = "fail" THEN {Exc("fail", i) : i \in S.c.ids} \cup (IF S.unspec THEN {Exc("none", 0)} ELSE {})
  ELSE {Exc(S.c.k, 0)}

(* fn f { prog }; f *)
Run(prog, Q) ==
  LET S == Call(prog, 0, Q, Start, TRUE)
  IN [obs |-> S.obs, final |-> S.st, excs |-> ExcSet(S), tags |-> S.tags, log |-> S.log]

(* the part the executor observes *)
Outcome(r) == [obs |-> r.obs, a0 |-> r.final.a[1], a1 |-> r.final.a[2], b |-> r.final.b, excs |-> r.excs]

(* ------------------------------------------------------------------------------------------
   The property, as predicates over the ghost log of a run *)
Pos(log)      == 1..Len(log)
Ids(log, T(_)) == LET q == SelectSeq(log, T) IN [i \in 1..Len(q) |-> q[i].id]
Rev(q)        == [i \in 1..Len(q) |-> q[Len(q) + 1 - i]]

\* every assignment by with/tmp has exactly one matching, later restore of the whole old value
RestoreMatches(log) ==
  \A i \in Pos(log) : log[i].e = "assign" =>
    /\ Cardinality({j \in Pos(log) : log[j].e = "restore" /\ log[j].own = log[i].own /\ log[j].id = log[i].id}) = 1
    /\ \E j \in (i + 1)..Len(log) : /\ log[j].e = "restore" /\ log[j].own = log[i].own /\ log[j].id = log[i].id
                                   /\ log[j].x = log[i].x /\ log[j].v = log[i].old

\* each deferred callback runs exactly once, after its registration
DeferOnce(log) ==
  \A i \in Pos(log) : log[i].e = "reg" =>
    /\ Cardinality({j \in Pos(log) : log[j].e = "run" /\ log[j].own = log[i].own /\ log[j].id = log[i].id}) = 1
    /\ \E j \in (i + 1)..Len(log) : log[j].e = "run" /\ log[j].own = log[i].own /\ log[j].id = log[i].id

\* per frame / with-instance: restores and callbacks happen in reverse order of registration
Owners(log) == {log[i].own : i \in {j \in Pos(log) : log[j].e \in {"assign", "reg"}}}
ReverseOrder(log) ==
  \A o \in Owners(log) :
     Ids(log, LAMBDA ev : ev.e \in {"restore", "run"} /\ ev.own = o)
       = Rev(Ids(log, LAMBDA ev : ev.e \in {"assign", "reg"} /\ ev.own = o))

\* a frame reports its body's exception; failures of its deferred callbacks only if the body succeeded
FailedOf(log, o) == UNION {log[j].ids : j \in {m \in Pos(log) : log[m].e = "cbret" /\ log[m].own = o}}
ExcRule(log) ==
  \A i \in Pos(log) : log[i].e = "ret" =>
     IF log[i].body # "none" THEN log[i].out.k = log[i].body
     ELSE IF FailedOf(log, log[i].own) # {} THEN log[i].out = Fail(FailedOf(log, log[i].own))
     ELSE log[i].out = None

\* when a `with` has finished - and when a frame without deferred callbacks has finished - every variable
\* it assigned temporarily holds the value it had before the FIRST such assignment, whatever else was
\* assigned in between.  (With callbacks the claim is false: `defer { set a[1] = 5 }; tmp a = [..]` - the
\* callback registered earlier runs AFTER the restore; TLC finds this program at 3 nodes.)
FirstOld(log, o, x) ==
  LET S == {j \in Pos(log) : log[j].e = "assign" /\ log[j].own = o /\ log[j].x = x}
  IN IF S = {} THEN <<>> ELSE <<log[CHOOSE j \in S : \A m \in S : j <= m].old>>
HasCallbacks(log, o) == \E j \in Pos(log) : log[j].e = "reg" /\ log[j].own = o
StoreRestored(log) ==
  \A i \in Pos(log) : (log[i].e = "wexit" \/ (log[i].e = "ret" /\ ~HasCallbacks(log, log[i].own))) =>
     \A x \in {"a", "b"} : LET f == FirstOld(log, log[i].own, x) IN f = <<>> \/ log[i].st[x] = f[1]

RECURSIVE HasSet(_)
HasSet(b) == \E i \in 1..Len(b) : b[i].t = "set" \/ HasSet(b[i].body)
\* a function that only assigns temporarily leaves the store as it found it
FinalRestored(prog, r) == HasSet(prog) \/ r.final = InitStore
=============================================================================
