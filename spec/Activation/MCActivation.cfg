CONSTANTS NS = 2 ND = 3 K = 2 MaxCrash = 1 Record = FALSE InitKinds = {"none", "stale", "live"}
SPECIFICATION Spec
INVARIANT TypeOK EmitM
