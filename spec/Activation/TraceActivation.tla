--------------------------- MODULE TraceActivation ---------------------------
(* V for C27: events recorded from REAL shells (daemon.Activate) and REAL daemons (daemon.Serve) racing
   freely -- the VerifPause hook only logs, through one mutex-protected tracer -- are checked to be a
   behaviour of Activation.  Logged events:
     Init(n, p = none|stale|live|bound) a new world, race number n (races are concatenated; End(n) closes
                                        the last); live: daemon 1 serves; bound: a socket bound by a live
                                        process that does not listen yet (made by the harness)
     ShellStart(s)                      before Activate
     H(s, p, arg)  H(d, p, arg)         a hook call: the point and, for the detect points, the status
     DaemonStart(d, s)                  inside spawn (startProcess): shell s starts daemon d
     DaemonReturn(d, code)              Serve returned
     ShellReturn(s, ok, d, db)          Activate returned; when ok: which daemon answers Version on the
                                        shell's own connection and whether AddCmd succeeds through it
     ExitStart(s) ExitEnd(s)            around the shell's client.Close()
   Every hook sits AFTER the effect it reports, so the effects themselves are unlogged internal steps
   that TLC places: FirstLstat, FirstDial, RetryLstat, RetryDial, RemoveStale, Accept, ConnDone, Exit, Listen, OpenDb,
   RemoveSock, CloseDb, CloseListener, GiveUp.  sl / dl remember the last logged point of each actor:
   an actor's internal step is enabled only between the two hooks that bracket it in the code.
   Acceptance: high-water mark of l.  SafeHW prunes states violating the properties, so a trace is
   accepted iff SOME placement of the internal steps explains it without violating them; the Diag
   configuration (Record, VIEW) prints the labelled steps of the violating explanations. *)
EXTENDS Activation, Json
Trace == ndJsonDeserialize("trace.ndjson")
VARIABLES l, sl, dl, pr, ex
tv == <<l, sl, dl, pr, ex>>
\* races are concatenated: Init(n = race number) ... Init(n+1) ... End.  Boundary(i) = the index of the
\* first Init/End event at or after position i
IsBoundary(i) == Trace[i].ev \in {"Init", "End"}
RECURSIVE NextB(_)
NextB(i) == IF i > Len(Trace) THEN Len(Trace) + 1 ELSE IF IsBoundary(i) THEN i ELSE NextB(i + 1)

allvars == <<vars, tv>>
T == Trace[l]
Is(e) == l <= Len(Trace) /\ T.ev = e
IsH(p) == Is("H") /\ T.p = p
Adv == l' = l + 1
StOK == 0  StMissing == 1  StRefused == 3  StOther == 4      \* daemonStatus in activate.go

ResetTo(kind) ==
  /\ init' = kind
  /\ sock' = IF kind = "none" THEN 0 ELSE 1
  /\ listening' = IF kind = "live" THEN {1} ELSE {}
  /\ dbLock' = IF kind = "live" THEN 1 ELSE 0
  /\ dpc' = [d \in Daemons |-> IF d = 1 /\ kind = "live" THEN "serving"
                               ELSE IF d = 1 /\ kind = "stale" THEN "crashed"
                               ELSE IF d = 1 /\ kind = "bound" THEN "bound" ELSE "none"]
  /\ hasdb' = [d \in Daemons |-> d = 1 /\ kind = "live"]
  /\ conns' = [d \in Daemons |-> {}] /\ closedc' = [d \in Daemons |-> {}] /\ backlog' = [d \in Daemons |-> {}]
  /\ spc' = [s \in Shells |-> "start"] /\ sconn' = [s \in Shells |-> 0] /\ tries' = [s \in Shells |-> 0]
  /\ nsp' = IF kind = "none" THEN 0 ELSE 1
  /\ crashes' = 0 /\ bad' = {} /\ hist' = <<>>
  /\ sl' = [s \in Shells |-> ""] /\ pr' = [s \in Shells |-> ""] /\ ex' = [s \in Shells |-> ""]
  /\ dl' = [d \in Daemons |-> IF d = 1 /\ kind = "live" THEN "serving" ELSE ""]

Init == /\ InitWith("none") /\ l = 1
        /\ sl = [s \in Shells |-> ""] /\ pr = [s \in Shells |-> ""] /\ ex = [s \in Shells |-> ""]
        /\ dl = [d \in Daemons |-> ""]
\* a race whose events were all explained is reported: <<"ACC", n>>.  Skip abandons a race at its
\* beginning (so that the races after a rejected one are still judged); it reports nothing.
Reset == Is("Init") /\ Adv /\ ResetTo(T.p) /\ (l = 1 \/ PrintT(<<"ACC", T.n - 1>>))
End == Is("End") /\ Adv /\ PrintT(<<"ACC", T.n>>) /\ UNCHANGED <<vars, sl, dl, pr, ex>>
Skip == /\ l > 1 /\ l <= Len(Trace) /\ Trace[l - 1].ev = "Init" /\ ~IsBoundary(l)
        /\ LET b == NextB(l + 1) IN
             IF b <= Len(Trace) /\ Trace[b].ev = "Init" THEN l' = b + 1 /\ ResetTo(Trace[b].p)
             ELSE l' = Len(Trace) + 1 /\ UNCHANGED <<vars, sl, dl, pr, ex>>

\* ---- logged events (no effect on the world)
SetS(st) == sl' = [sl EXCEPT ![T.s] = st]
SetD(st) == dl' = [dl EXCEPT ![T.d] = st]
ShellStart == Is("ShellStart") /\ sl[T.s] = "" /\ Adv /\ SetS("started") /\ UNCHANGED <<vars, dl, pr, ex>>
Detected ==
  /\ IsH("shell.detected") /\ sl[T.s] = "started"
  /\ CASE T.arg = StMissing -> spc[T.s] = "spawning"
       [] T.arg = StRefused -> spc[T.s] = "refused"
       [] T.arg = StOK      -> spc[T.s] = "connected"
       [] T.arg = StOther   -> spc[T.s] = "failed"
       [] OTHER -> FALSE
  /\ Adv /\ SetS("detected") /\ UNCHANGED <<vars, dl, pr, ex>>
BeforeRemove == IsH("shell.before-remove") /\ sl[T.s] = "detected" /\ spc[T.s] = "refused"
                /\ Adv /\ SetS("before-remove") /\ UNCHANGED <<vars, dl, pr, ex>>
AfterRemove == IsH("shell.after-remove") /\ sl[T.s] = "before-remove" /\ spc[T.s] \in {"spawning", "failed"}
               /\ Adv /\ SetS("after-remove") /\ UNCHANGED <<vars, dl, pr, ex>>
BeforeSpawn == IsH("shell.before-spawn") /\ sl[T.s] \in {"detected", "after-remove"} /\ spc[T.s] = "spawning"
               /\ Adv /\ SetS("before-spawn") /\ UNCHANGED <<vars, dl, pr, ex>>
DaemonStart == /\ Is("DaemonStart") /\ sl[T.s] = "before-spawn" /\ nsp + 1 = T.d /\ nsp < ND
               /\ Spawn(T.s) /\ Adv /\ SetS("starting") /\ UNCHANGED <<dl, pr, ex>>
Spawned == IsH("shell.spawned") /\ sl[T.s] = "starting" /\ Adv /\ SetS("spawned") /\ UNCHANGED <<vars, dl, pr, ex>>
RetryDetected ==
  /\ IsH("shell.retry-detected") /\ sl[T.s] \in {"spawned", "retry"}
  /\ CASE T.arg = StMissing -> pr[T.s] = "missing"
       [] T.arg = StRefused -> pr[T.s] = "refused"
       [] T.arg = StOK      -> pr[T.s] = "queued" /\ spc[T.s] = "connected"
       [] T.arg = StOther   -> pr[T.s] \in {"queued", "gone"} /\ spc[T.s] = "failed"
       [] OTHER -> FALSE
  /\ Adv /\ SetS("retry") /\ pr' = [pr EXCEPT ![T.s] = ""] /\ UNCHANGED <<vars, dl, ex>>
ShellReturnOK ==
  /\ Is("ShellReturn") /\ T.ok /\ sl[T.s] \in {"detected", "retry"} /\ spc[T.s] = "connected"
  /\ sconn[T.s] = T.d /\ hasdb[T.d] = T.db
  /\ Adv /\ SetS("returned") /\ UNCHANGED <<vars, dl, pr, ex>>
ShellReturnErr ==
  /\ Is("ShellReturn") /\ ~T.ok /\ sl[T.s] \in {"detected", "after-remove", "spawned", "retry"}
  /\ \/ spc[T.s] = "failed" /\ UNCHANGED vars
     \/ spc[T.s] = "waiting" /\ pr[T.s] = "" /\ tries[T.s] < K
        /\ spc' = [spc EXCEPT ![T.s] = "failed"]         \* GiveUp: the time-bounded wait loop ended
        /\ UNCHANGED <<init, sock, listening, dbLock, dpc, hasdb, conns, closedc, backlog, sconn, tries, nsp, crashes, bad>>
        /\ Lbl("GiveUp", T.s, 0, "", "")
  /\ Adv /\ SetS("failed") /\ UNCHANGED <<dl, pr, ex>>
ExitStart == Is("ExitStart") /\ sl[T.s] = "returned" /\ ex[T.s] = "" /\ Adv /\ ex' = [ex EXCEPT ![T.s] = "closing"] /\ UNCHANGED <<vars, sl, dl, pr>>
ExitEnd == Is("ExitEnd") /\ ex[T.s] = "closing" /\ spc[T.s] = "exited" /\ Adv /\ ex' = [ex EXCEPT ![T.s] = "closed"] /\ UNCHANGED <<vars, sl, dl, pr>>

DH(p, from, to, cond) == IsH(p) /\ dl[T.d] = from /\ cond /\ Adv /\ SetD(to) /\ UNCHANGED <<vars, sl, pr, ex>>
DaemonHook ==
  \/ DH("daemon.listening", "", "listening", dpc[T.d] = "listening")
  \/ DH("daemon.listen-failed", "", "failed", dpc[T.d] = "dead")
  \/ DH("daemon.db-opened", "listening", "db", dpc[T.d] = "serving" /\ hasdb[T.d])
  \/ DH("daemon.db-failed", "listening", "db", dpc[T.d] = "serving" /\ ~hasdb[T.d])
  \/ DH("daemon.serving", "db", "serving", TRUE)
  \/ DH("daemon.before-remove", "serving", "before-remove", dpc[T.d] = "exiting")
  \/ DH("daemon.after-remove", "before-remove", "after-remove", dpc[T.d] = "removed")
  \/ DH("daemon.before-close", "after-remove", "before-close", dpc[T.d] = "dbclosed")
  \/ DH("daemon.closed", "before-close", "closed", dpc[T.d] = "dead")
DaemonReturn == /\ Is("DaemonReturn") /\ ((T.code = 0 /\ dl[T.d] = "closed") \/ (T.code = 2 /\ dl[T.d] = "failed"))
                /\ Adv /\ SetD("returned") /\ UNCHANGED <<vars, sl, pr, ex>>

\* ---- internal steps, each between the hooks that bracket it
Internal ==
  \/ \E s \in Shells :
       \/ sl[s] = "started" /\ (FirstLstat(s) \/ FirstDial(s)) /\ UNCHANGED tv
       \/ sl[s] = "before-remove" /\ RemoveStale(s) /\ UNCHANGED tv
       \/ sl[s] \in {"spawned", "retry"} /\ pr[s] = "" /\ RetryLstat(s)
          /\ pr' = [pr EXCEPT ![s] = IF sock = 0 THEN "missing" ELSE ""] /\ UNCHANGED <<l, sl, dl, ex>>
       \/ sl[s] \in {"spawned", "retry"} /\ pr[s] = "" /\ RetryDial(s) /\ pr' = [pr EXCEPT ![s] = DialOutcome] /\ UNCHANGED <<l, sl, dl, ex>>
       \/ ex[s] = "closing" /\ Exit(s) /\ UNCHANGED tv
  \/ \E d \in Daemons :
       \/ dl[d] = "" /\ (Listen(d) \/ StartListen(d)) /\ UNCHANGED tv
       \/ dl[d] = "listening" /\ OpenDb(d) /\ UNCHANGED tv
       \/ dl[d] = "serving" /\ (\E s \in Shells : Accept(d, s) \/ ConnDone(d, s)) /\ UNCHANGED tv
       \/ dl[d] = "before-remove" /\ RemoveSock(d) /\ UNCHANGED tv
       \/ dl[d] = "after-remove" /\ CloseDb(d) /\ UNCHANGED tv
       \/ dl[d] = "before-close" /\ CloseListener(d) /\ UNCHANGED tv
TNext == Reset \/ End \/ Skip \/ ShellStart \/ Detected \/ BeforeRemove \/ AfterRemove \/ BeforeSpawn \/ DaemonStart \/ Spawned
        \/ RetryDetected \/ ShellReturnOK \/ ShellReturnErr \/ ExitStart \/ ExitEnd \/ DaemonHook \/ DaemonReturn \/ Internal
Spec == Init /\ [][TNext]_allvars

Safe == ConnectedIsLive /\ OneServerPerSocket /\ ServeWhileClients /\ RemoveOnlyOwn
HW == TLCSet(1, IF TLCGet(1) > l THEN TLCGet(1) ELSE l)
SafeHW == Safe /\ HW
Accepted == PrintT(<<"HW", TLCGet(1)>>) /\ TLCGet(1) = Len(Trace) + 1
ASSUME TLCSet(1, 0)
\* Diag configuration
DiagView == <<init, sock, listening, dbLock, dpc, hasdb, conns, closedc, backlog, spc, sconn, tries, nsp, crashes, bad, tv>>
Names == (IF ConnectedIsLive THEN <<>> ELSE <<"ConnectedIsLive">>) \o (IF OneServerPerSocket THEN <<>> ELSE <<"OneServerPerSocket">>)
         \o (IF ServeWhileClients THEN <<>> ELSE <<"ServeWhileClients">>) \o (IF RemoveOnlyOwn THEN <<>> ELSE <<"RemoveOnlyOwn">>)
RaceNo == IF l = 1 THEN 0 ELSE Trace[CHOOSE i \in 1..Len(Trace) : Trace[i].ev = "Init" /\ i < l /\ \A j \in (i + 1)..(l - 1) : Trace[j].ev # "Init"].n
\* per-race high-water marks (registers 1000 + race number), reported by the Diag postcondition
ASSUME \A i \in 0..400 : TLCSet(1000 + i, 0)
RaceHW == l > Len(Trace) \/ TLCSet(1000 + RaceNo, IF TLCGet(1000 + RaceNo) > l THEN TLCGet(1000 + RaceNo) ELSE l)
DiagC == Safe /\ HW /\ RaceHW
DiagAccepted == Accepted /\ \A i \in 1..Trace[Len(Trace)].n : PrintT(<<"RHW", i, TLCGet(1000 + i)>>)
EmitViol == Safe \/ PrintT(ToJson([kind |-> "viol", race |-> RaceNo, init |-> init, inv |-> Names, at |-> l, steps |-> hist]))
=============================================================================
