---------------------------- MODULE MCActivation ----------------------------
(* M and G configurations of Activation.
   M : Spec (every interleaving, Crash allowed) -- the emitting invariant EmitM prints, for every
       reachable state violating a property, which ones (the as-is protocol is EXPECTED to violate
       RemoveOnlyOwn, OneServerPerSocket and ConnectedIsLive); SpecLive + Termination (Record = FALSE).
   G : SpecG (the interleavings a hook scheduler can force: Accept/ConnDone are taken as soon as they are
       enabled, no Crash).  hist is hidden by the VIEW, so TLC keeps ONE (shortest, BFS) behaviour per
       state.  EmitG prints the behaviour of every state that violates a property for the first time
       (StopAtViolation makes them absorbing), EmitDeep the behaviours reaching a shell connected to a
       daemon that does not own the db (StopAtDeep), EmitTerm the behaviours of terminal states. *)
EXTENDS Activation, Json
CONSTANTS InitKinds
Init == \E k \in InitKinds : InitWith(k)
Spec == Init /\ [][Next]_vars
SpecLive == Spec /\ (\A s \in Shells : WF_vars(ShellStep(s))) /\ (\A d \in Daemons : WF_vars(DaemonStep(d)))
SpecG == Init /\ [][NextG]_vars
View == <<init, sock, listening, dbLock, dpc, hasdb, conns, closedc, backlog, spc, sconn, tries, nsp, crashes, bad>>
Termination == \A s \in Shells : <>(spc[s] \in Final)

ViolatedSet == (IF ConnectedIsLive THEN {} ELSE {"ConnectedIsLive"}) \cup (IF OneServerPerSocket THEN {} ELSE {"OneServerPerSocket"})
               \cup (IF ServeWhileClients THEN {} ELSE {"ServeWhileClients"}) \cup (IF RemoveOnlyOwn THEN {} ELSE {"RemoveOnlyOwn"})
Violated == ViolatedSet # {}
SetToSeq(S) == IF S = {} THEN <<>> ELSE LET RECURSIVE F(_) F(T) == IF T = {} THEN <<>> ELSE LET x == CHOOSE x \in T : TRUE IN <<x>> \o F(T \ {x}) IN F(S)
Out(kind) == PrintT(ToJson([kind |-> kind, init |-> init, inv |-> SetToSeq(ViolatedSet), steps |-> hist]))

EmitM == Violated => PrintT(ToJson([kind |-> "m", init |-> init, inv |-> SetToSeq(ViolatedSet), bad |-> SetToSeq(bad)]))
StopAtViolation == ~Violated
EmitG == Violated => Out("viol")
Terminal == ~ENABLED NextG
EmitTerm == (Terminal /\ ~Violated) => Out("term")
\* client sessions of ONE daemon: world "live", ND = 1, NS = 3..4 clients; hist is part of the state (no VIEW), so
\* EVERY order of connects and disconnects during the daemon's life is a behaviour of its own; a shell that finds
\* the socket missing (it came after the exit) leaves the scope
SessionOK == \A s \in Shells : spc[s] \notin {"spawning", "outofids", "refused", "failed"}
EmitSess == (Terminal /\ SessionOK /\ ~Violated) => Out("sess")
Deep == ~ConnectedIsLive
StopAtDeep == ~Deep
EmitDeep == Deep => Out("deep")
=============================================================================
