----------------------------- MODULE Activation -----------------------------
(* C27 -- daemon activation (pkg/daemon/activate.go: Activate, detectDaemon, spawn) and the daemon's
   life cycle (pkg/daemon/server.go: Serve) as processes sharing ONE socket path and ONE database.

   World
     sock        0 = the path does not exist, else the id of the inode the path names NOW.  An inode
                 created by daemon d's net.Listen has id d; the socket left behind by a daemon that
                 crashed before the behaviour starts is the inode of (crashed) daemon 1.
     listening   daemons holding an open listener (on their own inode, whatever the path names)
     dbLock      0, or the daemon holding the bbolt file lock
   Daemon d      dpc[d]:  none -> spawned -[Listen = bind]-> bound | dead (bind failed: path exists)
                          bound -[StartListen]-> listening   (a dial in between is REFUSED)
                          listening -[OpenDb]-> serving (hasdb[d] says whether the lock was obtained;
                                     the code serves errors when store.NewStore timed out)
                          serving -[ConnDone, last client]-> exiting -[RemoveSock]-> removed
                          -[CloseDb]-> dbclosed -[CloseListener]-> dead          | crashed (Crash)
                 conns[d]   connections registered by the main loop (Accept), closedc[d] those of them
                            whose client has closed but whose connDone was not handled yet,
                 backlog[d] shells that dialled d's listener and were not registered yet.
                 (DbOpen/DbFailed and Serving of the design are one state "serving": nothing visible
                  happens between the two hooks; Exiting/RemovedSock/Closed = exiting/removed/dbclosed.)
   Shell s       spc[s]:  start -[FirstLstat]-> spawning (missing) | probing -[FirstDial]-> refused | dialled
                                                                  | failed (the file vanished since lstat)
                          dialled -[Accept by the daemon: Version answered]-> connected
                                  -[the daemon closes its listener / crashes]-> failed
                          refused -[RemoveStale]-> spawning | failed (remove error)
                          spawning -[Spawn]-> waiting  -[RetryLstat; RetryDial, <= K times]-> waiting | dialled | failed
                          waiting -[GiveUp]-> failed ; connected -[Exit]-> exited
   Steps that are os.Remove(path) -- RemoveStale, RemoveSock, and the unlink-on-close inside Go's
   UnixListener.Close (CloseListener) -- remove WHATEVER inode the path names at that moment.

   Properties (the statement of C27)
     ConnectedIsLive     a shell in connected(d) has d serving, registered it, and d owns the db
     OneServerPerSocket  at most one daemon serves, and a serving daemon owns the db
     ServeWhileClients   a daemon with an open registered client is serving
     DaemonExitsOnlyWhenNoClient  a daemon on its exit path has no registered client (conns[d] is the daemon's
                         explicit client set: Accept = connect, Exit + ConnDone = disconnect)
     RemoveOnlyOwn       no removal by path unlinked the inode of ANOTHER LIVE daemon (ghost `bad`)
     Termination (M only, weak fairness) every activation ends connected / failed
   A daemon that crashed is exempt everywhere (the statement is about the protocol, not about faults).
   Unspecified: nothing; statuses sockfileOtherError / daemonOutdated and signals are outside the model
   (OutOfModel: the executor never produces them).

   Ghost: bad (classes of offending removals), hist (when Record: the labelled steps with the
   projected post-state; hidden by the VIEW of the MC module). *)
EXTENDS Integers, FiniteSets, Sequences, TLC
CONSTANTS NS, ND,        \* shells 1..NS, daemon ids 1..ND
          K,             \* retries of the wait loop (abstracts the 1 s / 10 ms loop)
          MaxCrash,      \* number of Crash steps allowed
          Record         \* keep hist
VARIABLES init, sock, listening, dbLock, dpc, hasdb, conns, closedc, backlog,
          spc, sconn, tries, nsp, crashes, bad, hist
vars == <<init, sock, listening, dbLock, dpc, hasdb, conns, closedc, backlog, spc, sconn, tries, nsp, crashes, bad, hist>>
Shells == 1..NS
Daemons == 1..ND

InitWith(kind) ==
  /\ init = kind
  /\ sock = IF kind = "none" THEN 0 ELSE 1
  /\ listening = IF kind = "live" THEN {1} ELSE {}
  /\ dbLock = IF kind = "live" THEN 1 ELSE 0
  /\ dpc = [d \in Daemons |-> IF d = 1 /\ kind = "live" THEN "serving"
                              ELSE IF d = 1 /\ kind = "stale" THEN "crashed"
                              ELSE IF d = 1 /\ kind = "bound" THEN "bound" ELSE "none"]   \* bound: a daemon caught between bind and listen
  /\ hasdb = [d \in Daemons |-> d = 1 /\ kind = "live"]
  /\ conns = [d \in Daemons |-> {}] /\ closedc = [d \in Daemons |-> {}] /\ backlog = [d \in Daemons |-> {}]
  /\ spc = [s \in Shells |-> "start"] /\ sconn = [s \in Shells |-> 0] /\ tries = [s \in Shells |-> 0]
  /\ nsp = IF kind = "none" THEN 0 ELSE 1
  /\ crashes = 0 /\ bad = {} /\ hist = <<>>

Alive(d) == dpc[d] \in {"spawned", "bound", "listening", "serving", "exiting", "removed", "dbclosed"}
\* the inode the path names was created by a daemon other than `me` that is alive
OthersLive(me) == sock # 0 /\ sock # me /\ Alive(sock)

\* ---- ghost history: label + projected post-state
Lbl(a, s, d, r, b) ==
  hist' = IF Record
          THEN Append(hist, [a |-> a, s |-> s, d |-> d, r |-> r, bad |-> b,
                             sock |-> sock', db |-> dbLock',
                             spc |-> [i \in Shells |-> spc'[i]], sconn |-> [i \in Shells |-> sconn'[i]],
                             dpc |-> [i \in Daemons |-> dpc'[i]], hasdb |-> [i \in Daemons |-> hasdb'[i]],
                             nconn |-> [i \in Daemons |-> Cardinality(conns'[i])]])
          ELSE hist

\* ---- shells.  detectDaemon is os.Lstat followed by a dial: two steps, the path may change in between
LstatOutcome == IF sock = 0 THEN "missing" ELSE "present"
DialOutcome == IF sock = 0 THEN "gone" ELSE IF sock \in listening THEN "queued" ELSE "refused"

FirstLstat(s) ==
  /\ spc[s] = "start"
  /\ spc' = [spc EXCEPT ![s] = IF sock = 0 THEN "spawning" ELSE "probing"]
  /\ UNCHANGED <<init, sock, listening, dbLock, dpc, hasdb, conns, closedc, backlog, sconn, tries, nsp, crashes, bad>>
  /\ Lbl("Lstat", s, 0, LstatOutcome, "")

\* connect: ENOENT (the file vanished since lstat: "unexpected RPC error", the activation fails),
\* ECONNREFUSED (nobody listens on the inode the path names now), or queued on a listener
FirstDial(s) ==
  /\ spc[s] = "probing"
  /\ CASE DialOutcome = "gone"    -> spc' = [spc EXCEPT ![s] = "failed"] /\ UNCHANGED <<sconn, backlog>>
       [] DialOutcome = "refused" -> spc' = [spc EXCEPT ![s] = "refused"] /\ UNCHANGED <<sconn, backlog>>
       [] OTHER -> /\ spc' = [spc EXCEPT ![s] = "dialled"] /\ sconn' = [sconn EXCEPT ![s] = sock]
                   /\ backlog' = [backlog EXCEPT ![sock] = @ \cup {s}]
  /\ UNCHANGED <<init, sock, listening, dbLock, dpc, hasdb, conns, closedc, tries, nsp, crashes, bad>>
  /\ Lbl("Dial", s, IF DialOutcome = "queued" THEN sock ELSE 0, DialOutcome, "")

RemoveStale(s) ==
  /\ spc[s] = "refused"
  /\ IF sock = 0
     THEN /\ spc' = [spc EXCEPT ![s] = "failed"] /\ UNCHANGED <<sock, bad>>
     ELSE /\ sock' = 0 /\ spc' = [spc EXCEPT ![s] = "spawning"]
          /\ bad' = IF OthersLive(0) THEN bad \cup {"shell-remove-live"} ELSE bad
  /\ UNCHANGED <<init, listening, dbLock, dpc, hasdb, conns, closedc, backlog, sconn, tries, nsp, crashes>>
  /\ Lbl("RemoveStale", s, sock, IF sock = 0 THEN "enoent" ELSE "removed", IF OthersLive(0) THEN "shell-remove-live" ELSE "")

Spawn(s) ==
  /\ spc[s] = "spawning"
  /\ IF nsp < ND
     THEN /\ nsp' = nsp + 1 /\ dpc' = [dpc EXCEPT ![nsp + 1] = "spawned"]
          /\ spc' = [spc EXCEPT ![s] = "waiting"] /\ tries' = [tries EXCEPT ![s] = 0]
     ELSE /\ spc' = [spc EXCEPT ![s] = "outofids"] /\ UNCHANGED <<nsp, dpc, tries>>   \* bound of the model
  /\ UNCHANGED <<init, sock, listening, dbLock, hasdb, conns, closedc, backlog, sconn, crashes, bad>>
  /\ Lbl("Spawn", s, IF nsp < ND THEN nsp + 1 ELSE 0, IF nsp < ND THEN "" ELSE "outofids", "")

RetryLstat(s) ==
  /\ spc[s] = "waiting" /\ tries[s] < K
  /\ IF sock = 0 THEN tries' = [tries EXCEPT ![s] = @ + 1] /\ UNCHANGED spc
     ELSE spc' = [spc EXCEPT ![s] = "reprobing"] /\ UNCHANGED tries
  /\ UNCHANGED <<init, sock, listening, dbLock, dpc, hasdb, conns, closedc, backlog, sconn, nsp, crashes, bad>>
  /\ Lbl("RetryLstat", s, 0, LstatOutcome, "")

RetryDial(s) ==
  /\ spc[s] = "reprobing"
  /\ CASE DialOutcome = "gone"    -> spc' = [spc EXCEPT ![s] = "failed"] /\ UNCHANGED <<sconn, backlog, tries>>
       [] DialOutcome = "refused" -> /\ spc' = [spc EXCEPT ![s] = "waiting"] /\ tries' = [tries EXCEPT ![s] = @ + 1]
                                     /\ UNCHANGED <<sconn, backlog>>
       [] OTHER -> /\ spc' = [spc EXCEPT ![s] = "dialled"] /\ sconn' = [sconn EXCEPT ![s] = sock]
                   /\ backlog' = [backlog EXCEPT ![sock] = @ \cup {s}] /\ UNCHANGED tries
  /\ UNCHANGED <<init, sock, listening, dbLock, dpc, hasdb, conns, closedc, nsp, crashes, bad>>
  /\ Lbl("RetryDial", s, IF DialOutcome = "queued" THEN sock ELSE 0, DialOutcome, "")

GiveUp(s) ==
  /\ spc[s] = "waiting" /\ tries[s] = K
  /\ spc' = [spc EXCEPT ![s] = "failed"]
  /\ UNCHANGED <<init, sock, listening, dbLock, dpc, hasdb, conns, closedc, backlog, sconn, tries, nsp, crashes, bad>>
  /\ Lbl("GiveUp", s, 0, "", "")

Exit(s) ==
  /\ spc[s] = "connected"
  /\ spc' = [spc EXCEPT ![s] = "exited"]
  /\ closedc' = [closedc EXCEPT ![sconn[s]] = @ \cup {s}]
  /\ UNCHANGED <<init, sock, listening, dbLock, dpc, hasdb, conns, backlog, sconn, tries, nsp, crashes, bad>>
  /\ Lbl("Exit", s, sconn[s], "", "")

\* ---- daemons
\* net.Listen is bind(2) -- which creates the socket file, or fails if the path exists -- followed by
\* listen(2); a dial between the two is refused although the owner is alive
Listen(d) ==
  /\ dpc[d] = "spawned"
  /\ IF sock = 0
     THEN /\ sock' = d /\ dpc' = [dpc EXCEPT ![d] = "bound"]
     ELSE /\ dpc' = [dpc EXCEPT ![d] = "dead"] /\ UNCHANGED sock
  /\ UNCHANGED <<init, listening, dbLock, hasdb, conns, closedc, backlog, spc, sconn, tries, nsp, crashes, bad>>
  /\ Lbl("Listen", 0, d, IF sock = 0 THEN "ok" ELSE "inuse", "")

StartListen(d) ==
  /\ dpc[d] = "bound"
  /\ listening' = listening \cup {d} /\ dpc' = [dpc EXCEPT ![d] = "listening"]
  /\ UNCHANGED <<init, sock, dbLock, hasdb, conns, closedc, backlog, spc, sconn, tries, nsp, crashes, bad>>
  /\ Lbl("StartListen", 0, d, "", "")

OpenDb(d) ==
  /\ dpc[d] = "listening"
  /\ dpc' = [dpc EXCEPT ![d] = "serving"]
  /\ IF dbLock = 0
     THEN dbLock' = d /\ hasdb' = [hasdb EXCEPT ![d] = TRUE]
     ELSE UNCHANGED <<dbLock, hasdb>>
  /\ UNCHANGED <<init, sock, listening, conns, closedc, backlog, spc, sconn, tries, nsp, crashes, bad>>
  /\ Lbl("OpenDb", 0, d, IF dbLock = 0 THEN "ok" ELSE "timeout", IF dbLock = 0 THEN "" ELSE "serve-without-db")

\* the main loop registers a dialled connection; its Version request is answered
Accept(d, s) ==
  /\ dpc[d] = "serving" /\ s \in backlog[d]
  /\ backlog' = [backlog EXCEPT ![d] = @ \ {s}]
  /\ conns' = [conns EXCEPT ![d] = @ \cup {s}]
  /\ spc' = [spc EXCEPT ![s] = "connected"]
  /\ UNCHANGED <<init, sock, listening, dbLock, dpc, hasdb, closedc, sconn, tries, nsp, crashes, bad>>
  /\ Lbl("Accept", s, d, "", "")

\* the main loop handles connDone; with no connection left it leaves the loop (DecideExit)
ConnDone(d, s) ==
  /\ dpc[d] = "serving" /\ s \in closedc[d] /\ s \in conns[d]
  /\ conns' = [conns EXCEPT ![d] = @ \ {s}]
  /\ closedc' = [closedc EXCEPT ![d] = @ \ {s}]
  /\ dpc' = [dpc EXCEPT ![d] = IF conns[d] = {s} THEN "exiting" ELSE "serving"]
  /\ UNCHANGED <<init, sock, listening, dbLock, hasdb, backlog, spc, sconn, tries, nsp, crashes, bad>>
  /\ Lbl("ConnDone", s, d, IF conns[d] = {s} THEN "exit" ELSE "stay", "")

RemoveSock(d) ==
  /\ dpc[d] = "exiting"
  /\ dpc' = [dpc EXCEPT ![d] = "removed"]
  /\ sock' = 0
  /\ bad' = IF OthersLive(d) THEN bad \cup {"rmsock-other"} ELSE bad
  /\ UNCHANGED <<init, listening, dbLock, hasdb, conns, closedc, backlog, spc, sconn, tries, nsp, crashes>>
  /\ Lbl("RemoveSock", 0, d, IF sock = 0 THEN "enoent" ELSE "removed", IF OthersLive(d) THEN "rmsock-other" ELSE "")

CloseDb(d) ==
  /\ dpc[d] = "removed"
  /\ dpc' = [dpc EXCEPT ![d] = "dbclosed"]
  /\ dbLock' = IF dbLock = d THEN 0 ELSE dbLock
  /\ UNCHANGED <<init, sock, listening, hasdb, conns, closedc, backlog, spc, sconn, tries, nsp, crashes, bad>>
  /\ Lbl("CloseDb", 0, d, "", "")

\* listener.Close: Go unlinks the path again; shells still queued on the listener get an RPC error
CloseListener(d) ==
  /\ dpc[d] = "dbclosed"
  /\ dpc' = [dpc EXCEPT ![d] = "dead"]
  /\ listening' = listening \ {d}
  /\ sock' = 0
  /\ bad' = IF OthersLive(d) THEN bad \cup {"close-other"} ELSE bad
  /\ spc' = [s \in Shells |-> IF s \in backlog[d] THEN "failed" ELSE spc[s]]
  /\ backlog' = [backlog EXCEPT ![d] = {}]
  /\ UNCHANGED <<init, dbLock, hasdb, conns, closedc, sconn, tries, nsp, crashes>>
  /\ Lbl("CloseListener", 0, d, IF sock = 0 THEN "enoent" ELSE "removed", IF OthersLive(d) THEN "close-other" ELSE "")

Crash(d) ==
  /\ crashes < MaxCrash /\ dpc[d] \in {"bound", "listening", "serving", "exiting", "removed", "dbclosed"}
  /\ crashes' = crashes + 1
  /\ dpc' = [dpc EXCEPT ![d] = "crashed"]
  /\ listening' = listening \ {d}
  /\ dbLock' = IF dbLock = d THEN 0 ELSE dbLock
  /\ spc' = [s \in Shells |-> IF s \in backlog[d] THEN "failed" ELSE spc[s]]
  /\ backlog' = [backlog EXCEPT ![d] = {}]
  /\ UNCHANGED <<init, sock, hasdb, conns, closedc, sconn, tries, nsp, bad>>
  /\ Lbl("Crash", 0, d, "", "")

ShellStep(s) == FirstLstat(s) \/ FirstDial(s) \/ RemoveStale(s) \/ Spawn(s) \/ RetryLstat(s) \/ RetryDial(s) \/ GiveUp(s)
DaemonStep(d) == Listen(d) \/ StartListen(d) \/ OpenDb(d) \/ RemoveSock(d) \/ CloseDb(d) \/ CloseListener(d)
                 \/ \E s \in Shells : Accept(d, s) \/ ConnDone(d, s)
\* steps the real daemon takes by itself as soon as they are possible (no hook gates them)
Urgent == \/ \E d \in Daemons, s \in Shells : Accept(d, s) \/ ConnDone(d, s)
          \/ \E s \in Shells : FirstDial(s) \/ RetryDial(s)      \* no hook between lstat and the dial
          \/ \E d \in Daemons : StartListen(d)                   \* nor between bind and listen
Gated == \/ \E s \in Shells : FirstLstat(s) \/ RemoveStale(s) \/ Spawn(s) \/ RetryLstat(s) \/ GiveUp(s) \/ Exit(s)
         \/ \E d \in Daemons : Listen(d) \/ OpenDb(d) \/ RemoveSock(d) \/ CloseDb(d) \/ CloseListener(d)
Next == (\E s \in Shells : ShellStep(s) \/ Exit(s)) \/ (\E d \in Daemons : DaemonStep(d) \/ Crash(d))
\* the interleavings a scheduler holding every actor at its hook can produce
NextG == IF ENABLED Urgent THEN Urgent ELSE Gated

\* ---- properties
Final == {"connected", "failed", "exited", "outofids"}
TypeOK ==
  /\ sock \in 0..ND /\ listening \subseteq Daemons /\ dbLock \in 0..ND
  /\ \A d \in Daemons : dpc[d] \in {"none", "spawned", "bound", "listening", "serving", "exiting", "removed", "dbclosed", "dead", "crashed"}
  /\ \A s \in Shells : spc[s] \in {"start", "probing", "refused", "spawning", "waiting", "reprobing", "dialled"} \cup Final
  /\ \A d \in Daemons : closedc[d] \subseteq conns[d] /\ (hasdb[d] /\ Alive(d) /\ dpc[d] # "dbclosed" => dbLock = d)
ConnectedIsLive ==
  \A s \in Shells : spc[s] = "connected" =>
     \/ dpc[sconn[s]] = "crashed"
     \/ dpc[sconn[s]] = "serving" /\ s \in conns[sconn[s]] /\ dbLock = sconn[s]
Serving == {d \in Daemons : dpc[d] = "serving"}
OneServerPerSocket == Cardinality(Serving) <= 1 /\ \A d \in Serving : dbLock = d
ServeWhileClients == \A d \in Daemons : conns[d] \ closedc[d] # {} => dpc[d] \in {"serving", "crashed"}
RemoveOnlyOwn == bad = {}
\* the exit path (leaving the loop, removing the socket, closing) is entered only with NO registered client
DaemonExitsOnlyWhenNoClient == \A d \in Daemons : dpc[d] \in {"exiting", "removed", "dbclosed", "dead"} => conns[d] = {}
=============================================================================
