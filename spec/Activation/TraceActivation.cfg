CONSTANTS NS = 6 ND = 14 K = 1000000 MaxCrash = 0 Record = FALSE
SPECIFICATION Spec
CONSTRAINT SafeHW
INVARIANT TypeOK
POSTCONDITION Accepted
