CONSTANTS NS = 6 ND = 14 K = 1000000 MaxCrash = 0 Record = TRUE
SPECIFICATION Spec
VIEW DiagView
CONSTRAINT DiagC
INVARIANT EmitViol
POSTCONDITION DiagAccepted
