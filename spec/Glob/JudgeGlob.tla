------------------------------ MODULE JudgeGlob ------------------------------
(* C23, V: recorded expansions of the real code, one per line of cases.ndjson:
     [tree, pat, uc, res, exc]   res = the produced paths in order, exc = an exception was raised.
   One TLC state per case.  A case is accepted iff
     every path of Must(tree, pat) was produced            (nothing missing),
     every produced path exists and matches under some reading (nothing extra),
     no path was produced twice,
     an exception was raised exactly when nothing was produced and nomatch-ok is absent.
   Rejected cases print <<"BAD", k, #missing, #extra, #dups, excbad>>; with DETAIL = TRUE the sets
   themselves are printed as JSON (used to key the finding).  <<"U", k, taken, nottaken>> counts the
   Unspecified paths (May \ Must) the real code produced / did not produce. *)
EXTENDS Glob, TLC, Json
CONSTANT DETAIL
Cases == ndJsonDeserialize("cases.ndjson")
VARIABLE k
Init == k = 0
Next == k < Len(Cases) /\ k' = k + 1

InRes(res, p) == \E i \in 1..Len(res) : res[i] = p

Verdict(c) ==
  LET mi      == Matched(CandInfo(c.tree), c.pat.segs, c.uc)
      must    == MustOf(mi, c.pat)
      mayx    == MayOf(mi, c.pat) \ must
      missing == {p \in must : ~InRes(c.res, p)}
      extra   == {c.res[i] : i \in {x \in 1..Len(c.res) : c.res[x] \notin must /\ c.res[x] \notin mayx
                                                           /\ ~Yields(c.tree, c.pat, c.res[x], FALSE, c.uc)}}
      dups    == Dups(c.res)
      excbad  == ExcBad(c.pat, c.res, c.exc)
  IN [ok |-> missing = {} /\ extra = {} /\ dups = {} /\ ~excbad,
      missing |-> missing, extra |-> extra, dups |-> dups, excbad |-> excbad,
      utaken |-> Cardinality({p \in mayx : InRes(c.res, p)}), uleft |-> Cardinality({p \in mayx : ~InRes(c.res, p)})]

Inv ==
  k = 0 \/
  LET v == Verdict(Cases[k]) IN
  /\ (v.utaken + v.uleft > 0) => PrintT(<<"U", k, v.utaken, v.uleft>>)
  /\ \/ v.ok
     \/ /\ DETAIL => PrintT(ToJson([k |-> k, missing |-> v.missing, extra |-> v.extra, dups |-> v.dups, excbad |-> v.excbad]))
        /\ PrintT(<<"BAD", k, Cardinality(v.missing), Cardinality(v.extra), Cardinality(v.dups), v.excbad>>)
=============================================================================
