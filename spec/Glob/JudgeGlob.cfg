CONSTANT DETAIL = FALSE
INIT Init
NEXT Next
INVARIANT Inv
