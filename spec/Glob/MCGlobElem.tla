----------------------------- MODULE MCGlobElem -----------------------------
(* C23, M + G inside one path component: one flat directory holding a file for every name over
   {a, b, c} of length 1..NL; every pattern of up to PS segments over the literals a, b, c and
   ? / * (unrestricted, [set:ab], [set:c], [range:a-b] when RICH = 1) is a state; Emit prints the set
   of names the specification prescribes.  This is the scope in which a restricted star followed
   by further segments needs the matcher to reconsider an earlier star (`*[set:ab]a*[set:c]` vs abac). *)
EXTENDS Glob, TLC, Json
CONSTANTS NL, PS, RICH
VARIABLE segs

Alpha == {97, 98, 99}
RECURSIVE NamesUpTo(_)
NamesUpTo(n) == IF n = 0 THEN {<<>>} ELSE LET r == NamesUpTo(n - 1) IN r \cup {Append(x, ch) : x \in r, ch \in Alpha}
Names == NamesUpTo(NL) \ {<<>>}
Cands == {[p |-> nm, w |-> [ok |-> TRUE, kind |-> "file", links |-> {}, tslink |-> FALSE], lock |-> {}] : nm \in Names}

MSets == IF RICH = 0 THEN {<<>>, <<SetM(<<97, 98>>)>>, <<SetM(<<99>>)>>}
         ELSE {<<>>, <<SetM(<<97, 98>>)>>, <<SetM(<<99>>)>>, <<RangeM(98, 99)>>, <<SetM(<<97>>), RangeM(99, 99)>>}
Symbols == {Lit(<<ch>>) : ch \in Alpha} \cup {Wild(t, ms, FALSE) : t \in {"q", "star"}, ms \in MSets}
StarLike(x) == x.t \in {"star", "ss"}
NWild(s) == Cardinality({i \in 1..Len(s) : IsWild(s[i])})
CanAppend(s, x) ==
  /\ Len(s) < PS
  /\ IF Len(s) = 0 THEN TRUE
     ELSE LET l == s[Len(s)] IN StarLike(x) => ~(StarLike(l) /\ l.ms = <<>>)
Init == segs = <<>>
Next == \E x \in Symbols : CanAppend(segs, x) /\ segs' = Append(segs, x)
Complete(s) == NWild(s) >= 1

\* Theorem: inside one component without dots, links or `**` nothing is Unspecified (every match
\* holds under every reading); checked on the way, then the prescribed set is printed.
TheoremAndEmit ==
  Complete(segs) =>
    LET mi == Matched(Cands, segs, <<>>)
        p  == Pat(segs, FALSE, <<>>, "")
        mu == MustOf(mi, p)
    IN /\ \A x \in mi : x.s
       /\ PrintT(ToJson([segs |-> segs, must |-> mu, may |-> MayOf(mi, p) \ mu]))
=============================================================================
