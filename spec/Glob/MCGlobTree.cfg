CONSTANT PS = 2
CONSTANT MW = 2
CONSTANT RICH = 0
INIT Init
NEXT Next
