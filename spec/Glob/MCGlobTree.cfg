CONSTANT PS = 3
CONSTANT MW = 2
CONSTANT RICH = 0
CONSTANT TPS = 2
INIT Init
NEXT Next
INVARIANT Theorems
INVARIANT Emit
