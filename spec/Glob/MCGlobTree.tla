----------------------------- MODULE MCGlobTree -----------------------------
(* C23, M + G over directory trees.  A state is a pattern prefix (sequence of segments), grown one
   segment per step, so the whole pattern scope up to PS segments / MW wildcards over the symbol
   set of the tier is enumerated (TLC's workers share the levels).  For every complete pattern and
   every tree of the scope the invariant Emit prints the outcome the specification prescribes:
   Must (has to be produced) and the extra paths of May (Unspecified, may be produced), for the
   plain pattern and for one rotating variant of the global modifiers.
   The design theorems are checked on every (pattern, tree) of the scope as invariants. *)
EXTENDS Glob, TLC, Json
CONSTANTS PS, MW, RICH, TPS  \* max segments, max wildcards, symbol set 0 < 1 < 2, theorems up to TPS segments
VARIABLE segs

a == 97
b == 98
J(x, y) == x \o <<SLASH>> \o y
F(p)    == Ent(p, "file", <<>>)
D(p)    == Ent(p, "dir", <<>>)
SF(p)   == Ent(p, "symfile", <<>>)
SD(p, t) == Ent(p, "symdir", t)

Trees == <<
  \* 1: flat, hidden file, two-character name
  << F(<<a>>), F(<<b>>), F(<<DOT, a>>), F(<<a, b>>) >>,
  \* 2: directory with visible, hidden and directory children
  << D(<<a>>), F(J(<<a>>, <<a>>)), F(J(<<a>>, <<DOT, a>>)), D(J(<<a>>, <<b>>)), F(<<b>>) >>,
  \* 3: hidden directory
  << D(<<DOT, a>>), F(J(<<DOT, a>>, <<a>>)), F(J(<<DOT, a>>, <<DOT, b>>)), D(<<b>>), F(J(<<b>>, <<a>>)) >>,
  \* 4: symbolic links
  << D(<<a>>), F(J(<<a>>, <<b>>)), SD(<<b>>, <<a>>), SF(<<a, b>>), SF(<<DOT, b>>) >>,
  \* 5: the same name at two levels
  << D(<<a>>), F(J(<<a>>, <<a>>)), D(<<a, a>>), F(J(<<a, a>>, <<a>>)) >>,
  \* 6: a single file
  << F(<<b>>) >>,
  \* 7: dots at the end and at the start, link inside a directory
  << F(<<a, DOT>>), D(<<DOT, a>>), F(J(<<DOT, a>>, <<a, DOT>>)), D(<<b, DOT>>), SD(J(<<b, DOT>>, <<DOT, b>>), <<DOT, a>>) >>,
  \* 8: two-character names, link to a directory at the top
  << D(<<a, b>>), F(J(<<a, b>>, <<b, a>>)), D(J(<<a, b>>, <<a>>)), F(<<b, a>>), SD(<<a>>, <<a, b>>) >>,
  \* 9: depth three
  << D(<<a>>), D(J(<<a>>, <<b>>)), F(J(J(<<a>>, <<b>>), <<a>>)), F(J(J(<<a>>, <<b>>), <<DOT, a>>)) >>
>>

Cands == [ti \in 1..Len(Trees) |-> CandInfo(Trees[ti])]

Lits == IF RICH < 2 THEN {<<a>>, <<b>>, <<DOT>>, <<DOT, a>>}
        ELSE {<<a>>, <<b>>, <<DOT>>, <<DOT, a>>, <<a, b>>, <<a, DOT>>, <<a, a>>, <<DOT, b>>}
MSets == IF RICH = 0 THEN {<<>>, <<SetM(<<DOT, a>>)>>}
         ELSE IF RICH = 1 THEN {<<>>, <<SetM(<<a>>)>>, <<SetM(<<DOT, a>>)>>}
         ELSE {<<>>, <<SetM(<<a>>)>>, <<SetM(<<DOT, a>>)>>, <<SetM(<<a, SLASH>>)>>, <<RangeM(a, b)>>, <<SetM(<<b>>), ClassM("punct")>>}
Symbols == {Lit(cs) : cs \in Lits} \cup {Slash}
           \cup {Wild(t, ms, h) : t \in {"q", "star", "ss"}, ms \in MSets, h \in BOOLEAN}

NWild(s) == Cardinality({i \in 1..Len(s) : IsWild(s[i])})
StarLike(x) == x.t \in {"star", "ss"}
\* prefix-closed shape constraints: relative pattern, no `//`, literals merged, and no unmodified
\* star directly followed by a star (`***` is not a wildcard)
CanAppend(s, x) ==
  /\ Len(s) < PS
  /\ (IsWild(x) => NWild(s) < MW)
  /\ IF Len(s) = 0 THEN x.t # "slash"
     ELSE LET l == s[Len(s)] IN
          /\ (x.t = "slash" => l.t # "slash")
          /\ (x.t = "lit" => l.t # "lit")
          /\ (StarLike(x) => ~(StarLike(l) /\ l.ms = <<>> /\ ~l.h))

\* complete patterns: at least one wildcard; no component that is exactly `.` or `..`
PureDots(s, i) ==
  /\ s[i].t = "lit" /\ s[i].cs \in {<<DOT>>, <<DOT, DOT>>}
  /\ (i = 1 \/ s[i - 1].t = "slash")
  /\ (i = Len(s) \/ s[i + 1].t = "slash")
Complete(s) == NWild(s) >= 1 /\ ~(\E i \in 1..Len(s) : PureDots(s, i))

Init == segs = <<>>
Next == \E x \in Symbols : CanAppend(segs, x) /\ segs' = Append(segs, x)

(* ---- variants of the global modifiers ---- *)
RECURSIVE Weight(_, _)
Weight(s, i) == IF i > Len(s) THEN 0
                ELSE Weight(s, i + 1) + i * (Len(s[i].cs) + Len(s[i].ms) + (IF s[i].h THEN 3 ELSE 0)
                                             + (CASE s[i].t = "lit" -> 1 [] s[i].t = "slash" -> 2 [] s[i].t = "q" -> 3
                                                  [] s[i].t = "star" -> 5 [] OTHER -> 7))
Variant(ti, r) ==
  LET t == Trees[ti] IN
  CASE r = 1 -> Pat(segs, TRUE, <<>>, "")
    [] r = 2 -> Pat(segs, FALSE, <<>>, "dir")
    [] r = 3 -> Pat(segs, FALSE, <<>>, "regular")
    [] r = 4 -> Pat(segs, FALSE, <<t[1].p>>, "")
    [] r = 5 -> Pat(segs, TRUE, <<t[Len(t)].p, t[1].p>>, "")
    [] r = 6 -> Pat(segs, TRUE, <<>>, "regular")
    [] OTHER -> Pat(segs, FALSE, <<>>, "")
VariantsOf(ti) == {0, ((Weight(segs, 1) + ti) % 6) + 1}

Outcome(ti, r, mi) ==
  LET p  == Variant(ti, r)
      mu == MustOf(mi, p)
  IN [ti |-> ti, nomatchok |-> p.nomatchok, buts |-> p.buts, type |-> p.type, must |-> mu, may |-> MayOf(mi, p) \ mu]

(* ---- design theorems (M) ---- *)
NoHiddenNoDotLit(s) == \A i \in 1..Len(s) : (IsWild(s[i]) => ~s[i].h)
                                          /\ (s[i].t = "lit" => \A k \in 1..Len(s[i].cs) : s[i].cs[k] # DOT)
HasHiddenComp(p) == \E j \in 1..Len(p) : p[j] = DOT /\ (j = 1 \/ p[j - 1] = SLASH)
QToStar(s) == [i \in 1..Len(s) |-> IF s[i].t = "q" THEN Wild("star", s[i].ms, s[i].h) ELSE s[i]]
SSToStar(s) == [i \in 1..Len(s) |-> IF s[i].t = "ss" THEN Wild("star", s[i].ms, s[i].h) ELSE s[i]]
RECURSIVE LitLen(_, _)
LitLen(s, i) == IF i > Len(s) THEN 0 ELSE LitLen(s, i + 1) + (IF s[i].t = "lit" THEN Len(s[i].cs) ELSE IF s[i].t = "slash" THEN 1 ELSE 0)
NoSlashIn(p) == \A j \in 1..Len(p) : p[j] # SLASH

Theorems ==
  (Complete(segs) /\ Len(segs) <= TPS) =>
    \A ti \in 1..Len(Trees) :
      LET T  == Trees[ti]
          P  == Pat(segs, FALSE, <<>>, "")
          mi == Matched(Cands[ti], segs, <<>>)
          mu == MustOf(mi, P)
          ma == MayOf(mi, P)
      IN /\ mu \subseteq ma                                           \* strict => lenient
         /\ \A p \in ma : Walk(T, p).ok                               \* Expand \subseteq existing paths
         /\ (NoHiddenNoDotLit(segs) => \A p \in ma : ~HasHiddenComp(p))   \* no hidden component without match-hidden
         /\ (NWild(segs) = 1 /\ (\E i \in 1..Len(segs) : segs[i].t = "q") =>   \* Q = Star restricted to length 1
               \A p \in {c.p : c \in Cands[ti]} :
                  Match(segs, p, {}, TRUE, <<>>) = (Match(QToStar(segs), p, {}, TRUE, <<>>) /\ Len(p) = LitLen(segs, 1) + 1))
         /\ \A p \in {c.p : c \in Cands[ti]} : NoSlashIn(p) =>                   \* `**` = `*` inside one component
               Match(segs, p, {}, TRUE, <<>>) = Match(SSToStar(segs), p, {}, TRUE, <<>>)

Emit ==
  IF segs = <<>> THEN PrintT(ToJson([trees |-> Trees]))
  ELSE Complete(segs) =>
         PrintT(ToJson([segs |-> segs,
                        out |-> UNION {LET mi == Matched(Cands[ti], segs, <<>>)
                                       IN {Outcome(ti, r, mi) : r \in VariantsOf(ti)} : ti \in 1..Len(Trees)}]))
=============================================================================
