-------------------------------- MODULE Glob --------------------------------
(* C23 -- wildcard expansion, from "Wildcard expansion" of website/ref/language.md.

   Characters are code points (Int); '/' = 47, '.' = 46.  A path is the flattened character
   sequence "c1/c2/.../cn" (a trailing '/' names the directory itself, as in `*/`).

   Tree     sequence of entries [p |-> path, k |-> "file"|"dir"|"symfile"|"symdir", t |-> path]
            p: physical path below the root; t: for "symdir" the physical path of the directory
            the link resolves to (<<>> = the root itself is never used), else <<>>.
   Pattern  [segs, nomatchok, buts, type]
            segs: sequence of [t |-> "lit"|"slash"|"q"|"star"|"ss", cs, ms, h]
                  lit: cs = its characters (non-empty, no '/');  wildcards: ms = matchers (OR-ed,
                  empty = unrestricted), h = match-hidden.
            matcher: [m |-> "set"|"range"|"class", cs, lo, hi, c]   (range: lo..hi inclusive;
                  `range:a~b` is lo..b-1), c in digit|letter|lower|upper|punct|space.
            buts: sequence of paths;  type: "" | "dir" | "regular".
   UC       class table for non-ASCII characters (data from the executor: TLC has no Unicode
            tables): sequence of [ch, cls] with cls the sequence of class names ch belongs to.

   Rule (Match): the pattern's segments consume the path left to right.
     lit     consumes exactly its characters;      slash consumes one '/';
     q       consumes one character other than '/' that its matchers accept;
     star    consumes any number of such characters;
     ss      like star but may also consume '/'.
     A '.' that begins a path component is consumed by a wildcard only if that wildcard has
     match-hidden (a matcher containing '.' is not enough).  Matchers never let q/star consume '/'.
   Expand(tree, pattern) = existing paths that match, minus but:, filtered by type: (symbolic
   links are "regular"), each once; empty => exception unless nomatch-ok.

   Unspecified -- where the reference leaves the outcome open the rule is evaluated in two modes,
   strict (every reading accepts) and lenient (some reading accepts):
       Must(tree, pat) = strict matches        every one of them has to be produced
       May(tree, pat)  = lenient matches       nothing outside may be produced
   U1  component-initial dot after an empty wildcard.  Reading A: the segment that consumes the
       dot decides (a literal may, a wildcard needs match-hidden).  Reading B: the first segment
       standing at the component start decides, even when it matches the empty string there
       (`*[match-hidden]?` vs `.`, `*?[match-hidden]` vs `.`, `*.a` vs `.a`).  strict = A /\ B,
       lenient = A \/ B.  A `**` that has just consumed a '/' stands at the next component start.
   U2  a wildcard-matched component that is a symbolic link to a directory: whether expansion
       descends through it.  strict: the characters of a traversed link component and its
       delimiting slashes are consumed by lit/slash segments only and no wildcard matches
       the empty string inside that component (`b*/` vs a link b); lenient: no restriction.
   U3  `**` with matchers consuming '/': strict only if a matcher accepts '/'; lenient always.
   U4  type: of a path with a trailing slash that names a symbolic link ("s/").
   U5  the trailing '/' of a path ("d/", the directory itself): strict only a slash segment that
       ends the pattern consumes it (`*/`); lenient a `**` may too, and wildcards matching the
       empty string may follow (`?/*` vs "a/").
   Not modelled (never generated): several matchers inside one modifier, `.`/`..` components,
   `//`, absolute patterns; the order of results is not compared. *)
EXTENDS Integers, Sequences, FiniteSets

SLASH == 47
DOT   == 46

(* ---------------- constructors ---------------- *)
Lit(cs)        == [t |-> "lit", cs |-> cs, ms |-> <<>>, h |-> FALSE]
Slash          == [t |-> "slash", cs |-> <<>>, ms |-> <<>>, h |-> FALSE]
Wild(t, ms, h) == [t |-> t, cs |-> <<>>, ms |-> ms, h |-> h]
SetM(cs)       == [m |-> "set", cs |-> cs, lo |-> 0, hi |-> 0, c |-> ""]
RangeM(lo, hi) == [m |-> "range", cs |-> <<>>, lo |-> lo, hi |-> hi, c |-> ""]
ClassM(c)      == [m |-> "class", cs |-> <<>>, lo |-> 0, hi |-> 0, c |-> c]
Pat(segs, nomatchok, buts, type) == [segs |-> segs, nomatchok |-> nomatchok, buts |-> buts, type |-> type]
Ent(p, k, t)   == [p |-> p, k |-> k, t |-> t]

(* ---------------- characters and matchers ---------------- *)
AsciiClass(ch, c) ==
  CASE c = "digit"  -> 48 <= ch /\ ch <= 57
    [] c = "upper"  -> 65 <= ch /\ ch <= 90
    [] c = "lower"  -> 97 <= ch /\ ch <= 122
    [] c = "letter" -> (65 <= ch /\ ch <= 90) \/ (97 <= ch /\ ch <= 122)
    [] c = "space"  -> (9 <= ch /\ ch <= 13) \/ ch = 32
    [] c = "punct"  -> ch \in {33, 34, 35, 37, 38, 39, 40, 41, 42, 44, 45, 46, 47, 58, 59, 63, 64,
                               91, 92, 93, 95, 123, 125}
    [] OTHER        -> FALSE

InClass(ch, c, UC) ==
  IF ch < 128 THEN AsciiClass(ch, c)
  ELSE \E i \in 1..Len(UC) : UC[i].ch = ch /\ (\E j \in 1..Len(UC[i].cls) : UC[i].cls[j] = c)

Accepts1(m, ch, UC) ==
  CASE m.m = "set"   -> \E i \in 1..Len(m.cs) : m.cs[i] = ch
    [] m.m = "range" -> m.lo <= ch /\ ch <= m.hi
    [] m.m = "class" -> InClass(ch, m.c, UC)
    [] OTHER         -> FALSE

Accepts(ms, ch, UC) == Len(ms) = 0 \/ (\E i \in 1..Len(ms) : Accepts1(ms[i], ch, UC))

IsWild(s) == s.t \in {"q", "star", "ss"}

(* ---------------- the matching rule ---------------- *)
(* lock: set of positions of `path` that only lit/slash may consume in strict mode (U2). *)
Match(segs, path, lock, strict, UC) ==
  LET n == Len(path)
      CompInit(j) == j = 1 \/ path[j - 1] = SLASH
      \* f: who stood first at this component start: 0 nobody yet, 1 a literal or a match-hidden
      \* wildcard, 2 a wildcard without match-hidden
      Touch(f, s) == IF f # 0 THEN f ELSE IF (~IsWild(s)) \/ s.h THEN 1 ELSE 2
      CanEat(s, j, f1) ==
        LET ch == path[j] IN
        /\ (strict => j \notin lock)
        /\ IF ch = SLASH
           THEN s.t = "ss" /\ (strict => (Accepts(s.ms, SLASH, UC) /\ j < n))
           ELSE Accepts(s.ms, ch, UC)
        /\ ((CompInit(j) /\ ch = DOT) =>
              IF strict THEN s.h /\ f1 = 1 ELSE s.h \/ f1 = 1)
      \* an empty wildcard match inside (or at the edge of) a locked component also counts
      Clear(j) == ~strict \/ ~(j \in lock /\ (j = 1 \/ (j - 1) \in lock))
      RECURSIVE M(_, _, _)
      M(i, j, f) ==
        IF i > Len(segs) THEN j = n + 1
        ELSE LET s  == segs[i]
                 f1 == IF j <= n + 1 /\ CompInit(j) THEN Touch(f, s) ELSE 0
             IN CASE s.t = "lit" ->
                       LET m == Len(s.cs) IN
                       /\ j + m - 1 <= n
                       /\ \A k \in 1..m : path[j + k - 1] = s.cs[k]
                       /\ ((CompInit(j) /\ path[j] = DOT /\ strict) => f1 = 1)
                       /\ M(i + 1, j + m, 0)
                  [] s.t = "slash" ->
                       /\ j <= n
                       /\ path[j] = SLASH
                       /\ ((strict /\ j = n) => i = Len(segs))
                       /\ M(i + 1, j + 1, 0)
                  [] s.t = "q" ->
                       /\ j <= n
                       /\ CanEat(s, j, f1)
                       /\ M(i + 1, j + 1, 0)
                  [] s.t = "star" ->
                       \/ (Clear(j) /\ M(i + 1, j, f1))
                       \/ (j <= n /\ CanEat(s, j, f1) /\ M(i, j + 1, 0))
                  [] s.t = "ss" ->
                       \/ (Clear(j) /\ M(i + 1, j, f1))
                       \/ (j <= n /\ CanEat(s, j, f1)
                           /\ M(i, j + 1, IF path[j] = SLASH THEN (IF s.h THEN 1 ELSE 2) ELSE 0))
                  [] OTHER -> FALSE
  IN M(1, 1, 0)

(* ---------------- trees: which paths exist ---------------- *)
\* components of a flattened path; "a/" -> << <<97>>, <<>> >>
RECURSIVE SplitFrom(_, _, _)
SplitFrom(path, j, cur) ==
  IF j > Len(path) THEN <<cur>>
  ELSE IF path[j] = SLASH THEN <<cur>> \o SplitFrom(path, j + 1, <<>>)
  ELSE SplitFrom(path, j + 1, Append(cur, path[j]))
Split(path) == SplitFrom(path, 1, <<>>)

Under(dir, c) == IF dir = <<>> THEN c ELSE dir \o <<SLASH>> \o c

Lookup(tree, p) == {i \in 1..Len(tree) : tree[i].p = p}

(* Walk the components like the operating system does.  Result: ok, kind of what the path names
   without resolving a final link ("dir" for a trailing slash), links = indexes of the components
   that are traversed symbolic links, tslink = trailing slash on a link (U4). *)
RECURSIVE WalkFrom(_, _, _, _, _)
WalkFrom(tree, comps, i, cur, links) ==
  LET c == comps[i]
      last == i = Len(comps)
  IN IF c = <<>>
     THEN \* empty component: only as the trailing slash of a directory
          [ok |-> last /\ i > 1, kind |-> "dir", links |-> links, tslink |-> (i - 1) \in links]
     ELSE LET hit == Lookup(tree, Under(cur, c))
          IN IF hit = {} THEN [ok |-> FALSE, kind |-> "none", links |-> links, tslink |-> FALSE]
             ELSE LET e == tree[CHOOSE x \in hit : TRUE]
                  IN IF last THEN [ok |-> TRUE, kind |-> e.k, links |-> links, tslink |-> FALSE]
                     ELSE IF e.k = "dir" THEN WalkFrom(tree, comps, i + 1, e.p, links)
                     ELSE IF e.k = "symdir" THEN WalkFrom(tree, comps, i + 1, e.t, links \cup {i})
                     ELSE [ok |-> FALSE, kind |-> "none", links |-> links, tslink |-> FALSE]

Walk(tree, path) ==
  IF path = <<>> THEN [ok |-> FALSE, kind |-> "none", links |-> {}, tslink |-> FALSE]
  ELSE WalkFrom(tree, Split(path), 1, <<>>, {})

\* positions (in the flattened path) of component number x and of its delimiting slashes
RECURSIVE CompStart(_, _)
CompStart(comps, x) == IF x = 1 THEN 1 ELSE CompStart(comps, x - 1) + Len(comps[x - 1]) + 1
LockOf(path, links) ==
  LET comps == Split(path)
  IN UNION {LET a == CompStart(comps, x) IN {j \in (a - 1)..(a + Len(comps[x])) : j >= 1 /\ j <= Len(path)}
            : x \in links}

(* Candidate paths for Must: physical entries, paths through links to directories (two rounds),
   and directories written with a trailing slash. *)
IsPrefixDir(d, p) == Len(p) > Len(d) + 1 /\ SubSeq(p, 1, Len(d)) = d /\ p[Len(d) + 1] = SLASH
Entries(tree) == {tree[i] : i \in 1..Len(tree)}
ViaOnce(tree, S) ==
  UNION {{s.p \o SubSeq(q, Len(s.t) + 1, Len(q)) : q \in {r \in S : IsPrefixDir(s.t, r)}}
         : s \in {e \in Entries(tree) : e.k = "symdir"}}
CandPaths(tree) ==
  LET c0 == {e.p : e \in Entries(tree)}
      c1 == c0 \cup ViaOnce(tree, c0)
  IN c1 \cup ViaOnce(tree, c1)
\* candidates with their walk result and locked positions (each path is walked once)
CandInfo(tree) ==
  LET Info(p) == LET w == Walk(tree, p) IN [p |-> p, w |-> w, lock |-> LockOf(p, w.links)]
      plain == {x \in {Info(p) : p \in CandPaths(tree)} : x.w.ok}
      slashed == {Info(x.p \o <<SLASH>>) : x \in {y \in plain : y.w.kind \in {"dir", "symdir"}}}
  IN plain \cup slashed
Candidates(tree) == {x.p : x \in CandInfo(tree)}

(* ---------------- filters ---------------- *)
InButs(pat, p) == \E i \in 1..Len(pat.buts) : pat.buts[i] = p

\* w = Walk(tree, p).  Symbolic links are considered to be regular files.
TypeOK(pat, w, strict) ==
  CASE pat.type = ""        -> TRUE
    [] pat.type = "dir"     -> w.kind = "dir" /\ (strict => ~w.tslink)
    [] pat.type = "regular" -> w.kind \in {"file", "symfile", "symdir"} \/ (~strict /\ w.tslink)
    [] OTHER                -> FALSE

\* p is produced by the expansion (strict: under every reading; lenient: under some reading)
Yields(tree, pat, p, strict, UC) ==
  LET w == Walk(tree, p)
  IN /\ w.ok
     /\ ~InButs(pat, p)
     /\ TypeOK(pat, w, strict)
     /\ Match(pat.segs, p, IF strict THEN LockOf(p, w.links) ELSE {}, strict, UC)

\* the candidates that match at all, each with the flag "matches under every reading";
\* the global modifiers are filters on top of this set
Matched(cands, segs, UC) ==
  {[c |-> x, s |-> Match(segs, x.p, x.lock, TRUE, UC)] : x \in {y \in cands : Match(segs, y.p, {}, FALSE, UC)}}
FilterOK(pat, c, strict) == ~InButs(pat, c.p) /\ TypeOK(pat, c.w, strict)
MustOf(mi, pat) == {x.c.p : x \in {y \in mi : y.s /\ FilterOK(pat, y.c, TRUE)}}
MayOf(mi, pat)  == {x.c.p : x \in {y \in mi : FilterOK(pat, y.c, FALSE)}}
MustC(cands, pat, UC) == MustOf(Matched(cands, pat.segs, UC), pat)
MayC(cands, pat, UC)  == MayOf(Matched(cands, pat.segs, UC), pat)
Must(tree, pat, UC) == MustC(CandInfo(tree), pat, UC)
May(tree, pat, UC)  == MayC(CandInfo(tree), pat, UC)

(* ---------------- judging one recorded expansion ---------------- *)
\* res: sequence of produced paths; exc: an exception was raised instead
Dups(res)    == {res[i] : i \in {x \in 1..Len(res) : \E y \in 1..(x - 1) : res[y] = res[x]}}
Missing(tree, pat, res, UC) == {p \in Must(tree, pat, UC) : \A i \in 1..Len(res) : res[i] # p}
Extra(tree, pat, res, UC)   == {res[i] : i \in {x \in 1..Len(res) : ~Yields(tree, pat, res[x], FALSE, UC)}}
ExcBad(pat, res, exc) ==
  \/ exc /\ pat.nomatchok
  \/ exc /\ Len(res) > 0
  \/ ~exc /\ Len(res) = 0 /\ ~pat.nomatchok
=============================================================================
