CONSTANT DETAIL = TRUE
INIT Init
NEXT Next
INVARIANT Inv
