CONSTANT NL = 4
CONSTANT PS = 3
CONSTANT RICH = 0
INIT Init
NEXT Next
INVARIANT TheoremAndEmit
