------------------------------ MODULE MCWidth ------------------------------
(* C34, M + G.
   InitStr:  every initial state is (s, w), s over {narrow, wide, combining, control} up to MaxLen
             (+ newline up to MaxLenNL for TrimEachLine), w in 0..MaxW.  TLC checks the laws of the
             reference and prints the prescribed results of Trim / Force / TrimEachLine.
   InitWidget: every initial state is an abstract widget configuration (label, text view, list
             box, code area; see the sets below).  TLC prints it; the executor renders it with the
             real pkg/cli/tk widget at the sizes of the tier (all of W in 2..8, H in 1..4 in the thorough
             tier) and hands the projected line
             widths to JudgeWidth. *)
EXTENDS Width, TLC, Json, SequencesExt
CONSTANTS MaxLen, MaxLenNL, MaxW, Tier
VARIABLE c

CA == Char(97, 1, 1)       \* narrow
CW == Char(20320, 2, 3)    \* wide
CZ == Char(769, 0, 2)      \* combining, zero width
CC == Char(9, 0, 1)        \* control (tab): width 0 for wcwidth, ^I (2 columns) in a buffer
CN == Char(10, 0, 1)       \* newline

RECURSIVE Strs(_, _)
Strs(A, n) == IF n = 0 THEN {<<>>} ELSE {<<>>} \cup {<<ch>> \o s : ch \in A, s \in Strs(A, n - 1)}

StrCases(z) == {[kind |-> "str", s |-> s, w |-> w] : s \in Strs({CA, CW, CZ, CC}, MaxLen), w \in (-1)..MaxW}
               \cup {[kind |-> "lines", s |-> s, w |-> w] :
                       s \in {x \in Strs({CA, CW, CZ, CN}, MaxLenNL) : \E i \in 1..Len(x) : IsNL(x[i])}, w \in 0..MaxW}
InitStr == c \in StrCases(0)
\* the same cases as successors of marker states (one per width), so that TLC's workers share them
InitStrShards == c \in {[kind |-> "shard", s |-> <<>>, w |-> w] : w \in (-1)..MaxW}
NextStrShards == c.kind = "shard" /\ c' \in {x \in StrCases(0) : x.w = c.w}

StrLaws == c.kind \notin {"str", "lines"} \/ WidthUnspecified(c.w) \/
           (TrimMaximal(c.s, c.w) /\ TrimPrefixClosed(c.s, c.w) /\ ForceExact(c.s, c.w))
EmitStr == c.kind = "shard" \/ PrintT(ToJson([c |-> c, unspec |-> WidthUnspecified(c.w),
                          trim |-> IF WidthUnspecified(c.w) THEN <<>> ELSE TrimRef(c.s, c.w),
                          force |-> IF WidthUnspecified(c.w) THEN <<>> ELSE ForceRef(c.s, c.w),
                          lines |-> IF WidthUnspecified(c.w) THEN <<>> ELSE TrimEachLineRef(c.s, c.w)]))

(* ---- widget configurations ---- *)
Few    == {<<>>, <<CA>>, <<CW>>, <<CA, CW>>, <<CW, CA, CA>>, <<CA, CZ, CA>>, <<CW, CW>>}
Labels == Strs({CA, CW, CN, CC}, IF Tier = 1 THEN 3 ELSE 4) \cup {<<CA, CZ, CW, CA, CA, CW>>}
LabelCfgs == {[kind |-> "label", content |-> s] : s \in Labels}

TVLines == IF Tier = 1 THEN {<<>>, <<CA, CA, CA>>, <<CW, CA>>, <<CA, CW, CW>>, <<CC, CA>>}
           ELSE Few \cup {<<CA, CA, CA>>, <<CC, CA>>, <<CA, CW, CW>>}
RECURSIVE Seqs(_, _)
Seqs(A, n) == IF n = 0 THEN {<<>>} ELSE {<<>>} \cup {<<x>> \o s : x \in A, s \in Seqs(A, n - 1)}
TextViewCfgs == {[kind |-> "textview", lines |-> ls, first |-> f, scrollable |-> sc] :
                   ls \in Seqs(TVLines, IF Tier = 1 THEN 2 ELSE 3), f \in 0..3, sc \in BOOLEAN}

\* list box items: single-line items for both layouts, multi-line items for the vertical one
Items1 == {<<CA>>, <<CW, CA>>, <<CA, CA, CA, CA>>, <<CA, CZ>>}
ItemsN == Items1 \cup {<<CA, CN, CA>>, <<CW, CN, CA, CN, CA, CN, CW>>}
ListBoxCfgs ==
  {[kind |-> "listbox", horizontal |-> h, items |-> it, selected |-> sel, first |-> f, padding |-> p, extend |-> e] :
      h \in BOOLEAN, it \in Seqs(ItemsN, IF Tier = 1 THEN 2 ELSE 3), sel \in 0..2, f \in 0..2, p \in {0, 1}, e \in BOOLEAN}
ListBoxOK(x) == /\ (x.items = <<>> => x.selected = 0 /\ x.first = 0)
                /\ (x.items # <<>> => x.selected < Len(x.items) /\ x.first < Len(x.items))
                /\ (x.horizontal => \A i \in 1..Len(x.items) : \A j \in 1..Len(x.items[i]) : ~IsNL(x.items[i][j]))
                /\ (Tier = 1 => (x.extend => x.padding = 1))

\* code area: prompt, right prompt, buffer with the dot at a char index, pending code replacing
\* buffer[from+1..to] by content, tips under the code
Prompts  == {<<>>, <<CA, CA>>, <<CW>>, <<CA, CN, CA>>}
RPrompts == {<<>>, <<CA>>, <<CW, CA>>, <<CA, CN>>}
Buffers  == IF Tier = 1 THEN {<<>>, <<CA, CA, CA>>, <<CA, CW, CA>>, <<CA, CN, CW>>, <<CC, CA, CZ>>, <<CW, CW, CW, CW>>}
            ELSE Strs({CA, CW, CN}, 3) \cup {<<CC, CA, CZ>>, <<CW, CW, CW, CW>>, <<CA, CA, CA, CA, CA, CA, CA>>}
Pendings == {[from |-> 0, to |-> 0, content |-> <<>>], [from |-> 0, to |-> 1, content |-> <<CW, CA>>],
             [from |-> 1, to |-> 1, content |-> <<CA, CN, CA>>]}
TipSets  == {<<>>, <<<<CA, CA, CA>>>>, <<<<CW, CA, CW>>, <<CA, CN, CA>>>>}
CodeAreaCfgs ==
  {[kind |-> "codearea", prompt |-> p, rprompt |-> r, buffer |-> b, dot |-> d, pending |-> pe, tips |-> t] :
      p \in Prompts, r \in RPrompts, b \in Buffers, d \in 0..7, pe \in Pendings, t \in TipSets}
CodeAreaOK(x) == x.dot <= Len(x.buffer) /\ x.pending.to <= Len(x.buffer)
                 /\ (Tier = 1 => x.dot \in {0, Len(x.buffer)} \/ x.pending.to = 0)

WidgetCfgs(z) == LabelCfgs \cup TextViewCfgs \cup {x \in ListBoxCfgs : ListBoxOK(x)} \cup {x \in CodeAreaCfgs : CodeAreaOK(x)}
InitWidget == c \in WidgetCfgs(0)
EmitWidget == PrintT(ToJson(c))
Next == UNCHANGED c
=============================================================================
