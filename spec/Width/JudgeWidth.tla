----------------------------- MODULE JudgeWidth -----------------------------
(* C34, V / second half of G for widgets: case walker.  A recorded case is one widget
   configuration with what the real widget rendered at several sizes:
     [cfg : ..., renders : sequence of [W, H, lines : the display width of every rendered line]]
   and, for strings, [kind "str"/"lines", s, w, trim, force, lines, ttrim] = what wcwidth.Trim / Force /
   TrimEachLine / ui.Text.TrimWcwidth returned (projected to chars). *)
EXTENDS Width, TLC, Json, SequencesExt
Cases == ndJsonDeserialize("cases.ndjson")
VARIABLE k
Init == k = 0
Next == k < Len(Cases) /\ k' = k + 1
BadRenders(x) == {j \in 1..Len(x.renders) : ~RenderOK(x.renders[j].W, x.renders[j].H, x.renders[j].lines)}
StrOK(x) == WidthUnspecified(x.w) \/
            LET t == TrimRef(x.s, x.w)
            IN /\ x.trim = t
               /\ x.force = t \o Spaces(x.w - SumW(t))                      \* = ForceRef(x.s, x.w)
               /\ x.lines = TrimEachLineRef(x.s, x.w)
               /\ \A i \in 1..Len(x.ttrim) : x.ttrim[i] = t
StrWhy(x) == IF x.trim # TrimRef(x.s, x.w) THEN "trim"
             ELSE IF x.force # ForceRef(x.s, x.w) THEN "force"
             ELSE IF x.lines # TrimEachLineRef(x.s, x.w) THEN "trimeachline" ELSE "text-trimwcwidth"
CaseOK(x) == IF x.kind = "widget" THEN BadRenders(x) = {} ELSE StrOK(x)
Why(x) == IF x.kind = "widget"
          THEN LET j == CHOOSE j \in BadRenders(x) : \A i \in BadRenders(x) : j <= i
               IN <<j, RenderWhy(x.renders[j].W, x.renders[j].H, x.renders[j].lines)>>
          ELSE <<0, StrWhy(x), ToJson(TrimRef(x.s, x.w))>>
Inv == k = 0 \/ CaseOK(Cases[k]) \/ PrintT(<<"BAD", k>> \o Why(Cases[k]))
=============================================================================
