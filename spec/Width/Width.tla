------------------------------- MODULE Width -------------------------------
(* C34 -- width handling fits text to the requested number of columns
   (pkg/wcwidth: Trim, Force, TrimEachLine; ui.Text.TrimWcwidth; pkg/cli/term BufferBuilder and the
   pkg/cli/tk widgets).

   WHAT IS MODELLED
     char    an integer packing (code point, display width 0..2, UTF-8 length): Char(id, w, b).
             The width of a char is DATA (the Unicode width table wcwidth.OfRune is not specified),
             except for control characters, where the documentation decides: wcwidth.go classifies
             r < 32 and 0x7f <= r < 0xa0 as "Control character" of width 0, and
             BufferBuilder.WriteRuneSGR documents that r < 0x20 and 0x7f are written to a buffer in
             caret notation (^X: two columns).  The executor supplies these documented widths.
     string  a sequence of chars.

   THE PROPERTY
     TrimRef(s, w)         wcwidth.Trim(s, w), ui.T(s).TrimWcwidth(w) (plain content):
                           the longest prefix of s (cut between chars) of display width <= w
     ForceRef(s, w)        wcwidth.Force(s, w): TrimRef(s, w) padded with spaces; width exactly w
     TrimEachLineRef(s, w) wcwidth.TrimEachLine: every line (split at newline) trimmed
     RenderOK(W, H, ls)    a widget rendered into W >= 2 columns and H >= 1 rows produced the lines
                           ls (the display width of each, = sum of its cells' widths): at most H lines, none wider than W.

   UNSPECIFIED
     WidthUnspecified(w)   w < 0 (wcwidth.Force panics there; no caller passes it)
     widgets: W < 2; list box items containing a newline in the horizontal layout ("items must
     have only one line", ListBoxSpec); states no widget method produces (selection or first item
     outside the items, dot / pending code outside the buffer or inside a character). *)
EXTENDS Integers, Sequences

Char(id, w, b) == id * 12 + w * 4 + (b - 1)
Id(c) == c \div 12
Wd(c) == (c % 12) \div 4
Bt(c) == (c % 4) + 1
IsNL(c) == Id(c) = 10
Space == Char(32, 1, 1)

RECURSIVE SumW(_)
SumW(s) == IF s = <<>> THEN 0 ELSE Wd(Head(s)) + SumW(Tail(s))
RECURSIVE Sum(_)
Sum(s) == IF s = <<>> THEN 0 ELSE Head(s) + Sum(Tail(s))
Prefix(s, n) == SubSeq(s, 1, n)
IsPrefix(p, s) == Len(p) <= Len(s) /\ p = Prefix(s, Len(p))

WidthUnspecified(w) == w < 0

\* widths are >= 0, so prefix widths are monotone and the longest fitting prefix is unique
TrimLen(s, w) ==
  CHOOSE n \in 0..Len(s) :
    /\ SumW(Prefix(s, n)) <= w
    /\ \A m \in (n + 1)..Len(s) : SumW(Prefix(s, m)) > w
TrimRef(s, w) == Prefix(s, TrimLen(s, w))

RECURSIVE Spaces(_)
Spaces(n) == IF n <= 0 THEN <<>> ELSE <<Space>> \o Spaces(n - 1)
ForceRef(s, w) == TrimRef(s, w) \o Spaces(w - SumW(TrimRef(s, w)))

RECURSIVE SplitNL(_)
SplitNL(s) ==
  IF \A i \in 1..Len(s) : ~IsNL(s[i]) THEN <<s>>
  ELSE LET k == CHOOSE k \in 1..Len(s) : IsNL(s[k]) /\ \A j \in 1..(k - 1) : ~IsNL(s[j])
       IN <<Prefix(s, k - 1)>> \o SplitNL(SubSeq(s, k + 1, Len(s)))
RECURSIVE JoinTrimmed(_, _, _)
JoinTrimmed(ls, w, nl) ==
  IF Len(ls) = 1 THEN TrimRef(ls[1], w)
  ELSE TrimRef(ls[1], w) \o <<nl>> \o JoinTrimmed(Tail(ls), w, nl)
TrimEachLineRef(s, w) == JoinTrimmed(SplitNL(s), w, Char(10, 0, 1))

(* ---- laws of the reference (checked by TLC in MCWidth) ---- *)
TrimMaximal(s, w) ==
  LET r == TrimRef(s, w)
  IN /\ IsPrefix(r, s) /\ SumW(r) <= w
     /\ \A n \in 0..Len(s) : SumW(Prefix(s, n)) <= w => n <= Len(r)          \* no longer prefix fits
TrimPrefixClosed(s, w) ==
  \* trimming a prefix, or trimming again to a smaller width, never yields anything but a prefix
  LET r == TrimRef(s, w)
  IN /\ \A n \in 0..Len(s) : IsPrefix(TrimRef(Prefix(s, n), w), r)
     /\ \A v \in {0, w \div 2, w - 1, w} \cap 0..w : TrimRef(r, v) = TrimRef(s, v)
ForceExact(s, w) == LET f == ForceRef(s, w) IN SumW(f) = w /\ IsPrefix(TrimRef(s, w), f)

(* ---- rendering ---- *)
\* ls: the display widths of the rendered lines
RenderOK(W, H, ls) == Len(ls) <= H /\ \A i \in 1..Len(ls) : ls[i] <= W
RenderWhy(W, H, ls) == IF Len(ls) > H THEN "height-exceeded" ELSE "width-exceeded"
=============================================================================
