----------------------------- MODULE EvalerLock -----------------------------
(* C39 -- "concurrent evaluations, calls and static checks COMPLETE": the lock discipline of
   Evaler.mu (a Go sync.RWMutex) seen from the operations that use it.

   Go's RWMutex is writer-preferring: once a writer waits in Lock(), new RLock() calls block until
   that writer has had its turn -- also the RLock of a goroutine that ALREADY holds a read lock.  So
   a read-side critical section that takes the read lock again (directly or through an accessor
   such as Evaler.Global()) deadlocks as soon as a writer arrives in between.  The code as it is
   never nests (every accessor locks, copies, unlocks; CheckTree/Eval call the accessors one after the
   other); the model has the switch NestedRead to show that TLC finds the deadlock when it does.

   Processes run scripts of operations:
     "r"   one read-side section          RLock .. RUnlock                (Global, Builtin, getModule ..)
     "rr"  a read-side section that takes the read lock a second time inside  (only if NestedRead)
     "w"   one write-side section         Lock .. Unlock                  (setModule, ExtendGlobal, Eval's
                                                                           namespace replacement ..)
   Property  Completes: every reachable state in which some process is not finished has a successor
   (checked as TLC deadlock freedom; Finished states stutter).  *)
EXTENDS Integers, Sequences, FiniteSets
CONSTANTS Procs, Scripts, NestedRead
VARIABLES ip,        \* script position
          held,      \* process -> number of read locks held (0..2), or -1 = holds the write lock
          waitW,     \* set of processes blocked in Lock()
          stage      \* "out" | "in" | "in2"   position inside the current section
vars == <<ip, held, waitW, stage>>

Init == /\ ip = [p \in Procs |-> 1] /\ held = [p \in Procs |-> 0] /\ waitW = {} /\ stage = [p \in Procs |-> "out"]
HasOp(p) == ip[p] <= Len(Scripts[p])
Op(p) == Scripts[p][ip[p]]
Readers == {p \in Procs : held[p] > 0}
Writer  == {p \in Procs : held[p] = -1}
\* RLock succeeds only if nobody holds the write lock and NO WRITER IS WAITING (writer preference)
CanRLock == Writer = {} /\ waitW = {}
CanLock(p) == Writer = {} /\ Readers = {}

RLock(p) == /\ HasOp(p) /\ Op(p) \in {"r", "rr"} /\ stage[p] = "out" /\ CanRLock
            /\ held' = [held EXCEPT ![p] = 1] /\ stage' = [stage EXCEPT ![p] = "in"] /\ UNCHANGED <<ip, waitW>>
\* the nested acquisition of an "rr" section
RLockAgain(p) == /\ NestedRead /\ HasOp(p) /\ Op(p) = "rr" /\ stage[p] = "in" /\ CanRLock
                 /\ held' = [held EXCEPT ![p] = 2] /\ stage' = [stage EXCEPT ![p] = "in2"] /\ UNCHANGED <<ip, waitW>>
RUnlockInner(p) == /\ stage[p] = "in2" /\ held' = [held EXCEPT ![p] = 1] /\ stage' = [stage EXCEPT ![p] = "in3"]
                   /\ UNCHANGED <<ip, waitW>>
RUnlock(p) == /\ HasOp(p) /\ \/ (Op(p) = "r" /\ stage[p] = "in")
                             \/ (Op(p) = "rr" /\ stage[p] = IF NestedRead THEN "in3" ELSE "in")
              /\ held' = [held EXCEPT ![p] = 0] /\ stage' = [stage EXCEPT ![p] = "out"]
              /\ ip' = [ip EXCEPT ![p] = @ + 1] /\ UNCHANGED waitW
\* Lock() is two steps: announce (from now on new readers block), then acquire
LockAnnounce(p) == /\ HasOp(p) /\ Op(p) = "w" /\ stage[p] = "out" /\ p \notin waitW
                   /\ waitW' = waitW \cup {p} /\ UNCHANGED <<ip, held, stage>>
LockAcquire(p) == /\ p \in waitW /\ CanLock(p)
                  /\ waitW' = waitW \ {p} /\ held' = [held EXCEPT ![p] = -1] /\ stage' = [stage EXCEPT ![p] = "in"]
                  /\ UNCHANGED ip
Unlock(p) == /\ held[p] = -1 /\ held' = [held EXCEPT ![p] = 0] /\ stage' = [stage EXCEPT ![p] = "out"]
             /\ ip' = [ip EXCEPT ![p] = @ + 1] /\ UNCHANGED waitW
Finished == \A p \in Procs : ~HasOp(p)
Next == \/ \E p \in Procs : RLock(p) \/ RLockAgain(p) \/ RUnlockInner(p) \/ RUnlock(p) \/ LockAnnounce(p) \/ LockAcquire(p) \/ Unlock(p)
        \/ (Finished /\ UNCHANGED vars)
Spec == Init /\ [][Next]_vars /\ WF_vars(Next)

MutualExclusion == Cardinality(Writer) <= 1 /\ (Writer # {} => Readers = {})
\* the state the replay looks for on the real Evaler: a reader inside its section wants the lock again
\* while a writer waits -- nobody can move
Stuck == \E p \in Procs : stage[p] = "in" /\ HasOp(p) /\ Op(p) = "rr" /\ NestedRead /\ waitW # {}
=============================================================================
