---------------------------- MODULE JudgeShared ----------------------------
(* V for C39: summaries of free-running concurrent runs on one real Evaler.  Every sequential order
   of the evaluations keeps every declared name (with its value) and runs each module's code once. *)
EXTENDS Integers, Sequences, TLC, Json
Cases == ndJsonDeserialize("cases.ndjson")
VARIABLE k
Init == k = 0
Next == k < Len(Cases) /\ k' = k + 1
GlobalNotLost(c) == c.lost = 0 /\ c.wrong = 0
NoFailure(c)     == c.errors = 0
AtMostOnce(c)    == c.maxticks <= 1
NoDataRace(c)    == c.races = 0
Why(c) == IF ~GlobalNotLost(c) THEN "GlobalNotLost" ELSE IF ~NoFailure(c) THEN "UnexpectedError"
          ELSE IF ~NoDataRace(c) THEN "NoDataRace" ELSE "AtMostOnce"
Inv == k = 0 \/ (GlobalNotLost(Cases[k]) /\ NoFailure(Cases[k]) /\ AtMostOnce(Cases[k]) /\ NoDataRace(Cases[k]))
       \/ PrintT(<<"BAD", k, Why(Cases[k])>>)
=============================================================================
