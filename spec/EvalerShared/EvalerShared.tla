---------------------------- MODULE EvalerShared ----------------------------
(* C39 -- one Evaler shared by concurrent evaluations: the module table (Evaler.modules), shaped
   like use / useFromFile / evalModule / CheckTree in pkg/eval (builtin_special.go, eval.go).

   Processes run scripts of  Use(m)  and  Check.
     Use(m):   ReadBegin -> ReadEnd(hit | miss) -> [miss] WriteBegin -> WriteEnd (install the namespace
               BEFORE executing it) -> ExecEnd(ok)            -- a failing module is not modelled here (C22)
     Check:    IterBegin -> IterEnd                           -- mapKeys(ev.modules)
   A Begin/End pair is an ACCESS WINDOW on the Go map.  Switches (all FALSE = the code as it is):
     LockedAccess  every window is entered holding Evaler.mu (write windows exclusively)
     LoadOnce      a miss reserves the key, later users wait for the loader to finish (hypothetical)

   Properties
     NoUnsyncMapAccess  never two processes inside windows of which one writes (Go: fatal error)
     AtMostOnce         a module is executed at most once
     NoPartialVisible   no process other than its loader obtains a namespace that is still executing
   The as-is configuration violates all three; TLC's counterexamples are CANDIDATES that the executor
   replays on the real Evaler with gates at the verifTrace points. *)
EXTENDS Integers, Sequences, FiniteSets, TLC
CONSTANTS Procs, Mods, Scripts, LockedAccess, LoadOnce
VARIABLES pc, ip, cur, win,     \* per process: phase, script position, module in hand, window kind ("", "r", "w", "i")
          cache,                \* module -> "none" | "loading" | "full"
          loader,               \* module -> process that installed the visible namespace (0 none)
          evalCount, got,       \* module -> executions;  process -> set of <<module, state-when-obtained>>
          reserved              \* LoadOnce: module -> reserving process (0 none)
vars == <<pc, ip, cur, win, cache, loader, evalCount, got, reserved>>

Init == /\ pc = [p \in Procs |-> "idle"] /\ ip = [p \in Procs |-> 1] /\ cur = [p \in Procs |-> 0]
        /\ win = [p \in Procs |-> ""]
        /\ cache = [m \in Mods |-> "none"] /\ loader = [m \in Mods |-> 0]
        /\ evalCount = [m \in Mods |-> 0] /\ got = [p \in Procs |-> {}]
        /\ reserved = [m \in Mods |-> 0]

Op(p) == Scripts[p][ip[p]]
HasOp(p) == ip[p] <= Len(Scripts[p])
\* may p open a window of kind k?
MayEnter(p, k) == IF ~LockedAccess THEN TRUE
                  ELSE IF k = "w" THEN \A q \in Procs \ {p} : win[q] = ""
                  ELSE \A q \in Procs \ {p} : win[q] # "w"
Enter(p, k) == win' = [win EXCEPT ![p] = k]
Leave(p)    == win' = [win EXCEPT ![p] = ""]

ReadBegin(p) == /\ pc[p] = "idle" /\ HasOp(p) /\ Op(p).k = "use" /\ MayEnter(p, "r")
                /\ Enter(p, "r") /\ pc' = [pc EXCEPT ![p] = "reading"] /\ cur' = [cur EXCEPT ![p] = Op(p).m]
                /\ UNCHANGED <<ip, cache, loader, evalCount, got, reserved>>
ReadEnd(p) == /\ pc[p] = "reading" /\ Leave(p)
              /\ LET m == cur[p] IN
                 IF cache[m] # "none"
                 THEN /\ (~LoadOnce \/ cache[m] = "full" \/ loader[m] = p)   \* LoadOnce: wait for the loader
                      /\ got' = [got EXCEPT ![p] = @ \cup {<<m, cache[m], loader[m]>>}]
                      /\ pc' = [pc EXCEPT ![p] = "idle"] /\ ip' = [ip EXCEPT ![p] = @ + 1]
                      /\ UNCHANGED reserved
                 ELSE /\ (~LoadOnce \/ reserved[m] = 0)
                      /\ reserved' = IF LoadOnce THEN [reserved EXCEPT ![m] = p] ELSE reserved
                      /\ pc' = [pc EXCEPT ![p] = "missed"] /\ UNCHANGED <<ip, got>>
              /\ UNCHANGED <<cur, cache, loader, evalCount>>
WriteBegin(p) == /\ pc[p] = "missed" /\ MayEnter(p, "w") /\ Enter(p, "w") /\ pc' = [pc EXCEPT ![p] = "writing"]
                 /\ UNCHANGED <<ip, cur, cache, loader, evalCount, got, reserved>>
WriteEnd(p) == /\ pc[p] = "writing" /\ Leave(p)
               /\ cache' = [cache EXCEPT ![cur[p]] = "loading"] /\ loader' = [loader EXCEPT ![cur[p]] = p]
               /\ pc' = [pc EXCEPT ![p] = "executing"]
               /\ UNCHANGED <<ip, cur, evalCount, got, reserved>>
ExecEnd(p) == /\ pc[p] = "executing"
              /\ evalCount' = [evalCount EXCEPT ![cur[p]] = @ + 1]
              /\ cache' = [cache EXCEPT ![cur[p]] = IF loader[cur[p]] = p THEN "full" ELSE @]
              /\ got' = [got EXCEPT ![p] = @ \cup {<<cur[p], "full", p>>}]
              /\ reserved' = [reserved EXCEPT ![cur[p]] = 0]
              /\ pc' = [pc EXCEPT ![p] = "idle"] /\ ip' = [ip EXCEPT ![p] = @ + 1]
              /\ UNCHANGED <<cur, win, loader>>
IterBegin(p) == /\ pc[p] = "idle" /\ HasOp(p) /\ Op(p).k = "check" /\ MayEnter(p, "i")
                /\ Enter(p, "i") /\ pc' = [pc EXCEPT ![p] = "iterating"]
                /\ UNCHANGED <<ip, cur, cache, loader, evalCount, got, reserved>>
IterEnd(p) == /\ pc[p] = "iterating" /\ Leave(p)
              /\ pc' = [pc EXCEPT ![p] = "idle"] /\ ip' = [ip EXCEPT ![p] = @ + 1]
              /\ UNCHANGED <<cur, cache, loader, evalCount, got, reserved>>
Next == \E p \in Procs : ReadBegin(p) \/ ReadEnd(p) \/ WriteBegin(p) \/ WriteEnd(p) \/ ExecEnd(p) \/ IterBegin(p) \/ IterEnd(p)
Spec == Init /\ [][Next]_vars

NoUnsyncMapAccess == \A p, q \in Procs : (p # q /\ win[p] # "" /\ win[q] # "") => (win[p] # "w" /\ win[q] # "w")
AtMostOnce == \A m \in Mods : evalCount[m] <= 1
NoPartialVisible == \A p \in Procs : \A g \in got[p] : g[2] = "loading" => g[3] = p
=============================================================================
