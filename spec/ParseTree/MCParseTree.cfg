CONSTANTS N = 4 NB = 2 MaxNodes = 6 MaxKids = 3 MaxErrs = 1
INIT Init
NEXT Next
INVARIANT Theorem
INVARIANT Sanity
