-------------------------- MODULE JudgeSmartEnter --------------------------
(* V for C02: case walker.  One recorded case per prefix:
     {"len":n, "prefix":true, "errs":[{"from":..,"to":..,"partial":..}], "enter":bool, "area":-1|0|1}
   judged by the predicates of SmartEnter.tla.  Never fails: prints the rejected cases. *)
EXTENDS SmartEnter, TLC, Json
Cases == ndJsonDeserialize("cases.ndjson")
VARIABLE k
JInit == k = 0 /\ n = 0 /\ pv = FALSE /\ errs = {} /\ decision = "none"
JNext == k < Len(Cases) /\ k' = k + 1 /\ UNCHANGED vars
Inv == IF k = 0 THEN TRUE
       ELSE IF CaseOK(Cases[k]) THEN TRUE
       ELSE PrintT(<<"BAD", k, Why(Cases[k])>>)
=============================================================================
