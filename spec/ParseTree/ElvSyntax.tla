------------------------------ MODULE ElvSyntax ------------------------------
(* A GENERATIVE grammar of Elvish surface syntax (website/ref/language.md "Syntax", and the
   grammar comments of pkg/parse/parse.go), written as a derivation state machine:

     state   form -- a sentential form: sequence of symbols, a symbol is a terminal
                     [k |-> "t", s |-> token] or a nonterminal [k |-> "n", s |-> name, d |-> fuel]
     action  Expand -- the LEFTMOST nonterminal is replaced by one of its alternatives
     Done    no nonterminal is left: form is a syntactically valid program (token sequence)

   `d` is the nesting fuel: constructs that nest a chunk or a list of expressions inside a
   primary (captures, lists, maps, lambdas, braced lists, non-literal indices) need d > 0 and
   hand d - 1 to what they contain; the number of expansions of a derivation is bounded by the
   configuration (exhaustive: CONSTRAINT on the TLC level; simulation: -depth).

   Terminals are literal tokens, or CLASS tokens "%XX" that the executor concretises with one of
   several representatives chosen by seed (syn/classes.go lists them; every representative of
   a class is valid wherever the grammar places the class):
     %SP inline space incl. line continuation   %WS space/newline/comment inside brackets
     %PSEP pipeline separator incl. comment     %PIPE | with optional space/newline
     %BG background &                           %CMD command-position bareword
     %BW bareword  %BWB bareword without , =    %SQ 'single'  %DQ "double" with escapes
     %VAR variable forms   %WILD * ** ?         %TILDE ~ forms   %KEY map/option key
     %RSIGN < > >> <>      %FD fd on the left   %FDN fd or - after &   %IDX literal index
     %EMAP empty map       %PARAMS lambda signature between the bars
     %BSEP separator (with comma) inside a braced list   %BWS separator without comma

   Validity is a claim of this module about the language; the executors CHECK it by parsing
   every generated program completely (a program with a parse error is a generator defect and
   stops the check with exit 2 -- it is never counted as a violation).                     *)
EXTENDS Integers, Sequences, TLC
CONSTANT D        \* nesting fuel of the start symbol

T(s)     == [k |-> "t", s |-> s, d |-> 0]
NT(s, d) == [k |-> "n", s |-> s, d |-> d]

Nest(d, alts) == IF d > 0 THEN alts ELSE {}

(* The alternatives of the grammar.  Unit chains are inlined (the sets below are composed by
   TLC), so that one expansion is one syntactic decision:
     Chunk    = [PSEP|SP] Pipes [PSEP|SP] | PSEP | empty
     Pipes    = Pipeline { PSEP Pipeline }
     Pipeline = Form { PIPE Form } [BG]          Form = Head Args
     Head     = %CMD | Cmpd                      Args = { SP (Cmpd | Opt | Redir) }
     Opt      = & KEY [= [Cmpd]]
     Redir    = [FD] RSIGN [SP] Cmpd | [FD] RSIGN [SP] & FDN
     Cmpd     = Idx [IdxNB] | TILDE              Idx = Prim [Index]   IdxNB = PrimNB [Index]
     Index    = "[" IDX "]" | "[" Elems "]" | "[" IDX "]" "[" Elems "]"
     Prim     = PrimNB | List | Map
     PrimNB   = BW | SQ | DQ | VAR | WILD | "(" Chunk ")" | "?(" Chunk ")" | Lambda | Braced
     List     = "[" [WS] [Elems [WS]] "]"        Elems = Cmpd { WS Cmpd }
     Map      = EMAP | "[" [WS] Pairs [WS] "]"   Pairs = Pair { WS Pair }
     Pair     = & KEY [= [WS] [Cmpd]]
     Lambda   = "{" WS [ "|" PARAMS "|" WS ] Chunk "}" | "{|" PARAMS "|" Chunk "}"
     Braced   = "{" BElem { BSEP BElem } "}" | "{" BElemNE BWS BElem "}"
     BElem    = empty | BElemNE                  BElemNE = BWB | Cmpd                     *)
LambdaAlts(d) ==
  { <<T("{"), T("%WS"), NT("Chunk", d - 1), T("}")>>,
    <<T("{|"), T("%PARAMS"), T("|"), NT("Chunk", d - 1), T("}")>>,
    <<T("{"), T("%WS"), T("|"), T("%PARAMS"), T("|"), T("%WS"), NT("Chunk", d - 1), T("}")>> }
BracedAlts(d) ==
  { <<T("{"), NT("BElem", d - 1), T("}")>>,
    <<T("{"), NT("BElem", d - 1), T("%BSEP"), NT("BElem", d - 1), T("}")>>,
    <<T("{"), NT("BElem", d - 1), T("%BSEP"), NT("BElem", d - 1), T("%BSEP"),
      NT("BElem", d - 1), T("}")>>,
    \* a separator without a comma only after a non-empty element ("{" followed by
    \* whitespace opens a lambda)
    <<T("{"), NT("BElemNE", d - 1), T("%BWS"), NT("BElem", d - 1), T("}")>> }
ListAlts(d) ==
  { <<T("["), T("]")>>, <<T("["), NT("Elems", d - 1), T("]")>>,
    <<T("["), T("%WS"), NT("Elems", d - 1), T("%WS"), T("]")>> }
MapAlts(d) ==
  { <<T("%EMAP")>>, <<T("["), NT("Pairs", d - 1), T("]")>>,
    <<T("["), T("%WS"), NT("Pairs", d - 1), T("%WS"), T("]")>> }
PrimNBAlts(d) ==
  { <<T("%BW")>>, <<T("%SQ")>>, <<T("%DQ")>>, <<T("%VAR")>>, <<T("%WILD")>> }
  \cup Nest(d, { <<T("("), NT("Chunk", d - 1), T(")")>>, <<T("?("), NT("Chunk", d - 1), T(")")>> }
               \cup LambdaAlts(d) \cup BracedAlts(d))
PrimAlts(d) == PrimNBAlts(d) \cup Nest(d, ListAlts(d) \cup MapAlts(d))
WithIndex(ps, d) == ps \cup { p \o <<NT("Index", d)>> : p \in ps }
OptAlts(d) ==
  { <<T("&"), T("%KEY"), T("="), NT("Cmpd", d)>>, <<T("&"), T("%KEY")>>,
    <<T("&"), T("%KEY"), T("=")>> }
RedirAlts(d) ==
  { <<T("%RSIGN"), NT("Cmpd", d)>>, <<T("%RSIGN"), T("%SP"), NT("Cmpd", d)>>,
    <<T("%FD"), T("%RSIGN"), NT("Cmpd", d)>>,
    <<T("%RSIGN"), T("&"), T("%FDN")>>,
    <<T("%FD"), T("%RSIGN"), T("&"), T("%FDN")>>,
    <<T("%FD"), T("%RSIGN"), T("%SP"), T("&"), T("%FDN")>> }

Alts(x) ==
  LET d == x.d IN
  CASE x.s = "Chunk" ->
         { << >>, <<T("%PSEP")>>, <<NT("Pipes", d)>>,
           <<T("%PSEP"), NT("Pipes", d)>>, <<NT("Pipes", d), T("%PSEP")>>,
           <<T("%SP"), NT("Pipes", d)>>,   <<NT("Pipes", d), T("%SP")>> }
    [] x.s = "Pipes" ->
         { <<NT("Pipeline", d)>>, <<NT("Pipeline", d), T("%PSEP"), NT("Pipes", d)>> }
    [] x.s = "Pipeline" ->
         { h \o <<NT("Args", d)>> \o t :
             h \in { <<T("%CMD")>>, <<NT("Cmpd", d)>> },
             t \in { << >>, <<T("%PIPE"), NT("Pipeline", d)>>, <<T("%BG")>> } }
    [] x.s = "Args" ->
         { << >> } \cup { <<T("%SP")>> \o a \o <<NT("Args", d)>> :
                            a \in { <<NT("Cmpd", d)>> } \cup OptAlts(d) \cup RedirAlts(d) }
    [] x.s = "Cmpd" ->
         WithIndex(PrimAlts(d), d) \cup { <<NT("Idx", d), NT("IdxNB", d)>>, <<T("%TILDE")>> }
    [] x.s = "Idx"   -> WithIndex(PrimAlts(d), d)
    \* a later part of a compound must not start with "[" (that would be an index)
    [] x.s = "IdxNB" -> WithIndex(PrimNBAlts(d), d)
    [] x.s = "Index" ->
         { <<T("["), T("%IDX"), T("]")>> }
         \cup Nest(d, { <<T("["), NT("Elems", d - 1), T("]")>>,
                        <<T("["), T("%IDX"), T("]"), T("["), NT("Elems", d - 1), T("]")>> })
    [] x.s = "Elems" -> { <<NT("Cmpd", d)>>, <<NT("Cmpd", d), T("%WS"), NT("Elems", d)>> }
    [] x.s = "Pairs" -> { <<NT("Pair", d)>>, <<NT("Pair", d), T("%WS"), NT("Pairs", d)>> }
    [] x.s = "Pair" ->
         { <<T("&"), T("%KEY"), T("="), NT("Cmpd", d)>>,
           <<T("&"), T("%KEY"), T("="), T("%WS"), NT("Cmpd", d)>>,
           <<T("&"), T("%KEY"), T("=")>>, <<T("&"), T("%KEY")>> }
    [] x.s = "BElem" -> { << >>, <<T("%BWB")>>, <<NT("Cmpd", d)>> }
    [] x.s = "BElemNE" -> { <<T("%BWB")>>, <<NT("Cmpd", d)>> }

NTNames == {"Chunk", "Pipes", "Pipeline", "Args", "Cmpd", "Idx", "IdxNB", "Index", "Elems",
            "Pairs", "Pair", "BElem", "BElemNE"}
\* constant-level table of the alternatives (TLCEval: TLC materialises it once)
AltTable == TLCEval([s \in NTNames |-> TLCEval([d \in 0..D |-> TLCEval(Alts(NT(s, d)))])])

VARIABLE form

RECURSIVE FirstNT(_, _)
FirstNT(f, i) == IF i > Len(f) THEN 0 ELSE IF f[i].k = "n" THEN i ELSE FirstNT(f, i + 1)

Done == FirstNT(form, 1) = 0

Expand == LET i == FirstNT(form, 1) IN
          /\ i > 0
          /\ \E a \in AltTable[form[i].s][form[i].d] :
               form' = SubSeq(form, 1, i - 1) \o a \o SubSeq(form, i + 1, Len(form))

\* least number of expansions that completes a sentential form (to prune dead ends of a
\* bounded enumeration; it does not change the set of programs with at most S expansions)
MinSteps(name) == CASE name \in {"Pipes"} -> 3
                    [] name \in {"Pipeline", "Elems", "Pairs"} -> 2
                    [] OTHER -> 1
RECURSIVE Need(_, _)
Need(f, i) == IF i > Len(f) THEN 0
              ELSE (IF f[i].k = "n" THEN MinSteps(f[i].s) ELSE 0) + Need(f, i + 1)

Tokens == [i \in 1..Len(form) |-> form[i].s]
=============================================================================
